/-
C04 — generated tie.  `Otel.Gen.C04` is regenerated from /repo's current source by tools/go2lean on every run of
bin/check (checks/gentie.json); the theorems below are re-checked against the regenerated text.
Sites: the default span limits of sdk/trace/span_limits.go (the C04 model is parametric in `Limits`; the theorems
give the default limits as a model `Limits` value and the facts about it the model's case split depends on), and
`recordingSpan.SetStatus` (sdk/trace/span.go) as a skeleton over `s == nil`, `s.isRecording()`, `s.status.Code`,
`code`, whose leaves list the effects of the path (`code`: new Status{Code: code}; `desc`: description kept;
`set`: s.status overwritten) — tied to the model's `setStatus` (Unset < Error < Ok precedence, description only for Error).
Also the option application of trace/config.go — `attributeOption.applyEvent`, `applySpan`, `applySpanStart`, and the
closure of `WithLinks` — whose bodies are today one unconditional `append` followed by `return c`: any added branch
(e.g. a "store the caller's slice when empty" fast path, seeded C04-9 / C10-12) changes the generated definition and
breaks `gen_apply*_unconditional`.  Tied to `Otel.C04.applyEvent` / `goAppend` (Alias.lean).
-/
import Otel.Gen.C04
import Otel.C04.Model
import Otel.C04.Alias
import Otel.C04.LimitsEnv

namespace Otel.C04.GenTie
open Otel.C04

/-- `NewSpanLimits()` without environment variables, as the model's `Limits` -/
def genDefaultLimits : Limits :=
  { attrCount := Otel.Gen.C04.DefaultAttributeCountLimit
    valueLen := Otel.Gen.C04.DefaultAttributeValueLengthLimit
    eventCount := Otel.Gen.C04.DefaultEventCountLimit
    linkCount := Otel.Gen.C04.DefaultLinkCountLimit
    perEvent := Otel.Gen.C04.DefaultAttributePerEventCountLimit
    perLink := Otel.Gen.C04.DefaultAttributePerLinkCountLimit }

theorem gen_default_limits_value :
    genDefaultLimits = { attrCount := 128, valueLen := -1, eventCount := 128, linkCount := 128, perEvent := 128, perLink := 128 } := by
  decide

/-- by default values are never truncated (negative length limit = unlimited) and every count limit is a
positive bound (neither the "drop everything" case 0 nor the "unlimited" case < 0 of the model) -/
theorem gen_default_limits_cases :
    genDefaultLimits.valueLen < 0 ∧ 0 < genDefaultLimits.attrCount ∧ 0 < genDefaultLimits.eventCount ∧
    0 < genDefaultLimits.linkCount ∧ 0 < genDefaultLimits.perEvent ∧ 0 < genDefaultLimits.perLink := by
  decide

/-! ### SetStatus -/

/-- what a leaf of the generated skeleton does to the span status -/
def interpStatus (leaf : String × List String) (cur : Status) (code : Nat) (desc : Bytes) : Status :=
  if leaf = ("<end>", ["code", "desc", "set"]) then { code := code, desc := desc }
  else if leaf = ("<end>", ["code", "set"]) then { code := code, desc := [] }
  else cur

/-- characterisation: the status is overwritten iff the span exists, is recording and the new code is not lower
than the current one; the description is kept iff the new code is Error (1) -/
theorem gen_set_status_table (isNil recording : Bool) (cur code : Int) :
    Otel.Gen.C04.setStatus isNil recording cur code =
      (if isNil = false ∧ recording = true ∧ cur ≤ code then
         (if code = 1 then ("<end>", ["code", "desc", "set"]) else ("<end>", ["code", "set"]))
       else ("unchanged", [])) := by
  unfold Otel.Gen.C04.setStatus
  cases isNil <;> cases recording <;> by_cases h1 : cur ≤ code <;> by_cases h2 : code = 1 <;>
    simp [h1, h2] <;> (try omega) <;> (repeat' split) <;> (try simp_all) <;> omega

/-- on a live recording span `SetStatus` as written today is the model's `setStatus` -/
theorem gen_set_status_eq_model (cur : Status) (code : Nat) (desc : Bytes) :
    setStatus cur code desc =
      interpStatus (Otel.Gen.C04.setStatus false true (cur.code : Int) (code : Int)) cur code desc := by
  rw [gen_set_status_table]
  unfold setStatus interpStatus
  by_cases h : cur.code > code
  · have h' : ¬ ((false = false) ∧ (true = true) ∧ (cur.code : Int) ≤ (code : Int)) := by omega
    rw [if_pos h, if_neg h']; simp
  · have h' : ((false = false) ∧ (true = true) ∧ (cur.code : Int) ≤ (code : Int)) := ⟨rfl, rfl, by omega⟩
    rw [if_neg h, if_pos h']
    by_cases h1 : code = 1
    · have h1' : (code : Int) = 1 := by omega
      rw [if_pos h1']; simp [h1]
    · have h1' : ¬ ((code : Int) = 1) := by omega
      rw [if_neg h1']; simp [h1]

/-- a nil or ended (non-recording) span is never modified -/
theorem gen_set_status_guarded (isNil recording : Bool) (cur code : Int) (h : isNil = true ∨ recording = false) :
    Otel.Gen.C04.setStatus isNil recording cur code = ("unchanged", []) := by
  rw [gen_set_status_table]
  rcases h with h | h <;> simp [h]

/-! ### trace/config.go: option application is an unconditional append -/

/-- `attributeOption.applyEvent` has a single path: append the option's attributes, return the config -/
theorem gen_applyEvent_unconditional (attrsNil attrsNotNil : Bool) (nAttrs nOpt : Int) :
    Otel.Gen.C04.applyEvent attrsNil attrsNotNil nAttrs nOpt = ("c", ["append"]) := by
  unfold Otel.Gen.C04.applyEvent
  cases attrsNil <;> cases attrsNotNil <;> simp <;> (repeat' split) <;> (try simp_all) <;> omega

/-- … and so has `applySpan`; `applySpanStart` only delegates to it -/
theorem gen_applySpan_unconditional (attrsNil attrsNotNil : Bool) (nAttrs nOpt : Int) :
    Otel.Gen.C04.applySpan attrsNil attrsNotNil nAttrs nOpt = ("c", ["append"]) ∧
    Otel.Gen.C04.applySpanStart = "applySpan" := by
  unfold Otel.Gen.C04.applySpan Otel.Gen.C04.applySpanStart
  cases attrsNil <;> cases attrsNotNil <;> simp <;> (repeat' split) <;> (try simp_all) <;> omega

/-- the closure of `WithLinks` has a single path: append the links, return the config -/
theorem gen_withLinks_unconditional (linksNil linksNotNil : Bool) (nLinks nOpt : Int) :
    Otel.Gen.C04.withLinks linksNil linksNotNil nLinks nOpt = ("cfg", ["append"]) := by
  unfold Otel.Gen.C04.withLinks
  cases linksNil <;> cases linksNotNil <;> simp <;> (repeat' split) <;> (try simp_all) <;> omega

/-- what a leaf of the generated `applyEvent` does to (heap, c.attributes) in the alias model -/
def interpApplyEvent (leaf : String × List String) (grow : Nat → Nat) (hc : Heap × Option Slice) (o : AOpt) :
    Heap × Option Slice :=
  if leaf = ("c", ["append"]) then goAppend grow hc.1 hc.2 (o.read hc.1) else hc

/-- `attributeOption.applyEvent` as written today is the alias model's `applyEvent` (a Go `append`, never a store of
the caller's slice) -/
theorem gen_applyEvent_eq_model (a b : Bool) (n m : Int) (grow : Nat → Nat) (hc : Heap × Option Slice) (o : AOpt) :
    Otel.C04.applyEvent grow hc o = interpApplyEvent (Otel.Gen.C04.applyEvent a b n m) grow hc o := by
  rw [gen_applyEvent_unconditional]; rfl

/-! ### sdk/internal/env: firstInt / IntEnvOr, and the defaults of LimitsEnv.lean -/

/-- the defaults `NewSpanLimits` falls back to in the environment model are the constants in the source -/
theorem gen_default_limits_eq_env_model : genDefaultLimits = defaultLimits := by decide

/-- a Go string that is empty exactly when the modelled variable is -/
def envStr (empty : Bool) : String := if empty then "" else "x"

/-- falling off the end of the loop body is the same as `continue` -/
def loopTag (leaf : String × List String) : String := if leaf.1 = "<end>" then "<continue>" else leaf.1

/-- one iteration of the loop of `env.firstInt` (the skeleton starts at the loop body's first statement): an empty
value moves on to the next key, an unparsable one ends the search with the default (logged), otherwise the parsed
value is returned -/
theorem gen_first_int_step_table (atoiFails : Bool) (value : String) :
    (loopTag (Otel.Gen.C04.firstIntStep atoiFails value), (Otel.Gen.C04.firstIntStep atoiFails value).2) =
      (if value = "" then ("<continue>", ["value=Getenv(key)"])
       else if atoiFails then ("defaultValue", ["value=Getenv(key)", "log"])
       else ("intValue", ["value=Getenv(key)"])) := by
  unfold Otel.Gen.C04.firstIntStep loopTag
  by_cases h : value = "" <;> cases atoiFails <;> simp [h]

/-- `firstInt` as written today is the environment model's `firstInt`, iteration by iteration -/
theorem gen_first_int_eq_model (dflt : Int) (v : Bytes) (rest : List Bytes) :
    firstInt dflt (v :: rest) =
      (let tag := loopTag (Otel.Gen.C04.firstIntStep (atoi v).isNone (envStr v.isEmpty))
       if tag = "<continue>" then firstInt dflt rest
       else if tag = "defaultValue" then dflt else (atoi v).getD 0) := by
  have h := congrArg Prod.fst (gen_first_int_step_table (atoi v).isNone (envStr v.isEmpty))
  simp only at h
  rw [h]
  simp only [firstInt, envStr]
  cases he : v.isEmpty <;> cases ha : atoi v <;> simp

/-- `IntEnvOr` as written today is the environment model's `intEnvOr` -/
theorem gen_int_env_or_eq_model (v : Bytes) (dflt : Int) :
    intEnvOr v dflt =
      (if (Otel.Gen.C04.intEnvOr (atoi v).isNone (envStr v.isEmpty)).1 = "intValue" then (atoi v).getD 0 else dflt) := by
  have h : ∀ (a : Bool) (s : String), Otel.Gen.C04.intEnvOr a s =
      (if s = "" then ("defaultValue", ["value=Getenv(key)"])
       else if a then ("defaultValue", ["value=Getenv(key)", "log"]) else ("intValue", ["value=Getenv(key)"])) := by
    intro a s
    unfold Otel.Gen.C04.intEnvOr
    by_cases h : s = "" <;> cases a <;> simp [h]
  rw [h]
  simp only [intEnvOr, envStr]
  cases he : v.isEmpty <;> cases ha : atoi v <;> simp

end Otel.C04.GenTie
