/-
C04 — executable model of the recording span of sdk/trace (span.go, evictedqueue.go, tracer.go:newRecordingSpan)
as the code is NOW (after the F2/F3/F4 repairs). Core Lean only.

What is mirrored, branch by branch:
* every mutator: `if !s.isRecording() { return }` (`ended`);
* SetAttributes: `len(attributes)==0` return; limit 0 ⇒ all counted as dropped; `limit > 0 && len(s.attributes)+len(attributes) > limit`
  ⇒ addOverCapAttrs (de-duplicate, then update / append / drop); otherwise the fast path (append, invalid dropped,
  values truncated) on the UN-deduplicated slice;
* dedupeAttrsFromRecord: first position, last value (`upsert` = the `record` map lookup + `unique[idx] = a` or append);
* truncateAttr: STRING and STRINGSLICE only, `limit < 0` ⇒ untouched; `truncate` is `Otel.Trunc.truncate`;
* addEvent / AddLink: per-item attribute cap (0 ⇒ all dropped, `> limit` ⇒ prefix kept), attributes neither
  de-duplicated nor validated nor truncated; AddLink ignores a link with invalid span context, no attributes and
  empty trace state;
* RecordError: nil error ⇒ nothing; attributes = user attributes, then exception.type, exception.message;
* evictedQueue.add: capacity 0 ⇒ count only; full ⇒ drop oldest and count; negative capacity ⇒ unbounded;
* SetStatus: ignored when the current code is greater; description kept only for Error;
* snapshot: attributes de-duplicated (only when non-empty), queues copied, the three dropped counters copied
  unconditionally (F4 repair).

External to the model (parameters): the reflect type string of the error (`typeStr`), time stamps, stack traces.
-/
import Otel.Base.Truncate
import Otel.C04.Types
namespace Otel.C04
open Otel

/-- evictedQueue (the capacity lives in the limits) -/
structure EQ (α : Type) where
  queue : List α
  dropped : Nat
deriving DecidableEq, Repr

/-- evictedQueue.add -/
def EQ.add {α : Type} (cap : Int) (q : EQ α) (v : α) : EQ α :=
  if cap = 0 then { q with dropped := q.dropped + 1 }
  else if cap > 0 ∧ (q.queue.length : Int) = cap then
    { queue := q.queue.drop 1 ++ [v], dropped := q.dropped + 1 }
  else { q with queue := q.queue ++ [v] }

/-- truncateAttr on the value: only STRING and STRINGSLICE -/
def truncValue (limit : Int) : Value → Value
  | .str s => .str (Trunc.truncate limit s)
  | .strs l => .strs (l.map (Trunc.truncate limit))
  | v => v

/-- truncateAttr -/
def truncateAttr (limit : Int) (a : KV) : KV :=
  if limit < 0 then a else { a with val := truncValue limit a.val }

/-- one iteration of dedupeAttrsFromRecord: `if idx, ok := record[a.Key]; ok { unique[idx] = a } else { append }`.
The Go map from key to index is modelled by scanning for the (unique) entry with that key. -/
def upsert : List KV → KV → List KV
  | [], a => [a]
  | b :: tl, a => if b.key = a.key then a :: tl else b :: upsert tl a

/-- dedupeAttrsFromRecord with an empty record: first position, last value -/
def dedupe (l : List KV) : List KV := l.foldl upsert []

def hasKey (l : List KV) (k : Bytes) : Bool := l.any (fun b => b.key == k)

/-- `s.attributes[idx] = a` for the idx recorded for a.Key -/
def setKey : List KV → KV → List KV
  | [], _ => []
  | b :: tl, a => if b.key = a.key then a :: tl else b :: setKey tl a

/-- loop body of addOverCapAttrs over (s.attributes, s.droppedAttributes) -/
def overCapStep (limit : Int) (vlim : Int) (st : List KV × Nat) (a : KV) : List KV × Nat :=
  if !a.valid then (st.1, st.2 + 1)
  else if hasKey st.1 a.key then (setKey st.1 (truncateAttr vlim a), st.2)
  else if (st.1.length : Int) ≥ limit then (st.1, st.2 + 1)
  else (st.1 ++ [truncateAttr vlim a], st.2)

/-- loop body of the fast path -/
def fastStep (vlim : Int) (st : List KV × Nat) (a : KV) : List KV × Nat :=
  if !a.valid then (st.1, st.2 + 1) else (st.1 ++ [truncateAttr vlim a], st.2)

/-- the body of SetAttributes after the recording check, on (attributes, droppedAttributes) -/
def setAttributes (lim : Limits) (st : List KV × Nat) (new : List KV) : List KV × Nat :=
  if lim.attrCount = 0 then (st.1, st.2 + new.length)
  else if lim.attrCount > 0 ∧ (st.1.length : Int) + new.length > lim.attrCount then
    new.foldl (overCapStep lim.attrCount lim.valueLen) (dedupe st.1, st.2)
  else new.foldl (fastStep lim.valueLen) st

/-- per-event / per-link attribute cap: (kept attributes, dropped count) -/
def capAttrs (limit : Int) (attrs : List KV) : List KV × Nat :=
  if limit = 0 then ([], attrs.length)
  else if limit > 0 ∧ (attrs.length : Int) > limit then (attrs.take limit.toNat, attrs.length - limit.toNat)
  else (attrs, 0)

def mkEvent (lim : Limits) (name : Bytes) (attrs : List KV) : Event :=
  let c := capAttrs lim.perEvent attrs
  { name := name, attrs := c.1, dropped := c.2 }

def mkLink (lim : Limits) (sc : SC) (attrs : List KV) : Link :=
  let c := capAttrs lim.perLink attrs
  { sc := sc, attrs := c.1, dropped := c.2 }

/-- "exception", "exception.type", "exception.message" (semconv) -/
def excName : Bytes := [0x65, 0x78, 0x63, 0x65, 0x70, 0x74, 0x69, 0x6f, 0x6e]
def excTypeKey : Bytes := excName ++ [0x2e, 0x74, 0x79, 0x70, 0x65]
def excMsgKey : Bytes := excName ++ [0x2e, 0x6d, 0x65, 0x73, 0x73, 0x61, 0x67, 0x65]

/-- the attributes RecordError hands to addEvent: user options first, then type and message -/
def errorAttrs (typ msg : Bytes) (attrs : List KV) : List KV :=
  attrs ++ [⟨excTypeKey, .str typ⟩, ⟨excMsgKey, .str msg⟩]

/-- SetStatus after the recording check -/
def setStatus (cur : Status) (code : Nat) (desc : Bytes) : Status :=
  if cur.code > code then cur
  else { code := code, desc := if code = 1 then desc else [] }

/-- recordingSpan (the fields the property speaks about) -/
structure St where
  name : Bytes
  status : Status
  attrs : List KV
  droppedAttrs : Nat
  events : EQ Event
  links : EQ Link
  ended : Bool
deriving DecidableEq, Repr

def init (name : Bytes) : St :=
  { name := name, status := ⟨0, []⟩, attrs := [], droppedAttrs := 0,
    events := ⟨[], 0⟩, links := ⟨[], 0⟩, ended := false }

def step (lim : Limits) (s : St) : Op → St
  | .setAttrs kvs =>
    if kvs.isEmpty then s
    else if s.ended then s
    else
      let r := setAttributes lim (s.attrs, s.droppedAttrs) kvs
      { s with attrs := r.1, droppedAttrs := r.2 }
  | .addEvent name attrs =>
    if s.ended then s
    else { s with events := s.events.add lim.eventCount (mkEvent lim name attrs) }
  | .addLink sc attrs =>
    if !sc.isValid && attrs.isEmpty && sc.ts == 0 then s
    else if s.ended then s
    else { s with links := s.links.add lim.linkCount (mkLink lim sc attrs) }
  | .recordError err attrs =>
    match err with
    | none => s
    | some (typ, msg) =>
      if s.ended then s
      else { s with events := s.events.add lim.eventCount (mkEvent lim excName (errorAttrs typ msg attrs)) }
  | .setStatus code desc =>
    if s.ended then s else { s with status := setStatus s.status code desc }
  | .setName name =>
    if s.ended then s else { s with name := name }
  | .end_ =>
    if s.ended then s else { s with ended := true }

def run (lim : Limits) (s : St) (ops : List Op) : St := ops.foldl (step lim) s

/-- recordingSpan.snapshot -/
def snapshot (s : St) : Snap :=
  { name := s.name, status := s.status,
    attrs := if s.attrs.length > 0 then dedupe s.attrs else [],
    droppedAttrs := s.droppedAttrs,
    events := s.events.queue, droppedEvents := s.events.dropped,
    links := s.links.queue, droppedLinks := s.links.dropped }

end Otel.C04
