/-
C04 — property theorems about where the span limits come from ("under any span limits" = the limits the provider
resolved): NewSpanLimits / sdk/internal/env / NewTracerProvider / WithSpanLimits / WithRawSpanLimits (LimitsEnv.lean).
-/
import Otel.C04.LimitsEnv
import Otel.C04.Props
namespace Otel.C04
open Otel

private theorem fold_last (opts : List LOpt) : ∀ c : Limits,
    opts.foldl applyLOpt c = match opts.getLast? with
      | some o => applyLOpt c o
      | none => c := by
  induction opts with
  | nil => intro c; rfl
  | cons o tl ih =>
    intro c
    simp only [List.foldl_cons]
    rw [ih]
    cases tl with
    | nil => rfl
    | cons o2 tl2 =>
      rw [List.getLast?_cons_cons]
      cases h : (o2 :: tl2).getLast? with
      | none => simp at h
      | some o' => cases o' <;> rfl

private theorem firstInt_two (a b : Bytes) (d : Int) : firstInt d [a, b] = Spec.twoKeys a b d := by
  simp only [firstInt, Spec.twoKeys, Spec.envInt]
  by_cases ha : a.isEmpty = true
  · simp only [ha, if_true]
    by_cases hb : b.isEmpty = true
    · simp [hb]
    · simp only [hb, if_false, Bool.false_eq_true]
      cases atoi b <;> rfl
  · simp only [ha, if_false, Bool.false_eq_true]
    cases atoi a <;> rfl

private theorem intEnvOr_one (a : Bytes) (d : Int) : intEnvOr a d = Spec.oneKey a d := by
  simp only [intEnvOr, Spec.oneKey, Spec.envInt]
  by_cases ha : a.isEmpty = true
  · simp [ha]
  · simp only [ha, if_false, Bool.false_eq_true]
    cases atoi a <;> rfl

/-- **Limit resolution.** For every content of the eight environment variables and every list of limit options, the
provider's span limits are: the LAST limits option (WithRawSpanLimits as given; WithSpanLimits with every non-positive
field replaced by its default — never by the environment); without an option, per limit, the span-specific variable
if set, else the generic one (attribute count and value length only), else the default — where a set variable that
Atoi rejects yields the default. -/
theorem span_limits_follow_precedence (e : LimEnv) (opts : List LOpt) :
    providerSpanLimits e opts = Spec.limitsFrom e opts := by
  unfold providerSpanLimits Spec.limitsFrom
  rw [fold_last]
  cases opts.getLast? with
  | none =>
    simp only [newSpanLimits, firstInt_two, intEnvOr_one, defaultLimits]
  | some o =>
    cases o with
    | raw l => rfl
    | cooked l => simp only [applyLOpt, cook, orDefault, defaultLimits]

/-- the same in the form the driver evaluates on the limits read from the real provider -/
theorem provider_span_limits_ok (e : LimEnv) (opts : List LOpt) :
    Spec.providerLimitsOK e opts (providerSpanLimits e opts) = true := by
  simp [Spec.providerLimitsOK, span_limits_follow_precedence]

/-- WithSpanLimits never yields a limit that disables a resource: every count limit is positive and the value-length
limit is positive or "unlimited" -/
theorem cooked_limits_usable (l : Limits) :
    0 < (cook l).attrCount ∧ 0 < (cook l).eventCount ∧ 0 < (cook l).linkCount ∧ 0 < (cook l).perEvent ∧
    0 < (cook l).perLink ∧ (0 < (cook l).valueLen ∨ (cook l).valueLen = -1) := by
  simp only [cook, orDefault, defaultLimits]
  refine ⟨?_, ?_, ?_, ?_, ?_, ?_⟩ <;> split <;> omega

/-- a quirk the model mirrors: a span-specific variable that is set but not an integer hides the generic variable
(firstInt returns the default instead of looking at the next key) -/
theorem invalid_specific_key_hides_generic (e : LimEnv) (h1 : e.spanAttrCount ≠ []) (h2 : atoi e.spanAttrCount = none) :
    (providerSpanLimits e []).attrCount = 128 := by
  have : e.spanAttrCount.isEmpty = false := by cases h : e.spanAttrCount <;> simp_all
  simp [providerSpanLimits, newSpanLimits, firstInt, this, h2, defaultLimits]

/-- every span of a provider exports within the limits the provider resolved -/
theorem span_under_provider_limits_well_formed (e : LimEnv) (opts : List LOpt) (name : Bytes) (ops : List Op) :
    Spec.exportWellFormed (providerSpanLimits e opts) (snapshot (run (providerSpanLimits e opts) (init name) ops)) = true :=
  export_well_formed _ _ _

/-- non-vacuity: specific beats generic; an unparsable specific key hides a valid generic one; options replace all -/
example :
    providerSpanLimits ⟨[0x35], [0x37], [], [0x39], [0x30], [], [0x2d, 0x31], [0x78]⟩ [] = ⟨9, 5, 0, -1, 128, 128⟩ ∧
    providerSpanLimits ⟨[], [], [0x78], [0x39], [], [], [], []⟩ [] = ⟨128, -1, 128, 128, 128, 128⟩ ∧
    providerSpanLimits ⟨[0x35], [], [0x35], [], [0x35], [0x35], [0x35], [0x35]⟩ [.raw ⟨0, 0, 0, 0, 0, 0⟩, .cooked ⟨0, 7, -3, 2, 0, 1⟩] =
      ⟨128, 7, 128, 2, 128, 1⟩ ∧
    providerSpanLimits ⟨[0x35], [], [0x35], [], [], [], [], []⟩ [.cooked ⟨1, 1, 1, 1, 1, 1⟩, .raw ⟨0, -1, 0, -2, 0, 3⟩] =
      ⟨0, -1, 0, -2, 0, 3⟩ := by decide

/-- **evictedQueue is a bounded FIFO** (evictedqueue.go `add`, all capacities: 0 = count only, negative = unbounded,
positive = keep the most recent `cap`): after adding any items to an empty queue it holds the last `cap` of them in
order and its dropped count is the number of the others -/
theorem evicted_queue_is_bounded_fifo {α : Type} (cap : Int) (items : List α) :
    items.foldl (EQ.add cap) ⟨[], 0⟩ = ⟨(Spec.lastN cap items).1, (Spec.lastN cap items).2⟩ := by
  have key : ∀ (l all : List α), l.foldl (EQ.add cap) (fifoOf cap all) = fifoOf cap (all ++ l) := by
    intro l
    induction l with
    | nil => intro all; simp
    | cons v tl ih =>
      intro all
      simp only [List.foldl_cons]
      rw [EQ_add_fifoOf, ih]
      simp
  have h0 : (⟨[], 0⟩ : EQ α) = fifoOf cap [] := by
    unfold fifoOf Spec.lastN; split <;> simp
  rw [h0, key items []]
  simp [fifoOf]

end Otel.C04
