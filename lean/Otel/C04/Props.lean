/-
C04 — property theorems (only statements users rely on; helper lemmas live in Base/ and Lemmas files).
-/
import Otel.Base.Truncate
import Otel.C04.Model
import Otel.C04.Spec
import Otel.C04.Lemmas
namespace Otel.C04
open Otel Otel.Utf8 Otel.Trunc

/-- `truncate` (both loops, as written after the F2/F3 repair) computes the reference truncation,
for every limit and every byte string. -/
theorem truncate_spec (limit : Int) (s : Bytes) : truncate limit s = refTrunc limit s := by
  unfold truncate refTrunc
  split
  · rfl
  · rw [fast_eq limit.toNat s (chunks s) [] 0 (by simp [flat_chunks]) (by omega)]
    simp

/-- no limit, or short enough in bytes: returned unchanged -/
theorem truncate_unchanged (limit : Int) (s : Bytes) (h : limit < 0 ∨ (s.length : Int) ≤ limit) :
    truncate limit s = s := by
  simp [truncate, h]

private theorem valid_prefix_wf (s : Bytes) (n : Nat) :
    ∀ c ∈ ((chunks s).filter (fun c => !c.invalid)).take n, c.WF ∧ c.invalid = false := by
  intro c hc
  have h1 := List.mem_of_mem_take hc
  have h2 := List.mem_filter.mp h1
  exact ⟨chunks_wf s c h2.1, by simpa using h2.2⟩

/-- when something is cut, the result has at most `limit` characters … -/
theorem truncate_rune_bound (limit : Int) (s : Bytes) (h : ¬ (limit < 0 ∨ (s.length : Int) ≤ limit)) :
    (runeCount (truncate limit s) : Int) ≤ limit := by
  rw [truncate_spec]
  unfold refTrunc runeCount
  simp only [h, if_false]
  rw [chunks_flat _ (valid_prefix_wf s limit.toNat)]
  simp only [List.length_take]
  omega

/-- … is valid UTF-8 (no character split, invalid bytes discarded) … -/
theorem truncate_valid (limit : Int) (s : Bytes) (h : ¬ (limit < 0 ∨ (s.length : Int) ≤ limit)) :
    validString (truncate limit s) = true := by
  rw [truncate_spec]
  unfold refTrunc validString
  simp only [h, if_false]
  rw [chunks_flat _ (valid_prefix_wf s limit.toNat)]
  simp only [List.all_eq_true]
  intro c hc
  have := (valid_prefix_wf s limit.toNat c hc).2
  simp [this]

/-- … consists of whole characters of `s` in their original order … -/
theorem truncate_chunks_sublist (limit : Int) (s : Bytes) (h : ¬ (limit < 0 ∨ (s.length : Int) ≤ limit)) :
    (chunks (truncate limit s)).Sublist (chunks s) := by
  rw [truncate_spec]
  unfold refTrunc
  simp only [h, if_false]
  rw [chunks_flat _ (valid_prefix_wf s limit.toNat)]
  exact (List.take_sublist _ _).trans List.filter_sublist

/-- … and nothing is cut needlessly: it holds `min limit (number of valid characters of s)` characters. -/
theorem truncate_maximal (limit : Int) (s : Bytes) (h : ¬ (limit < 0 ∨ (s.length : Int) ≤ limit)) :
    runeCount (truncate limit s) = min limit.toNat ((chunks s).filter (fun c => !c.invalid)).length := by
  rw [truncate_spec]
  unfold refTrunc runeCount
  simp only [h, if_false]
  rw [chunks_flat _ (valid_prefix_wf s limit.toNat)]
  simp

/-- non-vacuity: a string with a valid U+FFFD, an invalid byte and a 2-byte rune is really cut -/
example : truncate 2 [0xEF, 0xBF, 0xBD, 0xFF, 0xC5, 0xA1, 0x62] = [0xEF, 0xBF, 0xBD, 0xC5, 0xA1] := by decide

/-! ## The span (sdk/trace/span.go, evictedqueue.go) against the reference of Spec.lean -/

/-- **Main refinement.** For ALL six limits (negative = unlimited, 0, positive), every initial name and EVERY finite
sequence of SetAttributes / AddEvent / AddLink / RecordError / SetStatus / SetName / End calls, the snapshot of the
recording span (lazy un-deduplicated slice, fast path, addOverCapAttrs, evicting queues, SetStatus guard, recording
guard) is exactly what the reference predicts: attributes = bounded insertion-ordered map (each key once, last
value, first position, earliest keys kept, updates applied when full, values cut by `refTrunc`), exact dropped
attribute count, the most recent events/links up to their limits with per-item caps and exact dropped counts,
status by the Unset < Error < Ok lattice with a description only for Error, last name, nothing after End. -/
theorem span_refines_reference (lim : Limits) (name : Bytes) (ops : List Op) :
    snapshot (run lim (init name) ops) = Spec.refExport lim name ops :=
  sim_snapshot lim _ _ (sim_run lim ops _ _ (sim_init lim name))

/-- the same statement in the form the driver evaluates on the implementation's snapshot -/
theorem span_matches_reference (lim : Limits) (name : Bytes) (ops : List Op) :
    Spec.spanMatchesReference lim name ops (snapshot (run lim (init name) ops)) = true := by
  simp [Spec.spanMatchesReference, span_refines_reference]

/-- calls made after End change nothing: every operation is the identity on an ended span … -/
theorem after_end_inert (lim : Limits) (s : St) (op : Op) (h : s.ended = true) : step lim s op = s :=
  step_ended lim s op h

/-- … hence so is every sequence of operations … -/
theorem after_end_inert_run (lim : Limits) (s : St) (ops : List Op) (h : s.ended = true) : run lim s ops = s := by
  induction ops with
  | nil => rfl
  | cons op tl ih =>
    simp only [run, List.foldl_cons] at ih ⊢
    rw [after_end_inert lim s op h]; exact ih

/-- … and what is exported is fixed by the calls up to the first End, whatever follows it. -/
theorem export_fixed_at_end (lim : Limits) (name : Bytes) (pre post : List Op) :
    run lim (init name) (pre ++ Op.end_ :: post) = run lim (init name) (pre ++ [Op.end_]) := by
  have hend : ∀ s : St, (step lim s Op.end_).ended = true := by
    intro s
    by_cases he : s.ended = true <;> simp [step, he]
  simp only [run, List.foldl_append, List.foldl_cons, List.foldl_nil]
  exact after_end_inert_run lim _ post (hend _)

/-- SetStatus precedence Unset(0) < Error(1) < Ok(2): on a recording span the new code is the greater of the two … -/
theorem status_precedence (lim : Limits) (s : St) (code : Nat) (desc : Bytes) (h : s.ended = false) :
    (step lim s (Op.setStatus code desc)).status.code = max s.status.code code := by
  simp only [step, h, Bool.false_eq_true, if_false, setStatus]
  split
  · omega
  · simp only; omega

/-- … a lower code never replaces a higher one (Ok is final, Unset never overrides Error) and leaves the description alone … -/
theorem status_lower_ignored (lim : Limits) (s : St) (code : Nat) (desc : Bytes) (h : code < s.status.code) :
    (step lim s (Op.setStatus code desc)).status = s.status := by
  by_cases he : s.ended = true
  · simp [step, he]
  · simp [step, he, setStatus, h]

/-- … and in every reachable state a description is present only for Error. -/
theorem status_description_only_for_error (lim : Limits) (name : Bytes) (ops : List Op)
    (h : (run lim (init name) ops).status.code ≠ 1) : (run lim (init name) ops).status.desc = [] := by
  have hs := (sim_run lim ops _ _ (sim_init lim name)).status
  rw [hs] at h ⊢
  unfold Spec.refStatus at h ⊢
  simp only at h ⊢
  simp [h]

/-- each attribute key appears once in the export -/
theorem export_keys_unique (lim : Limits) (name : Bytes) (ops : List Op) :
    (snapshot (run lim (init name) ops)).attrs.Pairwise (fun a b => a.key ≠ b.key) := by
  simp only [snapshot]
  split
  · exact keysNodup_dedupe _
  · exact List.Pairwise.nil

/-- never more attributes than the limit (none at all for limit 0) -/
theorem export_attr_bound (lim : Limits) (name : Bytes) (ops : List Op) (h : lim.attrCount ≥ 0) :
    ((snapshot (run lim (init name) ops)).attrs.length : Int) ≤ lim.attrCount := by
  have hb := (sim_run lim ops _ _ (sim_init lim name)).bound h
  simp only [snapshot]
  split
  · have := length_dedupe_le (run lim (init name) ops).attrs
    omega
  · simpa using h

/-- never more events / links than their limits -/
theorem export_event_link_bound (lim : Limits) (name : Bytes) (ops : List Op) :
    (lim.eventCount ≥ 0 → ((snapshot (run lim (init name) ops)).events.length : Int) ≤ lim.eventCount) ∧
    (lim.linkCount ≥ 0 → ((snapshot (run lim (init name) ops)).links.length : Int) ≤ lim.linkCount) := by
  have hs := sim_run lim ops _ _ (sim_init lim name)
  simp only [snapshot, hs.events, hs.links, fifoOf, Spec.lastN]
  constructor <;> intro h <;> split <;> simp only [List.length_drop] <;> omega

/-- every export satisfies the limit-shaped facts of `Spec.exportWellFormed` (the second predicate the driver evaluates
on the implementation's snapshot): keys unique, attribute/event/link counts within their limits, per-event and
per-link attribute counts within theirs, only valid attributes stored, every stored STRING / STRINGSLICE element either
fits the value-length limit in bytes or is at most that many characters of valid UTF-8, a description only for Error,
nothing stored under limit 0, nothing evicted without a limit -/
theorem export_well_formed (lim : Limits) (name : Bytes) (ops : List Op) :
    Spec.exportWellFormed lim (snapshot (run lim (init name) ops)) = true := by
  rw [span_refines_reference]
  exact refView_wellFormed lim _ (refInv_run lim ops _ (refInv_init lim name))

/-- exact dropped counts for events and links: what is exported plus what is reported dropped is exactly what was added
before End (the reference keeps the complete history) -/
theorem export_event_link_conservation (lim : Limits) (name : Bytes) (ops : List Op) :
    (snapshot (run lim (init name) ops)).events.length + (snapshot (run lim (init name) ops)).droppedEvents =
        (ops.foldl (Spec.refStep lim) (Spec.refInit name)).events.length ∧
    (snapshot (run lim (init name) ops)).links.length + (snapshot (run lim (init name) ops)).droppedLinks =
        (ops.foldl (Spec.refStep lim) (Spec.refInit name)).links.length := by
  rw [span_refines_reference]
  exact ⟨lastN_conservation _ _, lastN_conservation _ _⟩

/-- the reference map does what the statement says for an existing key: the update is applied even when the map is
full, the key keeps its position, no key is added … -/
theorem reference_update_existing_key (cap : Int) (m : List KV) (a : KV) (h : ∃ b ∈ m, b.key = a.key) :
    ∃ m', Spec.insertBounded cap m a = some m' ∧ m'.map (·.key) = m.map (·.key) ∧ a ∈ m' := by
  have hany : (m.any fun b => b.key == a.key) = true := by
    simp only [List.any_eq_true, beq_iff_eq]; exact h
  refine ⟨m.map (fun b => if b.key == a.key then a else b), by simp only [Spec.insertBounded, hany, if_true], ?_, ?_⟩
  · simp only [List.map_map]
    apply List.map_congr_left
    intro b _
    by_cases hb : b.key = a.key <;> simp [hb]
  · obtain ⟨b, hb, hk⟩ := h
    exact List.mem_map.mpr ⟨b, hb, by simp [hk]⟩

/-- … and for a new key: appended at the end while there is room (so the earliest keys are the ones kept), refused
(= counted as dropped by `refAttr`) when the map is full -/
theorem reference_insert_new_key (cap : Int) (m : List KV) (a : KV) (h : ∀ b ∈ m, b.key ≠ a.key) :
    Spec.insertBounded cap m a = if cap < 0 ∨ (m.length : Int) < cap then some (m ++ [a]) else none := by
  have hany : (m.any fun b => b.key == a.key) = false := by
    rw [List.any_eq_false]; intro b hb; simp [h b hb]
  simp only [Spec.insertBounded, hany, Bool.false_eq_true, if_false]

/-- exact dropped attribute count, one attribute at a time: an offered attribute is either stored (its possibly
truncated value is in the map afterwards and the count is unchanged) or the map is unchanged and the count grows by
exactly one — never both, never neither -/
theorem reference_attr_stored_or_counted (lim : Limits) (st : List KV × Nat) (a : KV) :
    ((Spec.refAttr lim st a).1 = st.1 ∧ (Spec.refAttr lim st a).2 = st.2 + 1) ∨
    ((Spec.refAttr lim st a).2 = st.2 ∧ a.valid = true ∧
      (⟨a.key, Spec.refTruncValue lim.valueLen a.val⟩ : KV) ∈ (Spec.refAttr lim st a).1) := by
  unfold Spec.refAttr
  by_cases hv : a.valid = true
  · simp only [hv, Bool.not_true, Bool.false_eq_true, if_false]
    by_cases hk : ∃ b ∈ st.1, b.key = a.key
    · obtain ⟨m', h1, _, h3⟩ := reference_update_existing_key lim.attrCount st.1
        ⟨a.key, Spec.refTruncValue lim.valueLen a.val⟩ hk
      rw [h1]
      exact Or.inr ⟨rfl, trivial, h3⟩
    · have hk' : ∀ b ∈ st.1, b.key ≠ a.key := by
        intro b hb hkey; exact hk ⟨b, hb, hkey⟩
      rw [reference_insert_new_key lim.attrCount st.1 ⟨a.key, Spec.refTruncValue lim.valueLen a.val⟩ hk']
      by_cases hc : lim.attrCount < 0 ∨ (st.1.length : Int) < lim.attrCount
      · rw [if_pos hc]
        exact Or.inr ⟨rfl, trivial, by simp⟩
      · rw [if_neg hc]
        exact Or.inl ⟨rfl, rfl⟩
  · have hv' : a.valid = false := by simpa using hv
    simp [hv']

/-- non-vacuity: limits that bite (2 attributes, values cut to 1 character, 1 event with 1 attribute), a duplicate key
straddling the capacity boundary, an update while full, an invalid attribute, an evicted event, a lower status after
Error, calls after End -/
example :
    snapshot (run ⟨2, 1, 1, -1, 1, 0⟩ (init [0x6e])
      [.setAttrs [⟨[0x61], .int 1⟩],
       .setAttrs [⟨[0x61], .str [0xC5, 0xA1, 0xFF, 0x62]⟩, ⟨[0x62], .bool true⟩, ⟨[0x63], .int 3⟩, ⟨[], .int 4⟩],
       .addEvent [0x65] [⟨[0x61], .int 1⟩, ⟨[0x61], .int 2⟩],
       .recordError (some ([0x54], [0x6d])) [],
       .addLink ⟨1, 1, 0⟩ [⟨[0x61], .int 1⟩],
       .setStatus 1 [0x64], .setStatus 0 [0x78],
       .end_,
       .setAttrs [⟨[0x61], .int 9⟩], .setName [0x6d], .setStatus 2 []]) =
    { name := [0x6e], status := ⟨1, [0x64]⟩,
      attrs := [⟨[0x61], .str [0xC5, 0xA1]⟩, ⟨[0x62], .bool true⟩], droppedAttrs := 2,
      events := [⟨excName, [⟨excTypeKey, .str [0x54]⟩], 1⟩], droppedEvents := 1,
      links := [⟨⟨1, 1, 0⟩, [], 1⟩], droppedLinks := 0 } := by decide

/-- non-vacuity of the hypotheses used above: an ended state exists and is reached by End (`after_end_inert`), and a
call after it really is dropped although the same call on the recording span is not -/
example : (run ⟨-1, -1, -1, -1, -1, -1⟩ (init []) [.end_]).ended = true ∧
    run ⟨-1, -1, -1, -1, -1, -1⟩ (init []) [.end_, .setName [0x6d]] = run ⟨-1, -1, -1, -1, -1, -1⟩ (init []) [.end_] ∧
    (run ⟨-1, -1, -1, -1, -1, -1⟩ (init []) [.setName [0x6d]]).name = [0x6d] := by decide

/-- `status_precedence` / `status_lower_ignored` / `status_description_only_for_error`: a recording state with status
Error exists; Unset after it is ignored, Error again replaces the description, Ok wins and clears it, Error after Ok is ignored -/
example :
    let lim : Limits := ⟨-1, -1, -1, -1, -1, -1⟩
    let s := run lim (init []) [.setStatus 1 [0x61]]
    s.ended = false ∧ s.status = ⟨1, [0x61]⟩ ∧
    (step lim s (.setStatus 0 [0x62])).status = ⟨1, [0x61]⟩ ∧
    (step lim s (.setStatus 1 [0x62])).status = ⟨1, [0x62]⟩ ∧
    (step lim s (.setStatus 2 [0x62])).status = ⟨2, []⟩ ∧
    (step lim (step lim s (.setStatus 2 [0x62])) (.setStatus 1 [0x63])).status = ⟨2, []⟩ := by decide

/-- `reference_update_existing_key` / `reference_insert_new_key`: a full map (capacity 2) takes an update of its first key
in place and refuses a third key -/
example :
    Spec.insertBounded 2 [⟨[0x61], .int 1⟩, ⟨[0x62], .int 2⟩] ⟨[0x61], .int 3⟩ = some [⟨[0x61], .int 3⟩, ⟨[0x62], .int 2⟩] ∧
    Spec.insertBounded 2 [⟨[0x61], .int 1⟩, ⟨[0x62], .int 2⟩] ⟨[0x63], .int 3⟩ = none ∧
    Spec.insertBounded 3 [⟨[0x61], .int 1⟩, ⟨[0x62], .int 2⟩] ⟨[0x63], .int 3⟩ =
      some [⟨[0x61], .int 1⟩, ⟨[0x62], .int 2⟩, ⟨[0x63], .int 3⟩] := by decide

end Otel.C04
