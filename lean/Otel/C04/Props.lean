/-
C04 — property theorems (only statements users rely on; helper lemmas live in Base/ and Lemmas files).
-/
import Otel.Base.Truncate
namespace Otel.C04
open Otel Otel.Utf8 Otel.Trunc

/-- `truncate` (both loops, as written after the F2/F3 repair) computes the reference truncation,
for every limit and every byte string. -/
theorem truncate_spec (limit : Int) (s : Bytes) : truncate limit s = refTrunc limit s := by
  unfold truncate refTrunc
  split
  · rfl
  · rw [fast_eq limit.toNat s (chunks s) [] 0 (by simp [flat_chunks]) (by omega)]
    simp

/-- no limit, or short enough in bytes: returned unchanged -/
theorem truncate_unchanged (limit : Int) (s : Bytes) (h : limit < 0 ∨ (s.length : Int) ≤ limit) :
    truncate limit s = s := by
  simp [truncate, h]

private theorem valid_prefix_wf (s : Bytes) (n : Nat) :
    ∀ c ∈ ((chunks s).filter (fun c => !c.invalid)).take n, c.WF ∧ c.invalid = false := by
  intro c hc
  have h1 := List.mem_of_mem_take hc
  have h2 := List.mem_filter.mp h1
  exact ⟨chunks_wf s c h2.1, by simpa using h2.2⟩

/-- when something is cut, the result has at most `limit` characters … -/
theorem truncate_rune_bound (limit : Int) (s : Bytes) (h : ¬ (limit < 0 ∨ (s.length : Int) ≤ limit)) :
    (runeCount (truncate limit s) : Int) ≤ limit := by
  rw [truncate_spec]
  unfold refTrunc runeCount
  simp only [h, if_false]
  rw [chunks_flat _ (valid_prefix_wf s limit.toNat)]
  simp only [List.length_take]
  omega

/-- … is valid UTF-8 (no character split, invalid bytes discarded) … -/
theorem truncate_valid (limit : Int) (s : Bytes) (h : ¬ (limit < 0 ∨ (s.length : Int) ≤ limit)) :
    validString (truncate limit s) = true := by
  rw [truncate_spec]
  unfold refTrunc validString
  simp only [h, if_false]
  rw [chunks_flat _ (valid_prefix_wf s limit.toNat)]
  simp only [List.all_eq_true]
  intro c hc
  have := (valid_prefix_wf s limit.toNat c hc).2
  simp [this]

/-- … consists of whole characters of `s` in their original order … -/
theorem truncate_chunks_sublist (limit : Int) (s : Bytes) (h : ¬ (limit < 0 ∨ (s.length : Int) ≤ limit)) :
    (chunks (truncate limit s)).Sublist (chunks s) := by
  rw [truncate_spec]
  unfold refTrunc
  simp only [h, if_false]
  rw [chunks_flat _ (valid_prefix_wf s limit.toNat)]
  exact (List.take_sublist _ _).trans List.filter_sublist

/-- … and nothing is cut needlessly: it holds `min limit (number of valid characters of s)` characters. -/
theorem truncate_maximal (limit : Int) (s : Bytes) (h : ¬ (limit < 0 ∨ (s.length : Int) ≤ limit)) :
    runeCount (truncate limit s) = min limit.toNat ((chunks s).filter (fun c => !c.invalid)).length := by
  rw [truncate_spec]
  unfold refTrunc runeCount
  simp only [h, if_false]
  rw [chunks_flat _ (valid_prefix_wf s limit.toNat)]
  simp

/-- non-vacuity: a string with a valid U+FFFD, an invalid byte and a 2-byte rune is really cut -/
example : truncate 2 [0xEF, 0xBF, 0xBD, 0xFF, 0xC5, 0xA1, 0x62] = [0xEF, 0xBF, 0xBD, 0xC5, 0xA1] := by decide

end Otel.C04
