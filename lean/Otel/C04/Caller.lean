/-
C04 — the caller's side of the span API: attribute arguments that are SUB-SLICES OF CALLER-OWNED ARRAYS (with spare
capacity behind them) which the caller keeps writing to after the call — the scratch-buffer idiom
(`buf = append(buf[:0], …)`) and the attribute-table idiom (`table[i:j]`). Core Lean only.

This file holds what the model (Alias.lean: Go slices and `append` on a heap, as trace/config.go and span.go use them)
and the reference (value semantics) have in common: the caller's arrays, the script operations, and the
VALUE SEMANTICS of a script — every argument is read when the call is made; afterwards only the caller's own writes
change the caller's arrays and nothing the caller does changes the span (`resolveAll`, `callerBufs`; `crun` in Alias.lean).
-/
import Otel.C04.Types
namespace Otel.C04
open Otel

/-- `array_b[off : off+n]` (its capacity reaches to the end of the array) -/
structure Seg where
  b : Nat
  off : Nat
  n : Nat
deriving DecidableEq, Repr

/-- the caller's arrays, over their whole capacity -/
abbrev Bufs := List (List KV)

/-- the zero `attribute.KeyValue` (a cell never written) -/
def zeroKV : KV := ⟨[], .invalid⟩

def initBufs (caps : List Nat) : Bufs := caps.map (fun c => List.replicate c zeroKV)

/-- Go's `copy(l[p:], xs)` for `p ≤ len(l)`: as many elements as fit, the length never changes -/
def writeAt (l : List KV) (p : Nat) (xs : List KV) : List KV :=
  l.take p ++ xs.take (l.length - p) ++ l.drop (p + xs.length)

def readArr (l : List KV) (off n : Nat) : List KV := (l.drop off).take n

def readSeg (bufs : Bufs) (s : Seg) : List KV := readArr (bufs.getD s.b []) s.off s.n

def readSegs (bufs : Bufs) (segs : List Seg) : List KV := segs.flatMap (readSeg bufs)

/-- the caller writes `copy(array_b[off:], kvs)`; an index outside the arrays is a no-op (the harness guards it) -/
def writeBuf (bufs : Bufs) (b off : Nat) (kvs : List KV) : Bufs :=
  bufs.modify b (fun l => if off ≤ l.length then writeAt l off kvs else l)

/-- one step of a caller script -/
inductive COp where
  /-- a call with literal (freshly allocated) arguments -/
  | plain (op : Op)
  /-- the caller writes into one of its arrays -/
  | write (b off : Nat) (kvs : List KV)
  /-- `SetAttributes(seg...)` / `Start(WithAttributes(seg1...), WithAttributes(seg2...))` -/
  | setAttrsFrom (segs : List Seg)
  /-- `AddEvent(name, WithAttributes(seg1...), WithAttributes(seg2...), …)` -/
  | addEventFrom (name : Bytes) (segs : List Seg)
  /-- `RecordError(err, WithAttributes(seg1...), …)` -/
  | recordErrorFrom (err : Option (Bytes × Bytes)) (segs : List Seg)
  /-- `AddLink(Link{sc, seg})` -/
  | addLinkFrom (sc : SC) (seg : Seg)
deriving DecidableEq, Repr

def COp.isWrite : COp → Bool
  | .write .. => true
  | _ => false

/-- the span API call a script step makes, its arguments READ AT THE TIME OF THE CALL (`none`: a caller write) -/
def resolve (bufs : Bufs) : COp → Option Op
  | .plain op => some op
  | .write .. => none
  | .setAttrsFrom segs => some (.setAttrs (readSegs bufs segs))
  | .addEventFrom name segs => some (.addEvent name (readSegs bufs segs))
  | .recordErrorFrom err segs => some (.recordError err (readSegs bufs segs))
  | .addLinkFrom sc seg => some (.addLink sc (readSeg bufs seg))

/-- the plain op list a script amounts to: each call with the argument values of its moment -/
def resolveAll : Bufs → List COp → List Op
  | _, [] => []
  | bufs, .write b off kvs :: tl => resolveAll (writeBuf bufs b off kvs) tl
  | bufs, c :: tl =>
    match resolve bufs c with
    | some op => op :: resolveAll bufs tl
    | none => resolveAll bufs tl

/-- the caller's arrays after a script: the caller's own writes and nothing else -/
def callerBufs : Bufs → List COp → Bufs
  | bufs, [] => bufs
  | bufs, .write b off kvs :: tl => callerBufs (writeBuf bufs b off kvs) tl
  | bufs, _ :: tl => callerBufs bufs tl

end Otel.C04
