/-
C04 — the reference the exported span must equal, written from the property statement and independently of the
model's mechanisms (no lazy de-duplication, no fast/slow path, no evicting queue):

* attributes: a bounded insertion-ordered map — each key once, last value wins at the position of the first
  insertion, never more than the limit, earliest keys kept, updates to existing keys applied even when full,
  every attribute not stored (invalid, or new key without room) counted as dropped;
* string values: `Otel.Trunc.refTrunc` (the first `limit` valid characters when longer than `limit` bytes);
* events / links: the complete history is kept, the export shows the most recent `limit` of them and counts the
  rest; each item keeps its first `perItem` attributes and counts the rest;
* status: the greatest code ever set in the order Unset(0) < Error(1) < Ok(2); the description is the one of the last
  call that set Error, and only while the status is Error;
* name: the last one set; calls after End change nothing.

The same definitions are the conclusions of the theorems in Props.lean and the oracle the driver evaluates on the
snapshot the real span exported (`spanMatchesReference`, `exportWellFormed`).
-/
import Otel.Base.Truncate
import Otel.C04.Types
import Otel.C04.Caller
namespace Otel.C04.Spec
open Otel Otel.C04

/-- value-length limit on a value: STRING and each element of a STRINGSLICE -/
def refTruncValue (limit : Int) : Value → Value
  | .str s => .str (Trunc.refTrunc limit s)
  | .strs l => .strs (l.map (Trunc.refTrunc limit))
  | v => v

/-- bounded insertion-ordered map: `some m'` after storing `a`, `none` when `a` has a new key and there is no room -/
def insertBounded (cap : Int) (m : List KV) (a : KV) : Option (List KV) :=
  if m.any (fun b => b.key == a.key) then
    some (m.map (fun b => if b.key == a.key then a else b))
  else if cap < 0 ∨ (m.length : Int) < cap then some (m ++ [a])
  else none

/-- one attribute offered to the span: (map, dropped count) -/
def refAttr (lim : Limits) (st : List KV × Nat) (a : KV) : List KV × Nat :=
  if !a.valid then (st.1, st.2 + 1)
  else match insertBounded lim.attrCount st.1 ⟨a.key, refTruncValue lim.valueLen a.val⟩ with
    | some m => (m, st.2)
    | none => (st.1, st.2 + 1)

/-- per-item attribute cap: the first `limit` attributes and the number cut off -/
def refCap (limit : Int) (attrs : List KV) : List KV × Nat :=
  if limit < 0 then (attrs, 0) else (attrs.take limit.toNat, attrs.length - limit.toNat)

/-- bounded FIFO seen from its complete history: the most recent `cap` items and the number evicted -/
def lastN {α : Type} (cap : Int) (all : List α) : List α × Nat :=
  if cap < 0 then (all, 0) else (all.drop (all.length - cap.toNat), all.length - cap.toNat)

/-- status lattice Unset < Error < Ok over the complete history of SetStatus calls -/
def refStatus (calls : List (Nat × Bytes)) : Status :=
  let top := calls.foldl (fun m c => max m c.1) 0
  { code := top,
    desc := if top = 1 then
        match (calls.filter (fun c => c.1 == 1)).getLast? with
        | some c => c.2
        | none => []
      else [] }

structure RefSpan where
  name : Bytes
  statusCalls : List (Nat × Bytes)
  attrs : List KV
  droppedAttrs : Nat
  events : List Event
  links : List Link
  ended : Bool
deriving DecidableEq, Repr

def refInit (name : Bytes) : RefSpan :=
  { name := name, statusCalls := [], attrs := [], droppedAttrs := 0, events := [], links := [], ended := false }

def refEvent (lim : Limits) (name : Bytes) (attrs : List KV) : Event :=
  { name := name, attrs := (refCap lim.perEvent attrs).1, dropped := (refCap lim.perEvent attrs).2 }

def refLink (lim : Limits) (sc : SC) (attrs : List KV) : Link :=
  { sc := sc, attrs := (refCap lim.perLink attrs).1, dropped := (refCap lim.perLink attrs).2 }

def excEventName : Bytes := [0x65, 0x78, 0x63, 0x65, 0x70, 0x74, 0x69, 0x6f, 0x6e]
def excTypeAttr : Bytes := excEventName ++ [0x2e, 0x74, 0x79, 0x70, 0x65]
def excMessageAttr : Bytes := excEventName ++ [0x2e, 0x6d, 0x65, 0x73, 0x73, 0x61, 0x67, 0x65]

def refStep (lim : Limits) (r : RefSpan) (op : Op) : RefSpan :=
  if r.ended then r
  else match op with
    | .setAttrs kvs =>
      let x := kvs.foldl (refAttr lim) (r.attrs, r.droppedAttrs)
      { r with attrs := x.1, droppedAttrs := x.2 }
    | .addEvent name attrs => { r with events := r.events ++ [refEvent lim name attrs] }
    | .addLink sc attrs =>
      -- a link that carries nothing (invalid span context, no attributes, empty trace state) is ignored
      if sc.isValid || !attrs.isEmpty || sc.ts != 0 then { r with links := r.links ++ [refLink lim sc attrs] }
      else r
    | .recordError none _ => r
    | .recordError (some (typ, msg)) attrs =>
      { r with events := r.events ++
          [refEvent lim excEventName (attrs ++ [⟨excTypeAttr, .str typ⟩, ⟨excMessageAttr, .str msg⟩])] }
    | .setStatus code desc => { r with statusCalls := r.statusCalls ++ [(code, desc)] }
    | .setName name => { r with name := name }
    | .end_ => { r with ended := true }

def refView (lim : Limits) (r : RefSpan) : Snap :=
  { name := r.name, status := refStatus r.statusCalls,
    attrs := r.attrs, droppedAttrs := r.droppedAttrs,
    events := (lastN lim.eventCount r.events).1, droppedEvents := (lastN lim.eventCount r.events).2,
    links := (lastN lim.linkCount r.links).1, droppedLinks := (lastN lim.linkCount r.links).2 }

/-- what a span named `name` must export after `ops` under `lim` -/
def refExport (lim : Limits) (name : Bytes) (ops : List Op) : Snap :=
  refView lim (ops.foldl (refStep lim) (refInit name))

/-- the oracle: the exported snapshot is exactly the reference -/
def spanMatchesReference (lim : Limits) (name : Bytes) (ops : List Op) (exported : Snap) : Bool :=
  exported == refExport lim name ops

/-- a bound `limit` (negative = none) on a count -/
def within (limit : Int) (n : Nat) : Bool := limit < 0 || (n : Int) ≤ limit

def keysUnique : List KV → Bool
  | [] => true
  | a :: tl => !(tl.any (fun b => b.key == a.key)) && keysUnique tl

/-- a string value respects the length limit: either it fits in `limit` bytes (untouched values) or it is at most
`limit` characters of valid UTF-8 -/
def strOK (limit : Int) (s : Bytes) : Bool :=
  limit < 0 || (s.length : Int) ≤ limit || ((Utf8.runeCount s : Int) ≤ limit && Utf8.validString s)

def valueOK (limit : Int) : Value → Bool
  | .str s => strOK limit s
  | .strs l => l.all (strOK limit)
  | _ => true

/-- limit-shaped facts every export must satisfy whatever the operations were (checked on the implementation's
snapshot in addition to `spanMatchesReference`; proved of the model in Props.lean) -/
def exportWellFormed (lim : Limits) (x : Snap) : Bool :=
  keysUnique x.attrs && within lim.attrCount x.attrs.length &&
  x.attrs.all (fun a => a.valid && valueOK lim.valueLen a.val) &&
  within lim.eventCount x.events.length && within lim.linkCount x.links.length &&
  x.events.all (fun e => within lim.perEvent e.attrs.length) &&
  x.links.all (fun l => within lim.perLink l.attrs.length) &&
  (x.status.code == 1 || x.status.desc == []) &&
  (lim.attrCount != 0 || x.attrs == []) &&
  (lim.eventCount < 0 → x.droppedEvents = 0) && (lim.linkCount < 0 → x.droppedLinks = 0)

/-- the oracle for caller scripts (arguments taken from caller-owned arrays that are written to afterwards): ARGUMENTS
ARE VALUES — both the snapshot handed to OnEnd and the span read back after the last step (each looked at after the
caller's last write) are the reference export of the calls with the argument values of their moment, and the
caller's arrays hold the caller's own writes and nothing else -/
def callerScriptOK (lim : Limits) (name : Bytes) (caps : List Nat) (cops : List COp)
    (atEnd live : Snap) (bufs : Bufs) : Bool :=
  spanMatchesReference lim name (resolveAll (initBufs caps) cops) atEnd &&
  spanMatchesReference lim name (resolveAll (initBufs caps) cops) live &&
  bufs == callerBufs (initBufs caps) cops

end Otel.C04.Spec
