/-
C04 — the data both the model (Model.lean) and the reference (Spec.lean) speak about: attribute values, key-values,
span limits, events, links, status, the span API operations and the exported snapshot. Core Lean only.
-/
import Otel.Base.Wire
namespace Otel.C04
open Otel

/-- attribute.Value: INVALID + the eight value types; floats are IEEE bit patterns -/
inductive Value where
  | invalid
  | bool (b : Bool)
  | int (i : Int)
  | float (bits : UInt64)
  | str (s : Bytes)
  | bools (l : List Bool)
  | ints (l : List Int)
  | floats (l : List UInt64)
  | strs (l : List Bytes)
deriving DecidableEq, Repr

structure KV where
  key : Bytes
  val : Value
deriving DecidableEq, Repr

/-- attribute.KeyValue.Valid: `Key.Defined() && Value.Type() != INVALID` -/
def KV.valid (a : KV) : Bool := a.key != [] && a.val != Value.invalid

/-- the six span limits (sdk/trace/span_limits.go); negative = unlimited, used as-is (WithRawSpanLimits) -/
structure Limits where
  attrCount : Int
  valueLen : Int
  eventCount : Int
  linkCount : Int
  perEvent : Int
  perLink : Int
deriving DecidableEq, Repr

/-- what the model keeps of a trace.SpanContext of a link: trace id, span id (0 = all-zero), number of trace-state members -/
structure SC where
  tid : Nat
  sid : Nat
  ts : Nat
deriving DecidableEq, Repr

def SC.isValid (c : SC) : Bool := c.tid != 0 && c.sid != 0

structure Event where
  name : Bytes
  attrs : List KV
  dropped : Nat
deriving DecidableEq, Repr

structure Link where
  sc : SC
  attrs : List KV
  dropped : Nat
deriving DecidableEq, Repr

/-- sdk/trace.Status; codes.Code is a uint32: Unset = 0, Error = 1, Ok = 2 -/
structure Status where
  code : Nat
  desc : Bytes
deriving DecidableEq, Repr

inductive Op where
  | setAttrs (kvs : List KV)
  | addEvent (name : Bytes) (attrs : List KV)
  | addLink (sc : SC) (attrs : List KV)
  /-- `err = none` is a nil error; `some (typeStr, message)` otherwise -/
  | recordError (err : Option (Bytes × Bytes)) (attrs : List KV)
  | setStatus (code : Nat) (desc : Bytes)
  | setName (name : Bytes)
  | end_
deriving DecidableEq, Repr

/-- the ReadOnlySpan handed to the span processors (fields the property speaks about) -/
structure Snap where
  name : Bytes
  status : Status
  attrs : List KV
  droppedAttrs : Nat
  events : List Event
  droppedEvents : Nat
  links : List Link
  droppedLinks : Nat
deriving DecidableEq, Repr

end Otel.C04
