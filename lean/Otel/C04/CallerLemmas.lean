/-
C04 — helper lemmas for PropsCaller.lean (caller scripts: value semantics vs. the heap machine of Alias.lean).
-/
import Otel.C04.Alias
namespace Otel.C04
open Otel

/-! ## lists -/

theorem take_modify_of_le {α : Type} (f : α → α) : ∀ (l : List α) (i n : Nat), n ≤ i → (l.modify i f).take n = l.take n
  | [], _, _, _ => by simp
  | _ :: _, _, 0, _ => by simp
  | a :: tl, 0, n + 1, h => by omega
  | a :: tl, i + 1, n + 1, h => by
    simp only [List.modify_succ_cons, List.take_succ_cons]
    rw [take_modify_of_le f tl i n (by omega)]

theorem take_modify_of_lt {α : Type} (f : α → α) : ∀ (l : List α) (i n : Nat), i < n → (l.modify i f).take n = (l.take n).modify i f
  | [], _, _, _ => by simp
  | _ :: _, _, 0, h => by omega
  | a :: tl, 0, n + 1, _ => by simp
  | a :: tl, i + 1, n + 1, h => by
    simp only [List.modify_succ_cons, List.take_succ_cons]
    rw [take_modify_of_lt f tl i n (by omega)]

theorem modify_of_length_le {α : Type} (f : α → α) : ∀ (l : List α) (i : Nat), l.length ≤ i → l.modify i f = l
  | [], _, _ => by simp
  | a :: tl, 0, h => by simp at h
  | a :: tl, i + 1, h => by
    simp only [List.modify_succ_cons]
    rw [modify_of_length_le f tl i (by simpa using h)]

theorem getD_take_of_lt (h : Heap) (n i : Nat) (hi : i < n) : (h.take n).getD i [] = h.getD i [] := by
  simp [List.getD_eq_getElem?_getD, hi]

theorem getD_take_of_ge (h : Heap) (n i : Nat) (hi : n ≤ i) : (h.take n).getD i [] = [] := by
  have : ¬ i < n := by omega
  simp [List.getD_eq_getElem?_getD, List.getElem?_take, this]

theorem getD_modify_ne (h : Heap) (f : List KV → List KV) (i j : Nat) (hij : i ≠ j) :
    (h.modify i f).getD j [] = h.getD j [] := by
  simp [List.getD_eq_getElem?_getD, hij]

/-- a heap that extends `h` (same arrays below `h.length`) reads the old arrays as `h` does -/
theorem getD_of_prefix (h h' : Heap) (hp : h'.take h.length = h) (i : Nat) (hi : i < h.length) :
    h'.getD i [] = h.getD i [] := by
  rw [← getD_take_of_lt h' h.length i hi, hp]

theorem read_of_prefix (h h' : Heap) (hp : h'.take h.length = h) (s : Slice) (hs : s.arr < h.length) :
    h'.read s = h.read s := by
  simp only [Heap.read, getD_of_prefix h h' hp s.arr hs]

theorem length_le_of_prefix (h h' : Heap) (hp : h'.take h.length = h) : h.length ≤ h'.length := by
  have := congrArg List.length hp
  simp only [List.length_take] at this
  omega

theorem prefix_trans (h h1 h2 : Heap) (h01 : h1.take h.length = h) (h12 : h2.take h1.length = h1) :
    h2.take h.length = h := by
  have hl := length_le_of_prefix h h1 h01
  have : h2.take h.length = (h2.take h1.length).take h.length := by
    rw [List.take_take]; congr 1; omega
  rw [this, h12, h01]

theorem writeAt_length (l : List KV) (p : Nat) (xs : List KV) (hp : p + xs.length ≤ l.length) :
    (writeAt l p xs).length = l.length := by
  simp only [writeAt, List.length_append, List.length_take, List.length_drop]
  omega

theorem writeAt_take (l : List KV) (p : Nat) (xs : List KV) (hp : p + xs.length ≤ l.length) :
    (writeAt l p xs).take (p + xs.length) = l.take p ++ xs := by
  have h1 : xs.take (l.length - p) = xs := List.take_of_length_le (by omega)
  have h2 : (l.take p ++ xs).length = p + xs.length := by
    simp only [List.length_append, List.length_take]; omega
  simp only [writeAt, h1]
  rw [List.take_append_of_le_length (by omega)]
  rw [List.take_of_length_le (by omega)]

/-! ## newEventConfig -/

/-- what holds of (heap, c.attributes) during NewEventConfig started on heap `h`: the old arrays are untouched and
`c.attributes` is nil or lives in an array allocated by this very call -/
def Good (h : Heap) (hc : Heap × Option Slice) (acc : List KV) : Prop :=
  hc.1.take h.length = h ∧
  match hc.2 with
  | none => acc = []
  | some s => h.length ≤ s.arr ∧ s.off = 0 ∧ s.len ≤ s.cap ∧
      ∃ l, hc.1[s.arr]? = some l ∧ s.cap ≤ l.length ∧ l.take s.len = acc

theorem AOpt.read_of_prefix (h h' : Heap) (hp : h'.take h.length = h) (o : AOpt)
    (ho : ∀ s, o = .ref s → s.arr < h.length) : o.read h' = o.read h := by
  cases o with
  | lit kvs => rfl
  | ref s => exact Otel.C04.read_of_prefix h h' hp s (ho s rfl)

theorem good_alloc (grow : Nat → Nat) (h h1 : Heap) (hp : h1.take h.length = h) (xs : List KV) :
    Good h ((alloc grow h1 xs).1, some (alloc grow h1 xs).2) xs := by
  have hl := length_le_of_prefix h h1 hp
  refine ⟨?_, ?_⟩
  · simp only [alloc]
    rw [List.take_append_of_le_length hl]; exact hp
  · simp only [alloc]
    refine ⟨hl, by trivial, by omega, xs ++ List.replicate (max xs.length (grow xs.length) - xs.length) zeroKV, ?_, ?_, ?_⟩
    · simp
    · simp only [List.length_append, List.length_replicate]; omega
    · simp

theorem good_step (grow : Nat → Nat) (h : Heap) (hc : Heap × Option Slice) (acc : List KV) (o : AOpt)
    (hg : Good h hc acc) (ho : ∀ s, o = .ref s → s.arr < h.length) :
    Good h (applyEvent grow hc o) (acc ++ o.read h) := by
  obtain ⟨hp, hm⟩ := hg
  have hread : o.read hc.1 = o.read h := AOpt.read_of_prefix h hc.1 hp o ho
  unfold applyEvent
  rw [hread]
  generalize o.read h = xs
  rcases hc with ⟨h1, c⟩
  cases c with
  | none =>
    simp only at hm hp
    subst hm
    simp only [goAppend]
    split
    · rename_i he
      have : xs = [] := by simpa using he
      subst this
      exact ⟨hp, by simp⟩
    · simpa using good_alloc grow h h1 hp xs
  | some s =>
    simp only at hm hp
    obtain ⟨hge, hoff, hlc, l, hl, hcl, hacc⟩ := hm
    simp only [goAppend]
    split
    · rename_i hfit
      refine ⟨?_, ?_⟩
      · simp only
        rw [take_modify_of_le _ h1 s.arr h.length hge]; exact hp
      · simp only
        refine ⟨hge, hoff, hfit, writeAt l (s.off + s.len) xs, ?_, ?_, ?_⟩
        · simp [hl]
        · rw [writeAt_length l _ xs (by omega)]; exact hcl
        · rw [hoff, Nat.zero_add, writeAt_take l s.len xs (by omega), hacc]
    · have hr : h1.read s = acc := by
        simp only [Heap.read, readArr, List.getD_eq_getElem?_getD, hl, hoff, Option.getD_some, List.drop_zero]
        exact hacc
      rw [hr]
      exact good_alloc grow h h1 hp (acc ++ xs)

theorem good_fold (grow : Nat → Nat) (h : Heap) : ∀ (opts : List AOpt) (hc : Heap × Option Slice) (acc : List KV),
    Good h hc acc → (∀ o ∈ opts, ∀ s, o = .ref s → s.arr < h.length) →
    Good h (opts.foldl (applyEvent grow) hc) (acc ++ opts.flatMap (AOpt.read h))
  | [], hc, acc, hg, _ => by simpa using hg
  | o :: tl, hc, acc, hg, ho => by
    simp only [List.foldl_cons, List.flatMap_cons]
    rw [← List.append_assoc]
    exact good_fold grow h tl _ _ (good_step grow h hc acc o hg (ho o (by simp)))
      (fun o' ho' => ho o' (by simp [ho']))

theorem good_nec (grow : Nat → Nat) (h : Heap) (opts : List AOpt)
    (ho : ∀ o ∈ opts, ∀ s, o = .ref s → s.arr < h.length) :
    Good h (newEventConfig grow h opts) (opts.flatMap (AOpt.read h)) := by
  have := good_fold grow h opts (h, none) [] ⟨by simp, rfl⟩ ho
  simpa [newEventConfig] using this

/-- reading what NewEventConfig returned gives the concatenation of the options' values at call time; its length is
the slice's length -/
theorem good_readO (h : Heap) (hc : Heap × Option Slice) (acc : List KV) (hg : Good h hc acc) :
    hc.1.readO hc.2 = acc ∧ sliceLen hc.2 = acc.length := by
  obtain ⟨_, hm⟩ := hg
  rcases hc with ⟨h1, c⟩
  cases c with
  | none => simp only at hm; subst hm; exact ⟨rfl, rfl⟩
  | some s =>
    simp only at hm
    obtain ⟨_, hoff, hlc, l, hl, hcl, hacc⟩ := hm
    refine ⟨?_, ?_⟩
    · simp only [Heap.readO, Heap.read, readArr, List.getD_eq_getElem?_getD, hl, hoff, Option.getD_some, List.drop_zero]
      exact hacc
    · simp only [sliceLen, ← hacc, List.length_take]; omega

/-- the per-event cut on the slice header reads as the per-event cut on the values -/
theorem good_capSlice (limit : Int) (h : Heap) (hc : Heap × Option Slice) (acc : List KV) (hg : Good h hc acc) :
    hc.1.readO (capSlice limit hc.2).1 = (capAttrs limit acc).1 ∧ (capSlice limit hc.2).2 = (capAttrs limit acc).2 := by
  obtain ⟨hr, hlen⟩ := good_readO h hc acc hg
  unfold capSlice capAttrs
  rw [hlen]
  split
  · exact ⟨rfl, rfl⟩
  · split
    · rename_i hcut
      refine ⟨?_, rfl⟩
      obtain ⟨_, hm⟩ := hg
      rcases hc with ⟨h1, c⟩
      cases c with
      | none =>
        simp only at hm; subst hm
        simp [Heap.readO]
      | some s =>
        simp only at hm
        obtain ⟨_, hoff, hlc, l, hl, hcl, hacc⟩ := hm
        simp only [Option.map_some, Heap.readO, Heap.read, readArr, List.getD_eq_getElem?_getD, hl, hoff,
          Option.getD_some, List.drop_zero]
        rw [← hacc, List.take_take]
        congr 1
        have : acc.length = s.len := by rw [← hacc, List.length_take]; omega
        omega
    · exact ⟨hr, rfl⟩

theorem capSlice_arr (limit : Int) (a : Option Slice) (s : Slice) (h : (capSlice limit a).1 = some s) :
    ∃ s0, a = some s0 ∧ s.arr = s0.arr := by
  unfold capSlice at h
  cases a with
  | none =>
    split at h
    · cases h
    · split at h <;> simp at h
  | some s0 =>
    refine ⟨s0, rfl, ?_⟩
    split at h
    · cases h
    · split at h
      · simp at h; rw [← h]
      · simp at h; rw [h]

theorem flatMap_congr' {α β : Type} (f g : α → List β) : ∀ (l : List α), (∀ x ∈ l, f x = g x) → l.flatMap f = l.flatMap g
  | [], _ => rfl
  | a :: tl, h => by
    simp only [List.flatMap_cons]
    rw [h a (by simp), flatMap_congr' f g tl (fun x hx => h x (by simp [hx]))]

theorem step_addEvent_recording (lim : Limits) (s : St) (n : Bytes) (a : List KV) (h : s.ended = false) :
    step lim s (.addEvent n a) = { s with events := s.events.add lim.eventCount (mkEvent lim n a) } := by
  simp [step, h]

theorem step_recordError_recording (lim : Limits) (s : St) (typ msg : Bytes) (a : List KV) (h : s.ended = false) :
    step lim s (.recordError (some (typ, msg)) a) =
      { s with events := s.events.add lim.eventCount (mkEvent lim excName (errorAttrs typ msg a)) } := by
  simp [step, h]

theorem step_of_ended (lim : Limits) (s : St) (op : Op) (h : s.ended = true) : step lim s op = s := by
  cases op <;> simp [step, h]
  split <;> rfl

theorem readO_of_prefix (h h' : Heap) (hp : h'.take h.length = h) (a : Option Slice)
    (ha : ∀ s, a = some s → s.arr < h.length) : h'.readO a = h.readO a := by
  cases a with
  | none => rfl
  | some s => exact read_of_prefix h h' hp s (ha s rfl)

theorem take_min_length {α : Type} (l : List α) (n : Nat) : l.take (min n l.length) = l.take n := by
  by_cases h : n ≤ l.length
  · rw [Nat.min_eq_left h]
  · rw [Nat.min_eq_right (by omega), List.take_of_length_le (Nat.le_refl _), List.take_of_length_le (by omega)]

theorem segSlice_read (h : Heap) (s : Seg) : h.read (segSlice h s) = readSeg h s := by
  simp only [Heap.read, segSlice, readSeg, readArr]
  rw [← List.length_drop, take_min_length]

theorem segSlice_len (h : Heap) (s : Seg) : (segSlice h s).len = (readSeg h s).length := by
  simp only [segSlice, readSeg, readArr, List.length_take, List.length_drop]

/-- the per-item cut on a slice header reads as the per-item cut on the values -/
theorem capSlice_read (limit : Int) (h : Heap) (a : Option Slice) (hlen : sliceLen a = (h.readO a).length) :
    h.readO (capSlice limit a).1 = (capAttrs limit (h.readO a)).1 ∧ (capSlice limit a).2 = (capAttrs limit (h.readO a)).2 := by
  unfold capSlice capAttrs
  rw [hlen]
  split
  · exact ⟨rfl, rfl⟩
  · split
    · rename_i hcut
      refine ⟨?_, rfl⟩
      cases a with
      | none => simp [Heap.readO]
      | some s =>
        simp only [Option.map_some, Heap.readO, Heap.read, readArr, sliceLen] at hlen hcut ⊢
        rw [List.take_take]
        congr 1
        rw [← hlen] at hcut
        omega
    · exact ⟨rfl, rfl⟩

theorem goClone_spec (grow : Nat → Nat) (h0 h : Heap) (hp : h.take h0.length = h0) (a : Option Slice) :
    (goClone grow h a).1.take h0.length = h0 ∧ (goClone grow h a).1.readO (goClone grow h a).2 = h.readO a ∧
    (∀ s, (goClone grow h a).2 = some s → h.length ≤ s.arr ∧ s.arr < (goClone grow h a).1.length) ∧
    h.length ≤ (goClone grow h a).1.length := by
  cases a with
  | none =>
    refine ⟨hp, rfl, ?_, Nat.le_refl _⟩
    intro s hs
    cases hs
  | some s0 =>
    have hg := good_alloc grow h h (List.take_length) (h.read s0)
    simp only [goClone]
    refine ⟨prefix_trans h0 h _ hp hg.1, (good_readO h _ _ hg).1, ?_, ?_⟩
    · intro s hs
      cases hs
      simp [alloc]
    · simp [alloc]

theorem litSlice_spec (h : Heap) (kvs : List KV) :
    (litSlice h kvs).1.take h.length = h ∧ (litSlice h kvs).1.readO (litSlice h kvs).2 = kvs ∧
    sliceLen (litSlice h kvs).2 = kvs.length := by
  unfold litSlice
  split
  · rename_i he
    have : kvs = [] := by simpa using he
    subst this
    exact ⟨List.take_length, rfl, rfl⟩
  · have hg := good_alloc (fun n => n) h h (List.take_length) kvs
    exact ⟨hg.1, (good_readO h _ _ hg).1, by simp [alloc, sliceLen]⟩

theorem step_addLink_skip (lim : Limits) (s : St) (sc : SC) (a : List KV)
    (h : (!sc.isValid && a.isEmpty && sc.ts == 0) = true) : step lim s (.addLink sc a) = s := by
  simp only [step, h, if_true]

theorem step_addLink_recording (lim : Limits) (s : St) (sc : SC) (a : List KV)
    (hk : ¬ (!sc.isValid && a.isEmpty && sc.ts == 0) = true) (h : s.ended = false) :
    step lim s (.addLink sc a) = { s with links := s.links.add lim.linkCount (mkLink lim sc a) } := by
  simp only [step, hk, if_false, h, Bool.false_eq_true]

/-! ## queues -/

theorem EQ.add_map {α β : Type} (f : α → β) (cap : Int) (q : EQ α) (v : α) :
    (⟨(q.add cap v).queue.map f, (q.add cap v).dropped⟩ : EQ β) = (⟨q.queue.map f, q.dropped⟩ : EQ β).add cap (f v) := by
  unfold EQ.add
  simp only [List.length_map]
  split
  · rfl
  · split
    · simp
    · simp

theorem EQ.mem_add {α : Type} (cap : Int) (q : EQ α) (v e : α) (he : e ∈ (q.add cap v).queue) :
    e = v ∨ e ∈ q.queue := by
  unfold EQ.add at he
  split at he
  · exact Or.inr he
  · split at he
    · simp only [List.mem_append, List.mem_singleton] at he
      rcases he with he | he
      · exact Or.inr (List.mem_of_mem_drop he)
      · exact Or.inl he
    · simp only [List.mem_append, List.mem_singleton] at he
      rcases he with he | he
      · exact Or.inr he
      · exact Or.inl he

/-! ## the span without its events -/

/-- operations other than AddEvent / RecordError / AddLink neither read nor write the event and link queues -/
theorem step_queues_irrel (lim : Limits) (s : St) (e : EQ Event) (l : EQ Link) (op : Op)
    (h1 : ∀ n a, op ≠ .addEvent n a) (h2 : ∀ er a, op ≠ .recordError er a) (h3 : ∀ sc a, op ≠ .addLink sc a) :
    step lim { s with events := e, links := l } op = { step lim s op with events := e, links := l } := by
  cases op with
  | addEvent n a => exact absurd rfl (h1 n a)
  | recordError er a => exact absurd rfl (h2 er a)
  | addLink sc a => exact absurd rfl (h3 sc a)
  | setAttrs kvs =>
    by_cases hk : kvs.isEmpty = true <;> by_cases he : s.ended = true <;> simp [step, hk, he]
  | setStatus c d => by_cases he : s.ended = true <;> simp [step, he]
  | setName n => by_cases he : s.ended = true <;> simp [step, he]
  | end_ => by_cases he : s.ended = true <;> simp [step, he]

end Otel.C04
