/-
C04 — per-operation rules of the property statement as named theorems (SetName, SetStatus, RecordError, reading a
span), next to the whole-script refinement of Props.lean. Everything here is about `Model.step` / `Model.snapshot`.
-/
import Otel.C04.Props
namespace Otel.C04
open Otel

/-- SetName: on a recording span the name becomes the new one and nothing else changes … -/
theorem set_name_replaces (lim : Limits) (s : St) (n : Bytes) (h : s.ended = false) :
    step lim s (.setName n) = { s with name := n } := by
  simp [step, h]

/-- … so after any script the exported name is the one of the LAST SetName made before End (the start name if none) -/
theorem export_name_is_last_set_before_end (lim : Limits) (name : Bytes) (ops : List Op) :
    (snapshot (run lim (init name) ops)).name = (ops.foldl (Spec.refStep lim) (Spec.refInit name)).name := by
  rw [span_refines_reference]; rfl

/-- SetStatus, all nine code pairs at once: the new status is decided by the codes alone — a lower code is ignored
(description included), an equal or higher code replaces the status, and the description is kept only for Error -/
theorem set_status_rule (lim : Limits) (s : St) (code : Nat) (desc : Bytes) (h : s.ended = false) :
    (step lim s (.setStatus code desc)).status =
      if code < s.status.code then s.status else ⟨code, if code = 1 then desc else []⟩ := by
  simp only [step, h, Bool.false_eq_true, if_false, setStatus]

/-- Ok is final: once the status is Ok no SetStatus changes it -/
theorem status_ok_is_final (lim : Limits) (s : St) (code : Nat) (desc : Bytes) (hok : s.status = ⟨2, []⟩)
    (hc : code ≤ 2) : (step lim s (.setStatus code desc)).status = ⟨2, []⟩ := by
  by_cases he : s.ended = true
  · simp [step, he, hok]
  · have he' : s.ended = false := by simpa using he
    rw [set_status_rule lim s code desc he', hok]
    by_cases h2 : code < 2
    · simp [h2]
    · have : code = 2 := by omega
      subst this; simp

/-- RecordError(nil, …) does nothing, whatever the options and the state … -/
theorem record_error_nil_is_noop (lim : Limits) (s : St) (attrs : List KV) :
    step lim s (.recordError none attrs) = s := rfl

/-- … RecordError after End does nothing … -/
theorem record_error_after_end_is_noop (lim : Limits) (s : St) (err : Option (Bytes × Bytes)) (attrs : List KV)
    (h : s.ended = true) : step lim s (.recordError err attrs) = s :=
  after_end_inert lim s _ h

/-- … and otherwise it IS AddEvent("exception") with the user's attributes followed by exception.type and
exception.message (so it shares the event queue, the per-event cap and the dropped counts; the status is untouched) -/
theorem record_error_is_exception_event (lim : Limits) (s : St) (typ msg : Bytes) (attrs : List KV) :
    step lim s (.recordError (some (typ, msg)) attrs) =
      step lim s (.addEvent excName (attrs ++ [⟨excTypeKey, .str typ⟩, ⟨excMsgKey, .str msg⟩])) := by
  by_cases he : s.ended = true <;> simp [step, he, errorAttrs]

/-- reading a span de-duplicates: whatever duplicates the fast path left in the slice, the attributes read have
unique keys, and they are the de-duplication of what is held … -/
theorem snapshot_dedupes_at_read_time (s : St) :
    (snapshot s).attrs = dedupe s.attrs ∧ KeysNodup (snapshot s).attrs := by
  have h1 : (snapshot s).attrs = dedupe s.attrs := by
    simp only [snapshot]
    split
    · rfl
    · rename_i h
      have : s.attrs = [] := List.eq_nil_of_length_eq_zero (by omega)
      rw [this]; rfl
  exact ⟨h1, h1 ▸ keysNodup_dedupe _⟩

/-- … and reading is idempotent: the in-place de-duplication a read performs (`s.attributes = unique`) changes
neither this nor any later read -/
theorem reading_is_idempotent (s : St) :
    snapshot { s with attrs := dedupe s.attrs } = snapshot s := by
  have hd : dedupe (dedupe s.attrs) = dedupe s.attrs := dedupe_of_keysNodup _ (keysNodup_dedupe _)
  have h1 := (snapshot_dedupes_at_read_time s).1
  have h2 := (snapshot_dedupes_at_read_time { s with attrs := dedupe s.attrs }).1
  simp only [hd] at h2
  have ha : (snapshot { s with attrs := dedupe s.attrs }).attrs = (snapshot s).attrs := by rw [h1, h2]
  simp only [snapshot] at ha ⊢
  rw [ha]

/-- non-vacuity: a state with a duplicate key left by the fast path; Error then Ok then Error; RecordError(nil) -/
example :
    let lim : Limits := ⟨-1, -1, -1, -1, -1, -1⟩
    let s := run lim (init []) [.setAttrs [⟨[0x61], .int 1⟩], .setAttrs [⟨[0x61], .int 2⟩], .setStatus 1 [0x64]]
    s.attrs.length = 2 ∧ (snapshot s).attrs = [⟨[0x61], .int 2⟩] ∧ s.ended = false ∧
    (step lim s (.setStatus 2 [0x78])).status = ⟨2, []⟩ ∧ (step lim s (.setStatus 0 [0x78])).status = ⟨1, [0x64]⟩ ∧
    step lim s (.recordError none [⟨[0x61], .int 1⟩]) = s := by decide

end Otel.C04
