/-
C04 driver. Line kinds:
  trunc <gen> <limit> <hex s> => <hex out>
  dec   <gen> <hex s> => <rune> <size>
  span  <gen> <attrCount> <valueLen> <eventCount> <linkCount> <perEvent> <perLink> <hex name> | <op> | <op> … =>
        <#OnEnd calls> <snapshot handed to OnEnd> ## <the span read back through its ReadOnlySpan methods after the last op>
  op  = sa|SA <kvs> · ev <hex name> <kvs> · ln|LN <tid>:<sid>:<ts> <kvs> · re <hex msg|-> <kvs> · st <code> <hex desc> · nm <hex> · end
        (SA / LN = given to Tracer.Start as WithAttributes / WithLinks; same model ops)
  kvs = `-` or `kv,kv,…`; kv = <hex key>=<value>; value = N | B:0/1 | I:<dec> | F:f<16 hex> | S:<hex> | BS:0;1 | IS:1;2 | FS:f…;f… | SS:x…;x…
  snapshot = <hex name> <status code> <hex desc> <kvs> <dropped attrs> <events> <dropped events> <links> <dropped links>
  spanb <gen> <6 limits> <hex name> <cap,cap,…> | <cop> | … => <#OnEnd> <snapshot> ## <snapshot> ## <array> … <spare>
        cop = op · wr <b> <off> <kvs> · sab|SAB <segs> · evb <hex name> <segs> · reb <hex msg|-> <segs> · lnb|LNB <sc> <seg>
        seg = <b>:<off>:<n>; segs = `-` or seg+seg+…; array = kvs over the whole capacity; spare = cells of the spare
        capacity of the option/link slices handed to the SDK that were written (0 expected)
        (caller scripts: Caller.lean / Alias.lean; zz_verif_c04_alias_test.go)
  lims <gen> <8 env tokens: `-` or x<hex>> <opts|-> => <attrCount> <valueLen> <eventCount> <linkCount> <perEvent> <perLink>
        opts = c:<6 ints>|r:<6 ints> joined by `+` (WithSpanLimits / WithRawSpanLimits, in order; LimitsEnv.lean)
  events = `-` or `<hex name>~<kvs>~<dropped>+…`; links = `-` or `<tid>:<sid>:<ts>~<kvs>~<dropped>+…`
-/
import Otel.Base.Truncate
import Otel.C04.Model
import Otel.C04.Spec
import Otel.C04.Alias
import Otel.C04.LimitsEnv
open Otel Otel.Wire Otel.Utf8 Otel.C04

namespace Otel.C04.Drv

def splitOnTok (sep : String) (l : List String) : List (List String) :=
  let r := l.foldl (fun (acc : List (List String) × List String) t =>
    if t == sep then (acc.2.reverse :: acc.1, []) else (acc.1, t :: acc.2)) ([], [])
  (r.2.reverse :: r.1).reverse

def parseFloatBits (s : String) : Option UInt64 :=
  match s.toList with
  | 'f' :: rest =>
    if rest.length = 16 then (parseHexChars rest).map (fun bs => bs.foldl (fun acc b => acc * 256 + b.toUInt64) 0)
    else none
  | _ => none

def parseSeq {α : Type} (f : String → Option α) (p : String) : Option (List α) :=
  if p.isEmpty then some [] else (p.splitOn ";").mapM f

def parseBool (s : String) : Option Bool := if s == "1" then some true else if s == "0" then some false else none

def parseValue (s : String) : Option Value :=
  match s.splitOn ":" with
  | ["N"] => some .invalid
  | ["B", p] => (parseBool p).map .bool
  | ["I", p] => p.toInt?.map .int
  | ["F", p] => (parseFloatBits p).map .float
  | ["S", p] => (parseHex p).map .str
  | ["BS", p] => (parseSeq parseBool p).map .bools
  | ["IS", p] => (parseSeq String.toInt? p).map .ints
  | ["FS", p] => (parseSeq parseFloatBits p).map .floats
  | ["SS", p] => (parseSeq parseHex p).map .strs
  | _ => none

def parseKV (s : String) : Option KV :=
  match s.splitOn "=" with
  | [k, v] => do pure ⟨← parseHex k, ← parseValue v⟩
  | _ => none

def parseKVs (s : String) : Option (List KV) :=
  if s == "-" then some [] else (s.splitOn ",").mapM parseKV

def parseSC (s : String) : Option SC :=
  match s.splitOn ":" with
  | [a, b, c] => do pure ⟨← a.toNat?, ← b.toNat?, ← c.toNat?⟩
  | _ => none

/-- reflect type string of `errors.New(…)`: external to the model (parameter of `Op.recordError`) -/
def errorsNewType : Bytes :=
  [0x2a, 0x65, 0x72, 0x72, 0x6f, 0x72, 0x73, 0x2e, 0x65, 0x72, 0x72, 0x6f, 0x72, 0x53, 0x74, 0x72, 0x69, 0x6e, 0x67]

def parseOp : List String → Option Op
  | ["sa", kvs] | ["SA", kvs] => (parseKVs kvs).map .setAttrs
  | ["ev", n, kvs] => do pure (.addEvent (← parseHex n) (← parseKVs kvs))
  | ["ln", sc, kvs] | ["LN", sc, kvs] => do pure (.addLink (← parseSC sc) (← parseKVs kvs))
  | ["re", m, kvs] =>
    if m == "-" then (parseKVs kvs).map (.recordError none)
    else do pure (.recordError (some (errorsNewType, ← parseHex m)) (← parseKVs kvs))
  | ["st", c, d] => do pure (.setStatus (← c.toNat?) (← parseHex d))
  | ["nm", n] => (parseHex n).map .setName
  | ["end"] => some .end_
  | _ => none

def parseItems {α : Type} (f : String → String → Nat → Option α) (s : String) : Option (List α) :=
  if s == "-" then some []
  else (s.splitOn "+").mapM (fun it =>
    match it.splitOn "~" with
    | [h, kvs, d] => do f h kvs (← d.toNat?)
    | _ => none)

def parseEvents : String → Option (List Event) :=
  parseItems (fun h kvs d => do pure ⟨← parseHex h, ← parseKVs kvs, d⟩)

def parseLinks : String → Option (List Link) :=
  parseItems (fun h kvs d => do pure ⟨← parseSC h, ← parseKVs kvs, d⟩)

def parseSnap : List String → Option Snap
  | [n, c, d, kvs, da, evs, de, lns, dl] => do
    pure { name := ← parseHex n, status := ⟨← c.toNat?, ← parseHex d⟩, attrs := ← parseKVs kvs,
           droppedAttrs := ← da.toNat?, events := ← parseEvents evs, droppedEvents := ← de.toNat?,
           links := ← parseLinks lns, droppedLinks := ← dl.toNat? }
  | _ => none

-- rendering (for the `model` field of the verdict / replay files)
def hex16 (w : UInt64) : String :=
  "f" ++ String.ofList ((List.range 8).reverse.flatMap (fun i => hexOfByte (UInt8.ofNat ((w.toNat >>> (8 * i)) % 256))))

def rBool (b : Bool) : String := if b then "1" else "0"

def renderValue : Value → String
  | .invalid => "N"
  | .bool b => "B:" ++ rBool b
  | .int i => "I:" ++ toString i
  | .float w => "F:" ++ hex16 w
  | .str s => "S:" ++ hexOf s
  | .bools l => "BS:" ++ ";".intercalate (l.map rBool)
  | .ints l => "IS:" ++ ";".intercalate (l.map toString)
  | .floats l => "FS:" ++ ";".intercalate (l.map hex16)
  | .strs l => "SS:" ++ ";".intercalate (l.map hexOf)

def renderKVs (l : List KV) : String :=
  if l.isEmpty then "-" else ",".intercalate (l.map (fun a => hexOf a.key ++ "=" ++ renderValue a.val))

def renderSC (c : SC) : String := s!"{c.tid}:{c.sid}:{c.ts}"

def renderSnap (x : Snap) : String :=
  let evs := if x.events.isEmpty then "-" else "+".intercalate (x.events.map (fun e => s!"{hexOf e.name}~{renderKVs e.attrs}~{e.dropped}"))
  let lns := if x.links.isEmpty then "-" else "+".intercalate (x.links.map (fun l => s!"{renderSC l.sc}~{renderKVs l.attrs}~{l.dropped}"))
  s!"{hexOf x.name} {x.status.code} {hexOf x.status.desc} {renderKVs x.attrs} {x.droppedAttrs} {evs} {x.droppedEvents} {lns} {x.droppedLinks}"

-- branch accounting: which branches of the model an op takes in state `s`
def itemTags (pfx : String) (limit : Int) (attrs : List KV) : List String :=
  if limit = 0 then (if attrs.isEmpty then [pfx ++ "item-lim0-empty"] else [pfx ++ "item-lim0-drop"])
  else if limit > 0 ∧ (attrs.length : Int) > limit then [pfx ++ "item-cut"]
  else [pfx ++ "item-keep"]

def queueTags {α : Type} (pfx : String) (cap : Int) (q : EQ α) : List String :=
  if cap = 0 then [pfx ++ "cap0"]
  else if cap > 0 ∧ (q.queue.length : Int) = cap then [pfx ++ "evict"]
  else [pfx ++ "append"]

def overCapTags (limit vlim : Int) : List KV × Nat → List KV → List String
  | _, [] => []
  | st, a :: tl =>
    let t := if !a.valid then "oc-invalid"
      else if hasKey st.1 a.key then "oc-update"
      else if (st.1.length : Int) ≥ limit then "oc-drop" else "oc-append"
    t :: overCapTags limit vlim (overCapStep limit vlim st a) tl

def opTags (lim : Limits) (s : St) : Op → List String
  | .setAttrs kvs =>
    if kvs.isEmpty then ["sa-empty"]
    else if s.ended then ["ended-noop"]
    else
      let cut := if kvs.any (fun a => a.valid && truncateAttr lim.valueLen a != a) then ["trunc-cut"] else []
      let dup := if (dedupe (s.attrs ++ kvs.filter KV.valid)).length < (s.attrs ++ kvs.filter KV.valid).length then ["dup-key"] else []
      if lim.attrCount = 0 then ["sa-lim0"]
      else if lim.attrCount > 0 ∧ (s.attrs.length : Int) + kvs.length > lim.attrCount then
        "sa-overcap" :: (if (dedupe s.attrs).length < s.attrs.length then ["oc-dedupe-shrinks"] else []) ++
          overCapTags lim.attrCount lim.valueLen (dedupe s.attrs, s.droppedAttrs) kvs ++ cut ++ dup
      else "sa-fast" :: (if kvs.any (fun a => !a.valid) then ["fast-invalid"] else []) ++ cut ++ dup
  | .addEvent _ attrs =>
    if s.ended then ["ended-noop"] else queueTags "ev-" lim.eventCount s.events ++ itemTags "ev-" lim.perEvent attrs
  | .addLink sc attrs =>
    if !sc.isValid && attrs.isEmpty && sc.ts == 0 then ["ln-skip"]
    else if s.ended then ["ended-noop"] else queueTags "ln-" lim.linkCount s.links ++ itemTags "ln-" lim.perLink attrs
  | .recordError none _ => ["re-nil"]
  | .recordError (some _) attrs =>
    if s.ended then ["ended-noop"]
    else "re" :: queueTags "ev-" lim.eventCount s.events ++ itemTags "re-" lim.perEvent (attrs ++ [⟨[], .invalid⟩, ⟨[], .invalid⟩])
  | .setStatus code _ =>
    if s.ended then ["ended-noop"] else if s.status.code > code then ["st-ignored"]
    else if code = 1 then ["st-error"] else ["st-other"]
  | .setName _ => if s.ended then ["ended-noop"] else ["nm"]
  | .end_ => if s.ended then ["end-again"] else (if dedupe s.attrs != s.attrs then ["end", "snap-dedupe"] else ["end"])

def allTags (lim : Limits) : St → List Op → List String → List String
  | _, [], acc => acc
  | s, op :: tl, acc =>
    let acc := (opTags lim s op).foldl (fun a t => if a.contains t then a else t :: a) acc
    allTags lim (step lim s op) tl acc

def trivialTags : List String :=
  ["sa-fast", "sa-empty", "ev-append", "ln-append", "ev-item-keep", "ln-item-keep", "re-item-keep", "re", "st-error",
   "st-other", "nm", "end"]

def spanLine (ls : List String) (name0 : String) (rest obs : List String) : Option Verdict := do
  let [a, b, c, d, e, f] := ls | none
  let lim : Limits := ⟨← a.toInt?, ← b.toInt?, ← c.toInt?, ← d.toInt?, ← e.toInt?, ← f.toInt?⟩
  let name ← parseHex name0
  let groups := (splitOnTok "|" rest).filter (fun g => !g.isEmpty)
  let ops ← groups.mapM parseOp
  let (ends, obs') ← match obs with
    | n :: tl => do pure (← n.toNat?, tl)
    | [] => none
  let [o1, o2] := splitOnTok "##" obs' | none
  let atEnd ← parseSnap o1
  let live ← parseSnap o2
  let pre := ops.takeWhile (· != .end_)
  let hasEnd := ops.any (· == .end_)
  let mAtEnd := snapshot (run lim (init name) (pre ++ [.end_]))
  let mFinal := snapshot (run lim (init name) ops)
  let wantEnds := if hasEnd then 1 else 0
  let agree := atEnd == mAtEnd && live == mFinal && ends == wantEnds
  let ok := Spec.spanMatchesReference lim name ops atEnd && Spec.spanMatchesReference lim name ops live &&
    Spec.exportWellFormed lim atEnd && Spec.exportWellFormed lim live && ends == wantEnds
  let tags := (allTags lim (init name) ops []).reverse
  let nontrivial := tags.any (fun t => !trivialTags.contains t)
  pure { agree := agree, spec := if ok then "ok" else "FAIL", nontrivial := nontrivial,
         branches := if tags.isEmpty then "-" else ",".intercalate tags,
         -- the (long) canonical model result is only needed in replay files, i.e. when something is wrong
         model := if agree && ok then "=" else s!"{wantEnds} {renderSnap mAtEnd} ## {renderSnap mFinal}" }

def parseSeg (s : String) : Option Seg :=
  match s.splitOn ":" with
  | [a, b, c] => do pure ⟨← a.toNat?, ← b.toNat?, ← c.toNat?⟩
  | _ => none

def parseSegs (s : String) : Option (List Seg) :=
  if s == "-" then some [] else (s.splitOn "+").mapM parseSeg

def parseCOp : List String → Option COp
  | ["wr", b, off, kvs] => do pure (.write (← b.toNat?) (← off.toNat?) (← parseKVs kvs))
  | ["sab", segs] | ["SAB", segs] => (parseSegs segs).map .setAttrsFrom
  | ["evb", n, segs] => do pure (.addEventFrom (← parseHex n) (← parseSegs segs))
  | ["reb", m, segs] =>
    if m == "-" then (parseSegs segs).map (.recordErrorFrom none)
    else do pure (.recordErrorFrom (some (errorsNewType, ← parseHex m)) (← parseSegs segs))
  | ["lnb", sc, seg] | ["LNB", sc, seg] => do pure (.addLinkFrom (← parseSC sc) (← parseSeg seg))
  | toks => (parseOp toks).map .plain

def segSpare (bufs : Bufs) (s : Seg) : Bool := s.off + s.n < (bufs.getD s.b []).length

/-- branch accounting of the caller layer -/
def copTags : Bufs → Bool → List COp → List String
  | _, _, [] => []
  | bufs, used, .write b off kvs :: tl =>
    (if used then "cb-write-after-use" else "cb-write") :: copTags (writeBuf bufs b off kvs) used tl
  | bufs, _, .setAttrsFrom segs :: tl => "cb-sab" :: copTags bufs (segs.any (·.n > 0)) tl
  | bufs, used, .addEventFrom _ segs :: tl =>
    ["cb-evb"] ++ (if segs.length > 1 then ["cb-multi-opt"] else []) ++
      (if segs.any (segSpare bufs) then ["cb-spare-cap"] else []) ++ copTags bufs (used || segs.any (·.n > 0)) tl
  | bufs, used, .recordErrorFrom e segs :: tl =>
    ["cb-reb"] ++ (if e.isSome && segs.any (segSpare bufs) then ["cb-reb-spare-cap"] else []) ++
      copTags bufs (used || segs.any (·.n > 0)) tl
  | bufs, used, .addLinkFrom _ _ :: tl => "cb-lnb" :: copTags bufs used tl
  | bufs, used, .plain _ :: tl => copTags bufs used tl

def spanbLine (ls : List String) (name0 caps0 : String) (rest obs : List String) : Option Verdict := do
  let [a, b, c, d, e, f] := ls | none
  let lim : Limits := ⟨← a.toInt?, ← b.toInt?, ← c.toInt?, ← d.toInt?, ← e.toInt?, ← f.toInt?⟩
  let name ← parseHex name0
  let caps ← (caps0.splitOn ",").mapM String.toNat?
  let groups := (splitOnTok "|" rest).filter (fun g => !g.isEmpty)
  let cops ← groups.mapM parseCOp
  let (ends, obs') ← match obs with
    | n :: tl => do pure (← n.toNat?, tl)
    | [] => none
  let [o1, o2, o3] := splitOnTok "##" obs' | none
  let atEnd ← parseSnap o1
  let live ← parseSnap o2
  let bufs ← (o3.take caps.length).mapM parseKVs
  let [spare0] := o3.drop caps.length | none
  let spare ← spare0.toNat?
  let isEnd : COp → Bool := fun c => c == .plain .end_
  let pre := cops.takeWhile (fun c => !isEnd c)
  let hasEnd := cops.any isEnd
  let mAtEnd := snapshot (crun lim (cinit name caps) (pre ++ [.plain .end_])).span
  let fin := crun lim (cinit name caps) cops
  let mFinal := snapshot fin.span
  let wantEnds := if hasEnd then 1 else 0
  let agree := atEnd == mAtEnd && live == mFinal && ends == wantEnds && bufs == fin.bufs && spare == 0
  let ok := Spec.callerScriptOK lim name caps cops atEnd live bufs &&
    Spec.exportWellFormed lim atEnd && Spec.exportWellFormed lim live && ends == wantEnds && spare == 0
  let ctags := (copTags (initBufs caps) false cops).foldl (fun a t => if a.contains t then a else t :: a) []
  let tags := (allTags lim (init name) (resolveAll (initBufs caps) cops) ctags).reverse
  let nontrivial := tags.contains "cb-write-after-use"
  pure { agree := agree, spec := if ok then "ok" else "FAIL", nontrivial := nontrivial,
         branches := if tags.isEmpty then "-" else ",".intercalate tags,
         model := if agree && ok then "="
           else s!"{wantEnds} {renderSnap mAtEnd} ## {renderSnap mFinal} ## {" ".intercalate (fin.bufs.map renderKVs)} 0" }

def parseEnvTok (s : String) : Option Bytes := if s == "-" then some [] else parseHex s

def parseLims6 (s : String) : Option Limits :=
  match (s.splitOn ",").mapM String.toInt? with
  | some [a, b, c, d, e, f] => some ⟨a, b, c, d, e, f⟩
  | _ => none

def parseLOpt (s : String) : Option LOpt :=
  match s.splitOn ":" with
  | ["c", l] => (parseLims6 l).map .cooked
  | ["r", l] => (parseLims6 l).map .raw
  | _ => none

def parseLOpts (s : String) : Option (List LOpt) := if s == "-" then some [] else (s.splitOn "+").mapM parseLOpt

def limsLine (envs : List String) (os : String) (obs : List String) : Option Verdict := do
  let [e1, e2, e3, e4, e5, e6, e7, e8] ← envs.mapM parseEnvTok | none
  let env : LimEnv := ⟨e1, e2, e3, e4, e5, e6, e7, e8⟩
  let opts ← parseLOpts os
  let [a, b, c, d, e, f] ← obs.mapM String.toInt? | none
  let observed : Limits := ⟨a, b, c, d, e, f⟩
  let m := providerSpanLimits env opts
  let src (v : Bytes) : String := if v.isEmpty then "unset" else if (atoi v).isSome then "int" else "bad"
  let tags := match opts.getLast? with
    | some (.raw _) => ["opt-raw"]
    | some (.cooked l) => ["opt-cooked"] ++ (if cook l != l then ["cooked-defaulted"] else [])
    | none => ["env", "vl-" ++ src env.spanValueLen ++ "-" ++ src env.valueLen,
               "ac-" ++ src env.spanAttrCount ++ "-" ++ src env.attrCount, "ec-" ++ src env.eventCount]
  pure { agree := observed == m, spec := if Spec.providerLimitsOK env opts observed then "ok" else "FAIL",
         nontrivial := m != defaultLimits, branches := ",".intercalate tags,
         model := s!"{m.attrCount} {m.valueLen} {m.eventCount} {m.linkCount} {m.perEvent} {m.perLink}" }

end Otel.C04.Drv

open Otel.C04.Drv in
def stepLine (_ : Unit) (toks : List String) : Unit × Option Verdict :=
  let (inp, obs) := splitObs toks
  match inp, obs with
  | ["trunc", _, lim, s], [o] =>
    match parseInt lim, parseHex s, parseHex o with
    | some l, some sb, some ob =>
      let m := Trunc.truncate l sb
      let spec := ob == Trunc.refTrunc l sb
      let cut := !(l < 0 || (sb.length : Int) ≤ l)
      let hasInv := (chunks sb).any (·.invalid)
      let br := if !cut then "short" else if hasInv then "slow" else "fast"
      ((), some { agree := m == ob, spec := if spec then "ok" else "FAIL", nontrivial := cut, branches := br, model := hexOf m })
    | _, _, _ => ((), none)
  | ["dec", _, s], [r, n] =>
    match parseHex s, parseNat r, parseNat n with
    | some sb, some rr, some nn =>
      let d := decode sb
      ((), some { agree := d == (rr, nn), spec := "na", nontrivial := nn > 1 || (rr == 0xFFFD), branches := s!"size{d.2}", model := s!"{d.1} {d.2}" })
    | _, _, _ => ((), none)
  | "span" :: _ :: a :: b :: c :: d :: e :: f :: name0 :: rest, obs =>
    ((), spanLine [a, b, c, d, e, f] name0 rest obs)
  | ["lims", _, e1, e2, e3, e4, e5, e6, e7, e8, os], obs => ((), limsLine [e1, e2, e3, e4, e5, e6, e7, e8] os obs)
  | "spanb" :: _ :: a :: b :: c :: d :: e :: f :: name0 :: caps0 :: rest, obs =>
    ((), spanbLine [a, b, c, d, e, f] name0 caps0 rest obs)
  | _, _ => ((), none)

def main : IO Unit := Wire.run () stepLine
