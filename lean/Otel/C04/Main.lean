import Otel.Base.Truncate
open Otel Otel.Wire Otel.Utf8

def stepLine (_ : Unit) (toks : List String) : Unit × Option Verdict :=
  let (inp, obs) := splitObs toks
  match inp, obs with
  | ["trunc", _, lim, s], [o] =>
    match parseInt lim, parseHex s, parseHex o with
    | some l, some sb, some ob =>
      let m := Trunc.truncate l sb
      let spec := ob == Trunc.refTrunc l sb
      let cut := !(l < 0 || (sb.length : Int) ≤ l)
      let hasInv := (chunks sb).any (·.invalid)
      let br := if !cut then "short" else if hasInv then "slow" else "fast"
      ((), some { agree := m == ob, spec := if spec then "ok" else "FAIL", nontrivial := cut, branches := br, model := hexOf m })
    | _, _, _ => ((), none)
  | ["dec", _, s], [r, n] =>
    match parseHex s, parseNat r, parseNat n with
    | some sb, some rr, some nn =>
      let d := decode sb
      ((), some { agree := d == (rr, nn), spec := "na", nontrivial := nn > 1 || (rr == 0xFFFD), branches := s!"size{d.2}", model := s!"{d.1} {d.2}" })
    | _, _, _ => ((), none)
  | _, _ => ((), none)

def main : IO Unit := Wire.run () stepLine
