/-
C15 — property theorems: membership, exactly-once shutdown and after-shutdown behaviour do not depend on the RESULTS of
user callbacks (erring user processors, line kind `etp`).
-/
import Otel.C15.Model
import Otel.C15.Spec
import Otel.C15.Err
import Otel.C15.ErrLP
import Otel.C15.ErrMP
import Otel.C15.ErrLemmas
import Otel.C15.Lemmas
namespace Otel.C15.PropsErr
open Otel.C15 Otel.C15.TP Otel.C15.Err Otel.C15.ErrLemmas Otel.C15.Lemmas

/-- Clauses "delivered to exactly the processors currently registered", "shut down exactly once", "afterwards no-ops",
for ALL callback results: for every assignment `E` of erring user processors, every pool and every op sequence, the
run with the provider's error handling (`stepE E`: Unregister hands the error to otel.Handle, Shutdown joins the errors,
ForceFlush returns at the first erring processor) ends in a state with the SAME processor list (same once flags), the
same shut-down flag, the same tracer / span slots as the proved error-free model `TP.step`, and every pool component has
the same kind, `stopped` flag and the same OnStart / OnEnd / Shutdown counters; for the stock processors exported +
still-queued is the same.  Hence exact membership, exactly-once shutdown and the after-shutdown no-ops
(tp_lifecycle / membership_exact / shutdown_once / after_shutdown_noop) carry over to all callback results; only call
RESULTS and, behind an erring processor's ForceFlush, flush counters / the moment of a batch processor's export differ. -/
theorem membership_independent_of_callback_results (E : Nat → Bool) (kinds : List PKind) (ops : List Op) :
    let sE := (finalFromE E { st := init kinds } ops).st
    let s := finalFrom (init kinds) ops
    sE.procs = s.procs ∧ sE.isShutdown = s.isShutdown ∧ sE.tracers = s.tracers ∧ sE.spans = s.spans ∧
    ∀ i, (sE.pool i).kind = (s.pool i).kind ∧ (sE.pool i).stopped = (s.pool i).stopped ∧
      (sE.pool i).cnt.a = (s.pool i).cnt.a ∧ (sE.pool i).cnt.e = (s.pool i).cnt.e ∧
      (sE.pool i).cnt.s = (s.pool i).cnt.s ∧
      (sE.pool i).cnt.n + (sE.pool i).queued = (s.pool i).cnt.n + (s.pool i).queued := by
  have h := finalFromE_Rel E ops { st := init kinds } (init kinds) (Rel.refl _)
  exact ⟨h.procs, h.shut, h.tracers, h.spans, h.pool⟩

/-- without erring components the model with error handling IS the proved model: same results, same states -/
theorem no_errors_is_error_free (x : StE) (op : Op) :
    (stepE (fun _ => false) x op).1.st = (step x.st op).1 ∧ (stepE (fun _ => false) x op).2 = (step x.st op).2 := by
  have hfu : ∀ (s : St) (l : List (Nat × Bool)) (pool : Nat → PS),
      flushUntil (fun _ => false) s pool l = (flushAll pool l, false) := by
    intro s l
    induction l with
    | nil => intro pool; simp [flushUntil, flushAll]
    | cons p r ih => intro pool; simp [flushUntil, errs, ih, flushAll]
  rcases x with ⟨⟨pool, procs, sh, tr, sp⟩, hd⟩
  cases op with
  | unreg i =>
    simp only [stepE, step]
    cases sh
    · simp only [Bool.false_eq_true, if_false]
      cases removeLast i procs with
      | none => exact ⟨rfl, rfl⟩
      | some y => rcases y with ⟨⟨j, once⟩, rest⟩; exact ⟨rfl, rfl⟩
    · exact ⟨rfl, rfl⟩
  | shutdown c ch =>
    simp only [stepE, step, erringShut, errsShut]
    cases sh
    · simp only [Bool.false_eq_true, if_false]
      cases c.done <;> simp
    · exact ⟨rfl, rfl⟩
  | flush c =>
    simp only [stepE, step]
    cases procs with
    | nil => exact ⟨rfl, rfl⟩
    | cons p r => cases c.done <;> simp [hfu]
  | pshut i => simp [stepE, step, errsShut]
  | reg i => exact ⟨rfl, rfl⟩
  | tracer k => exact ⟨rfl, rfl⟩
  | start k j => exact ⟨rfl, rfl⟩
  | end_ j => exact ⟨rfl, rfl⟩
  | span k => exact ⟨rfl, rfl⟩

/-- The clause the seeded change C15-12 breaks, stated directly: unregistering a registered processor whose Shutdown
returns an ERROR removes exactly one registration of it from the list (the error goes to otel.Handle — ghost counter —
and nothing else depends on it), its Shutdown ran; and once no registration of it is left, a span started and ended
afterwards does not move any of its counters. -/
theorem unregister_removes_erring_processor (E : Nat → Bool) (x : StE) (i : Nat)
    (hlive : x.st.isShutdown = false) (hreg : (ids x.st.procs).count i ≠ 0)
    (hfresh : ∀ p ∈ x.st.procs, p.2 = false) :
    let y := (stepE E x (.unreg i)).1
    (∀ j, (ids x.st.procs).count j = (ids y.st.procs).count j + (if j = i then 1 else 0)) ∧
    y.st.pool i = procShutdown (x.st.pool i) ∧
    y.handled = x.handled + (if errsShut E x.st i then 1 else 0) ∧
    ((ids y.st.procs).count i = 0 → ∀ k,
      ((stepE E y (.span k)).1.st.pool i) = y.st.pool i) := by
  rcases x with ⟨⟨pool, procs, sh, tr, sp⟩, hd⟩
  simp only at hlive hreg hfresh
  subst hlive
  cases hrl : removeLast i procs with
  | none => exact absurd (removeLast_none i procs hrl) hreg
  | some q =>
    rcases q with ⟨⟨j, once⟩, rest⟩
    obtain ⟨hj, hmem, hcount, _, hsub⟩ := removeLast_some i procs (j, once) rest hrl
    have honce : once = false := hfresh _ hmem
    subst honce
    simp only [stepE, hrl, Bool.false_eq_true, if_false]
    refine ⟨hcount, by simp [upd], by simp, ?_⟩
    intro h0 k
    have hfr : ∀ p ∈ rest, p.2 = false := fun p hp => hfresh p (hsub p hp)
    simp only [step]
    cases tr k with
    | none => rfl
    | some b =>
      cases b
      · rfl
      · simp only [endAll, startAll]
        rw [foldl_upd, foldl_upd, h0]
        simp [iter]

/-- the scenario of the seeded change C15-12: an erring user processor and a plain one, a span, the erring one is
unregistered (its Shutdown error is handled), a span: only the plain one sees it; provider Shutdown: nil -/
def eKinds : List PKind := [.recd, .recd]
def eE : Nat → Bool := fun i => i == 0
def eOps : List Op :=
  [.tracer 0, .reg 0, .reg 1, .span 0, .unreg 0, .span 0, .flush .bg, .shutdown .bg {}]

example : (runE eE eKinds eOps).map (fun o => (o.res, (o.snap 0).e, (o.snap 0).s, (o.snap 1).e, (o.snap 1).f)) =
    [(.sdk, 0, 0, 0, 0), (.none, 0, 0, 0, 0), (.none, 0, 0, 0, 0), (.none, 1, 0, 1, 0), (.none, 1, 1, 1, 0),
     (.none, 1, 1, 2, 0), (.ok, 1, 1, 2, 1), (.ok, 1, 1, 2, 1)] := by decide
example : (finalFromE eE { st := init eKinds } (eOps.take 5)).handled = 1 := by decide
example : checkE eE eKinds eOps (runE eE eKinds eOps) = Spec.Fails.none := by decide
/-- while the erring processor is registered: ForceFlush stops at it (the processor behind it is not flushed) and both
ForceFlush and Shutdown report the user error -/
example : (runE eE eKinds [.reg 0, .reg 1, .flush .bg, .shutdown .bg {}]).map
    (fun o => (o.res, (o.snap 0).f, (o.snap 1).f, (o.snap 0).s, (o.snap 1).s)) =
    [(.none, 0, 0, 0, 0), (.none, 0, 0, 0, 0), (userErr, 1, 0, 0, 0), (userErr, 1, 0, 1, 1)] := by decide
/-- an implementation that keeps the erring processor registered (it still sees the span after `unreg`) is rejected by
the oracle: clause membership -/
example : (checkE eE eKinds (eOps.take 6)
    ((runE eE eKinds (eOps.take 6)).take 5 ++ [{ res := .none, snap := fun i =>
      if i = 0 then { a := 2, e := 2, s := 1 } else { a := 2, e := 2 } }])).m = true := by decide

/-! ## logger provider -/
section LoggerProvider
open Otel.C15.LP Otel.C15.LErr

/-- one step: the successor state is the error-free model's; the result is the error-free model's, or the user error
where the error-free model answers nil -/
theorem lp_step_independent_of_callback_results (E : Nat → Bool) (x : LErr.StE) (op : LP.Op) :
    (LErr.stepE E x op).1.st = (LP.step x.st op).1 ∧
    ((LErr.stepE E x op).2 = (LP.step x.st op).2 ∨
      ((LP.step x.st op).2 = .ok ∧ (LErr.stepE E x op).2 = LErr.userErr)) := by
  rcases x with ⟨⟨n, pool, stopped, loggers⟩, hd⟩
  cases op with
  | logger k => exact ⟨rfl, Or.inl rfl⟩
  | emit k =>
    simp only [LErr.stepE, LP.step]
    cases loggers k with
    | none => exact ⟨rfl, Or.inl rfl⟩
    | some b => cases b <;> cases stopped <;> exact ⟨rfl, Or.inl rfl⟩
  | flush c ch =>
    simp only [LErr.stepE, LP.step]
    cases stopped
    · simp only [Bool.false_eq_true, if_false]
      refine ⟨trivial, ?_⟩
      split
      · exact Or.inl rfl
      · split
        · right; constructor <;> first | rfl | trivial
        · exact Or.inl rfl
    · exact ⟨rfl, Or.inl rfl⟩
  | shutdown c ch =>
    simp only [LErr.stepE, LP.step]
    cases stopped
    · simp only [Bool.false_eq_true, if_false]
      refine ⟨trivial, ?_⟩
      split
      · exact Or.inl rfl
      · split
        · right; constructor <;> first | rfl | trivial
        · exact Or.inl rfl
    · exact ⟨rfl, Or.inl rfl⟩

/-- what an observation with callback results may differ in from the error-free one: nothing but the result, and that
only by the joined user error in place of nil -/
def lpObsRel (a b : LP.Obs) : Prop :=
  a.snap = b.snap ∧ (a.res = b.res ∨ (b.res = .ok ∧ a.res = LErr.userErr))

/-- pointwise relation of two observation lists of the same length -/
def lpObsRelAll : List LP.Obs → List LP.Obs → Prop
  | [], [] => True
  | a :: as, b :: bs => lpObsRel a b ∧ lpObsRelAll as bs
  | _, _ => False

theorem lp_runFrom_rel (E : Nat → Bool) (ops : List LP.Op) : ∀ (x : LErr.StE),
    lpObsRelAll (LErr.runFromE E x ops) (LP.runFrom x.st ops) ∧
    (LErr.finalFromE E x ops).st = LErr.finalFrom x.st ops := by
  induction ops with
  | nil => intro x; exact ⟨trivial, rfl⟩
  | cons op r ih =>
    intro x
    have h := lp_step_independent_of_callback_results E x op
    have ih' := ih (LErr.stepE E x op).1
    rw [h.1] at ih'
    refine ⟨?_, ?_⟩
    · show lpObsRelAll (_ :: _) (LP.runFrom x.st (op :: r))
      rw [show LP.runFrom x.st (op :: r) =
        { res := (LP.step x.st op).2, snap := fun i => ((LP.step x.st op).1.pool i).cnt } ::
          LP.runFrom (LP.step x.st op).1 r from rfl]
      refine ⟨⟨?_, h.2⟩, ih'.1⟩
      show (fun i => ((LErr.stepE E x op).1.st.pool i).cnt) = _
      rw [h.1]
    · show (LErr.finalFromE E (LErr.stepE E x op).1 r).st = LErr.finalFrom (LP.step x.st op).1 r
      exact ih'.2

/-- Logger provider, ALL callback results: for every assignment `E` of erring processors / exporters, every pool, every
resolution of the select races (Choice) and every op sequence, the run with sdk/log's error handling (Emit hands an
OnEmit error to otel.Handle and goes on with the next processor; ForceFlush / Shutdown join the errors of ALL
processors, no early return) makes, step by step, exactly the observations of the proved error-free model `LP.step` —
every counter of every component after every op — and ends in exactly its state (stopped flags, queues, logger handles);
a result differs only by the joined user error in place of nil.  Hence exactly-once shutdown of every processor /
exporter, exact delivery and export counts and the after-shutdown no-ops (lp_lifecycle, lp_shutdown_once,
lp_export_exact, lp_after_shutdown_noop) hold whatever the callbacks return. -/
theorem lp_behaviour_independent_of_callback_results (E : Nat → Bool) (kinds : List LKind) (ops : List LP.Op) :
    lpObsRelAll (LErr.runE E kinds ops) (LP.run kinds ops) ∧
    (LErr.finalFromE E { st := LP.init kinds } ops).st = LErr.finalFrom (LP.init kinds) ops :=
  lp_runFrom_rel E ops { st := LP.init kinds }

/-- without erring components the results are the error-free model's too -/
theorem lp_no_errors_is_error_free (x : LErr.StE) (op : LP.Op) :
    (LErr.stepE (fun _ => false) x op).1.st = (LP.step x.st op).1 ∧
    (LErr.stepE (fun _ => false) x op).2 = (LP.step x.st op).2 := by
  refine ⟨(lp_step_independent_of_callback_results _ x op).1, ?_⟩
  rcases x with ⟨⟨n, pool, stopped, loggers⟩, hd⟩
  cases op with
  | logger k => rfl
  | emit k =>
    simp only [LErr.stepE, LP.step]
    cases loggers k with
    | none => rfl
    | some b => cases b <;> cases stopped <;> rfl
  | flush c ch => cases stopped <;> simp [LErr.stepE, LP.step, LErr.errFlush]
  | shutdown c ch => cases stopped <;> simp [LErr.stepE, LP.step, LErr.errShut]

/-- non-vacuity: an erring user processor, an erring simple and an erring batch processor and a plain one: two records,
ForceFlush (user error, EVERY processor flushed), a record, Shutdown (user error, EVERY processor shut down once), then
no-ops; three OnEmit / Export errors per record went to the handler for the first two records -/
def lKinds : List LKind := [.recd, .simpleRec, .batchRec, .recd]
def lE : Nat → Bool := fun i => i < 3
def lOps : List LP.Op :=
  [.logger 0, .emit 0, .emit 0, .flush .bg {}, .emit 0, .shutdown .bg {}, .emit 0, .flush .bg {}, .shutdown .bg {}]

example : (LErr.runE lE lKinds lOps).map (fun o => (o.res, (o.snap 0).f, (o.snap 2).n, (o.snap 3).f, (o.snap 0).s, (o.snap 3).s)) =
    [(.sdk, 0, 0, 0, 0, 0), (.none, 0, 0, 0, 0, 0), (.none, 0, 0, 0, 0, 0), (LErr.userErr, 1, 2, 1, 0, 0),
     (.none, 1, 2, 1, 0, 0), (LErr.userErr, 1, 3, 1, 1, 1), (.none, 1, 3, 1, 1, 1), (.ok, 1, 3, 1, 1, 1),
     (.ok, 1, 3, 1, 1, 1)] := by decide
example : (LErr.finalFromE lE { st := LP.init lKinds } (lOps.take 3)).handled = 4 := by decide
example : LErr.checkE lE lKinds lOps (LErr.runE lE lKinds lOps) = Spec.Fails.none := by decide
/-- an implementation whose Shutdown returns at the first processor error (the later processors are never shut down)
is rejected by the oracle: clause once -/
example : (LErr.checkE lE lKinds (lOps.take 6)
    ((LErr.runE lE lKinds (lOps.take 6)).take 5 ++ [{ res := LErr.userErr, snap := fun i =>
      if i = 0 then { e := 3, f := 1, s := 1 } else if i = 1 then { n := 3, f := 1 } else if i = 2 then { n := 2, f := 1 }
      else { e := 3, f := 1 } }])).o = true := by decide

end LoggerProvider

/-! ## meter provider -/
section MeterProvider
open Otel.C15.MP Otel.C15.MErr

/-- per reader: everything but the exporter's ForceFlush counter is equal; that counter may only be BEHIND -/
def mpReaderRel (p q : MP.RS) : Prop :=
  p.kind = q.kind ∧ p.rshut = q.rshut ∧ p.cnt.n = q.cnt.n ∧ p.cnt.s = q.cnt.s ∧ p.cnt.a = q.cnt.a ∧ p.cnt.e = q.cnt.e ∧
    p.cnt.f ≤ q.cnt.f

/-- provider state: everything equal (meter handles, stopped, the shutdown Once, the measurement total) except the
exporters' ForceFlush counters -/
structure mpStateRel (s t : MP.St) : Prop where
  n : s.n = t.n
  stopped : s.stopped = t.stopped
  once : s.once = t.once
  meters : s.meters = t.meters
  total : s.total = t.total
  pool : ∀ i, mpReaderRel (s.pool i) (t.pool i)

theorem mpReaderRel_shutdown {p q : MP.RS} (h : mpReaderRel p q) : mpReaderRel (readerShutdown p) (readerShutdown q) := by
  rcases p with ⟨pk, ⟨pa, pe, pf, ps, pn⟩, psh⟩
  rcases q with ⟨qk, ⟨qa, qe, qf, qs, qn⟩, qsh⟩
  simp only [mpReaderRel] at h
  obtain ⟨rfl, rfl, rfl, rfl, rfl, rfl, hf⟩ := h
  cases pk <;> cases psh <;> simp [mpReaderRel, readerShutdown, hf]

theorem mpReaderRel_flush (E : ErrSet) (done : Bool) (k i : Nat) {p q : MP.RS} (h : mpReaderRel p q) :
    mpReaderRel (readerFlushE E done k i p) (readerFlush done k q) := by
  rcases p with ⟨pk, ⟨pa, pe, pf, ps, pn⟩, psh⟩
  rcases q with ⟨qk, ⟨qa, qe, qf, qs, qn⟩, qsh⟩
  simp only [mpReaderRel] at h
  obtain ⟨rfl, rfl, rfl, rfl, rfl, rfl, hf⟩ := h
  cases pk <;> cases psh <;> cases done <;> simp [mpReaderRel, readerFlushE, readerFlush, hf] <;>
    (try split) <;> omega

/-- one step: state relation preserved; the result is the error-free model's, or the user error where that one is nil -/
theorem mp_step_rel (E : ErrSet) {s t : MP.St} (op : MP.Op) (h : mpStateRel s t) :
    mpStateRel (MErr.stepE E s op).1 (MP.step t op).1 ∧
    ((MErr.stepE E s op).2 = (MP.step t op).2 ∨ ((MP.step t op).2 = .ok ∧ (MErr.stepE E s op).2 = MErr.userErr)) := by
  rcases s with ⟨n, pool1, st, on, me, tot⟩
  rcases t with ⟨n2, pool2, st2, on2, me2, tot2⟩
  obtain ⟨hn, hs, ho, hm, ht, hp⟩ := h
  simp only at hn hs ho hm ht hp
  subst hn hs ho hm ht
  have hk : ∀ i, (pool1 i).kind = (pool2 i).kind := fun i => (hp i).1
  have hr : ∀ i, (pool1 i).rshut = (pool2 i).rshut := fun i => (hp i).2.1
  cases op with
  | meter k => exact ⟨⟨rfl, rfl, rfl, rfl, rfl, hp⟩, Or.inl rfl⟩
  | add k =>
    simp only [MErr.stepE, MP.step]
    cases me k with
    | none => exact ⟨⟨rfl, rfl, rfl, rfl, rfl, hp⟩, Or.inl rfl⟩
    | some b => cases b <;> exact ⟨⟨rfl, rfl, rfl, rfl, rfl, hp⟩, Or.inl rfl⟩
  | collect i =>
    simp only [MErr.stepE, MP.step, hr i]
    split
    · split <;> exact ⟨⟨rfl, rfl, rfl, rfl, rfl, hp⟩, Or.inl rfl⟩
    · exact ⟨⟨rfl, rfl, rfl, rfl, rfl, hp⟩, Or.inl rfl⟩
  | flush c ch =>
    have h1 : (fun i => flushCtxErr c.done ch pool1 i) = fun i => flushCtxErr c.done ch pool2 i := by
      funext i; simp [flushCtxErr, hk i, hr i]
    have h2 : (fun i => flushShutErr c.done ch pool1 i) = fun i => flushShutErr c.done ch pool2 i := by
      funext i; simp [flushShutErr, hk i, hr i]
    refine ⟨⟨rfl, rfl, rfl, rfl, rfl, ?_⟩, ?_⟩
    · intro i
      simp only [MErr.stepE, MP.step, forAll]
      split
      · exact mpReaderRel_flush E c.done (ch.k i) i (hp i)
      · exact hp i
    · simp only [MErr.stepE, MP.step]
      have e1 : (List.range n).any (flushCtxErr c.done ch pool1) = (List.range n).any (flushCtxErr c.done ch pool2) :=
        congrArg _ h1
      have e2 : (List.range n).any (flushShutErr c.done ch pool1) = (List.range n).any (flushShutErr c.done ch pool2) :=
        congrArg _ h2
      rw [e1, e2]
      split
      · exact Or.inl rfl
      · split
        · right; constructor <;> first | rfl | trivial
        · exact Or.inl rfl
  | shutdown c =>
    simp only [MErr.stepE, MP.step]
    cases on
    · simp only [Bool.false_eq_true, if_false]
      refine ⟨⟨rfl, rfl, rfl, rfl, rfl, ?_⟩, ?_⟩
      · intro i
        simp only [forAll]
        split
        · exact mpReaderRel_shutdown (hp i)
        · exact hp i
      · split
        · right; constructor <;> first | rfl | trivial
        · exact Or.inl rfl
    · exact ⟨⟨rfl, rfl, rfl, rfl, rfl, hp⟩, Or.inl rfl⟩

theorem mpStateRel_refl (s : MP.St) : mpStateRel s s :=
  ⟨rfl, rfl, rfl, rfl, rfl, fun _ => ⟨rfl, rfl, rfl, rfl, rfl, rfl, Nat.le_refl _⟩⟩

/-- observation with callback results against the error-free one: Export and Shutdown counters equal, the exporter's
ForceFlush counter at most behind; the result equal, or the user error in place of nil -/
def mpObsRel (a b : MP.Obs) : Prop :=
  (∀ i, (a.snap i).n = (b.snap i).n ∧ (a.snap i).s = (b.snap i).s ∧ (a.snap i).f ≤ (b.snap i).f) ∧
  (a.res = b.res ∨ (b.res = .ok ∧ a.res = MErr.userErr))

def mpObsRelAll : List MP.Obs → List MP.Obs → Prop
  | [], [] => True
  | a :: as, b :: bs => mpObsRel a b ∧ mpObsRelAll as bs
  | _, _ => False

theorem mp_runFrom_rel (E : ErrSet) (ops : List MP.Op) : ∀ (s t : MP.St), mpStateRel s t →
    mpObsRelAll (MErr.runFromE E s ops) (MP.runFrom t ops) ∧
    mpStateRel (MErr.finalFromE E s ops) (MErr.finalFrom t ops) := by
  induction ops with
  | nil => intro s t h; exact ⟨trivial, h⟩
  | cons op r ih =>
    intro s t h
    have hs := mp_step_rel E op h
    have ih' := ih _ _ hs.1
    refine ⟨?_, ih'.2⟩
    show mpObsRelAll (_ :: _) (MP.runFrom t (op :: r))
    rw [show MP.runFrom t (op :: r) =
      { res := (MP.step t op).2, snap := fun i => ((MP.step t op).1.pool i).cnt } ::
        MP.runFrom (MP.step t op).1 r from rfl]
    exact ⟨⟨fun i => ⟨(hs.1.pool i).2.2.1, (hs.1.pool i).2.2.2.1, (hs.1.pool i).2.2.2.2.2.2⟩, hs.2⟩, ih'.1⟩

/-- Meter provider, ALL callback results: for every per-callback error assignment `E` of the periodic readers'
exporters, every pool, Choice and op sequence, the run with sdk/metric's error handling (`unify` calls EVERY reader
and joins the errors; PeriodicReader.Shutdown calls the exporter's Shutdown on every path; PeriodicReader.ForceFlush
returns an Export error before calling the exporter's ForceFlush) makes, step by step, the observations of the proved
error-free model `MP.step` in every Export and Shutdown counter — every reader and exporter is shut down exactly once
even if an earlier reader / exporter errs — and ends in its state (reader shut-down flags, stopped, the shutdown Once,
meter handles, measurement total); a result differs only by the user error in place of nil.  The ONLY state difference
is the exporter's ForceFlush counter, which may be behind (the calls skipped behind an erring Export). -/
theorem mp_behaviour_independent_of_callback_results (E : ErrSet) (kinds : List RKind) (ops : List MP.Op) :
    mpObsRelAll (MErr.runE E kinds ops) (MP.run kinds ops) ∧
    mpStateRel (MErr.finalFromE E (MP.init kinds) ops) (MErr.finalFrom (MP.init kinds) ops) :=
  mp_runFrom_rel E ops _ _ (mpStateRel_refl _)

/-- … and that difference exists only behind an erring EXPORT: if no exporter's Export errs (ForceFlush / Shutdown
may), every step leaves exactly the error-free model's state -/
theorem mp_state_equal_without_export_errors (E : ErrSet) (hx : ∀ i, E.x i = false) (s : MP.St) (op : MP.Op) :
    (MErr.stepE E s op).1 = (MP.step s op).1 := by
  have hfl : ∀ done k i r, readerFlushE E done k i r = readerFlush done k r := by
    intro done k i r
    rcases r with ⟨rk, rc, rsh⟩
    cases rk <;> cases rsh <;> cases done <;> simp [readerFlushE, readerFlush, hx i]
  rcases s with ⟨n, pool, st, on, me, tot⟩
  cases op with
  | flush c ch =>
    have hf : (fun i => readerFlushE E c.done (ch.k i) i) = fun i => readerFlush c.done (ch.k i) := by
      funext i r; exact hfl _ _ _ _
    simp [MErr.stepE, MP.step, hf]
  | shutdown c => cases on <;> simp [MErr.stepE, MP.step]
  | meter k => rfl
  | add k => rfl
  | collect i => rfl

/-- without erring callbacks the model with error handling IS the proved model, results included -/
theorem mp_no_errors_is_error_free (s : MP.St) (op : MP.Op) : MErr.stepE {} s op = MP.step s op := by
  have h1 := mp_state_equal_without_export_errors {} (fun _ => rfl) s op
  rcases s with ⟨n, pool, st, on, me, tot⟩
  cases op with
  | flush c ch =>
    refine Prod.ext h1 ?_
    simp [MErr.stepE, MP.step, MErr.errFlush]
  | shutdown c =>
    refine Prod.ext h1 ?_
    cases on <;> simp [MErr.stepE, MP.step, MErr.errShut]
  | meter k => rfl
  | add k => rfl
  | collect i => rfl

/-- non-vacuity: four periodic readers — Export errs / ForceFlush errs / Shutdown errs / none — and a manual one:
ForceFlush (user error; every reader exports; the exporter behind the erring Export is NOT flushed), Shutdown (user
error; EVERY exporter exported once more and was shut down exactly once), then ErrReaderShutdown -/
def mKinds : List RKind := [.periodic, .periodic, .periodic, .periodic, .manual]
def mE : ErrSet := { x := fun i => i == 0, f := fun i => i == 1, s := fun i => i == 2 }
def mOps : List MP.Op := [.meter 0, .add 0, .flush .bg {}, .shutdown .bg, .flush .bg {}, .shutdown .bg]

example : (MErr.runE mE mKinds mOps).map (fun o => (o.res, (o.snap 0).n, (o.snap 0).f, (o.snap 1).f, (o.snap 3).f,
      (o.snap 3).s)) =
    [(.sdk, 0, 0, 0, 0, 0), (.none, 0, 0, 0, 0, 0), (MErr.userErr, 1, 0, 1, 1, 0),
     (MErr.userErr, 2, 0, 1, 1, 1), (.err false false true, 2, 0, 1, 1, 1),
     (.err false false true, 2, 0, 1, 1, 1)] := by decide
example : MErr.checkE mE mKinds mOps (MErr.runE mE mKinds mOps) = Spec.Fails.none := by decide
/-- an implementation whose `unify` returns at the first error (the later readers are never shut down) is rejected by
the oracle: clause once -/
example : (MErr.checkE mE mKinds (mOps.take 4)
    ((MErr.runE mE mKinds (mOps.take 4)).take 3 ++ [{ res := MErr.userErr, snap := fun i =>
      if i = 0 then { n := 2, s := 1 } else if i < 4 then { n := 1, f := 1 } else {} }])).o = true := by decide

end MeterProvider

end Otel.C15.PropsErr
