/-
C15 — property theorems for a ForceFlush that overlaps a Shutdown (forced schedules at the verifPoint hooks, `ptp`
lines): clause "after Shutdown has returned further flush calls are harmless no-ops; no call blocks forever".
-/
import Otel.C15.Model
import Otel.C15.Spec
import Otel.C15.Park
import Otel.C15.ParkLemmas
namespace Otel.C15.PropsPark
open Otel.C15 Otel.C15.TP Otel.C15.Park Otel.C15.ParkLemmas

/-- Clause 'no call blocks forever' / 'flush calls after Shutdown are harmless no-ops', for the ForceFlush that passed
its stopped check BEFORE Shutdown stored the flag and goes on only AFTER Shutdown has returned.  In every reachable state
of the processor-level LTS (any interleaving of End, ForceFlush, worker and Shutdown steps, any queue capacity) in which
the Shutdown call has returned, a ForceFlush sitting at its park point that finds room in the queue can send its marker,
and then its ONLY enabled step is the wake-up through the closed stopCh: nobody is left to consume the marker (worker
steps disabled, flushCh never closed), the call returns nil, exports nothing and leaves the exporter's Shutdown count
(exactly once) untouched. -/
theorem parked_forceflush_returns_after_shutdown (cap : Nat) (b : B) (hr : Reachable cap b)
    (hsd : b.sd = .returned) (hff : b.ff = some .checked) (hroom : b.queue.length < b.cap) :
    ∃ b1 b2, Park.step b .ffSend = some b1 ∧ Park.step b1 .ffWakeStop = some b2 ∧
      b2.ff = some (.ret .ok) ∧ b2.exported = b.exported ∧ b2.expShut = b.expShut ∧ b2.batch = b.batch ∧
      Park.step b1 .ffWakeFlushed = none ∧ Park.step b1 .wTake = none ∧ Park.step b1 .wDrain = none ∧
      Park.step b1 .wStop = none := by
  have hi := inv_reachable hr
  have hw : b.worker = .done := hi.sd hsd
  have hc : b.stopCh = true := hi.cl (Or.inr hsd)
  refine ⟨{ b with queue := b.queue ++ [.marker], flushed := false, ff := some .waiting },
          { b with queue := b.queue ++ [.marker], flushed := false, ff := some (.ret .ok) }, ?_⟩
  simp [Park.step, hff, hroom, hc, hw]

/-- non-vacuity: End, ForceFlush passes its check, Shutdown runs to completion (store, close, worker stops, drains the
span, final export, exporter Shutdown), then the ForceFlush goes on: marker sent, woken by stopCh, nil -/
example : (runL { cap := 4 } [.onEnd, .ffCall, .sdStore, .sdClose, .wStop, .wDrain, .wDrain, .sdExp, .ffSend, .ffWakeStop]).map
    (fun b => (b.ff, b.exported, b.expShut, b.sd)) = some (some (.ret .ok), 1, 1, .returned) := by decide
/-- without the stopCh case (the seeded change C15-10: `ffWakeStop` removed) that run has no continuation: after the
send no step of the LTS other than `onEnd`/`ffCall` is enabled, the call stays `waiting` -/
example : (runL { cap := 4 } [.onEnd, .ffCall, .sdStore, .sdClose, .wStop, .wDrain, .wDrain, .sdExp, .ffSend]).map
    (fun b => ([Lbl.ffWakeFlushed, .ffExport, .wTake, .wStop, .wDrain, .sdStore, .sdClose, .sdExp].map
      fun l => (Park.step b l).isSome, b.ff)) = some ([false, false, false, false, false, false, false, false], some .waiting) := by
  decide

/-- Separation from known finding F42 (a producer blocked on the FULL queue of an exited worker): after a returned
Shutdown the parked ForceFlush's marker send is disabled exactly in the state `StuckFF` — queue full.  With room in the
queue a ForceFlush that does not return is not that finding. -/
theorem parked_forceflush_blocks_only_on_full_queue (cap : Nat) (b : B) (hr : Reachable cap b)
    (hsd : b.sd = .returned) (hff : b.ff = some .checked) :
    Park.step b .ffSend = none ↔ StuckFF b := by
  have hw : b.worker = .done := (inv_reachable hr).sd hsd
  simp [Park.step, StuckFF, hff, hw]

example : StuckFF { cap := 1, queue := [.span], worker := .done, sd := .returned, stopped := true, stopCh := true,
                    ff := some .checked } := ⟨rfl, rfl, by decide⟩

/-- Refinement back to the atomic model (Model.lean): the released ForceFlush, run step by step on the processor-level
LTS (marker send, worker takes every queued span into the batch and closes the marker's channel, wake-up, own export — or, on a stopped
processor, the wake-up through stopCh), has exactly the effect and result of the one-step `procFlush` executed at the
moment of the release — for every component state with room in the queue. -/
theorem released_forceflush_is_atomic_flush (cap : Nat) (p : PS) (hroom : p.queued < cap) :
    relProc cap p = (procFlush p, .ok) := by
  rcases p with ⟨kind, ⟨ca, ce, cf, cs, cn⟩, stopped, queued⟩
  simp only at hroom
  cases kind <;> simp only [relProc, procFlush]
  case batchRec =>
    cases stopped
    · -- live: the worker serves the marker
      have htake := takeAll_spans queued
        { cap := cap, queue := List.replicate queued .span ++ [.marker], expShut := cs, exported := cn,
          ff := some .waiting } [] rfl rfl
      simp [finish, Park.step, conc, hroom, htake, spansIn]
    · -- stopped: woken by the closed stopCh
      have hc : 0 < cap := by omega
      simp [finish, Park.step, conc, hc]

def relView (x : PS × Res) : Nat × Cnt × Bool × Res := (x.1.queued, x.1.cnt, x.1.stopped, x.2)
example : relView (relProc 8 { kind := .batchRec, queued := 3, cnt := { n := 2 } }) =
    (0, { n := 5 }, false, .ok) := by decide
example : relView (relProc 8 { kind := .batchRec, queued := 0, stopped := true, cnt := { n := 2, s := 1 } }) =
    (0, { n := 2, s := 1 }, true, .ok) := by decide
/-- a full queue on an exited worker (F42) is the only way the released call does not return -/
example : (relProc 3 { kind := .batchRec, queued := 3 }).2 = .crash := by decide

/-- Provider level: releasing a parked ForceFlush is the ordinary ForceFlush (`procFlush` / `flushAll` of the proved
sequential model) of the processor it was parked in and of the rest of ITS snapshot, executed at the release — whatever
was registered, unregistered or shut down while it was parked; it returns nil.  In particular a processor shut down
meanwhile (`procFlush` of a stopped processor is the identity) exports nothing and its exporter is not shut down again. -/
theorem parked_release_is_flush_of_snapshot_rest (g : PSt) (k : Nat) (post : List (Nat × Bool))
    (hf : g.fly = some (k, post)) (hroom : (g.st.pool k).queued < queueCap) :
    pstep g .rel =
      ({ st := { g.st with pool := flushAll (upd g.st.pool k procFlush) post }, fly := none }, .ok, false) := by
  have hset : setAt g.st.pool k (procFlush (g.st.pool k)) = upd g.st.pool k procFlush := by
    funext j; simp only [setAt, upd]; split <;> simp_all
  simp [pstep, hf, released_forceflush_is_atomic_flush queueCap _ hroom, hset]

/-- the scenario of the seeded change C15-10: a batch processor with one ended span, ForceFlush parked after the
stopped check, provider Shutdown completes (the span is exported by the drain, the exporter shut down once), release:
nil, nothing moves -/
def pKinds : List PKind := [.batchRec, .recd]
def pOps : List POp :=
  [.op (.tracer 0), .op (.reg 0), .op (.reg 1), .op (.span 0), .ffpark none, .op (.shutdown .bg {}), .rel,
   .op (.span 0), .op (.flush .bg)]

example : (prun pKinds pOps).map (fun o => (o.res, o.parked, (o.snap 0).n, (o.snap 0).s, (o.snap 1).f)) =
    [(.sdk, false, 0, 0, 0), (.none, false, 0, 0, 0), (.none, false, 0, 0, 0), (.none, false, 0, 0, 0),
     (.none, true, 0, 0, 0), (.ok, false, 1, 1, 0), (.ok, false, 1, 1, 1), (.none, false, 1, 1, 1),
     (.ok, false, 1, 1, 1)] := by decide
example : pcheck pKinds pOps (prun pKinds pOps) = Spec.Fails.none := by decide
/-- an implementation whose released ForceFlush never returns (observation `hang` at the release) is rejected by the
oracle: clause 'blocks forever' -/
example : (pcheck pKinds (pOps.take 7)
    ((prun pKinds (pOps.take 7)).take 6 ++ [{ res := .crash, parked := false, snap := ((prun pKinds (pOps.take 7)).getD 5
      { res := .none, parked := false, snap := fun _ => {} }).snap }])).t = true := by decide

end Otel.C15.PropsPark
