/-
C15 — a ForceFlush that overlaps a Shutdown (forced schedules at the verifPoint hooks of sdk/trace, line kind `ptp`).

Part 1 (`B`, `step`): the batch span processor's `ForceFlush` and `Shutdown` as the steps they really have
(sdk/trace/batch_span_processor.go), one label per atomic section:

  ForceFlush:  ctx.Err() / `stopped.Load()` check            `ffCall`     [hook bsp.ForceFlush.checked: the park point]
               marker send `enqueueBlockOnQueueFull`          `ffSend`     (enabled only while the queue has room; the
                                                                           context has no deadline)
               select { stopCh closed → return nil            `ffWakeStop`
                      | flushCh closed → go on                `ffWakeFlushed` }
               own `exportSpans`, return nil                  `ffExport`
  worker:      processQueue takes an item                     `wTake`      (span → batch; marker → close flushCh)
               processQueue sees stopCh                       `wStop`
               drainQueue takes an item / final export        `wDrain`     (markers are IGNORED by the drain)
  Shutdown:    `stopped.Store(true)`                          `sdStore`    [hook bsp.Shutdown.stored]
               `close(stopCh)`                                `sdClose`
               `stopWait.Wait()`, exporter Shutdown, return   `sdExp`

Part 2 (`PSt`, `pstep`): the trace provider's scripts with one ForceFlush parked after a batch processor's stopped
check (`ffpark`) and released later (`rel`); the release runs the processor-level steps of part 1 (`relProc`).
Part 3: the oracle for such scripts (`pcheck`).

Contexts of the parked call: background (no deadline).  Batch size / timer: the scripts stay below the batch size and
the batch timeout is 1 h (assumption shared with the rest of C15), so the worker exports only at markers and at the
drain.  The queue has its default capacity `queueCap` = 2048 and the scripts end a handful of spans: the marker send
never blocks — the blocked send on the FULL queue of an exited worker is known finding F42 and is not generated here;
with room in the queue a ForceFlush that does not return is a plain failure.
-/
import Otel.C15.Model
import Otel.C15.Spec
namespace Otel.C15.Park
open Otel.C15 Otel.C15.TP

/-! ## 1. processor level -/

inductive Item | span | marker
  deriving DecidableEq, Repr

inductive FF | checked | waiting | exporting | ret (r : Res)
  deriving DecidableEq, Repr

inductive WPhase | run | drain | done
  deriving DecidableEq, Repr

inductive SD | idle | stored | closed | returned
  deriving DecidableEq, Repr

structure B where
  cap : Nat
  queue : List Item := []
  batch : Nat := 0          -- len(bsp.batch)
  stopped : Bool := false   -- bsp.stopped
  stopCh : Bool := false    -- closed
  worker : WPhase := .run
  sd : SD := .idle          -- the (first) Shutdown call, inside stopOnce
  expShut : Nat := 0        -- exporter Shutdown calls
  exported : Nat := 0
  flushed : Bool := false   -- flushCh of the tracked ForceFlush is closed
  ff : Option FF := none    -- the tracked ForceFlush call
  deriving DecidableEq, Repr

inductive Lbl
  | onEnd | ffCall | ffSend | ffWakeStop | ffWakeFlushed | ffExport
  | wTake | wStop | wDrain | sdStore | sdClose | sdExp
  deriving DecidableEq, Repr

/-- one atomic step; `none` = the step is not enabled (the goroutine blocks / is elsewhere) -/
def step (b : B) : Lbl → Option B
  | .onEnd =>
    if b.stopped then some b
    else if b.queue.length < b.cap then some { b with queue := b.queue ++ [.span] } else some b   -- enqueueDrop
  | .ffCall =>
    match b.ff with
    | none => some { b with ff := some (if b.stopped then .ret .ok else .checked) }
    | some _ => none
  | .ffSend =>
    if b.ff = some .checked ∧ b.queue.length < b.cap then
      some { b with queue := b.queue ++ [.marker], flushed := false, ff := some .waiting }
    else none
  | .ffWakeStop => if b.ff = some .waiting ∧ b.stopCh = true then some { b with ff := some (.ret .ok) } else none
  | .ffWakeFlushed => if b.ff = some .waiting ∧ b.flushed = true then some { b with ff := some .exporting } else none
  | .ffExport =>
    if b.ff = some .exporting then some { b with exported := b.exported + b.batch, batch := 0, ff := some (.ret .ok) }
    else none
  | .wTake =>
    if b.worker = .run then
      match b.queue with
      | .span :: q => some { b with queue := q, batch := b.batch + 1 }
      | .marker :: q => some { b with queue := q, flushed := true }           -- `close(ffs.flushed)`, nothing else
      | [] => none
    else none
  | .wStop => if b.worker = .run ∧ b.stopCh = true then some { b with worker := .drain } else none
  | .wDrain =>
    if b.worker = .drain then
      match b.queue with
      | .span :: q => some { b with queue := q, batch := b.batch + 1 }
      | .marker :: q => some { b with queue := q }                       -- "Ignore flush requests"
      | [] => some { b with exported := b.exported + b.batch, batch := 0, worker := .done }
    else none
  | .sdStore => if b.sd = .idle then some { b with stopped := true, sd := .stored } else none
  | .sdClose => if b.sd = .stored then some { b with stopCh := true, sd := .closed } else none
  | .sdExp => if b.sd = .closed ∧ b.worker = .done then some { b with expShut := b.expShut + 1, sd := .returned } else none

def runL (b : B) : List Lbl → Option B
  | [] => some b
  | l :: r => match step b l with | some b' => runL b' r | none => none

inductive Reachable (cap : Nat) : B → Prop
  | init : Reachable cap { cap := cap }
  | step {b b' : B} (l : Lbl) : Reachable cap b → step b l = some b' → Reachable cap b'

/-- the state of known finding F42 (C01: StuckProducer_applies), ForceFlush half: past the stopped check, the worker has
exited, the queue is full -/
def StuckFF (b : B) : Prop := b.ff = some .checked ∧ b.worker = .done ∧ b.cap ≤ b.queue.length

/-- the worker takes items while there are any (at most `fuel`) -/
def takeAll : Nat → B → B
  | 0, b => b
  | fuel + 1, b => match step b .wTake with | some b' => takeAll fuel b' | none => b

/-- the schedule of a released ForceFlush on a processor on which no other call is pending: send the marker, then
either the closed stopCh wakes it, or the worker takes everything up to the marker and the call's own export finishes it -/
def finish (b : B) : B :=
  match step b .ffSend with
  | none => b
  | some b1 =>
    match step b1 .ffWakeStop with
    | some b2 => b2
    | none =>
      let b2 := takeAll b1.queue.length b1
      match step b2 .ffWakeFlushed with
      | some b3 => (step b3 .ffExport).getD b3
      | none => b2

def spansIn (q : List Item) : Nat := (q.filter (· == .span)).length

/-- processor-level state of a batch processor (recording exporter) of the provider model on which a ForceFlush sits
at its park point and nothing else is pending: not stopped = the worker runs, stopped = the first Shutdown has returned -/
def conc (cap : Nat) (p : PS) : B :=
  { cap := cap, queue := if p.stopped then [] else List.replicate p.queued .span, stopped := p.stopped,
    stopCh := p.stopped, worker := if p.stopped then .done else .run, sd := if p.stopped then .returned else .idle,
    expShut := p.cnt.s, exported := p.cnt.n, ff := some .checked }

/-- the released `sp.ForceFlush(background)` from its park point on: new component state and result
(`crash` = the call does not return) -/
def relProc (cap : Nat) (p : PS) : PS × Res :=
  match p.kind with
  | .batchRec =>
    let b := finish (conc cap p)
    ({ p with queued := if b.stopped then p.queued else spansIn b.queue + b.batch,
              cnt := { p.cnt with n := b.exported, s := b.expShut } },
     match b.ff with | some (.ret r) => r | _ => .crash)
  | .batchNil => (p, .ok)                 -- `bsp.e == nil`: nothing to do
  | _ => (procFlush p, .ok)               -- other kinds have no park point

/-! ## 2. provider level -/

def queueCap : Nat := 2048

inductive POp
  | op (o : TP.Op)
  | ffpark (t : Option Nat)   -- none: provider.ForceFlush(background); some i: pool[i].ForceFlush(background)
  | rel

structure PSt where
  st : TP.St
  fly : Option (Nat × List (Nat × Bool)) := none   -- processor the call is parked in, rest of its snapshot

/-- the hook sits after the stopped check of a batch processor, before the `bsp.e != nil` test -/
def parksAt (pool : Nat → PS) (i : Nat) : Bool :=
  ((pool i).kind == .batchRec || (pool i).kind == .batchNil) && !(pool i).stopped

def splitPark (pool : Nat → PS) : List (Nat × Bool) → Option (List (Nat × Bool) × Nat × List (Nat × Bool))
  | [] => none
  | p :: r =>
    if parksAt pool p.1 then some ([], p.1, r)
    else match splitPark pool r with
      | some (a, k, b) => some (p :: a, k, b)
      | none => none

def plainFlush (g : PSt) : Option Nat → PSt × Res × Bool
  | none => ({ g with st := (TP.step g.st (.flush .bg)).1 }, (TP.step g.st (.flush .bg)).2, false)
  | some i => ({ g with st := { g.st with pool := upd g.st.pool i procFlush } }, .ok, false)

/-- result, "the ForceFlush is parked", new state -/
def pstep (g : PSt) : POp → PSt × Res × Bool
  | .op o => ({ g with st := (TP.step g.st o).1 }, (TP.step g.st o).2, false)
  | .ffpark t =>
    match g.fly with
    | some _ => plainFlush g t                       -- the hook is armed one-shot: one parked call at a time
    | none =>
      match t with
      | none =>
        match splitPark g.st.pool g.st.procs with    -- TracerProvider.ForceFlush has loaded the list: its snapshot
        | some (pre, k, post) =>
          ({ st := { g.st with pool := flushAll g.st.pool pre }, fly := some (k, post) }, .none, true)
        | none => plainFlush g none
      | some i => if parksAt g.st.pool i then ({ g with fly := some (i, []) }, .none, true) else plainFlush g (some i)
  | .rel =>
    match g.fly with
    | none => (g, .none, false)
    | some (k, post) =>
      let x := relProc queueCap (g.st.pool k)
      -- a nil result lets the provider's loop go on with the rest of ITS snapshot
      ({ st := { g.st with pool := if x.2 = .ok then flushAll (setAt g.st.pool k x.1) post else setAt g.st.pool k x.1 },
         fly := none }, x.2, false)

structure PObs where
  res : Res
  parked : Bool
  snap : Nat → Cnt

def prunFrom (g : PSt) : List POp → List PObs
  | [] => []
  | op :: r =>
    let x := pstep g op
    { res := x.2.1, parked := x.2.2, snap := fun i => (x.1.st.pool i).cnt } :: prunFrom x.1 r

def prun (kinds : List PKind) (ops : List POp) : List PObs := prunFrom { st := init kinds } ops

/-! ## 3. oracle -/

structure PRef where
  ref : Spec.TP.Ref := {}
  owed : Option (Nat → Nat) := none     -- per recording processor: ForceFlush calls of the parked call still to come
  snapMult : Nat → Nat := fun _ => 0    -- multiplicities in the parked call's snapshot

open Spec in
/-- One step judged.  Ordinary ops: `Spec.TP.checkStep`.  A ForceFlush that parks: no recording processor has seen
more ForceFlush calls than its multiplicity (the rest is owed), no exporter has moved.  `rel`: the call RETURNS NIL
(clause 'no call blocks forever' / 'harmless no-op'), every recording processor receives exactly what it is owed, no
exporter is shut down by it, a batch processor that has been taken out of service meanwhile exports NOTHING, one of the
snapshot that is still in service has exported everything delivered to it, nobody else moves. -/
def pcheckStep (kinds : List PKind) (g : PRef) (op : POp) (prev cur : Nat → Cnt) (res : Res) (parked : Bool) :
    Fails × PRef :=
  let n := kinds.length
  let plain (o : TP.Op) : Fails × PRef :=
    ((Spec.TP.checkStep kinds g.ref o prev cur res).or { a := parked }, { g with ref := Spec.TP.refStep g.ref o res })
  match op with
  | .op o => plain o
  | .ffpark t =>
    if !parked then
      match t with
      | none => plain (.flush .bg)
      | some j =>
        ({ m := !(allBelow n fun i =>
              match kindOf kinds i with
              | .recd => (cur i).a == (prev i).a && (cur i).e == (prev i).e && (cur i).n == 0
              | .batchRec => (cur i).n == (if i == j && !g.ref.dead i then g.ref.deliv i else (prev i).n)
              | _ => (cur i).n == (prev i).n)
           o := !(allBelow n fun i => (cur i).s == (prev i).s)
           a := !(res == .ok && allBelow n fun i =>
              match kindOf kinds i with
              | .recd => (cur i).f == (prev i).f + (if i == j then 1 else 0)
              | _ => (cur i).f == 0)
           t := res == .crash }, g)
    else
      let multF : Nat → Nat := match t with | none => g.ref.mem.mult | some _ => fun _ => 0
      ({ m := !(allBelow n fun i =>
            match kindOf kinds i with
            | .recd => (cur i).a == (prev i).a && (cur i).e == (prev i).e && (cur i).n == 0
            | _ => (cur i).n == (prev i).n)
         o := !(allBelow n fun i => (cur i).s == (prev i).s)
         a := !(res == .none && g.owed.isNone && allBelow n fun i =>
            match kindOf kinds i with
            | .recd => (prev i).f ≤ (cur i).f && (cur i).f ≤ (prev i).f + multF i
            | _ => (cur i).f == 0)
         t := res == .crash },
       { g with owed := some (fun i => (prev i).f + multF i - (cur i).f),
                snapMult := match t with | none => g.ref.mem.mult | some j => fun i => if i = j then 1 else 0 })
  | .rel =>
    match g.owed with
    | none =>
      ({ m := !(allBelow n fun i => cur i == prev i), a := !(res == .none && !parked), t := res == .crash }, g)
    | some w =>
      ({ m := !(allBelow n fun i =>
            match kindOf kinds i with
            | .recd => (cur i).a == (prev i).a && (cur i).e == (prev i).e && (cur i).n == 0
            | .batchRec =>
              (cur i).n == (if g.ref.dead i || g.snapMult i == 0 then (prev i).n else g.ref.deliv i)
            | _ => (cur i).n == (prev i).n)
         o := !(allBelow n fun i => (cur i).s == (prev i).s)
         a := !(res == .ok && !parked && allBelow n fun i =>
            match kindOf kinds i with
            | .recd => (cur i).f == (prev i).f + w i
            | _ => (cur i).f == 0)
         t := res == .crash },
       { g with owed := none })

def pcheckFrom (kinds : List PKind) (g : PRef) (prev : Nat → Cnt) : List POp → List PObs → Spec.Fails
  | op :: ops, o :: obs =>
    let x := pcheckStep kinds g op prev o.snap o.res o.parked
    x.1.or (pcheckFrom kinds x.2 o.snap ops obs)
  | _, _ => Spec.Fails.none

def pcheck (kinds : List PKind) (ops : List POp) (obs : List PObs) : Spec.Fails :=
  (pcheckFrom kinds {} (fun _ => {}) ops obs).or { t := obs.length != ops.length }

end Otel.C15.Park
