/-
C15 — callback RESULTS as a script dimension (line kind `etp`): user span processors whose `Shutdown` and `ForceFlush`
return a non-nil error.

`E : Nat → Bool` says which pool components err (an extra PARAMETER; the component state and the kinds of Model.lean are
untouched).  `stepE E` mirrors the error handling of sdk/trace/provider.go branch by branch:

  UnregisterSpanProcessor   `stopOnce.state.Do(func(){ if err := sp.Shutdown(..); err != nil { otel.Handle(err) } })` —
                            the error goes to the global handler (ghost counter `handled`) and the processor is spliced
                            out of the list REGARDLESS;
  Shutdown                  every registered processor's once-only Shutdown is called whatever the earlier ones returned,
                            the errors are joined (`%w; %w`), the list is cleared regardless; result: the context error
                            if a stock processor reported one, else the user error (class `err:o` = `userErr`) if some
                            erring processor's Shutdown ran, else nil;
  ForceFlush                RETURNS AT THE FIRST processor whose ForceFlush returns an error: processors behind it in the
                            list are NOT flushed — the one place where the successor state legitimately depends on
                            callback results (only flush counters / what batch processors behind it have exported);
  direct `sp.Shutdown`      returns the processor's own result.

Everything else (Register, Tracer, Start, End) has no error path.
Erring components: user processors (Shutdown, ForceFlush) and the recording exporters of the stock simple / batch
processors (ExportSpans, Shutdown); see `errs` / `errsShut` for where such an error surfaces as a call result.
-/
import Otel.C15.Model
import Otel.C15.Spec
namespace Otel.C15.Err
open Otel.C15 Otel.C15.TP

/-- result class of a non-context error (harness: `err:o`) -/
def userErr : Res := .err false false false

/-- the ForceFlush of component i returns an error: an erring USER processor; a batch processor around an erring
exporter that is in service and has spans to export (the worker only closes the marker's channel, the call's own
`exportSpans` exports the batch and RETURNS the exporter's error; with nothing to export it returns nil).  The simple
processor's ForceFlush is `return nil`. -/
def errs (E : Nat → Bool) (s : St) (i : Nat) : Bool :=
  E i && ((s.pool i).kind == .recd ||
    ((s.pool i).kind == .batchRec && !(s.pool i).stopped && (s.pool i).queued != 0))

/-- the Shutdown of component i returns an error: an erring user processor (every call), a simple processor around an
erring exporter (the first call only: `stopOnce`; it returns the exporter's Shutdown error).  A batch processor hands
its exporter's Shutdown error to otel.Handle and returns nil. -/
def errsShut (E : Nat → Bool) (s : St) (i : Nat) : Bool :=
  E i && ((s.pool i).kind == .recd || ((s.pool i).kind == .simpleRec && !(s.pool i).stopped))

structure StE where
  st : St
  handled : Nat := 0     -- ghost: errors passed to otel.Handle

/-- the provider's ForceFlush loop: stop at the first processor that reports an error -/
def flushUntil (E : Nat → Bool) (s : St) : (Nat → PS) → List (Nat × Bool) → (Nat → PS) × Bool
  | pool, [] => (pool, false)
  | pool, p :: r =>
    if errs E s p.1 then (upd pool p.1 procFlush, true)     -- its ForceFlush ran (counted), then `return err`
    else flushUntil E s (upd pool p.1 procFlush) r

/-- Shutdown calls of erring processors that the provider's Shutdown loop makes -/
def erringShut (E : Nat → Bool) (s : St) : Bool := s.procs.any fun p => !p.2 && errsShut E s p.1

def stepE (E : Nat → Bool) (x : StE) : Op → StE × Res
  | .unreg i =>
    let s := x.st
    if s.isShutdown then (x, .none)
    else match removeLast i s.procs with
      | none => (x, .none)
      | some ((_, once), rest) =>
        -- the once-only Shutdown; an error goes to otel.Handle; the splice happens regardless
        ({ st := { s with pool := if once then s.pool else upd s.pool i procShutdown, procs := rest },
           handled := x.handled + (if !once && errsShut E s i then 1 else 0) }, .none)
  | .shutdown c ch =>
    let s := x.st
    if s.isShutdown then (x, .ok)
    else if c.done then
      ({ x with st := { s with isShutdown := true, pool := shutdownAllD ch s.pool s.procs, procs := [] } },
        if s.procs.any (fun p => !p.2 && racy (s.pool p.1) && ch.e p.1) then c.err
        else if erringShut E s then userErr else .ok)
    else ({ x with st := { s with isShutdown := true, pool := shutdownAll s.pool s.procs, procs := [] } },
        if erringShut E s then userErr else .ok)
  | .flush c =>
    let s := x.st
    match s.procs with
    | [] => (x, .ok)
    | _ :: _ =>
      if c.done then (x, c.err)
      else
        let r := flushUntil E s s.pool s.procs
        ({ x with st := { s with pool := r.1 } }, if r.2 then userErr else .ok)
  | .pshut i =>
    ({ x with st := { x.st with pool := upd x.st.pool i procShutdown } }, if errsShut E x.st i then userErr else .ok)
  | op => ({ x with st := (step x.st op).1 }, (step x.st op).2)     -- reg, tracer, start, end_, span: no error path

def runFromE (E : Nat → Bool) (x : StE) : List Op → List Obs
  | [] => []
  | op :: r =>
    let y := stepE E x op
    { res := y.2, snap := fun i => (y.1.st.pool i).cnt } :: runFromE E y.1 r

def runE (E : Nat → Bool) (kinds : List PKind) (ops : List Op) : List Obs := runFromE E { st := init kinds } ops

def finalFromE (E : Nat → Bool) (x : StE) : List Op → StE
  | [] => x
  | op :: r => finalFromE E (stepE E x op).1 r

/-! ## the reference with callback results

Same reference state (`Spec.TP.Ref`: multiset of registered processors, dead, deliv) and the same membership / once /
crash clauses as `Spec.TP.checkStep`; what depends on callback results is the expected RESULT of Shutdown / ForceFlush /
a direct Shutdown, and — for a live ForceFlush while an erring processor is registered — how far the loop got: every
recording processor sees at most its multiplicity of ForceFlush calls, exactly ONE erring ForceFlush ran in total — a
user processor's call or an erring batch processor's export — (the loop stops there), a batch processor has exported either everything delivered to it or nothing more. -/
open Spec in
def anyErrReg (E : Nat → Bool) (kinds : List PKind) (r : Spec.TP.Ref) (prev : Nat → Cnt) : Bool :=
  (List.range kinds.length).any fun i => E i && r.mem.mult i != 0 &&
    (kindOf kinds i == .recd ||
      -- a batch processor in service that has not exported everything delivered to it
      (kindOf kinds i == .batchRec && !r.dead i && r.deliv i != (prev i).n))

/-- some registered component's Shutdown will report an error: an erring user processor, or a simple processor around
an erring exporter that has not been shut down yet -/
def anyErrRegShut (E : Nat → Bool) (kinds : List PKind) (r : Spec.TP.Ref) : Bool :=
  (List.range kinds.length).any fun i => E i && r.mem.mult i != 0 &&
    (kindOf kinds i == .recd || (kindOf kinds i == .simpleRec && !r.dead i))

def resOKE (E : Nat → Bool) (kinds : List PKind) (r : Spec.TP.Ref) (prev : Nat → Cnt) (op : Op) (res : Res) : Bool :=
  match op with
  | .flush c =>
    if r.mem.tot == 0 then res == .ok else if c.done then res == c.err
    else res == (if anyErrReg E kinds r prev then userErr else .ok)
  | .shutdown c _ =>
    if r.mem.shut || r.mem.tot == 0 then res == .ok
    else res == (if anyErrRegShut E kinds r then userErr else .ok) || (c.done && res == c.err)
  | .pshut j =>
    res == (if E j && (kindOf kinds j == .recd || (kindOf kinds j == .simpleRec && !r.dead j)) then userErr else .ok)
  | .tracer _ => res == (if r.mem.shut then .noop else .sdk)
  | _ => res == .none

open Spec in
def checkStepE (E : Nat → Bool) (kinds : List PKind) (r : Spec.TP.Ref) (op : Op) (prev cur : Nat → Cnt) (res : Res) :
    Fails :=
  let base := Spec.TP.checkStep kinds r op prev cur res
  let n := kinds.length
  let cut := match op with | .flush c => !c.done && r.mem.tot != 0 && anyErrReg E kinds r prev | _ => false
  if cut then
    { m := !(allBelow n fun i =>
          match kindOf kinds i with
          | .recd => (cur i).a == (prev i).a && (cur i).e == (prev i).e && (cur i).n == 0
          | .simpleRec => (cur i).n == (prev i).n
          | .batchRec =>
            if r.raced i then (cur i).n == (prev i).n
            else ((cur i).n == (prev i).n || ((cur i).n == r.deliv i && r.mem.mult i != 0))
          | _ => (cur i).n == 0)
      o := base.o
      a := !(resOKE E kinds r prev op res &&
            (allBelow n fun i =>
              match kindOf kinds i with
              | .recd => (prev i).f ≤ (cur i).f && (cur i).f ≤ (prev i).f + r.mem.mult i
              | _ => (cur i).f == 0) &&
            ((List.range n).foldl (fun acc i =>
              acc + (if E i && kindOf kinds i == .recd then (cur i).f - (prev i).f
                     else if E i && kindOf kinds i == .batchRec && (cur i).n != (prev i).n then 1 else 0)) 0) == 1)
      t := res == .crash }
  else
    { base with
      a := !(resOKE E kinds r prev op res && allBelow n fun i =>
            match kindOf kinds i with
            | .recd => (cur i).f == (prev i).f + Spec.TP.flushCalls r op i
            | _ => (cur i).f == 0) }

def checkFromE (E : Nat → Bool) (kinds : List PKind) (r : Spec.TP.Ref) (prev : Nat → Cnt) :
    List Op → List Obs → Spec.Fails
  | op :: ops, o :: obs =>
    (checkStepE E kinds r op prev o.snap o.res).or (checkFromE E kinds (Spec.TP.refStep r op o.res) o.snap ops obs)
  | _, _ => Spec.Fails.none

def checkE (E : Nat → Bool) (kinds : List PKind) (ops : List Op) (obs : List Obs) : Spec.Fails :=
  (checkFromE E kinds {} (fun _ => {}) ops obs).or { t := obs.length != ops.length }

end Otel.C15.Err
