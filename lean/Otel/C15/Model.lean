/-
C15 — provider lifecycle. Executable models of the three SDK providers *as written* (fixed tree:
45152c6 unregister of an unknown processor returns early, 5606da6 simple span processor tolerates a nil
exporter, 061742c log Emit is a no-op once the provider is stopped, f6b676c TracerProvider.Shutdown hands a done
context on to every processor instead of returning before the first one — former finding F26).

Every provider method body is ONE atomic step (`step`): the trace provider's methods run under `p.mu`
(`End` reads the processor list through one atomic load), so every interleaving of any number of
concurrent callers is a sequence of these steps — a theorem over all op sequences is a theorem over all
interleavings at this granularity.  Component state is a function `Nat → …` indexed by the position of the
component in the script's pool.

Nondeterminism that is real in the Go code (a `select` between a done context and a ready channel in the
log batch processor / periodic reader) enters the model as an explicit *choice* argument of the op
(`Choice`), universally quantified in the theorems and filled in from the observation by the driver.
-/
namespace Otel.C15

inductive Ctx | bg | far | cancelled | expired
  deriving DecidableEq, Repr

/-- the context is already done when the call is made -/
def Ctx.done : Ctx → Bool
  | .cancelled | .expired => true
  | _ => false

/-- result of an API call as the harness classifies it -/
inductive Res
  | none                      -- the call has no result
  | ok
  | err (c d s : Bool)        -- errors.Is(err, Canceled / DeadlineExceeded / ErrReaderShutdown)
  | sdk | noop                -- kind of tracer / meter / logger handed out
  | val (v : Nat)             -- Collect succeeded; v = total of all data points
  | crash                     -- panic / hang (never produced by the model of the fixed code)
  deriving DecidableEq, Repr

def Ctx.err : Ctx → Res
  | .cancelled => .err true false false
  | .expired => .err false true false
  | _ => .ok

/-- callback counters of one recording component (cumulative) -/
structure Cnt where
  a : Nat := 0   -- OnStart
  e : Nat := 0   -- OnEnd / OnEmit
  f : Nat := 0   -- ForceFlush
  s : Nat := 0   -- Shutdown
  n : Nat := 0   -- spans / records exported; metric: Export calls
  deriving DecidableEq, Repr

def upd {α : Type} (f : Nat → α) (i : Nat) (g : α → α) : Nat → α :=
  fun j => if j = i then g (f j) else f j

def setAt {α : Type} (f : Nat → α) (i : Nat) (v : α) : Nat → α :=
  fun j => if j = i then v else f j

/-- state of a span slot of the script -/
inductive Slot | empty | live (sdk : Bool) | ended
  deriving DecidableEq, Repr

/-! ## Choices: resolution of the `select` races on a done context (see file header) -/
structure Choice where
  e : Nat → Bool := fun _ => false  -- per component: the raced call of this component reported the context error
  k : Nat → Nat := fun _ => 0       -- per component: records exported by the raced drain / exporter calls reached
  x : Nat → Nat := fun _ => 0       -- per component: records already exported when the raced ForceFlush returned

/-! ## Trace provider (sdk/trace/provider.go, simple_span_processor.go, batch_span_processor.go) -/
namespace TP

/-- processor kinds of the pool: a recording user processor, and the two stock processors around a
recording exporter or around a nil exporter -/
inductive PKind | recd | simpleRec | simpleNil | batchRec | batchNil
  deriving DecidableEq, Repr

structure PS where
  kind : PKind
  cnt : Cnt := {}
  stopped : Bool := false    -- stock processors: their own stopOnce has run
  queued : Nat := 0          -- batch processor: spans accepted and not yet exported
  deriving Repr

/-- `sp.OnStart` -/
def procOnStart (p : PS) : PS :=
  match p.kind with
  | .recd => { p with cnt := { p.cnt with a := p.cnt.a + 1 } }
  | _ => p

/-- `sp.OnEnd`: simple = export now unless the exporter field was zeroed by Shutdown; batch = enqueue unless
stopped or the exporter is nil -/
def procOnEnd (p : PS) : PS :=
  match p.kind with
  | .recd => { p with cnt := { p.cnt with e := p.cnt.e + 1 } }
  | .simpleRec => if p.stopped then p else { p with cnt := { p.cnt with n := p.cnt.n + 1 } }
  | .batchRec => if p.stopped then p else { p with queued := p.queued + 1 }
  | .simpleNil | .batchNil => p

/-- `sp.Shutdown(live ctx)`; the stock processors run their body under their own `stopOnce`.
simple: exporter == nil → return (fix 5606da6), else zero the field and shut the exporter down;
batch: stop, drain (exports what is queued), shut the exporter down if it is not nil. -/
def procShutdown (p : PS) : PS :=
  match p.kind with
  | .recd => { p with cnt := { p.cnt with s := p.cnt.s + 1 } }
  | .simpleRec => if p.stopped then p else { p with stopped := true, cnt := { p.cnt with s := p.cnt.s + 1 } }
  | .simpleNil => { p with stopped := true }
  | .batchRec =>
    if p.stopped then p
    else { p with stopped := true, queued := 0, cnt := { p.cnt with s := p.cnt.s + 1, n := p.cnt.n + p.queued } }
  | .batchNil => { p with stopped := true }

/-- `sp.Shutdown(done ctx)` as the provider's Shutdown calls it since f6b676c.  The stock processors stop
synchronously (simple: the exporter field is zeroed; batch: `stopped.Store(true)`) but do the rest in a goroutine
that races the caller's `select` on `ctx.Done()`: when the call returns, `x` of the queued spans have been
exported by the drain and the exporter's Shutdown has (`k ≥ 1`) or has not yet been called; what is outstanding
arrives asynchronously (Lag.lean, `T.land`).  `queued` of a stopped batch processor = spans its drain still owes. -/
def procShutdownD (k x : Nat) (p : PS) : PS :=
  match p.kind with
  | .recd => { p with cnt := { p.cnt with s := p.cnt.s + 1 } }
  | .simpleRec => if p.stopped then p else { p with stopped := true, cnt := { p.cnt with s := p.cnt.s + min k 1 } }
  | .simpleNil => { p with stopped := true }
  | .batchRec =>
    if p.stopped then p
    else { p with stopped := true, queued := p.queued - min x p.queued,
                  cnt := { p.cnt with s := p.cnt.s + min k 1, n := p.cnt.n + min x p.queued } }
  | .batchNil => { p with stopped := true }

/-- a stock processor whose raced Shutdown may answer with the context error -/
def racy (p : PS) : Bool :=
  !p.stopped && (p.kind == .simpleRec || p.kind == .batchRec || p.kind == .batchNil)

/-- `sp.ForceFlush(live ctx)` -/
def procFlush (p : PS) : PS :=
  match p.kind with
  | .recd => { p with cnt := { p.cnt with f := p.cnt.f + 1 } }
  | .batchRec => if p.stopped then p else { p with queued := 0, cnt := { p.cnt with n := p.cnt.n + p.queued } }
  | _ => p

inductive Op
  | reg (i : Nat) | unreg (i : Nat)
  | shutdown (c : Ctx) (ch : Choice) | flush (c : Ctx)
  | tracer (k : Nat)            -- tracer slot k := provider.Tracer(..)
  | start (k j : Nat)           -- span slot j := tracer slot k .Start
  | end_ (j : Nat)              -- span slot j .End
  | span (k : Nat)              -- Start and End at once on tracer slot k
  | pshut (i : Nat)             -- pool[i].Shutdown(background) called directly

structure St where
  pool : Nat → PS
  procs : List (Nat × Bool)     -- spanProcessorStates: (processor, its sync.Once already done)
  isShutdown : Bool
  tracers : Nat → Option Bool   -- some true = SDK tracer, some false = no-op tracer
  spans : Nat → Slot

def kindOf (kinds : List PKind) (i : Nat) : PKind := kinds.getD i .recd

def init (kinds : List PKind) : St :=
  { pool := fun i => { kind := kindOf kinds i }, procs := [], isShutdown := false,
    tracers := fun _ => none, spans := fun _ => .empty }

/-- the loop of UnregisterSpanProcessor keeps the LAST matching index; the entry is spliced out -/
def removeLast (i : Nat) : List (Nat × Bool) → Option ((Nat × Bool) × List (Nat × Bool))
  | [] => none
  | p :: r =>
    match removeLast i r with
    | some (q, r') => some (q, p :: r')
    | none => if p.1 = i then some (p, r) else none

def startAll (pool : Nat → PS) (procs : List (Nat × Bool)) : Nat → PS :=
  procs.foldl (fun pl p => upd pl p.1 procOnStart) pool

def endAll (pool : Nat → PS) (procs : List (Nat × Bool)) : Nat → PS :=
  procs.foldl (fun pl p => upd pl p.1 procOnEnd) pool

def flushAll (pool : Nat → PS) (procs : List (Nat × Bool)) : Nat → PS :=
  procs.foldl (fun pl p => upd pl p.1 procFlush) pool

/-- `sps.state.Do(func() { sps.sp.Shutdown(ctx) })` for every entry -/
def shutdownAll (pool : Nat → PS) (procs : List (Nat × Bool)) : Nat → PS :=
  procs.foldl (fun pl p => if p.2 then pl else upd pl p.1 procShutdown) pool

/-- the same loop with a done context -/
def shutdownAllD (ch : Choice) (pool : Nat → PS) (procs : List (Nat × Bool)) : Nat → PS :=
  procs.foldl (fun pl p => if p.2 then pl else upd pl p.1 (procShutdownD (ch.k p.1) (ch.x p.1))) pool

def step (s : St) : Op → St × Res
  | .reg i =>
    if s.isShutdown then (s, .none)
    else ({ s with procs := s.procs ++ [(i, false)] }, .none)
  | .unreg i =>
    if s.isShutdown then (s, .none)
    else match removeLast i s.procs with      -- covers len(old)==0 and "sp is not registered" (fix 45152c6)
      | none => (s, .none)
      | some ((_, once), rest) =>
        ({ s with pool := if once then s.pool else upd s.pool i procShutdown, procs := rest }, .none)
  | .shutdown c ch =>
    if s.isShutdown then (s, .ok)
    else if c.done then
      -- every processor's Shutdown(ctx) is called although ctx is done; errors are joined; the list is cleared
      ({ s with isShutdown := true, pool := shutdownAllD ch s.pool s.procs, procs := [] },
        if s.procs.any (fun p => !p.2 && racy (s.pool p.1) && ch.e p.1) then c.err else .ok)
    else ({ s with isShutdown := true, pool := shutdownAll s.pool s.procs, procs := [] }, .ok)
  | .flush c =>
    match s.procs with
    | [] => (s, .ok)
    | _ :: _ => if c.done then (s, c.err) else ({ s with pool := flushAll s.pool s.procs }, .ok)
  | .tracer k =>
    ({ s with tracers := setAt s.tracers k (some (!s.isShutdown)) }, if s.isShutdown then .noop else .sdk)
  | .start k j =>
    match s.tracers k with
    | none => (s, .none)
    | some false => ({ s with spans := setAt s.spans j (.live false) }, .none)
    | some true => ({ s with pool := startAll s.pool s.procs, spans := setAt s.spans j (.live true) }, .none)
  | .end_ j =>
    match s.spans j with
    | .live true => ({ s with pool := endAll s.pool s.procs, spans := setAt s.spans j .ended }, .none)
    | .live false => ({ s with spans := setAt s.spans j .ended }, .none)
    | _ => (s, .none)
  | .span k =>
    match s.tracers k with
    | some true => ({ s with pool := endAll (startAll s.pool s.procs) s.procs }, .none)
    | _ => (s, .none)
  | .pshut i => ({ s with pool := upd s.pool i procShutdown }, .ok)

/-- observation of one step: the result and the counters of every pool component after the step -/
structure Obs where
  res : Res
  snap : Nat → Cnt

def runFrom (s : St) : List Op → List Obs
  | [] => []
  | op :: r =>
    let (s', res) := step s op
    { res := res, snap := fun i => (s'.pool i).cnt } :: runFrom s' r

def run (kinds : List PKind) (ops : List Op) : List Obs := runFrom (init kinds) ops

def finalFrom (s : St) : List Op → St
  | [] => s
  | op :: r => finalFrom (step s op).1 r

end TP

/-! ## Logger provider (sdk/log/provider.go, logger.go, simple.go, batch.go) -/
namespace LP

inductive LKind | recd | simpleRec | simpleNil | batchRec | batchNil
  deriving DecidableEq, Repr

structure PS where
  kind : LKind
  cnt : Cnt := {}
  stopped : Bool := false    -- BatchProcessor.stopped
  queued : Nat := 0
  deriving Repr

def isBatch : LKind → Bool
  | .batchRec | .batchNil => true
  | _ => false

/-- `p.OnEmit` -/
def procEmit (p : PS) : PS :=
  match p.kind with
  | .recd => { p with cnt := { p.cnt with e := p.cnt.e + 1 } }
  | .simpleRec => { p with cnt := { p.cnt with n := p.cnt.n + 1 } }
  | .batchRec => if p.stopped then p else { p with queued := p.queued + 1 }
  | _ => p

/-- `p.ForceFlush(ctx)`.  Live context: the whole queue is handed to the export goroutine and the call waits
until it has been exported.  Done context: the hand-over and the export race the caller's return — `x` records
have been exported when the call returns, the others stay pending (`queued`: still in the queue or in the export
buffer; they surface asynchronously, see Lag.lean, at the latest at the next live ForceFlush / Shutdown);
`k` = whether the raced `bufferExporter.ForceFlush` reached the user exporter. -/
def procFlush (done : Bool) (k x : Nat) (p : PS) : PS :=
  match p.kind with
  | .recd => { p with cnt := { p.cnt with f := p.cnt.f + 1 } }
  | .simpleRec => { p with cnt := { p.cnt with f := p.cnt.f + 1 } }
  | .batchRec =>
    if p.stopped then p
    else if done then
      { p with queued := p.queued - min x p.queued,
               cnt := { p.cnt with n := p.cnt.n + min x p.queued, f := p.cnt.f + min k 1 } }
    else { p with queued := 0, cnt := { p.cnt with n := p.cnt.n + p.queued, f := p.cnt.f + 1 } }
  | _ => p

/-- `p.Shutdown(ctx)`; SimpleProcessor has no guard of its own; BatchProcessor: `stopped.Swap(true)`, then
with a done context the final flush races (`k` records exported when the call returns; the rest stays pending:
lost, or in the export buffer and exported a little later), the exporter is shut down exactly once on every path. -/
def procShutdown (done : Bool) (k : Nat) (p : PS) : PS :=
  match p.kind with
  | .recd => { p with cnt := { p.cnt with s := p.cnt.s + 1 } }
  | .simpleRec => { p with cnt := { p.cnt with s := p.cnt.s + 1 } }
  | .batchRec =>
    if p.stopped then p
    else if done then
      { p with stopped := true, queued := p.queued - min k p.queued,
               cnt := { p.cnt with s := p.cnt.s + 1, n := p.cnt.n + min k p.queued } }
    else { p with stopped := true, queued := 0, cnt := { p.cnt with s := p.cnt.s + 1, n := p.cnt.n + p.queued } }
  | .batchNil => { p with stopped := true }
  | .simpleNil => p

inductive Op
  | logger (k : Nat) | emit (k : Nat)
  | flush (c : Ctx) (ch : Choice) | shutdown (c : Ctx) (ch : Choice)

structure St where
  n : Nat                       -- number of processors
  pool : Nat → PS
  stopped : Bool
  loggers : Nat → Option Bool

def kindOf (kinds : List LKind) (i : Nat) : LKind := kinds.getD i .simpleNil

def init (kinds : List LKind) : St :=
  { n := kinds.length, pool := fun i => { kind := kindOf kinds i }, stopped := false, loggers := fun _ => none }

/-- apply `g i` to every processor `0..n-1` in order -/
def forAll (n : Nat) (pool : Nat → PS) (g : Nat → PS → PS) : Nat → PS :=
  fun i => if i < n then g i (pool i) else pool i

/-- with a done context a live batch processor may answer with the context error.
ForceFlush: a `batchRec` answers nil exactly when the user exporter's ForceFlush was reached (`k ≥ 1`);
for `batchNil` and for Shutdown the outcome is the free bit `e`. -/
def flushErr (ch : Choice) (pool : Nat → PS) (i : Nat) : Bool :=
  match (pool i).kind with
  | .batchRec => !(pool i).stopped && ch.k i == 0
  | .batchNil => !(pool i).stopped && ch.e i
  | _ => false

def shutdownErr (ch : Choice) (pool : Nat → PS) (i : Nat) : Bool :=
  isBatch (pool i).kind && !(pool i).stopped && ch.e i

def step (s : St) : Op → St × Res
  | .logger k =>
    ({ s with loggers := setAt s.loggers k (some (!s.stopped)) }, if s.stopped then .noop else .sdk)
  | .emit k =>
    match s.loggers k with
    | some true =>
      if s.stopped then (s, .none)      -- fix 061742c
      else ({ s with pool := forAll s.n s.pool fun _ => procEmit }, .none)
    | _ => (s, .none)
  | .flush c ch =>
    if s.stopped then (s, .ok)
    else
      let res := if c.done && (List.range s.n).any (flushErr ch s.pool) then c.err else .ok
      ({ s with pool := forAll s.n s.pool fun i => procFlush c.done (ch.k i) (ch.x i) }, res)
  | .shutdown c ch =>
    if s.stopped then (s, .ok)
    else
      let res := if c.done && (List.range s.n).any (shutdownErr ch s.pool) then c.err else .ok
      ({ s with stopped := true, pool := forAll s.n s.pool fun i => procShutdown c.done (ch.k i) }, res)

structure Obs where
  res : Res
  snap : Nat → Cnt

def runFrom (s : St) : List Op → List Obs
  | [] => []
  | op :: r =>
    let (s', res) := step s op
    { res := res, snap := fun i => (s'.pool i).cnt } :: runFrom s' r

def run (kinds : List LKind) (ops : List Op) : List Obs := runFrom (init kinds) ops

end LP

/-! ## Meter provider (sdk/metric/provider.go, config.go unifyShutdown, manual_reader.go, periodic_reader.go) -/
namespace MP

inductive RKind | manual | periodic
  deriving DecidableEq, Repr

structure RS where
  kind : RKind
  cnt : Cnt := {}            -- periodic reader's recording exporter: n = Export calls, f, s
  rshut : Bool := false      -- reader's shutdownOnce has run
  deriving Repr

inductive Op
  | meter (k : Nat) | add (k : Nat)
  | collect (i : Nat)                       -- reader i .Collect
  | flush (c : Ctx) (ch : Choice) | shutdown (c : Ctx)

structure St where
  n : Nat
  pool : Nat → RS
  stopped : Bool
  once : Bool                  -- unifyShutdown's sync.Once
  meters : Nat → Option Bool
  total : Nat                  -- sum of all Add(1) on SDK meters' counters

def kindOf (kinds : List RKind) (i : Nat) : RKind := kinds.getD i .manual

def init (kinds : List RKind) : St :=
  { n := kinds.length, pool := fun i => { kind := kindOf kinds i }, stopped := false, once := false,
    meters := fun _ => none, total := 0 }

/-- `r.Shutdown(ctx)`: manual swaps the producer; periodic stops the loop, collects and exports once more,
shuts the exporter down — all under shutdownOnce -/
def readerShutdown (r : RS) : RS :=
  if r.rshut then r
  else match r.kind with
    | .manual => { r with rshut := true }
    | .periodic => { r with rshut := true, cnt := { r.cnt with n := r.cnt.n + 1, s := r.cnt.s + 1 } }

/-- `PeriodicReader.ForceFlush(ctx)`: live ctx = collect+export then exporter.ForceFlush; done ctx = the send
on flushCh races ctx.Done: outcome code `k` = 0 nothing happened (ctx error), 1 an export happened but the
caller left with the ctx error, 3 export and exporter.ForceFlush, nil; after shutdown nothing happens -/
def readerFlush (done : Bool) (k : Nat) (r : RS) : RS :=
  match r.kind with
  | .manual => r
  | .periodic =>
    if r.rshut then r
    else if done then
      { r with cnt := { r.cnt with n := r.cnt.n + (if k = 0 then 0 else 1), f := r.cnt.f + (if k = 3 then 1 else 0) } }
    else { r with cnt := { r.cnt with n := r.cnt.n + 1, f := r.cnt.f + 1 } }

def forAll (n : Nat) (pool : Nat → RS) (g : Nat → RS → RS) : Nat → RS :=
  fun i => if i < n then g i (pool i) else pool i

/-- reader i answers with the context error -/
def flushCtxErr (done : Bool) (ch : Choice) (pool : Nat → RS) (i : Nat) : Bool :=
  (pool i).kind == .periodic && done &&
    (if (pool i).rshut then ch.k i == 1 else ch.k i != 3)

/-- reader i answers ErrReaderShutdown (`<-r.done`; with a done context this races ctx.Done: `k = 1`) -/
def flushShutErr (done : Bool) (ch : Choice) (pool : Nat → RS) (i : Nat) : Bool :=
  (pool i).kind == .periodic && (pool i).rshut && !(done && ch.k i == 1)

def step (s : St) : Op → St × Res
  | .meter k =>
    ({ s with meters := setAt s.meters k (some (!s.stopped)) }, if s.stopped then .noop else .sdk)
  | .add k =>
    match s.meters k with
    | some true => ({ s with total := s.total + 1 }, .none)
    | _ => (s, .none)
  | .collect i =>
    if i < s.n then
      if (s.pool i).rshut then (s, .err false false true) else (s, .val s.total)
    else (s, .none)
  | .flush c ch =>
    -- not guarded by `stopped`: every reader answers for itself, the errors are joined
    let ce := (List.range s.n).any (flushCtxErr c.done ch s.pool)
    let se := (List.range s.n).any (flushShutErr c.done ch s.pool)
    let res := if ce || se then .err (ce && c == .cancelled) (ce && c == .expired) se else .ok
    ({ s with pool := forAll s.n s.pool fun i => readerFlush c.done (ch.k i) }, res)
  | .shutdown _ =>
    let s := { s with stopped := true }
    if s.once then (s, .err false false true)
    else ({ s with once := true, pool := forAll s.n s.pool fun _ => readerShutdown }, .ok)

structure Obs where
  res : Res
  snap : Nat → Cnt

def runFrom (s : St) : List Op → List Obs
  | [] => []
  | op :: r =>
    let (s', res) := step s op
    { res := res, snap := fun i => (s'.pool i).cnt } :: runFrom s' r

def run (kinds : List RKind) (ops : List Op) : List Obs := runFrom (init kinds) ops

end MP
end Otel.C15
