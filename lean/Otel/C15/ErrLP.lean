/-
C15 — callback RESULTS as a script dimension for the LOGGER provider (line kind `elp`).

`E : Nat → Bool` says which processors err: a recording user processor (`OnEmit`, `ForceFlush`, `Shutdown` return an
error), a simple / batch processor around a recording exporter whose `Export`, `ForceFlush`, `Shutdown` return an error.
`stepE E` mirrors what sdk/log does with such an error:

  logger.Emit                 `if err := p.OnEmit(..); err != nil { otel.Handle(err) }` and ON to the next processor
                              (ghost counter `handled`); simple processor: OnEmit returns the exporter's Export error;
                              batch processor: OnEmit only enqueues, nil;
  LoggerProvider.ForceFlush   `err = errors.Join(err, p.ForceFlush(ctx))` for EVERY processor — no early return
                              (contrast: TracerProvider.ForceFlush, Err.lean);
  LoggerProvider.Shutdown     the same with `p.Shutdown(ctx)`, after `stopped.Swap(true)`.

So the successor state is the one of the error-free model `LP.step`, whatever the callbacks return; only the result
class changes: the context error if some batch processor reported one (its flags win in the harness's classification of
the joined error), else the user error `err:o` if some processor's call returned one, else nil.
Which call returns the user error: recording / simple processor — every ForceFlush / Shutdown (SimpleProcessor has no
guard); batch processor — while not stopped: ForceFlush ends with the exporter's ForceFlush (with a done context only if
that call was reached: `ch.k ≥ 1`), the first Shutdown joins the errors of the final Export and the exporter's Shutdown
(the exporter's Shutdown is called on every path).
-/
import Otel.C15.Model
import Otel.C15.Spec
import Otel.C15.Err
namespace Otel.C15.LErr
open Otel.C15 Otel.C15.LP

def userErr : Res := Err.userErr

def errFlush (E : Nat → Bool) (done : Bool) (ch : Choice) (pool : Nat → PS) (i : Nat) : Bool :=
  E i && match (pool i).kind with
    | .recd | .simpleRec => true
    | .batchRec => !(pool i).stopped && (!done || ch.k i != 0)
    | _ => false

def errShut (E : Nat → Bool) (pool : Nat → PS) (i : Nat) : Bool :=
  E i && match (pool i).kind with
    | .recd | .simpleRec => true
    | .batchRec => !(pool i).stopped
    | _ => false

/-- OnEmit returns an error (handed to otel.Handle) -/
def errEmit (E : Nat → Bool) (pool : Nat → PS) (i : Nat) : Bool :=
  E i && ((pool i).kind == .recd || (pool i).kind == .simpleRec)

structure StE where
  st : St
  handled : Nat := 0

def stepE (E : Nat → Bool) (x : StE) : Op → StE × Res
  | .logger k =>
    ({ x with st := { x.st with loggers := setAt x.st.loggers k (some (!x.st.stopped)) } },
      if x.st.stopped then .noop else .sdk)
  | .emit k =>
    let s := x.st
    match s.loggers k with
    | some true =>
      if s.stopped then (x, .none)
      else ({ st := { s with pool := forAll s.n s.pool fun _ => procEmit },
              handled := x.handled + ((List.range s.n).filter (errEmit E s.pool)).length }, .none)
    | _ => (x, .none)
  | .flush c ch =>
    let s := x.st
    if s.stopped then (x, .ok)
    else
      let res := if c.done && (List.range s.n).any (flushErr ch s.pool) then c.err
                 else if (List.range s.n).any (errFlush E c.done ch s.pool) then userErr else .ok
      ({ x with st := { s with pool := forAll s.n s.pool fun i => procFlush c.done (ch.k i) (ch.x i) } }, res)
  | .shutdown c ch =>
    let s := x.st
    if s.stopped then (x, .ok)
    else
      let res := if c.done && (List.range s.n).any (shutdownErr ch s.pool) then c.err
                 else if (List.range s.n).any (errShut E s.pool) then userErr else .ok
      ({ x with st := { s with stopped := true, pool := forAll s.n s.pool fun i => procShutdown c.done (ch.k i) } }, res)

def runFromE (E : Nat → Bool) (x : StE) : List Op → List Obs
  | [] => []
  | op :: r =>
    let y := stepE E x op
    { res := y.2, snap := fun i => (y.1.st.pool i).cnt } :: runFromE E y.1 r

def runE (E : Nat → Bool) (kinds : List LKind) (ops : List Op) : List Obs := runFromE E { st := init kinds } ops

def finalFromE (E : Nat → Bool) (x : StE) : List Op → StE
  | [] => x
  | op :: r => finalFromE E (stepE E x op).1 r

def finalFrom (s : St) : List Op → St
  | [] => s
  | op :: r => finalFrom (step s op).1 r

/-! ## the reference with callback results: `Spec.LP.checkStep` with the expected result extended -/

/-- some processor's ForceFlush / Shutdown returns a user error (the provider is not shut down: no batch processor is
stopped) -/
def anyErr (E : Nat → Bool) (kinds : List LKind) : Bool :=
  (List.range kinds.length).any fun i =>
    E i && (kindOf kinds i == .recd || kindOf kinds i == .simpleRec || kindOf kinds i == .batchRec)

def resOKE (E : Nat → Bool) (kinds : List LKind) (r : Spec.LP.Ref) (op : Op) (res : Res) : Bool :=
  match op with
  | .flush c _ | .shutdown c _ =>
    if r.shut then res == .ok
    else res == (if anyErr E kinds then userErr else .ok) || (c.done && Spec.LP.hasBatch kinds && res == c.err)
  | _ => Spec.LP.resOK kinds r op res

open Spec in
def checkStepE (E : Nat → Bool) (kinds : List LKind) (r : Spec.LP.Ref) (op : Op) (prev cur : Nat → Cnt) (res : Res) :
    Fails :=
  let base := Spec.LP.checkStep kinds r op prev cur res
  let n := kinds.length
  let isFlush := match op with | .flush _ _ => !r.shut | _ => false
  let isDone := match op with | .flush c _ | .shutdown c _ => c.done | _ => false
  { base with
    a := !(resOKE E kinds r op res && allBelow n fun i =>
        match kindOf kinds i with
        | .recd | .simpleRec => (cur i).f == (prev i).f + (if isFlush then 1 else 0)
        | .batchRec =>
          if isFlush && isDone then (prev i).f ≤ (cur i).f && (cur i).f ≤ (prev i).f + 1
          else (cur i).f == (prev i).f + (if isFlush then 1 else 0)
        | _ => (cur i).f == 0) }

def checkFromE (E : Nat → Bool) (kinds : List LKind) (r : Spec.LP.Ref) (prev : Nat → Cnt) :
    List Op → List Obs → Spec.Fails
  | op :: ops, o :: obs =>
    (checkStepE E kinds r op prev o.snap o.res).or (checkFromE E kinds (Spec.LP.refStep r op o.res) o.snap ops obs)
  | _, _ => Spec.Fails.none

def checkE (E : Nat → Bool) (kinds : List LKind) (ops : List Op) (obs : List Obs) : Spec.Fails :=
  (checkFromE E kinds {} (fun _ => {}) ops obs).or { t := obs.length != ops.length }

end Otel.C15.LErr
