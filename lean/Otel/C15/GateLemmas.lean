import Otel.C15.Model
import Otel.C15.Spec
import Otel.C15.Lemmas
import Otel.C15.Gate
namespace Otel.C15.GateLemmas
open Otel.C15 Otel.C15.TP Otel.C15.Lemmas Otel.C15.Gate

theorem splitGate_some (k : Nat) (l pre post : List (Nat × Bool)) (h : splitGate k l = some (pre, post)) :
    l = pre ++ post := by
  induction l generalizing pre post with
  | nil => simp [splitGate] at h
  | cons p r ih =>
    simp only [splitGate] at h
    split at h
    · simp only [Option.some.injEq, Prod.mk.injEq] at h
      obtain ⟨rfl, rfl⟩ := h; rfl
    · split at h
      · rename_i a b hs
        simp only [Option.some.injEq, Prod.mk.injEq] at h
        obtain ⟨rfl, rfl⟩ := h
        simp [ih a b hs]
      · simp at h

/-- all processors of the pool are recording processors -/
def AllRec (kinds : List PKind) : Prop := ∀ i, kindOf kinds i = .recd

/-- OnEnd deliveries to a list of entries: a recording processor's `e` grows by its number of entries, nothing
else changes -/
theorem endAll_recd (pool : Nat → PS) (l : List (Nat × Bool)) (i : Nat) (hk : (pool i).kind = .recd) :
    (endAll pool l i) = { pool i with cnt := { (pool i).cnt with e := (pool i).cnt.e + (ids l).count i } } := by
  unfold endAll
  rw [foldl_upd, iter_onEnd]
  simp [hk]

structure GInv (kinds : List PKind) (g : GSt) (gr : GRef) : Prop where
  inv : Inv kinds g.st gr.ref
  fly : match g.fly, gr.owed with
    | none, none => True
    | some post, some w => ∀ i, (ids post).count i = w i
    | _, _ => False

theorem comp_allrec {kinds} (hk : AllRec kinds) (p : PS) (d d' : Bool) (v v' : Nat)
    (i : Nat) (h : CompInv (kindOf kinds i) p d v) : CompInv (kindOf kinds i) p d' v' := by
  rw [hk i] at h ⊢; exact h


/-- in a pool of recording processors the component invariant is: kind and `n = 0` -/
theorem comp_recd {kinds} {st : St} {r : Spec.TP.Ref} (hk : AllRec kinds) (h : Inv kinds st r) (i : Nat) :
    (st.pool i).kind = .recd ∧ (st.pool i).cnt.n = 0 := by
  have hc := h.comp i
  rw [hk i] at hc
  simp only [CompInvR, CompInv] at hc
  exact hc

theorem or_none (x : Spec.Fails) : x.or { a := false } = x := by
  cases x; simp [Spec.Fails.or]

/-- an ordinary op inside a gated script -/
theorem plain_case {kinds g gr} (o : TP.Op) (h : GInv kinds g gr) :
    GInv kinds { g with st := (step g.st o).1 } { gr with ref := Spec.TP.refStep gr.ref o (step g.st o).2 } ∧
    (Spec.TP.checkStep kinds gr.ref o (snapOf g.st) (snapOf (step g.st o).1) (step g.st o).2).or { a := false } =
      Spec.Fails.none := by
  obtain ⟨h1, h2⟩ := step_inv o h.inv
  exact ⟨⟨h1, h.fly⟩, by rw [or_none]; exact h2⟩


/-- the parked End (or a whole End) delivers to the first part `l1` of its snapshot `l1 ++ l2 = procs` -/
theorem deliver_part {kinds} {st : St} {r : Spec.TP.Ref} (hk : AllRec kinds) (h : Inv kinds st r) (j : Nat)
    (hl : st.spans j = .live true) (l1 l2 : List (Nat × Bool)) (hp : st.procs = l1 ++ l2) :
    Inv kinds { st with pool := endAll st.pool l1, spans := setAt st.spans j .ended }
      (Spec.TP.refStep r (.end_ j) .none) ∧
    (∀ i, (endAll st.pool l1 i).cnt = { (st.pool i).cnt with e := (st.pool i).cnt.e + (ids l1).count i }) ∧
    (∀ i, (ids l1).count i + (ids l2).count i = r.mem.mult i) ∧ (∀ i, (st.pool i).cnt.n = 0) := by
  have hkind : ∀ i, (st.pool i).kind = .recd := fun i => (comp_recd hk h i).1
  have hn : ∀ i, (st.pool i).cnt.n = 0 := fun i => (comp_recd hk h i).2
  have hcnt : ∀ i, (endAll st.pool l1 i).cnt =
      { (st.pool i).cnt with e := (st.pool i).cnt.e + (ids l1).count i } := fun i => by
    rw [endAll_recd _ _ _ (hkind i)]
  refine ⟨⟨h.shut, h.mult, h.tot, h.fresh, ?_, ?_, ?_, h.shutnil, ?_⟩, hcnt, ?_, hn⟩
  · simp [Spec.TP.refStep, h.tr]
  · simp [Spec.TP.refStep, ← h.sp, hl]
  · intro i
    rw [hk i]
    refine ⟨?_, ?_⟩
    · show (endAll st.pool l1 i).kind = .recd
      rw [endAll_recd _ _ _ (hkind i)]; exact hkind i
    · show (endAll st.pool l1 i).cnt.n = 0
      rw [hcnt i]; exact hn i
  · intro i hr
    have : r.raced i = true := by simpa [Spec.TP.refStep, Spec.TP.racedNow] using hr
    simpa [Spec.TP.refStep, Spec.TP.memStep] using h.racedshut i this
  · intro i
    have := h.mult i
    rw [hp] at this
    simpa [ids, List.count_append] using this

theorem gstep_inv {kinds g gr} (hk : AllRec kinds) (op : GOp) (h : GInv kinds g gr) :
    GInv kinds (gstep g op).1
      (gcheckStep kinds gr op (snapOf g.st) (snapOf (gstep g op).1.st) (gstep g op).2.1 (gstep g op).2.2).2 ∧
    (gcheckStep kinds gr op (snapOf g.st) (snapOf (gstep g op).1.st) (gstep g op).2.1 (gstep g op).2.2).1 =
      Spec.Fails.none := by
  cases op with
  | op o =>
    simp only [gstep, gcheckStep]
    exact plain_case o h
  | endg j k =>
    have hfly := h.fly
    cases hf1 : g.fly with
    | some post =>
      cases ho : gr.owed with
      | none => simp [hf1, ho] at hfly
      | some w =>
        simp only [gstep, gcheckStep, hf1, ho, Option.isSome_some, Bool.true_or, ↓reduceIte]
        have := plain_case (.end_ j) h
        simp only [hf1, ho] at this
        exact this
    | none =>
      cases ho : gr.owed with
      | some w => simp [hf1, ho] at hfly
      | none =>
        have hsp : gr.ref.spans j = g.st.spans j := by rw [h.inv.sp]
        by_cases hl : g.st.spans j = .live true
        · have hne : (gr.ref.spans j != Slot.live true) = false := by rw [hsp, hl]; decide
          cases hsg : (if (g.st.pool k).kind = .recd then splitGate k g.st.procs else none) with
          | none =>
            have hg : gstep g (.endg j k) =
                ({ g with st := { g.st with pool := endAll g.st.pool g.st.procs,
                                            spans := setAt g.st.spans j .ended } }, .none, false) := by
              simp only [gstep, hf1, hl, hsg, step]
            rw [hg]
            obtain ⟨i1, i2, i3, i4⟩ := deliver_part hk h.inv j hl g.st.procs [] (by simp)
            simp only [gcheckStep, ho, hne, Option.isSome_none, Bool.false_or, Bool.false_eq_true, ↓reduceIte]
            refine ⟨⟨i1, by simp [hf1]⟩, ?_⟩
            simp only [Spec.Fails.none, Spec.Fails.mk.injEq, Bool.not_eq_false', Spec.allBelow, List.all_eq_true,
              Bool.and_eq_true]
            refine ⟨?_, ?_, ⟨by decide, ?_⟩, by decide⟩
            · intro i _; have := i3 i; simp [hk i, snapOf, i2 i, i4 i, ids] at this ⊢; omega
            · intro i _; simp [hk i, snapOf, i2 i]
            · intro i _; simp [hk i, snapOf, i2 i]
          | some pp =>
            obtain ⟨pre, post⟩ := pp
            have hsplit : splitGate k g.st.procs = some (pre, post) := by
              split at hsg
              · exact hsg
              · simp at hsg
            have hp := splitGate_some k _ _ _ hsplit
            have hg : gstep g (.endg j k) =
                ({ st := { g.st with pool := endAll g.st.pool pre, spans := setAt g.st.spans j .ended },
                   fly := some post }, .none, true) := by
              simp only [gstep, hf1, hl, hsg]
            rw [hg]
            obtain ⟨i1, i2, i3, i4⟩ := deliver_part hk h.inv j hl pre post hp
            simp only [gcheckStep, ho, hne, Option.isSome_none, Bool.false_or, Bool.false_eq_true, ↓reduceIte]
            refine ⟨⟨i1, ?_⟩, ?_⟩
            · show ∀ i, (ids post).count i = _
              intro i; have := i3 i; simp [snapOf, i2 i]; omega
            simp only [Spec.Fails.none, Spec.Fails.mk.injEq, Bool.not_eq_false', Spec.allBelow, List.all_eq_true,
              Bool.and_eq_true]
            refine ⟨?_, ?_, ⟨by decide, ?_⟩, by decide⟩
            · intro i _; have := i3 i; simp [hk i, snapOf, i2 i, i4 i]; omega
            · intro i _; simp [hk i, snapOf, i2 i]
            · intro i _; simp [hk i, snapOf, i2 i]
        · have hne : (gr.ref.spans j != Slot.live true) = true := by rw [hsp]; simpa using hl
          have hg : gstep g (.endg j k) =
              ({ g with st := (step g.st (.end_ j)).1 }, (step g.st (.end_ j)).2, false) := by
            simp only [gstep, hf1]
          rw [hg]
          simp only [gcheckStep, ho, Option.isSome_none, Bool.false_or, hne, ↓reduceIte]
          have := plain_case (.end_ j) h
          simp only [ho] at this
          exact this
  | rel =>
    have hfly := h.fly
    cases hf1 : g.fly with
    | none =>
      cases ho : gr.owed with
      | some w => simp [hf1, ho] at hfly
      | none =>
        have hg : gstep g .rel = (g, .none, false) := by simp only [gstep, hf1]
        rw [hg]
        simp only [gcheckStep, ho, Option.getD_none]
        refine ⟨⟨h.inv, by simp [hf1]⟩, ?_⟩
        have hn : ∀ i, (g.st.pool i).cnt.n = 0 := fun i => by
          exact (comp_recd hk h.inv i).2
        simp only [Spec.Fails.none, Spec.Fails.mk.injEq, Bool.not_eq_false', Spec.allBelow, List.all_eq_true,
          Bool.and_eq_true]
        refine ⟨?_, ?_, ⟨⟨by decide, by decide⟩, ?_⟩, by decide⟩
        · intro i _; simp [hk i, snapOf, hn i]
        · intro i _; simp [hk i, snapOf]
        · intro i _; simp [hk i, snapOf]
    | some post =>
      cases ho : gr.owed with
      | none => simp [hf1, ho] at hfly
      | some w =>
        simp only [hf1, ho] at hfly
        have hg : gstep g .rel = ({ st := { g.st with pool := endAll g.st.pool post }, fly := none }, .none, false) := by
          simp only [gstep, hf1]
        rw [hg]
        have hkind : ∀ i, (g.st.pool i).kind = .recd := fun i => (comp_recd hk h.inv i).1
        have hn : ∀ i, (g.st.pool i).cnt.n = 0 := fun i => by
          exact (comp_recd hk h.inv i).2
        have hcnt : ∀ i, (endAll g.st.pool post i).cnt =
            { (g.st.pool i).cnt with e := (g.st.pool i).cnt.e + (ids post).count i } := fun i => by
          rw [endAll_recd _ _ _ (hkind i)]
        simp only [gcheckStep, ho, Option.getD_some]
        refine ⟨⟨⟨h.inv.shut, h.inv.mult, h.inv.tot, h.inv.fresh, h.inv.tr, h.inv.sp, ?_, h.inv.shutnil, h.inv.racedshut⟩, by simp⟩, ?_⟩
        · intro i
          rw [hk i]
          refine ⟨?_, ?_⟩
          · show (endAll g.st.pool post i).kind = .recd
            rw [endAll_recd _ _ _ (hkind i)]; exact hkind i
          · show (endAll g.st.pool post i).cnt.n = 0
            rw [hcnt i]; exact hn i
        simp only [Spec.Fails.none, Spec.Fails.mk.injEq, Bool.not_eq_false', Spec.allBelow, List.all_eq_true,
          Bool.and_eq_true]
        refine ⟨?_, ?_, ⟨⟨by decide, by decide⟩, ?_⟩, by decide⟩
        · intro i _; simp [hk i, snapOf, hcnt i, hn i, hfly i]
        · intro i _; simp [hk i, snapOf, hcnt i]
        · intro i _; simp [hk i, snapOf, hcnt i]


theorem gcheckFrom_none {kinds} (hk : AllRec kinds) (ops : List GOp) : ∀ (g : GSt) (gr : GRef), GInv kinds g gr →
    gcheckFrom kinds gr (snapOf g.st) ops (grunFrom g ops) = Spec.Fails.none := by
  induction ops with
  | nil => intro g gr _; rfl
  | cons op rest ih =>
    intro g gr h
    obtain ⟨h1, h2⟩ := gstep_inv hk op h
    show (gcheckStep kinds gr op (snapOf g.st) (snapOf (gstep g op).1.st) (gstep g op).2.1 (gstep g op).2.2).1.or
      (gcheckFrom kinds (gcheckStep kinds gr op (snapOf g.st) (snapOf (gstep g op).1.st) (gstep g op).2.1
        (gstep g op).2.2).2 (snapOf (gstep g op).1.st) rest (grunFrom (gstep g op).1 rest)) = Spec.Fails.none
    rw [h2, ih _ _ h1]
    exact Fails.none_or_none

theorem grunFrom_length (g : GSt) (ops : List GOp) : (grunFrom g ops).length = ops.length := by
  induction ops generalizing g with
  | nil => rfl
  | cons op rest ih => simp [grunFrom, ih]

theorem allRec_of_forall (kinds : List PKind) (h : ∀ k ∈ kinds, k = .recd) : AllRec kinds := by
  intro i
  simp only [kindOf, List.getD]
  cases hi : kinds[i]? with
  | none => rfl
  | some x => exact h x (List.mem_of_getElem? hi)

theorem ginv_init (kinds : List PKind) : GInv kinds { st := init kinds } {} := ⟨inv_init kinds, trivial⟩

end Otel.C15.GateLemmas
