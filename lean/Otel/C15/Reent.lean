/-
C15 — re-entrant user callbacks (line kinds `rtp`, `rlp`, `rmp`): a user processor / exporter that calls back into the
SAME provider from inside one of its callbacks (ends a span / emits a record / records a measurement with a tracer /
logger / instrument obtained before, or calls the provider's ForceFlush).

A re-entrant call is an ordinary call issued from inside a callback: it sees the provider state of that moment —
during `TracerProvider.Shutdown` and `UnregisterSpanProcessor` the processor list still contains every processor (it is
replaced only after the loop / after the removed processor's Shutdown returned).  It returns only if no lock it needs
is held by the code that invoked the callback.  Locks held while a USER callback runs, read off the source (current tree):

  TracerProvider         `p.mu` is held while `sp.Shutdown` runs in `UnregisterSpanProcessor` and in `Shutdown`
                         (not during OnStart / OnEnd / ForceFlush).  In `Shutdown` the flag is already set, so re-entrant
                         Register / Unregister / Shutdown / Tracer return at their first check; from inside the Shutdown
                         callback of a processor that is being UNREGISTERED they would block on `p.mu` — not generated
                         (remark R1; Start / End / ForceFlush need no provider lock and are generated).
  simpleSpanProcessor    `exporterMu` is held while `exporter.ExportSpans` runs (OnEnd) — a span ended from inside
                         ExportSpans re-enters OnEnd and blocks forever on the unchanged tree: not generated (remark R2);
                         it is NOT held while `exporter.Shutdown` runs: the field is zeroed and the mutex released first
                         (seeded change C15-8 breaks exactly this).
  batchSpanProcessor     `batchMutex` is held while `exporter.ExportSpans` runs, on the single worker (or the ForceFlush
                         helper) goroutine — a ForceFlush from inside ExportSpans waits for that very goroutine / mutex:
                         blocks forever on the unchanged tree, not generated (remark R3); OnEnd only enqueues; nothing is
                         held while `exporter.Shutdown` runs.
  log SimpleProcessor    `s.mu` is held while `exporter.Export` runs — an Emit from inside Export blocks forever (R4, not
                         generated); not held during Shutdown / ForceFlush.
  log BatchProcessor     Export runs on the exportSync goroutine — a ForceFlush from inside Export waits for that
                         goroutine (R5, not generated); `bufferExporter.inputMu` is held while `exporter.Shutdown` runs
                         (Emit / ForceFlush return before needing it: the stopped flags are already set).
  PeriodicReader         Export runs on the run-loop goroutine or inside Shutdown; a ForceFlush from inside Export waits
                         for the run loop until the reader's 30 s timeout (R6, not generated).

This file holds the EXECUTABLE nested model of the trace provider with hooks (no theorems: it is compared with the
implementation observation by observation; the proved models are the hook-free ones) and the history oracle used for
all three providers: every call returns (a hang or panic of the child process fails clause `t`), the Shutdown counts
are exactly those of the hook-free reference (hooks never register, unregister or shut down anything).
-/
import Otel.C15.Model
import Otel.C15.Spec
namespace Otel.C15.Reent
open Otel.C15 Otel.C15.TP

inductive Act | sp | ff
  deriving DecidableEq, Repr

/-- hooks of one component: action run from inside OnStart / OnEnd / ForceFlush / Shutdown / Export -/
structure Hook where
  a : Option Act := none
  e : Option Act := none
  f : Option Act := none
  s : Option Act := none
  x : Option Act := none

/-! The pool is a finite ARRAY here (one entry per component of the script): the model is only executed, and a pool
of nested closures would be re-evaluated at every look-up. -/

instance : Inhabited PS := ⟨{ kind := .recd }⟩

def toFn (a : Array PS) : Nat → PS := fun j => a.getD j default
def ofFn (n : Nat) (f : Nat → PS) : Array PS := ((List.range n).map f).toArray

/-- the re-entrant call itself: issued at depth 1, so the callbacks it reaches run no hooks (the hook-free folds of
the sequential model) -/
def runAct (procs : List (Nat × Bool)) (a : Array PS) : Option Act → Array PS
  | none => a
  | some .sp => ofFn a.size (endAll (startAll (toFn a) procs) procs)   -- Start + End on a tracer obtained before
  | some .ff => match procs with | [] => a | _ :: _ => ofFn a.size (flushAll (toFn a) procs)

def onStartH (hk : Nat → Hook) (procs : List (Nat × Bool)) (a : Array PS) (i : Nat) : Array PS :=
  let p := a.getD i default
  let a1 := a.modify i procOnStart
  if i < a.size && p.kind == .recd then runAct procs a1 (hk i).a else a1

def onEndH (hk : Nat → Hook) (procs : List (Nat × Bool)) (a : Array PS) (i : Nat) : Array PS :=
  let p := a.getD i default
  let a1 := a.modify i procOnEnd
  if i < a.size then
    match p.kind with
    | .recd => runAct procs a1 (hk i).e
    | .simpleRec => if p.stopped then a1 else runAct procs a1 (hk i).x   -- ExportSpans was called
    | _ => a1
  else a1

def flushH (hk : Nat → Hook) (procs : List (Nat × Bool)) (a : Array PS) (i : Nat) : Array PS :=
  let p := a.getD i default
  let a1 := a.modify i procFlush
  if i < a.size then
    match p.kind with
    | .recd => runAct procs a1 (hk i).f
    | .batchRec =>
      -- ExportSpans is called only for a non-empty batch
      if !p.stopped && p.queued != 0 then runAct procs a1 (hk i).x else a1
    | _ => a1
  else a1

def shutdownH (hk : Nat → Hook) (procs : List (Nat × Bool)) (a : Array PS) (i : Nat) : Array PS :=
  let p := a.getD i default
  let a1 := a.modify i procShutdown
  if i < a.size then
    match p.kind with
    | .recd => runAct procs a1 (hk i).s
    | .simpleRec => if p.stopped then a1 else runAct procs a1 (hk i).s
    | .batchRec =>
      if p.stopped then a1
      else
        let a2 := if p.queued != 0 then runAct procs a1 (hk i).x else a1   -- the drain's export
        runAct procs a2 (hk i).s
    | _ => a1
  else a1

structure RSt where
  pool : Array PS
  procs : List (Nat × Bool)
  isShutdown : Bool := false
  tracers : Nat → Option Bool := fun _ => none
  spans : Nat → Slot := fun _ => .empty

def rstep (hk : Nat → Hook) (s : RSt) : Op → RSt × Res
  | .reg i =>
    if s.isShutdown then (s, .none) else ({ s with procs := s.procs ++ [(i, false)] }, .none)
  | .unreg i =>
    if s.isShutdown then (s, .none)
    else match removeLast i s.procs with
      | none => (s, .none)
      | some ((_, once), rest) =>
        -- the processor's Shutdown runs while the OLD list is still published
        ({ s with pool := if once then s.pool else shutdownH hk s.procs s.pool i, procs := rest }, .none)
  | .shutdown _ _ =>
    if s.isShutdown then (s, .ok)
    else
      ({ s with isShutdown := true, procs := [],
                pool := s.procs.foldl (fun pl p => if p.2 then pl else shutdownH hk s.procs pl p.1) s.pool }, .ok)
  | .flush _ =>
    match s.procs with
    | [] => (s, .ok)
    | _ :: _ => ({ s with pool := s.procs.foldl (fun pl p => flushH hk s.procs pl p.1) s.pool }, .ok)
  | .tracer k =>
    ({ s with tracers := setAt s.tracers k (some (!s.isShutdown)) }, if s.isShutdown then .noop else .sdk)
  | .start k j =>
    match s.tracers k with
    | none => (s, .none)
    | some false => ({ s with spans := setAt s.spans j (.live false) }, .none)
    | some true =>
      ({ s with pool := s.procs.foldl (fun pl p => onStartH hk s.procs pl p.1) s.pool,
                spans := setAt s.spans j (.live true) }, .none)
  | .end_ j =>
    match s.spans j with
    | .live true =>
      ({ s with pool := s.procs.foldl (fun pl p => onEndH hk s.procs pl p.1) s.pool,
                spans := setAt s.spans j .ended }, .none)
    | .live false => ({ s with spans := setAt s.spans j .ended }, .none)
    | _ => (s, .none)
  | .span k =>
    match s.tracers k with
    | some true =>
      let pool1 := s.procs.foldl (fun pl p => onStartH hk s.procs pl p.1) s.pool
      ({ s with pool := s.procs.foldl (fun pl p => onEndH hk s.procs pl p.1) pool1 }, .none)
    | _ => (s, .none)
  | .pshut i => ({ s with pool := shutdownH hk s.procs s.pool i }, .ok)

def rrunFrom (hk : Nat → Hook) (s : RSt) : List Op → List TP.Obs
  | [] => []
  | op :: r =>
    let x := rstep hk s op
    let pool := x.1.pool
    { res := x.2, snap := fun i => (pool.getD i default).cnt } :: rrunFrom hk x.1 r

def rrun (kinds : List PKind) (hk : Nat → Hook) (ops : List Op) : List TP.Obs :=
  rrunFrom hk { pool := ofFn kinds.length (init kinds).pool, procs := [] } ops

/-- history oracle of a re-entrant trace script: the hook-free reference's Shutdown counts (clause `o`), results and
"no crash / hang" (clause `t`); deliveries are judged by the comparison with `rrun` -/
def rcheckFrom (kinds : List PKind) (r : Spec.TP.Ref) (prev : Nat → Cnt) : List Op → List TP.Obs → Spec.Fails
  | op :: ops, o :: obs =>
    let c := Spec.TP.checkStep kinds r op prev o.snap o.res
    ({ o := c.o, a := !Spec.TP.resOK r op o.res, t := c.t } : Spec.Fails).or
      (rcheckFrom kinds (Spec.TP.refStep r op o.res) o.snap ops obs)
  | _, _ => Spec.Fails.none

def rcheck (kinds : List PKind) (ops : List Op) (obs : List TP.Obs) : Spec.Fails :=
  (rcheckFrom kinds {} (fun _ => {}) ops obs).or { t := obs.length != ops.length }

end Otel.C15.Reent
