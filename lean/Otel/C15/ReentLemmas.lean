import Otel.C15.Model
import Otel.C15.Spec
import Otel.C15.Lemmas
import Otel.C15.Reent
namespace Otel.C15.ReentLemmas
open Otel.C15 Otel.C15.TP Otel.C15.Reent Otel.C15.Lemmas

def getP (a : Array PS) (j : Nat) : PS := a.getD j default

theorem getP_modify (a : Array PS) (i j : Nat) (g : PS → PS) :
    getP (a.modify i g) j = if j = i ∧ i < a.size then g (getP a j) else getP a j := by
  simp only [getP, Array.getD, Array.size_modify]
  by_cases h : j < a.size
  · simp only [h, ↓reduceDIte, Array.getElem_modify]
    by_cases h2 : i = j
    · subst h2; simp [h, Array.getElem_modify]
    · have : ¬ j = i := fun e => h2 e.symm
      simp [h2, this, Array.getElem_modify]
  · simp only [h, ↓reduceDIte]
    by_cases h2 : j = i
    · subst h2; simp [h]
    · simp [h2]

theorem getP_ofFn (n : Nat) (f : Nat → PS) (j : Nat) : getP (ofFn n f) j = if j < n then f j else default := by
  simp only [getP, ofFn, Array.getD]
  by_cases h : j < n
  · simp [h]
  · simp [h]

theorem size_ofFn (n : Nat) (f : Nat → PS) : (ofFn n f).size = n := by simp [ofFn]

theorem toFn_eq (a : Array PS) (j : Nat) : toFn a j = getP a j := rfl

/-- the part of a component's state that decides its Shutdown count -/
def proj (p : PS) : PKind × Bool × Nat := (p.kind, p.stopped, p.cnt.s)

theorem proj_onStart (p : PS) : proj (procOnStart p) = proj p := by
  obtain ⟨kind, c, st, q⟩ := p; cases kind <;> simp [proj, procOnStart]
theorem proj_onEnd (p : PS) : proj (procOnEnd p) = proj p := by
  obtain ⟨kind, c, st, q⟩ := p; cases kind <;> cases st <;> simp [proj, procOnEnd]
theorem proj_flush (p : PS) : proj (procFlush p) = proj p := by
  obtain ⟨kind, c, st, q⟩ := p; cases kind <;> cases st <;> simp [proj, procFlush]
theorem proj_shutdown (p q : PS) (h : proj p = proj q) : proj (procShutdown p) = proj (procShutdown q) := by
  obtain ⟨k1, c1, s1, q1⟩ := p
  obtain ⟨k2, c2, s2, q2⟩ := q
  simp only [proj, Prod.mk.injEq] at h
  obtain ⟨rfl, rfl, h3⟩ := h
  cases k1 <;> cases s1 <;> simp_all [proj, procShutdown]

/-- a fold of projection-preserving callbacks over the list preserves every component's projection -/
theorem proj_foldl (g : PS → PS) (hg : ∀ p, proj (g p) = proj p) (procs : List (Nat × Bool)) (pool : Nat → PS)
    (j : Nat) : proj (procs.foldl (fun pl p => upd pl p.1 g) pool j) = proj (pool j) := by
  induction procs generalizing pool with
  | nil => rfl
  | cons p r ih =>
    simp only [List.foldl_cons]
    rw [ih]
    simp only [upd]
    split
    · rw [hg]
    · rfl

/-- two pools agree on what decides the Shutdown counts -/
def Sim (a b : Array PS) : Prop := a.size = b.size ∧ ∀ j, proj (getP a j) = proj (getP b j)

theorem Sim.refl (a : Array PS) : Sim a a := ⟨rfl, fun _ => rfl⟩
theorem Sim.symm {a b : Array PS} (h : Sim a b) : Sim b a := ⟨h.1.symm, fun j => (h.2 j).symm⟩
theorem Sim.trans {a b c : Array PS} (h1 : Sim a b) (h2 : Sim b c) : Sim a c :=
  ⟨h1.1.trans h2.1, fun j => (h1.2 j).trans (h2.2 j)⟩

theorem sim_modify {a b : Array PS} (h : Sim a b) (i : Nat) (g : PS → PS)
    (hg : ∀ p q, proj p = proj q → proj (g p) = proj (g q)) : Sim (a.modify i g) (b.modify i g) := by
  refine ⟨by simp [h.1], fun j => ?_⟩
  rw [getP_modify, getP_modify, h.1]
  split
  · exact hg _ _ (h.2 j)
  · exact h.2 j

/-- a re-entrant call changes nothing that decides a Shutdown count -/
theorem sim_runAct (procs : List (Nat × Bool)) (a : Array PS) (act : Option Act) : Sim (runAct procs a act) a := by
  cases act with
  | none => exact Sim.refl a
  | some x =>
    cases x with
    | sp =>
      refine ⟨size_ofFn _ _, fun j => ?_⟩
      simp only [runAct, getP_ofFn]
      split
      · simp only [endAll, startAll]
        rw [proj_foldl _ proj_onEnd, proj_foldl _ proj_onStart]; rfl
      · rename_i h
        simp [getP, Array.getD, h]
    | ff =>
      cases procs with
      | nil => exact Sim.refl a
      | cons p r =>
        refine ⟨size_ofFn _ _, fun j => ?_⟩
        simp only [runAct, getP_ofFn]
        split
        · simp only [flushAll]
          rw [proj_foldl _ proj_flush]; rfl
        · rename_i h
          simp [getP, Array.getD, h]


theorem sim_onStartH (hk : Nat → Hook) (procs : List (Nat × Bool)) (a : Array PS) (i : Nat) :
    Sim (onStartH hk procs a i) (a.modify i procOnStart) := by
  simp only [onStartH]
  split
  · exact sim_runAct _ _ _
  · exact Sim.refl _

theorem sim_onEndH (hk : Nat → Hook) (procs : List (Nat × Bool)) (a : Array PS) (i : Nat) :
    Sim (onEndH hk procs a i) (a.modify i procOnEnd) := by
  simp only [onEndH]
  split
  · split
    · exact sim_runAct _ _ _
    · split
      · exact Sim.refl _
      · exact sim_runAct _ _ _
    · exact Sim.refl _
  · exact Sim.refl _

theorem sim_flushH (hk : Nat → Hook) (procs : List (Nat × Bool)) (a : Array PS) (i : Nat) :
    Sim (flushH hk procs a i) (a.modify i procFlush) := by
  simp only [flushH]
  split
  · split
    · exact sim_runAct _ _ _
    · split
      · exact sim_runAct _ _ _
      · exact Sim.refl _
    · exact Sim.refl _
  · exact Sim.refl _

theorem sim_shutdownH (hk : Nat → Hook) (procs : List (Nat × Bool)) (a : Array PS) (i : Nat) :
    Sim (shutdownH hk procs a i) (a.modify i procShutdown) := by
  simp only [shutdownH]
  split
  · split
    · exact sim_runAct _ _ _
    · split
      · exact Sim.refl _
      · exact sim_runAct _ _ _
    · split
      · exact Sim.refl _
      · refine Sim.trans (sim_runAct _ _ _) ?_
        split
        · exact sim_runAct _ _ _
        · exact Sim.refl _
    · exact Sim.refl _
  · exact Sim.refl _

theorem proj_congr_id (g : PS → PS) (hg : ∀ p, proj (g p) = proj p) :
    ∀ p q, proj p = proj q → proj (g p) = proj (g q) := fun p q h => by rw [hg, hg, h]

/-- the same callback with different hooks on similar pools gives similar pools -/
theorem sim_H {F : (Nat → Hook) → List (Nat × Bool) → Array PS → Nat → Array PS} {g : PS → PS}
    (hF : ∀ hk procs a i, Sim (F hk procs a i) (a.modify i g))
    (hg : ∀ p q, proj p = proj q → proj (g p) = proj (g q))
    (hk1 hk2 : Nat → Hook) (procs : List (Nat × Bool)) {a b : Array PS} (h : Sim a b) (i : Nat) :
    Sim (F hk1 procs a i) (F hk2 procs b i) :=
  Sim.trans (hF hk1 procs a i) (Sim.trans (sim_modify h i g hg) (Sim.symm (hF hk2 procs b i)))

theorem sim_foldl {F1 F2 : Array PS → (Nat × Bool) → Array PS}
    (hF : ∀ a b p, Sim a b → Sim (F1 a p) (F2 b p)) (l : List (Nat × Bool)) :
    ∀ a b, Sim a b → Sim (l.foldl F1 a) (l.foldl F2 b) := by
  induction l with
  | nil => intro a b h; exact h
  | cons p r ih => intro a b h; exact ih _ _ (hF a b p h)

structure RSim (s t : RSt) : Prop where
  pool : Sim s.pool t.pool
  procs : s.procs = t.procs
  shut : s.isShutdown = t.isShutdown
  tr : s.tracers = t.tracers
  sp : s.spans = t.spans

theorem rstep_sim (hk1 hk2 : Nat → Hook) {s t : RSt} (h : RSim s t) (op : Op) :
    (rstep hk1 s op).2 = (rstep hk2 t op).2 ∧ RSim (rstep hk1 s op).1 (rstep hk2 t op).1 := by
  obtain ⟨hp, hpr, hsh, htr, hsp⟩ := h
  obtain ⟨pa, procs, sh, trc, spn⟩ := s
  obtain ⟨pb, procs', sh', trc', spn'⟩ := t
  simp only at hp hpr hsh htr hsp
  subst hpr hsh htr hsp
  have hS := fun (a b : Array PS) (hab : Sim a b) i =>
    sim_H sim_shutdownH proj_shutdown hk1 hk2 procs hab i
  have hF := fun (a b : Array PS) (hab : Sim a b) i =>
    sim_H sim_flushH (proj_congr_id _ proj_flush) hk1 hk2 procs hab i
  have hA := fun (a b : Array PS) (hab : Sim a b) i =>
    sim_H sim_onStartH (proj_congr_id _ proj_onStart) hk1 hk2 procs hab i
  have hE := fun (a b : Array PS) (hab : Sim a b) i =>
    sim_H sim_onEndH (proj_congr_id _ proj_onEnd) hk1 hk2 procs hab i
  cases op with
  | reg i =>
    simp only [rstep]
    split
    · exact ⟨rfl, ⟨hp, rfl, rfl, rfl, rfl⟩⟩
    · exact ⟨rfl, ⟨hp, rfl, rfl, rfl, rfl⟩⟩
  | unreg i =>
    simp only [rstep]
    split
    · exact ⟨rfl, ⟨hp, rfl, rfl, rfl, rfl⟩⟩
    · split
      · exact ⟨rfl, ⟨hp, rfl, rfl, rfl, rfl⟩⟩
      · rename_i once rest _
        refine ⟨rfl, ⟨?_, rfl, rfl, rfl, rfl⟩⟩
        show Sim (if once = true then pa else shutdownH hk1 procs pa i)
          (if once = true then pb else shutdownH hk2 procs pb i)
        split
        · exact hp
        · exact hS _ _ hp i
  | shutdown c ch =>
    simp only [rstep]
    split
    · exact ⟨rfl, ⟨hp, rfl, rfl, rfl, rfl⟩⟩
    · refine ⟨rfl, ⟨?_, rfl, rfl, rfl, rfl⟩⟩
      refine sim_foldl ?_ procs _ _ hp
      intro a b p hab
      show Sim (if p.2 = true then a else shutdownH hk1 procs a p.1) (if p.2 = true then b else shutdownH hk2 procs b p.1)
      split
      · exact hab
      · exact hS _ _ hab _
  | flush c =>
    cases procs with
    | nil => exact ⟨rfl, ⟨hp, rfl, rfl, rfl, rfl⟩⟩
    | cons p0 r =>
      refine ⟨rfl, ⟨?_, rfl, rfl, rfl, rfl⟩⟩
      exact sim_foldl (fun a b p hab => hF a b hab p.1) (p0 :: r) _ _ hp
  | tracer k => exact ⟨rfl, ⟨hp, rfl, rfl, rfl, rfl⟩⟩
  | start k j =>
    simp only [rstep]
    split
    · exact ⟨rfl, ⟨hp, rfl, rfl, rfl, rfl⟩⟩
    · exact ⟨rfl, ⟨hp, rfl, rfl, rfl, rfl⟩⟩
    · refine ⟨rfl, ⟨?_, rfl, rfl, rfl, rfl⟩⟩
      exact sim_foldl (fun a b p hab => hA a b hab p.1) procs _ _ hp
  | end_ j =>
    simp only [rstep]
    split
    · refine ⟨rfl, ⟨?_, rfl, rfl, rfl, rfl⟩⟩
      exact sim_foldl (fun a b p hab => hE a b hab p.1) procs _ _ hp
    · exact ⟨rfl, ⟨hp, rfl, rfl, rfl, rfl⟩⟩
    · exact ⟨rfl, ⟨hp, rfl, rfl, rfl, rfl⟩⟩
  | span k =>
    simp only [rstep]
    split
    · refine ⟨rfl, ⟨?_, rfl, rfl, rfl, rfl⟩⟩
      refine sim_foldl (fun a b p hab => hE a b hab p.1) procs _ _ ?_
      exact sim_foldl (fun a b p hab => hA a b hab p.1) procs _ _ hp
    · exact ⟨rfl, ⟨hp, rfl, rfl, rfl, rfl⟩⟩
  | pshut i => exact ⟨rfl, ⟨hS _ _ hp i, rfl, rfl, rfl, rfl⟩⟩

/-- results and Shutdown counts of a run do not depend on the hooks -/
theorem rrunFrom_sim (hk1 hk2 : Nat → Hook) (ops : List Op) : ∀ (s t : RSt), RSim s t →
    (rrunFrom hk1 s ops).map (·.res) = (rrunFrom hk2 t ops).map (·.res) ∧
    ∀ i, (rrunFrom hk1 s ops).map (fun o => (o.snap i).s) = (rrunFrom hk2 t ops).map (fun o => (o.snap i).s) := by
  induction ops with
  | nil => intro s t _; exact ⟨rfl, fun _ => rfl⟩
  | cons op rest ih =>
    intro s t h
    obtain ⟨h1, h2⟩ := rstep_sim hk1 hk2 h op
    obtain ⟨i1, i2⟩ := ih _ _ h2
    refine ⟨?_, fun i => ?_⟩
    · simp only [rrunFrom, List.map_cons, h1, i1]
    · simp only [rrunFrom, List.map_cons, i2 i]
      congr 1
      have := h2.pool.2 i
      simp only [proj, getP, Prod.mk.injEq] at this
      exact this.2.2


/-! ### the array pool of the nested model against the function pool of the proved model -/

def noHooks : Nat → Hook := fun _ => {}

/-- the array agrees with the function pool on the components of the script -/
def Corr (a : Array PS) (pool : Nat → PS) : Prop := ∀ j, j < a.size → getP a j = pool j

theorem corr_modify {a : Array PS} {pool : Nat → PS} (h : Corr a pool) (i : Nat) (g : PS → PS) :
    Corr (a.modify i g) (upd pool i g) := by
  intro j hj
  simp only [Array.size_modify] at hj
  rw [getP_modify]
  simp only [upd]
  by_cases hji : j = i
  · subst hji; simp [hj, h j hj]
  · simp [hji, h j hj]

theorem corr_foldl (g : PS → PS) (procs : List (Nat × Bool)) :
    ∀ (a : Array PS) (pool : Nat → PS), Corr a pool →
      Corr (procs.foldl (fun pl p => pl.modify p.1 g) a) (procs.foldl (fun pl p => upd pl p.1 g) pool) ∧
      (procs.foldl (fun pl p => pl.modify p.1 g) a).size = a.size := by
  induction procs with
  | nil => intro a pool h; exact ⟨h, rfl⟩
  | cons p r ih =>
    intro a pool h
    obtain ⟨i1, i2⟩ := ih _ _ (corr_modify h p.1 g)
    exact ⟨i1, by simp only [List.foldl_cons]; rw [i2]; simp⟩

theorem corr_foldl_once (g : PS → PS) (procs : List (Nat × Bool)) :
    ∀ (a : Array PS) (pool : Nat → PS), Corr a pool →
      Corr (procs.foldl (fun pl p => if p.2 then pl else pl.modify p.1 g) a)
        (procs.foldl (fun pl p => if p.2 then pl else upd pl p.1 g) pool) ∧
      (procs.foldl (fun pl p => if p.2 then pl else pl.modify p.1 g) a).size = a.size := by
  induction procs with
  | nil => intro a pool h; exact ⟨h, rfl⟩
  | cons p r ih =>
    intro a pool h
    simp only [List.foldl_cons]
    cases hp : p.2 with
    | true => simpa using ih _ _ h
    | false =>
      obtain ⟨i1, i2⟩ := ih _ _ (corr_modify h p.1 g)
      exact ⟨by simpa using i1, by simpa using i2⟩

theorem onStartH_noHooks (procs : List (Nat × Bool)) (a : Array PS) (i : Nat) :
    onStartH noHooks procs a i = a.modify i procOnStart := by
  simp only [onStartH, noHooks, runAct]; split <;> rfl
theorem onEndH_noHooks (procs : List (Nat × Bool)) (a : Array PS) (i : Nat) :
    onEndH noHooks procs a i = a.modify i procOnEnd := by
  simp only [onEndH, noHooks, runAct]; repeat' split
  all_goals rfl
theorem flushH_noHooks (procs : List (Nat × Bool)) (a : Array PS) (i : Nat) :
    flushH noHooks procs a i = a.modify i procFlush := by
  simp only [flushH, noHooks, runAct]; repeat' split
  all_goals rfl
theorem shutdownH_noHooks (procs : List (Nat × Bool)) (a : Array PS) (i : Nat) :
    shutdownH noHooks procs a i = a.modify i procShutdown := by
  simp only [shutdownH, noHooks, runAct]; repeat' split
  all_goals rfl

/-- the op uses a context that is not done (re-entrant scripts use no other) -/
def liveOp : Op → Bool
  | .shutdown c _ => !c.done
  | .flush c => !c.done
  | _ => true

structure RCorr (r : RSt) (s : St) : Prop where
  pool : Corr r.pool s.pool
  procs : r.procs = s.procs
  shut : r.isShutdown = s.isShutdown
  tr : r.tracers = s.tracers
  sp : r.spans = s.spans

theorem rstep_noHooks {r : RSt} {s : St} (h : RCorr r s) (op : Op) (hl : liveOp op = true) :
    (rstep noHooks r op).2 = (TP.step s op).2 ∧ RCorr (rstep noHooks r op).1 (TP.step s op).1 ∧
    (rstep noHooks r op).1.pool.size = r.pool.size := by
  obtain ⟨hp, hpr, hsh, htr, hsp⟩ := h
  obtain ⟨pa, procs, sh, trc, spn⟩ := r
  obtain ⟨pb, procs', sh', trc', spn'⟩ := s
  simp only at hp hpr hsh htr hsp
  subst hpr hsh htr hsp
  cases op with
  | reg i => cases sh <;> exact ⟨rfl, ⟨hp, rfl, rfl, rfl, rfl⟩, rfl⟩
  | unreg i =>
    cases sh with
    | true => exact ⟨rfl, ⟨hp, rfl, rfl, rfl, rfl⟩, rfl⟩
    | false =>
      cases hrl : removeLast i procs with
      | none =>
        generalize hx : rstep noHooks _ _ = x
        generalize hy : TP.step _ _ = y
        simp only [rstep, hrl] at hx
        simp only [TP.step, hrl] at hy
        subst hx hy
        exact ⟨rfl, ⟨hp, rfl, rfl, rfl, rfl⟩, rfl⟩
      | some x =>
        obtain ⟨⟨q1, once⟩, rest⟩ := x
        generalize hx : rstep noHooks _ _ = x
        generalize hy : TP.step _ _ = y
        simp only [rstep, hrl] at hx
        simp only [TP.step, hrl] at hy
        subst hx hy
        cases once with
        | true => exact ⟨rfl, ⟨hp, rfl, rfl, rfl, rfl⟩, rfl⟩
        | false =>
          refine ⟨rfl, ⟨?_, rfl, rfl, rfl, rfl⟩, ?_⟩
          · show Corr (shutdownH noHooks procs pa i) (upd pb i procShutdown)
            rw [shutdownH_noHooks]; exact corr_modify hp i _
          · show (shutdownH noHooks procs pa i).size = pa.size
            rw [shutdownH_noHooks]; simp
  | shutdown c ch =>
    have hd : c.done = false := by simpa [liveOp] using hl
    cases sh with
    | true => exact ⟨rfl, ⟨hp, rfl, rfl, rfl, rfl⟩, rfl⟩
    | false =>
      generalize hx : rstep noHooks _ _ = x
      generalize hy : TP.step _ _ = y
      simp only [rstep, hd] at hx
      simp only [TP.step, hd] at hy
      subst hx hy
      have hfun : (fun (pl : Array PS) (p : Nat × Bool) => if p.2 = true then pl else shutdownH noHooks procs pl p.1) =
          (fun pl p => if p.2 = true then pl else pl.modify p.1 procShutdown) := by
        funext pl p; rw [shutdownH_noHooks]
      obtain ⟨c1, c2⟩ := corr_foldl_once procShutdown procs pa pb hp
      refine ⟨rfl, ⟨?_, rfl, rfl, rfl, rfl⟩, ?_⟩
      · show Corr (procs.foldl _ pa) (shutdownAll pb procs)
        rw [hfun]; exact c1
      · show (procs.foldl _ pa).size = pa.size
        rw [hfun]; exact c2
  | flush c =>
    have hd : c.done = false := by simpa [liveOp] using hl
    cases procs with
    | nil => exact ⟨rfl, ⟨hp, rfl, rfl, rfl, rfl⟩, rfl⟩
    | cons p0 r =>
      have hfun : (fun (pl : Array PS) (p : Nat × Bool) => flushH noHooks (p0 :: r) pl p.1) =
          (fun pl p => pl.modify p.1 procFlush) := by
        funext pl p; rw [flushH_noHooks]
      obtain ⟨c1, c2⟩ := corr_foldl procFlush (p0 :: r) pa pb hp
      generalize hx : rstep noHooks _ _ = x
      generalize hy : TP.step _ _ = y
      simp only [rstep, hd] at hx
      simp only [TP.step, hd] at hy
      subst hx hy
      refine ⟨rfl, ⟨?_, rfl, rfl, rfl, rfl⟩, ?_⟩
      · show Corr ((p0 :: r).foldl _ pa) (flushAll pb (p0 :: r))
        rw [hfun]; exact c1
      · show ((p0 :: r).foldl _ pa).size = pa.size
        rw [hfun]; exact c2
  | tracer k => exact ⟨rfl, ⟨hp, rfl, rfl, rfl, rfl⟩, rfl⟩
  | start k j =>
    have hfun : (fun (pl : Array PS) (p : Nat × Bool) => onStartH noHooks procs pl p.1) =
        (fun pl p => pl.modify p.1 procOnStart) := by
      funext pl p; rw [onStartH_noHooks]
    obtain ⟨c1, c2⟩ := corr_foldl procOnStart procs pa pb hp
    cases ht : trc k with
    | none =>
      generalize hx : rstep noHooks _ _ = x
      generalize hy : TP.step _ _ = y
      simp only [rstep, ht] at hx
      simp only [TP.step, ht] at hy
      subst hx hy
      exact ⟨rfl, ⟨hp, rfl, rfl, rfl, rfl⟩, rfl⟩
    | some b =>
      cases b with
      | false =>
        generalize hx : rstep noHooks _ _ = x
        generalize hy : TP.step _ _ = y
        simp only [rstep, ht] at hx
        simp only [TP.step, ht] at hy
        subst hx hy
        exact ⟨rfl, ⟨hp, rfl, rfl, rfl, rfl⟩, rfl⟩
      | true =>
        generalize hx : rstep noHooks _ _ = x
        generalize hy : TP.step _ _ = y
        simp only [rstep, ht] at hx
        simp only [TP.step, ht] at hy
        subst hx hy
        refine ⟨rfl, ⟨?_, rfl, rfl, rfl, rfl⟩, ?_⟩
        · show Corr (procs.foldl _ pa) (startAll pb procs)
          rw [hfun]; exact c1
        · show (procs.foldl _ pa).size = pa.size
          rw [hfun]; exact c2
  | end_ j =>
    have hfun : (fun (pl : Array PS) (p : Nat × Bool) => onEndH noHooks procs pl p.1) =
        (fun pl p => pl.modify p.1 procOnEnd) := by
      funext pl p; rw [onEndH_noHooks]
    obtain ⟨c1, c2⟩ := corr_foldl procOnEnd procs pa pb hp
    cases hs : spn j with
    | empty =>
      generalize hx : rstep noHooks _ _ = x
      generalize hy : TP.step _ _ = y
      simp only [rstep, hs] at hx
      simp only [TP.step, hs] at hy
      subst hx hy
      exact ⟨rfl, ⟨hp, rfl, rfl, rfl, rfl⟩, rfl⟩
    | ended =>
      generalize hx : rstep noHooks _ _ = x
      generalize hy : TP.step _ _ = y
      simp only [rstep, hs] at hx
      simp only [TP.step, hs] at hy
      subst hx hy
      exact ⟨rfl, ⟨hp, rfl, rfl, rfl, rfl⟩, rfl⟩
    | live b =>
      cases b with
      | false =>
        generalize hx : rstep noHooks _ _ = x
        generalize hy : TP.step _ _ = y
        simp only [rstep, hs] at hx
        simp only [TP.step, hs] at hy
        subst hx hy
        exact ⟨rfl, ⟨hp, rfl, rfl, rfl, rfl⟩, rfl⟩
      | true =>
        generalize hx : rstep noHooks _ _ = x
        generalize hy : TP.step _ _ = y
        simp only [rstep, hs] at hx
        simp only [TP.step, hs] at hy
        subst hx hy
        refine ⟨rfl, ⟨?_, rfl, rfl, rfl, rfl⟩, ?_⟩
        · show Corr (procs.foldl _ pa) (endAll pb procs)
          rw [hfun]; exact c1
        · show (procs.foldl _ pa).size = pa.size
          rw [hfun]; exact c2
  | span k =>
    have hfunA : (fun (pl : Array PS) (p : Nat × Bool) => onStartH noHooks procs pl p.1) =
        (fun pl p => pl.modify p.1 procOnStart) := by
      funext pl p; rw [onStartH_noHooks]
    have hfunE : (fun (pl : Array PS) (p : Nat × Bool) => onEndH noHooks procs pl p.1) =
        (fun pl p => pl.modify p.1 procOnEnd) := by
      funext pl p; rw [onEndH_noHooks]
    obtain ⟨c1, c2⟩ := corr_foldl procOnStart procs pa pb hp
    obtain ⟨d1, d2⟩ := corr_foldl procOnEnd procs _ _ c1
    cases ht : trc k with
    | none =>
      generalize hx : rstep noHooks _ _ = x
      generalize hy : TP.step _ _ = y
      simp only [rstep, ht] at hx
      simp only [TP.step, ht] at hy
      subst hx hy
      exact ⟨rfl, ⟨hp, rfl, rfl, rfl, rfl⟩, rfl⟩
    | some b =>
      cases b with
      | false =>
        generalize hx : rstep noHooks _ _ = x
        generalize hy : TP.step _ _ = y
        simp only [rstep, ht] at hx
        simp only [TP.step, ht] at hy
        subst hx hy
        exact ⟨rfl, ⟨hp, rfl, rfl, rfl, rfl⟩, rfl⟩
      | true =>
        generalize hx : rstep noHooks _ _ = x
        generalize hy : TP.step _ _ = y
        simp only [rstep, ht] at hx
        simp only [TP.step, ht] at hy
        subst hx hy
        refine ⟨rfl, ⟨?_, rfl, rfl, rfl, rfl⟩, ?_⟩
        · show Corr (procs.foldl _ (procs.foldl _ pa)) (endAll (startAll pb procs) procs)
          rw [hfunA, hfunE]; exact d1
        · show (procs.foldl _ (procs.foldl _ pa)).size = pa.size
          rw [hfunA, hfunE, d2, c2]
  | pshut i =>
    refine ⟨rfl, ⟨?_, rfl, rfl, rfl, rfl⟩, ?_⟩
    · show Corr (shutdownH noHooks procs pa i) (upd pb i procShutdown)
      rw [shutdownH_noHooks]; exact corr_modify hp i _
    · show (shutdownH noHooks procs pa i).size = pa.size
      rw [shutdownH_noHooks]; simp


theorem rrunFrom_noHooks (ops : List Op) : ∀ (r : RSt) (s : St), RCorr r s → ops.all liveOp = true →
    (rrunFrom noHooks r ops).map (·.res) = (TP.runFrom s ops).map (·.res) ∧
    ∀ i, i < r.pool.size →
      (rrunFrom noHooks r ops).map (fun o => o.snap i) = (TP.runFrom s ops).map (fun o => o.snap i) := by
  induction ops with
  | nil => intro r s _ _; exact ⟨rfl, fun _ _ => rfl⟩
  | cons op rest ih =>
    intro r s h hl
    simp only [List.all_cons, Bool.and_eq_true] at hl
    obtain ⟨h1, h2, h3⟩ := rstep_noHooks h op hl.1
    obtain ⟨i1, i2⟩ := ih _ _ h2 hl.2
    refine ⟨?_, fun i hi => ?_⟩
    · simp only [rrunFrom, TP.runFrom, List.map_cons, h1, i1]
    · simp only [rrunFrom, TP.runFrom, List.map_cons]
      rw [i2 i (by rw [h3]; exact hi)]
      congr 1
      have := h2.pool i (by rw [h3]; exact hi)
      simp only [getP] at this
      rw [this]

theorem rcorr_init (kinds : List PKind) :
    RCorr { pool := ofFn kinds.length (init kinds).pool, procs := [] } (init kinds) := by
  refine ⟨?_, rfl, rfl, rfl, rfl⟩
  intro j hj
  rw [size_ofFn] at hj
  rw [getP_ofFn]; simp [hj]

theorem rsim_refl (r : RSt) : RSim r r := ⟨Sim.refl _, rfl, rfl, rfl, rfl⟩

/-- a fold of per-component callbacks is pointwise: component j's result depends on component j's state only -/
theorem foldl_pointwise (g : PS → PS) (procs : List (Nat × Bool)) (p1 p2 : Nat → PS) (j : Nat) (h : p1 j = p2 j) :
    procs.foldl (fun pl p => upd pl p.1 g) p1 j = procs.foldl (fun pl p => upd pl p.1 g) p2 j := by
  rw [foldl_upd, foldl_upd, h]

theorem corr_runAct_sp (procs : List (Nat × Bool)) (a : Array PS) (pool : Nat → PS) (h : Corr a pool) :
    Corr (runAct procs a (some .sp)) (endAll (startAll pool procs) procs) := by
  intro j hj
  simp only [runAct, size_ofFn] at hj
  simp only [runAct, getP_ofFn, hj, ↓reduceIte, endAll, startAll]
  apply foldl_pointwise
  apply foldl_pointwise
  exact h j hj

theorem corr_runAct_ff (procs : List (Nat × Bool)) (a : Array PS) (pool : Nat → PS) (h : Corr a pool)
    (hne : procs ≠ []) : Corr (runAct procs a (some .ff)) (flushAll pool procs) := by
  intro j hj
  cases procs with
  | nil => exact absurd rfl hne
  | cons p r =>
    simp only [runAct, size_ofFn] at hj
    simp only [runAct, getP_ofFn, hj, ↓reduceIte, flushAll]
    apply foldl_pointwise
    exact h j hj

theorem rrunFrom_length (hk : Nat → Hook) (r : RSt) (ops : List Op) : (rrunFrom hk r ops).length = ops.length := by
  induction ops generalizing r with
  | nil => rfl
  | cons op rest ih => simp [rrunFrom, ih]

end Otel.C15.ReentLemmas
