/-
C15 — helper lemmas for the meter provider: forward simulation between `MP.step` and the reference
`Spec.MP.refStep` / `Spec.MP.checkStep`, for every resolution (`Choice`) of the done-context races of
`PeriodicReader.ForceFlush`.
-/
import Otel.C15.Model
import Otel.C15.Spec
namespace Otel.C15.LemmasMP
open Otel.C15 Otel.C15.MP

/-- what the reference knows (`shut`) determines the observable state of reader `i` -/
def CompInv (kd : RKind) (p : RS) (shut : Bool) : Prop :=
  p.kind = kd ∧ p.rshut = shut ∧
  match kd with
  | .periodic => p.cnt.s = (if shut then 1 else 0)
  | .manual => p.cnt.n = 0 ∧ p.cnt.s = 0 ∧ p.cnt.f = 0

/-- the per-index content of the three counter clauses of `Spec.MP.checkStep` -/
def StepOK (kd : RKind) (flushLive flushDone isSd shut' : Bool) (prev cur : Cnt) : Prop :=
  match kd with
  | .periodic =>
      (if flushDone then prev.n ≤ cur.n ∧ cur.n ≤ prev.n + 1
       else cur.n = prev.n + (if flushLive || isSd then 1 else 0)) ∧
      cur.s = (if shut' then 1 else 0) ∧
      (if flushDone then prev.f ≤ cur.f ∧ cur.f + prev.n ≤ prev.f + cur.n
       else cur.f = prev.f + (if flushLive then 1 else 0))
  | .manual => cur.n = 0 ∧ cur.s = 0 ∧ cur.f = 0

theorem comp_id (kd : RKind) (p : RS) (shut : Bool) (h : CompInv kd p shut) :
    StepOK kd false false false shut p.cnt p.cnt := by
  obtain ⟨kind, ⟨a, e, f, s, n⟩, rs⟩ := p
  obtain ⟨hk, hr, h⟩ := h
  simp only at hk hr; subst hk hr
  cases kind <;> simp_all [StepOK]

theorem comp_flush (kd : RKind) (p : RS) (shut done : Bool) (k : Nat) (h : CompInv kd p shut) :
    CompInv kd (readerFlush done k p) shut ∧
      StepOK kd (!shut && !done) (!shut && done) false shut p.cnt (readerFlush done k p).cnt := by
  obtain ⟨kind, ⟨a, e, f, s, n⟩, rs⟩ := p
  obtain ⟨hk, hr, h⟩ := h
  simp only at hk hr; subst hk hr
  cases kind <;> cases rs <;> cases done <;> simp_all [StepOK, CompInv, readerFlush] <;>
    (repeat' split) <;> omega

theorem comp_shutdown (kd : RKind) (p : RS) (h : CompInv kd p false) :
    CompInv kd (readerShutdown p) true ∧ StepOK kd false false true true p.cnt (readerShutdown p).cnt := by
  obtain ⟨kind, ⟨a, e, f, s, n⟩, rs⟩ := p
  obtain ⟨hk, hr, h⟩ := h
  simp only at hk hr; subst hk hr
  cases kind <;> simp_all [StepOK, CompInv, readerShutdown]

structure Inv (kinds : List RKind) (s : St) (r : Spec.MP.Ref) : Prop where
  n : s.n = kinds.length
  shut : s.stopped = r.shut
  once : s.once = r.shut
  mt : s.meters = r.meters
  tot : s.total = r.total
  comp : ∀ i, i < kinds.length → CompInv (kindOf kinds i) (s.pool i) r.shut

def snapOf (s : St) : Nat → Cnt := fun i => (s.pool i).cnt

def flushLive (r : Spec.MP.Ref) : Op → Bool
  | .flush c _ => !r.shut && !c.done
  | _ => false
def flushDone (r : Spec.MP.Ref) : Op → Bool
  | .flush c _ => !r.shut && c.done
  | _ => false
def isSd (r : Spec.MP.Ref) : Op → Bool
  | .shutdown _ => !r.shut
  | _ => false

/-- `Spec.MP.checkStep` from its per-index content -/
theorem checkStep_of (kinds : List RKind) (r : Spec.MP.Ref) (op : Op) (prev cur : Nat → Cnt) (res : Res)
    (hres : Spec.MP.resOK kinds r op res = true) (hcr : res ≠ .crash)
    (h : ∀ i, i < kinds.length →
      StepOK (kindOf kinds i) (flushLive r op) (flushDone r op) (isSd r op)
        (Spec.MP.refStep r op res).shut (prev i) (cur i)) :
    Spec.MP.checkStep kinds r op prev cur res = Spec.Fails.none := by
  simp only [Spec.MP.checkStep, Spec.Fails.none, Spec.Fails.mk.injEq, Bool.not_eq_false', Spec.allBelow,
    List.all_eq_true, Bool.and_eq_true, List.mem_range]
  refine ⟨?_, ?_, ⟨hres, ?_⟩, ?_⟩
  · intro i hi
    have := h i hi
    revert this
    cases op <;> simp only [flushLive, flushDone, isSd] <;>
      cases kindOf kinds i <;> simp only [StepOK] <;> intro this <;> simp_all
  · intro i hi
    have := h i hi
    revert this
    cases op <;> simp only [flushLive, flushDone, isSd] <;>
      cases kindOf kinds i <;> simp only [StepOK] <;> intro this <;> simp_all
  · intro i hi
    have := h i hi
    revert this
    cases op <;> simp only [flushLive, flushDone, isSd] <;>
      cases kindOf kinds i <;> simp only [StepOK] <;> intro this <;> simp_all
  · cases res <;> simp_all


theorem hasPeriodic_of {kinds : List RKind} (i : Nat) (hi : i < kinds.length) (h : kindOf kinds i = .periodic) :
    Spec.MP.hasPeriodic kinds = true := by
  simp only [Spec.MP.hasPeriodic, List.any_eq_true]
  refine ⟨kinds[i], List.getElem_mem _, ?_⟩
  have : kinds[i] = .periodic := by simpa [kindOf, List.getD, hi] using h
  simp [this]

theorem hasPeriodic_ex {kinds : List RKind} (h : Spec.MP.hasPeriodic kinds = true) :
    ∃ i, i < kinds.length ∧ kindOf kinds i = .periodic := by
  simp only [Spec.MP.hasPeriodic, List.any_eq_true, beq_iff_eq] at h
  obtain ⟨x, hx, rfl⟩ := h
  obtain ⟨i, hi, he⟩ := List.getElem_of_mem hx
  exact ⟨i, hi, by simp [kindOf, List.getD, hi, he]⟩

/-- the result of `MeterProvider.ForceFlush`, for every resolution of the races, is one the reference allows -/
theorem flush_resOK {kinds s r} (h : Inv kinds s r) (c : Ctx) (ch : Choice) :
    Spec.MP.resOK kinds r (.flush c ch) (step s (.flush c ch)).2 = true ∧ (step s (.flush c ch)).2 ≠ .crash := by
  have hn := h.n
  -- facts about the two joined error flags
  have h1 : (List.range s.n).any (flushCtxErr c.done ch s.pool) = true →
      c.done = true ∧ Spec.MP.hasPeriodic kinds = true := by
    intro he
    simp only [List.any_eq_true, List.mem_range] at he
    obtain ⟨i, hi, he⟩ := he
    rw [hn] at hi
    have hk := (h.comp i hi).1
    simp only [flushCtxErr, Bool.and_eq_true, beq_iff_eq] at he
    exact ⟨he.1.2, hasPeriodic_of i hi (hk ▸ he.1.1)⟩
  have h2 : (List.range s.n).any (flushShutErr c.done ch s.pool) = true →
      r.shut = true ∧ Spec.MP.hasPeriodic kinds = true := by
    intro he
    simp only [List.any_eq_true, List.mem_range] at he
    obtain ⟨i, hi, he⟩ := he
    rw [hn] at hi
    have hk := (h.comp i hi).1
    have hr := (h.comp i hi).2.1
    simp only [flushShutErr, Bool.and_eq_true, beq_iff_eq] at he
    exact ⟨hr ▸ he.1.2, hasPeriodic_of i hi (hk ▸ he.1.1)⟩
  have h3 : r.shut = true → Spec.MP.hasPeriodic kinds = true →
      ((List.range s.n).any (flushCtxErr c.done ch s.pool) ||
        (List.range s.n).any (flushShutErr c.done ch s.pool)) = true := by
    intro hs hp
    obtain ⟨i, hi, hk⟩ := hasPeriodic_ex hp
    have hk' := (h.comp i hi).1
    have hr := (h.comp i hi).2.1
    rw [hs] at hr
    rw [hk] at hk'
    have hi' : i < s.n := by rw [hn]; exact hi
    by_cases hd : (c.done && ch.k i == 1) = true
    · apply Bool.or_eq_true_iff.2; left
      simp only [List.any_eq_true, List.mem_range]
      refine ⟨i, hi', ?_⟩
      simp only [Bool.and_eq_true] at hd
      simp [flushCtxErr, hk', hr, hd.1, hd.2]
    · apply Bool.or_eq_true_iff.2; right
      simp only [List.any_eq_true, List.mem_range]
      refine ⟨i, hi', ?_⟩
      simp only [Bool.not_eq_true] at hd
      simp [flushShutErr, hk', hr, hd]
  simp only [step, Spec.MP.resOK]
  generalize (List.range s.n).any (flushCtxErr c.done ch s.pool) = ce at h1 h3 ⊢
  generalize (List.range s.n).any (flushShutErr c.done ch s.pool) = se at h2 h3 ⊢
  generalize Spec.MP.hasPeriodic kinds = P at h1 h2 h3 ⊢
  generalize r.shut = sh at h2 h3 ⊢
  cases ce <;> cases se <;> cases P <;> cases sh <;> cases c <;> simp_all [Ctx.err, Ctx.done]


theorem step_inv {kinds s r} (op : Op) (h : Inv kinds s r) :
    Inv kinds (step s op).1 (Spec.MP.refStep r op (step s op).2) ∧
    Spec.MP.checkStep kinds r op (snapOf s) (snapOf (step s op).1) (step s op).2 = Spec.Fails.none := by
  have hn := h.n
  have hsh := h.shut
  have honce := h.once
  have hmt := h.mt
  have htot := h.tot
  cases op with
  | meter k =>
    have e1 : (Res.noop == Res.sdk) = false := by decide
    refine ⟨⟨hn, hsh, honce, ?_, htot, h.comp⟩, checkStep_of _ _ _ _ _ _ ?_ ?_ ?_⟩
    · simp only [step, Spec.MP.refStep]; rw [hmt]; cases s.stopped <;> simp [e1]
    · simp only [step, Spec.MP.resOK]; rw [hsh]; exact beq_self_eq_true _
    · simp only [step]; cases s.stopped <;> simp
    · intro i hi
      exact comp_id _ _ _ (h.comp i hi)
  | add k =>
    by_cases hc : s.meters k = some true
    · have hstep : step s (.add k) = ({ s with total := s.total + 1 }, .none) := by simp [step, hc]
      have href : Spec.MP.refStep r (.add k) .none = { r with total := r.total + 1 } := by
        simp [Spec.MP.refStep, ← hmt, hc]
      rw [hstep]; simp only; rw [href]
      refine ⟨⟨hn, hsh, honce, hmt, by simp [htot], h.comp⟩,
        checkStep_of _ _ _ _ _ _ (by simp [Spec.MP.resOK]) (by simp) ?_⟩
      intro i hi; rw [href]
      exact comp_id _ _ _ (h.comp i hi)
    · have hstep : step s (.add k) = (s, .none) := by
        cases hl : s.meters k with
        | none => simp [step, hl]
        | some b => cases b <;> simp_all [step]
      have href : Spec.MP.refStep r (.add k) .none = r := by
        simp only [Spec.MP.refStep, ← hmt]
        cases hl : s.meters k with
        | none => simp
        | some b => cases b <;> simp_all
      rw [hstep]; simp only; rw [href]
      refine ⟨h, checkStep_of _ _ _ _ _ _ (by simp [Spec.MP.resOK]) (by simp) ?_⟩
      intro i hi; rw [href]
      exact comp_id _ _ _ (h.comp i hi)
  | collect i =>
    have hst : (step s (.collect i)).1 = s := by
      simp only [step]; repeat' split
      all_goals rfl
    rw [hst]
    refine ⟨h, checkStep_of _ _ _ _ _ _ ?_ ?_ ?_⟩
    · simp only [step, Spec.MP.resOK, ← hn]
      by_cases hi : i < s.n
      · have hr := (h.comp i (hn ▸ hi)).2.1
        simp only [hi, ↓reduceIte, hr, htot]
        cases r.shut <;> simp
      · simp [hi]
    · simp only [step]; repeat' split
      all_goals simp
    · intro j hj
      exact comp_id _ _ _ (h.comp j hj)
  | flush c ch =>
    have hpool : ∀ i, i < kinds.length →
        (step s (.flush c ch)).1.pool i = readerFlush c.done (ch.k i) (s.pool i) := by
      intro i hi; simp [step, forAll, hn, hi]
    have hcomp : ∀ i, i < kinds.length → _ := fun i hi => comp_flush _ _ _ c.done (ch.k i) (h.comp i hi)
    obtain ⟨hr1, hr2⟩ := flush_resOK h c ch
    refine ⟨⟨hn, hsh, honce, hmt, htot, ?_⟩, checkStep_of _ _ _ _ _ _ hr1 hr2 ?_⟩
    · intro i hi; rw [hpool i hi]; exact (hcomp i hi).1
    · intro i hi
      simp only [snapOf, hpool i hi, flushLive, flushDone, isSd, Spec.MP.refStep]
      exact (hcomp i hi).2
  | shutdown c =>
    cases hst : s.once with
    | true =>
      have hrs : r.shut = true := by rw [← honce]; exact hst
      have hstop : s.stopped = true := by rw [hsh]; exact hrs
      have hstep : step s (.shutdown c) = (s, .err false false true) := by
        simp only [step, hst, ↓reduceIte]
        congr 1
        cases s; simp_all
      rw [hstep]
      refine ⟨⟨hn, by simp [Spec.MP.refStep, hstop], by simp [Spec.MP.refStep, hst], hmt, htot, ?_⟩,
        checkStep_of _ _ _ _ _ _ (by simp [Spec.MP.resOK, hrs]) (by simp) ?_⟩
      · intro i hi; simp only [Spec.MP.refStep]; exact (hrs ▸ h.comp i hi)
      · intro i hi
        simp only [flushLive, flushDone, isSd, hrs, Spec.MP.refStep, Bool.not_true]
        exact comp_id _ _ _ (hrs ▸ h.comp i hi)
    | false =>
      have hrs : r.shut = false := by rw [← honce]; exact hst
      have hstep : step s (.shutdown c) =
          ({ s with stopped := true, once := true, pool := forAll s.n s.pool fun _ => readerShutdown }, .ok) := by
        simp [step, hst]
      rw [hstep]; simp only
      have hcomp : ∀ i, i < kinds.length → _ := fun i hi => comp_shutdown _ _ (hrs ▸ h.comp i hi)
      have hpool : ∀ i, i < kinds.length →
          forAll s.n s.pool (fun _ => readerShutdown) i = readerShutdown (s.pool i) := by
        intro i hi; simp [forAll, hn, hi]
      refine ⟨⟨hn, by simp [Spec.MP.refStep], by simp [Spec.MP.refStep], hmt, htot, ?_⟩,
        checkStep_of _ _ _ _ _ _ (by simp [Spec.MP.resOK, hrs]) (by simp) ?_⟩
      · intro i hi; simp only [hpool i hi, Spec.MP.refStep]; exact (hcomp i hi).1
      · intro i hi
        simp only [snapOf, hpool i hi, flushLive, flushDone, isSd, hrs, Spec.MP.refStep, Bool.not_false]
        exact (hcomp i hi).2

theorem none_or_none : Spec.Fails.none.or Spec.Fails.none = Spec.Fails.none := by decide

theorem checkFrom_none {kinds} (ops : List Op) : ∀ (s : St) (r : Spec.MP.Ref), Inv kinds s r →
    Spec.MP.checkFrom kinds r (snapOf s) ops (runFrom s ops) = Spec.Fails.none := by
  induction ops with
  | nil => intro s r _; rfl
  | cons op rest ih =>
    intro s r h
    obtain ⟨h1, h2⟩ := step_inv op h
    have := ih (step s op).1 _ h1
    show (Spec.MP.checkStep kinds r op (snapOf s) (snapOf (step s op).1) (step s op).2).or
      (Spec.MP.checkFrom kinds (Spec.MP.refStep r op (step s op).2) (snapOf (step s op).1) rest
        (runFrom (step s op).1 rest)) = Spec.Fails.none
    rw [h2, this]; exact none_or_none

theorem runFrom_length (s : St) (ops : List Op) : (runFrom s ops).length = ops.length := by
  induction ops generalizing s with
  | nil => rfl
  | cons op rest ih => simp [runFrom, ih]

theorem inv_init (kinds : List RKind) : Inv kinds (init kinds) {} := by
  refine ⟨rfl, rfl, rfl, rfl, rfl, ?_⟩
  intro i _
  simp only [CompInv, init]
  cases kindOf kinds i <;> simp


/-! ### Direct (reference-free) form of "silent after Shutdown" -/

def finalFrom (s : St) : List Op → St
  | [] => s
  | op :: r => finalFrom (step s op).1 r

theorem runFrom_append (s : St) (a b : List Op) :
    runFrom s (a ++ b) = runFrom s a ++ runFrom (finalFrom s a) b := by
  induction a generalizing s with
  | nil => rfl
  | cons op rest ih => simp [runFrom, finalFrom, ih]

/-- once `unifyShutdown`'s Once has run, the provider is stopped and every reader has been shut down -/
def Sealed (s : St) : Prop := s.stopped = true ∧ ∀ i, i < s.n → (s.pool i).rshut = true

/-- invariant of every reachable state -/
def Inv0 (s : St) : Prop := s.once = true → Sealed s

theorem readerFlush_shut (d : Bool) (k : Nat) (p : RS) (h : p.rshut = true) : readerFlush d k p = p := by
  obtain ⟨kind, c, rs⟩ := p
  simp only at h; subst h
  cases kind <;> simp [readerFlush]

theorem readerShutdown_shut (p : RS) (h : p.rshut = true) : readerShutdown p = p := by
  simp [readerShutdown, h]

theorem readerShutdown_rshut (p : RS) : (readerShutdown p).rshut = true := by
  obtain ⟨kind, c, rs⟩ := p
  cases rs <;> cases kind <;> simp [readerShutdown]

theorem readerFlush_rshut (d : Bool) (k : Nat) (p : RS) : (readerFlush d k p).rshut = p.rshut := by
  obtain ⟨kind, c, rs⟩ := p
  cases rs <;> cases kind <;> cases d <;> simp [readerFlush]

theorem step_n (s : St) (op : Op) : (step s op).1.n = s.n := by
  cases op <;> simp only [step] <;> repeat' split
  all_goals rfl

theorem inv0_step (s : St) (op : Op) (h : Inv0 s) : Inv0 (step s op).1 := by
  cases op with
  | meter k => exact h
  | add k => simp only [step]; repeat' split
             all_goals exact h
  | collect i => simp only [step]; repeat' split
                 all_goals exact h
  | flush c ch =>
    intro ho
    obtain ⟨h1, h2⟩ := h ho
    refine ⟨h1, ?_⟩
    intro i hi
    have hi' : i < s.n := hi
    simp only [step, forAll, hi', ↓reduceIte, readerFlush_rshut]
    exact h2 i hi'
  | shutdown c =>
    intro _
    cases ho : s.once with
    | true =>
      obtain ⟨_, h2⟩ := h ho
      simp only [step, ho, ↓reduceIte]
      exact ⟨rfl, h2⟩
    | false =>
      have hstep : step s (.shutdown c) =
          ({ s with stopped := true, once := true, pool := forAll s.n s.pool fun _ => readerShutdown }, .ok) := by
        simp [step, ho]
      rw [hstep]
      refine ⟨rfl, ?_⟩
      intro i hi
      have hi' : i < s.n := hi
      simp only [forAll, hi', ↓reduceIte, readerShutdown_rshut]

theorem inv0_final (ops : List Op) : ∀ s, Inv0 s → Inv0 (finalFrom s ops) := by
  induction ops with
  | nil => intro s h; exact h
  | cons op rest ih => intro s h; exact ih _ (inv0_step s op h)

theorem inv0_init (kinds : List RKind) : Inv0 (init kinds) := by
  intro h; simp [init] at h

theorem shutdown_once_set (s : St) (c : Ctx) : (step s (.shutdown c)).1.once = true := by
  simp only [step]; split <;> first | assumption | rfl

/-- what Meter / Add / Collect / Shutdown answer once Shutdown has been called (`none` = ForceFlush, whose
result depends on the readers and the races: see `Spec.MP.resOK`) -/
def resAfter (n : Nat) : Op → Option Res
  | .meter _ => some .noop
  | .add _ => some .none
  | .collect i => some (if i < n then .err false false true else .none)
  | .shutdown _ => some (.err false false true)
  | .flush _ _ => none

theorem sealed_step (s : St) (ho : s.once = true) (hs : Sealed s) (op : Op) :
    (step s op).1.pool = s.pool ∧ (step s op).1.once = true ∧ Sealed (step s op).1 ∧
      ∀ res, resAfter s.n op = some res → (step s op).2 = res := by
  obtain ⟨h1, h2⟩ := hs
  cases op with
  | meter k => exact ⟨rfl, ho, ⟨h1, h2⟩, by simp [step, resAfter, h1]⟩
  | add k =>
    simp only [step, resAfter]
    cases s.meters k with
    | none => exact ⟨rfl, ho, ⟨h1, h2⟩, by simp⟩
    | some b => cases b <;> exact ⟨rfl, ho, ⟨h1, h2⟩, by simp⟩
  | collect i =>
    by_cases hi : i < s.n
    · have hstep : step s (.collect i) = (s, .err false false true) := by simp [step, hi, h2 i hi]
      rw [hstep]
      exact ⟨rfl, ho, ⟨h1, h2⟩, by simp [resAfter, hi]⟩
    · have hstep : step s (.collect i) = (s, .none) := by simp [step, hi]
      rw [hstep]
      exact ⟨rfl, ho, ⟨h1, h2⟩, by simp [resAfter, hi]⟩
  | flush c ch =>
    have hp : forAll s.n s.pool (fun i => readerFlush c.done (ch.k i)) = s.pool := by
      funext i
      simp only [forAll]
      split
      · rename_i hi; exact readerFlush_shut _ _ _ (h2 i hi)
      · rfl
    refine ⟨by simp only [step]; exact hp, ho, ⟨h1, ?_⟩, by simp [resAfter]⟩
    intro i hi
    have : (step s (.flush c ch)).1.pool = s.pool := by simp only [step]; exact hp
    rw [this]; exact h2 i hi
  | shutdown c =>
    have hstep : step s (.shutdown c) = (s, .err false false true) := by
      simp only [step, ho, ↓reduceIte]
      congr 1
      cases s; simp_all
    rw [hstep]
    exact ⟨rfl, ho, ⟨h1, h2⟩, by simp [resAfter]⟩

theorem sealed_run (ops : List Op) : ∀ (s : St), s.once = true → Sealed s →
    (∀ o ∈ runFrom s ops, o.snap = snapOf s) ∧
    ∀ p ∈ ops.zip (runFrom s ops), ∀ res, resAfter s.n p.1 = some res → p.2.res = res := by
  induction ops with
  | nil => intro s _ _; simp [runFrom]
  | cons op rest ih =>
    intro s ho hs
    obtain ⟨h1, h2, h3, h4⟩ := sealed_step s ho hs op
    obtain ⟨i1, i2⟩ := ih (step s op).1 h2 h3
    have hsn : snapOf (step s op).1 = snapOf s := by unfold snapOf; rw [h1]
    refine ⟨?_, ?_⟩
    · intro o hmem
      simp only [runFrom, List.mem_cons] at hmem
      rcases hmem with rfl | hmem
      · exact hsn
      · rw [i1 o hmem, hsn]
    · intro p hp res hr
      simp only [runFrom, List.zip_cons_cons, List.mem_cons] at hp
      rcases hp with rfl | hp
      · exact h4 res hr
      · rw [step_n] at i2; exact i2 p hp res hr

end Otel.C15.LemmasMP
