import Otel.C15.Tick
/-
C15 — the periodic reader's run loop has exited before the exporter is shut down, whatever the caller's context
(clauses "nothing more is exported" after Shutdown has returned / "each … exporter is shut down exactly once", for a
timer-tick collection that is in flight when Shutdown is called — also with an already-done context).
-/
namespace Otel.C15.Tick

/-- the exporter's Shutdown is only ever called after the run loop has exited — for a live and for a done context -/
theorem run_loop_exited_before_exporter_shutdown {c : Bool} {s : St} (hr : Reach c s) (h : 0 < s.expShut) :
    s.loop = .exited := by
  have I := inv_reach hr
  have hs := I.shut
  by_cases hc : s.sd = .expShut ∨ s.sd = .returned
  · rcases hc with hc | hc
    · exact I.past (Or.inr (Or.inr (Or.inl hc)))
    · exact I.past (Or.inr (Or.inr (Or.inr hc)))
  · simp [hc] at hs; omega

/-- no Export call ever follows the exporter's Shutdown, the exporter is shut down at most once, and Shutdown never
returns while a tick's collection is still in flight -/
theorem no_export_after_exporter_shutdown {c : Bool} {s : St} (hr : Reach c s) :
    s.exportsAfterShut = 0 ∧ s.expShut ≤ 1 ∧ s.returnedWhileCollecting = false := by
  have I := inv_reach hr
  refine ⟨I.after, ?_, I.early⟩
  rw [I.shut]; split <;> simp

/-- once Shutdown has returned: exactly one exporter Shutdown, the loop is gone, and no tick can start any more -/
theorem after_shutdown_returned {c : Bool} {s : St} (hr : Reach c s) (h : s.sd = .returned) :
    s.expShut = 1 ∧ s.loop = .exited ∧ step c s .tick = none ∧ step c s .tickDone = none := by
  have I := inv_reach hr
  have hl := I.past (Or.inr (Or.inr (Or.inr h)))
  refine ⟨by rw [I.shut]; simp [h], hl, by simp [step, hl], by simp [step, hl]⟩

/-- `<-r.done` does not read the caller's context: a parked collection blocks Shutdown for a done context too -/
theorem shutdown_waits_for_loop_whatever_the_context (c : Bool) {s : St} (hl : s.loop ≠ .exited) :
    step c s .sdWait = none := by
  simp [step, hl]

/-- non-vacuity: the harness's forced schedule, with a cancelled and with a live context -/
example : ((run true {} forced).map fun s => (s.exportsAfterShut, s.expShut, s.returnedWhileCollecting, s.exports))
    = some (0, 1, false, 1) := by decide
example : ((run false {} forced).map fun s => (s.exportsAfterShut, s.expShut, s.returnedWhileCollecting, s.exports))
    = some (0, 1, false, 2) := by decide
/-- … and Shutdown cannot overtake the parked collection -/
example : (run true {} [.tick, .sdCancel, .sdWait]).isNone = true := by decide

end Otel.C15.Tick
