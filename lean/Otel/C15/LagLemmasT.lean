import Otel.C15.Model
import Otel.C15.Spec
import Otel.C15.Lemmas
import Otel.C15.Lag
namespace Otel.C15.LagLemmasT
open Otel.C15 Otel.C15.TP Otel.C15.Lag Otel.C15.Lag.T Otel.C15.Lemmas

theorem compInvR_kind (kd : PKind) (p : PS) (dead raced : Bool) (deliv : Nat)
    (h : CompInvR kd p dead raced deliv) : p.kind = kd := by
  cases kd <;> cases raced <;> simp_all [CompInvR, CompInv, Raced]

structure TInv (kinds : List PKind) (g : TSt) (r : Spec.TP.Ref) : Prop where
  inv : Inv kinds g.st r
  pend : ∀ i, g.pendS i ≠ 0 →
    isStock (kindOf kinds i) = true ∧ r.raced i = true ∧ (g.st.pool i).cnt.s + g.pendS i ≤ 1

theorem landProc_zero (p : PS) : landProc 0 0 p = p := by
  obtain ⟨kind, ⟨a, e, f, s, n⟩, st, q⟩ := p
  simp [landProc]

theorem any_count (l : List (Nat × Bool)) (i : Nat) (h : l.any (fun p => p.1 == i) = true) :
    (ids l).count i ≠ 0 := by
  simp only [List.any_eq_true, beq_iff_eq] at h
  obtain ⟨p, hp, rfl⟩ := h
  have : p.1 ∈ ids l := by simp only [ids, List.mem_map]; exact ⟨p, hp, rfl⟩
  exact Nat.pos_iff_ne_zero.mp (List.count_pos_iff.mpr this)

/-- the raced shutdown of a live stock processor: its exporter's Shutdown count afterwards -/
theorem raced_s (kd : PKind) (p : PS) (deliv k x m : Nat) (h : CompInv kd p false deliv) (hs : isStock kd = true)
    (hm : m ≠ 0) : (iter (procShutdownD k x) m p).cnt.s = min k 1 := by
  obtain ⟨kind, ⟨a, e, f, s, n⟩, st, q⟩ := p
  obtain ⟨hk, h⟩ := h
  simp only at hk; subst hk
  cases kind <;> simp_all [iter_shutdownD, CompInv, isStock]


theorem tstep_inv {kinds g r} (op : TOp) (h : TInv kinds g r) :
    TInv kinds (tstep g op).1 (tcheckStep kinds r op (snapOf g.st) (snapOf (tstep g op).1.st) (tstep g op).2).2 ∧
    (tcheckStep kinds r op (snapOf g.st) (snapOf (tstep g op).1.st) (tstep g op).2).1 = Spec.Fails.none := by
  cases op with
  | api o =>
    obtain ⟨h1, h2⟩ := Lemmas.step_inv o h.inv
    refine ⟨⟨h1, ?_⟩, h2⟩
    intro i hp
    obtain ⟨_, c2⟩ := step_comp o h.inv i
    have hraced : (Spec.TP.refStep r o (TP.step g.st o).2).raced i = (r.raced i || Spec.TP.racedNow r o i) := rfl
    show isStock (kindOf kinds i) = true ∧ (Spec.TP.refStep r o (TP.step g.st o).2).raced i = true ∧
      ((TP.step g.st o).1.pool i).cnt.s + (if racedHere g.st o i then 1 - min (chK o i) 1 else g.pendS i) ≤ 1
    change (if racedHere g.st o i then 1 - min (chK o i) 1 else g.pendS i) ≠ 0 at hp
    cases hrh : racedHere g.st o i with
    | true =>
      cases o with
      | shutdown c ch =>
        simp only [racedHere, Bool.and_eq_true, Bool.not_eq_true', Bool.or_eq_true, beq_iff_eq] at hrh
        obtain ⟨⟨⟨⟨hd, hns⟩, hany⟩, hnst⟩, hkd⟩ := hrh
        have hkind := compInvR_kind _ _ _ _ _ (h.inv.comp i)
        have hstock : isStock (kindOf kinds i) = true := by
          rw [← hkind]; rcases hkd with hkd | hkd <;> simp [isStock, hkd]
        have hrs : r.mem.shut = false := by rw [← h.inv.shut]; exact hns
        have hnr : r.raced i = false := by
          cases hr : r.raced i with
          | false => rfl
          | true => have := h.inv.racedshut i hr; rw [hrs] at this; cases this
        have hci := compInvR_elim _ _ _ _ _ (h.inv.comp i) (Or.inr hnr)
        have hdead : r.dead i = false := by
          have := hci.2
          cases hk : kindOf kinds i <;> simp only [hk] at this hstock <;> simp_all [isStock]
        have hm : r.mem.mult i ≠ 0 := by rw [← h.inv.mult i]; exact any_count _ _ hany
        have htrig : trigger r.mem (.shutdown c ch) = true := by simp [trigger, hrs, hd]
        refine ⟨hstock, ?_, ?_⟩
        · rw [hraced]; simp [Spec.TP.racedNow, hd, hm, hdead]
        · rw [step_pool_raced c ch h.inv htrig i, raced_s _ _ _ _ _ _ (hdead ▸ hci) hstock hm]
          simp only [↓reduceIte, chK]
          omega
      | _ => simp [racedHere] at hrh
    | false =>
      simp only [hrh, Bool.false_eq_true, ↓reduceIte] at hp ⊢
      obtain ⟨p1, p2, p3⟩ := h.pend i hp
      refine ⟨p1, by rw [hraced, p2]; rfl, ?_⟩
      have : ((TP.step g.st o).1.pool i).cnt.s = (g.st.pool i).cnt.s := by
        revert c2
        rw [p2]
        cases hk : kindOf kinds i <;> simp only [hk] at p1 <;> simp_all [StepOKR, isStock]
      rw [this]; exact p3
  | land ln ls =>
    -- facts about what can arrive at component i
    have hS : ∀ i, landS g ls i ≠ 0 → g.pendS i ≠ 0 := by
      intro i hne hz; apply hne; simp [landS, hz]
    have hSle : ∀ i, landS g ls i ≤ g.pendS i := fun i => Nat.min_le_right _ _
    have hraced : ∀ i, (landN g ln i ≠ 0 ∨ landS g ls i ≠ 0) →
        isStock (kindOf kinds i) = true ∧ r.raced i = true := by
      intro i hne
      rcases hne with hne | hne
      · have hkind := compInvR_kind _ _ _ _ _ (h.inv.comp i)
        simp only [landN] at hne
        split at hne
        · rename_i hc
          simp only [Bool.and_eq_true, beq_iff_eq] at hc
          have hq : (g.st.pool i).queued ≠ 0 := by intro hz; apply hne; simp [hz]
          have hk : kindOf kinds i = .batchRec := by rw [← hkind]; exact hc.1
          refine ⟨by simp [isStock, hk], ?_⟩
          cases hr : r.raced i with
          | true => rfl
          | false =>
            have hci := compInvR_elim _ _ _ _ _ (h.inv.comp i) (Or.inr hr)
            rw [hk] at hci
            obtain ⟨_, hst, _, _, hdq, _⟩ := hci
            have : r.dead i = true := by rw [← hst]; exact hc.2
            exact absurd (hdq this) hq
        · exact absurd rfl hne
      · obtain ⟨p1, p2, _⟩ := h.pend i (hS i hne); exact ⟨p1, p2⟩
    have hNle : ∀ i, landN g ln i ≤ (g.st.pool i).queued := by
      intro i; simp only [landN]; split
      · exact Nat.min_le_right _ _
      · exact Nat.zero_le _
    have hNk : ∀ i, landN g ln i ≠ 0 → kindOf kinds i = .batchRec := by
      intro i hne
      have hkind := compInvR_kind _ _ _ _ _ (h.inv.comp i)
      simp only [landN] at hne
      split at hne
      · rename_i hc; simp only [Bool.and_eq_true, beq_iff_eq] at hc; rw [← hkind]; exact hc.1
      · exact absurd rfl hne
    simp only [tstep, tcheckStep]
    refine ⟨⟨⟨h.inv.shut, h.inv.mult, h.inv.tot, h.inv.fresh, h.inv.tr, h.inv.sp, ?_, h.inv.shutnil,
      h.inv.racedshut⟩, ?_⟩, ?_⟩
    · -- component invariant
      intro i
      show CompInvR (kindOf kinds i) (landProc (landN g ln i) (landS g ls i) (g.st.pool i)) (r.dead i) (r.raced i)
        (r.deliv i)
      by_cases hz : landN g ln i = 0 ∧ landS g ls i = 0
      · rw [hz.1, hz.2, landProc_zero]; exact h.inv.comp i
      · have hne : landN g ln i ≠ 0 ∨ landS g ls i ≠ 0 := by
          by_cases h1 : landN g ln i = 0
          · exact Or.inr (fun h2 => hz ⟨h1, h2⟩)
          · exact Or.inl h1
        obtain ⟨hst, hrc⟩ := hraced i hne
        have hc := h.inv.comp i
        rw [hrc, compInvR_raced _ _ _ _ hst] at hc ⊢
        refine ⟨hc.1, ?_⟩
        obtain ⟨hk, hstp, hf, hs, hn⟩ := hc.2
        have hs' : (g.st.pool i).cnt.s + landS g ls i ≤ 1 := by
          by_cases h2 : landS g ls i = 0
          · rw [h2]; exact hs
          · obtain ⟨_, _, p3⟩ := h.pend i (hS i h2); have := hSle i; omega
        refine ⟨hk, hstp, hf, hs', ?_⟩
        have hle := hNle i
        cases hkd : kindOf kinds i
        case simpleRec =>
          have h0 : landN g ln i = 0 := by
            by_cases h1 : landN g ln i = 0
            · exact h1
            · have := hNk i h1; rw [hkd] at this; cases this
          simp [hkd] at hn
          simp [landProc, h0, hn]
        case batchRec =>
          simp [hkd] at hn
          simp only [landProc]
          omega
        all_goals (rw [hkd] at hst; simp [isStock] at hst)
    · -- pending exporter shutdowns
      intro i hp
      show isStock (kindOf kinds i) = true ∧ r.raced i = true ∧
        (landProc (landN g ln i) (landS g ls i) (g.st.pool i)).cnt.s + (g.pendS i - landS g ls i) ≤ 1
      change g.pendS i - landS g ls i ≠ 0 at hp
      have hp0 : g.pendS i ≠ 0 := by intro hz; apply hp; simp [hz]
      obtain ⟨p1, p2, p3⟩ := h.pend i hp0
      refine ⟨p1, p2, ?_⟩
      have := hSle i
      simp only [landProc]
      omega
    · -- the oracle
      simp only [Spec.Fails.none, Spec.Fails.mk.injEq, Bool.not_eq_false', Spec.allBelow, List.all_eq_true,
        Bool.and_eq_true, List.mem_range]
      refine ⟨?_, ?_, ⟨by decide, ?_⟩, by decide⟩
      · intro i _
        refine ⟨⟨by simp [snapOf, landProc], by simp [snapOf, landProc]⟩, ?_⟩
        have hc := h.inv.comp i
        have hle := hNle i
        cases hkd : kindOf kinds i <;> simp only [snapOf, landProc]
        case batchRec =>
          cases hrc : r.raced i with
          | true =>
            rw [hrc, compInvR_raced _ _ _ _ (by simp [isStock, hkd])] at hc
            obtain ⟨_, _, _, _, _, hn⟩ := hc
            simp [hkd] at hn
            simp only [↓reduceIte, Bool.and_eq_true, decide_eq_true_eq]
            exact ⟨decide_eq_true (by omega), decide_eq_true (by omega)⟩
          | false =>
            have : landN g ln i = 0 := by
              cases Nat.eq_zero_or_pos (landN g ln i) with
              | inl h0 => exact h0
              | inr hpos => have := (hraced i (Or.inl (by omega))).2; rw [hrc] at this; cases this
            simp [this]
        all_goals
          have : landN g ln i = 0 := by
            cases Nat.eq_zero_or_pos (landN g ln i) with
            | inl h0 => exact h0
            | inr hpos => have := hNk i (by omega); rw [hkd] at this; cases this
          simp [this]
      · intro i _
        have hle := hSle i
        cases hkd : kindOf kinds i <;> simp only [snapOf, landProc]
        case simpleRec | batchRec =>
          cases hrc : r.raced i with
          | true =>
            simp only [↓reduceIte]
            by_cases h2 : landS g ls i = 0
            · have hc := h.inv.comp i
              rw [hrc, compInvR_raced _ _ _ _ (by simp [isStock, hkd])] at hc
              obtain ⟨_, _, _, _, hs, _⟩ := hc
              simp [h2]; exact hs
            · obtain ⟨_, _, p3⟩ := h.pend i (hS i h2)
              simp only [Bool.and_eq_true, decide_eq_true_eq]
              exact ⟨decide_eq_true (by omega), decide_eq_true (by omega)⟩
          | false =>
            have : landS g ls i = 0 := by
              cases Nat.eq_zero_or_pos (landS g ls i) with
              | inl h0 => exact h0
              | inr hpos => have := (hraced i (Or.inr (by omega))).2; rw [hrc] at this; cases this
            simp [this]
        all_goals
          have : landS g ls i = 0 := by
            cases Nat.eq_zero_or_pos (landS g ls i) with
            | inl h0 => exact h0
            | inr hpos => have := (hraced i (Or.inr (by omega))).1; simp [isStock, hkd] at this
          simp [this]
      · intro i _
        simp [snapOf, landProc]

theorem tcheckFrom_none {kinds} (ops : List TOp) : ∀ (g : TSt) (r : Spec.TP.Ref), TInv kinds g r →
    tcheckFrom kinds r (snapOf g.st) ops (trunFrom g ops) = Spec.Fails.none := by
  induction ops with
  | nil => intro g r _; rfl
  | cons op rest ih =>
    intro g r h
    obtain ⟨h1, h2⟩ := tstep_inv op h
    show (tcheckStep kinds r op (snapOf g.st) (snapOf (tstep g op).1.st) (tstep g op).2).1.or
      (tcheckFrom kinds (tcheckStep kinds r op (snapOf g.st) (snapOf (tstep g op).1.st) (tstep g op).2).2
        (snapOf (tstep g op).1.st) rest (trunFrom (tstep g op).1 rest)) = Spec.Fails.none
    rw [h2, ih _ _ h1]; exact Lemmas.Fails.none_or_none

theorem trunFrom_length (g : TSt) (ops : List TOp) : (trunFrom g ops).length = ops.length := by
  induction ops generalizing g with
  | nil => rfl
  | cons op rest ih => simp [trunFrom, ih]

theorem tinv_init (kinds : List PKind) : TInv kinds { st := TP.init kinds } {} :=
  ⟨Lemmas.inv_init kinds, fun i hp => absurd rfl hp⟩

end Otel.C15.LagLemmasT
