import Otel.C15.Model
import Otel.C15.Spec
import Otel.C15.Lemmas
import Otel.C15.Lag
namespace Otel.C15.LagLemmasT
open Otel.C15 Otel.C15.TP Otel.C15.Lag Otel.C15.Lag.T Otel.C15.Lemmas

theorem compInvR_kind (kd : PKind) (p : PS) (dead raced : Bool) (deliv : Nat)
    (h : CompInvR kd p dead raced deliv) : p.kind = kd := by
  cases kd <;> cases raced <;> simp_all [CompInvR, CompInv, Raced]

structure TInv (kinds : List PKind) (g : TSt) (r : Spec.TP.Ref) : Prop where
  inv : Inv kinds g.st r
  pend : ∀ i, g.pendS i ≠ 0 →
    isStock (kindOf kinds i) = true ∧ r.raced i = true ∧ (g.st.pool i).cnt.s + g.pendS i ≤ 1
  sum : ∀ i, isStock (kindOf kinds i) = true → r.raced i = true → (g.st.pool i).cnt.s + g.pendS i = 1

theorem landProc_zero (p : PS) : landProc 0 0 p = p := by
  obtain ⟨kind, ⟨a, e, f, s, n⟩, st, q⟩ := p
  simp [landProc]

theorem any_count (l : List (Nat × Bool)) (i : Nat) (h : l.any (fun p => p.1 == i) = true) :
    (ids l).count i ≠ 0 := by
  simp only [List.any_eq_true, beq_iff_eq] at h
  obtain ⟨p, hp, rfl⟩ := h
  have : p.1 ∈ ids l := by simp only [ids, List.mem_map]; exact ⟨p, hp, rfl⟩
  exact Nat.pos_iff_ne_zero.mp (List.count_pos_iff.mpr this)

/-- the raced shutdown of a live stock processor: its exporter's Shutdown count afterwards -/
theorem raced_s (kd : PKind) (p : PS) (deliv k x m : Nat) (h : CompInv kd p false deliv) (hs : isStock kd = true)
    (hm : m ≠ 0) : (iter (procShutdownD k x) m p).cnt.s = min k 1 := by
  obtain ⟨kind, ⟨a, e, f, s, n⟩, st, q⟩ := p
  obtain ⟨hk, h⟩ := h
  simp only at hk; subst hk
  cases kind <;> simp_all [iter_shutdownD, CompInv, isStock]


theorem count_any (l : List (Nat × Bool)) (i : Nat) (h : (ids l).count i ≠ 0) :
    l.any (fun p => p.1 == i) = true := by
  have : i ∈ ids l := List.count_pos_iff.mp (Nat.pos_of_ne_zero h)
  simp only [ids, List.mem_map] at this
  obtain ⟨p, hp, rfl⟩ := this
  simp only [List.any_eq_true, beq_iff_eq]
  exact ⟨p, hp, rfl⟩

/-- a live stock processor raced by this provider Shutdown: what it has seen when the call returns -/
theorem raced_here {kinds g r} (o : TP.Op) (h : TInv kinds g r) (i : Nat) (hrh : racedHere g.st o i = true) :
    isStock (kindOf kinds i) = true ∧ (Spec.TP.refStep r o (TP.step g.st o).2).raced i = true ∧
    ((TP.step g.st o).1.pool i).cnt.s = min (chK o i) 1 := by
  cases o with
  | shutdown c ch =>
    simp only [racedHere, Bool.and_eq_true, Bool.not_eq_true', Bool.or_eq_true, beq_iff_eq] at hrh
    obtain ⟨⟨⟨⟨hd, hns⟩, hany⟩, hnst⟩, hkd⟩ := hrh
    have hkind := compInvR_kind _ _ _ _ _ (h.inv.comp i)
    have hstock : isStock (kindOf kinds i) = true := by
      rw [← hkind]; rcases hkd with hkd | hkd <;> simp [isStock, hkd]
    have hrs : r.mem.shut = false := by rw [← h.inv.shut]; exact hns
    have hnr : r.raced i = false := by
      cases hr : r.raced i with
      | false => rfl
      | true => have := h.inv.racedshut i hr; rw [hrs] at this; cases this
    have hci := compInvR_elim _ _ _ _ _ (h.inv.comp i) (Or.inr hnr)
    have hdead : r.dead i = false := by
      have := hci.2
      cases hk : kindOf kinds i <;> simp only [hk] at this hstock <;> simp_all [isStock]
    have hm : r.mem.mult i ≠ 0 := by rw [← h.inv.mult i]; exact any_count _ _ hany
    have htrig : trigger r.mem (.shutdown c ch) = true := by simp [trigger, hrs, hd]
    refine ⟨hstock, ?_, ?_⟩
    · show (r.raced i || Spec.TP.racedNow r (.shutdown c ch) i) = true
      simp [Spec.TP.racedNow, hd, hm, hdead]
    · rw [step_pool_raced c ch h.inv htrig i, raced_s _ _ _ _ _ _ (hdead ▸ hci) hstock hm]
      rfl
  | _ => simp [racedHere] at hrh

/-- a stock processor the reference marks as raced by this step is raced in the model too -/
theorem racedNow_here {kinds g r} (o : TP.Op) (h : TInv kinds g r) (i : Nat) (hst : isStock (kindOf kinds i) = true)
    (hnr : r.raced i = false) (hrn : Spec.TP.racedNow r o i = true) : racedHere g.st o i = true := by
  cases o with
  | shutdown c ch =>
    simp only [Spec.TP.racedNow, Bool.and_eq_true, bne_iff_ne, ne_eq, Bool.not_eq_true'] at hrn
    obtain ⟨⟨hd, hm⟩, hdead⟩ := hrn
    have hkind := compInvR_kind _ _ _ _ _ (h.inv.comp i)
    have hci := compInvR_elim _ _ _ _ _ (h.inv.comp i) (Or.inr hnr)
    have hcnt : (ids g.st.procs).count i ≠ 0 := by rw [h.inv.mult i]; exact hm
    have hns : g.st.isShutdown = false := by
      cases hs : g.st.isShutdown with
      | false => rfl
      | true =>
        have := h.inv.shutnil (by rw [← h.inv.shut]; exact hs)
        rw [this] at hcnt; simp [ids] at hcnt
    have hstop : (g.st.pool i).stopped = false := by
      have := hci.2
      cases hk : kindOf kinds i <;> simp only [hk] at this hst <;> simp_all [isStock]
    have hk2 : (g.st.pool i).kind = .simpleRec ∨ (g.st.pool i).kind = .batchRec := by
      rw [hkind]; cases hk : kindOf kinds i <;> simp_all [isStock]
    simp only [racedHere, Bool.and_eq_true, Bool.not_eq_true', Bool.or_eq_true, beq_iff_eq]
    exact ⟨⟨⟨⟨hd, hns⟩, count_any _ _ hcnt⟩, hstop⟩, hk2⟩
  | _ => simp [Spec.TP.racedNow] at hrn

theorem api_inv {kinds g r} (o : TP.Op) (h : TInv kinds g r) :
    TInv kinds (tstep g (.api o)).1 (Spec.TP.refStep r o (TP.step g.st o).2) ∧
    Spec.TP.checkStep kinds r o (snapOf g.st) (snapOf (TP.step g.st o).1) (TP.step g.st o).2 = Spec.Fails.none := by
  obtain ⟨h1, h2⟩ := Lemmas.step_inv o h.inv
  have hraced : ∀ i, (Spec.TP.refStep r o (TP.step g.st o).2).raced i = (r.raced i || Spec.TP.racedNow r o i) :=
    fun _ => rfl
  -- a processor raced before keeps its exporter-shutdown count
  have hkeep : ∀ i, isStock (kindOf kinds i) = true → r.raced i = true →
      ((TP.step g.st o).1.pool i).cnt.s = (g.st.pool i).cnt.s := by
    intro i p1 p2
    obtain ⟨_, c2⟩ := step_comp o h.inv i
    revert c2
    rw [p2]
    cases hk : kindOf kinds i <;> simp only [hk] at p1 <;> simp_all [StepOKR, isStock]
  refine ⟨⟨h1, ?_, ?_⟩, h2⟩
  · intro i hp
    show isStock (kindOf kinds i) = true ∧ (Spec.TP.refStep r o (TP.step g.st o).2).raced i = true ∧
      ((TP.step g.st o).1.pool i).cnt.s + (if racedHere g.st o i then 1 - min (chK o i) 1 else g.pendS i) ≤ 1
    change (if racedHere g.st o i then 1 - min (chK o i) 1 else g.pendS i) ≠ 0 at hp
    cases hrh : racedHere g.st o i with
    | true =>
      obtain ⟨q1, q2, q3⟩ := raced_here o h i hrh
      refine ⟨q1, q2, ?_⟩
      rw [q3]; simp only [↓reduceIte]; omega
    | false =>
      simp only [hrh, Bool.false_eq_true, ↓reduceIte] at hp ⊢
      obtain ⟨p1, p2, p3⟩ := h.pend i hp
      refine ⟨p1, by rw [hraced, p2]; rfl, ?_⟩
      rw [hkeep i p1 p2]; exact p3
  · intro i hst hrc
    show ((TP.step g.st o).1.pool i).cnt.s + (if racedHere g.st o i then 1 - min (chK o i) 1 else g.pendS i) = 1
    cases hrh : racedHere g.st o i with
    | true =>
      obtain ⟨_, _, q3⟩ := raced_here o h i hrh
      rw [q3]; simp only [↓reduceIte]; omega
    | false =>
      simp only [Bool.false_eq_true, ↓reduceIte]
      have hrb : r.raced i = true := by
        cases hr : r.raced i with
        | true => rfl
        | false =>
          rw [hraced, hr, Bool.false_or] at hrc
          have := racedNow_here o h i hst hr hrc
          rw [hrh] at this; cases this
      rw [hkeep i hst hrb]; exact h.sum i hst hrb

theorem land_inv {kinds g r} (ln ls : Nat → Nat) (h : TInv kinds g r) :
    TInv kinds (landStep g ln ls) r ∧
    (tcheckStep kinds r (.land ln ls) (snapOf g.st) (snapOf (landStep g ln ls).st) .none).1 = Spec.Fails.none := by
  -- facts about what can arrive at component i
  have hS : ∀ i, landS g ls i ≠ 0 → g.pendS i ≠ 0 := by
    intro i hne hz; apply hne; simp [landS, hz]
  have hSle : ∀ i, landS g ls i ≤ g.pendS i := fun i => Nat.min_le_right _ _
  have hraced : ∀ i, (landN g ln i ≠ 0 ∨ landS g ls i ≠ 0) →
      isStock (kindOf kinds i) = true ∧ r.raced i = true := by
    intro i hne
    rcases hne with hne | hne
    · have hkind := compInvR_kind _ _ _ _ _ (h.inv.comp i)
      simp only [landN] at hne
      split at hne
      · rename_i hc
        simp only [Bool.and_eq_true, beq_iff_eq] at hc
        have hq : (g.st.pool i).queued ≠ 0 := by intro hz; apply hne; simp [hz]
        have hk : kindOf kinds i = .batchRec := by rw [← hkind]; exact hc.1
        refine ⟨by simp [isStock, hk], ?_⟩
        cases hr : r.raced i with
        | true => rfl
        | false =>
          have hci := compInvR_elim _ _ _ _ _ (h.inv.comp i) (Or.inr hr)
          rw [hk] at hci
          obtain ⟨_, hst, _, _, hdq, _⟩ := hci
          have : r.dead i = true := by rw [← hst]; exact hc.2
          exact absurd (hdq this) hq
      · exact absurd rfl hne
    · obtain ⟨p1, p2, _⟩ := h.pend i (hS i hne); exact ⟨p1, p2⟩
  have hNle : ∀ i, landN g ln i ≤ (g.st.pool i).queued := by
    intro i; simp only [landN]; split
    · exact Nat.min_le_right _ _
    · exact Nat.zero_le _
  have hNk : ∀ i, landN g ln i ≠ 0 → kindOf kinds i = .batchRec := by
    intro i hne
    have hkind := compInvR_kind _ _ _ _ _ (h.inv.comp i)
    simp only [landN] at hne
    split at hne
    · rename_i hc; simp only [Bool.and_eq_true, beq_iff_eq] at hc; rw [← hkind]; exact hc.1
    · exact absurd rfl hne
  simp only [tcheckStep, landStep]
  refine ⟨⟨⟨h.inv.shut, h.inv.mult, h.inv.tot, h.inv.fresh, h.inv.tr, h.inv.sp, ?_, h.inv.shutnil,
    h.inv.racedshut⟩, ?_, ?_⟩, ?_⟩
  · -- component invariant
    intro i
    show CompInvR (kindOf kinds i) (landProc (landN g ln i) (landS g ls i) (g.st.pool i)) (r.dead i) (r.raced i)
      (r.deliv i)
    by_cases hz : landN g ln i = 0 ∧ landS g ls i = 0
    · rw [hz.1, hz.2, landProc_zero]; exact h.inv.comp i
    · have hne : landN g ln i ≠ 0 ∨ landS g ls i ≠ 0 := by
        by_cases h1 : landN g ln i = 0
        · exact Or.inr (fun h2 => hz ⟨h1, h2⟩)
        · exact Or.inl h1
      obtain ⟨hst, hrc⟩ := hraced i hne
      have hc := h.inv.comp i
      rw [hrc, compInvR_raced _ _ _ _ hst] at hc ⊢
      refine ⟨hc.1, ?_⟩
      obtain ⟨hk, hstp, hf, hs, hn⟩ := hc.2
      have hs' : (g.st.pool i).cnt.s + landS g ls i ≤ 1 := by
        by_cases h2 : landS g ls i = 0
        · rw [h2]; exact hs
        · obtain ⟨_, _, p3⟩ := h.pend i (hS i h2); have := hSle i; omega
      refine ⟨hk, hstp, hf, hs', ?_⟩
      have hle := hNle i
      cases hkd : kindOf kinds i
      case simpleRec =>
        have h0 : landN g ln i = 0 := by
          by_cases h1 : landN g ln i = 0
          · exact h1
          · have := hNk i h1; rw [hkd] at this; cases this
        simp [hkd] at hn
        simp [landProc, h0, hn]
      case batchRec =>
        simp [hkd] at hn
        simp only [landProc]
        omega
      all_goals (rw [hkd] at hst; simp [isStock] at hst)
  · -- pending exporter shutdowns
    intro i hp
    show isStock (kindOf kinds i) = true ∧ r.raced i = true ∧
      (landProc (landN g ln i) (landS g ls i) (g.st.pool i)).cnt.s + (g.pendS i - landS g ls i) ≤ 1
    change g.pendS i - landS g ls i ≠ 0 at hp
    have hp0 : g.pendS i ≠ 0 := by intro hz; apply hp; simp [hz]
    obtain ⟨p1, p2, p3⟩ := h.pend i hp0
    refine ⟨p1, p2, ?_⟩
    have := hSle i
    simp only [landProc]
    omega
  · -- exporter shutdown seen + outstanding = 1 for raced processors
    intro i hst hrc
    show (landProc (landN g ln i) (landS g ls i) (g.st.pool i)).cnt.s + (g.pendS i - landS g ls i) = 1
    have := h.sum i hst hrc
    have := hSle i
    simp only [landProc]
    omega
  · -- the oracle
    simp only [Spec.Fails.none, Spec.Fails.mk.injEq, Bool.not_eq_false', Spec.allBelow, List.all_eq_true,
      Bool.and_eq_true, List.mem_range]
    refine ⟨?_, ?_, ⟨by decide, ?_⟩, by decide⟩
    · intro i _
      refine ⟨⟨by simp [snapOf, landProc], by simp [snapOf, landProc]⟩, ?_⟩
      have hc := h.inv.comp i
      have hle := hNle i
      cases hkd : kindOf kinds i <;> simp only [snapOf, landProc]
      case batchRec =>
        cases hrc : r.raced i with
        | true =>
          rw [hrc, compInvR_raced _ _ _ _ (by simp [isStock, hkd])] at hc
          obtain ⟨_, _, _, _, _, hn⟩ := hc
          simp [hkd] at hn
          simp only [↓reduceIte, Bool.and_eq_true, decide_eq_true_eq]
          exact ⟨decide_eq_true (by omega), decide_eq_true (by omega)⟩
        | false =>
          have : landN g ln i = 0 := by
            cases Nat.eq_zero_or_pos (landN g ln i) with
            | inl h0 => exact h0
            | inr hpos => have := (hraced i (Or.inl (by omega))).2; rw [hrc] at this; cases this
          simp [this]
      all_goals
        have : landN g ln i = 0 := by
          cases Nat.eq_zero_or_pos (landN g ln i) with
          | inl h0 => exact h0
          | inr hpos => have := hNk i (by omega); rw [hkd] at this; cases this
        simp [this]
    · intro i _
      have hle := hSle i
      cases hkd : kindOf kinds i <;> simp only [snapOf, landProc]
      case simpleRec | batchRec =>
        cases hrc : r.raced i with
        | true =>
          simp only [↓reduceIte]
          by_cases h2 : landS g ls i = 0
          · have hc := h.inv.comp i
            rw [hrc, compInvR_raced _ _ _ _ (by simp [isStock, hkd])] at hc
            obtain ⟨_, _, _, _, hs, _⟩ := hc
            simp [h2]; exact hs
          · obtain ⟨_, _, p3⟩ := h.pend i (hS i h2)
            simp only [Bool.and_eq_true, decide_eq_true_eq]
            exact ⟨decide_eq_true (by omega), decide_eq_true (by omega)⟩
        | false =>
          have : landS g ls i = 0 := by
            cases Nat.eq_zero_or_pos (landS g ls i) with
            | inl h0 => exact h0
            | inr hpos => have := (hraced i (Or.inr (by omega))).2; rw [hrc] at this; cases this
          simp [this]
      all_goals
        have : landS g ls i = 0 := by
          cases Nat.eq_zero_or_pos (landS g ls i) with
          | inl h0 => exact h0
          | inr hpos => have := (hraced i (Or.inr (by omega))).1; simp [isStock, hkd] at this
        simp [this]
    · intro i _
      simp [snapOf, landProc]


/-- the settle step: the state is that of a `land` of everything outstanding; the exactly-once equalities hold -/
theorem settle_inv {kinds g r} (h : TInv kinds g r) :
    TInv kinds (tstep g .settle).1 r ∧
    (tcheckStep kinds r .settle (snapOf g.st) (snapOf (tstep g .settle).1.st) (tstep g .settle).2).1 =
      Spec.Fails.none := by
  obtain ⟨h1, _⟩ := land_inv (fun i => (g.st.pool i).queued) g.pendS h
  refine ⟨h1, ?_⟩
  have hkindp : ∀ i, (g.st.pool i).kind = kindOf kinds i := fun i => compInvR_kind _ _ _ _ _ (h.inv.comp i)
  have hS : ∀ i, landS g g.pendS i = g.pendS i := fun i => by simp [landS]
  have hp0 : ∀ i, ¬ (isStock (kindOf kinds i) = true ∧ r.raced i = true) → g.pendS i = 0 := by
    intro i hn
    cases Nat.eq_zero_or_pos (g.pendS i) with
    | inl h0 => exact h0
    | inr hpos => obtain ⟨p1, p2, _⟩ := h.pend i (by omega); exact absurd ⟨p1, p2⟩ hn
  simp only [tstep, tcheckStep, landStep, Spec.Fails.none, Spec.Fails.mk.injEq, Bool.not_eq_false', Spec.allBelow,
    List.all_eq_true, Bool.and_eq_true, List.mem_range]
  refine ⟨?_, ?_, ⟨by decide, ?_⟩, by decide⟩
  · intro i _
    refine ⟨⟨by simp [snapOf, landProc], by simp [snapOf, landProc]⟩, ?_⟩
    have hc := h.inv.comp i
    have hk := hkindp i
    cases hkd : kindOf kinds i <;> simp only [snapOf, landProc, landN, hk, hkd] <;> simp
    case simpleRec =>
      cases hrc : r.raced i with
      | true =>
        rw [hrc, compInvR_raced _ _ _ _ (by simp [isStock, hkd])] at hc
        obtain ⟨_, _, _, _, _, hn⟩ := hc
        simp [hkd] at hn; exact hn
      | false =>
        have hci := compInvR_elim _ _ _ _ _ hc (Or.inr hrc)
        rw [hkd] at hci
        exact hci.2.2.2.1
    case batchRec =>
      cases hrc : r.raced i with
      | true =>
        rw [hrc, compInvR_raced _ _ _ _ (by simp [isStock, hkd])] at hc
        obtain ⟨hd, _, hst, _, _, hn⟩ := hc
        simp [hkd] at hn
        simp [hd, hst]; omega
      | false =>
        have hci := compInvR_elim _ _ _ _ _ hc (Or.inr hrc)
        rw [hkd] at hci
        obtain ⟨_, hst, _, hn, hdq, _⟩ := hci
        cases hd : r.dead i with
        | true => have := hdq hd; simp [hst, hd, this]; omega
        | false => simp [hst, hd]
  · intro i _
    have hc := h.inv.comp i
    cases hkd : kindOf kinds i <;> simp only [snapOf, landProc, hS]
    case simpleRec | batchRec =>
      cases hrc : r.raced i with
      | true =>
        have hst : isStock (kindOf kinds i) = true := by simp [isStock, hkd]
        have hsum := h.sum i hst hrc
        rw [hrc, compInvR_raced _ _ _ _ hst] at hc
        simp [hc.1, hsum]
      | false =>
        have hz := hp0 i (by simp [hrc])
        have hci := compInvR_elim _ _ _ _ _ hc (Or.inr hrc)
        rw [hkd] at hci
        simp [hz]
        first | exact hci.2.2.1 | exact hci.2.2.1
    all_goals
      have hz := hp0 i (by simp [isStock, hkd])
      simp [hz]
  · intro i _
    simp [snapOf, landProc]

theorem tstep_inv {kinds g r} (op : TOp) (h : TInv kinds g r) :
    TInv kinds (tstep g op).1 (tcheckStep kinds r op (snapOf g.st) (snapOf (tstep g op).1.st) (tstep g op).2).2 ∧
    (tcheckStep kinds r op (snapOf g.st) (snapOf (tstep g op).1.st) (tstep g op).2).1 = Spec.Fails.none := by
  cases op with
  | api o => exact api_inv o h
  | land ln ls => exact land_inv ln ls h
  | settle => exact settle_inv h

theorem tcheckFrom_none {kinds} (ops : List TOp) : ∀ (g : TSt) (r : Spec.TP.Ref), TInv kinds g r →
    tcheckFrom kinds r (snapOf g.st) ops (trunFrom g ops) = Spec.Fails.none := by
  induction ops with
  | nil => intro g r _; rfl
  | cons op rest ih =>
    intro g r h
    obtain ⟨h1, h2⟩ := tstep_inv op h
    show (tcheckStep kinds r op (snapOf g.st) (snapOf (tstep g op).1.st) (tstep g op).2).1.or
      (tcheckFrom kinds (tcheckStep kinds r op (snapOf g.st) (snapOf (tstep g op).1.st) (tstep g op).2).2
        (snapOf (tstep g op).1.st) rest (trunFrom (tstep g op).1 rest)) = Spec.Fails.none
    rw [h2, ih _ _ h1]; exact Lemmas.Fails.none_or_none

theorem trunFrom_length (g : TSt) (ops : List TOp) : (trunFrom g ops).length = ops.length := by
  induction ops generalizing g with
  | nil => rfl
  | cons op rest ih => simp [trunFrom, ih]

theorem tinv_init (kinds : List PKind) : TInv kinds { st := TP.init kinds } {} :=
  ⟨Lemmas.inv_init kinds, fun i hp => absurd rfl hp, fun i _ hr => by simp at hr⟩

end Otel.C15.LagLemmasT
