/-
C15 — asynchronous arrival of exports after a raced (done-context) call: logger and meter provider.

A ForceFlush / Shutdown called with an already-done context returns early while work it started goes on in
another goroutine:
  * log BatchProcessor: records dequeued into the bufferExporter's input channel are exported by the exportSync
    goroutine after `ForceFlush` / `Shutdown` has returned the context error (or stay in the queue when the buffer
    was full) — `LP.PS.queued` after a raced call = "pending: still queued or in the export buffer";
  * PeriodicReader: `ForceFlush` whose send on `flushCh` won the race returns `ctx.Err()` while the run loop is
    still in `collectAndExport` — the Export call happens a little later (at the latest inside `Shutdown`, which
    waits for the run loop).
  * TracerProvider.Shutdown with a done context (since f6b676c every processor's Shutdown is still called): the
    simple span processor shuts its exporter down in a goroutine, the batch span processor drains its queue and
    shuts its exporter down in a goroutine, and both return `ctx.Err()` (or nil) without waiting — the drain's
    exports and the exporter's Shutdown may happen after the provider's Shutdown has returned.
Such an arrival is not an API call: it is an internal step `land` of the system, here an op of its own in a
WRAPPER op type (`LOp` / `MOp`), so the sequential models `LP.step` / `MP.step` and their theorems are untouched.
The theorems over all `LOp` / `MOp` sequences (PropsLag.lean) cover every placement and size of the arrivals.

Stated reading (Spec part): an export may arrive outside a ForceFlush / Shutdown call only for records that a
ForceFlush / Shutdown has already tried to flush (`hand`), resp. at most one Export per ForceFlush / Shutdown call
made so far and none once Shutdown has returned (`cap`); trace provider: only a stock processor shut down by a
provider Shutdown with a done context (`raced`) may still see its exporter's Shutdown (at most once in total) and
exports of spans delivered to it before (never more than were delivered); everything else is judged by
`Spec.TP/LP/MP.checkStep` exactly as before.
-/
import Otel.C15.Model
import Otel.C15.Spec
namespace Otel.C15.Lag
open Otel.C15

/-! ## Trace provider -/
namespace T

inductive TOp
  | api (o : TP.Op)
  | land (ln ls : Nat → Nat)   -- processor i's goroutine exports `ln i` more spans / calls the exporter's Shutdown (`ls i`)
  | settle                     -- the script is over and every goroutine has finished: everything outstanding arrives

structure TSt where
  st : TP.St
  pendS : Nat → Nat := fun _ => 0   -- exporter Shutdown of stock processor i still outstanding after a raced Shutdown

/-- processor i is shut down by this provider Shutdown with a done context, is a live stock processor around an
exporter, and is in the list -/
def racedHere (st : TP.St) (o : TP.Op) (i : Nat) : Bool :=
  match o with
  | .shutdown c _ =>
    c.done && !st.isShutdown && st.procs.any (fun p => p.1 == i) && !(st.pool i).stopped &&
      ((st.pool i).kind == .simpleRec || (st.pool i).kind == .batchRec)
  | _ => false

def chK : TP.Op → Nat → Nat
  | .shutdown _ ch => ch.k
  | _ => fun _ => 0

/-- spans the stopped batch processor's drain can still export / the exporter Shutdown that can still arrive -/
def landN (g : TSt) (ln : Nat → Nat) (i : Nat) : Nat :=
  if (g.st.pool i).kind == .batchRec && (g.st.pool i).stopped then min (ln i) (g.st.pool i).queued else 0
def landS (g : TSt) (ls : Nat → Nat) (i : Nat) : Nat := min (ls i) (g.pendS i)

def landProc (dn ds : Nat) (p : TP.PS) : TP.PS :=
  { p with queued := p.queued - dn, cnt := { p.cnt with n := p.cnt.n + dn, s := p.cnt.s + ds } }

def landStep (g : TSt) (ln ls : Nat → Nat) : TSt :=
  { st := { g.st with pool := fun i => landProc (landN g ln i) (landS g ls i) (g.st.pool i) },
    pendS := fun i => g.pendS i - landS g ls i }

def tstep (g : TSt) : TOp → TSt × Res
  | .api o =>
    ({ st := (TP.step g.st o).1,
       pendS := fun i => if racedHere g.st o i then 1 - min (chK o i) 1 else g.pendS i },
     (TP.step g.st o).2)
  | .land ln ls => (landStep g ln ls, .none)
  | .settle => (landStep g (fun i => (g.st.pool i).queued) g.pendS, .none)

def trunFrom (g : TSt) : List TOp → List TP.Obs
  | [] => []
  | op :: r =>
    { res := (tstep g op).2, snap := fun i => ((tstep g op).1.st.pool i).cnt } :: trunFrom (tstep g op).1 r

def trun (kinds : List TP.PKind) (ops : List TOp) : List TP.Obs := trunFrom { st := TP.init kinds } ops

open Spec in
def tcheckStep (kinds : List TP.PKind) (r : Spec.TP.Ref) (op : TOp) (prev cur : Nat → Cnt) (res : Res) :
    Fails × Spec.TP.Ref :=
  match op with
  | .api o => (Spec.TP.checkStep kinds r o prev cur res, Spec.TP.refStep r o res)
  | .land _ _ =>
    ({ m := !(allBelow kinds.length fun i =>
            (cur i).a == (prev i).a && (cur i).e == (prev i).e &&
            (match TP.kindOf kinds i with
             | .batchRec =>
               if r.raced i then (prev i).n ≤ (cur i).n && (cur i).n ≤ r.deliv i else (cur i).n == (prev i).n
             | _ => (cur i).n == (prev i).n))
       o := !(allBelow kinds.length fun i =>
            match TP.kindOf kinds i with
            | .simpleRec | .batchRec =>
              if r.raced i then (prev i).s ≤ (cur i).s && (cur i).s ≤ 1 else (cur i).s == (prev i).s
            | _ => (cur i).s == (prev i).s)
       a := !(res == .none && allBelow kinds.length fun i => (cur i).f == (prev i).f)
       t := res == .crash }, r)
  | .settle =>
    -- "shut down exactly once", the at-least-once half: once everything has settled the exporter of every stock
    -- processor that was taken out of service — also by a Shutdown with a done context — has seen exactly one
    -- Shutdown (no `≤`), its drain has exported everything delivered to it; processors still in service none
    ({ m := !(allBelow kinds.length fun i =>
            (cur i).a == (prev i).a && (cur i).e == (prev i).e &&
            (match TP.kindOf kinds i with
             | .batchRec => (cur i).n == (if r.dead i then r.deliv i else (prev i).n)
             | .simpleRec => (cur i).n == r.deliv i
             | _ => (cur i).n == (prev i).n))
       o := !(allBelow kinds.length fun i =>
            match TP.kindOf kinds i with
            | .simpleRec | .batchRec => (cur i).s == (if r.dead i then 1 else 0)
            | _ => (cur i).s == (prev i).s)
       a := !(res == .none && allBelow kinds.length fun i => (cur i).f == (prev i).f)
       t := res == .crash }, r)

def tcheckFrom (kinds : List TP.PKind) (r : Spec.TP.Ref) (prev : Nat → Cnt) : List TOp → List TP.Obs → Spec.Fails
  | op :: ops, o :: obs =>
    (tcheckStep kinds r op prev o.snap o.res).1.or
      (tcheckFrom kinds (tcheckStep kinds r op prev o.snap o.res).2 o.snap ops obs)
  | _, _ => Spec.Fails.none

def tcheck (kinds : List TP.PKind) (ops : List TOp) (obs : List TP.Obs) : Spec.Fails :=
  (tcheckFrom kinds {} (fun _ => {}) ops obs).or { t := obs.length != ops.length }

end T

/-! ## Logger provider -/
namespace L

inductive LOp
  | api (o : LP.Op)
  | land (l : Nat → Nat)    -- the export goroutine of batch processor i exports `l i` pending records
  | settle (l : Nat → Nat)  -- the script is over: what was still in the export buffer (`l i` records) has arrived

structure LSt where
  st : LP.St
  att : Nat → Nat := fun _ => 0   -- pending records of processor i that a ForceFlush / Shutdown has tried to flush

/-- a ForceFlush / Shutdown that reaches the processors -/
def attempts (stopped : Bool) : LP.Op → Bool
  | .flush _ _ | .shutdown _ _ => !stopped
  | _ => false

def landProc (m : Nat) (p : LP.PS) : LP.PS :=
  match p.kind with
  | .batchRec => { p with queued := p.queued - m, cnt := { p.cnt with n := p.cnt.n + m } }
  | _ => p

/-- how many records really arrive: not more than asked, than were attempted, than are pending -/
def landed (g : LSt) (l : Nat → Nat) (i : Nat) : Nat := min (min (l i) (g.att i)) (g.st.pool i).queued

def landStepL (g : LSt) (l : Nat → Nat) : LSt :=
  { st := { g.st with pool := fun i => landProc (landed g l i) (g.st.pool i) },
    att := fun i => g.att i - landed g l i }

def lstep (g : LSt) : LOp → LSt × Res
  | .api o =>
    ({ st := (LP.step g.st o).1,
       att := if attempts g.st.stopped o then fun i => ((LP.step g.st o).1.pool i).queued else g.att },
     (LP.step g.st o).2)
  | .land l => (landStepL g l, .none)
  | .settle l => (landStepL g l, .none)

def lrunFrom (g : LSt) : List LOp → List LP.Obs
  | [] => []
  | op :: r =>
    { res := (lstep g op).2, snap := fun i => ((lstep g op).1.st.pool i).cnt } :: lrunFrom (lstep g op).1 r

def lrun (kinds : List LP.LKind) (ops : List LOp) : List LP.Obs := lrunFrom { st := LP.init kinds } ops

structure LRef where
  ref : Spec.LP.Ref := {}
  hand : Nat → Nat := fun _ => 0    -- records handed to processor i when a ForceFlush / Shutdown last reached it

open Spec in
def lcheckStep (kinds : List LP.LKind) (g : LRef) (op : LOp) (prev cur : Nat → Cnt) (res : Res) : Fails × LRef :=
  match op with
  | .api o =>
    (Spec.LP.checkStep kinds g.ref o prev cur res,
     { ref := Spec.LP.refStep g.ref o res
       hand := if attempts g.ref.shut o then (Spec.LP.refStep g.ref o res).deliv else g.hand })
  | .land _ =>
    ({ m := !(allBelow kinds.length fun i =>
            (cur i).a == (prev i).a && (cur i).e == (prev i).e &&
            (match LP.kindOf kinds i with
             | .batchRec => (prev i).n ≤ (cur i).n && (cur i).n ≤ g.hand i
             | _ => (cur i).n == (prev i).n))
       o := !(allBelow kinds.length fun i => (cur i).s == (prev i).s)
       a := !(res == .none && allBelow kinds.length fun i => (cur i).f == (prev i).f)
       t := res == .crash }, g)
  | .settle _ =>
    -- as `land`, and "shut down exactly once" restated for the settled system: every processor / exporter has seen
    -- exactly one Shutdown iff the provider's Shutdown has been called (with whatever context)
    ({ m := !(allBelow kinds.length fun i =>
            (cur i).a == (prev i).a && (cur i).e == (prev i).e &&
            (match LP.kindOf kinds i with
             | .batchRec => (prev i).n ≤ (cur i).n && (cur i).n ≤ g.hand i
             | _ => (cur i).n == (prev i).n))
       o := !(allBelow kinds.length fun i =>
            match LP.kindOf kinds i with
            | .recd | .simpleRec | .batchRec => (cur i).s == (if g.ref.shut then 1 else 0)
            | _ => (cur i).s == 0)
       a := !(res == .none && allBelow kinds.length fun i => (cur i).f == (prev i).f)
       t := res == .crash }, g)

def lcheckFrom (kinds : List LP.LKind) (g : LRef) (prev : Nat → Cnt) : List LOp → List LP.Obs → Spec.Fails
  | op :: ops, o :: obs =>
    (lcheckStep kinds g op prev o.snap o.res).1.or
      (lcheckFrom kinds (lcheckStep kinds g op prev o.snap o.res).2 o.snap ops obs)
  | _, _ => Spec.Fails.none

def lcheck (kinds : List LP.LKind) (ops : List LOp) (obs : List LP.Obs) : Spec.Fails :=
  (lcheckFrom kinds {} (fun _ => {}) ops obs).or { t := obs.length != ops.length }

end L

/-! ## Meter provider -/
namespace M

inductive MOp
  | api (o : MP.Op)
  | land (l : Nat → Nat)    -- the run loop of periodic reader i performs `l i` Exports started by raced ForceFlushes
  | settle (l : Nat → Nat)  -- the script is over: Exports still under way (`l i`) have happened

structure MSt where
  st : MP.St
  pend : Nat → Nat := fun _ => 0   -- raced ForceFlushes of reader i whose Export had not happened when they returned

/-- a raced ForceFlush of a live periodic reader that returned without an Export having happened (code 0): the
Export may still come -/
def lateExport (st : MP.St) (o : MP.Op) (i : Nat) : Nat :=
  match o with
  | .flush c ch =>
    if c.done && (st.pool i).kind == .periodic && !(st.pool i).rshut && ch.k i == 0 && decide (i < st.n) then 1 else 0
  | _ => 0

def landR (m : Nat) (r : MP.RS) : MP.RS :=
  match r.kind with
  | .periodic => { r with cnt := { r.cnt with n := r.cnt.n + m } }
  | .manual => r

def landStepM (g : MSt) (l : Nat → Nat) : MSt :=
  { st := { g.st with pool := fun i => landR (min (l i) (g.pend i)) (g.st.pool i) },
    pend := fun i => g.pend i - min (l i) (g.pend i) }

def mstep (g : MSt) : MOp → MSt × Res
  | .api o =>
    ({ st := (MP.step g.st o).1,
       pend := match o with
         | .shutdown _ => fun _ => 0            -- Shutdown waits for the run loop: nothing can arrive afterwards
         | _ => fun i => g.pend i + lateExport g.st o i },
     (MP.step g.st o).2)
  | .land l => (landStepM g l, .none)
  | .settle l => (landStepM g l, .none)

def mrunFrom (g : MSt) : List MOp → List MP.Obs
  | [] => []
  | op :: r =>
    { res := (mstep g op).2, snap := fun i => ((mstep g op).1.st.pool i).cnt } :: mrunFrom (mstep g op).1 r

def mrun (kinds : List MP.RKind) (ops : List MOp) : List MP.Obs := mrunFrom { st := MP.init kinds } ops

structure MRef where
  ref : Spec.MP.Ref := {}
  cap : Nat := 0       -- ForceFlush / Shutdown calls that reached the readers so far

/-- this call reaches the readers: a ForceFlush before Shutdown, the first Shutdown -/
def reaches (shut : Bool) : MP.Op → Bool
  | .flush _ _ | .shutdown _ => !shut
  | _ => false

open Spec in
def mcheckStep (kinds : List MP.RKind) (g : MRef) (op : MOp) (prev cur : Nat → Cnt) (res : Res) : Fails × MRef :=
  match op with
  | .api o =>
    (Spec.MP.checkStep kinds g.ref o prev cur res,
     { ref := Spec.MP.refStep g.ref o res, cap := g.cap + (if reaches g.ref.shut o then 1 else 0) })
  | .land _ =>
    ({ m := !(allBelow kinds.length fun i =>
            (cur i).a == (prev i).a && (cur i).e == (prev i).e &&
            (match MP.kindOf kinds i with
             | .periodic => (prev i).n ≤ (cur i).n && (cur i).n ≤ g.cap && (!g.ref.shut || (cur i).n == (prev i).n)
             | .manual => (cur i).n == (prev i).n))
       o := !(allBelow kinds.length fun i => (cur i).s == (prev i).s)
       a := !(res == .none && allBelow kinds.length fun i => (cur i).f == (prev i).f)
       t := res == .crash }, g)
  | .settle _ =>
    -- as `land`, and: every periodic reader's exporter has seen exactly one Shutdown iff Shutdown has been called
    ({ m := !(allBelow kinds.length fun i =>
            (cur i).a == (prev i).a && (cur i).e == (prev i).e &&
            (match MP.kindOf kinds i with
             | .periodic => (prev i).n ≤ (cur i).n && (cur i).n ≤ g.cap && (!g.ref.shut || (cur i).n == (prev i).n)
             | .manual => (cur i).n == (prev i).n))
       o := !(allBelow kinds.length fun i =>
            match MP.kindOf kinds i with
            | .periodic => (cur i).s == (if g.ref.shut then 1 else 0)
            | .manual => (cur i).s == 0)
       a := !(res == .none && allBelow kinds.length fun i => (cur i).f == (prev i).f)
       t := res == .crash }, g)

def mcheckFrom (kinds : List MP.RKind) (g : MRef) (prev : Nat → Cnt) : List MOp → List MP.Obs → Spec.Fails
  | op :: ops, o :: obs =>
    (mcheckStep kinds g op prev o.snap o.res).1.or
      (mcheckFrom kinds (mcheckStep kinds g op prev o.snap o.res).2 o.snap ops obs)
  | _, _ => Spec.Fails.none

def mcheck (kinds : List MP.RKind) (ops : List MOp) (obs : List MP.Obs) : Spec.Fails :=
  (mcheckFrom kinds {} (fun _ => {}) ops obs).or { t := obs.length != ops.length }

end M
end Otel.C15.Lag
