import Otel.C15.Conc
/-
C15 — theorems about OVERLAPPING calls on the logger provider and the meter provider (clause "each processor, reader
and exporter is shut down exactly once however often and from however many goroutines Shutdown … is called", which
Props.lean proves for whole calls as atomic steps). Every interleaving of any number of concurrent callers of
Shutdown / Emit / ForceFlush / Logger (Meter), labels = the atomic operations of the method bodies + one label per call
into a processor / reader. These are the clauses the history oracle of the concurrent scripts (`clp` / `cmp` lines,
Main.concLine: `onceOK`, `resOK`) evaluates on the real code.
-/
namespace Otel.C15.Conc

/-! ### LoggerProvider -/

/-- never twice: in every reachable state every processor has seen at most one Shutdown -/
theorem lp_conc_shutdown_at_most_once {n : Nat} {s : LSt} (hr : LReach n s) (k : Nat) : s.sd k ≤ 1 := by
  have I := linv_reach hr
  rw [I.counts k]; split <;> simp

/-- exactly once: when every call has returned and Shutdown was called at all (by however many goroutines, at whatever
moments), every processor has seen exactly one Shutdown — and nothing that is not a processor has seen any -/
theorem lp_conc_shutdown_exactly_once {n : Nat} {s : LSt} (hr : LReach n s) (hq : ∀ t, s.frame t = .idle)
    (hs : s.stopped = true) : ∀ k, s.sd k = if k < n then 1 else 0 := by
  have I := linv_reach hr
  have hd : s.sdDone = true := by
    cases hw : s.winner with
    | none => exact absurd hw (I.won hs)
    | some t =>
      cases hdn : s.sdDone with
      | true => rfl
      | false => have := I.running t hw hdn; simp [hq t] at this
  intro k
  rw [I.counts k, I.donePos hd, I.nEq]

/-- before any Shutdown call no processor has been shut down -/
theorem lp_conc_no_shutdown_before_call {n : Nat} {s : LSt} (hr : LReach n s) (hs : s.stopped = false) (k : Nat) :
    s.sd k = 0 := by
  have I := linv_reach hr
  rw [I.counts k, (I.notStopped hs).1]; simp

/-- exactly one caller runs the loop over the processors -/
theorem lp_conc_one_winner {n : Nat} {s : LSt} (hr : LReach n s) {t t' j j' : Nat}
    (h1 : s.frame t = .sdLoop j) (h2 : s.frame t' = .sdLoop j') : t = t' := by
  have I := linv_reach hr
  have a := (I.loop t j h1).1
  have b := (I.loop t' j' h2).1
  rw [a] at b; exact Option.some.inj b

/-- once `stopped` is set, Emit / ForceFlush calls that BEGIN are no-ops and Logger hands out a no-op logger -/
theorem lp_conc_calls_after_stop_are_noops {s s' : LSt} {t : Nat} (hs : s.stopped = true) (hf : s.frame t = .idle) :
    lstep s t .emCheck = some s ∧ lstep s t .ffCheck = some s ∧
      (lstep s t .logger = some s' → s'.liveLoggers = s.liveLoggers ∧ s'.noopLoggers = s.noopLoggers + 1) := by
  refine ⟨by simp [lstep, hf, hs], by simp [lstep, hf, hs], ?_⟩
  intro h
  simp [lstep, hf, hs] at h
  subst h; simp

/-- no call blocks: the method bodies take no lock, every call in progress can always take its next step -/
theorem lp_conc_progress {s : LSt} {t : Nat} (h : s.frame t ≠ .idle) : ∃ a, (lstep s t a).isSome = true := by
  cases hf : s.frame t with
  | idle => exact absurd hf h
  | sdLoop k =>
    by_cases hk : k < s.n
    · exact ⟨.sdProc, by simp [lstep, hf, hk]⟩
    · exact ⟨.sdRet, by simp [lstep, hf, hk]⟩
  | emLoop k =>
    by_cases hk : k < s.n
    · exact ⟨.emProc, by simp [lstep, hf, hk]⟩
    · exact ⟨.emRet, by simp [lstep, hf, hk]⟩
  | ffLoop k =>
    by_cases hk : k < s.n
    · exact ⟨.ffProc, by simp [lstep, hf, hk]⟩
    · exact ⟨.ffRet, by simp [lstep, hf, hk]⟩

/-- REMARK (what the code does, not a clause of the property): a second, concurrent Shutdown caller returns nil at
once — while the first caller is still shutting the processors down. Witness: 2 processors, caller 0 wins the Swap and
has shut down processor 0 only; caller 1's Shutdown has already returned. -/
theorem lp_conc_losing_shutdown_returns_early_witness :
    ∃ s, LReach 2 s ∧ s.sdNil = 1 ∧ s.sd 1 = 0 ∧ s.frame 0 = .sdLoop 1 := by
  have h : (lrun (LSt.init 2) [(0, .sdSwap), (0, .sdProc), (1, .sdSwap)]).map
      (fun s => (s.sdNil, s.sd 1, s.frame 0)) = some (1, 0, .sdLoop 1) := by decide
  match hrun : lrun (LSt.init 2) [(0, .sdSwap), (0, .sdProc), (1, .sdSwap)] with
  | none => simp [hrun] at h
  | some s =>
    simp only [hrun, Option.map_some, Option.some.injEq, Prod.mk.injEq] at h
    exact ⟨s, lreach_lrun _ LReach.init hrun, h.1, h.2.1, h.2.2⟩

/-- non-vacuity: three concurrent Shutdown callers and an Emit that passed its check before the Swap: every processor
shut down once, the Emit still reaches both processors (after their Shutdown — the processors' own guards handle it) -/
example : ((lrun (LSt.init 2) [(3, .emCheck), (0, .sdSwap), (1, .sdSwap), (0, .sdProc), (3, .emProc), (2, .sdSwap),
      (0, .sdProc), (3, .emProc), (0, .sdRet), (3, .emRet), (4, .emCheck), (4, .logger)]).map
    fun s => ([s.sd 0, s.sd 1, s.sd 2, s.em 0, s.em 1, s.sdNil, s.noopLoggers], s.frame 3)) = some ([1, 1, 0, 1, 1, 3, 1], .idle) := by
  decide

/-! ### MeterProvider (`unifyShutdown`: a sync.Once around the loop over the readers) -/

theorem mp_conc_shutdown_at_most_once {n : Nat} {s : MSt} (hr : MReach n s) (k : Nat) : s.rd k ≤ 1 := by
  have I := minv_reach hr
  rw [I.counts k]; split <;> simp

/-- **a Shutdown call that has returned — with either result — returned after every reader had been shut down**
(the Once makes the losing callers wait for the winner), exactly once each -/
theorem mp_conc_returned_shutdown_means_all_readers_down {n : Nat} {s : MSt} (hr : MReach n s)
    (h : 0 < s.retUnified + s.retShut) : ∀ k, s.rd k = if k < n then 1 else 0 := by
  have I := minv_reach hr
  have hd : s.onceDone = true := by
    cases hdn : s.onceDone with
    | true => rfl
    | false => have := I.notDone hdn; omega
  intro k
  rw [I.counts k, (I.donePos hd).1, I.nEq]

/-- exactly one caller gets the unified result of the readers; all others the documented ErrReaderShutdown -/
theorem mp_conc_one_unified_result {n : Nat} {s : MSt} (hr : MReach n s) :
    s.retUnified ≤ 1 ∧ (0 < s.retShut → s.retUnified = 1) := by
  have I := minv_reach hr
  cases hdn : s.onceDone with
  | true => have := (I.donePos hdn).2.1; omega
  | false => have := I.notDone hdn; omega

/-- as soon as any Shutdown call has returned: every reader shut down exactly once, exactly one unified result -/
theorem mp_conc_shutdown_exactly_once {n : Nat} {s : MSt} (hr : MReach n s) (hc : 0 < s.retUnified + s.retShut) :
    (∀ k, s.rd k = if k < n then 1 else 0) ∧ s.retUnified = 1 := by
  refine ⟨mp_conc_returned_shutdown_means_all_readers_down hr hc, ?_⟩
  have I := minv_reach hr
  cases hdn : s.onceDone with
  | true => exact (I.donePos hdn).2.1
  | false => have := I.notDone hdn; omega

/-- no deadlock: whenever a call is in progress some call in progress can step (a caller waiting for the Once waits
for its owner, who never waits) -/
theorem mp_conc_deadlock_free {n : Nat} {s : MSt} (hr : MReach n s) (h : ∃ t, s.frame t ≠ .idle) :
    ∃ t a, s.frame t ≠ .idle ∧ (mstep s t a).isSome = true := by
  have I := minv_reach hr
  have inLoop : ∀ t k, s.frame t = .mLoop k → ∃ t a, s.frame t ≠ .idle ∧ (mstep s t a).isSome = true := by
    intro t k hf
    by_cases hk : k < s.n
    · exact ⟨t, .mProc, by simp [hf], by simp [mstep, hf, hk]⟩
    · exact ⟨t, .mRet, by simp [hf], by simp [mstep, hf, hk]⟩
  obtain ⟨t, hne⟩ := h
  cases hf : s.frame t with
  | idle => exact absurd hf hne
  | mLoop k => exact inLoop t k hf
  | mWait =>
    cases hd : s.onceDone with
    | true => exact ⟨t, .mEnter, by simp [hf], by simp [mstep, hf, hd]⟩
    | false =>
      cases ho : s.onceOwner with
      | none => exact ⟨t, .mEnter, by simp [hf], by simp [mstep, hf, hd, ho]⟩
      | some t2 => exact inLoop t2 _ (I.owner t2 ho)

/-- after `stopped` is stored, Meter hands out no-op meters -/
theorem mp_conc_meter_after_stop_is_noop {s s' : MSt} {t : Nat} (hs : s.stopped = true)
    (h : mstep s t .meter = some s') : s'.liveMeters = s.liveMeters ∧ s'.noopMeters = s.noopMeters + 1 := by
  simp only [mstep] at h
  split at h
  · simp [hs] at h; subst h; simp
  · simp at h

/-- non-vacuity: three concurrent callers, the second and third wait for the Once -/
example : (mrun (MSt.init 2) [(0, .mStore), (1, .mStore), (0, .mEnter), (1, .mEnter)]).isNone = true := by decide
example : ((mrun (MSt.init 2) [(0, .mStore), (1, .mStore), (0, .mEnter), (2, .mStore), (0, .mProc), (0, .mProc), (0, .mRet),
      (1, .mEnter), (2, .mEnter), (3, .meter)]).map
    fun s => [s.rd 0, s.rd 1, s.rd 2, s.retUnified, s.retShut, s.noopMeters]) = some [1, 1, 0, 1, 2, 1] := by decide

end Otel.C15.Conc
