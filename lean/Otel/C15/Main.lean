import Otel.Base.Wire
import Otel.C15.Model
import Otel.C15.Spec
import Otel.C15.Gate
import Otel.C15.Park
import Otel.C15.Err
import Otel.C15.ErrLP
import Otel.C15.ErrMP
import Otel.C15.Lag
import Otel.C15.Reent
import Otel.C15.Tick
open Otel Otel.Wire Otel.C15

/-! Driver of C15. Line kinds: see harness/bb/c15life/c15_test.go (header). -/

def dropS (s : String) (n : Nat) : String := (s.drop n).toString

def parseCtx : String → Option Ctx
  | "b" => some .bg | "f" => some .far | "c" => some .cancelled | "e" => some .expired | _ => none

def parseRes (s : String) : Option Res :=
  if s == "-" then some .none else if s == "ok" then some .ok
  else if s == "sdk" then some .sdk else if s == "noop" then some .noop
  else if s == "panic" || s == "hang" then some .crash
  else if s.startsWith "err:" then
    let f := (dropS s 4).toList
    if f == ['o'] then some (.err false false false)   -- a non-context error (user callback result)
    else if f.all (fun c => c == 'c' || c == 'd' || c == 's') then some (.err (f.contains 'c') (f.contains 'd') (f.contains 's'))
    else none   -- an error of an unknown class never agrees with the model
  else if s.startsWith "v" then (dropS s 1).toNat?.map .val
  else none

def renderRes : Res → String
  | .none => "-" | .ok => "ok" | .sdk => "sdk" | .noop => "noop" | .crash => "crash"
  | .err false false false => "err:o"
  | .err c d s => "err:" ++ (if c then "c" else "") ++ (if d then "d" else "") ++ (if s then "s" else "")
  | .val v => s!"v{v}"

def addField (c : Cnt) (f : String) : Option Cnt :=
  match (dropS f 1).toNat? with
  | none => none
  | some v =>
    if f.startsWith "a" then some { c with a := c.a + v } else if f.startsWith "e" then some { c with e := c.e + v }
    else if f.startsWith "f" then some { c with f := c.f + v } else if f.startsWith "s" then some { c with s := c.s + v }
    else if f.startsWith "n" then some { c with n := c.n + v } else none

/-- `<res>;i.f1.s1;j.n2` → result and per-component deltas -/
def parseObs (s : String) : Option (Res × List (Nat × Cnt)) :=
  match s.splitOn ";" with
  | [] => none
  | r :: ds => do
    let res ← parseRes r
    let deltas ← ds.mapM fun d =>
      match d.splitOn "." with
      | i :: fs => do
        let i ← i.toNat?
        let c ← fs.foldlM addField ({} : Cnt)
        pure (i, c)
      | [] => none
    pure (res, deltas)

/-- the harness ends every script with a settle observation `settle[!];<deltas>` (`!` = its wait timed out):
(observations of the ops, the settle observation as an ordinary token with result `-`) -/
def splitSettle (obsToks : List String) : List String × Option String :=
  match obsToks.getLast? with
  | some t =>
    if t.startsWith "settle!" then (obsToks.dropLast, some ("-" ++ dropS t 7))
    else if t.startsWith "settle" then (obsToks.dropLast, some ("-" ++ dropS t 6))
    else (obsToks, none)
  | none => (obsToks, none)

def addCnt (x y : Cnt) : Cnt := { a := x.a + y.a, e := x.e + y.e, f := x.f + y.f, s := x.s + y.s, n := x.n + y.n }

def applyDeltas (snap : Nat → Cnt) (ds : List (Nat × Cnt)) : Nat → Cnt :=
  ds.foldl (fun sn (i, c) => upd sn i (addCnt c)) snap

def deltaOf (ds : List (Nat × Cnt)) (i : Nat) : Cnt := applyDeltas (fun _ => {}) ds i

def renderDelta (n : Nat) (prev cur : Nat → Cnt) : String :=
  String.join <| (List.range n).map fun i =>
    let p := prev i; let c := cur i
    if p == c then "" else
      s!";{i}" ++ (if c.a != p.a then s!".a{c.a - p.a}" else "") ++ (if c.e != p.e then s!".e{c.e - p.e}" else "") ++
        (if c.f != p.f then s!".f{c.f - p.f}" else "") ++ (if c.s != p.s then s!".s{c.s - p.s}" else "") ++
        (if c.n != p.n then s!".n{c.n - p.n}" else "")

def snapEq (n : Nat) (x y : Nat → Cnt) : Bool := (List.range n).all fun i => x i == y i

def failTags (f : Spec.Fails) : String :=
  ",".intercalate ((if f.m then ["membership"] else []) ++ (if f.o then ["once"] else []) ++
    (if f.a then ["after"] else []) ++ (if f.t then ["crash"] else []))

def splitBang (l : List String) : List (List String) :=
  l.foldr (fun t acc => if t == "!" then [] :: acc else match acc with | h :: r => (t :: h) :: r | [] => [[t]]) [[]]

/-! ### trace provider -/
/-- `bn+bq`: the part after `+` names constructor options of the harness (blocking, small queue, short timeout);
they do not change the model kind -/
def baseKind (s : String) : String := (((s.splitOn "@").headD s).splitOn "+").headD s

def parsePKind (s : String) : Option TP.PKind :=
  match baseKind s with
  | "r" | "re" => some .recd | "sre" => some .simpleRec | "bre" => some .batchRec | "sr" => some .simpleRec | "sn" => some .simpleNil | "br" => some .batchRec | "bn" => some .batchNil
  | _ => none

def parseKinds {α : Type} (p : String → Option α) (s : String) : Option (List α) :=
  if s == "-" then some [] else (s.splitOn ",").mapM p

def zipOpt {α β : Type} : List α → List β → List (α × Option β)
  | [], _ => []
  | a :: r, [] => (a, none) :: zipOpt r []
  | a :: r, b :: s => (a, some b) :: zipOpt r s

/-- ops of the trace script; the choice of a Shutdown with a done context is read off the observation of that step:
`k` = exporter Shutdowns seen, `x` = spans exported when the call returned, `e` = the context error was reported -/
def parseTPOp (t : String) (o : Option (Res × List (Nat × Cnt))) : Option TP.Op :=
  let isErr := match o with | some (.err _ _ _, _) => true | _ => false
  let ds := (o.map (·.2)).getD []
  match t.splitOn ":" with
  | ["reg", i] => i.toNat?.map .reg
  | ["unr", i] => i.toNat?.map .unreg
  | ["sd", c] => (parseCtx c).map fun c =>
      .shutdown c { e := fun _ => isErr, k := fun i => (deltaOf ds i).s, x := fun i => (deltaOf ds i).n }
  | ["ff", c] => (parseCtx c).map .flush
  | ["tr", k] => k.toNat?.map .tracer
  | ["st", k, j] => do pure (.start (← k.toNat?) (← j.toNat?))
  | ["en", j] => j.toNat?.map .end_
  | ["sp", k] => k.toNat?.map .span
  | ["psd", i] => i.toNat?.map .pshut
  | _ => none

/-- observed tokens → observations with cumulative counters -/
def tpObs (prev : Nat → Cnt) : List (Res × List (Nat × Cnt)) → List TP.Obs
  | [] => []
  | (r, ds) :: rest => let cur := applyDeltas prev ds; { res := r, snap := cur } :: tpObs cur rest

def tpBranch (s : TP.St) (op : TP.Op) : String :=
  match op with
  | .reg _ => if s.isShutdown then "reg-after" else "reg"
  | .unreg i => if s.isShutdown then "unr-after" else if (TP.removeLast i s.procs).isSome then "unr-hit" else "unr-miss"
  | .shutdown c _ => if s.isShutdown then "sd-again" else if s.procs.isEmpty then "sd-empty" else if c.done then "sd-done" else "sd-live"
  | .flush c => if s.procs.isEmpty then "ff-empty" else if c.done then "ff-done" else "ff-live"
  | .tracer _ => if s.isShutdown then "tr-noop" else "tr-sdk"
  | .start k _ => match s.tracers k with | some true => "st-sdk" | some false => "st-noop" | none => "st-none"
  | .end_ j => match s.spans j with | .live true => (if s.procs.isEmpty then "en-nobody" else "en-deliver") | .live false => "en-noop" | _ => "en-none"
  | .span k => match s.tracers k with
    | some true => if s.procs.isEmpty then "sp-nobody" else "sp-deliver"
    | some false => "sp-noop" | none => "sp-none"
  | .pshut _ => "psd"

def tpBranches (s : TP.St) : List TP.Op → List String
  | [] => []
  | op :: r => tpBranch s op :: tpBranches (TP.step s op).1 r

def dedup (l : List String) : List String := l.foldl (fun acc x => if acc.contains x then acc else acc ++ [x]) []

def renderTP (n : Nat) (prev : Nat → Cnt) : List TP.Obs → List String
  | [] => []
  | o :: r => (renderRes o.res ++ renderDelta n prev o.snap) :: renderTP n o.snap r

/-- remove the deltas attributed to a preceding `land` from an observation -/
def subLagT (ln ls : Nat → Nat) (o : Option (Res × List (Nat × Cnt))) : Option (Res × List (Nat × Cnt)) :=
  o.map fun (r, ds) => (r, ds.map fun (i, c) => (i, { c with n := c.n - ln i, s := c.s - ls i }))

/-- One observed step = an optional asynchronous arrival (`land`, Lag.lean) followed by the API op.  The model
state is carried along: exporter Shutdowns / exports observed for a processor whose raced shutdown (provider
Shutdown with a done context) still owes them are attributed to a `land` placed before the call. -/
def tpSteps (n : Nat) : Lag.T.TSt → List (String × Option (Res × List (Nat × Cnt))) →
    Option (List (Option ((Nat → Nat) × (Nat → Nat)) × TP.Op))
  | _, [] => some []
  | g, (t, o) :: rest => do
    let ds := (o.map (·.2)).getD []
    let lagS : Nat → Nat := fun i => if g.pendS i != 0 then (deltaOf ds i).s else 0
    let lagN : Nat → Nat := fun i =>
      if (g.st.pool i).kind == .batchRec && (g.st.pool i).stopped && (g.st.pool i).queued != 0
      then (deltaOf ds i).n else 0
    let hasLag := (List.range n).any fun i => lagS i != 0 || lagN i != 0
    let op ← parseTPOp t (if hasLag then subLagT lagN lagS o else o)
    let g1 := if hasLag then (Lag.T.tstep g (.land lagN lagS)).1 else g
    let g2 := (Lag.T.tstep g1 (.api op)).1
    pure ((if hasLag then some (lagN, lagS) else none, op) :: (← tpSteps n g2 rest))

def tpLagOps : List (Option ((Nat → Nat) × (Nat → Nat)) × TP.Op) → List Lag.T.TOp
  | [] => []
  | (some (ln, ls), o) :: r => .land ln ls :: .api o :: tpLagOps r
  | (none, o) :: r => .api o :: tpLagOps r

def tpSynth (prev : Nat → Cnt) :
    List (Option ((Nat → Nat) × (Nat → Nat)) × TP.Op) → List (Res × List (Nat × Cnt)) → List TP.Obs
  | (lag, _) :: ss, (r, ds) :: rest =>
    let cur := applyDeltas prev ds
    match lag with
    | some (ln, ls) =>
      { res := .none, snap := fun i => { prev i with n := (prev i).n + ln i, s := (prev i).s + ls i } } ::
        { res := r, snap := cur } :: tpSynth cur ss rest
    | none => { res := r, snap := cur } :: tpSynth cur ss rest
  | [], raws => tpObs prev raws
  | _, [] => []

def dropLandsT {α : Type} : List Lag.T.TOp → List α → List α
  | .land _ _ :: ops, _ :: xs => dropLandsT ops xs
  | .api _ :: ops, x :: xs => x :: dropLandsT ops xs
  | .settle :: ops, x :: xs => x :: dropLandsT ops xs
  | _, _ => []

def tpLine (kindsS : String) (opToks obsToksAll : List String) : Option Verdict := do
  let kinds ← parseKinds parsePKind kindsS
  let (obsToks, settleTok) := splitSettle obsToksAll
  let raw ← obsToks.mapM parseObs
  let settle ← match settleTok with | some t => (parseObs t).map some | none => some none
  let n := kinds.length
  let steps ← tpSteps n { st := TP.init kinds } (zipOpt opToks raw)
  let tops := tpLagOps steps ++ (if settle.isSome then [Lag.T.TOp.settle] else [])
  let ops := steps.map (·.2)
  let rawAll := raw ++ settle.toList
  let obs := tpObs (fun _ => {}) rawAll
  let model := dropLandsT tops (Lag.T.trun kinds tops)
  let agree := model.length == obs.length &&
    (model.zip obs).all fun (m, o) => m.res == o.res && snapEq n m.snap o.snap
  let fails := Lag.T.tcheck kinds tops (tpSynth (fun _ => {}) steps rawAll)
  let br := dedup (tpBranches (TP.init kinds) ops ++ (if steps.any (·.1.isSome) then ["late-arrival"] else []) ++
    (match settle with | some (_, ds) => if ds.isEmpty then ["settle-quiet"] else ["settle-arrival"] | none => []))
  pure { agree := agree, spec := if fails.any then "FAIL:" ++ failTags fails else "ok",
         nontrivial := raw.any (fun (_, ds) => !ds.isEmpty),
         branches := if br.isEmpty then "-" else ",".intercalate br,
         model := " ".intercalate (renderTP n (fun _ => {}) model) }


/-! ### trace provider, forced schedules: an End parked inside a processor while other ops run (`gtp`) -/
def parseGOp (t : String) (o : Option (Res × List (Nat × Cnt))) : Option Gate.GOp :=
  if t == "rel" then some .rel
  else match t.splitOn ":" with
    | ["endg", j, k] => do pure (.endg (← j.toNat?) (← k.toNat?))
    | _ => (parseTPOp t o).map .op

def parseGObs (s : String) : Option (Res × Bool × List (Nat × Cnt)) :=
  if s.startsWith "parked" then (parseObs ("-" ++ dropS s 6)).map fun (r, ds) => (r, true, ds)
  else (parseObs s).map fun (r, ds) => (r, false, ds)

def gObs (prev : Nat → Cnt) : List (Res × Bool × List (Nat × Cnt)) → List Gate.GObs
  | [] => []
  | (r, p, ds) :: rest => let cur := applyDeltas prev ds; { res := r, parked := p, snap := cur } :: gObs cur rest

def renderG (n : Nat) (prev : Nat → Cnt) : List Gate.GObs → List String
  | [] => []
  | o :: r => ((if o.parked then "parked" else renderRes o.res) ++ renderDelta n prev o.snap) :: renderG n o.snap r

def gBranches (g : Gate.GSt) : List Gate.GOp → List String
  | [] => []
  | op :: r =>
    let x := Gate.gstep g op
    let tag := match op with
      | .endg _ _ => if x.2.2 then "endg-parked" else "endg-through"
      | .rel => if g.fly.isSome then (if (g.fly.getD []).isEmpty then "rel-last" else "rel-deliver") else "rel-idle"
      | .op o => if g.fly.isSome then "overlap-" ++ tpBranch g.st o else tpBranch g.st o
    tag :: gBranches x.1 r

def gtpLine (kindsS : String) (opToks obsToksAll : List String) : Option Verdict := do
  let kinds ← parseKinds parsePKind kindsS
  let (obsToks, settleTok) := splitSettle obsToksAll
  let settleQuiet := match settleTok with | some t => t == "-" | none => true
  let raw ← obsToks.mapM parseGObs
  let ops ← (zipOpt opToks raw).mapM fun (t, o) => parseGOp t (o.map fun (r, _, ds) => (r, ds))
  let n := kinds.length
  let obs := gObs (fun _ => {}) raw
  let model := Gate.grun kinds ops
  let agree := model.length == obs.length &&
    (model.zip obs).all fun (m, o) => m.res == o.res && m.parked == o.parked && snapEq n m.snap o.snap
  -- pools of recording processors have nothing outstanding: nothing may move at the settle
  let fails := (Gate.gcheck kinds ops obs).or { m := !settleQuiet }
  let spec := if !fails.any then "ok" else "FAIL:" ++ failTags fails
  let br := dedup (gBranches { st := TP.init kinds } ops)
  pure { agree := agree, spec := spec, nontrivial := raw.any (fun (_, p, _) => p),
         branches := if br.isEmpty then "-" else ",".intercalate br,
         model := " ".intercalate (renderG n (fun _ => {}) model) }

/-! ### trace provider, forced schedules: a ForceFlush parked after a batch processor's stopped check (`ptp`) -/
def parsePOp (t : String) (o : Option (Res × List (Nat × Cnt))) : Option Park.POp :=
  if t == "rel" then some .rel
  else match t.splitOn ":" with
    | ["ffpark", "p"] => some (.ffpark none)
    | ["ffpark", i] => i.toNat?.map fun i => .ffpark (some i)
    | _ => (parseTPOp t o).map .op

def pObs (prev : Nat → Cnt) : List (Res × Bool × List (Nat × Cnt)) → List Park.PObs
  | [] => []
  | (r, p, ds) :: rest => let cur := applyDeltas prev ds; { res := r, parked := p, snap := cur } :: pObs cur rest

def renderP (n : Nat) (prev : Nat → Cnt) : List Park.PObs → List String
  | [] => []
  | o :: r => ((if o.parked then "parked" else renderRes o.res) ++ renderDelta n prev o.snap) :: renderP n o.snap r

def pBranches (g : Park.PSt) : List Park.POp → List String
  | [] => []
  | op :: r =>
    let x := Park.pstep g op
    let tag := match op with
      | .ffpark t =>
        (if x.2.2 then "ffpark-parked" else if g.fly.isSome then "ffpark-second" else "ffpark-through") ++
          (match t with | none => "-provider" | some _ => "-direct")
      | .rel =>
        match g.fly with
        | none => "rel-idle"
        | some (k, post) =>
          (if (g.st.pool k).stopped then "rel-after-shutdown" else if (g.st.pool k).kind == .batchNil then "rel-nil-exporter"
           else if (g.st.pool k).queued == 0 then "rel-live-empty" else "rel-live-export") ++
            (if post.isEmpty then "" else ",rel-rest-of-snapshot")
      | .op o => if g.fly.isSome then "ffoverlap-" ++ tpBranch g.st o else tpBranch g.st o
    tag :: pBranches x.1 r

def ptpLine (kindsS : String) (opToks obsToksAll : List String) : Option Verdict := do
  let kinds ← parseKinds parsePKind kindsS
  let (obsToks, settleTok) := splitSettle obsToksAll
  let settleQuiet := match settleTok with | some t => t == "-" | none => true
  let raw ← obsToks.mapM parseGObs
  -- only live contexts: the races a done context opens inside the stock processors are not part of the parked model
  if opToks.any (fun t => t == "sd:c" || t == "sd:e" || t == "ff:c" || t == "ff:e") then none
  let ops ← (zipOpt opToks raw).mapM fun (t, o) => parsePOp t (o.map fun (r, _, ds) => (r, ds))
  let n := kinds.length
  let obs := pObs (fun _ => {}) raw
  let model := Park.prun kinds ops
  let agree := model.length == obs.length &&
    (model.zip obs).all fun (m, o) => m.res == o.res && m.parked == o.parked && snapEq n m.snap o.snap
  -- live contexts only: every Shutdown completes inside its call, nothing may move at the settle
  let fails := (Park.pcheck kinds ops obs).or { m := !settleQuiet }
  -- a call that never returns with room in the queue is a plain failure (known finding F42 needs the FULL queue of an
  -- exited worker: not reachable with the default queue size of these scripts, never classified here)
  let spec := if !fails.any then "ok" else "FAIL:" ++ failTags fails ++
    (if obsToksAll.contains "hang" then ",blocks-forever" else "")
  let br := dedup (pBranches { st := TP.init kinds } ops)
  pure { agree := agree, spec := spec, nontrivial := raw.any (fun (_, p, _) => p),
         branches := if br.isEmpty then "-" else ",".intercalate br,
         model := " ".intercalate (renderP n (fun _ => {}) model) }

/-! ### trace provider, callback results as a script dimension: erring user processors (`etp`) -/
def parseE (kindsS : String) : Nat → Bool :=
  let ks := if kindsS == "-" then [] else (kindsS.splitOn ",").map baseKind
  fun i => ks.getD i "" == "re" || ks.getD i "" == "sre" || ks.getD i "" == "bre"

/-- the Choice of a Shutdown with a done context: `e` = a CONTEXT error was reported (a user error is not one) -/
def parseTPOpE (t : String) (o : Option (Res × List (Nat × Cnt))) : Option TP.Op :=
  let ctxErr := match o with | some (.err c d _, _) => c || d | _ => false
  match parseTPOp t o with
  | some (.shutdown c ch) => some (.shutdown c { ch with e := fun _ => ctxErr })
  | x => x

def eBranches (E : Nat → Bool) (x : Err.StE) : List TP.Op → List String
  | [] => []
  | op :: r =>
    let y := Err.stepE E x op
    let tag := match op with
      | .unreg i => if y.1.handled != x.handled then "unr-erring-handled" else
          if E i then "unr-erring-" ++ tpBranch x.st op else tpBranch x.st op
      | .shutdown _ _ => if y.2 == Err.userErr then "sd-user-error" else tpBranch x.st op
      | .flush _ => if y.2 == Err.userErr then
            (if (List.range 16).all (fun i => ((Err.flushUntil E x.st x.st.pool x.st.procs).1 i).cnt ==
                  ((TP.flushAll x.st.pool x.st.procs) i).cnt) then "ff-user-error"
             else "ff-user-error-cut")
          else tpBranch x.st op
      | .pshut i => if Err.errsShut E x.st i then "psd-user-error" else tpBranch x.st op
      | _ => tpBranch x.st op
    tag :: eBranches E y.1 r

def etpLine (kindsS : String) (opToks obsToksAll : List String) : Option Verdict := do
  let kinds ← parseKinds parsePKind kindsS
  let E := parseE kindsS
  let (obsToks, settleTok) := splitSettle obsToksAll
  let settleQuiet := match settleTok with | some t => t == "-" | none => true
  let raw ← obsToks.mapM parseObs
  let ops ← (zipOpt opToks raw).mapM fun (t, o) => parseTPOpE t o
  -- a Shutdown with a done context on a stock processor around a recording exporter finishes asynchronously (Lag.lean):
  -- not part of these scripts
  if kinds.any (fun k => k == .simpleRec || k == .batchRec) && ops.any (fun o => match o with | .shutdown c _ => c.done | _ => false)
  then none
  let n := kinds.length
  let obs := tpObs (fun _ => {}) raw
  let model := Err.runE E kinds ops
  let agree := model.length == obs.length &&
    (model.zip obs).all fun (m, o) => m.res == o.res && snapEq n m.snap o.snap
  let fails := (Err.checkE E kinds ops obs).or { m := !settleQuiet }
  let br := dedup (eBranches E { st := TP.init kinds } ops)
  pure { agree := agree, spec := if fails.any then "FAIL:" ++ failTags fails else "ok",
         nontrivial := raw.any (fun (_, ds) => !ds.isEmpty),
         branches := if br.isEmpty then "-" else ",".intercalate br,
         model := " ".intercalate (renderTP n (fun _ => {}) model) }

/-! ### logger provider -/
def parseLKind (s : String) : Option LP.LKind :=
  match baseKind s with
  | "r" | "re" => some .recd | "sr" | "sre" => some .simpleRec | "sn" => some .simpleNil
  | "br" | "bre" => some .batchRec | "bn" => some .batchNil
  | _ => none

/-- ops of the log script; the choice of a flush / shutdown is read off the observation of that step -/
def parseLPOp (t : String) (o : Option (Res × List (Nat × Cnt))) : Option LP.Op :=
  let isErr := match o with | some (.err _ _ _, _) => true | _ => false
  let ds := (o.map (·.2)).getD []
  match t.splitOn ":" with
  | ["lg", k] => k.toNat?.map .logger
  | ["em", k] => k.toNat?.map .emit
  | ["ff", c] => (parseCtx c).map fun c =>
      .flush c { e := fun _ => isErr, k := fun i => (deltaOf ds i).f, x := fun i => (deltaOf ds i).n }
  | ["sd", c] => (parseCtx c).map fun c => .shutdown c { e := fun _ => isErr, k := fun i => (deltaOf ds i).n }
  | _ => none

def lpObs (prev : Nat → Cnt) : List (Res × List (Nat × Cnt)) → List LP.Obs
  | [] => []
  | (r, ds) :: rest => let cur := applyDeltas prev ds; { res := r, snap := cur } :: lpObs cur rest

def renderLP (n : Nat) (prev : Nat → Cnt) : List LP.Obs → List String
  | [] => []
  | o :: r => (renderRes o.res ++ renderDelta n prev o.snap) :: renderLP n o.snap r

def lpBranch (s : LP.St) : LP.Op → String
  | .logger _ => if s.stopped then "lg-noop" else "lg-sdk"
  | .emit k => match s.loggers k with | some true => (if s.stopped then "em-stopped" else "em-deliver") | some false => "em-noop" | none => "em-none"
  | .flush c _ => if s.stopped then "ff-after" else if c.done then "ff-done" else "ff-live"
  | .shutdown c _ => if s.stopped then "sd-again" else if c.done then "sd-done" else "sd-live"

def lpBranches (s : LP.St) : List LP.Op → List String
  | [] => []
  | op :: r => lpBranch s op :: lpBranches (LP.step s op).1 r

/-- One observed step = an optional asynchronous arrival (`land`, Lag.lean) followed by the API op.  A call that
cannot export by itself (Logger, Emit, anything after Shutdown) but shows exports of a batch processor is preceded
by a `land` of that size; for a ForceFlush / Shutdown that reaches the processors the observed export count is the
choice `x` / `k` of the op itself. -/
def parseLPSteps (kinds : List LP.LKind) :
    Bool → List (String × Option (Res × List (Nat × Cnt))) → Option (List (Option (Nat → Nat) × LP.Op))
  | _, [] => some []
  | stopped, (t, o) :: rest => do
    let op ← parseLPOp t o
    let ds := (o.map (·.2)).getD []
    let lag : Nat → Nat := fun i => if LP.kindOf kinds i == .batchRec then (deltaOf ds i).n else 0
    let hasLag := !Lag.L.attempts stopped op && (List.range kinds.length).any (fun i => lag i != 0)
    let stopped' := stopped || (match op with | .shutdown _ _ => true | _ => false)
    pure ((if hasLag then some lag else none, op) :: (← parseLPSteps kinds stopped' rest))

def lpLagOps : List (Option (Nat → Nat) × LP.Op) → List Lag.L.LOp
  | [] => []
  | (some l, o) :: r => .land l :: .api o :: lpLagOps r
  | (none, o) :: r => .api o :: lpLagOps r

/-- observations for the oracle: the arrival gets an observation of its own (previous counters + the arrived
exports), the API op the observed one -/
def lpSynth (prev : Nat → Cnt) :
    List (Option (Nat → Nat) × LP.Op) → List (Res × List (Nat × Cnt)) → List LP.Obs
  | (lag, _) :: ss, (r, ds) :: rest =>
    let cur := applyDeltas prev ds
    match lag with
    | some l => { res := .none, snap := fun i => { prev i with n := (prev i).n + l i } } ::
        { res := r, snap := cur } :: lpSynth cur ss rest
    | none => { res := r, snap := cur } :: lpSynth cur ss rest
  | [], raws => lpObs prev raws
  | _, [] => []

def dropLands {α : Type} : List Lag.L.LOp → List α → List α
  | .land _ :: ops, _ :: xs => dropLands ops xs
  | .api _ :: ops, x :: xs => x :: dropLands ops xs
  | .settle _ :: ops, x :: xs => x :: dropLands ops xs
  | _, _ => []

def lpLine (kindsS : String) (opToks obsToksAll : List String) : Option Verdict := do
  let kinds ← parseKinds parseLKind kindsS
  let (obsToks, settleTok) := splitSettle obsToksAll
  let raw ← obsToks.mapM parseObs
  let settle ← match settleTok with | some t => (parseObs t).map some | none => some none
  let steps ← parseLPSteps kinds false (zipOpt opToks raw)
  let settleOp := settle.toList.map fun (_, ds) => Lag.L.LOp.settle (fun i => (deltaOf ds i).n)
  let lops := lpLagOps steps ++ settleOp
  let ops := steps.map (·.2)
  let n := kinds.length
  let rawAll := raw ++ settle.toList
  let obs := lpObs (fun _ => {}) rawAll
  let model := dropLands lops (Lag.L.lrun kinds lops)
  let agree := model.length == obs.length &&
    (model.zip obs).all fun (m, o) => m.res == o.res && snapEq n m.snap o.snap
  let fails := Lag.L.lcheck kinds lops (lpSynth (fun _ => {}) steps rawAll)
  let br := dedup (lpBranches (LP.init kinds) ops ++ (if steps.any (·.1.isSome) then ["late-export"] else []) ++
    (match settle with | some (_, ds) => if ds.isEmpty then ["settle-quiet"] else ["settle-arrival"] | none => []))
  pure { agree := agree, spec := if fails.any then "FAIL:" ++ failTags fails else "ok",
         nontrivial := raw.any (fun (_, ds) => !ds.isEmpty),
         branches := if br.isEmpty then "-" else ",".intercalate br,
         model := " ".intercalate (renderLP n (fun _ => {}) model) }

/-! ### logger provider, callback results as a script dimension (`elp`) -/
/-- the Choice bit `e` = a CONTEXT error was reported (a user error is not one) -/
def parseLPOpE (t : String) (o : Option (Res × List (Nat × Cnt))) : Option LP.Op :=
  let ctxErr := match o with | some (.err c d _, _) => c || d | _ => false
  match parseLPOp t o with
  | some (.flush c ch) => some (.flush c { ch with e := fun _ => ctxErr })
  | some (.shutdown c ch) => some (.shutdown c { ch with e := fun _ => ctxErr })
  | x => x

def elpBranches (E : Nat → Bool) (x : LErr.StE) : List LP.Op → List String
  | [] => []
  | op :: r =>
    let y := LErr.stepE E x op
    let base := match lpBranches x.st [op] with | b :: _ => b | [] => "-"
    let tag := match op with
      | .emit _ => if y.1.handled != x.handled then "em-error-handled" else base
      | .flush _ _ => if y.2 == LErr.userErr then "ff-user-error" else base
      | .shutdown _ _ => if y.2 == LErr.userErr then "sd-user-error" else base
      | _ => base
    tag :: elpBranches E y.1 r

def elpLine (kindsS : String) (opToks obsToksAll : List String) : Option Verdict := do
  let kinds ← parseKinds parseLKind kindsS
  let E := parseE kindsS
  let (obsToks, settleTok) := splitSettle obsToksAll
  let settleQuiet := match settleTok with | some t => t == "-" | none => true
  let raw ← obsToks.mapM parseObs
  let ops ← (zipOpt opToks raw).mapM fun (t, o) => parseLPOpE t o
  -- a done context makes the export of a batch processor around a recording exporter asynchronous (Lag.lean): not part
  -- of these scripts
  if kinds.any (fun k => k == .batchRec) &&
     ops.any (fun o => match o with | .shutdown c _ | .flush c _ => c.done | _ => false) then none
  let n := kinds.length
  let obs := lpObs (fun _ => {}) raw
  let model := LErr.runE E kinds ops
  let agree := model.length == obs.length &&
    (model.zip obs).all fun (m, o) => m.res == o.res && snapEq n m.snap o.snap
  let fails := (LErr.checkE E kinds ops obs).or { m := !settleQuiet }
  let br := dedup (elpBranches E { st := LP.init kinds } ops)
  pure { agree := agree, spec := if fails.any then "FAIL:" ++ failTags fails else "ok",
         nontrivial := raw.any (fun (_, ds) => !ds.isEmpty),
         branches := if br.isEmpty then "-" else ",".intercalate br,
         model := " ".intercalate (renderLP n (fun _ => {}) model) }

/-! ### meter provider -/
def parseRKind (s : String) : Option MP.RKind :=
  match baseKind s with
  | "m" => some .manual | "p" | "pe" | "pf" | "ps" | "pa" => some .periodic | _ => none

/-- choice of a ForceFlush with a done context, read off the observation: for a live reader the code is
`Δn + 2·Δf`; for readers that are shut down the error flags tell which select branches were taken (first
periodic reader answers ErrReaderShutdown iff the `s` flag is present, the others the context error iff `c`/`d`) -/
def mpChoice (kinds : List MP.RKind) (o : Option (Res × List (Nat × Cnt))) (shut : Bool) : Choice :=
  let ds := (o.map (·.2)).getD []
  if !shut then { k := fun i => (deltaOf ds i).n + 2 * (deltaOf ds i).f }
  else
    let (cflag, sflag) := match o with | some (.err c d s, _) => (c || d, s) | _ => (false, true)
    let firstP := (kinds.zipIdx.find? fun (k, _) => k == .periodic).map (·.2)
    { k := fun i => if sflag && (some i == firstP || !cflag) then 0 else 1 }

/-- remove `l i` Export calls from the observed deltas (they are attributed to a preceding `land`) -/
def subLag (l : Nat → Nat) (o : Option (Res × List (Nat × Cnt))) : Option (Res × List (Nat × Cnt)) :=
  o.map fun (r, ds) => (r, ds.map fun (i, c) => (i, { c with n := c.n - l i }))

/-- One observed step = an optional asynchronous arrival followed by the API op: Export calls of a periodic
reader beyond what the call can cause by itself (one for a ForceFlush before Shutdown or the first Shutdown, none
otherwise) are attributed to a preceding `land`. -/
def parseMPSteps (kinds : List MP.RKind) :
    Bool → List (String × Option (Res × List (Nat × Cnt))) → Option (List (Option (Nat → Nat) × MP.Op))
  | _, [] => some []
  | shut, (t, o) :: rest => do
    let ds := (o.map (·.2)).getD []
    let isFS := t.startsWith "ff:" || t.startsWith "sd:"
    let own := if isFS && !shut then 1 else 0
    let lag : Nat → Nat := fun i => if MP.kindOf kinds i == .periodic then (deltaOf ds i).n - min (deltaOf ds i).n own else 0
    let hasLag := (List.range kinds.length).any (fun i => lag i != 0)
    let o' := if hasLag then subLag lag o else o
    let (op, shut') ← match t.splitOn ":" with
      | ["mt", k] => k.toNat?.map fun k => (MP.Op.meter k, shut)
      | ["ad", k] => k.toNat?.map fun k => (MP.Op.add k, shut)
      | ["co", i] => i.toNat?.map fun i => (MP.Op.collect i, shut)
      | ["ff", c] => (parseCtx c).map fun c => (MP.Op.flush c (mpChoice kinds o' shut), shut)
      | ["sd", c] => (parseCtx c).map fun c => (MP.Op.shutdown c, true)
      | _ => none
    pure ((if hasLag then some lag else none, op) :: (← parseMPSteps kinds shut' rest))

def mpLagOps : List (Option (Nat → Nat) × MP.Op) → List Lag.M.MOp
  | [] => []
  | (some l, o) :: r => .land l :: .api o :: mpLagOps r
  | (none, o) :: r => .api o :: mpLagOps r

def dropLandsM {α : Type} : List Lag.M.MOp → List α → List α
  | .land _ :: ops, _ :: xs => dropLandsM ops xs
  | .api _ :: ops, x :: xs => x :: dropLandsM ops xs
  | .settle _ :: ops, x :: xs => x :: dropLandsM ops xs
  | _, _ => []

def mpObs (prev : Nat → Cnt) : List (Res × List (Nat × Cnt)) → List MP.Obs
  | [] => []
  | (r, ds) :: rest => let cur := applyDeltas prev ds; { res := r, snap := cur } :: mpObs cur rest

def renderMP (n : Nat) (prev : Nat → Cnt) : List MP.Obs → List String
  | [] => []
  | o :: r => (renderRes o.res ++ renderDelta n prev o.snap) :: renderMP n o.snap r

def mpBranch (s : MP.St) : MP.Op → String
  | .meter _ => if s.stopped then "mt-noop" else "mt-sdk"
  | .add k => match s.meters k with | some true => "ad-sdk" | some false => "ad-noop" | none => "ad-none"
  | .collect _ => if s.once then "co-shut" else "co-live"
  | .flush c _ => (if s.once then "ff-after" else "ff-before") ++ (if c.done then "-done" else "-live")
  | .shutdown _ => if s.once then "sd-again" else "sd-first"

def mpBranches (s : MP.St) : List MP.Op → List String
  | [] => []
  | op :: r => mpBranch s op :: mpBranches (MP.step s op).1 r

def mpSynth (prev : Nat → Cnt) :
    List (Option (Nat → Nat) × MP.Op) → List (Res × List (Nat × Cnt)) → List MP.Obs
  | (lag, _) :: ss, (r, ds) :: rest =>
    let cur := applyDeltas prev ds
    match lag with
    | some l => { res := .none, snap := fun i => { prev i with n := (prev i).n + l i } } ::
        { res := r, snap := cur } :: mpSynth cur ss rest
    | none => { res := r, snap := cur } :: mpSynth cur ss rest
  | [], raws => mpObs prev raws
  | _, [] => []

def mpLine (kindsS : String) (opToks obsToksAll : List String) : Option Verdict := do
  let kinds ← parseKinds parseRKind kindsS
  let (obsToks, settleTok) := splitSettle obsToksAll
  let raw ← obsToks.mapM parseObs
  let settle ← match settleTok with | some t => (parseObs t).map some | none => some none
  let steps ← parseMPSteps kinds false (zipOpt opToks raw)
  let settleOp := settle.toList.map fun (_, ds) => Lag.M.MOp.settle (fun i => (deltaOf ds i).n)
  let mops := mpLagOps steps ++ settleOp
  let ops := steps.map (·.2)
  let n := kinds.length
  let rawAll := raw ++ settle.toList
  let obs := mpObs (fun _ => {}) rawAll
  let model := dropLandsM mops (Lag.M.mrun kinds mops)
  let agree := model.length == obs.length &&
    (model.zip obs).all fun (m, o) => m.res == o.res && snapEq n m.snap o.snap
  let fails := Lag.M.mcheck kinds mops (mpSynth (fun _ => {}) steps rawAll)
  let br := dedup (mpBranches (MP.init kinds) ops ++ (if steps.any (·.1.isSome) then ["late-export"] else []) ++
    (match settle with | some (_, ds) => if ds.isEmpty then ["settle-quiet"] else ["settle-arrival"] | none => []))
  pure { agree := agree, spec := if fails.any then "FAIL:" ++ failTags fails else "ok",
         nontrivial := raw.any (fun (_, ds) => !ds.isEmpty),
         branches := if br.isEmpty then "-" else ",".intercalate br,
         model := " ".intercalate (renderMP n (fun _ => {}) model) }

/-! ### meter provider, callback results as a script dimension (`emp`) -/
def parseEM (kindsS : String) : MErr.ErrSet :=
  let ks := if kindsS == "-" then [] else (kindsS.splitOn ",").map baseKind
  let k := fun (i : Nat) => ks.getD i ""
  { x := fun i => k i == "pe" || k i == "pa", f := fun i => k i == "pf" || k i == "pa",
    s := fun i => k i == "ps" || k i == "pa" }

/-- live contexts only (a done context races inside PeriodicReader.ForceFlush: not part of these scripts) -/
def parseMPOpE (t : String) : Option MP.Op :=
  match t.splitOn ":" with
  | ["mt", k] => k.toNat?.map .meter
  | ["ad", k] => k.toNat?.map .add
  | ["co", i] => i.toNat?.map .collect
  | ["ff", c] => (parseCtx c).bind fun c => if c.done then none else some (.flush c {})
  | ["sd", c] => (parseCtx c).bind fun c => if c.done then none else some (.shutdown c)
  | _ => none

def empBranches (E : MErr.ErrSet) (s : MP.St) : List MP.Op → List String
  | [] => []
  | op :: r =>
    let y := MErr.stepE E s op
    let tag := match op with
      | .flush _ _ => if y.2 == MErr.userErr then
            (if (List.range s.n).any (fun i => MErr.errFlush E s.pool i && E.x i) then "ff-export-error-skips-exporter-flush"
             else "ff-user-error")
          else mpBranch s op
      | .shutdown _ => if y.2 == MErr.userErr then "sd-user-error" else mpBranch s op
      | _ => mpBranch s op
    tag :: empBranches E y.1 r

def empLine (kindsS : String) (opToks obsToksAll : List String) : Option Verdict := do
  let kinds ← parseKinds parseRKind kindsS
  let E := parseEM kindsS
  let (obsToks, settleTok) := splitSettle obsToksAll
  let settleQuiet := match settleTok with | some t => t == "-" | none => true
  let raw ← obsToks.mapM parseObs
  let ops ← opToks.mapM parseMPOpE
  let n := kinds.length
  let obs := mpObs (fun _ => {}) raw
  let model := MErr.runE E kinds ops
  let agree := model.length == obs.length &&
    (model.zip obs).all fun (m, o) => m.res == o.res && snapEq n m.snap o.snap
  let fails := (MErr.checkE E kinds ops obs).or { m := !settleQuiet }
  let br := dedup (empBranches E (MP.init kinds) ops)
  pure { agree := agree, spec := if fails.any then "FAIL:" ++ failTags fails else "ok",
         nontrivial := raw.any (fun (_, ds) => !ds.isEmpty),
         branches := if br.isEmpty then "-" else ",".intercalate br,
         model := " ".intercalate (renderMP n (fun _ => {}) model) }

/-! ### re-entrant user callbacks (`rtp`, `rlp`, `rmp`) -/
def parseAct : String → Option Reent.Act
  | "sp" => some .sp | "ff" => some .ff | _ => none

/-- `sr@s=sp@x=ff` → hooks of the component -/
def parseHook (k : String) : Option Reent.Hook :=
  ((k.splitOn "@").drop 1).foldlM (fun (h : Reent.Hook) (t : String) =>
    match t.splitOn "=" with
    | [c, a] => do
      let a ← parseAct a
      match c with
      | "a" => some { h with a := some a } | "e" => some { h with e := some a }
      | "f" => some { h with f := some a } | "s" => some { h with s := some a }
      | "x" => some { h with x := some a } | _ => none
    | _ => none) {}

def rtpLine (kindsS : String) (opToks obsToksAll : List String) : Option Verdict := do
  let kinds ← parseKinds parsePKind kindsS
  let hooks ← (if kindsS == "-" then some [] else (kindsS.splitOn ",").mapM parseHook)
  let hk : Nat → Reent.Hook := fun i => hooks.getD i {}
  if obsToksAll.any (fun t => t == "panic" || t == "hang") then
    return { agree := false, spec := "FAIL:crash", nontrivial := true,
             branches := if obsToksAll.contains "hang" then "blocks-forever" else "crash", model := "-" }
  let (obsToks, settleTok) := splitSettle obsToksAll
  let raw ← obsToks.mapM parseObs
  let settle ← match settleTok with | some t => (parseObs t).map some | none => some none
  -- re-entrant scripts use contexts without a deadline or with a far one only
  let ops ← (zipOpt opToks raw).mapM fun (t, o) => parseTPOp t o
  if ops.any (fun | .shutdown c _ => c.done | .flush c => c.done | _ => false) then none
  let n := kinds.length
  let obs := tpObs (fun _ => {}) raw
  let model := Reent.rrun kinds hk ops
  let settleQuiet := match settle with | some (_, ds) => ds.isEmpty | none => true
  let agree := model.length == obs.length && settleQuiet &&
    (model.zip obs).all fun (m, o) => m.res == o.res && snapEq n m.snap o.snap
  let fails := (Reent.rcheck kinds ops obs).or { o := !settleQuiet, t := settle.isNone }
  let reent := (model.zip (TP.run kinds ops)).any fun (m, p) => !snapEq n m.snap p.snap
  let br := dedup (tpBranches (TP.init kinds) ops ++ (if reent then ["reentrant-effect"] else []))
  pure { agree := agree, spec := if fails.any then "FAIL:" ++ failTags fails else "ok",
         nontrivial := reent,
         branches := if br.isEmpty then "-" else ",".intercalate br,
         model := " ".intercalate (renderTP n (fun _ => {}) model) }

/-- re-entrant log script: history oracle only (every call returned, exactly-once Shutdown counts, results) -/
def rlpLine (kindsS : String) (opToks obsToksAll : List String) : Option Verdict := do
  let kinds ← parseKinds parseLKind kindsS
  if obsToksAll.any (fun t => t == "panic" || t == "hang") then
    return { agree := false, spec := "FAIL:crash", nontrivial := true,
             branches := if obsToksAll.contains "hang" then "blocks-forever" else "crash", model := "-" }
  let (obsToks, settleTok) := splitSettle obsToksAll
  let raw ← (obsToks ++ settleTok.toList).mapM parseObs
  let ops ← (zipOpt opToks raw).mapM fun (t, o) => parseLPOp t o
  let obs := lpObs (fun _ => {}) raw
  let rec go (r : Spec.LP.Ref) (prev : Nat → Cnt) : List LP.Op → List LP.Obs → Spec.Fails
    | op :: ops, o :: obs =>
      let c := Spec.LP.checkStep kinds r op prev o.snap o.res
      ({ o := c.o, a := !Spec.LP.resOK kinds r op o.res, t := c.t } : Spec.Fails).or
        (go (Spec.LP.refStep r op o.res) o.snap ops obs)
    | _, _ => Spec.Fails.none
  let fails := (go {} (fun _ => {}) ops obs).or { t := settleTok.isNone || obsToks.length != opToks.length }
  pure { agree := true, spec := if fails.any then "FAIL:" ++ failTags fails else "ok",
         nontrivial := raw.any (fun (_, ds) => !ds.isEmpty), branches := "reentrant", model := "-" }

def rmpLine (kindsS : String) (opToks obsToksAll : List String) : Option Verdict := do
  let kinds ← parseKinds parseRKind kindsS
  if obsToksAll.any (fun t => t == "panic" || t == "hang") then
    return { agree := false, spec := "FAIL:crash", nontrivial := true,
             branches := if obsToksAll.contains "hang" then "blocks-forever" else "crash", model := "-" }
  let (obsToks, settleTok) := splitSettle obsToksAll
  let raw ← (obsToks ++ settleTok.toList).mapM parseObs
  let steps ← parseMPSteps kinds false (zipOpt opToks raw)
  let ops := steps.map (·.2)
  let obs := mpObs (fun _ => {}) raw
  let rec go (r : Spec.MP.Ref) (prev : Nat → Cnt) : List MP.Op → List MP.Obs → Spec.Fails
    | op :: ops, o :: obs =>
      let c := Spec.MP.checkStep kinds r op prev o.snap o.res
      -- the collected total includes what the hooks recorded: only its class is judged
      let resok := match op, o.res with
        | .collect i, .val _ => decide (i < kinds.length) && !r.shut
        | _, res => Spec.MP.resOK kinds r op res
      ({ o := c.o, a := !resok, t := c.t } : Spec.Fails).or (go (Spec.MP.refStep r op o.res) o.snap ops obs)
    | _, _ => Spec.Fails.none
  let fails := (go {} (fun _ => {}) ops obs).or { t := settleTok.isNone || obsToks.length != opToks.length }
  pure { agree := true, spec := if fails.any then "FAIL:" ++ failTags fails else "ok",
         nontrivial := raw.any (fun (_, ds) => !ds.isEmpty), branches := "reentrant", model := "-" }

/-! ### concurrent variant: judged by the history oracle only
`<prefix> ! <callers> ! <suffix>`; the suffix starts with `sd:b`.  Requirements: no crash; every caller's
Shutdown/ForceFlush answers nil (metric: exactly one Shutdown over the whole line answers nil, all others the
documented ErrReaderShutdown; ForceFlush nil or ErrReaderShutdown); at the end of the line every observable
component that was registered (once) has seen exactly one Shutdown, all others none; everything after the first
op of the suffix is a no-op (no counter moves, no-op handles, nil / ErrReaderShutdown). -/
def concLine (kind kindsS : String) (opToks obsToks : List String) : Option Verdict := do
  let [pre, mid, suf] := splitBang opToks | none
  let og := splitBang obsToks
  let crashed := obsToks.any fun t => t == "panic" || t == "hang"
  if crashed then
    return { agree := false, spec := "FAIL:crash", nontrivial := true, branches := "crash", model := "-" }
  let [opre, omid, odelta, osuf] := og | none
  let rpre ← opre.mapM parseObs
  let rmid ← omid.mapM parseRes
  let rdelta ← odelta.mapM parseObs
  let rsuf ← osuf.mapM parseObs
  if rmid.length != mid.length || rsuf.length != suf.length || rpre.length != pre.length then none
  let nK := (kindsS.splitOn ",").length
  let kindOf := fun i => (kindsS.splitOn ",").getD i "-"
  let all := rpre ++ rdelta ++ rsuf
  let total : Nat → Cnt := all.foldl (fun sn (x : Res × List (Nat × Cnt)) => applyDeltas sn x.2) (fun (_ : Nat) => ({} : Cnt))
  -- members: registered in the prefix (trace); every component (log, metric)
  let regd := fun (i : Nat) => if kind == "ctp" then pre.contains s!"reg:{i}" else true
  let once := (List.range nK).all fun i => (pre.filter (· == s!"reg:{i}")).length ≤ 1
  let observable := fun (i : Nat) => let k := kindOf i; k == "r" || k == "sr" || k == "br" || k == "p"
  let onceOK := (List.range nK).all fun i =>
    (total i).s == (if regd i && observable i then 1 else 0)
  let sdRes := (mid.zip rmid).filterMap fun (o, r) => if o.startsWith "sd" then some r else none
  let ffRes := (mid.zip rmid).filterMap fun (o, r) => if o.startsWith "ff" then some r else none
  let sufRes := (suf.zip rsuf).map fun (o, r) => (o, r.1)
  let sdAll := sdRes ++ (sufRes.filterMap fun (o, r) => if o.startsWith "sd" then some r else none)
  let rshut := Res.err false false true
  let resOK :=
    if kind == "cmp" then
      (sdAll.filter (· == .ok)).length == 1 && sdAll.all (fun r => r == .ok || r == rshut) &&
      ffRes.all (fun r => r == .ok || r == rshut)
    else sdAll.all (· == .ok) && ffRes.all (· == .ok)
  let afterOK := (sufRes.drop 1).all (fun (o, r) =>
      if o.startsWith "tr" || o.startsWith "lg" || o.startsWith "mt" then r == .noop
      else if o.startsWith "co" then r == rshut
      else if o.startsWith "ff" then r == .ok || (kind == "cmp" && r == rshut)
      else if o.startsWith "sd" then r == .ok || (kind == "cmp" && r == rshut)
      else r == .none) &&
    (rsuf.drop 1).all (fun (_, ds) => ds.isEmpty)
  let fails : Spec.Fails := { o := !onceOK, a := !(resOK && afterOK) }
  pure { agree := true, spec := if !once then "na" else if fails.any then "FAIL:" ++ failTags fails else "ok",
         nontrivial := all.any (fun (_, ds) => !ds.isEmpty),
         branches := s!"callers{mid.length}" ++ (if sdRes.length ≥ 2 then ",multi-sd" else "") ++
           (if mid.any (·.startsWith "unr") then ",conc-unr" else ""),
         model := "-" }

/-- `gmp <gen> <ctx> <via> => <exportsAfterShutdown> <exporterShutdowns> <returnedWhileParked> <result>` (leg `tick`): a timer-tick
collection parked in the run goroutine while Shutdown is called. Model = `Tick.run` on the forced schedule; oracle:
no Export after the exporter's Shutdown, exactly one exporter Shutdown, Shutdown did not return while the collection
was in flight (the conclusions of PropsTick). The result class is recorded, not judged. -/
def gmpLine (ctxS : String) (obs : List String) : Option Verdict := do
  let c ← match ctxS with
    | "b" => some false | "c" => some true | "x" => some true | _ => none
  let [aS, sS, eS, res] := obs | none
  if res == "hang" || res == "notick" then
    return { agree := false, spec := "FAIL:" ++ res, nontrivial := true, branches := res, model := "-" }
  let a ← aS.toNat?
  let sh ← sS.toNat?
  let e ← eS.toNat?
  let m ← Tick.run c {} Tick.forced
  let model := s!"{m.exportsAfterShut} {m.expShut} {if m.returnedWhileCollecting then 1 else 0}"
  let fails := (if a != 0 then ["export-after-exporter-shutdown"] else []) ++
    (if sh != 1 then ["exporter-shutdown-not-once"] else []) ++
    (if e != 0 then ["shutdown-returned-before-run-loop-exited"] else [])
  pure { agree := model == s!"{a} {sh} {e}", spec := if fails.isEmpty then "ok" else "FAIL:" ++ ",".intercalate fails,
         nontrivial := true, branches := s!"tick-{ctxS}", model := model }

def stepLine (_ : Unit) (toks : List String) : Unit × Option Verdict :=
  let (inp, obs) := splitObs toks
  match inp with
  | "tp" :: _ :: kinds :: _ :: "|" :: ops => ((), tpLine kinds ops obs)
  | "gtp" :: _ :: kinds :: "|" :: ops => ((), gtpLine kinds ops obs)
  | "ptp" :: _ :: kinds :: "|" :: ops => ((), ptpLine kinds ops obs)
  | ["gmp", _, ctxS, _] => ((), gmpLine ctxS obs)
  | "etp" :: _ :: kinds :: "|" :: ops => ((), etpLine kinds ops obs)
  | "elp" :: _ :: kinds :: "|" :: ops => ((), elpLine kinds ops obs)
  | "emp" :: _ :: kinds :: "|" :: ops => ((), empLine kinds ops obs)
  | "rtp" :: _ :: kinds :: "|" :: ops => ((), rtpLine kinds ops obs)
  | "rlp" :: _ :: kinds :: "|" :: ops => ((), rlpLine kinds ops obs)
  | "rmp" :: _ :: kinds :: "|" :: ops => ((), rmpLine kinds ops obs)
  | "lp" :: _ :: kinds :: "|" :: ops => ((), lpLine kinds ops obs)
  | "mp" :: _ :: kinds :: "|" :: ops => ((), mpLine kinds ops obs)
  | "ctp" :: _ :: kinds :: "|" :: ops => ((), concLine "ctp" kinds ops obs)
  | "clp" :: _ :: kinds :: "|" :: ops => ((), concLine "clp" kinds ops obs)
  | "cmp" :: _ :: kinds :: "|" :: ops => ((), concLine "cmp" kinds ops obs)
  | _ => ((), none)

def main : IO Unit := Wire.run () stepLine
