/-
C15 — what is proved about the executable nested model `Reent.rrun` (trace provider with re-entrant user callbacks).
-/
import Otel.C15.Model
import Otel.C15.Spec
import Otel.C15.Reent
import Otel.C15.ReentLemmas
namespace Otel.C15.PropsReent
open Otel.C15 Otel.C15.TP Otel.C15.Reent Otel.C15.ReentLemmas

/-- (1) Hooks never register, unregister or shut anything down: for every pool, EVERY hook assignment and every
script whose contexts are not done (re-entrant scripts use no other), the results of all calls and the Shutdown
count of every processor / exporter after every step of `rrun` are those of the proved hook-free model `TP.run` on
the same script.  So the exactly-once clause (`Props.shutdown_once`, `PropsLag.tp_lifecycle_settled`) transfers to
re-entrant scripts: whatever a user callback does through a tracer obtained before, or through ForceFlush, no
exporter is shut down twice or not at all because of it. -/
theorem reent_hooks_preserve_shutdown_counts (kinds : List PKind) (hk : Nat → Hook) (ops : List Op)
    (hl : ops.all liveOp = true) :
    (rrun kinds hk ops).map (·.res) = (TP.run kinds ops).map (·.res) ∧
    ∀ i, i < kinds.length →
      (rrun kinds hk ops).map (fun o => (o.snap i).s) = (TP.run kinds ops).map (fun o => (o.snap i).s) := by
  obtain ⟨a1, a2⟩ := rrunFrom_sim hk noHooks ops _ _
    (rsim_refl { pool := ofFn kinds.length (init kinds).pool, procs := [] })
  obtain ⟨b1, b2⟩ := rrunFrom_noHooks ops _ _ (rcorr_init kinds) hl
  refine ⟨a1.trans b1, fun i hi => ?_⟩
  rw [rrun, a2 i]
  have := b2 i (by simp [size_ofFn]; exact hi)
  have h2 := congrArg (List.map fun (c : Cnt) => c.s) this
  simpa [List.map_map, Function.comp_def, TP.run] using h2

/-- the same for any two hook assignments: results and Shutdown counts do not depend on the hooks (no restriction
on the contexts) -/
theorem reent_shutdown_counts_hook_independent (kinds : List PKind) (hk1 hk2 : Nat → Hook) (ops : List Op) :
    (rrun kinds hk1 ops).map (·.res) = (rrun kinds hk2 ops).map (·.res) ∧
    ∀ i, (rrun kinds hk1 ops).map (fun o => (o.snap i).s) = (rrun kinds hk2 ops).map (fun o => (o.snap i).s) :=
  rrunFrom_sim hk1 hk2 ops _ _ (rsim_refl _)

/-- (1') without hooks the nested model IS the proved sequential model: same results, same counters of every
component of the script after every step. -/
theorem reent_no_hooks_is_sequential (kinds : List PKind) (ops : List Op) (hl : ops.all liveOp = true) :
    (rrun kinds noHooks ops).map (·.res) = (TP.run kinds ops).map (·.res) ∧
    ∀ i, i < kinds.length →
      (rrun kinds noHooks ops).map (fun o => o.snap i) = (TP.run kinds ops).map (fun o => o.snap i) := by
  obtain ⟨b1, b2⟩ := rrunFrom_noHooks ops _ _ (rcorr_init kinds) hl
  exact ⟨b1, fun i hi => b2 i (by simp [size_ofFn]; exact hi)⟩

/-- (2) A re-entrant call is an ORDINARY call at that moment (flattening at the level of one callback): whatever
the provider state `s` is when the callback runs — its list `s.procs` is the list the callback site passes, see
`reent_callback_sites` —, the pool after a hook's span start+end is the pool after the hook-free op `span k` of the
sequential model on that state (any slot `k` holding an SDK tracer), and the pool after a hook's ForceFlush is the
pool after the op `flush background`: the span is delivered to exactly the processors in the list at that moment,
with their multiplicities, by the same code path as any other span. -/
theorem reent_call_sees_current_membership (s : St) (a : Array PS) (h : Corr a s.pool) :
    (∀ k, s.tracers k = some true → Corr (runAct s.procs a (some .sp)) (TP.step s (.span k)).1.pool) ∧
    Corr (runAct s.procs a (some .ff)) (TP.step s (.flush .bg)).1.pool ∧
    Corr (runAct s.procs a none) s.pool := by
  refine ⟨fun k hk => ?_, ?_, h⟩
  · simp only [TP.step, hk]
    exact corr_runAct_sp _ _ _ h
  · cases hp : s.procs with
    | nil => simp only [TP.step, hp, runAct]; exact h
    | cons p r =>
      simp only [TP.step, hp, Ctx.done]
      exact corr_runAct_ff _ _ _ h (by simp)

/-- the list each callback site passes to the hooks: during the provider's Shutdown the COMPLETE list (it is cleared
only after the loop), during Unregister the OLD list (the removed processor is still in it while its Shutdown runs),
during ForceFlush / Start / End the current list. -/
theorem reent_callback_sites (hk : Nat → Hook) (s : RSt) :
    (∀ c ch, s.isShutdown = false →
      (rstep hk s (.shutdown c ch)).1.pool =
        s.procs.foldl (fun pl p => if p.2 then pl else shutdownH hk s.procs pl p.1) s.pool ∧
      (rstep hk s (.shutdown c ch)).1.procs = []) ∧
    (∀ i q rest, s.isShutdown = false → removeLast i s.procs = some ((q, false), rest) →
      (rstep hk s (.unreg i)).1.pool = shutdownH hk s.procs s.pool i ∧ (rstep hk s (.unreg i)).1.procs = rest) ∧
    (∀ c, s.procs ≠ [] →
      (rstep hk s (.flush c)).1.pool = s.procs.foldl (fun pl p => flushH hk s.procs pl p.1) s.pool) ∧
    (∀ j, s.spans j = .live true →
      (rstep hk s (.end_ j)).1.pool = s.procs.foldl (fun pl p => onEndH hk s.procs pl p.1) s.pool) := by
  refine ⟨fun c ch hs => ?_, fun i q rest hs hr => ?_, fun c hne => ?_, fun j hj => ?_⟩
  · simp [rstep, hs]
  · simp [rstep, hs, hr]
  · cases hp : s.procs with
    | nil => exact absurd hp hne
    | cons p r => simp [rstep, hp]
  · simp [rstep, hj]

/-- (3) Termination / depth: `rrun` is defined by structural recursion on the script — no fuel — and produces
exactly one observation per op; the re-entrant call `runAct` does not take the hook assignment at all (its callbacks
are the hook-free ones of the sequential model): hooks fire at depth 0 only, by construction, and each callback of
an op fires at most two of them (Export and Shutdown of a batch processor's drain). -/
theorem reent_terminates (kinds : List PKind) (hk : Nat → Hook) (ops : List Op) :
    (rrun kinds hk ops).length = ops.length :=
  rrunFrom_length hk _ ops

/-! ### Non-vacuity -/

/-- the seeded C15-8 scenario and more: a simple processor whose exporter's Shutdown ends a span, a recording
processor whose OnEnd calls ForceFlush and whose Shutdown ends a span, a batch processor whose Export ends a span -/
def exKinds : List PKind := [.simpleRec, .recd, .batchRec]
def exHooks : Nat → Hook := fun i =>
  if i = 0 then { s := some .sp } else if i = 1 then { e := some .ff, s := some .sp } else { x := some .sp }
def exOps : List Op :=
  [.tracer 0, .reg 0, .reg 1, .reg 2, .span 0, .flush .bg, .unreg 0, .span 0, .shutdown .bg {}, .span 0]

example : exOps.all liveOp = true := by decide
/-- the hooks change deliveries (OnEnd of the recording processor, exports of the batch processor) … -/
example : ((rrun exKinds exHooks exOps).map fun o => ((o.snap 1).e, (o.snap 2).n)).getLast? = some (6, 5) := by decide
example : ((TP.run exKinds exOps).map fun o => ((o.snap 1).e, (o.snap 2).n)).getLast? = some (2, 2) := by decide
/-- … but not the Shutdown counts (instance of theorem 1) -/
example : (rrun exKinds exHooks exOps).map (fun o => ((o.snap 0).s, (o.snap 1).s, (o.snap 2).s)) =
    (TP.run exKinds exOps).map (fun o => ((o.snap 0).s, (o.snap 1).s, (o.snap 2).s)) := by decide
/-- instance of (2): during the provider's Shutdown the simple processor's exporter hook ends a span: the recording
processor (still in the list) receives it — its OnEnd count moves inside the Shutdown step -/
example : ((rrun exKinds exHooks exOps).map fun o => (o.snap 1).e).drop 7 = [4, 6, 6] := by decide

end Otel.C15.PropsReent
