/-
C15 — all three providers with asynchronous arrivals of what a raced (done-context) call started.
-/
import Otel.C15.Model
import Otel.C15.Spec
import Otel.C15.Lag
import Otel.C15.LagLemmas
import Otel.C15.LagLemmasT
namespace Otel.C15.PropsLag
open Otel.C15 Otel.C15.Lag Otel.C15.LagLemmas

/-- Trace provider, all clauses, with late arrivals: for every pool of processors and EVERY sequence of API calls
(every resolution `Choice` of a Shutdown with a done context) interleaved with EVERY placement and size of
asynchronous arrivals (`land`: the goroutine a stock processor started in its raced Shutdown exports queued spans /
calls the exporter's Shutdown after the provider's Shutdown has returned), the run passes `Lag.T.tcheck`: every API
step satisfies `Spec.TP.checkStep`, and an arrival only ever concerns a stock processor that a provider Shutdown
with a done context took out of service: its exporter's Shutdown count stays at most one, its exports never exceed
what was delivered to it while it was alive, nothing else moves. `Props.tp_lifecycle` is the special case
without arrivals. -/
theorem tp_lifecycle_async (kinds : List TP.PKind) (ops : List T.TOp) :
    T.tcheck kinds ops (T.trun kinds ops) = Spec.Fails.none := by
  have := LagLemmasT.tcheckFrom_none (kinds := kinds) ops { st := TP.init kinds } {} (LagLemmasT.tinv_init kinds)
  have hs : Lemmas.snapOf (TP.init kinds) = fun _ => {} := by
    funext i; simp [Lemmas.snapOf, TP.init]
  simp only at this
  rw [hs] at this
  simp [T.tcheck, T.trun, this, LagLemmasT.trunFrom_length, Spec.Fails.or, Spec.Fails.none]

/-- Logger provider, all clauses, with late exports: for every pool of log processors and EVERY sequence of API
calls (with every resolution `Choice` of the done-context races: context error reported or not, how many records
were already exported when the raced ForceFlush / Shutdown returned, whether the exporter's ForceFlush was reached)
interleaved with EVERY placement and size of asynchronous arrivals (`land`: the export goroutine of a batch
processor exports records that a raced call left in the export buffer / queue — before or after Shutdown), the
run passes `Lag.L.lcheck`: every API step satisfies `Spec.LP.checkStep` (exact delivery, single shutdown, no-op
handles and results, everything exported when a live ForceFlush / Shutdown returns) and an arrival only ever
exports records a ForceFlush / Shutdown has already tried to flush — never a record emitted after Shutdown, never
more than were emitted — and moves nothing else. `Props.lp_lifecycle` is the special case without arrivals. -/
theorem lp_lifecycle_async (kinds : List LP.LKind) (ops : List L.LOp) :
    L.lcheck kinds ops (L.lrun kinds ops) = Spec.Fails.none := by
  have := L.lcheckFrom_none (kinds := kinds) ops { st := LP.init kinds } {} (L.linv_init kinds)
  have hs : LemmasLP.snapOf (LP.init kinds) = fun _ => {} := by
    funext i; simp [LemmasLP.snapOf, LP.init]
  simp only at this
  rw [hs] at this
  simp [L.lcheck, L.lrun, this, L.lrunFrom_length, Spec.Fails.or, Spec.Fails.none]

/-- Meter provider, all clauses, with late exports: for every pool of readers and EVERY sequence of API calls
(every resolution of the ForceFlush races) interleaved with EVERY placement of asynchronous arrivals (`land`: the
run loop of a periodic reader performs the Export started by a raced ForceFlush that had already returned), the
run passes `Lag.M.mcheck`: every API step satisfies `Spec.MP.checkStep`, an arrival is only an Export of a
periodic reader, there are never more Exports than ForceFlush / Shutdown calls that reached the reader, and no
arrival after Shutdown has returned. `Props.mp_lifecycle` is the special case without arrivals. -/
theorem mp_lifecycle_async (kinds : List MP.RKind) (ops : List M.MOp) :
    M.mcheck kinds ops (M.mrun kinds ops) = Spec.Fails.none := by
  have := M.mcheckFrom_none (kinds := kinds) ops { st := MP.init kinds } {} (M.minv_init kinds)
  have hs : LemmasMP.snapOf (MP.init kinds) = fun _ => {} := by
    funext i; simp [LemmasMP.snapOf, MP.init]
  simp only at this
  rw [hs] at this
  simp [M.mcheck, M.mrun, this, M.mrunFrom_length, Spec.Fails.or, Spec.Fails.none]

/-! ### Settled: the at-least-once half of "shut down exactly once" -/

/-- Trace provider: after ANY script (any API calls, any `Choice` of the races of a Shutdown with a done context,
any asynchronous arrivals in between) followed by the settle step — every goroutine has finished, everything
outstanding has arrived — the run passes the oracle whose settle clause has EQUALITIES (no `≤`): the exporter of
every stock processor that was taken out of service (unregistered, provider Shutdown with a live or a done
context, shut down directly) has seen exactly one Shutdown, every other one none; a batch processor taken out of
service has exported exactly the spans delivered to it while it was alive; recording processors have seen exactly
one Shutdown per registration that ended (per-step clause). -/
theorem tp_lifecycle_settled (kinds : List TP.PKind) (ops : List T.TOp) :
    T.tcheck kinds (ops ++ [.settle]) (T.trun kinds (ops ++ [.settle])) = Spec.Fails.none :=
  tp_lifecycle_async kinds _

/-- Logger provider: after any script and any arrivals, at the settle every processor and exporter has seen exactly
one Shutdown iff the provider's Shutdown has been called — whatever its context and however its races resolved. -/
theorem lp_lifecycle_settled (kinds : List LP.LKind) (ops : List L.LOp) (l : Nat → Nat) :
    L.lcheck kinds (ops ++ [.settle l]) (L.lrun kinds (ops ++ [.settle l])) = Spec.Fails.none :=
  lp_lifecycle_async kinds _

/-- Meter provider: after any script and any arrivals, at the settle every periodic reader's exporter has seen
exactly one Shutdown iff the provider's Shutdown has been called. -/
theorem mp_lifecycle_settled (kinds : List MP.RKind) (ops : List M.MOp) (l : Nat → Nat) :
    M.mcheck kinds (ops ++ [.settle l]) (M.mrun kinds (ops ++ [.settle l])) = Spec.Fails.none :=
  mp_lifecycle_async kinds _

/-! ### Non-vacuity -/

/-- Shutdown with a cancelled context returns before either goroutine has done anything; the settle brings the
drain's two exports and exactly one Shutdown for each exporter -/
def sKinds : List TP.PKind := [.simpleRec, .batchRec]
def sOps : List T.TOp :=
  [.api (.tracer 0), .api (.reg 0), .api (.reg 1), .api (.span 0), .api (.span 0),
   .api (.shutdown .cancelled { e := fun _ => true }), .settle]
example : T.tcheck sKinds sOps (T.trun sKinds sOps) = Spec.Fails.none := by decide
example : ((T.trun sKinds sOps).map fun o => ((o.snap 0).n, (o.snap 0).s, (o.snap 1).n, (o.snap 1).s)).drop 5 =
    [(2, 0, 0, 0), (2, 1, 2, 1)] := by decide
/-- the settle oracle is not vacuous: an exporter that is never shut down after the raced Shutdown (what the
mutant `m13` does) fails clause `o`, a drain that never finished clause `m` -/
example : (T.tcheck sKinds sOps ((T.trun sKinds sOps).take 6 ++
    [{ res := .none, snap := fun i => if i = 0 then { n := 2, s := 1 } else { n := 2, s := 0 } }])).o = true := by decide
example : (T.tcheck sKinds sOps ((T.trun sKinds sOps).take 6 ++
    [{ res := .none, snap := fun i => if i = 0 then { n := 2, s := 1 } else { n := 1, s := 1 } }])).m = true := by decide


/-- a simple and a batch processor, two spans, Shutdown with a cancelled context that returns the context error
before either goroutine has done anything; the drain's two exports, then the two exporter Shutdowns arrive later
(more is asked for than is owed: clamped); a span on the old tracer and a second Shutdown change nothing -/
def tKinds : List TP.PKind := [.simpleRec, .batchRec, .recd]
def tOps : List T.TOp :=
  [.api (.tracer 0), .api (.reg 0), .api (.reg 1), .api (.reg 2), .api (.span 0), .api (.span 0),
   .api (.shutdown .cancelled { e := fun _ => true }), .api (.span 0), .land (fun _ => 1) (fun _ => 0),
   .land (fun _ => 5) (fun i => if i = 0 then 3 else 0), .api (.shutdown .bg {}), .land (fun _ => 1) (fun _ => 1),
   .land (fun _ => 1) (fun _ => 1)]

example : T.tcheck tKinds tOps (T.trun tKinds tOps) = Spec.Fails.none := by decide
example : (T.trun tKinds tOps).map (fun o => (o.res, (o.snap 0).n, (o.snap 0).s, (o.snap 1).n, (o.snap 1).s, (o.snap 2).s)) =
    [(.sdk, 0, 0, 0, 0, 0), (.none, 0, 0, 0, 0, 0), (.none, 0, 0, 0, 0, 0), (.none, 0, 0, 0, 0, 0),
     (.none, 1, 0, 0, 0, 0), (.none, 2, 0, 0, 0, 0), (.err true false false, 2, 0, 0, 0, 1),
     (.none, 2, 0, 0, 0, 1), (.none, 2, 0, 1, 0, 1), (.none, 2, 1, 2, 0, 1), (.ok, 2, 1, 2, 0, 1),
     (.none, 2, 1, 2, 1, 1), (.none, 2, 1, 2, 1, 1)] := by decide
/-- the oracle is not vacuous: a second exporter Shutdown arriving fails clause `o` -/
example : (T.tcheck [.simpleRec] [.api (.reg 0), .api (.shutdown .cancelled {}), .land (fun _ => 0) (fun _ => 1)]
    [{ res := .none, snap := fun _ => {} }, { res := .ok, snap := fun _ => { s := 1 } },
     { res := .none, snap := fun _ => { s := 2 } }]).o = true := by decide

/-- the false alarm of the thorough run: ForceFlush with an expired context returns before the export goroutine
has exported the dequeued record; the record shows up with the next live ForceFlush; a second raced flush whose
record arrives during a later Emit; Shutdown with a cancelled context, one more arrival afterwards -/
def lKinds : List LP.LKind := [.recd, .batchRec]
def lose : Choice := { e := fun _ => true }
def lOps : List L.LOp :=
  [.api (.logger 0), .api (.emit 0), .api (.flush .expired lose), .api (.emit 0), .api (.flush .far {}),
   .api (.emit 0), .api (.flush .cancelled lose), .land (fun _ => 5), .api (.emit 0), .api (.emit 0),
   .api (.shutdown .cancelled lose), .api (.emit 0), .land (fun _ => 1), .api (.flush .bg {}), .land (fun _ => 7)]

example : L.lcheck lKinds lOps (L.lrun lKinds lOps) = Spec.Fails.none := by decide
example : (L.lrun lKinds lOps).map (fun o => (o.res, (o.snap 0).e, (o.snap 1).n)) =
    [(.sdk, 0, 0), (.none, 1, 0), (.err false true false, 1, 0), (.none, 2, 0), (.ok, 2, 2), (.none, 3, 2),
     (.err true false false, 3, 2), (.none, 3, 3), (.none, 4, 3), (.none, 5, 3), (.err true false false, 5, 3),
     (.none, 5, 3), (.none, 5, 4), (.ok, 5, 4), (.none, 5, 5)] := by decide
/-- the oracle is not vacuous: an export arriving for a record that no ForceFlush / Shutdown has tried to flush
fails clause `m` -/
example : (L.lcheck [.batchRec] [.api (.logger 0), .api (.emit 0), .land (fun _ => 1)]
    [{ res := .sdk, snap := fun _ => {} }, { res := .none, snap := fun _ => {} },
     { res := .none, snap := fun _ => { n := 1 } }]).m = true := by decide

def mKinds : List MP.RKind := [.periodic]
def mOps : List M.MOp :=
  [.api (.flush .cancelled {}), .api (.add 0), .land (fun _ => 1), .api (.flush .cancelled {}),
   .land (fun _ => 3), .api (.shutdown .bg), .land (fun _ => 1), .api (.flush .bg {})]

example : M.mcheck mKinds mOps (M.mrun mKinds mOps) = Spec.Fails.none := by decide
example : (M.mrun mKinds mOps).map (fun o => (o.res, (o.snap 0).n, (o.snap 0).s)) =
    [(.err true false false, 0, 0), (.none, 0, 0), (.none, 1, 0), (.err true false false, 1, 0), (.none, 2, 0),
     (.ok, 3, 1), (.none, 3, 1), (.err false false true, 3, 1)] := by decide
/-- an Export arriving after Shutdown has returned fails clause `m` -/
example : (M.mcheck [.periodic] [.api (.flush .cancelled {}), .api (.shutdown .bg), .land (fun _ => 1)]
    [{ res := .err true false false, snap := fun _ => {} }, { res := .ok, snap := fun _ => { n := 1, s := 1 } },
     { res := .none, snap := fun _ => { n := 2, s := 1 } }]).m = true := by decide

end Otel.C15.PropsLag
