/-
C15 — helper lemmas for the logger provider: forward simulation between `LP.step` and the reference
`Spec.LP.refStep` / `Spec.LP.checkStep`, for every resolution (`Choice`) of the done-context races.
-/
import Otel.C15.Model
import Otel.C15.Spec
namespace Otel.C15.LemmasLP
open Otel.C15 Otel.C15.LP

/-- what the reference knows (`shut`, `deliv`) determines the observable state of component `i` -/
def CompInv (kd : LKind) (p : PS) (shut : Bool) (deliv : Nat) : Prop :=
  p.kind = kd ∧
  match kd with
  | .recd => p.cnt.e = deliv ∧ p.cnt.n = 0 ∧ p.cnt.s = (if shut then 1 else 0)
  | .simpleRec => p.cnt.n = deliv ∧ p.cnt.s = (if shut then 1 else 0)
  | .batchRec => p.stopped = shut ∧ p.cnt.s = (if shut then 1 else 0) ∧ p.cnt.n + p.queued = deliv
  | _ => p.cnt.s = 0 ∧ p.cnt.n = 0 ∧ p.cnt.f = 0

/-- the per-index content of the three counter clauses of `Spec.LP.checkStep` -/
def StepOK (kd : LKind) (isFlush isSd isDone shut' : Bool) (prev cur : Cnt) (deliv' : Nat) : Prop :=
  match kd with
  | .recd => cur.e = deliv' ∧ cur.n = 0 ∧ cur.s = (if shut' then 1 else 0) ∧
      cur.f = prev.f + (if isFlush then 1 else 0)
  | .simpleRec => cur.n = deliv' ∧ cur.s = (if shut' then 1 else 0) ∧ cur.f = prev.f + (if isFlush then 1 else 0)
  | .batchRec =>
      (if (isFlush || isSd) && !isDone then cur.n = deliv'
       else if isFlush || isSd then prev.n ≤ cur.n ∧ cur.n ≤ deliv' else cur.n = prev.n) ∧
      cur.s = (if shut' then 1 else 0) ∧
      (if isFlush && isDone then prev.f ≤ cur.f ∧ cur.f ≤ prev.f + 1
       else cur.f = prev.f + (if isFlush then 1 else 0))
  | _ => cur.n = 0 ∧ cur.s = 0 ∧ cur.f = 0

/-- a step that does not touch the component (Logger, Emit on a no-op / stopped logger, ForceFlush and Shutdown
after Shutdown) -/
theorem comp_id (kd : LKind) (p : PS) (shut isDone : Bool) (deliv : Nat) (h : CompInv kd p shut deliv) :
    StepOK kd false false isDone shut p.cnt p.cnt deliv := by
  obtain ⟨kind, ⟨a, e, f, s, n⟩, st, q⟩ := p
  obtain ⟨hk, h⟩ := h
  simp only at hk; subst hk
  cases kind <;> simp_all [StepOK]

theorem comp_emit (kd : LKind) (p : PS) (deliv : Nat) (h : CompInv kd p false deliv) :
    CompInv kd (procEmit p) false (deliv + 1) ∧ StepOK kd false false false false p.cnt (procEmit p).cnt (deliv + 1) := by
  obtain ⟨kind, ⟨a, e, f, s, n⟩, st, q⟩ := p
  obtain ⟨hk, h⟩ := h
  simp only at hk; subst hk
  cases kind <;> simp_all [StepOK, CompInv, procEmit] <;> omega

theorem comp_flush (kd : LKind) (p : PS) (deliv : Nat) (done : Bool) (k x : Nat) (h : CompInv kd p false deliv) :
    CompInv kd (procFlush done k x p) false deliv ∧ StepOK kd true false done false p.cnt (procFlush done k x p).cnt deliv := by
  obtain ⟨kind, ⟨a, e, f, s, n⟩, st, q⟩ := p
  obtain ⟨hk, h⟩ := h
  simp only at hk; subst hk
  cases kind <;> cases done <;> simp_all [StepOK, CompInv, procFlush] <;> omega

theorem comp_shutdown (kd : LKind) (p : PS) (deliv : Nat) (done : Bool) (k : Nat) (h : CompInv kd p false deliv) :
    CompInv kd (procShutdown done k p) true deliv ∧
      StepOK kd false true done true p.cnt (procShutdown done k p).cnt deliv := by
  obtain ⟨kind, ⟨a, e, f, s, n⟩, st, q⟩ := p
  obtain ⟨hk, h⟩ := h
  simp only at hk; subst hk
  cases kind <;> cases done <;> simp_all [StepOK, CompInv, procShutdown] <;> omega


structure Inv (kinds : List LKind) (s : St) (r : Spec.LP.Ref) : Prop where
  n : s.n = kinds.length
  shut : s.stopped = r.shut
  lg : s.loggers = r.loggers
  comp : ∀ i, i < kinds.length → CompInv (kindOf kinds i) (s.pool i) r.shut (r.deliv i)

def snapOf (s : St) : Nat → Cnt := fun i => (s.pool i).cnt

def isFlush (r : Spec.LP.Ref) : Op → Bool
  | .flush _ _ => !r.shut
  | _ => false
def isSd (r : Spec.LP.Ref) : Op → Bool
  | .shutdown _ _ => !r.shut
  | _ => false
def isDone : Op → Bool
  | .flush c _ | .shutdown c _ => c.done
  | _ => false

/-- `Spec.LP.checkStep` from its per-index content -/
theorem checkStep_of (kinds : List LKind) (r : Spec.LP.Ref) (op : Op) (prev cur : Nat → Cnt) (res : Res)
    (hres : Spec.LP.resOK kinds r op res = true) (hcr : res ≠ .crash)
    (h : ∀ i, i < kinds.length →
      StepOK (kindOf kinds i) (isFlush r op) (isSd r op) (isDone op)
        (Spec.LP.refStep r op res).shut (prev i) (cur i) ((Spec.LP.refStep r op res).deliv i)) :
    Spec.LP.checkStep kinds r op prev cur res = Spec.Fails.none := by
  simp only [Spec.LP.checkStep, Spec.Fails.none, Spec.Fails.mk.injEq, Bool.not_eq_false', Spec.allBelow,
    List.all_eq_true, Bool.and_eq_true, List.mem_range]
  refine ⟨?_, ?_, ⟨hres, ?_⟩, ?_⟩
  · intro i hi
    have := h i hi
    revert this
    cases op <;> simp only [isFlush, isSd, isDone] <;>
      cases kindOf kinds i <;> simp only [StepOK] <;> intro this <;> simp_all
  · intro i hi
    have := h i hi
    revert this
    cases op <;> simp only [isFlush, isSd, isDone] <;>
      cases kindOf kinds i <;> simp only [StepOK] <;> intro this <;> simp_all
  · intro i hi
    have := h i hi
    revert this
    cases op <;> simp only [isFlush, isSd, isDone] <;>
      cases kindOf kinds i <;> simp only [StepOK] <;> intro this <;> simp_all
  · cases res <;> simp_all


theorem hasBatch_of {kinds : List LKind} (i : Nat) (hi : i < kinds.length) (h : isBatch (kindOf kinds i) = true) :
    Spec.LP.hasBatch kinds = true := by
  simp only [Spec.LP.hasBatch, List.any_eq_true]
  refine ⟨kinds[i], List.getElem_mem _, ?_⟩
  simpa [kindOf, List.getD, hi] using h

theorem flushErr_batch {kinds s r} (h : Inv kinds s r) (ch : Choice)
    (he : (List.range s.n).any (flushErr ch s.pool) = true) : Spec.LP.hasBatch kinds = true := by
  simp only [List.any_eq_true, List.mem_range] at he
  obtain ⟨i, hi, he⟩ := he
  rw [h.n] at hi
  have hk := (h.comp i hi).1
  refine hasBatch_of i hi ?_
  rw [← hk]
  revert he
  simp only [flushErr]
  cases (s.pool i).kind <;> simp [isBatch]

theorem shutdownErr_batch {kinds s r} (h : Inv kinds s r) (ch : Choice)
    (he : (List.range s.n).any (shutdownErr ch s.pool) = true) : Spec.LP.hasBatch kinds = true := by
  simp only [List.any_eq_true, List.mem_range] at he
  obtain ⟨i, hi, he⟩ := he
  rw [h.n] at hi
  have hk := (h.comp i hi).1
  refine hasBatch_of i hi ?_
  rw [← hk]
  revert he
  simp only [shutdownErr]
  cases (s.pool i).kind <;> simp [isBatch]

theorem err_ne_crash (c : Ctx) : c.err ≠ .crash := by cases c <;> simp [Ctx.err]

theorem step_inv {kinds s r} (op : Op) (h : Inv kinds s r) :
    Inv kinds (step s op).1 (Spec.LP.refStep r op (step s op).2) ∧
    Spec.LP.checkStep kinds r op (snapOf s) (snapOf (step s op).1) (step s op).2 = Spec.Fails.none := by
  have hn := h.n
  have hsh := h.shut
  have hlg := h.lg
  cases op with
  | logger k =>
    have e1 : (Res.noop == Res.sdk) = false := by decide
    refine ⟨⟨hn, hsh, ?_, h.comp⟩, checkStep_of _ _ _ _ _ _ ?_ ?_ ?_⟩
    · simp only [step, Spec.LP.refStep]; rw [hlg]; cases s.stopped <;> simp [e1]
    · simp only [step, Spec.LP.resOK]; rw [hsh]; exact beq_self_eq_true _
    · simp only [step]; cases s.stopped <;> simp
    · intro i hi
      exact comp_id _ _ _ _ _ (h.comp i hi)
  | emit k =>
    by_cases hc : s.loggers k = some true ∧ s.stopped = false
    · obtain ⟨hl, hst⟩ := hc
      have hrs : r.shut = false := by rw [← hsh]; exact hst
      have hstep : step s (.emit k) = ({ s with pool := forAll s.n s.pool fun _ => procEmit }, .none) := by
        simp [step, hl, hst]
      have href : Spec.LP.refStep r (.emit k) .none = { r with deliv := fun i => r.deliv i + 1 } := by
        simp [Spec.LP.refStep, ← hlg, hl, hrs]
      rw [hstep]; simp only; rw [href]
      have hcomp : ∀ i, i < kinds.length → _ := fun i hi => comp_emit _ _ _ (hrs ▸ h.comp i hi)
      have hpool : ∀ i, i < kinds.length → forAll s.n s.pool (fun _ => procEmit) i = procEmit (s.pool i) := by
        intro i hi; simp [forAll, hn, hi]
      refine ⟨⟨hn, hsh, hlg, ?_⟩, checkStep_of _ _ _ _ _ _ (by simp [Spec.LP.resOK]) (by simp) ?_⟩
      · intro i hi; simp only [hpool i hi, hrs]; exact (hcomp i hi).1
      · intro i hi; rw [href]; simp only [snapOf, hpool i hi, isFlush, isSd, isDone, hrs]; exact (hcomp i hi).2
    · have hstep : step s (.emit k) = (s, .none) := by
        simp only [step]
        cases hl : s.loggers k with
        | none => rfl
        | some b =>
          cases b with
          | false => rfl
          | true => cases hst : s.stopped <;> simp_all
      have href : Spec.LP.refStep r (.emit k) .none = r := by
        simp only [Spec.LP.refStep, ← hlg, ← hsh]
        cases hl : s.loggers k with
        | none => simp
        | some b =>
          cases b with
          | false => simp
          | true => cases hst : s.stopped <;> simp_all
      rw [hstep]; simp only; rw [href]
      refine ⟨h, checkStep_of _ _ _ _ _ _ (by simp [Spec.LP.resOK]) (by simp) ?_⟩
      intro i hi; rw [href]
      exact comp_id _ _ _ _ _ (h.comp i hi)
  | flush c ch =>
    cases hst : s.stopped with
    | true =>
      have hrs : r.shut = true := by rw [← hsh]; exact hst
      have hstep : step s (.flush c ch) = (s, .ok) := by simp [step, hst]
      rw [hstep]
      refine ⟨h, checkStep_of _ _ _ _ _ _ (by simp [Spec.LP.resOK]) (by simp) ?_⟩
      intro i hi
      simp only [isFlush, isSd, hrs, Spec.LP.refStep, Bool.not_true]
      exact comp_id _ _ _ _ _ (hrs ▸ h.comp i hi)
    | false =>
      have hrs : r.shut = false := by rw [← hsh]; exact hst
      have hstep : step s (.flush c ch) =
          ({ s with pool := forAll s.n s.pool fun i => procFlush c.done (ch.k i) (ch.x i) },
            if c.done && (List.range s.n).any (flushErr ch s.pool) then c.err else .ok) := by
        simp [step, hst]
      rw [hstep]; simp only
      have hcomp : ∀ i, i < kinds.length → _ := fun i hi => comp_flush _ _ _ c.done (ch.k i) (ch.x i) (hrs ▸ h.comp i hi)
      have hpool : ∀ i, i < kinds.length →
          forAll s.n s.pool (fun i => procFlush c.done (ch.k i) (ch.x i)) i = procFlush c.done (ch.k i) (ch.x i) (s.pool i) := by
        intro i hi; simp [forAll, hn, hi]
      refine ⟨⟨hn, hsh, hlg, ?_⟩, checkStep_of _ _ _ _ _ _ ?_ ?_ ?_⟩
      · intro i hi; simp only [hpool i hi, hrs, Spec.LP.refStep]; exact (hcomp i hi).1
      · simp only [Spec.LP.resOK, hrs]
        by_cases he : (c.done && (List.range s.n).any (flushErr ch s.pool)) = true
        · have he' := he
          simp only [Bool.and_eq_true] at he'
          rw [if_pos he]
          simp [he'.1, flushErr_batch h ch he'.2]
        · rw [if_neg he]; simp
      · split
        · exact err_ne_crash c
        · simp
      · intro i hi
        simp only [snapOf, hpool i hi, isFlush, isSd, isDone, hrs, Spec.LP.refStep, Bool.not_false]
        exact (hcomp i hi).2
  | shutdown c ch =>
    cases hst : s.stopped with
    | true =>
      have hrs : r.shut = true := by rw [← hsh]; exact hst
      have hstep : step s (.shutdown c ch) = (s, .ok) := by simp [step, hst]
      rw [hstep]
      refine ⟨⟨hn, by simp [Spec.LP.refStep, hst], hlg, ?_⟩, checkStep_of _ _ _ _ _ _ (by simp [Spec.LP.resOK]) (by simp) ?_⟩
      · intro i hi; simp only [Spec.LP.refStep]; exact (hrs ▸ h.comp i hi)
      · intro i hi
        simp only [isFlush, isSd, hrs, Spec.LP.refStep, Bool.not_true]
        exact comp_id _ _ _ _ _ (hrs ▸ h.comp i hi)
    | false =>
      have hrs : r.shut = false := by rw [← hsh]; exact hst
      have hstep : step s (.shutdown c ch) =
          ({ s with stopped := true, pool := forAll s.n s.pool fun i => procShutdown c.done (ch.k i) },
            if c.done && (List.range s.n).any (shutdownErr ch s.pool) then c.err else .ok) := by
        simp [step, hst]
      rw [hstep]; simp only
      have hcomp : ∀ i, i < kinds.length → _ := fun i hi => comp_shutdown _ _ _ c.done (ch.k i) (hrs ▸ h.comp i hi)
      have hpool : ∀ i, i < kinds.length →
          forAll s.n s.pool (fun i => procShutdown c.done (ch.k i)) i = procShutdown c.done (ch.k i) (s.pool i) := by
        intro i hi; simp [forAll, hn, hi]
      refine ⟨⟨hn, by simp [Spec.LP.refStep], hlg, ?_⟩, checkStep_of _ _ _ _ _ _ ?_ ?_ ?_⟩
      · intro i hi; simp only [hpool i hi, Spec.LP.refStep]; exact (hcomp i hi).1
      · simp only [Spec.LP.resOK, hrs]
        by_cases he : (c.done && (List.range s.n).any (shutdownErr ch s.pool)) = true
        · have he' := he
          simp only [Bool.and_eq_true] at he'
          rw [if_pos he]
          simp [he'.1, shutdownErr_batch h ch he'.2]
        · rw [if_neg he]; simp
      · split
        · exact err_ne_crash c
        · simp
      · intro i hi
        simp only [snapOf, hpool i hi, isFlush, isSd, isDone, hrs, Spec.LP.refStep, Bool.not_false]
        exact (hcomp i hi).2


theorem none_or_none : Spec.Fails.none.or Spec.Fails.none = Spec.Fails.none := by decide

theorem checkFrom_none {kinds} (ops : List Op) : ∀ (s : St) (r : Spec.LP.Ref), Inv kinds s r →
    Spec.LP.checkFrom kinds r (snapOf s) ops (runFrom s ops) = Spec.Fails.none := by
  induction ops with
  | nil => intro s r _; rfl
  | cons op rest ih =>
    intro s r h
    obtain ⟨h1, h2⟩ := step_inv op h
    have := ih (step s op).1 _ h1
    show (Spec.LP.checkStep kinds r op (snapOf s) (snapOf (step s op).1) (step s op).2).or
      (Spec.LP.checkFrom kinds (Spec.LP.refStep r op (step s op).2) (snapOf (step s op).1) rest
        (runFrom (step s op).1 rest)) = Spec.Fails.none
    rw [h2, this]; exact none_or_none

theorem runFrom_length (s : St) (ops : List Op) : (runFrom s ops).length = ops.length := by
  induction ops generalizing s with
  | nil => rfl
  | cons op rest ih => simp [runFrom, ih]

theorem inv_init (kinds : List LKind) : Inv kinds (init kinds) {} := by
  refine ⟨rfl, rfl, rfl, ?_⟩
  intro i _
  simp only [CompInv, init]
  cases kindOf kinds i <;> simp


/-! ### Direct (reference-free) form of "silent after Shutdown" -/

def finalFrom (s : St) : List Op → St
  | [] => s
  | op :: r => finalFrom (step s op).1 r

theorem runFrom_append (s : St) (a b : List Op) :
    runFrom s (a ++ b) = runFrom s a ++ runFrom (finalFrom s a) b := by
  induction a generalizing s with
  | nil => rfl
  | cons op rest ih => simp [runFrom, finalFrom, ih]

/-- what each call answers once Shutdown has been called -/
def resAfter : Op → Res
  | .logger _ => .noop
  | .emit _ => .none
  | .flush _ _ => .ok
  | .shutdown _ _ => .ok

theorem stopped_step (s : St) (hs : s.stopped = true) (op : Op) :
    (step s op).1.pool = s.pool ∧ (step s op).1.stopped = true ∧ (step s op).2 = resAfter op := by
  cases op with
  | logger k => simp [step, hs, resAfter]
  | emit k =>
    simp only [step, resAfter, hs]
    cases s.loggers k with
    | none => simp [hs]
    | some b => cases b <;> simp [hs]
  | flush c ch => simp [step, hs, resAfter]
  | shutdown c ch => simp [step, hs, resAfter]

theorem shutdown_stops (s : St) (c : Ctx) (ch : Choice) : (step s (.shutdown c ch)).1.stopped = true := by
  simp only [step]; split <;> first | assumption | rfl

theorem stopped_run (ops : List Op) : ∀ (s : St), s.stopped = true →
    (runFrom s ops).map (·.res) = ops.map resAfter ∧ ∀ o ∈ runFrom s ops, o.snap = snapOf s := by
  induction ops with
  | nil => intro s _; simp [runFrom]
  | cons op rest ih =>
    intro s hs
    obtain ⟨h1, h2, h3⟩ := stopped_step s hs op
    obtain ⟨i1, i2⟩ := ih (step s op).1 h2
    have hsn : snapOf (step s op).1 = snapOf s := by unfold snapOf; rw [h1]
    refine ⟨?_, ?_⟩
    · simp only [runFrom, List.map_cons, i1, h3]
    · intro o ho
      simp only [runFrom, List.mem_cons] at ho
      rcases ho with rfl | ho
      · exact hsn
      · rw [i2 o ho, hsn]

end Otel.C15.LemmasLP
