/-
C15 — generated tie.  `Otel.Gen.C15` is regenerated from /repo's current source by tools/go2lean on every run of
bin/check (checks/gentie.json); the theorems below are re-checked against the regenerated text.
Sites: the lifecycle guards of the three providers as decision skeletons whose leaves list the ordered effects of
the path — `TracerProvider.Shutdown` and `RegisterSpanProcessor` (sdk/trace/provider.go; the two reads of
`isShutdown` before and after `Lock` are separate atoms), `LoggerProvider.Shutdown` (sdk/log/provider.go),
`MeterProvider.Shutdown` (sdk/metric/provider.go).  The C15 model (`Otel.C15.step`) takes "the processors are shut
down exactly once, by the call that wins the flag" and "a registration after shutdown is a no-op" as atomic
operations; the theorems state that the source still implements each of them by the guard structure the model
assumes (flag test-and-set decides; effects only on the winning path; lock held around list updates).
-/
import Otel.Gen.C15

namespace Otel.C15.GenTie

/-- `TracerProvider.Shutdown`: the processors are shut down (each through its `sync.Once`) and the list cleared
only by the call whose CompareAndSwap(false, true) succeeds, under the provider lock; every other call returns nil
without touching them -/
theorem gen_tracer_shutdown_table (loaded casWon : Bool) :
    Otel.Gen.C15.tracerProviderShutdown loaded casWon =
      (if loaded then ("nil", [])
       else if casWon then ("retErr", ["lock", "deferUnlock", "shutdownEachOnce", "clearProcessors"])
       else ("nil", ["lock", "deferUnlock"])) := by
  cases loaded <;> cases casWon <;> rfl

theorem gen_tracer_shutdown_single_winner (loaded casWon : Bool) :
    "shutdownEachOnce" ∈ (Otel.Gen.C15.tracerProviderShutdown loaded casWon).2 ↔ (loaded = false ∧ casWon = true) := by
  rw [gen_tracer_shutdown_table]; cases loaded <;> cases casWon <;> decide

/-- `RegisterSpanProcessor`: the new list (copy of the current one + the new processor) is stored iff BOTH reads of
the shutdown flag — before and after taking the lock — are false; the load/copy/store happen after `Lock` -/
theorem gen_register_table (s1 s2 : Bool) :
    Otel.Gen.C15.registerSpanProcessor s1 s2 =
      (if s1 then ("return", [])
       else if s2 then ("return", ["lock", "deferUnlock"])
       else ("<end>", ["lock", "deferUnlock", "load", "copyCurrent", "appendNew", "store"])) := by
  cases s1 <;> cases s2 <;> rfl

theorem gen_register_after_shutdown_is_noop (s1 s2 : Bool) (h : s1 = true ∨ s2 = true) :
    "store" ∉ (Otel.Gen.C15.registerSpanProcessor s1 s2).2 := by
  rw [gen_register_table]; cases s1 <;> cases s2 <;> simp_all

/-- `LoggerProvider.Shutdown`: `stopped.Swap(true)` decides; the processors are shut down iff the swap returned
false (so exactly one call does it) -/
theorem gen_logger_shutdown_table (was : Bool) :
    Otel.Gen.C15.loggerProviderShutdown was =
      (if was then ("nil", ["swapStopped"]) else ("err", ["swapStopped", "shutdownEach"])) := by
  cases was <;> rfl

/-- `MeterProvider.Shutdown`: `stopped` is stored on every path, before the shutdown function (if any) runs -/
theorem gen_meter_shutdown_table (has : Bool) :
    Otel.Gen.C15.meterProviderShutdown has =
      (if has then ("shutdown(ctx)", ["storeStopped"]) else ("nil", ["storeStopped"])) := by
  cases has <;> rfl

end Otel.C15.GenTie
