/-
C15 — an `End` that overlaps a membership change (forced schedules, line kind `gtp`).

`recordingSpan.End` = ONE atomic load of the provider's processor list (the snapshot) followed by the `OnEnd`
deliveries in list order, one label each.  The provider publishes the list copy-on-write (Register / Unregister
build a fresh slice and store the pointer), so an `End` that is parked inside the `OnEnd` of processor `k`
continues, when released, with ITS snapshot: every entry of the snapshot after the gate receives the span exactly
once, whatever was unregistered / registered / shut down meanwhile, and nothing panics.

The gated ops live in their own op type `GOp` (wrapper around `TP.Op`) and their own run function, so the
sequential model `TP.step` and its theorems are untouched.

Stated reading of the membership clause for an overlapping End (Spec part below): the span is delivered to exactly
the processors registered *when End loaded the list* — part of them before the gate, the rest at the release.
-/
import Otel.C15.Model
import Otel.C15.Spec
namespace Otel.C15.Gate
open Otel.C15 Otel.C15.TP

inductive GOp
  | op (o : TP.Op)
  | endg (j k : Nat)     -- End span slot j; the delivery parks inside OnEnd of (recording) processor k
  | rel                  -- release the gate: the parked End delivers to the rest of its snapshot and returns

structure GSt where
  st : TP.St
  fly : Option (List (Nat × Bool)) := none   -- rest of the parked End's snapshot

/-- split the snapshot at the first entry of processor `k`: (entries up to and including it, the rest) -/
def splitGate (k : Nat) : List (Nat × Bool) → Option (List (Nat × Bool) × List (Nat × Bool))
  | [] => none
  | p :: r =>
    if p.1 = k then some ([p], r)
    else match splitGate k r with
      | some (a, b) => some (p :: a, b)
      | none => none

/-- result, "the End is parked", new state -/
def gstep (g : GSt) : GOp → GSt × Res × Bool
  | .op o => ({ g with st := (step g.st o).1 }, (step g.st o).2, false)
  | .endg j k =>
    match g.fly with
    | some _ => ({ g with st := (step g.st (.end_ j)).1 }, (step g.st (.end_ j)).2, false)   -- one gate at a time
    | none =>
      match g.st.spans j with
      | .live true =>
        -- only a recording (user) processor can park; End has loaded the list: `g.st.procs` is the snapshot
        match (if (g.st.pool k).kind = .recd then splitGate k g.st.procs else none) with
        | some (pre, post) =>
          ({ st := { g.st with pool := endAll g.st.pool pre, spans := setAt g.st.spans j .ended }, fly := some post },
            .none, true)
        | none => ({ g with st := (step g.st (.end_ j)).1 }, (step g.st (.end_ j)).2, false)
      | _ => ({ g with st := (step g.st (.end_ j)).1 }, (step g.st (.end_ j)).2, false)
  | .rel =>
    match g.fly with
    | none => (g, .none, false)
    | some post => ({ st := { g.st with pool := endAll g.st.pool post }, fly := none }, .none, false)

structure GObs where
  res : Res
  parked : Bool
  snap : Nat → Cnt

def grunFrom (g : GSt) : List GOp → List GObs
  | [] => []
  | op :: r =>
    let x := gstep g op
    { res := x.2.1, parked := x.2.2, snap := fun i => (x.1.st.pool i).cnt } :: grunFrom x.1 r

def grun (kinds : List PKind) (ops : List GOp) : List GObs := grunFrom { st := init kinds } ops

/-! ## Spec: the reference for gated scripts (recording processors) -/

structure GRef where
  ref : Spec.TP.Ref := {}
  owed : Option (Nat → Nat) := none     -- per processor: deliveries of the parked End still to come

open Spec in
/-- One gated step judged.  Ordinary ops: `Spec.TP.checkStep`.  `endg` of a live SDK span: no processor gets more
than its multiplicity at load time, all of it if the End did not park; what is missing is owed.  `rel`: every
processor receives exactly what it is owed — whatever happened to the membership in between — and the call does
not crash.  Only recording processors are judged in `endg`/`rel` steps. -/
def gcheckStep (kinds : List PKind) (g : GRef) (op : GOp) (prev cur : Nat → Cnt) (res : Res) (parked : Bool) :
    Fails × GRef :=
  let n := kinds.length
  let plain (o : TP.Op) : Fails × GRef :=
    ((Spec.TP.checkStep kinds g.ref o prev cur res).or { a := parked }, { g with ref := Spec.TP.refStep g.ref o res })
  match op with
  | .op o => plain o
  | .endg j _ =>
    if g.owed.isSome || g.ref.spans j != .live true then plain (.end_ j)
    else
      let mult := g.ref.mem.mult
      ({ m := !(allBelow n fun i => kindOf kinds i != .recd ||
              ((prev i).e ≤ (cur i).e && (cur i).e ≤ (prev i).e + mult i &&
               (parked || (cur i).e == (prev i).e + mult i) && (cur i).a == (prev i).a && (cur i).n == 0))
         o := !(allBelow n fun i => kindOf kinds i != .recd || (cur i).s == (prev i).s)
         a := !(res == .none && allBelow n fun i => kindOf kinds i != .recd || (cur i).f == (prev i).f)
         t := res == .crash },
       { ref := Spec.TP.refStep g.ref (.end_ j) .none
         owed := if parked then some (fun i => (prev i).e + mult i - (cur i).e) else none })
  | .rel =>
    let w := g.owed.getD (fun _ => 0)
    ({ m := !(allBelow n fun i => kindOf kinds i != .recd ||
            ((cur i).e == (prev i).e + w i && (cur i).a == (prev i).a && (cur i).n == 0))
       o := !(allBelow n fun i => kindOf kinds i != .recd || (cur i).s == (prev i).s)
       a := !(res == .none && !parked && allBelow n fun i => kindOf kinds i != .recd || (cur i).f == (prev i).f)
       t := res == .crash },
     { g with owed := none })

def gcheckFrom (kinds : List PKind) (g : GRef) (prev : Nat → Cnt) : List GOp → List GObs → Spec.Fails
  | op :: ops, o :: obs =>
    let x := gcheckStep kinds g op prev o.snap o.res o.parked
    x.1.or (gcheckFrom kinds x.2 o.snap ops obs)
  | _, _ => Spec.Fails.none

def gcheck (kinds : List PKind) (ops : List GOp) (obs : List GObs) : Spec.Fails :=
  (gcheckFrom kinds {} (fun _ => {}) ops obs).or { t := obs.length != ops.length }

end Otel.C15.Gate
