/-
C15 — the property restated as an executable reference, independent of the model's internals.

The reference knows nothing about processor lists, `sync.Once`, flags or queues.  It tracks what the statement
talks about — the *multiset* of registered processors, "Shutdown has been called", which processors must have
been shut down — and says, for one step, what every recording component must have seen
(`a` OnStart, `e` OnEnd/OnEmit, `f` ForceFlush, `s` Shutdown, `n` exported) and what the call must return.
The same `check…` functions are the conclusions of the theorems (applied to the model's run) and the oracle the
driver applies to the implementation's observations.

Clauses (fields of `Fails`):  `m` membership / delivery,  `o` single shutdown,  `a` safe afterwards (no-op handles,
results of flush and shutdown),  `t` no crash / hang.
-/
import Otel.C15.Model
namespace Otel.C15.Spec
open Otel.C15

structure Fails where
  m : Bool := false
  o : Bool := false
  a : Bool := false
  t : Bool := false
  deriving DecidableEq, Repr

def Fails.none : Fails := {}
def Fails.or (x y : Fails) : Fails := { m := x.m || y.m, o := x.o || y.o, a := x.a || y.a, t := x.t || y.t }
def Fails.any (x : Fails) : Bool := x.m || x.o || x.a || x.t

/-- all indices below n satisfy p -/
def allBelow (n : Nat) (p : Nat → Bool) : Bool := (List.range n).all p

/-! ## Trace provider -/
namespace TP
open Otel.C15.TP

/-- the part of the reference that depends on the ops only -/
structure Mem where
  mult : Nat → Nat := fun _ => 0   -- multiplicity of each processor in the registered multiset
  tot : Nat := 0                   -- size of the multiset
  shut : Bool := false             -- Shutdown has been called

def memStep (m : Mem) : Op → Mem
  | .reg i => if m.shut then m else { m with mult := upd m.mult i (· + 1), tot := m.tot + 1 }
  | .unreg i =>
    if m.shut || m.mult i == 0 then m      -- unregistering one that is not registered changes nothing
    else { m with mult := upd m.mult i (· - 1), tot := m.tot - 1 }
  | .shutdown _ _ => { mult := fun _ => 0, tot := 0, shut := true }
  | _ => m

structure Ref where
  mem : Mem := {}
  tracers : Nat → Option Bool := fun _ => none  -- kind of the tracer in each slot AS OBSERVED
  spans : Nat → Slot := fun _ => .empty
  dead : Nat → Bool := fun _ => false           -- processor i must have been shut down
  deliv : Nat → Nat := fun _ => 0               -- spans delivered to stock processor i while it was alive
  raced : Nat → Bool := fun _ => false          -- i was taken out of service by a provider Shutdown whose context was
                                                -- done: the asynchronous rest of its shutdown may still be outstanding

/-- does this op deliver OnStart / OnEnd of an SDK span? -/
def delivers (r : Ref) : Op → Bool × Bool
  | .start k _ => (r.tracers k == some true, false)
  | .end_ j => (false, r.spans j == .live true)
  | .span k => (r.tracers k == some true, r.tracers k == some true)
  | _ => (false, false)

/-- processors that this op takes out of service -/
def kills (r : Ref) (op : Op) (i : Nat) : Bool :=
  match op with
  | .unreg j => j == i && !r.mem.shut && r.mem.mult i != 0
  | .shutdown _ _ => r.mem.mult i != 0
  | .pshut j => j == i
  | _ => false

/-- number of Shutdown calls a recording processor must see in this step -/
def shutCalls (r : Ref) (op : Op) (i : Nat) : Nat :=
  match op with
  | .unreg j => if j == i && !r.mem.shut && r.mem.mult i != 0 then 1 else 0
  | .shutdown _ _ => r.mem.mult i
  | .pshut j => if j == i then 1 else 0
  | _ => 0

def flushCalls (r : Ref) (op : Op) (i : Nat) : Nat :=
  match op with
  | .flush c => if c.done then 0 else r.mem.mult i
  | _ => 0

/-- this op is a point at which batch processor i must have exported everything delivered to it -/
def drains (r : Ref) (op : Op) (i : Nat) : Bool :=
  kills r op i || (match op with | .flush c => !c.done && r.mem.mult i != 0 | _ => false)

/-- processor i is shut down by this call with a done context while it was still alive -/
def racedNow (r : Ref) (op : Op) (i : Nat) : Bool :=
  match op with
  | .shutdown c _ => c.done && r.mem.mult i != 0 && !r.dead i
  | _ => false

def refStep (r : Ref) (op : Op) (res : Res) : Ref :=
  let d := delivers r op
  { mem := memStep r.mem op
    tracers := match op with | .tracer k => setAt r.tracers k (some (res == .sdk)) | _ => r.tracers
    spans := match op with
      | .start k j => (match r.tracers k with | some b => setAt r.spans j (.live b) | none => r.spans)
      | .end_ j => (match r.spans j with | .live _ => setAt r.spans j .ended | _ => r.spans)
      | _ => r.spans
    dead := fun i => r.dead i || kills r op i
    deliv := fun i => r.deliv i + (if d.2 && !r.dead i then r.mem.mult i else 0)
    raced := fun i => r.raced i || racedNow r op i }

def resOK (r : Ref) (op : Op) (res : Res) : Bool :=
  match op with
  | .tracer _ => res == (if r.mem.shut then .noop else .sdk)
  | .flush c => res == (if r.mem.tot == 0 || !c.done then .ok else c.err)
  | .shutdown c _ =>
    if r.mem.shut || r.mem.tot == 0 || !c.done then res == .ok else (res == .ok || res == c.err)
  | .pshut _ => res == .ok
  | _ => res == .none

/-- exporter Shutdown count of a stock processor: exactly one iff the processor has been taken out of service —
except that a processor shut down by a provider Shutdown with a done context (`raced`) may still owe it: then at
most one, possibly already at the return of that call, and no later API call moves it (late arrival: Lag.lean) -/
def stockShutOK (r r' : Ref) (op : Op) (i : Nat) (prev cur : Cnt) : Bool :=
  if r.raced i then cur.s == prev.s && cur.s ≤ 1
  else if racedNow r op i then cur.s ≤ 1
  else cur.s == (if r'.dead i then 1 else 0)

/-- one step judged: `prev`/`cur` are the counters before and after the step -/
def checkStep (kinds : List PKind) (r : Ref) (op : Op) (prev cur : Nat → Cnt) (res : Res) : Fails :=
  let d := delivers r op
  let r' := refStep r op res
  let n := kinds.length
  { m := !(allBelow n fun i =>
        match kindOf kinds i with
        | .recd => (cur i).a == (prev i).a + (if d.1 then r.mem.mult i else 0) &&
                   (cur i).e == (prev i).e + (if d.2 then r.mem.mult i else 0) && (cur i).n == 0
        | .simpleRec => (cur i).n == r'.deliv i
        | .batchRec =>
          -- exports only at drain points (all of it); a Shutdown with a done context exports some of it by the
          -- time it returns and no later API call exports the rest (late arrival: Lag.lean)
          (if r.raced i then (cur i).n == (prev i).n
           else if racedNow r op i then (prev i).n ≤ (cur i).n
           else (cur i).n == (if drains r op i then r'.deliv i else (prev i).n)) && (cur i).n ≤ r'.deliv i
        | _ => (cur i).n == 0)
    o := !(allBelow n fun i =>
        match kindOf kinds i with
        | .recd => (cur i).s == (prev i).s + shutCalls r op i
        | .simpleRec | .batchRec => stockShutOK r r' op i (prev i) (cur i)
        | _ => (cur i).s == 0)
    a := !(resOK r op res && allBelow n fun i =>
        match kindOf kinds i with
        | .recd => (cur i).f == (prev i).f + flushCalls r op i
        | _ => (cur i).f == 0)
    t := res == .crash }

def checkFrom (kinds : List PKind) (r : Ref) (prev : Nat → Cnt) : List Op → List TP.Obs → Fails
  | op :: ops, o :: obs =>
    (checkStep kinds r op prev o.snap o.res).or (checkFrom kinds (refStep r op o.res) o.snap ops obs)
  | _, _ => Fails.none

/-- the whole-script oracle: every step of the observed run is what the reference requires; a run that is
shorter than the script (crash / hang) fails clause `t` -/
def check (kinds : List PKind) (ops : List Op) (obs : List TP.Obs) : Fails :=
  (checkFrom kinds {} (fun _ => {}) ops obs).or { t := obs.length != ops.length }

end TP

/-! ## Logger provider -/
namespace LP
open Otel.C15.LP

structure Ref where
  shut : Bool := false
  loggers : Nat → Option Bool := fun _ => none
  deliv : Nat → Nat := fun _ => 0      -- records handed to processor i

def refStep (r : Ref) (op : Op) (res : Res) : Ref :=
  match op with
  | .logger k => { r with loggers := setAt r.loggers k (some (res == .sdk)) }
  | .emit k => if r.loggers k == some true && !r.shut then { r with deliv := fun i => r.deliv i + 1 } else r
  | .flush _ _ => r
  | .shutdown _ _ => { r with shut := true }

def hasBatch (kinds : List LKind) : Bool := kinds.any isBatch

def resOK (kinds : List LKind) (r : Ref) (op : Op) (res : Res) : Bool :=
  match op with
  | .logger _ => res == (if r.shut then .noop else .sdk)
  | .emit _ => res == .none
  | .flush c _ | .shutdown c _ =>
    res == .ok || (!r.shut && c.done && hasBatch kinds && res == c.err)

def checkStep (kinds : List LKind) (r : Ref) (op : Op) (prev cur : Nat → Cnt) (res : Res) : Fails :=
  let r' := refStep r op res
  let n := kinds.length
  let isFlush := match op with | .flush _ _ => !r.shut | _ => false
  let isDone := match op with | .flush c _ | .shutdown c _ => c.done | _ => false
  let isSd := match op with | .shutdown _ _ => !r.shut | _ => false
  { m := !(allBelow n fun i =>
        match kindOf kinds i with
        | .recd => (cur i).e == r'.deliv i && (cur i).n == 0
        | .simpleRec => (cur i).n == r'.deliv i
        | .batchRec =>
          -- a live ForceFlush / Shutdown returns with everything exported; a raced one (done context) with some
          -- of it; no other call exports anything (asynchronous arrivals after a raced call: Lag.lean)
          if (isFlush || isSd) && !isDone then (cur i).n == r'.deliv i
          else if isFlush || isSd then (prev i).n ≤ (cur i).n && (cur i).n ≤ r'.deliv i
          else (cur i).n == (prev i).n
        | _ => (cur i).n == 0)
    o := !(allBelow n fun i =>
        match kindOf kinds i with
        | .recd | .simpleRec | .batchRec => (cur i).s == (if r'.shut then 1 else 0)
        | _ => (cur i).s == 0)
    a := !(resOK kinds r op res && allBelow n fun i =>
        match kindOf kinds i with
        | .recd | .simpleRec => (cur i).f == (prev i).f + (if isFlush then 1 else 0)
        | .batchRec =>
          if isFlush && isDone then (prev i).f ≤ (cur i).f && (cur i).f ≤ (prev i).f + 1
          else (cur i).f == (prev i).f + (if isFlush then 1 else 0)
        | _ => (cur i).f == 0)
    t := res == .crash }

def checkFrom (kinds : List LKind) (r : Ref) (prev : Nat → Cnt) : List Op → List LP.Obs → Fails
  | op :: ops, o :: obs =>
    (checkStep kinds r op prev o.snap o.res).or (checkFrom kinds (refStep r op o.res) o.snap ops obs)
  | _, _ => Fails.none

def check (kinds : List LKind) (ops : List Op) (obs : List LP.Obs) : Fails :=
  (checkFrom kinds {} (fun _ => {}) ops obs).or { t := obs.length != ops.length }

end LP

/-! ## Meter provider -/
namespace MP
open Otel.C15.MP

structure Ref where
  shut : Bool := false
  meters : Nat → Option Bool := fun _ => none
  total : Nat := 0

def refStep (r : Ref) (op : Op) (res : Res) : Ref :=
  match op with
  | .meter k => { r with meters := setAt r.meters k (some (res == .sdk)) }
  | .add k => if r.meters k == some true then { r with total := r.total + 1 } else r
  | .shutdown _ => { r with shut := true }
  | _ => r

def hasPeriodic (kinds : List RKind) : Bool := kinds.any (· == .periodic)

def resOK (kinds : List RKind) (r : Ref) (op : Op) (res : Res) : Bool :=
  match op with
  | .meter _ => res == (if r.shut then .noop else .sdk)
  | .add _ => res == .none
  | .collect i =>
    if i < kinds.length then res == (if r.shut then .err false false true else .val r.total) else res == .none
  | .flush c _ =>
    if !hasPeriodic kinds then res == .ok
    else if !r.shut then res == .ok || (c.done && res == c.err)
    else
      -- the documented ErrReaderShutdown; a done context may surface as well / instead
      res == .err false false true ||
        (c.done && (res == c.err || res == .err (c == .cancelled) (c == .expired) true))
  | .shutdown _ => res == (if r.shut then .err false false true else .ok)

def checkStep (kinds : List RKind) (r : Ref) (op : Op) (prev cur : Nat → Cnt) (res : Res) : Fails :=
  let r' := refStep r op res
  let n := kinds.length
  let flushLive := match op with | .flush c _ => !r.shut && !c.done | _ => false
  let flushDone := match op with | .flush c _ => !r.shut && c.done | _ => false
  let isSd := match op with | .shutdown _ => !r.shut | _ => false
  { m := !(allBelow n fun i =>
        match kindOf kinds i with
        | .periodic =>
          if flushDone then (prev i).n ≤ (cur i).n && (cur i).n ≤ (prev i).n + 1
          else (cur i).n == (prev i).n + (if flushLive || isSd then 1 else 0)
        | .manual => (cur i).n == 0)
    o := !(allBelow n fun i =>
        match kindOf kinds i with
        | .periodic => (cur i).s == (if r'.shut then 1 else 0)
        | .manual => (cur i).s == 0)
    a := !(resOK kinds r op res && allBelow n fun i =>
        match kindOf kinds i with
        | .periodic =>
          if flushDone then (prev i).f ≤ (cur i).f && (cur i).f + (prev i).n ≤ (prev i).f + (cur i).n
          else (cur i).f == (prev i).f + (if flushLive then 1 else 0)
        | .manual => (cur i).f == 0)
    t := res == .crash }

def checkFrom (kinds : List RKind) (r : Ref) (prev : Nat → Cnt) : List Op → List MP.Obs → Fails
  | op :: ops, o :: obs =>
    (checkStep kinds r op prev o.snap o.res).or (checkFrom kinds (refStep r op o.res) o.snap ops obs)
  | _, _ => Fails.none

def check (kinds : List RKind) (ops : List Op) (obs : List MP.Obs) : Fails :=
  (checkFrom kinds {} (fun _ => {}) ops obs).or { t := obs.length != ops.length }

end MP
end Otel.C15.Spec
