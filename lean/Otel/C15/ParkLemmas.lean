/-
C15 — helper lemmas for PropsPark.lean (processor-level LTS of Park.lean).
-/
import Otel.C15.Park
namespace Otel.C15.ParkLemmas
open Otel.C15 Otel.C15.Park

/-- state invariant of the processor-level LTS -/
structure Inv (b : B) : Prop where
  wk : b.worker ≠ .run → b.stopCh = true          -- the worker leaves processQueue only through the closed stopCh
  sd : b.sd = .returned → b.worker = .done        -- Shutdown returns only after stopWait.Wait()
  ss : b.sd ≠ .idle → b.stopped = true            -- the flag is stored first
  cl : (b.sd = .closed ∨ b.sd = .returned) → b.stopCh = true

theorem inv_step {b b' : B} (l : Lbl) (h : Inv b) (hs : Park.step b l = some b') : Inv b' := by
  obtain ⟨h1, h2, h3, h4⟩ := h
  cases l <;> simp only [Park.step] at hs <;> (repeat' split at hs) <;> (try cases hs) <;>
    constructor <;> simp_all

theorem inv_init (cap : Nat) : Inv { cap := cap } := by constructor <;> simp

theorem inv_reachable {cap : Nat} {b : B} (h : Reachable cap b) : Inv b := by
  induction h with
  | init => exact inv_init cap
  | step l _ hs ih => exact inv_step l ih hs

/-- the worker takes a run of spans followed by the marker: the spans are in the batch, flushCh is closed -/
theorem takeAll_spans (n : Nat) : ∀ (b : B) (q : List Item), b.worker = .run →
    b.queue = List.replicate n .span ++ .marker :: q →
    takeAll (n + 1) b = { b with queue := q, batch := b.batch + n, flushed := true } := by
  induction n with
  | zero =>
    intro b q hw hq
    simp only [List.replicate_zero, List.nil_append] at hq
    simp [takeAll, Park.step, hw, hq]
  | succ n ih =>
    intro b q hw hq
    simp only [List.replicate_succ, List.cons_append] at hq
    rw [takeAll]
    simp only [Park.step, hw, hq, if_true]
    rw [ih _ q (by simp) (by simp)]
    simp only [B.mk.injEq, and_true, true_and]
    omega

end Otel.C15.ParkLemmas
