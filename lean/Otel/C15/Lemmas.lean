import Otel.C15.Model
import Otel.C15.Spec
namespace Otel.C15.Lemmas
open Otel.C15 Otel.C15.TP


def ids (procs : List (Nat × Bool)) : List Nat := procs.map (·.1)

/-- g applied k times -/
def iter {α : Type} (g : α → α) : Nat → α → α
  | 0, a => a
  | k + 1, a => iter g k (g a)

theorem iter_succ' {α : Type} (g : α → α) (k : Nat) (a : α) : iter g (k + 1) a = g (iter g k a) := by
  induction k generalizing a with
  | zero => rfl
  | succ k ih => simp only [iter] at ih ⊢; rw [ih]

theorem foldl_upd (g : PS → PS) (procs : List (Nat × Bool)) (pool : Nat → PS) (i : Nat) :
    (procs.foldl (fun pl p => upd pl p.1 g) pool) i = iter g ((ids procs).count i) (pool i) := by
  induction procs generalizing pool with
  | nil => simp [ids, iter]
  | cons p r ih =>
    simp only [List.foldl_cons, ids, List.map_cons, List.count_cons]
    rw [ih]
    by_cases h : p.1 = i
    · subst h; simp [upd, ids, iter]
    · have h' : ¬ i = p.1 := fun e => h e.symm
      simp [upd, h, h', ids]

theorem foldl_upd_fresh (g : PS → PS) (procs : List (Nat × Bool)) (pool : Nat → PS) (i : Nat)
    (hf : ∀ p ∈ procs, p.2 = false) :
    (procs.foldl (fun pl p => if p.2 then pl else upd pl p.1 g) pool) i = iter g ((ids procs).count i) (pool i) := by
  rw [← foldl_upd]
  congr 1
  induction procs generalizing pool with
  | nil => rfl
  | cons p r ih =>
    simp only [List.foldl_cons]
    have := hf p (by simp)
    simp only [this]
    apply ih
    intro q hq; exact hf q (by simp [hq])

theorem removeLast_none (i : Nat) (l : List (Nat × Bool)) (h : removeLast i l = none) : (ids l).count i = 0 := by
  induction l with
  | nil => simp [ids]
  | cons p r ih =>
    simp only [removeLast] at h
    split at h
    · simp at h
    · rename_i hr
      split at h
      · simp at h
      · rename_i hp
        simp only [ids, List.map_cons, List.count_cons]
        have := ih hr
        simp only [ids] at this
        simp [this, hp]

theorem removeLast_some (i : Nat) (l : List (Nat × Bool)) (q : Nat × Bool) (l' : List (Nat × Bool))
    (h : removeLast i l = some (q, l')) :
    q.1 = i ∧ q ∈ l ∧ (∀ j, (ids l).count j = (ids l').count j + (if j = i then 1 else 0)) ∧
      l.length = l'.length + 1 ∧ (∀ p ∈ l', p ∈ l) := by
  induction l generalizing q l' with
  | nil => simp [removeLast] at h
  | cons p r ih =>
    simp only [removeLast] at h
    split at h
    · rename_i q0 r0 hr
      simp only [Option.some.injEq, Prod.mk.injEq] at h
      obtain ⟨rfl, rfl⟩ := h
      obtain ⟨h1, h2, h3, h4, h5⟩ := ih _ _ hr
      refine ⟨h1, by simp [h2], ?_, by simp [h4], ?_⟩
      · intro j; simp only [ids, List.map_cons, List.count_cons]; have := h3 j; simp only [ids] at this; omega
      · intro x hx; simp at hx ⊢; rcases hx with hx | hx
        · exact Or.inl hx
        · exact Or.inr (h5 x hx)
    · split at h
      · rename_i hp
        simp only [Option.some.injEq, Prod.mk.injEq] at h
        obtain ⟨rfl, rfl⟩ := h
        refine ⟨hp, by simp, ?_, by simp, ?_⟩
        · intro j; simp only [ids, List.map_cons, List.count_cons]
          by_cases hj : j = i
          · subst hj; simp [hp]
          · have : ¬ (p.1 = j) := fun e => hj (by rw [← e, hp])
            simp [hj, this]
        · intro x hx; simp [hx]
      · simp at h




theorem iter_onStart (k : Nat) (p : PS) :
    iter procOnStart k p = if p.kind = .recd then { p with cnt := { p.cnt with a := p.cnt.a + k } } else p := by
  induction k generalizing p with
  | zero => obtain ⟨kind, ⟨a, e, f, s, n⟩, st, q⟩ := p; cases kind <;> simp [iter]
  | succ k ih =>
    obtain ⟨kind, ⟨a, e, f, s, n⟩, st, q⟩ := p
    cases kind <;> simp [iter, ih, procOnStart] <;> omega

theorem iter_onEnd (k : Nat) (p : PS) :
    iter procOnEnd k p =
      match p.kind with
      | .recd => { p with cnt := { p.cnt with e := p.cnt.e + k } }
      | .simpleRec => if p.stopped then p else { p with cnt := { p.cnt with n := p.cnt.n + k } }
      | .batchRec => if p.stopped then p else { p with queued := p.queued + k }
      | _ => p := by
  induction k generalizing p with
  | zero => obtain ⟨kind, ⟨a, e, f, s, n⟩, st, q⟩ := p; cases kind <;> simp [iter]
  | succ k ih =>
    obtain ⟨kind, ⟨a, e, f, s, n⟩, st, q⟩ := p
    cases kind <;> cases st <;> simp [iter, ih, procOnEnd] <;> omega

theorem iter_flush (k : Nat) (p : PS) :
    iter procFlush k p =
      match p.kind with
      | .recd => { p with cnt := { p.cnt with f := p.cnt.f + k } }
      | .batchRec => if p.stopped || k == 0 then p else { p with queued := 0, cnt := { p.cnt with n := p.cnt.n + p.queued } }
      | _ => p := by
  induction k generalizing p with
  | zero => obtain ⟨kind, ⟨a, e, f, s, n⟩, st, q⟩ := p; cases kind <;> simp [iter]
  | succ k ih =>
    obtain ⟨kind, ⟨a, e, f, s, n⟩, st, q⟩ := p
    cases kind <;> cases st <;> simp [iter, ih, procFlush] <;> first | omega | (cases k <;> simp)

theorem iter_shutdown (k : Nat) (p : PS) :
    iter procShutdown k p =
      match p.kind with
      | .recd => { p with cnt := { p.cnt with s := p.cnt.s + k } }
      | .simpleRec => if p.stopped || k == 0 then p else { p with stopped := true, cnt := { p.cnt with s := p.cnt.s + 1 } }
      | .batchRec => if p.stopped || k == 0 then p
          else { p with stopped := true, queued := 0, cnt := { p.cnt with s := p.cnt.s + 1, n := p.cnt.n + p.queued } }
      | .simpleNil | .batchNil => if k == 0 then p else { p with stopped := true } := by
  induction k generalizing p with
  | zero => obtain ⟨kind, ⟨a, e, f, s, n⟩, st, q⟩ := p; cases kind <;> simp [iter]
  | succ k ih =>
    obtain ⟨kind, ⟨a, e, f, s, n⟩, st, q⟩ := p
    cases kind <;> cases st <;> simp [iter, ih, procShutdown] <;> first | omega | (cases k <;> simp)



/-- what the reference knows about component `i` (dead, deliv) determines the component's model state -/
def CompInv (kd : PKind) (p : PS) (dead : Bool) (deliv : Nat) : Prop :=
  p.kind = kd ∧
  match kd with
  | .recd => p.cnt.n = 0
  | .simpleRec => p.stopped = dead ∧ p.cnt.s = (if dead then 1 else 0) ∧ p.cnt.n = deliv ∧ p.cnt.f = 0
  | .batchRec => p.stopped = dead ∧ p.cnt.s = (if dead then 1 else 0) ∧ p.cnt.n + p.queued = deliv ∧
      (dead = true → p.queued = 0) ∧ p.cnt.f = 0
  | _ => p.cnt.s = 0 ∧ p.cnt.n = 0 ∧ p.cnt.f = 0

/-- what one step must look like at component `i` (the per-index content of `Spec.TP.checkStep`) -/
def StepOK (kd : PKind) (prev cur : Cnt) (ka ke kf ks : Nat) (drains dead' : Bool) (deliv' : Nat) : Prop :=
  match kd with
  | .recd => cur.a = prev.a + ka ∧ cur.e = prev.e + ke ∧ cur.n = 0 ∧ cur.s = prev.s + ks ∧ cur.f = prev.f + kf
  | .simpleRec => cur.n = deliv' ∧ cur.s = (if dead' then 1 else 0) ∧ cur.f = 0
  | .batchRec => cur.n = (if drains then deliv' else prev.n) ∧ cur.n ≤ deliv' ∧ cur.s = (if dead' then 1 else 0) ∧ cur.f = 0
  | _ => cur.n = 0 ∧ cur.s = 0 ∧ cur.f = 0

theorem comp_step (kd : PKind) (p : PS) (dead : Bool) (deliv ks kf ka ke : Nat)
    (h : CompInv kd p dead deliv) (hx : ke = 0 ∨ (ks = 0 ∧ kf = 0)) :
    CompInv kd (iter procOnEnd ke (iter procOnStart ka (iter procFlush kf (iter procShutdown ks p))))
        (dead || (ks != 0)) (deliv + (if dead then 0 else ke)) ∧
    StepOK kd p.cnt (iter procOnEnd ke (iter procOnStart ka (iter procFlush kf (iter procShutdown ks p)))).cnt
        ka ke kf ks (ks != 0 || kf != 0) (dead || (ks != 0)) (deliv + (if dead then 0 else ke)) := by
  obtain ⟨kind, ⟨a, e, f, s, n⟩, st, q⟩ := p
  obtain ⟨hk, h⟩ := h
  try simp only at hk
  subst hk
  cases kind
  · -- recd
    simp only [] at h
    simp [iter_onEnd, iter_onStart, iter_flush, iter_shutdown, CompInv, StepOK, h]
  · -- simpleRec
    simp only [] at h
    obtain ⟨rfl, h2, h3, h4⟩ := h
    try simp only at h2 h3 h4
    subst h3 h4
    rcases Nat.eq_zero_or_pos ks with hks | hks
    · subst hks
      cases st <;> simp_all [iter_onEnd, iter_onStart, iter_flush, iter_shutdown, CompInv, StepOK]
    · have : ke = 0 := by omega
      subst this
      have hne : ks ≠ 0 := by omega
      cases st <;> simp_all [iter_onEnd, iter_onStart, iter_flush, iter_shutdown, CompInv, StepOK]
  · -- simpleNil
    simp only [] at h
    obtain ⟨h2, h3, h4⟩ := h
    try simp only at h2 h3 h4
    subst h2 h3 h4
    rcases Nat.eq_zero_or_pos ks with hks | hks
    · subst hks; simp [iter_onEnd, iter_onStart, iter_flush, iter_shutdown, CompInv, StepOK]
    · have hne : ks ≠ 0 := by omega
      simp [iter_onEnd, iter_onStart, iter_flush, iter_shutdown, CompInv, StepOK, hne]
  · -- batchRec
    simp only [] at h
    obtain ⟨rfl, h2, h3, h4, h5⟩ := h
    try simp only at h2 h3 h4 h5
    subst h5
    rcases Nat.eq_zero_or_pos ks with hks | hks
    · subst hks
      rcases Nat.eq_zero_or_pos kf with hkf | hkf
      · subst hkf
        cases st <;> simp_all [iter_onEnd, iter_onStart, iter_flush, iter_shutdown, CompInv, StepOK] <;> omega
      · have : ke = 0 := by omega
        subst this
        have hne : kf ≠ 0 := by omega
        cases st <;> simp_all [iter_onEnd, iter_onStart, iter_flush, iter_shutdown, CompInv, StepOK] <;> omega
    · have : ke = 0 := by omega
      subst this
      have hne : ks ≠ 0 := by omega
      cases st <;> simp_all [iter_onEnd, iter_onStart, iter_flush, iter_shutdown, CompInv, StepOK] <;> omega
  · -- batchNil
    simp only [] at h
    obtain ⟨h2, h3, h4⟩ := h
    try simp only at h2 h3 h4
    subst h2 h3 h4
    rcases Nat.eq_zero_or_pos ks with hks | hks
    · subst hks; simp [iter_onEnd, iter_onStart, iter_flush, iter_shutdown, CompInv, StepOK]
    · have hne : ks ≠ 0 := by omega
      simp [iter_onEnd, iter_onStart, iter_flush, iter_shutdown, CompInv, StepOK, hne]



open Otel.C15.Spec.TP in
structure Inv (kinds : List PKind) (s : St) (r : Spec.TP.Ref) : Prop where
  shut : s.isShutdown = r.mem.shut
  mult : ∀ i, (ids s.procs).count i = r.mem.mult i
  tot : s.procs.length = r.mem.tot
  fresh : ∀ p ∈ s.procs, p.2 = false
  tr : s.tracers = r.tracers
  sp : s.spans = r.spans
  comp : ∀ i, CompInv (kindOf kinds i) (s.pool i) (r.dead i) (r.deliv i)
  shutnil : r.mem.shut = true → s.procs = []

def ka (r : Spec.TP.Ref) (op : Op) (i : Nat) : Nat := if (Spec.TP.delivers r op).1 then r.mem.mult i else 0
def ke (r : Spec.TP.Ref) (op : Op) (i : Nat) : Nat := if (Spec.TP.delivers r op).2 then r.mem.mult i else 0

/-- the F26 trigger: first Shutdown, done context, processors registered -/
def trigger (m : Spec.TP.Mem) (op : Op) : Bool :=
  match op with
  | .shutdown c => !m.shut && c.done && m.tot != 0
  | _ => false

theorem procs_nil_of_tot {kinds s r} (h : Inv kinds s r) (h0 : r.mem.tot = 0) : s.procs = [] := by
  have := h.tot; rw [h0] at this; exact List.eq_nil_of_length_eq_zero this

theorem mult_zero_of_nil {kinds s r} (h : Inv kinds s r) (h0 : s.procs = []) (i : Nat) : r.mem.mult i = 0 := by
  have := h.mult i; rw [h0] at this; simpa [ids] using this.symm

/-- the pool after a step, component by component -/
theorem step_pool {kinds s r} (op : Op) (h : Inv kinds s r) (hf : trigger r.mem op = false) (i : Nat) :
    (step s op).1.pool i =
      iter procOnEnd (ke r op i) (iter procOnStart (ka r op i)
        (iter procFlush (Spec.TP.flushCalls r op i) (iter procShutdown (Spec.TP.shutCalls r op i) (s.pool i)))) := by
  have hsh := h.shut
  cases op with
  | reg j => simp [step, ka, ke, Spec.TP.delivers, Spec.TP.flushCalls, Spec.TP.shutCalls, iter]; split <;> rfl
  | unreg j =>
    simp only [step, ka, ke, Spec.TP.delivers, Spec.TP.flushCalls, Spec.TP.shutCalls, iter]
    by_cases hs : s.isShutdown = true
    · have : r.mem.shut = true := by rw [← hsh]; exact hs
      simp [hs, this, iter]
    · have hs' : s.isShutdown = false := by simpa using hs
      have hr : r.mem.shut = false := by rw [← hsh]; exact hs'
      simp only [hs', hr]
      cases hrl : removeLast j s.procs with
      | none =>
        have := removeLast_none j s.procs hrl
        have hm := h.mult j
        by_cases hji : j = i
        · subst hji; simp [← hm, this, iter]
        · simp [hji, iter]
      | some ql =>
        obtain ⟨q, l'⟩ := ql
        obtain ⟨h1, h2, h3, h4, h5⟩ := removeLast_some j s.procs q l' hrl
        have hq := h.fresh q h2
        obtain ⟨q1, q2⟩ := q
        simp only at hq h1
        subst hq h1
        have hm := h.mult q1
        have hc := h3 q1
        by_cases hji : q1 = i
        · subst hji
          have : r.mem.mult q1 ≠ 0 := by rw [← hm, hc]; simp
          simp [upd, this, iter]
        · have : ¬ i = q1 := fun e => hji e.symm
          simp [upd, hji, this, iter]
  | shutdown c =>
    simp only [step, ka, ke, Spec.TP.delivers, Spec.TP.flushCalls, Spec.TP.shutCalls, iter]
    by_cases hs : s.isShutdown = true
    · have hr : r.mem.shut = true := by rw [← hsh]; exact hs
      have : s.procs = [] := h.shutnil hr
      simp [hs, this, iter, ← h.mult i, ids]
    · have hs' : s.isShutdown = false := by simpa using hs
      have hr : r.mem.shut = false := by rw [← hsh]; exact hs'
      simp only [hs']
      cases hp : s.procs with
      | nil => simp [iter, ← h.mult i, hp, ids]
      | cons p0 rest =>
        have htot : r.mem.tot ≠ 0 := by rw [← h.tot, hp]; simp
        have hd : c.done = false := by
          simp [trigger, hr, htot] at hf; exact hf
        simp only [hd]
        simp only [Bool.false_eq_true, ↓reduceIte, shutdownAll]
        rw [← hp, foldl_upd_fresh _ _ _ _ h.fresh, h.mult i]
        rfl
  | flush c =>
    simp only [step, ka, ke, Spec.TP.delivers, Spec.TP.flushCalls, Spec.TP.shutCalls, iter]
    cases hp : s.procs with
    | nil =>
      have := mult_zero_of_nil h hp i
      simp [this, iter]
    | cons p0 rest =>
      cases hd : c.done with
      | true => simp [iter]
      | false =>
        simp only [Bool.false_eq_true, ↓reduceIte, flushAll]
        rw [← hp, foldl_upd, h.mult i]
        rfl
  | tracer k => simp [step, ka, ke, Spec.TP.delivers, Spec.TP.flushCalls, Spec.TP.shutCalls, iter]
  | start k j =>
    simp only [step, ka, ke, Spec.TP.delivers, Spec.TP.flushCalls, Spec.TP.shutCalls, iter, ← h.tr]
    cases ht : s.tracers k with
    | none => simp [iter]
    | some b =>
      cases b with
      | false => simp [iter]
      | true => simp [iter, startAll, foldl_upd, h.mult i]
  | end_ j =>
    simp only [step, ka, ke, Spec.TP.delivers, Spec.TP.flushCalls, Spec.TP.shutCalls, iter, ← h.sp]
    cases ht : s.spans j with
    | empty => simp [iter]
    | ended => simp [iter]
    | live b =>
      cases b with
      | false => simp [iter]
      | true => simp [iter, endAll, foldl_upd, h.mult i]
  | span k =>
    simp only [step, ka, ke, Spec.TP.delivers, Spec.TP.flushCalls, Spec.TP.shutCalls, iter, ← h.tr]
    cases ht : s.tracers k with
    | none => simp [iter]
    | some b =>
      cases b with
      | false => simp [iter]
      | true => simp [iter, startAll, endAll, foldl_upd, h.mult i]
  | pshut j =>
    simp only [step, ka, ke, Spec.TP.delivers, Spec.TP.flushCalls, Spec.TP.shutCalls, iter]
    by_cases hji : j = i
    · subst hji; simp [upd, iter]
    · have : ¬ i = j := fun e => hji e.symm
      simp [upd, hji, this, iter]


theorem kills_eq (r : Spec.TP.Ref) (op : Op) (i : Nat) :
    Spec.TP.kills r op i = (Spec.TP.shutCalls r op i != 0) := by
  cases op <;> simp [Spec.TP.kills, Spec.TP.shutCalls]
  · split <;> simp_all
  · split <;> simp_all

theorem ke_excl (r : Spec.TP.Ref) (op : Op) (i : Nat) :
    ke r op i = 0 ∨ (Spec.TP.shutCalls r op i = 0 ∧ Spec.TP.flushCalls r op i = 0) := by
  cases op <;> simp [ke, Spec.TP.delivers, Spec.TP.shutCalls, Spec.TP.flushCalls]

theorem step_rest {kinds s r} (op : Op) (h : Inv kinds s r) (hf : trigger r.mem op = false) :
    (step s op).1.isShutdown = (Spec.TP.memStep r.mem op).shut ∧
    (∀ i, (ids (step s op).1.procs).count i = (Spec.TP.memStep r.mem op).mult i) ∧
    (step s op).1.procs.length = (Spec.TP.memStep r.mem op).tot ∧
    (∀ p ∈ (step s op).1.procs, p.2 = false) ∧
    (step s op).1.tracers = (Spec.TP.refStep r op (step s op).2).tracers ∧
    (step s op).1.spans = (Spec.TP.refStep r op (step s op).2).spans ∧
    ((Spec.TP.memStep r.mem op).shut = true → (step s op).1.procs = []) ∧
    Spec.TP.resOK r op (step s op).2 = true ∧ (step s op).2 ≠ .crash := by
  have hsh := h.shut
  have hmult := h.mult
  have htot := h.tot
  have hfr := h.fresh
  have htr := h.tr
  have hsp := h.sp
  have hsn := h.shutnil
  cases op with
  | reg j =>
    by_cases hs : s.isShutdown = true
    · have hr : r.mem.shut = true := by rw [← hsh]; exact hs
      have hstep : step s (.reg j) = (s, .none) := by simp [step, hs]
      have hmem : Spec.TP.memStep r.mem (.reg j) = r.mem := by simp [Spec.TP.memStep, hr]
      rw [hstep, hmem]
      exact ⟨hsh, hmult, htot, hfr, by simp [Spec.TP.refStep, htr], by simp [Spec.TP.refStep, hsp], hsn,
        by simp [Spec.TP.resOK], by simp⟩
    · have hs' : s.isShutdown = false := by simpa using hs
      have hr : r.mem.shut = false := by rw [← hsh]; exact hs'
      have hstep : step s (.reg j) = ({ s with procs := s.procs ++ [(j, false)] }, .none) := by simp [step, hs']
      have hmem : Spec.TP.memStep r.mem (.reg j) =
          { r.mem with mult := upd r.mem.mult j (· + 1), tot := r.mem.tot + 1 } := by simp [Spec.TP.memStep, hr]
      rw [hstep, hmem]
      refine ⟨by simp [hs', hr], ?_, by simp [htot], ?_, by simp [Spec.TP.refStep, htr],
        by simp [Spec.TP.refStep, hsp], by simp [hr], by simp [Spec.TP.resOK], by simp⟩
      · intro i
        have := hmult i
        simp only [ids, List.map_append, List.count_append, upd, List.map_cons, List.map_nil] at this ⊢
        rw [this]
        by_cases hij : i = j
        · subst hij; simp
        · have : ¬ j = i := fun e => hij e.symm
          simp [hij, this, List.count_cons]
      · intro p hp; simp at hp; rcases hp with hp | hp
        · exact hfr p hp
        · simp [hp]
  | unreg j =>
    by_cases hs : s.isShutdown = true
    · have hr : r.mem.shut = true := by rw [← hsh]; exact hs
      have hstep : step s (.unreg j) = (s, .none) := by simp [step, hs]
      have hmem : Spec.TP.memStep r.mem (.unreg j) = r.mem := by simp [Spec.TP.memStep, hr]
      rw [hstep, hmem]
      exact ⟨hsh, hmult, htot, hfr, by simp [Spec.TP.refStep, htr], by simp [Spec.TP.refStep, hsp], hsn,
        by simp [Spec.TP.resOK], by simp⟩
    · have hs' : s.isShutdown = false := by simpa using hs
      have hr : r.mem.shut = false := by rw [← hsh]; exact hs'
      cases hrl : removeLast j s.procs with
      | none =>
        have h0 := removeLast_none j s.procs hrl
        have hm0 : r.mem.mult j = 0 := by rw [← hmult j]; exact h0
        have hstep : step s (.unreg j) = (s, .none) := by simp [step, hs', hrl]
        have hmem : Spec.TP.memStep r.mem (.unreg j) = r.mem := by simp [Spec.TP.memStep, hr, hm0]
        rw [hstep, hmem]
        exact ⟨hsh, hmult, htot, hfr, by simp [Spec.TP.refStep, htr], by simp [Spec.TP.refStep, hsp], hsn,
          by simp [Spec.TP.resOK], by simp⟩
      | some ql =>
        obtain ⟨q, l'⟩ := ql
        obtain ⟨h1, h2, h3, h4, h5⟩ := removeLast_some j s.procs q l' hrl
        obtain ⟨q1, q2⟩ := q
        simp only at h1; subst h1
        have hne : r.mem.mult q1 ≠ 0 := by rw [← hmult q1, h3 q1]; simp
        have hstep : (step s (.unreg q1)).1.procs = l' ∧ (step s (.unreg q1)).1.isShutdown = false ∧
            (step s (.unreg q1)).1.tracers = s.tracers ∧ (step s (.unreg q1)).1.spans = s.spans ∧
            (step s (.unreg q1)).2 = .none := by simp [step, hs', hrl]
        obtain ⟨e1, e2, e3, e4, e5⟩ := hstep
        have hmem : Spec.TP.memStep r.mem (.unreg q1) =
            { r.mem with mult := upd r.mem.mult q1 (· - 1), tot := r.mem.tot - 1 } := by
          simp [Spec.TP.memStep, hr, hne]
        rw [e1, e2, e3, e4, e5, hmem]
        refine ⟨by simp [hr], ?_, ?_, ?_, by simp [Spec.TP.refStep, htr], by simp [Spec.TP.refStep, hsp],
          by simp [hr], by simp [Spec.TP.resOK], by simp⟩
        · intro i; have := h3 i; rw [hmult i] at this
          simp only [upd]; by_cases hij : i = q1
          · subst hij; simp at this ⊢; omega
          · simp [hij] at this ⊢; omega
        · rw [← htot]; simp at h4 ⊢; omega
        · intro p hp; exact hfr p (h5 p hp)
  | shutdown c =>
    have hmem : Spec.TP.memStep r.mem (.shutdown c) = { mult := fun _ => 0, tot := 0, shut := true } := by
      simp [Spec.TP.memStep]
    by_cases hs : s.isShutdown = true
    · have hr : r.mem.shut = true := by rw [← hsh]; exact hs
      have hnil := hsn hr
      have hstep : step s (.shutdown c) = (s, .ok) := by simp [step, hs]
      rw [hstep, hmem]
      exact ⟨by simp [hs], by simp [hnil, ids], by simp [hnil], hfr, by simp [Spec.TP.refStep, htr],
        by simp [Spec.TP.refStep, hsp], fun _ => hnil, by simp [Spec.TP.resOK, hr], by simp⟩
    · have hs' : s.isShutdown = false := by simpa using hs
      have hr : r.mem.shut = false := by rw [← hsh]; exact hs'
      cases hp : s.procs with
      | nil =>
        have ht0 : r.mem.tot = 0 := by rw [← htot, hp]; rfl
        have hstep : (step s (.shutdown c)).1.procs = [] ∧ (step s (.shutdown c)).1.isShutdown = true ∧
            (step s (.shutdown c)).1.tracers = s.tracers ∧ (step s (.shutdown c)).1.spans = s.spans ∧
            (step s (.shutdown c)).2 = .ok := by simp [step, hs', hp]
        obtain ⟨e1, e2, e3, e4, e5⟩ := hstep
        rw [e1, e2, e3, e4, e5, hmem]
        exact ⟨rfl, by simp [ids], rfl, by simp, by simp [Spec.TP.refStep, htr],
          by simp [Spec.TP.refStep, hsp], fun _ => rfl, by simp [Spec.TP.resOK, ht0], by simp⟩
      | cons p0 rest =>
        have htot' : r.mem.tot ≠ 0 := by rw [← htot, hp]; simp
        have hd : c.done = false := by simp [trigger, hr, htot'] at hf; exact hf
        have hstep : (step s (.shutdown c)).1.procs = [] ∧ (step s (.shutdown c)).1.isShutdown = true ∧
            (step s (.shutdown c)).1.tracers = s.tracers ∧ (step s (.shutdown c)).1.spans = s.spans ∧
            (step s (.shutdown c)).2 = .ok := by simp [step, hs', hp, hd]
        obtain ⟨e1, e2, e3, e4, e5⟩ := hstep
        rw [e1, e2, e3, e4, e5, hmem]
        exact ⟨rfl, by simp [ids], rfl, by simp, by simp [Spec.TP.refStep, htr],
          by simp [Spec.TP.refStep, hsp], fun _ => rfl, by simp [Spec.TP.resOK, hd], by simp⟩
  | flush c =>
    have hmem : Spec.TP.memStep r.mem (.flush c) = r.mem := by simp [Spec.TP.memStep]
    have hstep : (step s (.flush c)).1.procs = s.procs ∧ (step s (.flush c)).1.isShutdown = s.isShutdown ∧
        (step s (.flush c)).1.tracers = s.tracers ∧ (step s (.flush c)).1.spans = s.spans ∧
        (step s (.flush c)).2 = (if s.procs = [] ∨ c.done = false then .ok else c.err) := by
      simp only [step]
      cases hp : s.procs with
      | nil => simp [hp]
      | cons p0 rest => cases hd : c.done <;> simp [hp]
    obtain ⟨e1, e2, e3, e4, e5⟩ := hstep
    rw [e1, e2, e3, e4, e5, hmem]
    refine ⟨hsh, hmult, htot, hfr, by simp [Spec.TP.refStep, htr], by simp [Spec.TP.refStep, hsp], hsn, ?_, ?_⟩
    · have : (s.procs = []) ↔ r.mem.tot = 0 := by
        rw [← htot]; exact ⟨fun e => by rw [e]; rfl, List.eq_nil_of_length_eq_zero⟩
      simp only [Spec.TP.resOK]
      by_cases h0 : r.mem.tot = 0
      · simp [h0, this.mpr h0]
      · have hne : ¬ s.procs = [] := fun e => h0 (this.mp e)
        cases hd : c.done <;> simp [h0, hne]
    · split
      · simp
      · cases c <;> simp_all [Ctx.err, Ctx.done]
  | tracer k =>
    simp only [step, Spec.TP.memStep, Spec.TP.refStep, Spec.TP.resOK]
    refine ⟨hsh, hmult, htot, hfr, ?_, hsp, hsn, ?_, ?_⟩
    · have e1 : (Res.noop == Res.sdk) = false := by decide
      have e2 : (Res.sdk == Res.sdk) = true := by decide
      rw [htr]; cases hs : s.isShutdown <;> simp [e1, e2]
    · rw [hsh]; exact beq_self_eq_true _
    · cases hs : s.isShutdown <;> simp
  | start k j =>
    simp only [step, Spec.TP.memStep, Spec.TP.refStep, Spec.TP.resOK, ← htr, ← hsp]
    cases ht : s.tracers k with
    | none => exact ⟨hsh, hmult, htot, hfr, rfl, rfl, hsn, by simp, by simp⟩
    | some b => cases b <;> exact ⟨hsh, hmult, htot, hfr, rfl, rfl, hsn, by simp, by simp⟩
  | end_ j =>
    simp only [step, Spec.TP.memStep, Spec.TP.refStep, Spec.TP.resOK, ← htr, ← hsp]
    cases ht : s.spans j with
    | empty => exact ⟨hsh, hmult, htot, hfr, rfl, rfl, hsn, by simp, by simp⟩
    | ended => exact ⟨hsh, hmult, htot, hfr, rfl, rfl, hsn, by simp, by simp⟩
    | live b => cases b <;> exact ⟨hsh, hmult, htot, hfr, rfl, rfl, hsn, by simp, by simp⟩
  | span k =>
    simp only [step, Spec.TP.memStep, Spec.TP.refStep, Spec.TP.resOK, ← htr, ← hsp]
    cases ht : s.tracers k with
    | none => exact ⟨hsh, hmult, htot, hfr, rfl, rfl, hsn, by simp, by simp⟩
    | some b => cases b <;> exact ⟨hsh, hmult, htot, hfr, rfl, rfl, hsn, by simp, by simp⟩
  | pshut j =>
    simp only [step, Spec.TP.memStep, Spec.TP.refStep, Spec.TP.resOK]
    exact ⟨hsh, hmult, htot, hfr, htr, hsp, hsn, by simp, by simp⟩


def snapOf (s : St) : Nat → Cnt := fun i => (s.pool i).cnt

theorem step_inv {kinds s r} (op : Op) (h : Inv kinds s r) (hf : trigger r.mem op = false) :
    Inv kinds (step s op).1 (Spec.TP.refStep r op (step s op).2) ∧
    Spec.TP.checkStep kinds r op (snapOf s) (snapOf (step s op).1) (step s op).2 = Spec.Fails.none := by
  obtain ⟨r1, r2, r3, r4, r5, r6, r7, r8, r9⟩ := step_rest op h hf
  have hdead : ∀ i, (Spec.TP.refStep r op (step s op).2).dead i = (r.dead i || (Spec.TP.shutCalls r op i != 0)) := by
    intro i; simp only [Spec.TP.refStep, kills_eq]
  have hdeliv : ∀ i, (Spec.TP.refStep r op (step s op).2).deliv i = r.deliv i + (if r.dead i then 0 else ke r op i) := by
    intro i; simp only [Spec.TP.refStep, ke]
    cases (Spec.TP.delivers r op).2 <;> cases r.dead i <;> simp
  have hcomp : ∀ i, CompInv (kindOf kinds i) ((step s op).1.pool i)
        ((Spec.TP.refStep r op (step s op).2).dead i) ((Spec.TP.refStep r op (step s op).2).deliv i) ∧
      StepOK (kindOf kinds i) (s.pool i).cnt ((step s op).1.pool i).cnt (ka r op i) (ke r op i)
        (Spec.TP.flushCalls r op i) (Spec.TP.shutCalls r op i)
        (Spec.TP.shutCalls r op i != 0 || Spec.TP.flushCalls r op i != 0)
        ((Spec.TP.refStep r op (step s op).2).dead i) ((Spec.TP.refStep r op (step s op).2).deliv i) := by
    intro i
    rw [step_pool op h hf i, hdead, hdeliv]
    exact comp_step _ _ _ _ _ _ _ _ (h.comp i) (ke_excl r op i)
  refine ⟨⟨r1, r2, r3, r4, r5, r6, fun i => (hcomp i).1, r7⟩, ?_⟩
  have hdr : ∀ i, Spec.TP.drains r op i = (Spec.TP.shutCalls r op i != 0 || Spec.TP.flushCalls r op i != 0) := by
    intro i; simp only [Spec.TP.drains, kills_eq]
    cases op <;> simp [Spec.TP.flushCalls]
    split <;> simp_all
  simp only [Spec.TP.checkStep, Spec.Fails.none, Spec.Fails.mk.injEq, Bool.not_eq_false', Spec.allBelow,
    List.all_eq_true, Bool.and_eq_true]
  refine ⟨?_, ?_, ⟨r8, ?_⟩, ?_⟩
  · intro i _
    have := (hcomp i).2
    rw [hdr]
    revert this
    cases kindOf kinds i <;> simp only [StepOK, snapOf, ka, ke] <;> intro this <;> simp_all <;>
      (try (obtain ⟨t1, t2, _⟩ := this; rw [← t1]; exact t2))
  · intro i _
    have := (hcomp i).2
    revert this
    cases kindOf kinds i <;> simp only [StepOK, snapOf] <;> intro this <;> simp_all
  · intro i _
    have := (hcomp i).2
    revert this
    cases kindOf kinds i <;> simp only [StepOK, snapOf] <;> intro this <;> simp_all
  · cases hres : (step s op).2 <;> simp_all

theorem f26From_cons (m : Spec.TP.Mem) (op : Op) (rest : List Op) :
    Spec.TP.f26From m (op :: rest) = (trigger m op || Spec.TP.f26From (Spec.TP.memStep m op) rest) := by
  cases op <;> rfl

theorem Fails.none_or_none : Spec.Fails.none.or Spec.Fails.none = Spec.Fails.none := by decide

theorem checkFrom_none {kinds} (ops : List Op) : ∀ (s : St) (r : Spec.TP.Ref), Inv kinds s r →
    Spec.TP.f26From r.mem ops = false →
    Spec.TP.checkFrom kinds r (snapOf s) ops (runFrom s ops) = Spec.Fails.none := by
  induction ops with
  | nil => intro s r _ _; rfl
  | cons op rest ih =>
    intro s r h hf
    rw [f26From_cons] at hf
    simp only [Bool.or_eq_false_iff] at hf
    obtain ⟨h1, h2⟩ := step_inv op h hf.1
    simp only [runFrom, Spec.TP.checkFrom]
    have := ih (step s op).1 _ h1 (by simpa [Spec.TP.refStep] using hf.2)
    show (Spec.TP.checkStep kinds r op (snapOf s) (snapOf (step s op).1) (step s op).2).or
      (Spec.TP.checkFrom kinds (Spec.TP.refStep r op (step s op).2) (snapOf (step s op).1) rest
        (runFrom (step s op).1 rest)) = Spec.Fails.none
    rw [h2, this]; exact Fails.none_or_none

theorem runFrom_length (s : St) (ops : List Op) : (runFrom s ops).length = ops.length := by
  induction ops generalizing s with
  | nil => rfl
  | cons op rest ih => simp [runFrom, ih]

theorem inv_init (kinds : List PKind) : Inv kinds (init kinds) {} := by
  refine ⟨rfl, fun i => by simp [init, ids], rfl, by simp [init], rfl, rfl, ?_, by simp⟩
  intro i
  simp only [CompInv, init]
  cases kindOf kinds i <;> simp

end Otel.C15.Lemmas
