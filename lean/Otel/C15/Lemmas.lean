import Otel.C15.Model
import Otel.C15.Spec
namespace Otel.C15.Lemmas
open Otel.C15 Otel.C15.TP


def ids (procs : List (Nat × Bool)) : List Nat := procs.map (·.1)

/-- g applied k times -/
def iter {α : Type} (g : α → α) : Nat → α → α
  | 0, a => a
  | k + 1, a => iter g k (g a)

theorem iter_succ' {α : Type} (g : α → α) (k : Nat) (a : α) : iter g (k + 1) a = g (iter g k a) := by
  induction k generalizing a with
  | zero => rfl
  | succ k ih => simp only [iter] at ih ⊢; rw [ih]

theorem foldl_upd (g : PS → PS) (procs : List (Nat × Bool)) (pool : Nat → PS) (i : Nat) :
    (procs.foldl (fun pl p => upd pl p.1 g) pool) i = iter g ((ids procs).count i) (pool i) := by
  induction procs generalizing pool with
  | nil => simp [ids, iter]
  | cons p r ih =>
    simp only [List.foldl_cons, ids, List.map_cons, List.count_cons]
    rw [ih]
    by_cases h : p.1 = i
    · subst h; simp [upd, ids, iter]
    · have h' : ¬ i = p.1 := fun e => h e.symm
      simp [upd, h, h', ids]

theorem foldl_upd_fresh (g : PS → PS) (procs : List (Nat × Bool)) (pool : Nat → PS) (i : Nat)
    (hf : ∀ p ∈ procs, p.2 = false) :
    (procs.foldl (fun pl p => if p.2 then pl else upd pl p.1 g) pool) i = iter g ((ids procs).count i) (pool i) := by
  rw [← foldl_upd]
  congr 1
  induction procs generalizing pool with
  | nil => rfl
  | cons p r ih =>
    simp only [List.foldl_cons]
    have := hf p (by simp)
    simp only [this]
    apply ih
    intro q hq; exact hf q (by simp [hq])

/-- the same for an update function that depends on the processor index -/
theorem foldl_updI (g : Nat → PS → PS) (procs : List (Nat × Bool)) (pool : Nat → PS) (i : Nat)
    (hf : ∀ p ∈ procs, p.2 = false) :
    (procs.foldl (fun pl p => if p.2 then pl else upd pl p.1 (g p.1)) pool) i =
      iter (g i) ((ids procs).count i) (pool i) := by
  induction procs generalizing pool with
  | nil => simp [ids, iter]
  | cons p r ih =>
    have hp := hf p (by simp)
    simp only [List.foldl_cons, ids, List.map_cons, List.count_cons, hp]
    rw [ih _ (fun q hq => hf q (by simp [hq]))]
    by_cases h : p.1 = i
    · subst h; simp [upd, ids, iter]
    · have h' : ¬ i = p.1 := fun e => h e.symm
      simp [upd, h, h', ids]

theorem removeLast_none (i : Nat) (l : List (Nat × Bool)) (h : removeLast i l = none) : (ids l).count i = 0 := by
  induction l with
  | nil => simp [ids]
  | cons p r ih =>
    simp only [removeLast] at h
    split at h
    · simp at h
    · rename_i hr
      split at h
      · simp at h
      · rename_i hp
        simp only [ids, List.map_cons, List.count_cons]
        have := ih hr
        simp only [ids] at this
        simp [this, hp]

theorem removeLast_some (i : Nat) (l : List (Nat × Bool)) (q : Nat × Bool) (l' : List (Nat × Bool))
    (h : removeLast i l = some (q, l')) :
    q.1 = i ∧ q ∈ l ∧ (∀ j, (ids l).count j = (ids l').count j + (if j = i then 1 else 0)) ∧
      l.length = l'.length + 1 ∧ (∀ p ∈ l', p ∈ l) := by
  induction l generalizing q l' with
  | nil => simp [removeLast] at h
  | cons p r ih =>
    simp only [removeLast] at h
    split at h
    · rename_i q0 r0 hr
      simp only [Option.some.injEq, Prod.mk.injEq] at h
      obtain ⟨rfl, rfl⟩ := h
      obtain ⟨h1, h2, h3, h4, h5⟩ := ih _ _ hr
      refine ⟨h1, by simp [h2], ?_, by simp [h4], ?_⟩
      · intro j; simp only [ids, List.map_cons, List.count_cons]; have := h3 j; simp only [ids] at this; omega
      · intro x hx; simp at hx ⊢; rcases hx with hx | hx
        · exact Or.inl hx
        · exact Or.inr (h5 x hx)
    · split at h
      · rename_i hp
        simp only [Option.some.injEq, Prod.mk.injEq] at h
        obtain ⟨rfl, rfl⟩ := h
        refine ⟨hp, by simp, ?_, by simp, ?_⟩
        · intro j; simp only [ids, List.map_cons, List.count_cons]
          by_cases hj : j = i
          · subst hj; simp [hp]
          · have : ¬ (p.1 = j) := fun e => hj (by rw [← e, hp])
            simp [hj, this]
        · intro x hx; simp [hx]
      · simp at h




theorem iter_onStart (k : Nat) (p : PS) :
    iter procOnStart k p = if p.kind = .recd then { p with cnt := { p.cnt with a := p.cnt.a + k } } else p := by
  induction k generalizing p with
  | zero => obtain ⟨kind, ⟨a, e, f, s, n⟩, st, q⟩ := p; cases kind <;> simp [iter]
  | succ k ih =>
    obtain ⟨kind, ⟨a, e, f, s, n⟩, st, q⟩ := p
    cases kind <;> simp [iter, ih, procOnStart] <;> omega

theorem iter_onEnd (k : Nat) (p : PS) :
    iter procOnEnd k p =
      match p.kind with
      | .recd => { p with cnt := { p.cnt with e := p.cnt.e + k } }
      | .simpleRec => if p.stopped then p else { p with cnt := { p.cnt with n := p.cnt.n + k } }
      | .batchRec => if p.stopped then p else { p with queued := p.queued + k }
      | _ => p := by
  induction k generalizing p with
  | zero => obtain ⟨kind, ⟨a, e, f, s, n⟩, st, q⟩ := p; cases kind <;> simp [iter]
  | succ k ih =>
    obtain ⟨kind, ⟨a, e, f, s, n⟩, st, q⟩ := p
    cases kind <;> cases st <;> simp [iter, ih, procOnEnd] <;> omega

theorem iter_flush (k : Nat) (p : PS) :
    iter procFlush k p =
      match p.kind with
      | .recd => { p with cnt := { p.cnt with f := p.cnt.f + k } }
      | .batchRec => if p.stopped || k == 0 then p else { p with queued := 0, cnt := { p.cnt with n := p.cnt.n + p.queued } }
      | _ => p := by
  induction k generalizing p with
  | zero => obtain ⟨kind, ⟨a, e, f, s, n⟩, st, q⟩ := p; cases kind <;> simp [iter]
  | succ k ih =>
    obtain ⟨kind, ⟨a, e, f, s, n⟩, st, q⟩ := p
    cases kind <;> cases st <;> simp [iter, ih, procFlush] <;> first | omega | (cases k <;> simp)

theorem iter_shutdown (k : Nat) (p : PS) :
    iter procShutdown k p =
      match p.kind with
      | .recd => { p with cnt := { p.cnt with s := p.cnt.s + k } }
      | .simpleRec => if p.stopped || k == 0 then p else { p with stopped := true, cnt := { p.cnt with s := p.cnt.s + 1 } }
      | .batchRec => if p.stopped || k == 0 then p
          else { p with stopped := true, queued := 0, cnt := { p.cnt with s := p.cnt.s + 1, n := p.cnt.n + p.queued } }
      | .simpleNil | .batchNil => if k == 0 then p else { p with stopped := true } := by
  induction k generalizing p with
  | zero => obtain ⟨kind, ⟨a, e, f, s, n⟩, st, q⟩ := p; cases kind <;> simp [iter]
  | succ k ih =>
    obtain ⟨kind, ⟨a, e, f, s, n⟩, st, q⟩ := p
    cases kind <;> cases st <;> simp [iter, ih, procShutdown] <;> first | omega | (cases k <;> simp)



theorem iter_shutdownD (k x m : Nat) (p : PS) :
    iter (procShutdownD k x) m p =
      match p.kind with
      | .recd => { p with cnt := { p.cnt with s := p.cnt.s + m } }
      | .simpleRec => if p.stopped || m == 0 then p
          else { p with stopped := true, cnt := { p.cnt with s := p.cnt.s + min k 1 } }
      | .batchRec => if p.stopped || m == 0 then p
          else { p with stopped := true, queued := p.queued - min x p.queued,
                        cnt := { p.cnt with s := p.cnt.s + min k 1, n := p.cnt.n + min x p.queued } }
      | .simpleNil | .batchNil => if m == 0 then p else { p with stopped := true } := by
  induction m generalizing p with
  | zero => obtain ⟨kind, ⟨a, e, f, s, n⟩, st, q⟩ := p; cases kind <;> simp [iter]
  | succ m ih =>
    obtain ⟨kind, ⟨a, e, f, s, n⟩, st, q⟩ := p
    cases kind <;> cases st <;> simp [iter, ih, procShutdownD] <;> first | omega | (cases m <;> simp)

/-- what the reference knows about component `i` (dead, deliv) determines the component's model state -/
def CompInv (kd : PKind) (p : PS) (dead : Bool) (deliv : Nat) : Prop :=
  p.kind = kd ∧
  match kd with
  | .recd => p.cnt.n = 0
  | .simpleRec => p.stopped = dead ∧ p.cnt.s = (if dead then 1 else 0) ∧ p.cnt.n = deliv ∧ p.cnt.f = 0
  | .batchRec => p.stopped = dead ∧ p.cnt.s = (if dead then 1 else 0) ∧ p.cnt.n + p.queued = deliv ∧
      (dead = true → p.queued = 0) ∧ p.cnt.f = 0
  | _ => p.cnt.s = 0 ∧ p.cnt.n = 0 ∧ p.cnt.f = 0

/-- what one step must look like at component `i` (the per-index content of `Spec.TP.checkStep`) -/
def StepOK (kd : PKind) (prev cur : Cnt) (ka ke kf ks : Nat) (drains dead' : Bool) (deliv' : Nat) : Prop :=
  match kd with
  | .recd => cur.a = prev.a + ka ∧ cur.e = prev.e + ke ∧ cur.n = 0 ∧ cur.s = prev.s + ks ∧ cur.f = prev.f + kf
  | .simpleRec => cur.n = deliv' ∧ cur.s = (if dead' then 1 else 0) ∧ cur.f = 0
  | .batchRec => cur.n = (if drains then deliv' else prev.n) ∧ cur.n ≤ deliv' ∧ cur.s = (if dead' then 1 else 0) ∧ cur.f = 0
  | _ => cur.n = 0 ∧ cur.s = 0 ∧ cur.f = 0

theorem comp_step (kd : PKind) (p : PS) (dead : Bool) (deliv ks kf ka ke : Nat)
    (h : CompInv kd p dead deliv) (hx : ke = 0 ∨ (ks = 0 ∧ kf = 0)) :
    CompInv kd (iter procOnEnd ke (iter procOnStart ka (iter procFlush kf (iter procShutdown ks p))))
        (dead || (ks != 0)) (deliv + (if dead then 0 else ke)) ∧
    StepOK kd p.cnt (iter procOnEnd ke (iter procOnStart ka (iter procFlush kf (iter procShutdown ks p)))).cnt
        ka ke kf ks (ks != 0 || kf != 0) (dead || (ks != 0)) (deliv + (if dead then 0 else ke)) := by
  obtain ⟨kind, ⟨a, e, f, s, n⟩, st, q⟩ := p
  obtain ⟨hk, h⟩ := h
  try simp only at hk
  subst hk
  cases kind
  · -- recd
    simp only [] at h
    simp [iter_onEnd, iter_onStart, iter_flush, iter_shutdown, CompInv, StepOK, h]
  · -- simpleRec
    simp only [] at h
    obtain ⟨rfl, h2, h3, h4⟩ := h
    try simp only at h2 h3 h4
    subst h3 h4
    rcases Nat.eq_zero_or_pos ks with hks | hks
    · subst hks
      cases st <;> simp_all [iter_onEnd, iter_onStart, iter_flush, iter_shutdown, CompInv, StepOK]
    · have : ke = 0 := by omega
      subst this
      have hne : ks ≠ 0 := by omega
      cases st <;> simp_all [iter_onEnd, iter_onStart, iter_flush, iter_shutdown, CompInv, StepOK]
  · -- simpleNil
    simp only [] at h
    obtain ⟨h2, h3, h4⟩ := h
    try simp only at h2 h3 h4
    subst h2 h3 h4
    rcases Nat.eq_zero_or_pos ks with hks | hks
    · subst hks; simp [iter_onEnd, iter_onStart, iter_flush, iter_shutdown, CompInv, StepOK]
    · have hne : ks ≠ 0 := by omega
      simp [iter_onEnd, iter_onStart, iter_flush, iter_shutdown, CompInv, StepOK, hne]
  · -- batchRec
    simp only [] at h
    obtain ⟨rfl, h2, h3, h4, h5⟩ := h
    try simp only at h2 h3 h4 h5
    subst h5
    rcases Nat.eq_zero_or_pos ks with hks | hks
    · subst hks
      rcases Nat.eq_zero_or_pos kf with hkf | hkf
      · subst hkf
        cases st <;> simp_all [iter_onEnd, iter_onStart, iter_flush, iter_shutdown, CompInv, StepOK] <;> omega
      · have : ke = 0 := by omega
        subst this
        have hne : kf ≠ 0 := by omega
        cases st <;> simp_all [iter_onEnd, iter_onStart, iter_flush, iter_shutdown, CompInv, StepOK] <;> omega
    · have : ke = 0 := by omega
      subst this
      have hne : ks ≠ 0 := by omega
      cases st <;> simp_all [iter_onEnd, iter_onStart, iter_flush, iter_shutdown, CompInv, StepOK] <;> omega
  · -- batchNil
    simp only [] at h
    obtain ⟨h2, h3, h4⟩ := h
    try simp only at h2 h3 h4
    subst h2 h3 h4
    rcases Nat.eq_zero_or_pos ks with hks | hks
    · subst hks; simp [iter_onEnd, iter_onStart, iter_flush, iter_shutdown, CompInv, StepOK]
    · have hne : ks ≠ 0 := by omega
      simp [iter_onEnd, iter_onStart, iter_flush, iter_shutdown, CompInv, StepOK, hne]



/-! ### processors shut down by a provider Shutdown with a done context -/

/-- a stock processor whose raced shutdown may still owe the exporter's Shutdown / the drain's exports -/
def Raced (kd : PKind) (p : PS) (deliv : Nat) : Prop :=
  p.kind = kd ∧ p.stopped = true ∧ p.cnt.f = 0 ∧ p.cnt.s ≤ 1 ∧
  match kd with
  | .simpleRec => p.cnt.n = deliv
  | .batchRec => p.cnt.n + p.queued = deliv
  | _ => False

/-- component invariant with the reference's `raced` flag (only meaningful for the stock kinds with an exporter) -/
def CompInvR (kd : PKind) (p : PS) (dead raced : Bool) (deliv : Nat) : Prop :=
  match kd with
  | .simpleRec | .batchRec => if raced then dead = true ∧ Raced kd p deliv else CompInv kd p dead deliv
  | _ => CompInv kd p dead deliv

/-- the per-index content of `Spec.TP.checkStep` with the raced cases (`rc` raced before, `rn` raced by this step) -/
def StepOKR (kd : PKind) (prev cur : Cnt) (ka ke kf ks : Nat) (drains dead' : Bool) (deliv' : Nat)
    (rc rn : Bool) : Prop :=
  match kd with
  | .recd => cur.a = prev.a + ka ∧ cur.e = prev.e + ke ∧ cur.n = 0 ∧ cur.s = prev.s + ks ∧ cur.f = prev.f + kf
  | .simpleRec => cur.n = deliv' ∧ cur.f = 0 ∧
      (if rc then cur.s = prev.s ∧ cur.s ≤ 1 else if rn then cur.s ≤ 1 else cur.s = (if dead' then 1 else 0))
  | .batchRec =>
      (if rc then cur.n = prev.n else if rn then prev.n ≤ cur.n else cur.n = (if drains then deliv' else prev.n)) ∧
      cur.n ≤ deliv' ∧ cur.f = 0 ∧
      (if rc then cur.s = prev.s ∧ cur.s ≤ 1 else if rn then cur.s ≤ 1 else cur.s = (if dead' then 1 else 0))
  | _ => cur.n = 0 ∧ cur.s = 0 ∧ cur.f = 0

theorem stepOK_to_R (kd : PKind) (prev cur : Cnt) (ka ke kf ks : Nat) (drains dead' : Bool) (deliv' : Nat)
    (h : StepOK kd prev cur ka ke kf ks drains dead' deliv') :
    StepOKR kd prev cur ka ke kf ks drains dead' deliv' false false := by
  cases kd <;> simp_all [StepOK, StepOKR]
  obtain ⟨t1, t2, _⟩ := h; rw [← t1]; exact t2

/-- a raced-dead stock processor ignores every callback -/
theorem raced_fix (kd : PKind) (p : PS) (deliv ks kf ka ke : Nat) (h : Raced kd p deliv) :
    iter procOnEnd ke (iter procOnStart ka (iter procFlush kf (iter procShutdown ks p))) = p := by
  obtain ⟨kind, ⟨a, e, f, s, n⟩, st, q⟩ := p
  obtain ⟨hk, hst, _, _, h⟩ := h
  simp only at hk hst; subst hk hst
  cases kind <;> simp_all [iter_onEnd, iter_onStart, iter_flush, iter_shutdown]

theorem raced_fixD (kd : PKind) (p : PS) (deliv k x m : Nat) (h : Raced kd p deliv) :
    iter (procShutdownD k x) m p = p := by
  obtain ⟨kind, ⟨a, e, f, s, n⟩, st, q⟩ := p
  obtain ⟨hk, hst, _, _, h⟩ := h
  simp only at hk hst; subst hk hst
  cases kind <;> simp_all [iter_shutdownD]

theorem raced_stepOK (kd : PKind) (p : PS) (deliv ka ke kf ks : Nat) (drains dead' rn : Bool) (h : Raced kd p deliv) :
    StepOKR kd p.cnt p.cnt ka ke kf ks drains dead' deliv true rn := by
  obtain ⟨kind, ⟨a, e, f, s, n⟩, st, q⟩ := p
  obtain ⟨hk, hst, hf, hs, h⟩ := h
  simp only at hk hst hf hs; subst hk hst
  cases kind <;> simp_all [StepOKR] <;> omega

/-- the provider's Shutdown with a done context, `m` = multiplicity of the component in the list -/
theorem comp_raced (kd : PKind) (p : PS) (dead : Bool) (deliv k x m : Nat) (h : CompInv kd p dead deliv) :
    CompInvR kd (iter (procShutdownD k x) m p) (dead || m != 0) (m != 0 && !dead) deliv ∧
    StepOKR kd p.cnt (iter (procShutdownD k x) m p).cnt 0 0 0 m (m != 0) (dead || m != 0) deliv false
      (m != 0 && !dead) := by
  obtain ⟨kind, ⟨a, e, f, s, n⟩, st, q⟩ := p
  obtain ⟨hk, h⟩ := h
  simp only at hk; subst hk
  rcases Nat.eq_zero_or_pos m with hm | hm
  · subst hm
    cases kind <;> cases dead <;> simp_all [iter_shutdownD, CompInvR, CompInv, StepOKR, Raced] <;> omega
  · have hne : m ≠ 0 := by omega
    cases kind <;> cases dead <;> cases st <;>
      simp_all [iter_shutdownD, CompInvR, CompInv, StepOKR, Raced] <;> omega

def isStock (kd : PKind) : Bool := kd == .simpleRec || kd == .batchRec

theorem compInvR_elim (kd : PKind) (p : PS) (dead raced : Bool) (deliv : Nat)
    (h : CompInvR kd p dead raced deliv) (hn : isStock kd = false ∨ raced = false) : CompInv kd p dead deliv := by
  cases kd <;> cases raced <;> simp_all [CompInvR, isStock]

theorem compInvR_intro (kd : PKind) (p : PS) (dead raced : Bool) (deliv : Nat)
    (h : CompInv kd p dead deliv) (hn : isStock kd = false ∨ raced = false) : CompInvR kd p dead raced deliv := by
  cases kd <;> cases raced <;> simp_all [CompInvR, isStock]

theorem compInvR_raced (kd : PKind) (p : PS) (dead : Bool) (deliv : Nat) (hs : isStock kd = true) :
    CompInvR kd p dead true deliv ↔ (dead = true ∧ Raced kd p deliv) := by
  cases kd <;> simp_all [CompInvR, isStock]

theorem stepOKR_irrel (kd : PKind) (prev cur : Cnt) (ka ke kf ks : Nat) (drains dead' : Bool) (deliv' : Nat)
    (rc rn : Bool) (hs : isStock kd = false)
    (h : StepOKR kd prev cur ka ke kf ks drains dead' deliv' false false) :
    StepOKR kd prev cur ka ke kf ks drains dead' deliv' rc rn := by
  cases kd <;> simp_all [StepOKR, isStock]

open Otel.C15.Spec.TP in
structure Inv (kinds : List PKind) (s : St) (r : Spec.TP.Ref) : Prop where
  shut : s.isShutdown = r.mem.shut
  mult : ∀ i, (ids s.procs).count i = r.mem.mult i
  tot : s.procs.length = r.mem.tot
  fresh : ∀ p ∈ s.procs, p.2 = false
  tr : s.tracers = r.tracers
  sp : s.spans = r.spans
  comp : ∀ i, CompInvR (kindOf kinds i) (s.pool i) (r.dead i) (r.raced i) (r.deliv i)
  shutnil : r.mem.shut = true → s.procs = []
  racedshut : ∀ i, r.raced i = true → r.mem.shut = true

def ka (r : Spec.TP.Ref) (op : Op) (i : Nat) : Nat := if (Spec.TP.delivers r op).1 then r.mem.mult i else 0
def ke (r : Spec.TP.Ref) (op : Op) (i : Nat) : Nat := if (Spec.TP.delivers r op).2 then r.mem.mult i else 0

/-- the call is a provider Shutdown with a done context that takes effect (handled by `step_raced`) -/
def trigger (m : Spec.TP.Mem) (op : Op) : Bool :=
  match op with
  | .shutdown c _ => !m.shut && c.done
  | _ => false

theorem procs_nil_of_tot {kinds s r} (h : Inv kinds s r) (h0 : r.mem.tot = 0) : s.procs = [] := by
  have := h.tot; rw [h0] at this; exact List.eq_nil_of_length_eq_zero this

theorem mult_zero_of_nil {kinds s r} (h : Inv kinds s r) (h0 : s.procs = []) (i : Nat) : r.mem.mult i = 0 := by
  have := h.mult i; rw [h0] at this; simpa [ids] using this.symm

/-- the pool after a step, component by component -/
theorem step_pool {kinds s r} (op : Op) (h : Inv kinds s r) (hf : trigger r.mem op = false) (i : Nat) :
    (step s op).1.pool i =
      iter procOnEnd (ke r op i) (iter procOnStart (ka r op i)
        (iter procFlush (Spec.TP.flushCalls r op i) (iter procShutdown (Spec.TP.shutCalls r op i) (s.pool i)))) := by
  have hsh := h.shut
  cases op with
  | reg j => simp [step, ka, ke, Spec.TP.delivers, Spec.TP.flushCalls, Spec.TP.shutCalls, iter]; split <;> rfl
  | unreg j =>
    simp only [step, ka, ke, Spec.TP.delivers, Spec.TP.flushCalls, Spec.TP.shutCalls, iter]
    by_cases hs : s.isShutdown = true
    · have : r.mem.shut = true := by rw [← hsh]; exact hs
      simp [hs, this, iter]
    · have hs' : s.isShutdown = false := by simpa using hs
      have hr : r.mem.shut = false := by rw [← hsh]; exact hs'
      simp only [hs', hr]
      cases hrl : removeLast j s.procs with
      | none =>
        have := removeLast_none j s.procs hrl
        have hm := h.mult j
        by_cases hji : j = i
        · subst hji; simp [← hm, this, iter]
        · simp [hji, iter]
      | some ql =>
        obtain ⟨q, l'⟩ := ql
        obtain ⟨h1, h2, h3, h4, h5⟩ := removeLast_some j s.procs q l' hrl
        have hq := h.fresh q h2
        obtain ⟨q1, q2⟩ := q
        simp only at hq h1
        subst hq h1
        have hm := h.mult q1
        have hc := h3 q1
        by_cases hji : q1 = i
        · subst hji
          have : r.mem.mult q1 ≠ 0 := by rw [← hm, hc]; simp
          simp [upd, this, iter]
        · have : ¬ i = q1 := fun e => hji e.symm
          simp [upd, hji, this, iter]
  | shutdown c ch =>
    simp only [step, ka, ke, Spec.TP.delivers, Spec.TP.flushCalls, Spec.TP.shutCalls, iter]
    by_cases hs : s.isShutdown = true
    · have hr : r.mem.shut = true := by rw [← hsh]; exact hs
      have : s.procs = [] := h.shutnil hr
      simp [hs, iter, ← h.mult i, this, ids]
    · have hs' : s.isShutdown = false := by simpa using hs
      have hr : r.mem.shut = false := by rw [← hsh]; exact hs'
      have hd : c.done = false := by simpa [trigger, hr] using hf
      simp only [hs', hd, Bool.false_eq_true, ↓reduceIte, shutdownAll]
      rw [foldl_upd_fresh _ _ _ _ h.fresh, h.mult i]
      rfl
  | flush c =>
    simp only [step, ka, ke, Spec.TP.delivers, Spec.TP.flushCalls, Spec.TP.shutCalls, iter]
    cases hp : s.procs with
    | nil =>
      have := mult_zero_of_nil h hp i
      simp [this, iter]
    | cons p0 rest =>
      cases hd : c.done with
      | true => simp [iter]
      | false =>
        simp only [Bool.false_eq_true, ↓reduceIte, flushAll]
        rw [← hp, foldl_upd, h.mult i]
        rfl
  | tracer k => simp [step, ka, ke, Spec.TP.delivers, Spec.TP.flushCalls, Spec.TP.shutCalls, iter]
  | start k j =>
    simp only [step, ka, ke, Spec.TP.delivers, Spec.TP.flushCalls, Spec.TP.shutCalls, iter, ← h.tr]
    cases ht : s.tracers k with
    | none => simp [iter]
    | some b =>
      cases b with
      | false => simp [iter]
      | true => simp [iter, startAll, foldl_upd, h.mult i]
  | end_ j =>
    simp only [step, ka, ke, Spec.TP.delivers, Spec.TP.flushCalls, Spec.TP.shutCalls, iter, ← h.sp]
    cases ht : s.spans j with
    | empty => simp [iter]
    | ended => simp [iter]
    | live b =>
      cases b with
      | false => simp [iter]
      | true => simp [iter, endAll, foldl_upd, h.mult i]
  | span k =>
    simp only [step, ka, ke, Spec.TP.delivers, Spec.TP.flushCalls, Spec.TP.shutCalls, iter, ← h.tr]
    cases ht : s.tracers k with
    | none => simp [iter]
    | some b =>
      cases b with
      | false => simp [iter]
      | true => simp [iter, startAll, endAll, foldl_upd, h.mult i]
  | pshut j =>
    simp only [step, ka, ke, Spec.TP.delivers, Spec.TP.flushCalls, Spec.TP.shutCalls, iter]
    by_cases hji : j = i
    · subst hji; simp [upd, iter]
    · have : ¬ i = j := fun e => hji e.symm
      simp [upd, hji, this, iter]


theorem kills_eq (r : Spec.TP.Ref) (op : Op) (i : Nat) :
    Spec.TP.kills r op i = (Spec.TP.shutCalls r op i != 0) := by
  cases op <;> simp [Spec.TP.kills, Spec.TP.shutCalls]
  · split <;> simp_all
  · split <;> simp_all

theorem ke_excl (r : Spec.TP.Ref) (op : Op) (i : Nat) :
    ke r op i = 0 ∨ (Spec.TP.shutCalls r op i = 0 ∧ Spec.TP.flushCalls r op i = 0) := by
  cases op <;> simp [ke, Spec.TP.delivers, Spec.TP.shutCalls, Spec.TP.flushCalls]

theorem step_rest {kinds s r} (op : Op) (h : Inv kinds s r) :
    (step s op).1.isShutdown = (Spec.TP.memStep r.mem op).shut ∧
    (∀ i, (ids (step s op).1.procs).count i = (Spec.TP.memStep r.mem op).mult i) ∧
    (step s op).1.procs.length = (Spec.TP.memStep r.mem op).tot ∧
    (∀ p ∈ (step s op).1.procs, p.2 = false) ∧
    (step s op).1.tracers = (Spec.TP.refStep r op (step s op).2).tracers ∧
    (step s op).1.spans = (Spec.TP.refStep r op (step s op).2).spans ∧
    ((Spec.TP.memStep r.mem op).shut = true → (step s op).1.procs = []) ∧
    Spec.TP.resOK r op (step s op).2 = true ∧ (step s op).2 ≠ .crash := by
  have hsh := h.shut
  have hmult := h.mult
  have htot := h.tot
  have hfr := h.fresh
  have htr := h.tr
  have hsp := h.sp
  have hsn := h.shutnil
  cases op with
  | reg j =>
    by_cases hs : s.isShutdown = true
    · have hr : r.mem.shut = true := by rw [← hsh]; exact hs
      have hstep : step s (.reg j) = (s, .none) := by simp [step, hs]
      have hmem : Spec.TP.memStep r.mem (.reg j) = r.mem := by simp [Spec.TP.memStep, hr]
      rw [hstep, hmem]
      exact ⟨hsh, hmult, htot, hfr, by simp [Spec.TP.refStep, htr], by simp [Spec.TP.refStep, hsp], hsn,
        by simp [Spec.TP.resOK], by simp⟩
    · have hs' : s.isShutdown = false := by simpa using hs
      have hr : r.mem.shut = false := by rw [← hsh]; exact hs'
      have hstep : step s (.reg j) = ({ s with procs := s.procs ++ [(j, false)] }, .none) := by simp [step, hs']
      have hmem : Spec.TP.memStep r.mem (.reg j) =
          { r.mem with mult := upd r.mem.mult j (· + 1), tot := r.mem.tot + 1 } := by simp [Spec.TP.memStep, hr]
      rw [hstep, hmem]
      refine ⟨by simp [hs', hr], ?_, by simp [htot], ?_, by simp [Spec.TP.refStep, htr],
        by simp [Spec.TP.refStep, hsp], by simp [hr], by simp [Spec.TP.resOK], by simp⟩
      · intro i
        have := hmult i
        simp only [ids, List.map_append, List.count_append, upd, List.map_cons, List.map_nil] at this ⊢
        rw [this]
        by_cases hij : i = j
        · subst hij; simp
        · have : ¬ j = i := fun e => hij e.symm
          simp [hij, this, List.count_cons]
      · intro p hp; simp at hp; rcases hp with hp | hp
        · exact hfr p hp
        · simp [hp]
  | unreg j =>
    by_cases hs : s.isShutdown = true
    · have hr : r.mem.shut = true := by rw [← hsh]; exact hs
      have hstep : step s (.unreg j) = (s, .none) := by simp [step, hs]
      have hmem : Spec.TP.memStep r.mem (.unreg j) = r.mem := by simp [Spec.TP.memStep, hr]
      rw [hstep, hmem]
      exact ⟨hsh, hmult, htot, hfr, by simp [Spec.TP.refStep, htr], by simp [Spec.TP.refStep, hsp], hsn,
        by simp [Spec.TP.resOK], by simp⟩
    · have hs' : s.isShutdown = false := by simpa using hs
      have hr : r.mem.shut = false := by rw [← hsh]; exact hs'
      cases hrl : removeLast j s.procs with
      | none =>
        have h0 := removeLast_none j s.procs hrl
        have hm0 : r.mem.mult j = 0 := by rw [← hmult j]; exact h0
        have hstep : step s (.unreg j) = (s, .none) := by simp [step, hs', hrl]
        have hmem : Spec.TP.memStep r.mem (.unreg j) = r.mem := by simp [Spec.TP.memStep, hr, hm0]
        rw [hstep, hmem]
        exact ⟨hsh, hmult, htot, hfr, by simp [Spec.TP.refStep, htr], by simp [Spec.TP.refStep, hsp], hsn,
          by simp [Spec.TP.resOK], by simp⟩
      | some ql =>
        obtain ⟨q, l'⟩ := ql
        obtain ⟨h1, h2, h3, h4, h5⟩ := removeLast_some j s.procs q l' hrl
        obtain ⟨q1, q2⟩ := q
        simp only at h1; subst h1
        have hne : r.mem.mult q1 ≠ 0 := by rw [← hmult q1, h3 q1]; simp
        have hstep : (step s (.unreg q1)).1.procs = l' ∧ (step s (.unreg q1)).1.isShutdown = false ∧
            (step s (.unreg q1)).1.tracers = s.tracers ∧ (step s (.unreg q1)).1.spans = s.spans ∧
            (step s (.unreg q1)).2 = .none := by simp [step, hs', hrl]
        obtain ⟨e1, e2, e3, e4, e5⟩ := hstep
        have hmem : Spec.TP.memStep r.mem (.unreg q1) =
            { r.mem with mult := upd r.mem.mult q1 (· - 1), tot := r.mem.tot - 1 } := by
          simp [Spec.TP.memStep, hr, hne]
        rw [e1, e2, e3, e4, e5, hmem]
        refine ⟨by simp [hr], ?_, ?_, ?_, by simp [Spec.TP.refStep, htr], by simp [Spec.TP.refStep, hsp],
          by simp [hr], by simp [Spec.TP.resOK], by simp⟩
        · intro i; have := h3 i; rw [hmult i] at this
          simp only [upd]; by_cases hij : i = q1
          · subst hij; simp at this ⊢; omega
          · simp [hij] at this ⊢; omega
        · rw [← htot]; simp at h4 ⊢; omega
        · intro p hp; exact hfr p (h5 p hp)
  | shutdown c ch =>
    have hmem : Spec.TP.memStep r.mem (.shutdown c ch) = { mult := fun _ => 0, tot := 0, shut := true } := by
      simp [Spec.TP.memStep]
    by_cases hs : s.isShutdown = true
    · have hr : r.mem.shut = true := by rw [← hsh]; exact hs
      have hnil := hsn hr
      have hstep : step s (.shutdown c ch) = (s, .ok) := by simp [step, hs]
      rw [hstep, hmem]
      exact ⟨by simp [hs], by simp [hnil, ids], by simp [hnil], hfr, by simp [Spec.TP.refStep, htr],
        by simp [Spec.TP.refStep, hsp], fun _ => hnil, by simp [Spec.TP.resOK, hr], by simp⟩
    · have hs' : s.isShutdown = false := by simpa using hs
      have hr : r.mem.shut = false := by rw [← hsh]; exact hs'
      have hstep : (step s (.shutdown c ch)).1.procs = [] ∧ (step s (.shutdown c ch)).1.isShutdown = true ∧
          (step s (.shutdown c ch)).1.tracers = s.tracers ∧ (step s (.shutdown c ch)).1.spans = s.spans ∧
          (step s (.shutdown c ch)).2 =
            (if (c.done && s.procs.any (fun p => !p.2 && racy (s.pool p.1) && ch.e p.1)) = true
             then c.err else .ok) := by
        simp only [step, hs', Bool.false_eq_true, ↓reduceIte]
        cases hd : c.done <;> simp only [Bool.true_and, Bool.false_and, Bool.false_eq_true, ↓reduceIte] <;>
          simp
      obtain ⟨e1, e2, e3, e4, e5⟩ := hstep
      rw [e1, e2, e3, e4, e5, hmem]
      refine ⟨rfl, by simp [ids], rfl, by simp, by simp [Spec.TP.refStep, htr],
        by simp [Spec.TP.refStep, hsp], fun _ => rfl, ?_, ?_⟩
      · simp only [Spec.TP.resOK, hr]
        by_cases hc : (c.done && s.procs.any (fun p => !p.2 && racy (s.pool p.1) && ch.e p.1)) = true
        · rw [if_pos hc]
          have hc' := hc
          simp only [Bool.and_eq_true] at hc'
          have hne : ¬ s.procs = [] := by
            intro e; rw [e] at hc'; simp at hc'
          have ht : r.mem.tot ≠ 0 := by
            rw [← htot]; intro e; exact hne (List.eq_nil_of_length_eq_zero e)
          simp [ht, hc'.1]
        · rw [if_neg hc]; split <;> simp
      · split
        · cases c <;> simp [Ctx.err]
        · simp
  | flush c =>
    have hmem : Spec.TP.memStep r.mem (.flush c) = r.mem := by simp [Spec.TP.memStep]
    have hstep : (step s (.flush c)).1.procs = s.procs ∧ (step s (.flush c)).1.isShutdown = s.isShutdown ∧
        (step s (.flush c)).1.tracers = s.tracers ∧ (step s (.flush c)).1.spans = s.spans ∧
        (step s (.flush c)).2 = (if s.procs = [] ∨ c.done = false then .ok else c.err) := by
      simp only [step]
      cases hp : s.procs with
      | nil => simp [hp]
      | cons p0 rest => cases hd : c.done <;> simp [hp]
    obtain ⟨e1, e2, e3, e4, e5⟩ := hstep
    rw [e1, e2, e3, e4, e5, hmem]
    refine ⟨hsh, hmult, htot, hfr, by simp [Spec.TP.refStep, htr], by simp [Spec.TP.refStep, hsp], hsn, ?_, ?_⟩
    · have : (s.procs = []) ↔ r.mem.tot = 0 := by
        rw [← htot]; exact ⟨fun e => by rw [e]; rfl, List.eq_nil_of_length_eq_zero⟩
      simp only [Spec.TP.resOK]
      by_cases h0 : r.mem.tot = 0
      · simp [h0, this.mpr h0]
      · have hne : ¬ s.procs = [] := fun e => h0 (this.mp e)
        cases hd : c.done <;> simp [h0, hne]
    · split
      · simp
      · cases c <;> simp_all [Ctx.err, Ctx.done]
  | tracer k =>
    simp only [step, Spec.TP.memStep, Spec.TP.refStep, Spec.TP.resOK]
    refine ⟨hsh, hmult, htot, hfr, ?_, hsp, hsn, ?_, ?_⟩
    · have e1 : (Res.noop == Res.sdk) = false := by decide
      have e2 : (Res.sdk == Res.sdk) = true := by decide
      rw [htr]; cases hs : s.isShutdown <;> simp [e1, e2]
    · rw [hsh]; exact beq_self_eq_true _
    · cases hs : s.isShutdown <;> simp
  | start k j =>
    simp only [step, Spec.TP.memStep, Spec.TP.refStep, Spec.TP.resOK, ← htr, ← hsp]
    cases ht : s.tracers k with
    | none => exact ⟨hsh, hmult, htot, hfr, rfl, rfl, hsn, by simp, by simp⟩
    | some b => cases b <;> exact ⟨hsh, hmult, htot, hfr, rfl, rfl, hsn, by simp, by simp⟩
  | end_ j =>
    simp only [step, Spec.TP.memStep, Spec.TP.refStep, Spec.TP.resOK, ← htr, ← hsp]
    cases ht : s.spans j with
    | empty => exact ⟨hsh, hmult, htot, hfr, rfl, rfl, hsn, by simp, by simp⟩
    | ended => exact ⟨hsh, hmult, htot, hfr, rfl, rfl, hsn, by simp, by simp⟩
    | live b => cases b <;> exact ⟨hsh, hmult, htot, hfr, rfl, rfl, hsn, by simp, by simp⟩
  | span k =>
    simp only [step, Spec.TP.memStep, Spec.TP.refStep, Spec.TP.resOK, ← htr, ← hsp]
    cases ht : s.tracers k with
    | none => exact ⟨hsh, hmult, htot, hfr, rfl, rfl, hsn, by simp, by simp⟩
    | some b => cases b <;> exact ⟨hsh, hmult, htot, hfr, rfl, rfl, hsn, by simp, by simp⟩
  | pshut j =>
    simp only [step, Spec.TP.memStep, Spec.TP.refStep, Spec.TP.resOK]
    exact ⟨hsh, hmult, htot, hfr, htr, hsp, hsn, by simp, by simp⟩


def snapOf (s : St) : Nat → Cnt := fun i => (s.pool i).cnt

/-- the pool after a provider Shutdown with a done context -/
theorem step_pool_raced {kinds s r} (c : Ctx) (ch : Choice) (h : Inv kinds s r)
    (hf : trigger r.mem (.shutdown c ch) = true) (i : Nat) :
    (step s (.shutdown c ch)).1.pool i = iter (procShutdownD (ch.k i) (ch.x i)) (r.mem.mult i) (s.pool i) := by
  simp only [trigger, Bool.and_eq_true, Bool.not_eq_true'] at hf
  have hs' : s.isShutdown = false := by rw [h.shut]; exact hf.1
  simp only [step, hs', hf.2, Bool.false_eq_true, ↓reduceIte, shutdownAllD]
  rw [foldl_updI (fun j => procShutdownD (ch.k j) (ch.x j)) _ _ _ h.fresh, h.mult i]

theorem racedNow_false {kinds s r} (op : Op) (h : Inv kinds s r) (hf : trigger r.mem op = false) (i : Nat) :
    Spec.TP.racedNow r op i = false := by
  cases op <;> simp only [Spec.TP.racedNow]
  rename_i c ch
  simp only [trigger] at hf
  cases hsh : r.mem.shut with
  | false => simp_all
  | true =>
    have := mult_zero_of_nil h (h.shutnil hsh) i
    simp [this]

/-- `Spec.TP.checkStep` from its per-index content -/
theorem checkStep_of (kinds : List PKind) (r : Spec.TP.Ref) (op : Op) (prev cur : Nat → Cnt) (res : Res)
    (hres : Spec.TP.resOK r op res = true) (hcr : res ≠ .crash)
    (h : ∀ i, StepOKR (kindOf kinds i) (prev i) (cur i) (ka r op i) (ke r op i) (Spec.TP.flushCalls r op i)
      (Spec.TP.shutCalls r op i) (Spec.TP.drains r op i) ((Spec.TP.refStep r op res).dead i)
      ((Spec.TP.refStep r op res).deliv i) (r.raced i) (Spec.TP.racedNow r op i)) :
    Spec.TP.checkStep kinds r op prev cur res = Spec.Fails.none := by
  simp only [Spec.TP.checkStep, Spec.Fails.none, Spec.Fails.mk.injEq, Bool.not_eq_false', Spec.allBelow,
    List.all_eq_true, Bool.and_eq_true]
  refine ⟨?_, ?_, ⟨hres, ?_⟩, ?_⟩
  · intro i _
    have := h i
    revert this
    cases kindOf kinds i <;> simp only [StepOKR, ka, ke] <;> intro this <;>
      cases hrc : r.raced i <;> cases hrn : Spec.TP.racedNow r op i <;> simp_all <;>
      (try (first | omega | (obtain ⟨t1, t2, _⟩ := this; rw [← t1]; exact t2)))
  · intro i _
    have := h i
    revert this
    cases kindOf kinds i <;> simp only [StepOKR, Spec.TP.stockShutOK] <;> intro this <;>
      cases hrc : r.raced i <;> cases hrn : Spec.TP.racedNow r op i <;> simp_all <;> (try omega)
  · intro i _
    have := h i
    revert this
    cases kindOf kinds i <;> simp only [StepOKR] <;> intro this <;> simp_all
  · cases res <;> simp_all

/-- one step seen from component `i`: the component invariant is preserved and the step has the per-index content
of `Spec.TP.checkStep` -/
theorem step_comp {kinds s r} (op : Op) (h : Inv kinds s r) (i : Nat) :
    CompInvR (kindOf kinds i) ((step s op).1.pool i)
        ((Spec.TP.refStep r op (step s op).2).dead i) ((Spec.TP.refStep r op (step s op).2).raced i)
        ((Spec.TP.refStep r op (step s op).2).deliv i) ∧
      StepOKR (kindOf kinds i) (s.pool i).cnt ((step s op).1.pool i).cnt (ka r op i) (ke r op i)
        (Spec.TP.flushCalls r op i) (Spec.TP.shutCalls r op i) (Spec.TP.drains r op i)
        ((Spec.TP.refStep r op (step s op).2).dead i) ((Spec.TP.refStep r op (step s op).2).deliv i)
        (r.raced i) (Spec.TP.racedNow r op i) := by
  have hdead : ∀ i, (Spec.TP.refStep r op (step s op).2).dead i = (r.dead i || (Spec.TP.shutCalls r op i != 0)) := by
    intro i; simp only [Spec.TP.refStep, kills_eq]
  have hdeliv : ∀ i, (Spec.TP.refStep r op (step s op).2).deliv i = r.deliv i + (if r.dead i then 0 else ke r op i) := by
    intro i; simp only [Spec.TP.refStep, ke]
    cases (Spec.TP.delivers r op).2 <;> cases r.dead i <;> simp
  have hraced : ∀ i, (Spec.TP.refStep r op (step s op).2).raced i = (r.raced i || Spec.TP.racedNow r op i) :=
    fun _ => rfl
  have hdr : ∀ i, Spec.TP.drains r op i = (Spec.TP.shutCalls r op i != 0 || Spec.TP.flushCalls r op i != 0) := by
    intro i; simp only [Spec.TP.drains, kills_eq]
    cases op <;> simp [Spec.TP.flushCalls]
    split <;> simp_all
  rw [hdead, hdeliv, hraced, hdr]
  cases ht : trigger r.mem op with
  | true =>
    -- the provider's Shutdown with a done context
    cases op with
    | shutdown c ch =>
      have ht' := ht
      simp only [trigger, Bool.and_eq_true, Bool.not_eq_true'] at ht'
      have hnr : r.raced i = false := by
        cases hr : r.raced i with
        | false => rfl
        | true => have := h.racedshut i hr; rw [ht'.1] at this; cases this
      have hci := compInvR_elim _ _ _ _ _ (h.comp i) (Or.inr hnr)
      rw [step_pool_raced c ch h ht i]
      have := comp_raced _ _ _ _ (ch.k i) (ch.x i) (r.mem.mult i) hci
      simp only [ka, ke, Spec.TP.delivers, Spec.TP.flushCalls, Spec.TP.shutCalls, Spec.TP.racedNow, hnr, ht'.2,
        Bool.false_or, Bool.true_and, Bool.false_eq_true, ↓reduceIte, Nat.add_zero, Bool.or_false,
        bne_self_eq_false] at this ⊢
      cases hd : r.dead i <;> simp only [hd] at this ⊢ <;> exact this
    | _ => simp [trigger] at ht
  | false =>
    have hrn := racedNow_false op h ht i
    rw [hrn, Bool.or_false, step_pool op h ht i]
    by_cases hst : isStock (kindOf kinds i) = true ∧ r.raced i = true
    · obtain ⟨hs1, hs2⟩ := hst
      have hc := h.comp i
      rw [hs2, compInvR_raced _ _ _ _ hs1] at hc
      obtain ⟨hd, hrc⟩ := hc
      rw [raced_fix _ _ _ _ _ _ _ hrc, hs2, hd]
      simp only [Bool.true_or, ↓reduceIte, Nat.add_zero]
      exact ⟨(compInvR_raced _ _ _ _ hs1).mpr ⟨rfl, hrc⟩, raced_stepOK _ _ _ _ _ _ _ _ _ _ hrc⟩
    · have hn : isStock (kindOf kinds i) = false ∨ r.raced i = false := by
        cases h1 : isStock (kindOf kinds i) <;> cases h2 : r.raced i <;> simp_all
      have hci := compInvR_elim _ _ _ _ _ (h.comp i) hn
      obtain ⟨c1, c2⟩ := comp_step _ _ _ _ _ _ _ _ hci (ke_excl r op i)
      refine ⟨compInvR_intro _ _ _ _ _ c1 hn, ?_⟩
      have c3 := stepOK_to_R _ _ _ _ _ _ _ _ _ _ c2
      rcases hn with hn | hn
      · exact stepOKR_irrel _ _ _ _ _ _ _ _ _ _ _ _ hn c3
      · rw [hn]; exact c3

theorem step_inv {kinds s r} (op : Op) (h : Inv kinds s r) :
    Inv kinds (step s op).1 (Spec.TP.refStep r op (step s op).2) ∧
    Spec.TP.checkStep kinds r op (snapOf s) (snapOf (step s op).1) (step s op).2 = Spec.Fails.none := by
  obtain ⟨r1, r2, r3, r4, r5, r6, r7, r8, r9⟩ := step_rest op h
  have hraced : ∀ i, (Spec.TP.refStep r op (step s op).2).raced i = (r.raced i || Spec.TP.racedNow r op i) :=
    fun _ => rfl
  have hcomp := fun i => step_comp op h i
  refine ⟨⟨r1, r2, r3, r4, r5, r6, fun i => (hcomp i).1, r7, ?_⟩, checkStep_of _ _ _ _ _ _ r8 r9 fun i => (hcomp i).2⟩
  · intro i hr
    rw [hraced] at hr
    simp only [Bool.or_eq_true] at hr
    rcases hr with hr | hr
    · have := h.racedshut i hr
      show (Spec.TP.memStep r.mem op).shut = true
      cases op <;> simp_all [Spec.TP.memStep]
      all_goals (split <;> simp_all)
    · cases op <;> simp_all [Spec.TP.racedNow, Spec.TP.refStep, Spec.TP.memStep]

theorem Fails.none_or_none : Spec.Fails.none.or Spec.Fails.none = Spec.Fails.none := by decide

theorem checkFrom_none {kinds} (ops : List Op) : ∀ (s : St) (r : Spec.TP.Ref), Inv kinds s r →
    Spec.TP.checkFrom kinds r (snapOf s) ops (runFrom s ops) = Spec.Fails.none := by
  induction ops with
  | nil => intro s r _; rfl
  | cons op rest ih =>
    intro s r h
    obtain ⟨h1, h2⟩ := step_inv op h
    have := ih (step s op).1 _ h1
    show (Spec.TP.checkStep kinds r op (snapOf s) (snapOf (step s op).1) (step s op).2).or
      (Spec.TP.checkFrom kinds (Spec.TP.refStep r op (step s op).2) (snapOf (step s op).1) rest
        (runFrom (step s op).1 rest)) = Spec.Fails.none
    rw [h2, this]; exact Fails.none_or_none

theorem runFrom_length (s : St) (ops : List Op) : (runFrom s ops).length = ops.length := by
  induction ops generalizing s with
  | nil => rfl
  | cons op rest ih => simp [runFrom, ih]

theorem inv_init (kinds : List PKind) : Inv kinds (init kinds) {} := by
  refine ⟨rfl, fun i => by simp [init, ids], rfl, by simp [init], rfl, rfl, ?_, by simp, by simp⟩
  intro i
  simp only [CompInvR, CompInv, init]
  cases kindOf kinds i <;> simp

end Otel.C15.Lemmas
