/-
C15 — OVERLAPPING calls on the logger provider and the meter provider (sdk/log/provider.go, logger.go;
sdk/metric/provider.go, config.go `unifyShutdown`). The provider models of Model.lean take every method body as one
atomic step; these two method bodies are not mutex-protected, so here they are labelled transition systems whose
labels are the atomic operations the code really has (`stopped.Swap` / `Load` / `Store`, `sync.Once`) and ONE label
per call into a processor / reader. Threads are an unbounded pool; an idle thread may begin any call: the theorems
quantify over all programs of concurrent callers and all interleavings at that granularity.

The processors / readers themselves are counters (how often their Shutdown / OnEmit / ForceFlush was called); that
each of them tolerates calls after its own Shutdown is the subject of the sequential models.
-/
namespace Otel.C15.Conc

def upd {α : Type} (f : Nat → α) (k : Nat) (v : α) : Nat → α := fun x => if x = k then v else f x
theorem upd_apply {α : Type} (f : Nat → α) (k : Nat) (v : α) (x : Nat) :
    upd f k v x = if x = k then v else f x := rfl

/-! ## LoggerProvider -/

inductive LFrame where
  | idle
  | sdLoop (k : Nat)   -- Shutdown: `stopped.Swap(true)` returned false; next processor k
  | emLoop (k : Nat)   -- Emit: `stopped.Load()` was false; next processor k
  | ffLoop (k : Nat)   -- ForceFlush: `stopped.Load()` was false; next processor k
deriving DecidableEq, Repr

inductive LAct where
  | sdSwap   -- Shutdown: stopped.Swap(true); already stopped ⇒ return nil
  | sdProc   -- p.processors[k].Shutdown(ctx)
  | sdRet
  | emCheck  -- logger.Emit: provider.stopped.Load(); stopped ⇒ return
  | emProc   -- p.processors[k].OnEmit
  | emRet
  | ffCheck | ffProc | ffRet
  | logger   -- Logger(name): stopped.Load() ⇒ no-op logger, else a live one
deriving DecidableEq, Repr

structure LSt where
  n : Nat := 0                       -- number of processors (fixed by NewLoggerProvider)
  stopped : Bool := false
  sd : Nat → Nat := fun _ => 0       -- Shutdown calls processor k has seen
  em : Nat → Nat := fun _ => 0
  ff : Nat → Nat := fun _ => 0
  sdNil : Nat := 0                   -- Shutdown calls that have returned (always nil: processors return nil)
  noopLoggers : Nat := 0
  liveLoggers : Nat := 0
  -- ghost: the caller that won the Swap, how far its loop is, whether it has returned
  winner : Option Nat := none
  pos : Nat := 0
  sdDone : Bool := false
  frame : Nat → LFrame := fun _ => .idle

def LSt.init (n : Nat) : LSt := { n := n }

def lstep (s : LSt) (t : Nat) (a : LAct) : Option LSt :=
  match a with
  | .sdSwap =>
    if s.frame t = .idle then
      if s.stopped then some { s with sdNil := s.sdNil + 1 }
      else some { s with stopped := true, winner := some t, frame := upd s.frame t (.sdLoop 0) }
    else none
  | .sdProc =>
    match s.frame t with
    | .sdLoop k =>
      if k < s.n then some { s with sd := upd s.sd k (s.sd k + 1), pos := k + 1, frame := upd s.frame t (.sdLoop (k + 1)) }
      else none
    | _ => none
  | .sdRet =>
    match s.frame t with
    | .sdLoop k =>
      if k < s.n then none
      else some { s with sdNil := s.sdNil + 1, sdDone := true, frame := upd s.frame t .idle }
    | _ => none
  | .emCheck =>
    if s.frame t = .idle then
      if s.stopped then some s else some { s with frame := upd s.frame t (.emLoop 0) }
    else none
  | .emProc =>
    match s.frame t with
    | .emLoop k =>
      if k < s.n then some { s with em := upd s.em k (s.em k + 1), frame := upd s.frame t (.emLoop (k + 1)) } else none
    | _ => none
  | .emRet =>
    match s.frame t with
    | .emLoop k => if k < s.n then none else some { s with frame := upd s.frame t .idle }
    | _ => none
  | .ffCheck =>
    if s.frame t = .idle then
      if s.stopped then some s else some { s with frame := upd s.frame t (.ffLoop 0) }
    else none
  | .ffProc =>
    match s.frame t with
    | .ffLoop k =>
      if k < s.n then some { s with ff := upd s.ff k (s.ff k + 1), frame := upd s.frame t (.ffLoop (k + 1)) } else none
    | _ => none
  | .ffRet =>
    match s.frame t with
    | .ffLoop k => if k < s.n then none else some { s with frame := upd s.frame t .idle }
    | _ => none
  | .logger =>
    if s.frame t = .idle then
      if s.stopped then some { s with noopLoggers := s.noopLoggers + 1 }
      else some { s with liveLoggers := s.liveLoggers + 1 }
    else none

inductive LReach (n : Nat) : LSt → Prop where
  | init : LReach n (LSt.init n)
  | step {s s' : LSt} (t : Nat) (a : LAct) : LReach n s → lstep s t a = some s' → LReach n s'

def lrun (s : LSt) : List (Nat × LAct) → Option LSt
  | [] => some s
  | (t, a) :: r => match lstep s t a with
    | some s' => lrun s' r
    | none => none

theorem lreach_lrun {n : Nat} {s s' : LSt} (l : List (Nat × LAct)) (hs : LReach n s) (h : lrun s l = some s') :
    LReach n s' := by
  induction l generalizing s with
  | nil => simp [lrun] at h; exact h ▸ hs
  | cons x r ih =>
    obtain ⟨t, a⟩ := x
    simp only [lrun] at h
    split at h
    · next s1 h1 => exact ih (LReach.step t a hs h1) h
    · exact absurd h (by simp)

syntax "conc_step " ident ident " [" Lean.Parser.Tactic.grindParam,* "]" : tactic
macro_rules
  | `(tactic| conc_step $f:ident $h:ident [$ls,*]) => `(tactic|
      (simp only [$f:ident] at $h:ident <;> (repeat' split at $h:ident) <;>
        (first | (simp at $h:ident; done)
               | (simp only [Option.some.injEq] at $h:ident; subst $h:ident; constructor <;>
                   (try simp only [upd_apply]) <;> grind [$ls,*]))))

structure LInv (n : Nat) (s : LSt) : Prop where
  nEq : s.n = n
  loop : ∀ t j, s.frame t = .sdLoop j → s.winner = some t ∧ j = s.pos ∧ s.sdDone = false
  counts : ∀ k, s.sd k = if k < s.pos then 1 else 0
  posLe : s.pos ≤ s.n
  donePos : s.sdDone = true → s.pos = s.n
  notStopped : s.stopped = false → s.pos = 0 ∧ s.winner = none ∧ s.sdDone = false ∧ s.sdNil = 0
  won : s.stopped = true → s.winner ≠ none
  running : ∀ t, s.winner = some t → s.sdDone = false → s.frame t = .sdLoop s.pos
  /-- a Shutdown call has returned ⇒ some call was made -/
  nilStopped : 0 < s.sdNil → s.stopped = true

theorem linv_init (n : Nat) : LInv n (LSt.init n) := by
  constructor <;> simp [LSt.init]

set_option maxHeartbeats 1600000 in
theorem linv_step {n : Nat} {s s' : LSt} {t : Nat} {a : LAct} (I : LInv n s) (h : lstep s t a = some s') :
    LInv n s' := by
  obtain ⟨i0, i1, i2, i3, i4, i5, i6, i7, i8⟩ := I
  cases a <;> conc_step lstep h []

theorem linv_reach {n : Nat} {s : LSt} (h : LReach n s) : LInv n s := by
  induction h with
  | init => exact linv_init n
  | step t a _ hs ih => exact linv_step ih hs

/-! ## MeterProvider: `stopped.Store(true)` then `unifyShutdown`'s `sync.Once` around the loop over the readers -/

inductive MFrame where
  | idle
  | mWait            -- Shutdown: stopped stored, about to call once.Do
  | mLoop (k : Nat)  -- inside once.Do: next reader k
deriving DecidableEq, Repr

inductive MAct where
  | mStore   -- mp.stopped.Store(true)
  | mEnter   -- once.Do: first ⇒ run the body; done ⇒ return ErrReaderShutdown; running ⇒ wait
  | mProc    -- readers[k].Shutdown(ctx)
  | mRet     -- body finished: once done, return the unified result
  | meter    -- Meter(name): stopped.Load() ⇒ no-op meter
deriving DecidableEq, Repr

structure MSt where
  n : Nat := 0
  stopped : Bool := false
  onceOwner : Option Nat := none
  onceDone : Bool := false
  rd : Nat → Nat := fun _ => 0     -- Shutdown calls reader k has seen
  retUnified : Nat := 0            -- Shutdown calls that returned the unified result of the readers (nil)
  retShut : Nat := 0               -- Shutdown calls that returned ErrReaderShutdown
  noopMeters : Nat := 0
  liveMeters : Nat := 0
  pos : Nat := 0                   -- ghost: progress of the Once body
  frame : Nat → MFrame := fun _ => .idle

def MSt.init (n : Nat) : MSt := { n := n }

def mstep (s : MSt) (t : Nat) (a : MAct) : Option MSt :=
  match a with
  | .mStore =>
    if s.frame t = .idle then some { s with stopped := true, frame := upd s.frame t .mWait } else none
  | .mEnter =>
    if s.frame t = .mWait then
      if s.onceDone then some { s with retShut := s.retShut + 1, frame := upd s.frame t .idle }
      else if s.onceOwner = none then some { s with onceOwner := some t, frame := upd s.frame t (.mLoop 0) }
      else none
    else none
  | .mProc =>
    match s.frame t with
    | .mLoop k =>
      if k < s.n then some { s with rd := upd s.rd k (s.rd k + 1), pos := k + 1, frame := upd s.frame t (.mLoop (k + 1)) }
      else none
    | _ => none
  | .mRet =>
    match s.frame t with
    | .mLoop k =>
      if k < s.n then none
      else some { s with onceOwner := none, onceDone := true, retUnified := s.retUnified + 1, frame := upd s.frame t .idle }
    | _ => none
  | .meter =>
    if s.frame t = .idle then
      if s.stopped then some { s with noopMeters := s.noopMeters + 1 }
      else some { s with liveMeters := s.liveMeters + 1 }
    else none

inductive MReach (n : Nat) : MSt → Prop where
  | init : MReach n (MSt.init n)
  | step {s s' : MSt} (t : Nat) (a : MAct) : MReach n s → mstep s t a = some s' → MReach n s'

def mrun (s : MSt) : List (Nat × MAct) → Option MSt
  | [] => some s
  | (t, a) :: r => match mstep s t a with
    | some s' => mrun s' r
    | none => none

structure MInv (n : Nat) (s : MSt) : Prop where
  nEq : s.n = n
  loop : ∀ t j, s.frame t = .mLoop j → s.onceOwner = some t ∧ j = s.pos ∧ s.onceDone = false
  owner : ∀ t, s.onceOwner = some t → s.frame t = .mLoop s.pos
  counts : ∀ k, s.rd k = if k < s.pos then 1 else 0
  posLe : s.pos ≤ s.n
  donePos : s.onceDone = true → s.pos = s.n ∧ s.retUnified = 1 ∧ s.onceOwner = none
  notDone : s.onceDone = false → s.retUnified = 0 ∧ s.retShut = 0
  notStopped : s.stopped = false → s.pos = 0 ∧ s.onceOwner = none ∧ s.onceDone = false ∧ ∀ t, s.frame t = .idle
  /-- nobody in the Once and not done ⇒ the body has not started -/
  idlePos : s.onceOwner = none → s.onceDone = false → s.pos = 0

theorem minv_init (n : Nat) : MInv n (MSt.init n) := by
  constructor <;> simp [MSt.init]

set_option maxHeartbeats 1600000 in
theorem minv_step {n : Nat} {s s' : MSt} {t : Nat} {a : MAct} (I : MInv n s) (h : mstep s t a = some s') :
    MInv n s' := by
  obtain ⟨i0, i1, i2, i3, i4, i5, i6, i7, i8⟩ := I
  cases a <;> conc_step mstep h []

theorem minv_reach {n : Nat} {s : MSt} (h : MReach n s) : MInv n s := by
  induction h with
  | init => exact minv_init n
  | step t a _ hs ih => exact minv_step ih hs

end Otel.C15.Conc
