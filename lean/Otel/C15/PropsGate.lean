/-
C15 — property theorem for an End that overlaps a membership change (forced schedules, `gtp` lines).
-/
import Otel.C15.Model
import Otel.C15.Spec
import Otel.C15.Gate
import Otel.C15.GateLemmas
namespace Otel.C15.PropsGate
open Otel.C15 Otel.C15.TP Otel.C15.Gate Otel.C15.GateLemmas Otel.C15.Lemmas

/-- Clause "ended spans are delivered to exactly the processors currently registered", reading for an `End` that
overlaps membership changes: *exactly the processors registered when End loaded the list*.  For every pool of
recording processors and EVERY gated script — an End parked inside any processor's OnEnd, then any sequence of
Register / Unregister (of processors before or after the gate) / Shutdown / ForceFlush / further Start / End, then
the release —, the model's run passes `Gate.gcheck`: the parked End delivers, in total,
to each processor exactly its multiplicity at load time (part before the gate, the rest at the release, whatever
was unregistered or registered meanwhile), no call crashes, and every ordinary step still satisfies
`Spec.TP.checkStep`. -/
theorem overlapping_end_delivers_snapshot (kinds : List PKind) (hk : ∀ k ∈ kinds, k = .recd) (ops : List GOp) :
    gcheck kinds ops (grun kinds ops) = Spec.Fails.none := by
  have := gcheckFrom_none (allRec_of_forall kinds hk) ops { st := init kinds } {} (ginv_init kinds)
  have hs : snapOf (init kinds) = fun _ => {} := by funext i; simp [snapOf, init]
  rw [hs] at this
  simp [gcheck, grun, this, grunFrom_length, Spec.Fails.or, Spec.Fails.none]

/-- the scenario of the seeded change C15-1: three processors, End parked in the second, the first unregistered,
release — the third (registered throughout) receives the span exactly once, the first once (before the gate) -/
def gKinds : List PKind := [.recd, .recd, .recd]
def gOps : List GOp :=
  [.op (.tracer 0), .op (.reg 0), .op (.reg 1), .op (.reg 2), .op (.start 0 0), .endg 0 1, .op (.unreg 0), .rel,
   .op (.span 0), .op (.shutdown .bg {})]

example : gcheck gKinds gOps (grun gKinds gOps) = Spec.Fails.none := by decide
example : (grun gKinds gOps).map (fun o => (o.parked, (o.snap 0).e, (o.snap 1).e, (o.snap 2).e)) =
    [(false, 0, 0, 0), (false, 0, 0, 0), (false, 0, 0, 0), (false, 0, 0, 0), (false, 0, 0, 0),
     (true, 1, 1, 0), (false, 1, 1, 0), (false, 1, 1, 1), (false, 1, 2, 2), (false, 1, 2, 2)] := by decide

/-- an implementation that lost the delivery to the third processor (what the in-place `slices.Delete` does) is
rejected by the oracle: clause membership fails at the release -/
example : (gcheck gKinds (gOps.take 8)
    ((grun gKinds (gOps.take 8)).take 7 ++ [{ res := .none, parked := false, snap := ((grun gKinds (gOps.take 8)).getD 6
      { res := .none, parked := false, snap := fun _ => {} }).snap }])).m = true := by decide

end Otel.C15.PropsGate
