/-
C15 — property theorems.  "Every op sequence" = "every interleaving of any number of concurrent callers": each
provider method body is one atomic step of the model (Model.lean header), so the linearisations of any concurrent
execution are exactly the op lists quantified over here.
-/
import Otel.C15.Model
import Otel.C15.Spec
import Otel.C15.Lemmas
namespace Otel.C15.Props
open Otel.C15 Otel.C15.Lemmas

/-- Main theorem (trace provider): for every pool of processors (recording, simple/batch around a recording or a
nil exporter) and EVERY op sequence (register, unregister — also of processors never registered or registered
several times —, Shutdown/ForceFlush with live or done contexts, tracer creation, span start/end in any order,
direct processor shutdown) that does not trigger known finding F26, the model's run passes the whole reference
oracle `Spec.TP.check`: all four clauses at once. The next four theorems are its projections. -/
theorem tp_lifecycle_partial (kinds : List TP.PKind) (ops : List TP.Op) (h : ¬ Spec.TP.F26_applies ops) :
    Spec.TP.check kinds ops (TP.run kinds ops) = Spec.Fails.none := by
  have hf : Spec.TP.f26From {} ops = false := by
    simpa [Spec.TP.F26_applies] using h
  have := checkFrom_none (kinds := kinds) ops (TP.init kinds) {} (inv_init kinds) hf
  have hs : snapOf (TP.init kinds) = fun _ => {} := by
    funext i; simp [snapOf, TP.init]
  rw [hs] at this
  simp [Spec.TP.check, TP.run, this, runFrom_length, Spec.Fails.or, Spec.Fails.none]

/-- Clause "ended spans are delivered to exactly the processors currently registered (unregistering one that was
never registered changes nothing)": at every step every recording processor sees exactly `multiplicity` OnStart /
OnEnd calls for an SDK span and none otherwise, a simple processor's exporter has received exactly the spans
delivered while it was alive, a batch processor's exporter never more and exactly those at every flush point —
where the registered multiset is the reference fold `Spec.TP.memStep` (unregister of a non-member is the identity). -/
theorem membership_exact (kinds : List TP.PKind) (ops : List TP.Op) (h : ¬ Spec.TP.F26_applies ops) :
    (Spec.TP.check kinds ops (TP.run kinds ops)).m = false := by
  rw [tp_lifecycle_partial kinds ops h]; rfl

/-- Clause "each processor and exporter is shut down exactly once however often Shutdown or Unregister is called":
a recording processor sees exactly one Shutdown per registration that ends (unregistration or provider shutdown)
and none otherwise; the exporter of a stock processor has seen exactly one Shutdown iff its processor was taken
out of service (unregistered while registered, provider Shutdown while registered, or shut down directly), never
two — over all op sequences, i.e. all interleavings of any number of Shutdown/Unregister callers. -/
theorem shutdown_once (kinds : List TP.PKind) (ops : List TP.Op) (h : ¬ Spec.TP.F26_applies ops) :
    (Spec.TP.check kinds ops (TP.run kinds ops)).o = false := by
  rw [tp_lifecycle_partial kinds ops h]; rfl

/-- Clause "after Shutdown has returned the provider hands out no-op tracers, flush and shutdown are harmless
no-ops returning nil": result of every Tracer/ForceFlush/Shutdown call and the ForceFlush calls seen by recording
processors are those of the reference (after Shutdown: no-op tracer, nil, no callback). Together with
`membership_exact` (multiset empty after Shutdown) nothing is delivered or exported afterwards. -/
theorem after_shutdown_noop (kinds : List TP.PKind) (ops : List TP.Op) (h : ¬ Spec.TP.F26_applies ops) :
    (Spec.TP.check kinds ops (TP.run kinds ops)).a = false := by
  rw [tp_lifecycle_partial kinds ops h]; rfl

/-- Clause "no call panics or blocks": every op is enabled in every state of every provider model — the run has
one observation per op and none is a crash — unconditionally (also in F26 histories, also for processors around
a nil exporter). -/
theorem lifecycle_total (kinds : List TP.PKind) (ops : List TP.Op) :
    (TP.run kinds ops).length = ops.length ∧ ∀ o ∈ TP.run kinds ops, o.res ≠ .crash := by
  refine ⟨runFrom_length _ _, ?_⟩
  unfold TP.run
  generalize TP.init kinds = s
  induction ops generalizing s with
  | nil => intro o ho; simp [TP.runFrom] at ho
  | cons op rest ih =>
    intro o ho
    simp only [TP.runFrom, List.mem_cons] at ho
    rcases ho with rfl | ho
    · show (TP.step s op).2 ≠ .crash
      cases op <;> simp [TP.step] <;> repeat' split <;> simp_all [Ctx.err]
      all_goals (first | (cases ‹Ctx› <;> simp_all [Ctx.err, Ctx.done]) | skip)
    · exact ih _ o ho

theorem lp_lifecycle_total (kinds : List LP.LKind) (ops : List LP.Op) :
    ∀ o ∈ LP.run kinds ops, o.res ≠ .crash := by
  unfold LP.run
  generalize LP.init kinds = s
  induction ops generalizing s with
  | nil => intro o ho; simp [LP.runFrom] at ho
  | cons op rest ih =>
    intro o ho
    simp only [LP.runFrom, List.mem_cons] at ho
    rcases ho with rfl | ho
    · show (LP.step s op).2 ≠ .crash
      cases op <;> simp [LP.step] <;> repeat' split <;> simp_all [Ctx.err]
      all_goals (first | (cases ‹Ctx› <;> simp_all [Ctx.err, Ctx.done]) | skip)
      all_goals (first | (split <;> simp) | skip)
    · exact ih _ o ho

theorem mp_lifecycle_total (kinds : List MP.RKind) (ops : List MP.Op) :
    ∀ o ∈ MP.run kinds ops, o.res ≠ .crash := by
  unfold MP.run
  generalize MP.init kinds = s
  induction ops generalizing s with
  | nil => intro o ho; simp [MP.runFrom] at ho
  | cons op rest ih =>
    intro o ho
    simp only [MP.runFrom, List.mem_cons] at ho
    rcases ho with rfl | ho
    · show (MP.step s op).2 ≠ .crash
      cases op <;> simp [MP.step] <;> repeat' split <;> simp_all
    · exact ih _ o ho

/-! ### Known finding F26 -/

/-- the witness script: one recording processor, a tracer, `Shutdown(cancelled)`, a span on the old tracer,
`Shutdown(background)`, another span -/
def f26Kinds : List TP.PKind := [.recd]
def f26Ops : List TP.Op :=
  [.tracer 0, .reg 0, .shutdown .cancelled, .span 0, .shutdown .bg, .span 0]

/-- F26 as the model (= the code) behaves: Shutdown with an already-cancelled context returns the context error
having shut down nothing; the second Shutdown returns nil; the processor still receives both later spans and has
never seen Shutdown.  The oracle fails clauses membership, once — and `F26_applies` holds. -/
theorem shutdown_cancelled_ctx_skips_processors_witness :
    Spec.TP.F26_applies f26Ops ∧
    (TP.run f26Kinds f26Ops).map (fun o => (o.res, (o.snap 0).e, (o.snap 0).s)) =
      [(.sdk, 0, 0), (.none, 0, 0), (.err true false false, 0, 0), (.none, 1, 0), (.ok, 1, 0), (.none, 2, 0)] ∧
    (Spec.TP.check f26Kinds f26Ops (TP.run f26Kinds f26Ops)).m = true ∧
    (Spec.TP.check f26Kinds f26Ops (TP.run f26Kinds f26Ops)).o = true := by
  refine ⟨by decide, by decide, by decide, by decide⟩

/-- the full statement (no exclusion) — refuted for the current code by the witness above -/
def tp_lifecycle_full_statement : Prop :=
  ∀ (kinds : List TP.PKind) (ops : List TP.Op), Spec.TP.check kinds ops (TP.run kinds ops) = Spec.Fails.none

theorem tp_lifecycle_full_statement_refuted : ¬ tp_lifecycle_full_statement := by
  intro h
  have := h f26Kinds f26Ops
  have hw := shutdown_cancelled_ctx_skips_processors_witness.2.2.1
  rw [this] at hw
  exact absurd hw (by decide)

/-! ### Non-vacuity -/

/-- a non-trivial F26-free script: duplicate registration, unregistration of a never-registered processor, simple
processor around nil, batch processor, spans before/after unregistering and after Shutdown -/
def exKinds : List TP.PKind := [.recd, .simpleNil, .batchRec, .simpleRec]
def exOps : List TP.Op :=
  [.tracer 0, .reg 0, .reg 2, .reg 0, .reg 1, .unreg 3, .span 0, .start 0 1, .unreg 0, .end_ 1, .flush .cancelled,
   .flush .bg, .pshut 1, .shutdown .far, .span 0, .tracer 1, .span 1, .shutdown .cancelled, .flush .bg]

example : ¬ Spec.TP.F26_applies exOps := by decide
example : Spec.TP.check exKinds exOps (TP.run exKinds exOps) = Spec.Fails.none := by decide
example : ((TP.run exKinds exOps).map fun o => ((o.snap 0).e, (o.snap 0).s, (o.snap 2).n)).getLast? = some (3, 2, 2) := by
  decide

/-! ### Stated, not proved (oracle-checked on every run) -/

/-- logger provider: every op sequence with every resolution of the done-context races passes the reference -/
def lp_lifecycle_statement : Prop :=
  ∀ (kinds : List LP.LKind) (ops : List LP.Op), Spec.LP.check kinds ops (LP.run kinds ops) = Spec.Fails.none

/-- meter provider: same -/
def mp_lifecycle_statement : Prop :=
  ∀ (kinds : List MP.RKind) (ops : List MP.Op), Spec.MP.check kinds ops (MP.run kinds ops) = Spec.Fails.none

end Otel.C15.Props
