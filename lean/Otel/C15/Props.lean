/-
C15 — property theorems.  "Every op sequence" = "every interleaving of any number of concurrent callers": each
provider method body is one atomic step of the model (Model.lean header), so the linearisations of any concurrent
execution are exactly the op lists quantified over here.
-/
import Otel.C15.Model
import Otel.C15.Spec
import Otel.C15.Lemmas
import Otel.C15.LemmasLP
import Otel.C15.LemmasMP
namespace Otel.C15.Props
open Otel.C15 Otel.C15.Lemmas

/-- Main theorem (trace provider): for every pool of processors (recording, simple/batch around a recording or a
nil exporter) and EVERY op sequence (register, unregister — also of processors never registered or registered
several times —, Shutdown/ForceFlush with live or done contexts and, for a Shutdown with a done context, EVERY
resolution `Choice` of the races inside the stock processors: context error reported or not, how much of the
drain / whether the exporter's Shutdown has happened when the call returns —, tracer creation, span start/end in
any order, direct processor shutdown), the model's run passes the whole reference oracle `Spec.TP.check`: all four
clauses at once, no exclusion (former finding F26 is repaired in the code, f6b676c, and in the model). The next
four theorems are its projections. What a raced Shutdown still owes when it returns arrives asynchronously:
`PropsLag.tp_lifecycle_async`. -/
theorem tp_lifecycle (kinds : List TP.PKind) (ops : List TP.Op) :
    Spec.TP.check kinds ops (TP.run kinds ops) = Spec.Fails.none := by
  have := checkFrom_none (kinds := kinds) ops (TP.init kinds) {} (inv_init kinds)
  have hs : snapOf (TP.init kinds) = fun _ => {} := by
    funext i; simp [snapOf, TP.init]
  rw [hs] at this
  simp [Spec.TP.check, TP.run, this, runFrom_length, Spec.Fails.or, Spec.Fails.none]

/-- Clause "ended spans are delivered to exactly the processors currently registered (unregistering one that was
never registered changes nothing)": at every step every recording processor sees exactly `multiplicity` OnStart /
OnEnd calls for an SDK span and none otherwise, a simple processor's exporter has received exactly the spans
delivered while it was alive, a batch processor's exporter never more and exactly those at every flush point (a
Shutdown with a done context: some of them when it returns) — where the registered multiset is the reference fold
`Spec.TP.memStep` (unregister of a non-member is the identity; any Shutdown empties it). -/
theorem membership_exact (kinds : List TP.PKind) (ops : List TP.Op) :
    (Spec.TP.check kinds ops (TP.run kinds ops)).m = false := by
  rw [tp_lifecycle kinds ops]; rfl

/-- Clause "each processor and exporter is shut down exactly once however often Shutdown or Unregister is called":
a recording processor sees exactly one Shutdown per registration that ends (unregistration or provider shutdown —
also with a done context) and none otherwise; the exporter of a stock processor has seen exactly one Shutdown iff
its processor was taken out of service (unregistered while registered, provider Shutdown while registered, or shut
down directly), never two; after a provider Shutdown with a done context at most one (the call may return before
its goroutine got there) and no later API call changes that — over all op sequences, i.e. all interleavings of any
number of Shutdown/Unregister callers. -/
theorem shutdown_once (kinds : List TP.PKind) (ops : List TP.Op) :
    (Spec.TP.check kinds ops (TP.run kinds ops)).o = false := by
  rw [tp_lifecycle kinds ops]; rfl

/-- Clause "after Shutdown has returned the provider hands out no-op tracers, flush and shutdown are harmless
no-ops returning nil": result of every Tracer/ForceFlush/Shutdown call and the ForceFlush calls seen by recording
processors are those of the reference (after Shutdown: no-op tracer, nil, no callback). Together with
`membership_exact` (multiset empty after Shutdown) nothing is delivered or exported afterwards. -/
theorem after_shutdown_noop (kinds : List TP.PKind) (ops : List TP.Op) :
    (Spec.TP.check kinds ops (TP.run kinds ops)).a = false := by
  rw [tp_lifecycle kinds ops]; rfl

/-- Clause "no call panics or blocks": every op is enabled in every state of every provider model — the run has
one observation per op and none is a crash — also for processors around a nil exporter. -/
theorem lifecycle_total (kinds : List TP.PKind) (ops : List TP.Op) :
    (TP.run kinds ops).length = ops.length ∧ ∀ o ∈ TP.run kinds ops, o.res ≠ .crash := by
  refine ⟨runFrom_length _ _, ?_⟩
  unfold TP.run
  generalize TP.init kinds = s
  induction ops generalizing s with
  | nil => intro o ho; simp [TP.runFrom] at ho
  | cons op rest ih =>
    intro o ho
    simp only [TP.runFrom, List.mem_cons] at ho
    rcases ho with rfl | ho
    · show (TP.step s op).2 ≠ .crash
      cases op <;> simp [TP.step] <;> repeat' split <;> simp_all [Ctx.err]
      all_goals (first | (cases ‹Ctx› <;> simp_all [Ctx.err, Ctx.done]) | skip)
    · exact ih _ o ho

theorem lp_lifecycle_total (kinds : List LP.LKind) (ops : List LP.Op) :
    ∀ o ∈ LP.run kinds ops, o.res ≠ .crash := by
  unfold LP.run
  generalize LP.init kinds = s
  induction ops generalizing s with
  | nil => intro o ho; simp [LP.runFrom] at ho
  | cons op rest ih =>
    intro o ho
    simp only [LP.runFrom, List.mem_cons] at ho
    rcases ho with rfl | ho
    · show (LP.step s op).2 ≠ .crash
      cases op <;> simp [LP.step] <;> repeat' split <;> simp_all [Ctx.err]
      all_goals (first | (cases ‹Ctx› <;> simp_all [Ctx.err, Ctx.done]) | skip)
      all_goals (first | (split <;> simp) | skip)
    · exact ih _ o ho

theorem mp_lifecycle_total (kinds : List MP.RKind) (ops : List MP.Op) :
    ∀ o ∈ MP.run kinds ops, o.res ≠ .crash := by
  unfold MP.run
  generalize MP.init kinds = s
  induction ops generalizing s with
  | nil => intro o ho; simp [MP.runFrom] at ho
  | cons op rest ih =>
    intro o ho
    simp only [MP.runFrom, List.mem_cons] at ho
    rcases ho with rfl | ho
    · show (MP.step s op).2 ≠ .crash
      cases op <;> simp [MP.step] <;> repeat' split <;> simp_all
    · exact ih _ o ho

/-! ### Non-vacuity; former finding F26 -/

/-- the former F26 witness script: one recording processor, a tracer, `Shutdown(cancelled)`, a span on the old
tracer, `Shutdown(background)`, another span.  With the repaired Shutdown (f6b676c) the processor is shut down by
the first call although the context is done (result nil: a user processor that returns nil), and receives nothing
afterwards; the oracle passes.  (Before the repair: result context error, `s = 0`, `e = 2` at the end.) -/
def f26Kinds : List TP.PKind := [.recd]
def f26Ops : List TP.Op :=
  [.tracer 0, .reg 0, .shutdown .cancelled {}, .span 0, .shutdown .bg {}, .span 0]

example : (TP.run f26Kinds f26Ops).map (fun o => (o.res, (o.snap 0).e, (o.snap 0).s)) =
    [(.sdk, 0, 0), (.none, 0, 0), (.ok, 0, 1), (.none, 0, 1), (.ok, 0, 1), (.none, 0, 1)] := by decide
example : Spec.TP.check f26Kinds f26Ops (TP.run f26Kinds f26Ops) = Spec.Fails.none := by decide
/-- the oracle rejects the pre-repair behaviour (what the reverted fix produces): clauses membership and once -/
example : (Spec.TP.check f26Kinds f26Ops
    [{ res := .sdk, snap := fun _ => {} }, { res := .none, snap := fun _ => {} },
     { res := .err true false false, snap := fun _ => {} }, { res := .none, snap := fun _ => { a := 1, e := 1 } },
     { res := .ok, snap := fun _ => { a := 1, e := 1 } }, { res := .none, snap := fun _ => { a := 2, e := 2 } }]).m = true ∧
    (Spec.TP.check f26Kinds f26Ops
    [{ res := .sdk, snap := fun _ => {} }, { res := .none, snap := fun _ => {} },
     { res := .err true false false, snap := fun _ => {} }, { res := .none, snap := fun _ => { a := 1, e := 1 } },
     { res := .ok, snap := fun _ => { a := 1, e := 1 } }, { res := .none, snap := fun _ => { a := 2, e := 2 } }]).o = true := by
  decide

/-- a non-trivial script: duplicate registration, unregistration of a never-registered processor, simple processor
around nil, batch processor, spans before/after unregistering, a Shutdown with a cancelled context whose race the
batch processor loses (context error; one of its two queued spans exported when the call returns, exporter not yet
shut down), then spans on an old and on a new (no-op) tracer, further Shutdown / ForceFlush -/
def exKinds : List TP.PKind := [.recd, .simpleNil, .batchRec, .simpleRec]
def raceLost : Choice := { e := fun _ => true, k := fun i => if i = 3 then 1 else 0, x := fun _ => 1 }
def exOps : List TP.Op :=
  [.tracer 0, .reg 0, .reg 2, .reg 0, .reg 1, .reg 3, .unreg 7, .span 0, .start 0 1, .unreg 0, .end_ 1,
   .flush .cancelled, .flush .bg, .span 0, .span 0, .pshut 1, .shutdown .cancelled raceLost, .span 0, .tracer 1,
   .span 1, .shutdown .far {}, .flush .bg]

example : Spec.TP.check exKinds exOps (TP.run exKinds exOps) = Spec.Fails.none := by decide
/-- result of the raced Shutdown, and at the end: recording processor 5 OnEnd / 2 Shutdown; batch exporter 3 of 4
spans, not shut down; simple exporter 4 spans, shut down -/
example : ((TP.run exKinds exOps).map (·.res))[16]? = some (.err true false false) := by decide
example : ((TP.run exKinds exOps).map fun o =>
    ((o.snap 0).e, (o.snap 0).s, (o.snap 2).n, (o.snap 2).s, (o.snap 3).n, (o.snap 3).s)).getLast? =
    some (5, 2, 3, 0, 4, 1) := by decide

/-! ### Logger provider -/

/-- Main theorem (logger provider): for every pool of log processors (recording, simple/batch around a recording
or a nil exporter) and EVERY op sequence (Logger, Emit on any logger slot, ForceFlush/Shutdown with live or done
contexts) with EVERY resolution `Choice` of the `select` races a done context opens in the batch processor (which
calls report the context error, how many records have been exported when the raced ForceFlush / final drain
returns, whether the raced flush reaches the exporter), the model's run passes the whole reference oracle
`Spec.LP.check`: all four clauses at once, no exclusion. The next three theorems are its projections. Exports that
arrive asynchronously after a raced call has returned: `PropsLag.lp_lifecycle_async`. -/
theorem lp_lifecycle (kinds : List LP.LKind) (ops : List LP.Op) :
    Spec.LP.check kinds ops (LP.run kinds ops) = Spec.Fails.none := by
  have := LemmasLP.checkFrom_none (kinds := kinds) ops (LP.init kinds) {} (LemmasLP.inv_init kinds)
  have hs : LemmasLP.snapOf (LP.init kinds) = fun _ => {} := by
    funext i; simp [LemmasLP.snapOf, LP.init]
  rw [hs] at this
  simp [Spec.LP.check, LP.run, this, LemmasLP.runFrom_length, Spec.Fails.or, Spec.Fails.none]

/-- Clause "further telemetry … nothing more is exported" (logger provider): at every step a recording processor
has seen exactly the records emitted through SDK loggers before Shutdown, a simple processor's exporter has
received exactly those, a batch processor's exporter exactly those when a live ForceFlush / Shutdown returns, some
of them (never more) when a raced one returns, and no other call moves anything — in particular nothing after
Shutdown. -/
theorem lp_export_exact (kinds : List LP.LKind) (ops : List LP.Op) :
    (Spec.LP.check kinds ops (LP.run kinds ops)).m = false := by
  rw [lp_lifecycle kinds ops]; rfl

/-- Clause "each processor and exporter is shut down exactly once however often Shutdown is called" (logger
provider): at every step of every op sequence every recording processor / exporter has seen exactly one Shutdown
iff the provider's Shutdown has been called, never two — also when the first Shutdown got a done context and the
batch processor's final flush was cut short. -/
theorem lp_shutdown_once (kinds : List LP.LKind) (ops : List LP.Op) :
    (Spec.LP.check kinds ops (LP.run kinds ops)).o = false := by
  rw [lp_lifecycle kinds ops]; rfl

/-- Clause "after Shutdown the provider hands out no-op loggers, flush and shutdown are harmless no-ops returning
nil" (logger provider): every Logger/Emit/ForceFlush/Shutdown result is the reference's (after Shutdown: no-op
logger, nil; before: nil, or the context's own error only if the context was done and a batch processor is
present) and no ForceFlush reaches a processor or exporter after Shutdown. -/
theorem lp_after_shutdown_noop (kinds : List LP.LKind) (ops : List LP.Op) :
    (Spec.LP.check kinds ops (LP.run kinds ops)).a = false := by
  rw [lp_lifecycle kinds ops]; rfl

/-- Reference-free form of "after Shutdown … harmless no-ops … nothing more is exported" (logger provider):
whatever happened before (`pre`), whatever context the Shutdown got and however its races resolved, every later call
answers `LemmasLP.resAfter` (Logger: a no-op logger, Emit: nothing, ForceFlush and Shutdown: nil) and leaves every
counter of every processor and exporter exactly as the Shutdown call left it. -/
theorem lp_silent_after_shutdown (kinds : List LP.LKind) (pre post : List LP.Op) (c : Ctx) (ch : Choice) :
    ∃ sd, (LP.run kinds (pre ++ .shutdown c ch :: post))[pre.length]? = some sd ∧
      ((LP.run kinds (pre ++ .shutdown c ch :: post)).drop (pre.length + 1)).map (·.res) =
        post.map LemmasLP.resAfter ∧
      ∀ o ∈ (LP.run kinds (pre ++ .shutdown c ch :: post)).drop (pre.length + 1), o.snap = sd.snap := by
  have hlen := LemmasLP.runFrom_length (LP.init kinds) pre
  obtain ⟨h1, h2⟩ := LemmasLP.stopped_run post _
    (LemmasLP.shutdown_stops (LemmasLP.finalFrom (LP.init kinds) pre) c ch)
  have hdrop : (LP.run kinds (pre ++ .shutdown c ch :: post)).drop (pre.length + 1) =
      LP.runFrom (LP.step (LemmasLP.finalFrom (LP.init kinds) pre) (.shutdown c ch)).1 post := by
    rw [LP.run, LemmasLP.runFrom_append, ← hlen, List.drop_append]
    simp [LP.runFrom]
  refine ⟨{ res := (LP.step (LemmasLP.finalFrom (LP.init kinds) pre) (.shutdown c ch)).2,
            snap := LemmasLP.snapOf (LP.step (LemmasLP.finalFrom (LP.init kinds) pre) (.shutdown c ch)).1 },
    ?_, ?_, ?_⟩
  · rw [LP.run, LemmasLP.runFrom_append, List.getElem?_append_right (by omega), hlen]
    simp only [Nat.sub_self, LP.runFrom, List.getElem?_cons_zero]
    rfl
  · rw [hdrop]; exact h1
  · rw [hdrop]; intro o ho; exact h2 o ho

/-! ### Meter provider -/

/-- Main theorem (meter provider): for every pool of readers (manual, periodic around a recording exporter) and
EVERY op sequence (Meter, Add on any meter slot, Collect on any reader, ForceFlush/Shutdown with live or done
contexts) with EVERY resolution `Choice` of the `select` races of `PeriodicReader.ForceFlush` on a done context,
the model's run passes the whole reference oracle `Spec.MP.check`: all four clauses at once, no exclusion. -/
theorem mp_lifecycle (kinds : List MP.RKind) (ops : List MP.Op) :
    Spec.MP.check kinds ops (MP.run kinds ops) = Spec.Fails.none := by
  have := LemmasMP.checkFrom_none (kinds := kinds) ops (MP.init kinds) {} (LemmasMP.inv_init kinds)
  have hs : LemmasMP.snapOf (MP.init kinds) = fun _ => {} := by
    funext i; simp [LemmasMP.snapOf, MP.init]
  rw [hs] at this
  simp [Spec.MP.check, MP.run, this, LemmasMP.runFrom_length, Spec.Fails.or, Spec.Fails.none]

/-- Clause "nothing more is exported" (meter provider): a periodic reader's exporter sees exactly one Export per
live ForceFlush before Shutdown and one at the first Shutdown, at most one per raced (done-context) ForceFlush, and
none at any other step — in particular none after Shutdown; a manual reader never exports. -/
theorem mp_export_exact (kinds : List MP.RKind) (ops : List MP.Op) :
    (Spec.MP.check kinds ops (MP.run kinds ops)).m = false := by
  rw [mp_lifecycle kinds ops]; rfl

/-- Clause "each reader and exporter is shut down exactly once however often Shutdown is called" (meter
provider): at every step every periodic reader's exporter has seen exactly one Shutdown iff the provider's
Shutdown has been called, never two. -/
theorem mp_shutdown_once (kinds : List MP.RKind) (ops : List MP.Op) :
    (Spec.MP.check kinds ops (MP.run kinds ops)).o = false := by
  rw [mp_lifecycle kinds ops]; rfl

/-- Clause "after Shutdown the provider hands out no-op meters, further calls are harmless no-ops or return the
documented shutdown error" (meter provider): after Shutdown Meter yields a no-op meter, Collect and a second
Shutdown answer ErrReaderShutdown, ForceFlush answers nil (no periodic reader) or ErrReaderShutdown (possibly
joined with / replaced by the error of a done context), and the exporter's ForceFlush is never reached; before
Shutdown Collect returns the exact total and ForceFlush nil or the done context's own error. -/
theorem mp_after_shutdown_noop (kinds : List MP.RKind) (ops : List MP.Op) :
    (Spec.MP.check kinds ops (MP.run kinds ops)).a = false := by
  rw [mp_lifecycle kinds ops]; rfl

/-- Reference-free form of "after Shutdown … nothing more is exported" (meter provider): whatever happened before
(`pre`) and whatever context the Shutdown got, no later call — Meter, Add, Collect, ForceFlush with any context and
any resolution of its races, Shutdown — moves any counter of any reader's exporter (no Export, ForceFlush, Shutdown),
and Meter / Add / Collect / Shutdown answer `LemmasMP.resAfter`: a no-op meter, nothing, the documented
ErrReaderShutdown (Collect on a reader of the pool, second Shutdown). ForceFlush's result: `mp_after_shutdown_noop`. -/
theorem mp_silent_after_shutdown (kinds : List MP.RKind) (pre post : List MP.Op) (c : Ctx) :
    ∃ sd, (MP.run kinds (pre ++ .shutdown c :: post))[pre.length]? = some sd ∧
      (∀ o ∈ (MP.run kinds (pre ++ .shutdown c :: post)).drop (pre.length + 1), o.snap = sd.snap) ∧
      ∀ p ∈ post.zip ((MP.run kinds (pre ++ .shutdown c :: post)).drop (pre.length + 1)),
        ∀ res, LemmasMP.resAfter kinds.length p.1 = some res → p.2.res = res := by
  have hlen := LemmasMP.runFrom_length (MP.init kinds) pre
  have hinv := LemmasMP.inv0_step _ (.shutdown c) (LemmasMP.inv0_final pre _ (LemmasMP.inv0_init kinds))
  have honce := LemmasMP.shutdown_once_set (LemmasMP.finalFrom (MP.init kinds) pre) c
  obtain ⟨h1, h2⟩ := LemmasMP.sealed_run post _ honce (hinv honce)
  have hn : (MP.step (LemmasMP.finalFrom (MP.init kinds) pre) (.shutdown c)).1.n = kinds.length := by
    rw [LemmasMP.step_n]
    have : ∀ (ops : List MP.Op) (s : MP.St), (LemmasMP.finalFrom s ops).n = s.n := by
      intro ops
      induction ops with
      | nil => intro s; rfl
      | cons op rest ih => intro s; simp only [LemmasMP.finalFrom]; rw [ih, LemmasMP.step_n]
    rw [this]; rfl
  rw [hn] at h2
  have hdrop : (MP.run kinds (pre ++ .shutdown c :: post)).drop (pre.length + 1) =
      MP.runFrom (MP.step (LemmasMP.finalFrom (MP.init kinds) pre) (.shutdown c)).1 post := by
    rw [MP.run, LemmasMP.runFrom_append, ← hlen, List.drop_append]
    simp [MP.runFrom]
  refine ⟨{ res := (MP.step (LemmasMP.finalFrom (MP.init kinds) pre) (.shutdown c)).2,
            snap := LemmasMP.snapOf (MP.step (LemmasMP.finalFrom (MP.init kinds) pre) (.shutdown c)).1 },
    ?_, ?_, ?_⟩
  · rw [MP.run, LemmasMP.runFrom_append, List.getElem?_append_right (by omega), hlen]
    simp only [Nat.sub_self, MP.runFrom, List.getElem?_cons_zero]
    rfl
  · rw [hdrop]; intro o ho; exact h1 o ho
  · rw [hdrop]; exact h2

/-- All three providers at once: every op sequence (= every interleaving at method granularity) over every
component pool passes its reference oracle, unconditionally and for every resolution of the done-context races. -/
theorem lifecycle_all_providers :
    (∀ (kinds : List TP.PKind) (ops : List TP.Op), Spec.TP.check kinds ops (TP.run kinds ops) = Spec.Fails.none) ∧
    (∀ (kinds : List LP.LKind) (ops : List LP.Op), Spec.LP.check kinds ops (LP.run kinds ops) = Spec.Fails.none) ∧
    (∀ (kinds : List MP.RKind) (ops : List MP.Op), Spec.MP.check kinds ops (MP.run kinds ops) = Spec.Fails.none) :=
  ⟨tp_lifecycle, lp_lifecycle, mp_lifecycle⟩

/-! ### Non-vacuity (logger and meter provider) -/

/-- every race lost: the raced calls report the context error, nothing more is exported -/
def chLose : Choice := { e := fun _ => true, k := fun _ => 0 }
/-- every race won: nil, one queued record exported before the raced call returns / exporter reached -/
def chWin : Choice := { e := fun _ => false, k := fun _ => 1, x := fun _ => 1 }

/-- all five processor kinds; emits before/after a raced ForceFlush, a first Shutdown with an expired context whose
final drain is cut short after one record, then emits on an old SDK logger, a new (no-op) logger, flush, shutdown -/
def exLKinds : List LP.LKind := [.recd, .simpleRec, .batchRec, .batchNil, .simpleNil]
def exLOps : List LP.Op :=
  [.logger 0, .emit 0, .emit 1, .flush .cancelled chLose, .emit 0, .flush .bg chWin, .emit 0, .emit 0,
   .flush .cancelled chWin, .emit 0, .emit 0, .shutdown .expired chWin, .emit 0, .logger 1, .emit 1,
   .flush .bg chLose, .shutdown .cancelled chLose, .flush .expired chLose]

example : Spec.LP.check exLKinds exLOps (LP.run exLKinds exLOps) = Spec.Fails.none := by decide
example : (LP.run exLKinds exLOps).map (·.res) =
    [.sdk, .none, .none, .err true false false, .none, .ok, .none, .none, .ok, .none, .none, .ok, .none, .noop,
     .none, .ok, .ok, .ok] := by decide
/-- recording processor: 6 records, 3 flushes, 1 shutdown; batch exporter: 4 of the 6 records when the last call
returns (the lost raced flush exported nothing at once — its record went out with the next live flush —, the won
raced flush one of two, the raced final drain one of three: two stay pending/lost), 2 flushes reached it (the
lost race did not), 1 shutdown -/
example : ((LP.run exLKinds exLOps).map fun o => ((o.snap 0).e, (o.snap 0).f, (o.snap 0).s, (o.snap 2).n,
    (o.snap 2).f, (o.snap 2).s)).getLast? = some (6, 3, 1, 4, 2, 1) := by decide
/-- instance of `lp_silent_after_shutdown` (the Shutdown is op 11): results of the six later calls, counters frozen -/
example : ((LP.run exLKinds exLOps).drop 12).map (fun o => (o.res, (o.snap 0).e, (o.snap 1).n, (o.snap 2).n, (o.snap 2).s)) =
    [(.none, 6, 6, 4, 1), (.noop, 6, 6, 4, 1), (.none, 6, 6, 4, 1), (.ok, 6, 6, 4, 1), (.ok, 6, 6, 4, 1),
     (.ok, 6, 6, 4, 1)] := by decide
/-- the oracle is not vacuous: an observation in which the exporter is shut down a second time fails clause `o` -/
example : (Spec.LP.check [.simpleRec] [.shutdown .bg chWin, .shutdown .bg chWin]
    [{ res := .ok, snap := fun _ => { s := 1 } }, { res := .ok, snap := fun _ => { s := 2 } }]).o = true := by decide

/-- manual + two periodic readers; adds, collects, live and raced flushes (code 0 nothing / 1 export then ctx error /
3 export + exporter flush), two Shutdowns, then everything again -/
def chK (k : Nat) : Choice := { k := fun _ => k }
def exRKinds : List MP.RKind := [.manual, .periodic, .periodic]
def exROps : List MP.Op :=
  [.meter 0, .add 0, .add 0, .collect 0, .flush .bg (chK 0), .flush .cancelled (chK 0), .flush .expired (chK 1),
   .flush .cancelled (chK 3), .add 1, .collect 1, .shutdown .cancelled, .collect 0, .meter 1, .add 1, .add 0,
   .flush .bg (chK 0), .flush .cancelled (chK 1), .flush .expired { k := fun i => i }, .shutdown .bg, .collect 2,
   .collect 7]

example : Spec.MP.check exRKinds exROps (MP.run exRKinds exROps) = Spec.Fails.none := by decide
example : (MP.run exRKinds exROps).map (·.res) =
    [.sdk, .none, .none, .val 2, .ok, .err true false false, .err false true false, .ok, .none, .val 2, .ok,
     .err false false true, .noop, .none, .none, .err false false true, .err true false false,
     .err false true true, .err false false true, .err false false true, .none] := by decide
/-- periodic reader 1's exporter: 4 Exports (live flush, two raced flushes, Shutdown), 2 ForceFlushes, 1 Shutdown -/
example : ((MP.run exRKinds exROps).map fun o => ((o.snap 1).n, (o.snap 1).f, (o.snap 1).s, (o.snap 0).n)).getLast? =
    some (4, 2, 1, 0) := by decide
/-- instance of `mp_silent_after_shutdown` (the first Shutdown is op 10): exporter counters (n, f, s) of both periodic
readers frozen over the ten later calls -/
example : ((MP.run exRKinds exROps).drop 10).map (fun o => ((o.snap 1).n, (o.snap 1).f, (o.snap 1).s, (o.snap 2).n)) =
    List.replicate 11 (4, 2, 1, 4) := by decide
/-- the oracle is not vacuous: an Export observed after Shutdown fails clause `m` -/
example : (Spec.MP.check [.periodic] [.shutdown .bg, .flush .bg (chK 0)]
    [{ res := .ok, snap := fun _ => { n := 1, s := 1 } },
     { res := .err false false true, snap := fun _ => { n := 2, s := 1 } }]).m = true := by decide

end Otel.C15.Props
