/-
C15 — the periodic reader's run goroutine against Shutdown (sdk/metric/periodic_reader.go `run`, `collectAndExport`,
`Shutdown`): labels = a timer tick starting a collection in the run goroutine, that collection finishing (it calls
exporter.Export), the loop observing its cancelled context and exiting (`close(r.done)`), and the steps of the FIRST
Shutdown call (inside shutdownOnce): `r.cancel()`, `<-r.done`, final collect + export, `exporter.Shutdown`.
The caller's context (`done` = already cancelled / expired) is a parameter that NO label reads: `<-r.done` is
unconditional.
-/
namespace Otel.C15.Tick

inductive Loop where | idle | collecting | exited deriving DecidableEq, Repr
inductive Sd where | none | cancelled | waited | flushed | expShut | returned deriving DecidableEq, Repr

inductive Act where
  | tick          -- ticker.C: the run goroutine starts collectAndExport
  | tickDone      -- … which ends with exporter.Export (an external producer may have kept it busy for any time)
  | loopExit      -- select sees ctx.Done(): return, close(r.done)
  | sdCancel      -- Shutdown: r.cancel()
  | sdWait        -- <-r.done
  | sdFlush       -- final collect (+ export)
  | sdExpShut     -- r.exporter.Shutdown(ctx)
  | sdReturn
deriving DecidableEq, Repr

structure St where
  loop : Loop := .idle
  sd : Sd := .none
  cancelled : Bool := false        -- the run loop's context
  expShut : Nat := 0               -- exporter.Shutdown calls
  exports : Nat := 0
  exportsAfterShut : Nat := 0      -- ghost: Export calls made after the exporter's Shutdown
  returnedWhileCollecting : Bool := false  -- ghost: Shutdown returned while a tick's collection was in flight

def step (ctxDone : Bool) (s : St) : Act → Option St
  | .tick => if s.loop = .idle ∧ s.cancelled = false then some { s with loop := .collecting } else none
  | .tickDone =>
    if s.loop = .collecting then
      some { s with loop := .idle, exports := s.exports + 1,
                    exportsAfterShut := if s.expShut > 0 then s.exportsAfterShut + 1 else s.exportsAfterShut }
    else none
  | .loopExit => if s.loop = .idle ∧ s.cancelled = true then some { s with loop := .exited } else none
  | .sdCancel => if s.sd = .none then some { s with sd := .cancelled, cancelled := true } else none
  | .sdWait =>
    -- `<-r.done`: enabled only once the loop has exited — whatever `ctxDone` says
    if s.sd = .cancelled ∧ s.loop = .exited then some { s with sd := .waited } else none
  | .sdFlush => if s.sd = .waited then some { s with sd := .flushed, exports := s.exports + (if ctxDone then 0 else 1) } else none
  | .sdExpShut => if s.sd = .flushed then some { s with sd := .expShut, expShut := s.expShut + 1 } else none
  | .sdReturn =>
    if s.sd = .expShut then
      some { s with sd := .returned, returnedWhileCollecting := s.returnedWhileCollecting || decide (s.loop = .collecting) }
    else none

inductive Reach (c : Bool) : St → Prop where
  | init : Reach c {}
  | step {s s' : St} (a : Act) : Reach c s → step c s a = some s' → Reach c s'

def run (c : Bool) (s : St) : List Act → Option St
  | [] => some s
  | a :: r => match step c s a with
    | some s' => run c s' r
    | none => none

/-- the forced schedule of the harness (leg `tick`): tick parked, Shutdown called, released -/
def forced : List Act := [.tick, .sdCancel, .tickDone, .loopExit, .sdWait, .sdFlush, .sdExpShut, .sdReturn]

structure Inv (s : St) : Prop where
  past : s.sd = .waited ∨ s.sd = .flushed ∨ s.sd = .expShut ∨ s.sd = .returned → s.loop = .exited
  shut : s.expShut = (if s.sd = .expShut ∨ s.sd = .returned then 1 else 0)
  after : s.exportsAfterShut = 0
  early : s.returnedWhileCollecting = false
  canc : s.sd ≠ .none → s.cancelled = true

theorem inv_step {c : Bool} {s s' : St} {a : Act} (I : Inv s) (h : step c s a = some s') : Inv s' := by
  obtain ⟨i1, i2, i3, i4, i5⟩ := I
  cases a <;> simp only [step] at h <;> (repeat' split at h) <;>
    (first | (simp at h; done)
           | (simp only [Option.some.injEq] at h; subst h; constructor <;> grind))

theorem inv_reach {c : Bool} {s : St} (h : Reach c s) : Inv s := by
  induction h with
  | init => exact ⟨by simp, by simp, rfl, rfl, by simp⟩
  | step a _ hs ih => exact inv_step ih hs

end Otel.C15.Tick
