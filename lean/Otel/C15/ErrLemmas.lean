/-
C15 — helper lemmas for PropsErr.lean: the simulation between `Err.stepE E` (callback results) and the error-free `TP.step`.
-/
import Otel.C15.Err
import Otel.C15.Lemmas
namespace Otel.C15.ErrLemmas
open Otel.C15 Otel.C15.TP Otel.C15.Err

/-- what does NOT depend on callback results, per component: kind, stopped flag, OnStart / OnEnd / Shutdown counters, and
for the stock processors the conserved sum exported + still queued -/
def PR (p q : PS) : Prop :=
  p.kind = q.kind ∧ p.stopped = q.stopped ∧ p.cnt.a = q.cnt.a ∧ p.cnt.e = q.cnt.e ∧ p.cnt.s = q.cnt.s ∧
    p.cnt.n + p.queued = q.cnt.n + q.queued

def PRall (f g : Nat → PS) : Prop := ∀ i, PR (f i) (g i)

theorem PR.refl (p : PS) : PR p p := ⟨rfl, rfl, rfl, rfl, rfl, rfl⟩
theorem PR.symm {p q : PS} (h : PR p q) : PR q p :=
  ⟨h.1.symm, h.2.1.symm, h.2.2.1.symm, h.2.2.2.1.symm, h.2.2.2.2.1.symm, h.2.2.2.2.2.symm⟩
theorem PR.trans {p q r : PS} (h : PR p q) (k : PR q r) : PR p r :=
  ⟨h.1.trans k.1, h.2.1.trans k.2.1, h.2.2.1.trans k.2.2.1, h.2.2.2.1.trans k.2.2.2.1,
   h.2.2.2.2.1.trans k.2.2.2.2.1, h.2.2.2.2.2.trans k.2.2.2.2.2⟩

/-- the part of the provider state that does not depend on callback results -/
structure Rel (s t : St) : Prop where
  procs : s.procs = t.procs
  shut : s.isShutdown = t.isShutdown
  tracers : s.tracers = t.tracers
  spans : s.spans = t.spans
  pool : PRall s.pool t.pool

theorem Rel.refl (s : St) : Rel s s := ⟨rfl, rfl, rfl, rfl, fun _ => PR.refl _⟩
theorem Rel.trans {s t u : St} (h : Rel s t) (k : Rel t u) : Rel s u :=
  ⟨h.procs.trans k.procs, h.shut.trans k.shut, h.tracers.trans k.tracers, h.spans.trans k.spans,
   fun i => (h.pool i).trans (k.pool i)⟩

theorem onStart_PR {p q : PS} (h : PR p q) : PR (procOnStart p) (procOnStart q) := by
  rcases p with ⟨pk, ⟨pa, pe, pf, ps, pn⟩, pst, pq⟩
  rcases q with ⟨qk, ⟨qa, qe, qf, qs, qn⟩, qst, qq⟩
  simp only [PR] at h
  obtain ⟨rfl, rfl, rfl, rfl, rfl, hn⟩ := h
  cases pk <;> simp [PR, procOnStart, hn]

theorem onEnd_PR {p q : PS} (h : PR p q) : PR (procOnEnd p) (procOnEnd q) := by
  rcases p with ⟨pk, ⟨pa, pe, pf, ps, pn⟩, pst, pq⟩
  rcases q with ⟨qk, ⟨qa, qe, qf, qs, qn⟩, qst, qq⟩
  simp only [PR] at h
  obtain ⟨rfl, rfl, rfl, rfl, rfl, hn⟩ := h
  cases pk <;> cases pst <;> simp [PR, procOnEnd, hn] <;> omega

theorem shutdown_PR {p q : PS} (h : PR p q) : PR (procShutdown p) (procShutdown q) := by
  rcases p with ⟨pk, ⟨pa, pe, pf, ps, pn⟩, pst, pq⟩
  rcases q with ⟨qk, ⟨qa, qe, qf, qs, qn⟩, qst, qq⟩
  simp only [PR] at h
  obtain ⟨rfl, rfl, rfl, rfl, rfl, hn⟩ := h
  cases pk <;> cases pst <;> simp [PR, procShutdown, hn]

theorem shutdownD_PR (k x : Nat) {p q : PS} (h : PR p q) : PR (procShutdownD k x p) (procShutdownD k x q) := by
  rcases p with ⟨pk, ⟨pa, pe, pf, ps, pn⟩, pst, pq⟩
  rcases q with ⟨qk, ⟨qa, qe, qf, qs, qn⟩, qst, qq⟩
  simp only [PR] at h
  obtain ⟨rfl, rfl, rfl, rfl, rfl, hn⟩ := h
  cases pk <;> cases pst <;> simp [PR, procShutdownD, hn] <;> omega

theorem flush_PR (p : PS) : PR (procFlush p) p := by
  rcases p with ⟨pk, ⟨pa, pe, pf, ps, pn⟩, pst, pq⟩
  cases pk <;> cases pst <;> simp [PR, procFlush] <;> omega

theorem upd_PR (g : PS → PS) (hg : ∀ {p q}, PR p q → PR (g p) (g q)) (k : Nat) {f1 f2 : Nat → PS}
    (h : PRall f1 f2) : PRall (upd f1 k g) (upd f2 k g) := by
  intro i; simp only [upd]; split
  · exact hg (h i)
  · exact h i

theorem upd_flush_PR (k : Nat) {f1 f2 : Nat → PS} (h : PRall f1 f2) : PRall (upd f1 k procFlush) f2 := by
  intro i; simp only [upd]; split
  · exact (flush_PR _).trans (h i)
  · exact h i

theorem foldl_PR (F : (Nat → PS) → Nat × Bool → (Nat → PS))
    (hF : ∀ f1 f2 p, PRall f1 f2 → PRall (F f1 p) (F f2 p)) (l : List (Nat × Bool)) :
    ∀ f1 f2, PRall f1 f2 → PRall (l.foldl F f1) (l.foldl F f2) := by
  induction l with
  | nil => intro f1 f2 h; simpa using h
  | cons p r ih => intro f1 f2 h; simp only [List.foldl_cons]; exact ih _ _ (hF _ _ p h)

theorem startAll_PR (l : List (Nat × Bool)) {f1 f2 : Nat → PS} (h : PRall f1 f2) :
    PRall (startAll f1 l) (startAll f2 l) :=
  foldl_PR _ (fun _ _ p h => upd_PR procOnStart onStart_PR p.1 h) l _ _ h

theorem endAll_PR (l : List (Nat × Bool)) {f1 f2 : Nat → PS} (h : PRall f1 f2) :
    PRall (endAll f1 l) (endAll f2 l) :=
  foldl_PR _ (fun _ _ p h => upd_PR procOnEnd onEnd_PR p.1 h) l _ _ h

theorem shutdownAll_PR (l : List (Nat × Bool)) {f1 f2 : Nat → PS} (h : PRall f1 f2) :
    PRall (shutdownAll f1 l) (shutdownAll f2 l) :=
  foldl_PR _ (fun _ _ p h => by
    show PRall (if p.2 then _ else _) (if p.2 then _ else _)
    split
    · exact h
    · exact upd_PR procShutdown shutdown_PR p.1 h) l _ _ h

theorem shutdownAllD_PR (ch : Choice) (l : List (Nat × Bool)) {f1 f2 : Nat → PS} (h : PRall f1 f2) :
    PRall (shutdownAllD ch f1 l) (shutdownAllD ch f2 l) :=
  foldl_PR _ (fun _ _ p h => by
    show PRall (if p.2 then _ else _) (if p.2 then _ else _)
    split
    · exact h
    · exact upd_PR _ (shutdownD_PR _ _) p.1 h) l _ _ h

theorem flushAll_PR (l : List (Nat × Bool)) : ∀ {f1 f2 : Nat → PS}, PRall f1 f2 → PRall (flushAll f1 l) f2 := by
  induction l with
  | nil => intro f1 f2 h; simpa [flushAll] using h
  | cons p r ih =>
    intro f1 f2 h
    simp only [flushAll, List.foldl_cons]
    exact ih (upd_flush_PR p.1 h)

theorem flushUntil_PR (E : Nat → Bool) (s : St) (l : List (Nat × Bool)) :
    ∀ {f1 f2 : Nat → PS}, PRall f1 f2 → PRall (flushUntil E s f1 l).1 f2 := by
  induction l with
  | nil => intro f1 f2 h; simpa [flushUntil] using h
  | cons p r ih =>
    intro f1 f2 h
    simp only [flushUntil]
    split
    · exact upd_flush_PR p.1 h
    · exact ih (upd_flush_PR p.1 h)

/-- the error-free step respects the relation -/
theorem step_Rel {s t : St} (op : Op) (h : Rel s t) : Rel (step s op).1 (step t op).1 := by
  rcases s with ⟨pool1, procs, sh, tr, sp⟩
  rcases t with ⟨pool2, procs2, sh2, tr2, sp2⟩
  obtain ⟨hp, hs, ht, hsp, hpool⟩ := h
  simp only at hp hs ht hsp hpool
  subst hp hs ht hsp
  cases op with
  | reg i => cases sh <;> exact ⟨rfl, rfl, rfl, rfl, hpool⟩
  | unreg i =>
    cases sh
    · simp only [step, Bool.false_eq_true, if_false]
      cases hrl : removeLast i procs with
      | none => exact ⟨rfl, rfl, rfl, rfl, hpool⟩
      | some x =>
        rcases x with ⟨⟨j, once⟩, rest⟩
        refine ⟨rfl, rfl, rfl, rfl, ?_⟩
        show PRall (if once then _ else _) (if once then _ else _)
        split
        · exact hpool
        · exact upd_PR procShutdown shutdown_PR i hpool
    · exact ⟨rfl, rfl, rfl, rfl, hpool⟩
  | shutdown c ch =>
    cases sh
    · simp only [step, Bool.false_eq_true, if_false]
      cases c.done
      · exact ⟨rfl, rfl, rfl, rfl, shutdownAll_PR procs hpool⟩
      · exact ⟨rfl, rfl, rfl, rfl, shutdownAllD_PR ch procs hpool⟩
    · exact ⟨rfl, rfl, rfl, rfl, hpool⟩
  | flush c =>
    cases procs with
    | nil => exact ⟨rfl, rfl, rfl, rfl, hpool⟩
    | cons p r =>
      simp only [step]
      cases c.done
      · exact ⟨rfl, rfl, rfl, rfl, fun i => (flushAll_PR (p :: r) hpool i).trans (flushAll_PR (p :: r) (fun j => PR.refl (pool2 j)) i).symm⟩
      · exact ⟨rfl, rfl, rfl, rfl, hpool⟩
  | tracer k => exact ⟨rfl, rfl, rfl, rfl, hpool⟩
  | start k j =>
    simp only [step]
    cases tr k with
    | none => exact ⟨rfl, rfl, rfl, rfl, hpool⟩
    | some b => cases b
                · exact ⟨rfl, rfl, rfl, rfl, hpool⟩
                · exact ⟨rfl, rfl, rfl, rfl, startAll_PR procs hpool⟩
  | end_ j =>
    simp only [step]
    cases sp j with
    | empty => exact ⟨rfl, rfl, rfl, rfl, hpool⟩
    | ended => exact ⟨rfl, rfl, rfl, rfl, hpool⟩
    | live b => cases b
                · exact ⟨rfl, rfl, rfl, rfl, hpool⟩
                · exact ⟨rfl, rfl, rfl, rfl, endAll_PR procs hpool⟩
  | span k =>
    simp only [step]
    cases tr k with
    | none => exact ⟨rfl, rfl, rfl, rfl, hpool⟩
    | some b => cases b
                · exact ⟨rfl, rfl, rfl, rfl, hpool⟩
                · exact ⟨rfl, rfl, rfl, rfl, endAll_PR procs (startAll_PR procs hpool)⟩
  | pshut i => exact ⟨rfl, rfl, rfl, rfl, upd_PR procShutdown shutdown_PR i hpool⟩

/-- one step with callback results against one error-free step from the same state -/
theorem stepE_vs_step (E : Nat → Bool) (x : StE) (op : Op) : Rel (stepE E x op).1.st (step x.st op).1 := by
  rcases x with ⟨⟨pool, procs, sh, tr, sp⟩, hd⟩
  cases op with
  | unreg i =>
    simp only [stepE, step]
    cases sh
    · simp only [Bool.false_eq_true, if_false]
      cases removeLast i procs with
      | none => exact Rel.refl _
      | some y => rcases y with ⟨⟨j, once⟩, rest⟩; exact Rel.refl _
    · exact Rel.refl _
  | shutdown c ch =>
    simp only [stepE, step]
    cases sh
    · simp only [Bool.false_eq_true, if_false]
      cases c.done <;> exact Rel.refl _
    · exact Rel.refl _
  | flush c =>
    simp only [stepE, step]
    cases procs with
    | nil => exact Rel.refl _
    | cons p r =>
      cases c.done
      · exact ⟨rfl, rfl, rfl, rfl, fun i =>
          (flushUntil_PR E _ (p :: r) (fun j => PR.refl (pool j)) i).trans
            (flushAll_PR (p :: r) (fun j => PR.refl (pool j)) i).symm⟩
      · exact Rel.refl _
  | pshut i => exact Rel.refl _
  | reg i => exact Rel.refl _
  | tracer k => exact Rel.refl _
  | start k j => exact Rel.refl _
  | end_ j => exact Rel.refl _
  | span k => exact Rel.refl _

theorem stepE_Rel (E : Nat → Bool) {x : StE} {t : St} (op : Op) (h : Rel x.st t) :
    Rel (stepE E x op).1.st (step t op).1 :=
  (stepE_vs_step E x op).trans (step_Rel op h)

theorem finalFromE_Rel (E : Nat → Bool) (ops : List Op) : ∀ (x : StE) (t : St), Rel x.st t →
    Rel (finalFromE E x ops).st (finalFrom t ops) := by
  induction ops with
  | nil => intro x t h; exact h
  | cons op r ih => intro x t h; exact ih _ _ (stepE_Rel E op h)

end Otel.C15.ErrLemmas
