import Otel.C15.Model
import Otel.C15.Spec
import Otel.C15.LemmasLP
import Otel.C15.LemmasMP
import Otel.C15.Lag
namespace Otel.C15.LagLemmas
open Otel.C15 Otel.C15.Lag

/-! ## Logger provider -/
namespace L
open Otel.C15.LP Otel.C15.Lag.L Otel.C15.LemmasLP

structure LInv (kinds : List LKind) (g : LSt) (lr : LRef) : Prop where
  inv : Inv kinds g.st lr.ref
  att : ∀ i, i < kinds.length → kindOf kinds i = .batchRec →
    (g.st.pool i).cnt.n + g.att i ≤ lr.hand i ∧ g.att i ≤ (g.st.pool i).queued

/-- a call that does not reach the processors leaves `n` alone and does not shrink the queue -/
theorem quiet_step (s : St) (o : LP.Op) (h : attempts s.stopped o = false) (i : Nat)
    (hk : (s.pool i).kind = .batchRec) :
    ((LP.step s o).1.pool i).cnt.n = (s.pool i).cnt.n ∧ (s.pool i).queued ≤ ((LP.step s o).1.pool i).queued := by
  cases o with
  | logger k => simp [LP.step]
  | emit k =>
    simp only [LP.step]
    cases s.loggers k with
    | none => simp
    | some b =>
      cases b with
      | false => simp
      | true =>
        cases hst : s.stopped with
        | true => simp
        | false =>
          simp only [Bool.false_eq_true, ↓reduceIte, forAll]
          by_cases hi : i < s.n
          · simp only [hi, ↓reduceIte, procEmit, hk]
            split <;> simp
          · simp [hi]
  | flush c ch =>
    have : s.stopped = true := by simpa [attempts] using h
    simp [LP.step, this]
  | shutdown c ch =>
    have : s.stopped = true := by simpa [attempts] using h
    simp [LP.step, this]

theorem attempts_stopped (s : St) (o : LP.Op) (h : attempts s.stopped o = true) : s.stopped = false := by
  cases o <;> simp_all [attempts]

theorem comp_land (kd : LKind) (p : PS) (shut : Bool) (deliv m : Nat) (h : LemmasLP.CompInv kd p shut deliv)
    (hm : m ≤ p.queued) :
    LemmasLP.CompInv kd (landProc m p) shut deliv ∧
    (landProc m p).cnt.a = p.cnt.a ∧ (landProc m p).cnt.e = p.cnt.e ∧ (landProc m p).cnt.s = p.cnt.s ∧
    (landProc m p).cnt.f = p.cnt.f ∧ (landProc m p).cnt.n = (if kd = .batchRec then p.cnt.n + m else p.cnt.n) ∧
    (landProc m p).queued = (if kd = .batchRec then p.queued - m else p.queued) := by
  obtain ⟨kind, ⟨a, e, f, s, n⟩, st, q⟩ := p
  obtain ⟨hk, h⟩ := h
  simp only at hk; subst hk
  simp only at hm
  cases kind <;> simp_all [LemmasLP.CompInv, landProc] <;> omega

theorem lstep_inv {kinds g lr} (op : LOp) (h : LInv kinds g lr) :
    LInv kinds (lstep g op).1
      (lcheckStep kinds lr op (snapOf g.st) (snapOf (lstep g op).1.st) (lstep g op).2).2 ∧
    (lcheckStep kinds lr op (snapOf g.st) (snapOf (lstep g op).1.st) (lstep g op).2).1 = Spec.Fails.none := by
  cases op with
  | api o =>
    obtain ⟨h1, h2⟩ := LemmasLP.step_inv o h.inv
    simp only [lstep, lcheckStep, landStepL]
    refine ⟨⟨h1, ?_⟩, h2⟩
    intro i hi hk
    have hsh : g.st.stopped = lr.ref.shut := h.inv.shut
    rw [← hsh]
    cases ha : attempts g.st.stopped o with
    | true =>
      simp only [↓reduceIte]
      have hc := h1.comp i hi
      rw [hk] at hc
      have := hc.2.2.2
      exact ⟨by omega, Nat.le_refl _⟩
    | false =>
      simp only [Bool.false_eq_true, ↓reduceIte]
      obtain ⟨q1, q2⟩ := quiet_step g.st o ha i (by rw [(h.inv.comp i hi).1, hk])
      obtain ⟨a1, a2⟩ := h.att i hi hk
      exact ⟨by rw [q1]; exact a1, Nat.le_trans a2 q2⟩
  | land l =>
    have hm : ∀ i, landed g l i ≤ (g.st.pool i).queued := fun i => Nat.min_le_right _ _
    have hma : ∀ i, landed g l i ≤ g.att i := fun i =>
      Nat.le_trans (Nat.min_le_left _ _) (Nat.min_le_right _ _)
    have hc : ∀ i, i < kinds.length → _ := fun i hi =>
      comp_land _ _ _ _ (landed g l i) (h.inv.comp i hi) (hm i)
    simp only [lstep, lcheckStep, landStepL]
    refine ⟨⟨⟨h.inv.n, h.inv.shut, h.inv.lg, fun i hi => (hc i hi).1⟩, ?_⟩, ?_⟩
    · intro i hi hk
      obtain ⟨a1, a2⟩ := h.att i hi hk
      obtain ⟨_, _, _, _, _, c5, c6⟩ := hc i hi
      simp only [hk, ↓reduceIte] at c5 c6
      show (landProc (landed g l i) (g.st.pool i)).cnt.n + (g.att i - landed g l i) ≤ lr.hand i ∧
        g.att i - landed g l i ≤ (landProc (landed g l i) (g.st.pool i)).queued
      rw [c5, c6]
      have := hma i; have := hm i
      omega
    · simp only [Spec.Fails.none, Spec.Fails.mk.injEq, Bool.not_eq_false', Spec.allBelow, List.all_eq_true,
        Bool.and_eq_true, List.mem_range]
      refine ⟨?_, ?_, ⟨by decide, ?_⟩, by decide⟩
      · intro i hi
        obtain ⟨_, c1, c2, c3, c4, c5, c6⟩ := hc i hi
        simp only [snapOf]
        refine ⟨⟨by simp [c1], by simp [c2]⟩, ?_⟩
        cases hk : kindOf kinds i <;> simp only [hk] at c5 <;> simp [c5]
        obtain ⟨a1, a2⟩ := h.att i hi hk
        have := hma i
        omega
      · intro i hi
        obtain ⟨_, c1, c2, c3, c4, c5, c6⟩ := hc i hi
        simp [snapOf, c3]
      · intro i hi
        obtain ⟨_, c1, c2, c3, c4, c5, c6⟩ := hc i hi
        simp [snapOf, c4]
  | settle l =>
    have hm : ∀ i, landed g l i ≤ (g.st.pool i).queued := fun i => Nat.min_le_right _ _
    have hma : ∀ i, landed g l i ≤ g.att i := fun i =>
      Nat.le_trans (Nat.min_le_left _ _) (Nat.min_le_right _ _)
    have hc : ∀ i, i < kinds.length → _ := fun i hi =>
      comp_land _ _ _ _ (landed g l i) (h.inv.comp i hi) (hm i)
    simp only [lstep, lcheckStep, landStepL]
    refine ⟨⟨⟨h.inv.n, h.inv.shut, h.inv.lg, fun i hi => (hc i hi).1⟩, ?_⟩, ?_⟩
    · intro i hi hk
      obtain ⟨a1, a2⟩ := h.att i hi hk
      obtain ⟨_, _, _, _, _, c5, c6⟩ := hc i hi
      simp only [hk, ↓reduceIte] at c5 c6
      show (landProc (landed g l i) (g.st.pool i)).cnt.n + (g.att i - landed g l i) ≤ lr.hand i ∧
        g.att i - landed g l i ≤ (landProc (landed g l i) (g.st.pool i)).queued
      rw [c5, c6]
      have := hma i; have := hm i
      omega
    · simp only [Spec.Fails.none, Spec.Fails.mk.injEq, Bool.not_eq_false', Spec.allBelow, List.all_eq_true,
        Bool.and_eq_true, List.mem_range]
      refine ⟨?_, ?_, ⟨by decide, ?_⟩, by decide⟩
      · intro i hi
        obtain ⟨_, c1, c2, c3, c4, c5, c6⟩ := hc i hi
        simp only [snapOf]
        refine ⟨⟨by simp [c1], by simp [c2]⟩, ?_⟩
        cases hk : kindOf kinds i <;> simp only [hk] at c5 <;> simp [c5]
        obtain ⟨a1, a2⟩ := h.att i hi hk
        have := hma i
        omega
      · intro i hi
        obtain ⟨c0, c1, c2, c3, c4, c5, c6⟩ := hc i hi
        show (match kindOf kinds i with
          | .recd | .simpleRec | .batchRec =>
            (landProc (landed g l i) (g.st.pool i)).cnt.s == (if lr.ref.shut then 1 else 0)
          | _ => (landProc (landed g l i) (g.st.pool i)).cnt.s == 0) = true
        revert c0
        cases hk : kindOf kinds i <;> simp only [LemmasLP.CompInv] <;> intro c0 <;> simp_all
      · intro i hi
        obtain ⟨_, c1, c2, c3, c4, c5, c6⟩ := hc i hi
        simp [snapOf, c4]

theorem lcheckFrom_none {kinds} (ops : List LOp) : ∀ (g : LSt) (lr : LRef), LInv kinds g lr →
    lcheckFrom kinds lr (snapOf g.st) ops (lrunFrom g ops) = Spec.Fails.none := by
  induction ops with
  | nil => intro g lr _; rfl
  | cons op rest ih =>
    intro g lr h
    obtain ⟨h1, h2⟩ := lstep_inv op h
    show (lcheckStep kinds lr op (snapOf g.st) (snapOf (lstep g op).1.st) (lstep g op).2).1.or
      (lcheckFrom kinds (lcheckStep kinds lr op (snapOf g.st) (snapOf (lstep g op).1.st) (lstep g op).2).2
        (snapOf (lstep g op).1.st) rest (lrunFrom (lstep g op).1 rest)) = Spec.Fails.none
    rw [h2, ih _ _ h1]; exact LemmasLP.none_or_none

theorem lrunFrom_length (g : LSt) (ops : List LOp) : (lrunFrom g ops).length = ops.length := by
  induction ops generalizing g with
  | nil => rfl
  | cons op rest ih => simp [lrunFrom, ih]

theorem linv_init (kinds : List LKind) : LInv kinds { st := LP.init kinds } {} := by
  refine ⟨LemmasLP.inv_init kinds, ?_⟩
  intro i _ _
  simp [LP.init]

end L

/-! ## Meter provider -/
namespace M
open Otel.C15.MP Otel.C15.Lag.M Otel.C15.LemmasMP

structure MInv (kinds : List RKind) (g : MSt) (mr : MRef) : Prop where
  inv : Inv kinds g.st mr.ref
  pend : ∀ i, i < kinds.length → kindOf kinds i = .periodic →
    (g.st.pool i).cnt.n + g.pend i ≤ mr.cap ∧ (mr.ref.shut = true → g.pend i = 0)

/-- the pending-export allowance after an API call -/
def pendAfter (g : MSt) (o : MP.Op) (i : Nat) : Nat :=
  match o with
  | .shutdown _ => 0
  | _ => g.pend i + lateExport g.st o i

theorem mstep_pend (g : MSt) (o : MP.Op) (i : Nat) : (mstep g (.api o)).1.pend i = pendAfter g o i := by
  cases o <;> rfl

theorem api_bound (s : MP.St) (o : MP.Op) (i : Nat) (shut : Bool) (hi : i < s.n)
    (hk : (s.pool i).kind = .periodic) (hr : (s.pool i).rshut = shut) (ho : s.once = shut) :
    ((MP.step s o).1.pool i).cnt.n + (match o with | .shutdown _ => 0 | _ => lateExport s o i) ≤
      (s.pool i).cnt.n + (if reaches shut o then 1 else 0) ∧
    (shut = true → lateExport s o i = 0) := by
  cases o with
  | meter k => simp [MP.step, lateExport, reaches]
  | add k =>
    simp only [MP.step, lateExport, reaches]
    cases s.meters k with
    | none => simp
    | some b => cases b <;> simp
  | collect j =>
    simp only [MP.step, lateExport, reaches]
    split
    · split <;> simp
    · simp
  | flush c ch =>
    simp only [MP.step, lateExport, reaches, forAll, hi, ↓reduceIte, readerFlush, hk, hr]
    cases shut <;> cases c.done <;> simp
    all_goals (split <;> simp_all)
  | shutdown c =>
    simp only [MP.step, lateExport, reaches, ho]
    cases shut with
    | true => simp
    | false =>
      simp only [Bool.false_eq_true, ↓reduceIte, forAll, hi, readerShutdown, hr, hk]
      simp

theorem comp_landR (kd : RKind) (r : RS) (shut : Bool) (m : Nat) (h : LemmasMP.CompInv kd r shut) :
    LemmasMP.CompInv kd (landR m r) shut ∧
    (landR m r).cnt.a = r.cnt.a ∧ (landR m r).cnt.e = r.cnt.e ∧ (landR m r).cnt.s = r.cnt.s ∧
    (landR m r).cnt.f = r.cnt.f ∧ (landR m r).cnt.n = (if kd = .periodic then r.cnt.n + m else r.cnt.n) := by
  obtain ⟨kind, ⟨a, e, f, s, n⟩, rs⟩ := r
  obtain ⟨hk, hr, h⟩ := h
  simp only at hk hr; subst hk hr
  cases kind <;> simp_all [LemmasMP.CompInv, landR]

theorem mstep_inv {kinds g mr} (op : MOp) (h : MInv kinds g mr) :
    MInv kinds (mstep g op).1
      (mcheckStep kinds mr op (snapOf g.st) (snapOf (mstep g op).1.st) (mstep g op).2).2 ∧
    (mcheckStep kinds mr op (snapOf g.st) (snapOf (mstep g op).1.st) (mstep g op).2).1 = Spec.Fails.none := by
  cases op with
  | api o =>
    obtain ⟨h1, h2⟩ := LemmasMP.step_inv o h.inv
    refine ⟨⟨h1, ?_⟩, h2⟩
    intro i hi hk
    have hc := h.inv.comp i hi
    have hin : i < g.st.n := by rw [h.inv.n]; exact hi
    obtain ⟨b1, b2⟩ := api_bound g.st o i mr.ref.shut hin (by rw [hc.1, hk]) hc.2.1 h.inv.once
    obtain ⟨p1, p2⟩ := h.pend i hi hk
    rw [mstep_pend]
    show ((MP.step g.st o).1.pool i).cnt.n + pendAfter g o i ≤ mr.cap + (if reaches mr.ref.shut o then 1 else 0) ∧
      ((Spec.MP.refStep mr.ref o (MP.step g.st o).2).shut = true → pendAfter g o i = 0)
    cases o with
    | shutdown c =>
      simp only [pendAfter] at b1 ⊢
      exact ⟨by omega, fun _ => trivial⟩
    | meter k =>
      simp only [pendAfter, Spec.MP.refStep] at b1 ⊢
      exact ⟨by omega, fun hs => by rw [p2 hs, b2 hs]⟩
    | add k =>
      simp only [pendAfter] at b1 ⊢
      refine ⟨by omega, fun hs => ?_⟩
      have : mr.ref.shut = true := by
        revert hs; simp only [Spec.MP.refStep]; split <;> simp
      rw [p2 this, b2 this]
    | collect j =>
      simp only [pendAfter, Spec.MP.refStep] at b1 ⊢
      exact ⟨by omega, fun hs => by rw [p2 hs, b2 hs]⟩
    | flush c ch =>
      simp only [pendAfter, Spec.MP.refStep] at b1 ⊢
      exact ⟨by omega, fun hs => by rw [p2 hs, b2 hs]⟩
  | land l =>
    have hc : ∀ i, i < kinds.length → _ := fun i hi =>
      comp_landR _ _ _ (min (l i) (g.pend i)) (h.inv.comp i hi)
    simp only [mstep, mcheckStep, landStepM]
    refine ⟨⟨⟨h.inv.n, h.inv.shut, h.inv.once, h.inv.mt, h.inv.tot, fun i hi => (hc i hi).1⟩, ?_⟩, ?_⟩
    · intro i hi hk
      obtain ⟨p1, p2⟩ := h.pend i hi hk
      obtain ⟨_, _, _, _, _, c5⟩ := hc i hi
      simp only [hk, ↓reduceIte] at c5
      show (landR (min (l i) (g.pend i)) (g.st.pool i)).cnt.n + (g.pend i - min (l i) (g.pend i)) ≤ mr.cap ∧
        (mr.ref.shut = true → g.pend i - min (l i) (g.pend i) = 0)
      rw [c5]
      have := Nat.min_le_right (l i) (g.pend i)
      exact ⟨by omega, fun hs => by rw [p2 hs]; simp⟩
    · simp only [Spec.Fails.none, Spec.Fails.mk.injEq, Bool.not_eq_false', Spec.allBelow, List.all_eq_true,
        Bool.and_eq_true, List.mem_range]
      refine ⟨?_, ?_, ⟨by decide, ?_⟩, by decide⟩
      · intro i hi
        obtain ⟨_, c1, c2, c3, c4, c5⟩ := hc i hi
        simp only [snapOf]
        refine ⟨⟨by simp [c1], by simp [c2]⟩, ?_⟩
        cases hk : kindOf kinds i <;> simp only [hk] at c5 <;> simp [c5]
        obtain ⟨p1, p2⟩ := h.pend i hi hk
        have := Nat.min_le_right (l i) (g.pend i)
        refine ⟨by omega, ?_⟩
        cases hs : mr.ref.shut with
        | false => simp
        | true => simp [p2 hs]
      · intro i hi
        obtain ⟨_, c1, c2, c3, c4, c5⟩ := hc i hi
        simp [snapOf, c3]
      · intro i hi
        obtain ⟨_, c1, c2, c3, c4, c5⟩ := hc i hi
        simp [snapOf, c4]
  | settle l =>
    have hc : ∀ i, i < kinds.length → _ := fun i hi =>
      comp_landR _ _ _ (min (l i) (g.pend i)) (h.inv.comp i hi)
    simp only [mstep, mcheckStep, landStepM]
    refine ⟨⟨⟨h.inv.n, h.inv.shut, h.inv.once, h.inv.mt, h.inv.tot, fun i hi => (hc i hi).1⟩, ?_⟩, ?_⟩
    · intro i hi hk
      obtain ⟨p1, p2⟩ := h.pend i hi hk
      obtain ⟨_, _, _, _, _, c5⟩ := hc i hi
      simp only [hk, ↓reduceIte] at c5
      show (landR (min (l i) (g.pend i)) (g.st.pool i)).cnt.n + (g.pend i - min (l i) (g.pend i)) ≤ mr.cap ∧
        (mr.ref.shut = true → g.pend i - min (l i) (g.pend i) = 0)
      rw [c5]
      have := Nat.min_le_right (l i) (g.pend i)
      exact ⟨by omega, fun hs => by rw [p2 hs]; simp⟩
    · simp only [Spec.Fails.none, Spec.Fails.mk.injEq, Bool.not_eq_false', Spec.allBelow, List.all_eq_true,
        Bool.and_eq_true, List.mem_range]
      refine ⟨?_, ?_, ⟨by decide, ?_⟩, by decide⟩
      · intro i hi
        obtain ⟨_, c1, c2, c3, c4, c5⟩ := hc i hi
        simp only [snapOf]
        refine ⟨⟨by simp [c1], by simp [c2]⟩, ?_⟩
        cases hk : kindOf kinds i <;> simp only [hk] at c5 <;> simp [c5]
        obtain ⟨p1, p2⟩ := h.pend i hi hk
        have := Nat.min_le_right (l i) (g.pend i)
        refine ⟨by omega, ?_⟩
        cases hs : mr.ref.shut with
        | false => simp
        | true => simp [p2 hs]
      · intro i hi
        obtain ⟨c0, c1, c2, c3, c4, c5⟩ := hc i hi
        show (match kindOf kinds i with
          | .periodic => (landR (min (l i) (g.pend i)) (g.st.pool i)).cnt.s == (if mr.ref.shut then 1 else 0)
          | .manual => (landR (min (l i) (g.pend i)) (g.st.pool i)).cnt.s == 0) = true
        revert c0
        cases hk : kindOf kinds i <;> simp only [LemmasMP.CompInv] <;> intro c0 <;> simp_all
      · intro i hi
        obtain ⟨_, c1, c2, c3, c4, c5⟩ := hc i hi
        simp [snapOf, c4]

theorem mcheckFrom_none {kinds} (ops : List MOp) : ∀ (g : MSt) (mr : MRef), MInv kinds g mr →
    mcheckFrom kinds mr (snapOf g.st) ops (mrunFrom g ops) = Spec.Fails.none := by
  induction ops with
  | nil => intro g mr _; rfl
  | cons op rest ih =>
    intro g mr h
    obtain ⟨h1, h2⟩ := mstep_inv op h
    show (mcheckStep kinds mr op (snapOf g.st) (snapOf (mstep g op).1.st) (mstep g op).2).1.or
      (mcheckFrom kinds (mcheckStep kinds mr op (snapOf g.st) (snapOf (mstep g op).1.st) (mstep g op).2).2
        (snapOf (mstep g op).1.st) rest (mrunFrom (mstep g op).1 rest)) = Spec.Fails.none
    rw [h2, ih _ _ h1]; exact LemmasMP.none_or_none

theorem mrunFrom_length (g : MSt) (ops : List MOp) : (mrunFrom g ops).length = ops.length := by
  induction ops generalizing g with
  | nil => rfl
  | cons op rest ih => simp [mrunFrom, ih]

theorem minv_init (kinds : List RKind) : MInv kinds { st := MP.init kinds } {} := by
  refine ⟨LemmasMP.inv_init kinds, ?_⟩
  intro i _ _
  simp [MP.init]

end M
end Otel.C15.LagLemmas
