/-
C15 — callback RESULTS as a script dimension for the METER provider (line kind `emp`): periodic readers around a
recording exporter with PER-CALLBACK errors — `E.x i` the exporter's Export errs, `E.f i` its ForceFlush, `E.s i` its
Shutdown.  The manual reader has no user callback.  `stepE E` mirrors sdk/metric branch by branch:

  unify (config.go)            calls EVERY reader's function, `errors.Join`s what is non-nil — no early return;
  PeriodicReader.ForceFlush    the run loop answers the flush request with the result of collectAndExport (Collect, then
                               `exporter.Export`); `if err != nil { return err }` — the exporter's ForceFlush is NOT
                               called behind an erring Export: the one place where the successor state legitimately
                               depends on a callback result (only the exporter's ForceFlush counter); otherwise
                               `return r.exporter.ForceFlush(ctx)`;
  PeriodicReader.Shutdown      under shutdownOnce: final collect + Export (error kept), `sErr := exporter.Shutdown(ctx)`
                               is called on EVERY path, `if err == nil || errors.Is(err, ErrReaderShutdown) { err = sErr }`;
  unifyShutdown                sync.Once around unify; later calls answer ErrReaderShutdown.

Contexts: live.  With a done context the send on flushCh races ctx.Done (Choice code `k`, Model.lean): `stepE` then
takes the error-free step (such scripts are not generated with erring exporters).
-/
import Otel.C15.Model
import Otel.C15.Spec
import Otel.C15.Err
namespace Otel.C15.MErr
open Otel.C15 Otel.C15.MP

def userErr : Res := Err.userErr

/-- which callbacks of reader i's exporter return an error -/
structure ErrSet where
  x : Nat → Bool := fun _ => false
  f : Nat → Bool := fun _ => false
  s : Nat → Bool := fun _ => false

/-- `PeriodicReader.ForceFlush(ctx)` with callback results; live context: Export always runs, the exporter's ForceFlush
only if Export returned nil -/
def readerFlushE (E : ErrSet) (done : Bool) (k : Nat) (i : Nat) (r : RS) : RS :=
  match r.kind with
  | .manual => r
  | .periodic =>
    if r.rshut then r
    else if done then readerFlush done k r
    else { r with cnt := { r.cnt with n := r.cnt.n + 1, f := r.cnt.f + (if E.x i then 0 else 1) } }

/-- reader i's live ForceFlush returns a user error: the Export error, else the exporter's ForceFlush error -/
def errFlush (E : ErrSet) (pool : Nat → RS) (i : Nat) : Bool :=
  (pool i).kind == .periodic && !(pool i).rshut && (E.x i || E.f i)

/-- reader i's (first) Shutdown returns a user error: the final Export's, else the exporter's Shutdown error -/
def errShut (E : ErrSet) (pool : Nat → RS) (i : Nat) : Bool :=
  (pool i).kind == .periodic && !(pool i).rshut && (E.x i || E.s i)

def stepE (E : ErrSet) (s : St) : Op → St × Res
  | .flush c ch =>
    let ce := (List.range s.n).any (flushCtxErr c.done ch s.pool)
    let se := (List.range s.n).any (flushShutErr c.done ch s.pool)
    let res := if ce || se then .err (ce && c == .cancelled) (ce && c == .expired) se
               else if !c.done && (List.range s.n).any (errFlush E s.pool) then userErr else .ok
    ({ s with pool := forAll s.n s.pool fun i => readerFlushE E c.done (ch.k i) i }, res)
  | .shutdown _ =>
    let s' := { s with stopped := true }
    if s'.once then (s', .err false false true)
    else ({ s' with once := true, pool := forAll s'.n s'.pool fun _ => readerShutdown },
          if (List.range s.n).any (errShut E s.pool) then userErr else .ok)
  | op => step s op          -- meter, add, collect: no user callback

def runFromE (E : ErrSet) (s : St) : List Op → List Obs
  | [] => []
  | op :: r =>
    let y := stepE E s op
    { res := y.2, snap := fun i => (y.1.pool i).cnt } :: runFromE E y.1 r

def runE (E : ErrSet) (kinds : List RKind) (ops : List Op) : List Obs := runFromE E (init kinds) ops

def finalFromE (E : ErrSet) (s : St) : List Op → St
  | [] => s
  | op :: r => finalFromE E (stepE E s op).1 r

def finalFrom (s : St) : List Op → St
  | [] => s
  | op :: r => finalFrom (step s op).1 r

/-! ## the reference with callback results: `Spec.MP.checkStep` with the expected result — and the exporter's ForceFlush
counter behind an erring Export — extended -/

def anyErrFlush (E : ErrSet) (kinds : List RKind) : Bool :=
  (List.range kinds.length).any fun i => kindOf kinds i == .periodic && (E.x i || E.f i)

def anyErrShut (E : ErrSet) (kinds : List RKind) : Bool :=
  (List.range kinds.length).any fun i => kindOf kinds i == .periodic && (E.x i || E.s i)

def resOKE (E : ErrSet) (kinds : List RKind) (r : Spec.MP.Ref) (op : Op) (res : Res) : Bool :=
  match op with
  | .flush c _ =>
    if !r.shut && !c.done then res == (if anyErrFlush E kinds then userErr else .ok)
    else Spec.MP.resOK kinds r op res
  | .shutdown _ => res == (if r.shut then .err false false true else if anyErrShut E kinds then userErr else .ok)
  | _ => Spec.MP.resOK kinds r op res

open Spec in
def checkStepE (E : ErrSet) (kinds : List RKind) (r : Spec.MP.Ref) (op : Op) (prev cur : Nat → Cnt) (res : Res) :
    Fails :=
  let base := Spec.MP.checkStep kinds r op prev cur res
  let n := kinds.length
  let flushLive := match op with | .flush c _ => !r.shut && !c.done | _ => false
  let flushDone := match op with | .flush c _ => !r.shut && c.done | _ => false
  { base with
    a := !(resOKE E kinds r op res && allBelow n fun i =>
        match kindOf kinds i with
        | .periodic =>
          if flushDone then (prev i).f ≤ (cur i).f && (cur i).f + (prev i).n ≤ (prev i).f + (cur i).n
          else (cur i).f == (prev i).f + (if flushLive && !E.x i then 1 else 0)
        | .manual => (cur i).f == 0) }

def checkFromE (E : ErrSet) (kinds : List RKind) (r : Spec.MP.Ref) (prev : Nat → Cnt) :
    List Op → List Obs → Spec.Fails
  | op :: ops, o :: obs =>
    (checkStepE E kinds r op prev o.snap o.res).or (checkFromE E kinds (Spec.MP.refStep r op o.res) o.snap ops obs)
  | _, _ => Spec.Fails.none

def checkE (E : ErrSet) (kinds : List RKind) (ops : List Op) (obs : List Obs) : Spec.Fails :=
  (checkFromE E kinds {} (fun _ => {}) ops obs).or { t := obs.length != ops.length }

end Otel.C15.MErr
