/-
C18 driver: reads trace lines of the Go harnesses, runs the model on the input part, compares with the observed
part, and evaluates the Spec oracle on the *observed* result. Line kinds (tokens separated by blanks, groups by `|`):

  name  <gen> <legacy><nounits><nosuffix> <ns raw|-> <name> <unit> <c|g|h>            => <hex>|panic
  attrs <gen> <legacy 0|1> <kvs>                                                      => <kvs>      (legacy: sorted by key)
  hist  <gen> <count> <sumq> <bounds> <counts>                                        => <count> <sumq> <b:c,…>
  expo  <gen> <count> <sumq> <scale> <zc> <posOff> <pos> <negOff> <neg>               => none | <count> <sumq> <schema> <zc> <pos> <neg>
  val   <gen> | <name> <desc> <c|g|h> | …                                             => <drop>:<help> …
  e2e   <gen> <6 flags>[<early>] <ns raw|-> <res kvs> | S <name> <ver> [<schema url> <scope kvs>] | I <dtype> <name> <unit> <desc> | P <kvs> <payload…> …
                                                                                      => panic | <ok|err> | F <name> <t> <help> | M <kvs> <payload…> …
  seq   <gen> <6 flags> <ns raw|-> <res kvs> || N || D | S … | I … | P … || D | …       => <scrape 1> || <scrape 2> || …
        successive scrapes of ONE exporter (caches kept): N = scrape before registration, D = scrape with these scopes
  opts  <gen> <legacy 0|1> <o,o,…|->  (T U C S N:<hex> R1 R2 R3 X)                      => <T><U><C><S> <ns hex> <-|accepted probe keys bits>
  race  <gen> <n> => ok|race|panic|hang|fail:…   (observation only; gen `coldres` = concurrent first scrapes, the F35 witness round)
-/
import Otel.C18.Spec
open Otel Otel.Wire Otel.C18

namespace Otel.C18.Drv

def splitGroups (toks : List String) : List (List String) :=
  let rec go : List String → List String → List (List String) → List (List String)
    | [], cur, acc => (cur.reverse :: acc).reverse
    | t :: ts, cur, acc => if t == "|" then go ts [] (cur.reverse :: acc) else go ts (t :: cur) acc
  go toks [] []

def parseList {α} (f : String → Option α) (s : String) : Option (List α) :=
  if s == "-" then some [] else (s.splitOn ",").mapM f

def parseKV (s : String) : Option KV :=
  match s.splitOn "=" with
  | [k, v] => do pure ((← parseHex k), (← parseHex v))
  | _ => none

def parseKVs := parseList parseKV
def parseNats := parseList parseNat
def parseInts := parseList parseInt

def parseBucket (s : String) : Option (Int × Nat) :=
  match s.splitOn ":" with
  | [k, c] => do pure ((← parseInt k), (← parseNat c))
  | _ => none
def parseBuckets := parseList parseBucket

def renderList {α} (f : α → String) (l : List α) : String :=
  if l.isEmpty then "-" else ",".intercalate (l.map f)

def renderKVs (l : List KV) : String := renderList (fun kv => hexOf kv.1 ++ "=" ++ hexOf kv.2) l
def renderBuckets (l : List (Int × Nat)) : String := renderList (fun kc => s!"{kc.1}:{kc.2}") l

def parseBool (c : Char) : Option Bool := if c == '0' then some false else if c == '1' then some true else none

/-- 6th flag: 0 = no WithResourceAsConstantLabels; 1 = filter accepting every key; 2 = attribute.NewDenyKeysFilter("r.a",
"service.name"); 3 = a filter rejecting every key -/
def resDenyAll : List Bytes := [b "r.a", b "r_a", b "service.name", b "r-b", b "r.c", b "a", b "otel_scope_name", b "__r"]
def parseResFlag (c : Char) : Option (Bool × List Bytes) :=
  if c == '0' then some (false, []) else if c == '1' then some (true, [])
  else if c == '2' then some (true, [b "r.a", b "service.name"]) else if c == '3' then some (true, resDenyAll) else none

def parseMType : String → Option MType
  | "c" => some .counter | "g" => some .gauge | "h" => some .histogram | _ => none
def renderMType : MType → String
  | .counter => "c" | .gauge => "g" | .histogram => "h"

def parseDType : String → Option DType
  | "sm" => some .sumMono | "sn" => some .sumNon | "g" => some .gauge | "h" => some .hist | "e" => some .expo | _ => none

def esc := escUnderscore

def nsOf (legacy : Bool) (tok : String) : Option Bytes :=
  if tok == "-" then some [] else (parseHex tok).map (withNamespace esc legacy)

def nonzero (l : List (Int × Nat)) : List (Int × Nat) := l.filter (fun kc => kc.2 != 0)

def renderNative (sumq : Int) (n : Native) : String :=
  s!"{n.count} {sumq} {n.schema} {n.zeroCount} {renderBuckets (nonzero n.pos)} {renderBuckets (nonzero n.neg)}"

def renderOutPayload : OutPayload → String
  | .num q => s!"v {q}"
  | .hist count sumq buckets => s!"h {count} {sumq} {renderBuckets buckets}"
  | .native sumq n => "n " ++ renderNative sumq n

def parseExpo (count scale zc posOff pos negOff neg : String) : Option ExpoDP := do
  pure { scale := ← parseInt scale, zeroCount := ← parseNat zc, posOff := ← parseInt posOff, pos := ← parseNats pos,
         negOff := ← parseInt negOff, neg := ← parseNats neg, count := ← parseNat count }

def parsePayload : List String → Option Payload
  | ["v", q] => do pure (.num (← parseInt q))
  | ["h", count, sumq, bounds, counts] => do
    pure (.hist (← parseNat count) (← parseInt sumq) (← parseInts bounds) (← parseNats counts))
  | ["e", count, sumq, scale, zc, posOff, pos, negOff, neg] => do
    pure (.expo (← parseInt sumq) (← parseExpo count scale zc posOff pos negOff neg))
  | _ => none

def parseOutPayload : List String → Option OutPayload
  | ["v", q] => do pure (.num (← parseInt q))
  | ["h", count, sumq, buckets] => do pure (.hist (← parseNat count) (← parseInt sumq) (← parseBuckets buckets))
  | ["n", count, sumq, schema, zc, pos, neg] => do
    pure (.native (← parseInt sumq) ⟨← parseInt schema, ← parseNat zc, ← parseNat count, ← parseBuckets pos, ← parseBuckets neg⟩)
  | _ => none

def splitOnChar (c : Char) (s : String) : List String := s.splitOn (String.singleton c)

/-- `<q>/<kvs>/<trace hex text>/<span hex text>` -/
def parseExemplar (s : String) : Option Exemplar :=
  match splitOnChar '/' s with
  | [q, kvs, t, sp] => do pure ⟨← parseInt q, ← parseKVs kvs, ← parseHex t, ← parseHex sp⟩
  | _ => none

def parseSlot (s : String) : Option Slot :=
  if s == "c" then some .counter else if s == "inf" then some .inf else (parseInt s).map .bucket
def renderSlot : Slot → String
  | .counter => "c" | .inf => "inf" | .bucket bd => s!"{bd}"

/-- `<slot>/<q>/<kvs>` -/
def parseExOut (s : String) : Option ExOut :=
  match splitOnChar '/' s with
  | [sl, q, kvs] => do pure ⟨← parseSlot sl, ← parseInt q, ← parseKVs kvs⟩
  | _ => none
def renderExOut (e : ExOut) : String := s!"{renderSlot e.slot}/{e.q}/{renderKVs e.labels}"

/-- optional trailing token `E:<item>;<item>…` of a P or M group -/
def splitE (toks : List String) : List String × Option String :=
  match toks.reverse with
  | t :: rest => if t.startsWith "E:" then (rest.reverse, some (t.drop 2).toString) else (toks, none)
  | [] => (toks, none)

def parseEList {α} (f : String → Option α) : Option String → Option (List α)
  | none => some []
  | some s => (splitOnChar ';' s).mapM f

/-- groups after the header → scopes (S/I/P groups) -/
def parseScopes : List (List String) → List Scope → Option (List Scope)
  | [], acc => some acc.reverse
  | g :: gs, acc =>
    match g with
    | ["S", n, v] => do
      let s : Scope := { name := ← parseHex n, version := ← parseHex v, insts := [] }
      parseScopes gs (s :: acc)
    | ["S", n, v, u, a] => do
      let s : Scope := { name := ← parseHex n, version := ← parseHex v, insts := [], schemaURL := ← parseHex u, attrs := ← parseKVs a }
      parseScopes gs (s :: acc)
    | ["I", dt, n, u, d] =>
      match acc with
      | s :: rest => do
        let i : Inst := ⟨← parseDType dt, ← parseHex n, ← parseHex u, ← parseHex d, []⟩
        parseScopes gs ({ s with insts := s.insts ++ [i] } :: rest)
      | [] => none
    | "P" :: kvs :: payload =>
      match acc with
      | s :: rest =>
        match s.insts.reverse with
        | i :: irest => do
          let (payload, e) := splitE payload
          let p : Point := ⟨← parseKVs kvs, ← parsePayload payload, ← parseEList parseExemplar e⟩
          parseScopes gs ({ s with insts := (({ i with points := i.points ++ [p] }) :: irest).reverse } :: rest)
        | [] => none
      | [] => none
    | _ => none

def parseFams : List (List String) → List Family → Option (List Family)
  | [], acc => some acc.reverse
  | g :: gs, acc =>
    match g with
    | ["F", n, t, h] => do
      let f : Family := ⟨← parseHex n, ← parseMType t, ← parseHex h, []⟩
      parseFams gs (f :: acc)
    | "M" :: kvs :: payload =>
      match acc with
      | f :: rest => do
        let (payload, e) := splitE payload
        let s : Series := ⟨← parseKVs kvs, ← parseOutPayload payload, ← parseEList parseExOut e⟩
        parseFams gs ({ f with series := f.series ++ [s] } :: rest)
      | [] => none
    | _ => none

def insertBy {α} (le : α → α → Bool) (x : α) : List α → List α
  | [] => [x]
  | y :: ys => if le x y then x :: y :: ys else y :: insertBy le x ys
def sortBy {α} (le : α → α → Bool) (l : List α) : List α := l.foldr (insertBy le) []

def renderSeries (s : Series) : String :=
  s!"M {renderKVs s.labels} {renderOutPayload s.payload}" ++
    (if s.ex.isEmpty then "" else " E:" ++ ";".intercalate (s.ex.map renderExOut))

def renderFams (err : Bool) (fams : List Family) : String :=
  let fams := sortBy (fun a c => bytesLe a.name c.name) fams
  let parts := fams.flatMap fun f =>
    let ser := sortBy (fun a c => !(c < a)) (f.series.map renderSeries)
    s!"F {hexOf f.name} {renderMType f.typ} {hexOf f.help}" :: ser
  " | ".intercalate ((if err then "err" else "ok") :: parts)

def tag (c : Bool) (t : String) : List String := if c then [t] else []
def tags (l : List String) : String := if l.isEmpty then "-" else ",".intercalate l

def stepName (flags nsTok nameTok unitTok typTok : String) (obs : List String) : Option Verdict := do
  let [l, u, c] := flags.toList | none
  let legacy ← parseBool l
  let cfg : Cfg := ⟨legacy, ← parseBool u, ← parseBool c, ← nsOf legacy nsTok⟩
  let name ← parseHex nameTok
  let unit ← parseHex unitTok
  let typ ← parseMType typTok
  let m := getName esc cfg name unit typ
  let ms := match m with | some r => hexOf r | none => "panic"
  let ref := Spec.refName esc cfg name unit typ
  let [o] := obs | none
  let spec := if o == "panic" then "FAIL" else if o == hexOf ref then "ok" else "FAIL"
  let en := if legacy then esc name else name
  let add := Spec.addsTotal cfg typ
  let br := tag legacy "legacy" ++ tag (en != name) "escaped" ++ tag add "counter" ++
    tag (add && Spec.stripTotal en != en) "trim-total" ++ tag (add && Spec.endsWith en (b "total") && Spec.stripTotal en == en) "keep-total" ++
    tag (add && Spec.stripDelim (Spec.stripTotal en) != Spec.stripTotal en) "trim-delim" ++
    tag (cfg.ns != []) "ns" ++
    (match unitSuffix unit with
     | none => ["unit-unknown"]
     | some _ => if cfg.withoutUnits then ["unit-off"] else
        if Spec.unitPart cfg unit (cfg.ns ++ Spec.core esc cfg name typ) == [] then ["unit-present"] else ["unit-added"])
  pure { agree := ms == o, spec := spec, nontrivial := ref != name, branches := tags br, model := ms }

def stepAttrs (legTok kvTok : String) (obs : List String) : Option Verdict := do
  let [l] := legTok.toList | none
  let legacy ← parseBool l
  let attrs ← parseKVs kvTok
  let [o] := obs | none
  let okv ← parseKVs o
  let m := getAttrs esc legacy attrs
  let m := if legacy then sortKV m else m
  let spec := Spec.labelsMerged (Spec.effEsc esc legacy) attrs okv
  let merged := legacy && m.length < attrs.length
  pure { agree := renderKVs m == o, spec := if spec then "ok" else "FAIL", nontrivial := merged || (legacy && m.map (·.1) != attrs.map (·.1)),
         branches := tags (tag (!legacy) "utf8" ++ tag legacy "legacy" ++ tag merged "merged"), model := renderKVs m }

def stepHist (count sumq bounds counts : String) (obs : List String) : Option Verdict := do
  let count ← parseNat count
  let sumq ← parseInt sumq
  let bounds ← parseInts bounds
  let counts ← parseNats counts
  let m := s!"{count} {sumq} {renderBuckets (histBuckets bounds counts)}"
  let [oc, os, ob] := obs | none
  let oc ← parseNat oc
  let os ← parseInt os
  let ob ← parseBuckets ob
  let spec := os == sumq && Spec.histFaithful bounds counts count oc ob
  pure { agree := m == " ".intercalate obs, spec := if spec then "ok" else "FAIL", nontrivial := counts.sum > 0 && bounds.length > 0,
         branches := tags (tag (bounds.isEmpty) "nobounds" ++ tag (!bounds.isEmpty) "bounds"), model := m }

def stepExpo (count sumq scale zc posOff pos negOff neg : String) (obs : List String) : Option Verdict := do
  let dp ← parseExpo count scale zc posOff pos negOff neg
  let sumq ← parseInt sumq
  let m := expoToNative dp
  let ms := match m with | some n => renderNative sumq n | none => "none"
  let consistent := dp.pos.sum + dp.neg.sum + dp.zeroCount == dp.count && (dp.pos ++ dp.neg).all (· ≤ maxInt64)
  let spec ← match obs with
    | ["none"] => some (if !consistent then "na" else if Spec.F28_applies dp then "KNOWN:F28" else "FAIL")
    | [oc, os, osch, ozc, op, on] => do
      let n : Native := ⟨← parseInt osch, ← parseNat ozc, ← parseNat oc, ← parseBuckets op, ← parseBuckets on⟩
      let osq ← parseInt os
      some (if !consistent then "na" else if osq == sumq && Spec.expoFaithful dp n then "ok" else "FAIL")
    | _ => none
  pure { agree := ms == " ".intercalate obs, spec := spec, nontrivial := m.isSome && dp.count > 0,
         branches := tags (tag (Spec.F28_applies dp) "schema-range" ++ tag (!consistent) "count-mismatch" ++ tag m.isSome "native" ++
           tag (!dp.neg.isEmpty) "neg" ++ tag (dp.zeroCount > 0) "zero"), model := ms }

def parseOps : List (List String) → Option (List Spec.Op)
  | [] => some []
  | [n, d, t] :: r => do pure (((← parseHex n), (← parseHex d), (← parseMType t)) :: (← parseOps r))
  | _ => none

def runVal : List Fam → List Spec.Op → List String
  | _, [] => []
  | fams, (n, d, t) :: r =>
    let (f', drop, help) := validate fams n d t
    s!"{if drop then 1 else 0}:{hexOf help}" :: runVal f' r

/-- reference: decided by the *first* operation with the same name: dropped iff the type differs; else the help is the
first operation's description -/
def refVal : List Spec.Op → List Spec.Op → List String
  | _, [] => []
  | before, (n, d, t) :: r =>
    let s := match before.find? (fun o => o.1 == n) with
      | none => s!"0:{hexOf d}"
      | some (_, d0, t0) => if t0 != t then s!"1:{hexOf []}" else s!"0:{hexOf d0}"
    s :: refVal (before ++ [(n, d, t)]) r

def stepVal (groups : List (List String)) (obs : List String) : Option Verdict := do
  let ops ← parseOps groups
  let m := runVal [] ops
  let r := refVal [] ops
  let conflicts := m.any (fun s => s.startsWith "1")
  let helps := (ops.zip m).any (fun om => om.2.startsWith "0:" && om.2 != s!"0:{hexOf om.1.2.1}")
  pure { agree := m == obs, spec := if r == obs then "ok" else "FAIL", nontrivial := conflicts || helps,
         branches := tags (tag conflicts "type-conflict" ++ tag helps "help-conflict" ++ tag (!conflicts && !helps) "plain"),
         model := " ".intercalate m }

def stepE2E (flags nsTok resTok : String) (groups : List (List String)) (obs : List String) : Option Verdict := do
  -- optional 7th flag: one scrape happened *before* the exporter was registered with a MeterProvider; the observed part
  -- is then `<early scrape> || <scrape>`
  let (l, u, c, s, t, r, early) ← match flags.toList with
    | [l, u, c, s, t, r] => some (l, u, c, s, t, r, false)
    | [l, u, c, s, t, r, e] => (parseBool e).map fun e => (l, u, c, s, t, r, e)
    | _ => none
  let earlyObs := if early then obs.takeWhile (· != "||") else []
  let obs := if early then (obs.dropWhile (· != "||")).drop 1 else obs
  let earlyModel := (let (err, fams) := gather collectNotRegistered; renderFams err fams)
  let earlyAgree := !early || " ".intercalate earlyObs == earlyModel
  -- before registration nothing is configured: nothing may be exposed (no error, no panic)
  let earlyOK := !early || earlyObs == ["ok"]
  let legacy ← parseBool l
  let cfg : Cfg := ⟨legacy, ← parseBool u, ← parseBool c, ← nsOf legacy nsTok⟩
  let scopes ← parseScopes groups []
  let (rc, deny) ← parseResFlag r
  let sc : Scenario := ⟨cfg, ← parseBool s, ← parseBool t, rc, ← parseKVs resTok, scopes, deny⟩
  let ms := if collectPanics esc sc then "panic" else
    let (err, fams) := gather (collect esc sc)
    renderFams err fams
  let o : Spec.Obs ← match obs with
    | ["panic"] => some ⟨true, false, []⟩
    | _ =>
      match splitGroups obs with
      | [e] :: fg => do
        let fams ← parseFams fg []
        if e == "ok" then some ⟨false, false, fams⟩ else if e == "err" then some ⟨false, true, fams⟩ else none
      | _ => none
  let spec := if !earlyOK then "FAIL" else Spec.promOK esc sc o
  let insts := Spec.allInsts sc
  let dts := (insts.map (fun si => match si.2.dtype with
    | .sumMono => "counter" | .sumNon => "updown" | .gauge => "gauge" | .hist => "hist" | .expo => "expo")).eraseDups
  let names := insts.map (fun si => Spec.refName esc cfg si.2.name si.2.unit si.2.dtype.mtype)
  let conflict := names.eraseDups.length < names.length
  let merged := legacy && insts.any (fun si => si.2.points.any (fun p => (getAttrsLegacy esc p.attrs).length < p.attrs.length))
  let pts := insts.flatMap (fun si => si.2.points.map (fun p => (si.2.dtype, p)))
  let exPts := pts.filter (fun dp => !dp.2.exemplars.isEmpty && (dp.1 == DType.sumMono || dp.1 == DType.hist))
  let exRej := exPts.any (fun dp => (promExemplars esc legacy dp.2.exemplars).isNone)
  let exAcc := exPts.any (fun dp => (promExemplars esc legacy dp.2.exemplars).isSome)
  let exInf := exPts.any (fun dp => match dp.2.payload with
    | .hist _ _ bounds _ => dp.2.exemplars.any (fun e => bucketSlot bounds e.q == Slot.inf)
    | _ => false)
  let br := dts ++ tag exAcc "exemplar-accepted" ++ tag exRej "exemplar-rejected" ++ tag exInf "exemplar-inf" ++
    tag legacy "legacy" ++ tag conflict "same-family" ++ tag merged "merged" ++ tag sc.noScope "noscope" ++
    tag sc.noTarget "notarget" ++ tag sc.resConst "resconst" ++ tag (sc.resConst && constRes sc != sc.res) "res-filtered" ++ tag (cfg.ns != []) "ns" ++ tag (scopes.length > 1) "scopes2" ++
    tag (scopes.any (fun s => !s.attrs.isEmpty)) "scope-attrs" ++
    tag (scopes.any fun s => scopes.any fun s' => s.key != s'.key && s.name == s'.name && s.version == s'.version) "scope-same-name-version" ++
    tag (!sc.noScope && scopes.any fun s => (scopeInfoMetric esc legacy s).isNone) "scope-invalid"
  pure { agree := earlyAgree && ms == " ".intercalate obs, spec := spec, nontrivial := !insts.isEmpty,
         branches := tags (br ++ tag early "early-scrape"), model := (if early then earlyModel ++ " || " else "") ++ ms }

def resDeny2 : List Bytes := [b "r.a", b "service.name"]
def probeKeys : List Bytes := [b "r.a", b "service.name", b "r-b", b "zz"]

def parseOpt (t : String) : Option Opt :=
  if t == "T" then some .withoutTargetInfo else if t == "U" then some .withoutUnits
  else if t == "C" then some .withoutCounterSuffixes else if t == "S" then some .withoutScopeInfo
  else if t == "R1" then some (.withResourceAsConstantLabels []) else if t == "R2" then some (.withResourceAsConstantLabels resDeny2)
  else if t == "R3" then some (.withResourceAsConstantLabels (resDenyAll ++ probeKeys)) else if t == "X" then some .other
  else if t.startsWith "N:" then (parseHex (t.drop 2).toString).map .withNamespace else none

def b01 (x : Bool) : String := if x then "1" else "0"

def renderConfig (c : Config) : String :=
  s!"{b01 c.disableTargetInfo}{b01 c.withoutUnits}{b01 c.withoutCounterSuffixes}{b01 c.disableScopeInfo} {hexOf c.ns} " ++
    (match c.resFilter with
     | none => "-"
     | some deny => String.join (probeKeys.map fun k => b01 (!deny.contains k)))

/-- option sequences (any order, repetitions): New's collector fields against `newConfig`; oracle: a flag is set iff its
option occurs, the namespace is that of the last WithNamespace, the filter that of the last WithResourceAsConstantLabels -/
def stepOpts (legTok optsTok : String) (obs : List String) : Option Verdict := do
  let [l] := legTok.toList | none
  let legacy ← parseBool l
  let opts ← parseList parseOpt optsTok
  let m := renderConfig (newConfig esc legacy opts)
  let lastNs := (opts.filterMap fun o => match o with | .withNamespace ns => some ns | _ => none).getLast?
  let lastF := (opts.filterMap fun o => match o with | .withResourceAsConstantLabels d => some d | _ => none).getLast?
  let refNs : Bytes := match lastNs with
    | some ns => withNamespace esc legacy ns
    | none => []
  let ref : Config := Config.mk (opts.contains Opt.withoutTargetInfo) (opts.contains Opt.withoutUnits)
    (opts.contains Opt.withoutCounterSuffixes) (opts.contains Opt.withoutScopeInfo) refNs lastF
  let dup := opts.eraseDups.length < opts.length
  pure { agree := m == " ".intercalate obs, spec := if renderConfig ref == " ".intercalate obs then "ok" else "FAIL",
         nontrivial := !opts.isEmpty,
         branches := tags (tag dup "opt-repeated" ++ tag ((opts.filter fun o => match o with | .withNamespace _ => true | _ => false).length > 1) "ns-twice" ++
           tag lastF.isSome "res-filter" ++ tag legacy "legacy" ++ tag opts.isEmpty "defaults"),
         model := m }

/-- split on the `||` token -/
def splitSteps (toks : List String) : List (List String) :=
  let rec go : List String → List String → List (List String) → List (List String)
    | [], cur, acc => (cur.reverse :: acc).reverse
    | t :: ts, cur, acc => if t == "||" then go ts [] (cur.reverse :: acc) else go ts (t :: cur) acc
  go toks [] []

def parseStep (toks : List String) : Option Step :=
  match splitGroups toks with
  | ["N"] :: [] => some .notRegistered
  | ["D"] :: groups => (parseScopes groups []).map .data
  | _ => none

def parseObs (obs : List String) : Option Spec.Obs :=
  match obs with
  | ["panic"] => some ⟨true, false, []⟩
  | _ =>
    match splitGroups obs with
    | [e] :: fg => do
      let fams ← parseFams fg []
      if e == "ok" then some ⟨false, false, fams⟩ else if e == "err" then some ⟨false, true, fams⟩ else none
    | _ => none

def combineSpec (l : List String) : String :=
  if l.contains "FAIL" then "FAIL"
  else match l.find? (fun s => s.startsWith "KNOWN:") with
    | some k => k
    | none => if l.contains "ok" then "ok" else "na"

/-- a sequence of scrapes of one exporter: the model keeps every cache of the collector (`runSeq`); every scrape is
judged on its own by the e2e oracle (what a scrape exposes does not depend on what earlier scrapes saw) -/
def stepSeq (flags nsTok resTok : String) (rest : List String) (obs : List String) : Option Verdict := do
  let [l, u, c, s, t, r] := flags.toList | none
  let legacy ← parseBool l
  let cfg : Cfg := ⟨legacy, ← parseBool u, ← parseBool c, ← nsOf legacy nsTok⟩
  let (rc, deny) ← parseResFlag r
  let base : Scenario := ⟨cfg, ← parseBool s, ← parseBool t, rc, ← parseKVs resTok, [], deny⟩
  let steps ← match splitSteps rest with
    | [] :: st => st.mapM parseStep
    | _ => none
  let obsL := splitSteps obs
  if obsL.length != steps.length then none
  let scOf : Step → Option Scenario
    | .notRegistered => none
    | .data scopes => some { base with scopes := scopes }
  let outs := runSeq esc base (CState.init base) steps
  let ms := (steps.zip outs).map fun so =>
    match scOf so.1 with
    | some sc => if collectPanics esc sc then "panic" else (let (err, fams) := gather so.2; renderFams err fams)
    | none => (let (err, fams) := gather so.2; renderFams err fams)
  let specs ← (steps.zip obsL).mapM fun so => do
    let o ← parseObs so.2
    match scOf so.1 with
    | some sc => pure (Spec.promOK esc sc o)
    | none => pure (if so.2 == ["ok"] then "ok" else "FAIL")
  -- coverage tags: what the scope caches go through
  let keysOf : Step → List ScopeKey
    | .notRegistered => []
    | .data scopes => scopes.map (·.key)
  let rec hist : List Step → List ScopeKey → Bool × Bool → Bool × Bool
    | [], _, acc => acc
    | x :: xs, seen, (hit, later) =>
      let ks := keysOf x
      let hit' := hit || ks.any (fun k => seen.contains k)
      let later' := later || (!seen.isEmpty && ks.any (fun k => !seen.contains k))
      hist xs (seen ++ ks.filter (fun k => !seen.contains k)) (hit', later')
  let (hit, later) := hist steps [] (false, false)
  let allKeys := (steps.flatMap keysOf).eraseDups
  let sameNV := allKeys.any fun k => allKeys.any fun k' => k != k' && k.name == k'.name && k.version == k'.version
  let schemaOnly := allKeys.any fun k => allKeys.any fun k' => k != k' && k.name == k'.name && k.version == k'.version && k.attrs == k'.attrs
  let verOnly := allKeys.any fun k => allKeys.any fun k' => k != k' && k.name == k'.name && k.version != k'.version && k.attrs == k'.attrs
  let override := allKeys.any fun k => k.attrs.any fun kv => kv.1 == scopeNameLabel || kv.1 == scopeVersionLabel
  let invalid := !base.noScope && allKeys.any fun k => (scopeInfoOfKey esc legacy k).isNone
  let dataSteps := steps.filter (fun x => match x with | .data _ => true | _ => false)
  let br := tag hit "scope-cache-hit" ++ tag later "scope-new-later" ++ tag sameNV "scope-same-name-version" ++
    tag schemaOnly "scope-schema-only" ++ tag verOnly "scope-version-only" ++ tag override "scope-attr-overrides-label" ++
    tag invalid "scope-invalid" ++ tag (!allKeys.all (fun k => k.attrs.isEmpty)) "scope-attrs" ++
    tag (steps.length != dataSteps.length) "early-scrape" ++ tag legacy "legacy" ++ tag base.noScope "noscope" ++
    tag base.noTarget "notarget" ++ tag base.resConst "resconst" ++ tag (base.resConst && constRes base != base.res) "res-filtered"
  pure { agree := ms == obsL.map (" ".intercalate ·), spec := combineSpec specs, nontrivial := dataSteps.length ≥ 2,
         branches := tags br, model := " || ".intercalate ms }

def step (_ : Unit) (toks : List String) : Unit × Option Verdict :=
  let (inp, obs) := splitObs toks
  let v : Option Verdict :=
    match inp with
    | ["name", _, flags, ns, name, unit, typ] => stepName flags ns name unit typ obs
    | ["attrs", _, leg, kvs] => stepAttrs leg kvs obs
    | ["hist", _, count, sumq, bounds, counts] => stepHist count sumq bounds counts obs
    | ["expo", _, count, sumq, scale, zc, posOff, pos, negOff, neg] => stepExpo count sumq scale zc posOff pos negOff neg obs
    | "val" :: _ :: rest =>
      match splitGroups rest with
      | [] :: groups => stepVal groups obs
      | _ => none
    | "e2e" :: _ :: flags :: ns :: res :: rest =>
      match splitGroups rest with
      | [] :: groups => stepE2E flags ns res groups obs
      | _ => none
    | ["opts", _, leg, os] => stepOpts leg os obs
    | "seq" :: _ :: flags :: ns :: res :: rest => stepSeq flags ns res rest obs
    | ["race", gen, _] =>
      -- observation only: anything but `ok` (a data race report, a panic, a hang) fails. Round `coldres` = concurrent
      -- *first* scrapes with WithResourceAsConstantLabels, the witness of F35 (fixed in /repo d3bd916).
      let spec := if obs == ["ok"] then "ok" else "FAIL"
      some { agree := true, spec := spec, nontrivial := true, branches := if gen == "coldres" then "race-cold" else "race", model := "ok" }
    | _ => none
  ((), v)

end Otel.C18.Drv

def main : IO Unit := Wire.run () Otel.C18.Drv.step
