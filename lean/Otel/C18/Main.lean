/-
C18 driver: reads trace lines of the Go harnesses, runs the model on the input part, compares with the observed
part, and evaluates the Spec oracle on the *observed* result. Line kinds (tokens separated by blanks, groups by `|`):

  name  <gen> <legacy><nounits><nosuffix> <ns raw|-> <name> <unit> <c|g|h>            => <hex>|panic
  attrs <gen> <legacy 0|1> <kvs>                                                      => <kvs>      (legacy: sorted by key)
  hist  <gen> <count> <sumq> <bounds> <counts>                                        => <count> <sumq> <b:c,…>
  expo  <gen> <count> <sumq> <scale> <zc> <posOff> <pos> <negOff> <neg>               => none | <count> <sumq> <schema> <zc> <pos> <neg>
  val   <gen> | <name> <desc> <c|g|h> | …                                             => <drop>:<help> …
  e2e   <gen> <6 flags>[<early>] <ns raw|-> <res kvs> | S <name> <ver> | I <dtype> <name> <unit> <desc> | P <kvs> <payload…> …
                                                                                      => panic | <ok|err> | F <name> <t> <help> | M <kvs> <payload…> …
  race  <gen> <n> => ok|race|panic|hang|fail:…   (observation only; gen `coldres` = concurrent first scrapes, the F35 witness round)
-/
import Otel.C18.Spec
open Otel Otel.Wire Otel.C18

namespace Otel.C18.Drv

def splitGroups (toks : List String) : List (List String) :=
  let rec go : List String → List String → List (List String) → List (List String)
    | [], cur, acc => (cur.reverse :: acc).reverse
    | t :: ts, cur, acc => if t == "|" then go ts [] (cur.reverse :: acc) else go ts (t :: cur) acc
  go toks [] []

def parseList {α} (f : String → Option α) (s : String) : Option (List α) :=
  if s == "-" then some [] else (s.splitOn ",").mapM f

def parseKV (s : String) : Option KV :=
  match s.splitOn "=" with
  | [k, v] => do pure ((← parseHex k), (← parseHex v))
  | _ => none

def parseKVs := parseList parseKV
def parseNats := parseList parseNat
def parseInts := parseList parseInt

def parseBucket (s : String) : Option (Int × Nat) :=
  match s.splitOn ":" with
  | [k, c] => do pure ((← parseInt k), (← parseNat c))
  | _ => none
def parseBuckets := parseList parseBucket

def renderList {α} (f : α → String) (l : List α) : String :=
  if l.isEmpty then "-" else ",".intercalate (l.map f)

def renderKVs (l : List KV) : String := renderList (fun kv => hexOf kv.1 ++ "=" ++ hexOf kv.2) l
def renderBuckets (l : List (Int × Nat)) : String := renderList (fun kc => s!"{kc.1}:{kc.2}") l

def parseBool (c : Char) : Option Bool := if c == '0' then some false else if c == '1' then some true else none

def parseMType : String → Option MType
  | "c" => some .counter | "g" => some .gauge | "h" => some .histogram | _ => none
def renderMType : MType → String
  | .counter => "c" | .gauge => "g" | .histogram => "h"

def parseDType : String → Option DType
  | "sm" => some .sumMono | "sn" => some .sumNon | "g" => some .gauge | "h" => some .hist | "e" => some .expo | _ => none

def esc := escUnderscore

def nsOf (legacy : Bool) (tok : String) : Option Bytes :=
  if tok == "-" then some [] else (parseHex tok).map (withNamespace esc legacy)

def nonzero (l : List (Int × Nat)) : List (Int × Nat) := l.filter (fun kc => kc.2 != 0)

def renderNative (sumq : Int) (n : Native) : String :=
  s!"{n.count} {sumq} {n.schema} {n.zeroCount} {renderBuckets (nonzero n.pos)} {renderBuckets (nonzero n.neg)}"

def renderOutPayload : OutPayload → String
  | .num q => s!"v {q}"
  | .hist count sumq buckets => s!"h {count} {sumq} {renderBuckets buckets}"
  | .native sumq n => "n " ++ renderNative sumq n

def parseExpo (count scale zc posOff pos negOff neg : String) : Option ExpoDP := do
  pure { scale := ← parseInt scale, zeroCount := ← parseNat zc, posOff := ← parseInt posOff, pos := ← parseNats pos,
         negOff := ← parseInt negOff, neg := ← parseNats neg, count := ← parseNat count }

def parsePayload : List String → Option Payload
  | ["v", q] => do pure (.num (← parseInt q))
  | ["h", count, sumq, bounds, counts] => do
    pure (.hist (← parseNat count) (← parseInt sumq) (← parseInts bounds) (← parseNats counts))
  | ["e", count, sumq, scale, zc, posOff, pos, negOff, neg] => do
    pure (.expo (← parseInt sumq) (← parseExpo count scale zc posOff pos negOff neg))
  | _ => none

def parseOutPayload : List String → Option OutPayload
  | ["v", q] => do pure (.num (← parseInt q))
  | ["h", count, sumq, buckets] => do pure (.hist (← parseNat count) (← parseInt sumq) (← parseBuckets buckets))
  | ["n", count, sumq, schema, zc, pos, neg] => do
    pure (.native (← parseInt sumq) ⟨← parseInt schema, ← parseNat zc, ← parseNat count, ← parseBuckets pos, ← parseBuckets neg⟩)
  | _ => none

def splitOnChar (c : Char) (s : String) : List String := s.splitOn (String.singleton c)

/-- `<q>/<kvs>/<trace hex text>/<span hex text>` -/
def parseExemplar (s : String) : Option Exemplar :=
  match splitOnChar '/' s with
  | [q, kvs, t, sp] => do pure ⟨← parseInt q, ← parseKVs kvs, ← parseHex t, ← parseHex sp⟩
  | _ => none

def parseSlot (s : String) : Option Slot :=
  if s == "c" then some .counter else if s == "inf" then some .inf else (parseInt s).map .bucket
def renderSlot : Slot → String
  | .counter => "c" | .inf => "inf" | .bucket bd => s!"{bd}"

/-- `<slot>/<q>/<kvs>` -/
def parseExOut (s : String) : Option ExOut :=
  match splitOnChar '/' s with
  | [sl, q, kvs] => do pure ⟨← parseSlot sl, ← parseInt q, ← parseKVs kvs⟩
  | _ => none
def renderExOut (e : ExOut) : String := s!"{renderSlot e.slot}/{e.q}/{renderKVs e.labels}"

/-- optional trailing token `E:<item>;<item>…` of a P or M group -/
def splitE (toks : List String) : List String × Option String :=
  match toks.reverse with
  | t :: rest => if t.startsWith "E:" then (rest.reverse, some (t.drop 2).toString) else (toks, none)
  | [] => (toks, none)

def parseEList {α} (f : String → Option α) : Option String → Option (List α)
  | none => some []
  | some s => (splitOnChar ';' s).mapM f

/-- groups after the header → scopes (S/I/P groups) -/
def parseScopes : List (List String) → List Scope → Option (List Scope)
  | [], acc => some acc.reverse
  | g :: gs, acc =>
    match g with
    | ["S", n, v] => do
      let s : Scope := ⟨← parseHex n, ← parseHex v, []⟩
      parseScopes gs (s :: acc)
    | ["I", dt, n, u, d] =>
      match acc with
      | s :: rest => do
        let i : Inst := ⟨← parseDType dt, ← parseHex n, ← parseHex u, ← parseHex d, []⟩
        parseScopes gs ({ s with insts := s.insts ++ [i] } :: rest)
      | [] => none
    | "P" :: kvs :: payload =>
      match acc with
      | s :: rest =>
        match s.insts.reverse with
        | i :: irest => do
          let (payload, e) := splitE payload
          let p : Point := ⟨← parseKVs kvs, ← parsePayload payload, ← parseEList parseExemplar e⟩
          parseScopes gs ({ s with insts := (({ i with points := i.points ++ [p] }) :: irest).reverse } :: rest)
        | [] => none
      | [] => none
    | _ => none

def parseFams : List (List String) → List Family → Option (List Family)
  | [], acc => some acc.reverse
  | g :: gs, acc =>
    match g with
    | ["F", n, t, h] => do
      let f : Family := ⟨← parseHex n, ← parseMType t, ← parseHex h, []⟩
      parseFams gs (f :: acc)
    | "M" :: kvs :: payload =>
      match acc with
      | f :: rest => do
        let (payload, e) := splitE payload
        let s : Series := ⟨← parseKVs kvs, ← parseOutPayload payload, ← parseEList parseExOut e⟩
        parseFams gs ({ f with series := f.series ++ [s] } :: rest)
      | [] => none
    | _ => none

def insertBy {α} (le : α → α → Bool) (x : α) : List α → List α
  | [] => [x]
  | y :: ys => if le x y then x :: y :: ys else y :: insertBy le x ys
def sortBy {α} (le : α → α → Bool) (l : List α) : List α := l.foldr (insertBy le) []

def renderSeries (s : Series) : String :=
  s!"M {renderKVs s.labels} {renderOutPayload s.payload}" ++
    (if s.ex.isEmpty then "" else " E:" ++ ";".intercalate (s.ex.map renderExOut))

def renderFams (err : Bool) (fams : List Family) : String :=
  let fams := sortBy (fun a c => bytesLe a.name c.name) fams
  let parts := fams.flatMap fun f =>
    let ser := sortBy (fun a c => !(c < a)) (f.series.map renderSeries)
    s!"F {hexOf f.name} {renderMType f.typ} {hexOf f.help}" :: ser
  " | ".intercalate ((if err then "err" else "ok") :: parts)

def tag (c : Bool) (t : String) : List String := if c then [t] else []
def tags (l : List String) : String := if l.isEmpty then "-" else ",".intercalate l

def stepName (flags nsTok nameTok unitTok typTok : String) (obs : List String) : Option Verdict := do
  let [l, u, c] := flags.toList | none
  let legacy ← parseBool l
  let cfg : Cfg := ⟨legacy, ← parseBool u, ← parseBool c, ← nsOf legacy nsTok⟩
  let name ← parseHex nameTok
  let unit ← parseHex unitTok
  let typ ← parseMType typTok
  let m := getName esc cfg name unit typ
  let ms := match m with | some r => hexOf r | none => "panic"
  let ref := Spec.refName esc cfg name unit typ
  let [o] := obs | none
  let spec := if o == "panic" then "FAIL" else if o == hexOf ref then "ok" else "FAIL"
  let en := if legacy then esc name else name
  let add := Spec.addsTotal cfg typ
  let br := tag legacy "legacy" ++ tag (en != name) "escaped" ++ tag add "counter" ++
    tag (add && Spec.stripTotal en != en) "trim-total" ++ tag (add && Spec.endsWith en (b "total") && Spec.stripTotal en == en) "keep-total" ++
    tag (add && Spec.stripDelim (Spec.stripTotal en) != Spec.stripTotal en) "trim-delim" ++
    tag (cfg.ns != []) "ns" ++
    (match unitSuffix unit with
     | none => ["unit-unknown"]
     | some _ => if cfg.withoutUnits then ["unit-off"] else
        if Spec.unitPart cfg unit (cfg.ns ++ Spec.core esc cfg name typ) == [] then ["unit-present"] else ["unit-added"])
  pure { agree := ms == o, spec := spec, nontrivial := ref != name, branches := tags br, model := ms }

def stepAttrs (legTok kvTok : String) (obs : List String) : Option Verdict := do
  let [l] := legTok.toList | none
  let legacy ← parseBool l
  let attrs ← parseKVs kvTok
  let [o] := obs | none
  let okv ← parseKVs o
  let m := getAttrs esc legacy attrs
  let m := if legacy then sortKV m else m
  let spec := Spec.labelsMerged (Spec.effEsc esc legacy) attrs okv
  let merged := legacy && m.length < attrs.length
  pure { agree := renderKVs m == o, spec := if spec then "ok" else "FAIL", nontrivial := merged || (legacy && m.map (·.1) != attrs.map (·.1)),
         branches := tags (tag (!legacy) "utf8" ++ tag legacy "legacy" ++ tag merged "merged"), model := renderKVs m }

def stepHist (count sumq bounds counts : String) (obs : List String) : Option Verdict := do
  let count ← parseNat count
  let sumq ← parseInt sumq
  let bounds ← parseInts bounds
  let counts ← parseNats counts
  let m := s!"{count} {sumq} {renderBuckets (histBuckets bounds counts)}"
  let [oc, os, ob] := obs | none
  let oc ← parseNat oc
  let os ← parseInt os
  let ob ← parseBuckets ob
  let spec := os == sumq && Spec.histFaithful bounds counts count oc ob
  pure { agree := m == " ".intercalate obs, spec := if spec then "ok" else "FAIL", nontrivial := counts.sum > 0 && bounds.length > 0,
         branches := tags (tag (bounds.isEmpty) "nobounds" ++ tag (!bounds.isEmpty) "bounds"), model := m }

def stepExpo (count sumq scale zc posOff pos negOff neg : String) (obs : List String) : Option Verdict := do
  let dp ← parseExpo count scale zc posOff pos negOff neg
  let sumq ← parseInt sumq
  let m := expoToNative dp
  let ms := match m with | some n => renderNative sumq n | none => "none"
  let consistent := dp.pos.sum + dp.neg.sum + dp.zeroCount == dp.count && (dp.pos ++ dp.neg).all (· ≤ maxInt64)
  let spec ← match obs with
    | ["none"] => some (if !consistent then "na" else if Spec.F28_applies dp then "KNOWN:F28" else "FAIL")
    | [oc, os, osch, ozc, op, on] => do
      let n : Native := ⟨← parseInt osch, ← parseNat ozc, ← parseNat oc, ← parseBuckets op, ← parseBuckets on⟩
      let osq ← parseInt os
      some (if !consistent then "na" else if osq == sumq && Spec.expoFaithful dp n then "ok" else "FAIL")
    | _ => none
  pure { agree := ms == " ".intercalate obs, spec := spec, nontrivial := m.isSome && dp.count > 0,
         branches := tags (tag (Spec.F28_applies dp) "schema-range" ++ tag (!consistent) "count-mismatch" ++ tag m.isSome "native" ++
           tag (!dp.neg.isEmpty) "neg" ++ tag (dp.zeroCount > 0) "zero"), model := ms }

def parseOps : List (List String) → Option (List Spec.Op)
  | [] => some []
  | [n, d, t] :: r => do pure (((← parseHex n), (← parseHex d), (← parseMType t)) :: (← parseOps r))
  | _ => none

def runVal : List Fam → List Spec.Op → List String
  | _, [] => []
  | fams, (n, d, t) :: r =>
    let (f', drop, help) := validate fams n d t
    s!"{if drop then 1 else 0}:{hexOf help}" :: runVal f' r

/-- reference: decided by the *first* operation with the same name: dropped iff the type differs; else the help is the
first operation's description -/
def refVal : List Spec.Op → List Spec.Op → List String
  | _, [] => []
  | before, (n, d, t) :: r =>
    let s := match before.find? (fun o => o.1 == n) with
      | none => s!"0:{hexOf d}"
      | some (_, d0, t0) => if t0 != t then s!"1:{hexOf []}" else s!"0:{hexOf d0}"
    s :: refVal (before ++ [(n, d, t)]) r

def stepVal (groups : List (List String)) (obs : List String) : Option Verdict := do
  let ops ← parseOps groups
  let m := runVal [] ops
  let r := refVal [] ops
  let conflicts := m.any (fun s => s.startsWith "1")
  let helps := (ops.zip m).any (fun om => om.2.startsWith "0:" && om.2 != s!"0:{hexOf om.1.2.1}")
  pure { agree := m == obs, spec := if r == obs then "ok" else "FAIL", nontrivial := conflicts || helps,
         branches := tags (tag conflicts "type-conflict" ++ tag helps "help-conflict" ++ tag (!conflicts && !helps) "plain"),
         model := " ".intercalate m }

def stepE2E (flags nsTok resTok : String) (groups : List (List String)) (obs : List String) : Option Verdict := do
  -- optional 7th flag: one scrape happened *before* the exporter was registered with a MeterProvider; the observed part
  -- is then `<early scrape> || <scrape>`
  let (l, u, c, s, t, r, early) ← match flags.toList with
    | [l, u, c, s, t, r] => some (l, u, c, s, t, r, false)
    | [l, u, c, s, t, r, e] => (parseBool e).map fun e => (l, u, c, s, t, r, e)
    | _ => none
  let earlyObs := if early then obs.takeWhile (· != "||") else []
  let obs := if early then (obs.dropWhile (· != "||")).drop 1 else obs
  let earlyModel := (let (err, fams) := gather collectNotRegistered; renderFams err fams)
  let earlyAgree := !early || " ".intercalate earlyObs == earlyModel
  -- before registration nothing is configured: nothing may be exposed (no error, no panic)
  let earlyOK := !early || earlyObs == ["ok"]
  let legacy ← parseBool l
  let cfg : Cfg := ⟨legacy, ← parseBool u, ← parseBool c, ← nsOf legacy nsTok⟩
  let scopes ← parseScopes groups []
  let sc : Scenario := ⟨cfg, ← parseBool s, ← parseBool t, ← parseBool r, ← parseKVs resTok, scopes⟩
  let ms := if collectPanics esc sc then "panic" else
    let (err, fams) := gather (collect esc sc)
    renderFams err fams
  let o : Spec.Obs ← match obs with
    | ["panic"] => some ⟨true, false, []⟩
    | _ =>
      match splitGroups obs with
      | [e] :: fg => do
        let fams ← parseFams fg []
        if e == "ok" then some ⟨false, false, fams⟩ else if e == "err" then some ⟨false, true, fams⟩ else none
      | _ => none
  let spec := if !earlyOK then "FAIL" else Spec.promOK esc sc o
  let insts := Spec.allInsts sc
  let dts := (insts.map (fun si => match si.2.dtype with
    | .sumMono => "counter" | .sumNon => "updown" | .gauge => "gauge" | .hist => "hist" | .expo => "expo")).eraseDups
  let names := insts.map (fun si => Spec.refName esc cfg si.2.name si.2.unit si.2.dtype.mtype)
  let conflict := names.eraseDups.length < names.length
  let merged := legacy && insts.any (fun si => si.2.points.any (fun p => (getAttrsLegacy esc p.attrs).length < p.attrs.length))
  let pts := insts.flatMap (fun si => si.2.points.map (fun p => (si.2.dtype, p)))
  let exPts := pts.filter (fun dp => !dp.2.exemplars.isEmpty && (dp.1 == DType.sumMono || dp.1 == DType.hist))
  let exRej := exPts.any (fun dp => (promExemplars esc legacy dp.2.exemplars).isNone)
  let exAcc := exPts.any (fun dp => (promExemplars esc legacy dp.2.exemplars).isSome)
  let exInf := exPts.any (fun dp => match dp.2.payload with
    | .hist _ _ bounds _ => dp.2.exemplars.any (fun e => bucketSlot bounds e.q == Slot.inf)
    | _ => false)
  let br := dts ++ tag exAcc "exemplar-accepted" ++ tag exRej "exemplar-rejected" ++ tag exInf "exemplar-inf" ++
    tag legacy "legacy" ++ tag conflict "same-family" ++ tag merged "merged" ++ tag sc.noScope "noscope" ++
    tag sc.noTarget "notarget" ++ tag sc.resConst "resconst" ++ tag (cfg.ns != []) "ns" ++ tag (scopes.length > 1) "scopes2"
  pure { agree := earlyAgree && ms == " ".intercalate obs, spec := spec, nontrivial := !insts.isEmpty,
         branches := tags (br ++ tag early "early-scrape"), model := (if early then earlyModel ++ " || " else "") ++ ms }

def step (_ : Unit) (toks : List String) : Unit × Option Verdict :=
  let (inp, obs) := splitObs toks
  let v : Option Verdict :=
    match inp with
    | ["name", _, flags, ns, name, unit, typ] => stepName flags ns name unit typ obs
    | ["attrs", _, leg, kvs] => stepAttrs leg kvs obs
    | ["hist", _, count, sumq, bounds, counts] => stepHist count sumq bounds counts obs
    | ["expo", _, count, sumq, scale, zc, posOff, pos, negOff, neg] => stepExpo count sumq scale zc posOff pos negOff neg obs
    | "val" :: _ :: rest =>
      match splitGroups rest with
      | [] :: groups => stepVal groups obs
      | _ => none
    | "e2e" :: _ :: flags :: ns :: res :: rest =>
      match splitGroups rest with
      | [] :: groups => stepE2E flags ns res groups obs
      | _ => none
    | ["race", gen, _] =>
      -- observation only: anything but `ok` (a data race report, a panic, a hang) fails. Round `coldres` = concurrent
      -- *first* scrapes with WithResourceAsConstantLabels, the witness of F35 (fixed in /repo d3bd916).
      let spec := if obs == ["ok"] then "ok" else "FAIL"
      some { agree := true, spec := spec, nontrivial := true, branches := if gen == "coldres" then "race-cold" else "race", model := "ok" }
    | _ => none
  ((), v)

end Otel.C18.Drv

def main : IO Unit := Wire.run () Otel.C18.Drv.step
