/-
C18 — lemmas about the Collect model as a whole (provenance of everything sent, one help/type per family, the registry
model accepts consistent input). Helper file for Props.lean.
-/
import Otel.C18.Legal
namespace Otel.C18
open Otel Otel.C18

theorem collectInsts_consistent (esc : Bytes → Bytes) (cfg : Cfg) (extra : List KV) :
    ∀ (insts : List Inst) (fams : List Fam), ∀ e ∈ (collectInsts esc cfg extra fams insts).2,
      (collectInsts esc cfg extra fams insts).1.find? (fun f => f.name == e.name) = some ⟨e.name, e.help, e.typ⟩ := by
  intro insts
  induction insts with
  | nil => intro fams e he; simp [collectInsts] at he
  | cons i rest ih =>
    intro fams e he
    unfold collectInsts at he ⊢
    simp only at he ⊢
    cases hn : getName esc cfg i.name i.unit i.dtype.mtype with
    | none => simp [hn] at he
    | some name =>
      simp only [hn] at he ⊢
      cases hv : validate fams name i.desc i.dtype.mtype with
      | mk fams' dh =>
        cases dh with
        | mk drop help =>
          simp only [hv] at he ⊢
          cases drop with
          | true => simp only [if_true] at he ⊢; exact ih fams' e he
          | false =>
            simp only [Bool.false_eq_true, if_false] at he ⊢
            rcases List.mem_append.mp he with h1 | h2
            · -- sent for this instrument: name/help/type are the cache entry just validated, which persists
              obtain ⟨p, _, hp⟩ := List.mem_filterMap.mp h1
              have hfields : e.name = name ∧ e.help = help ∧ e.typ = i.dtype.mtype := emitPoint_fields hp
              obtain ⟨e1, e2, e3⟩ := hfields
              rw [e1, e2, e3]
              have hentry : fams'.find? (fun f => f.name == name) = some ⟨name, help, i.dtype.mtype⟩ := by
                have := validate_entry fams name i.desc i.dtype.mtype
                rw [hv] at this; exact this rfl
              exact collectInsts_find_some esc cfg extra name _ rest fams' hentry
            · exact ih fams' e h2


theorem collectInsts_provenance (esc : Bytes → Bytes) (cfg : Cfg) (extra : List KV) :
    ∀ (insts : List Inst) (fams : List Fam), ∀ e ∈ (collectInsts esc cfg extra fams insts).2,
      ∃ i ∈ insts, ∃ p ∈ i.points, FromPoint esc cfg extra i p e := by
  intro insts
  induction insts with
  | nil => intro fams e he; simp [collectInsts] at he
  | cons i rest ih =>
    intro fams e he
    unfold collectInsts at he
    simp only at he
    cases hn : getName esc cfg i.name i.unit i.dtype.mtype with
    | none => simp [hn] at he
    | some name =>
      simp only [hn] at he
      cases hv : validate fams name i.desc i.dtype.mtype with
      | mk fams' dh =>
        cases dh with
        | mk drop help =>
          simp only [hv] at he
          cases drop with
          | true =>
            simp only [if_true] at he
            obtain ⟨i', hi', p, hp, hf⟩ := ih fams' e he
            exact ⟨i', List.mem_cons_of_mem _ hi', p, hp, hf⟩
          | false =>
            simp only [Bool.false_eq_true, if_false] at he
            rcases List.mem_append.mp he with h1 | h2
            · obtain ⟨p, hp, hpe⟩ := List.mem_filterMap.mp h1
              exact ⟨i, by simp, p, hp, name, help, hn, hpe⟩
            · obtain ⟨i', hi', p, hp, hf⟩ := ih fams' e h2
              exact ⟨i', List.mem_cons_of_mem _ hi', p, hp, hf⟩

theorem scopesFams_find_some (esc : Bytes → Bytes) (sc : Scenario) (resKV : List KV) (n : Bytes) (f : Fam) :
    ∀ (scopes : List Scope) (fams : List Fam), fams.find? (fun f => f.name == n) = some f →
      (scopesFams esc sc resKV fams scopes).find? (fun f => f.name == n) = some f := by
  intro scopes
  induction scopes with
  | nil => intro fams h; simpa [scopesFams] using h
  | cons s rest ih =>
    intro fams h
    unfold scopesFams
    split
    · exact ih fams h
    · exact ih _ (collectInsts_find_some esc sc.cfg _ n f s.insts fams h)

/-- everything the scope loop sends is a scope info metric (only with scope info enabled) or comes from a data point;
in the second case the final family cache holds its name with its help and type -/
theorem collectScopes_provenance (esc : Bytes → Bytes) (sc : Scenario) (resKV : List KV) :
    ∀ (scopes : List Scope) (fams : List Fam), ∀ e ∈ collectScopes esc sc resKV fams scopes,
      (sc.noScope = false ∧ ∃ s ∈ scopes, scopeInfoMetric esc sc.cfg.legacy s = some e) ∨
      ((∃ s ∈ scopes, ∃ i ∈ s.insts, ∃ p ∈ i.points, FromPoint esc sc.cfg (scopeExtra sc resKV s) i p e) ∧
        (scopesFams esc sc resKV fams scopes).find? (fun f => f.name == e.name) = some ⟨e.name, e.help, e.typ⟩) := by
  intro scopes
  induction scopes with
  | nil => intro fams e he; simp [collectScopes] at he
  | cons s rest ih =>
    intro fams e he
    unfold collectScopes at he
    unfold scopesFams
    by_cases hsk : scopeSkipped esc sc s = true
    · simp only [hsk, if_true] at he ⊢
      rcases ih fams e he with ⟨h1, s', hs', h2⟩ | ⟨⟨s', hs', h2⟩, h3⟩
      · exact Or.inl ⟨h1, s', List.mem_cons_of_mem _ hs', h2⟩
      · exact Or.inr ⟨⟨s', List.mem_cons_of_mem _ hs', h2⟩, h3⟩
    · simp only [hsk, Bool.false_eq_true, if_false] at he ⊢
      rcases List.mem_append.mp he with h12 | h3
      · rcases List.mem_append.mp h12 with h1 | h2
        · -- the scope info metric
          by_cases hns : sc.noScope = true
          · simp [hns] at h1
          · have hns' : sc.noScope = false := by simpa using hns
            simp only [hns', Bool.false_eq_true, if_false, Option.mem_toList] at h1
            exact Or.inl ⟨hns', s, by simp, h1⟩
        · obtain ⟨i, hi, p, hp, hf⟩ := collectInsts_provenance esc sc.cfg _ s.insts fams e h2
          refine Or.inr ⟨⟨s, by simp, i, hi, p, hp, hf⟩, ?_⟩
          exact scopesFams_find_some esc sc resKV e.name _ rest _
            (collectInsts_consistent esc sc.cfg _ s.insts fams e h2)
      · rcases ih _ e h3 with ⟨h1, s', hs', h2⟩ | ⟨⟨s', hs', h2⟩, h4⟩
        · exact Or.inl ⟨h1, s', List.mem_cons_of_mem _ hs', h2⟩
        · exact Or.inr ⟨⟨s', List.mem_cons_of_mem _ hs', h2⟩, h4⟩

/-! ### the registry model accepts consistent input -/

/-- what the registry requires of two metrics of one scrape -/
def Compat (a c : Emitted) : Prop :=
  a.name = c.name → a.help = c.help ∧ a.typ = c.typ ∧ sortKV a.labels ≠ sortKV c.labels

structure GInv (pre : List Emitted) (st : Bool × List Family) : Prop where
  noerr : st.1 = false
  fam : ∀ f ∈ st.2, ∃ m ∈ pre, m.name = f.name ∧ m.help = f.help ∧ m.typ = f.typ
  ser : ∀ f ∈ st.2, ∀ t ∈ f.series, ∃ m ∈ pre, m.name = f.name ∧ sortKV m.labels = t.labels

theorem gatherStep_inv (pre : List Emitted) (st : Bool × List Family) (m : Emitted) (hinv : GInv pre st)
    (hc : ∀ a ∈ pre, Compat a m) : GInv (pre ++ [m]) (gatherStep st m) := by
  obtain ⟨err, fams⟩ := st
  obtain ⟨h0, h1, h2⟩ := hinv
  simp only at h0 h1 h2
  subst h0
  unfold gatherStep
  simp only
  cases hf : fams.find? (fun f => f.name == m.name) with
  | none =>
    refine ⟨rfl, ?_, ?_⟩
    · intro f hfm
      rcases List.mem_append.mp hfm with h | h
      · obtain ⟨a, ha, hh⟩ := h1 f h
        exact ⟨a, List.mem_append_left _ ha, hh⟩
      · simp only [List.mem_singleton] at h; subst h
        exact ⟨m, by simp, rfl, rfl, rfl⟩
    · intro f hfm t ht
      rcases List.mem_append.mp hfm with h | h
      · obtain ⟨a, ha, hh⟩ := h2 f h t ht
        exact ⟨a, List.mem_append_left _ ha, hh⟩
      · simp only [List.mem_singleton] at h; subst h
        simp only [List.mem_singleton] at ht; subst ht
        exact ⟨m, by simp, rfl, rfl⟩
  | some f =>
    have hfm : f ∈ fams := List.mem_of_find?_eq_some hf
    have hfn : f.name = m.name := by simpa using List.find?_some hf
    obtain ⟨a, ha, han, hah, hat⟩ := h1 f hfm
    have hcomp := hc a ha (han.trans hfn)
    have hhelp : f.help = m.help := hah ▸ hcomp.1
    have htyp : f.typ = m.typ := hat ▸ hcomp.2.1
    have hnodup : (f.series.any fun t => t.labels == sortKV m.labels) = false := by
      rw [Bool.eq_false_iff]
      intro hany
      obtain ⟨t, ht, hl⟩ := List.any_eq_true.mp hany
      obtain ⟨a', ha', han', hal'⟩ := h2 f hfm t ht
      exact (hc a' ha' (han'.trans hfn)).2.2 (hal'.trans (by simpa using hl))
    simp only [hhelp, htyp, bne_self_eq_false, hnodup, Bool.or_self, Bool.false_eq_true, if_false]
    refine ⟨rfl, ?_, ?_⟩
    · intro g hg
      obtain ⟨g0, hg0, hgg⟩ := List.mem_map.mp hg
      obtain ⟨a0, ha0, hh⟩ := h1 g0 hg0
      refine ⟨a0, List.mem_append_left _ ha0, ?_⟩
      split at hgg <;> (subst hgg; exact hh)
    · intro g hg t ht
      obtain ⟨g0, hg0, hgg⟩ := List.mem_map.mp hg
      split at hgg
      · rename_i hname
        subst hgg
        simp only at ht
        rcases List.mem_append.mp ht with h | h
        · obtain ⟨a0, ha0, hh⟩ := h2 g0 hg0 t h
          exact ⟨a0, List.mem_append_left _ ha0, hh⟩
        · simp only [List.mem_singleton] at h; subst h
          exact ⟨m, by simp, by simpa using (eq_of_beq hname).symm, rfl⟩
      · subst hgg
        obtain ⟨a0, ha0, hh⟩ := h2 g0 hg0 t ht
        exact ⟨a0, List.mem_append_left _ ha0, hh⟩

theorem gather_fold_inv : ∀ (ms pre : List Emitted) (st : Bool × List Family), GInv pre st →
    (pre ++ ms).Pairwise Compat → GInv (pre ++ ms) (ms.foldl gatherStep st)
  | [], pre, st, h, _ => by simpa using h
  | m :: rest, pre, st, h, hp => by
    have hc : ∀ a ∈ pre, Compat a m := by
      intro a ha
      have := List.pairwise_append.mp hp
      exact this.2.2 a ha m (by simp)
    have h' := gatherStep_inv pre st m h hc
    have hp' : (pre ++ [m] ++ rest).Pairwise Compat := by simpa [List.append_assoc] using hp
    have := gather_fold_inv rest (pre ++ [m]) _ h' hp'
    simpa [List.append_assoc] using this

theorem pairwise_compat_of (ms : List Emitted)
    (hcons : ∀ a ∈ ms, ∀ c ∈ ms, a.name = c.name → a.help = c.help ∧ a.typ = c.typ)
    (hd : Spec.distinctSeries ms = true) : ms.Pairwise Compat := by
  induction ms with
  | nil => exact List.Pairwise.nil
  | cons m r ih =>
    unfold Spec.distinctSeries at hd
    simp only [Bool.and_eq_true, List.all_eq_true, Bool.not_eq_true', Bool.and_eq_false_iff] at hd
    refine List.pairwise_cons.mpr ⟨?_, ih (fun a ha c hc => hcons a (by simp [ha]) c (by simp [hc])) hd.2⟩
    intro c hc hname
    have h1 := hcons m (by simp) c (by simp [hc]) hname
    refine ⟨h1.1, h1.2, ?_⟩
    intro hl
    rcases hd.1 c hc with h | h
    · rw [beq_eq_false_iff_ne] at h; exact h hname.symm
    · rw [beq_eq_false_iff_ne] at h; exact h hl.symm

/-- Registry.Gather (as modelled) reports no error when all metrics of a family agree on help and type and no two
have the same label set -/
theorem gather_accepts (ms : List Emitted)
    (hcons : ∀ a ∈ ms, ∀ c ∈ ms, a.name = c.name → a.help = c.help ∧ a.typ = c.typ)
    (hd : Spec.distinctSeries ms = true) : (gather ms).1 = false := by
  have h := gather_fold_inv ms [] (false, []) ⟨rfl, by simp, by simp⟩ (by simpa using pairwise_compat_of ms hcons hd)
  exact h.noerr

theorem emitPoint_labels {esc : Bytes → Bytes} {legacy : Bool} {name help : Bytes} {typ : MType} {extra : List KV}
    {p : Point} {e : Emitted} (h : emitPoint esc legacy name help typ extra p = some e) :
    e.labels = getAttrs esc legacy p.attrs ++ extra := by
  unfold emitPoint at h
  simp only at h
  split at h
  · cases h
  · cases hp : p.payload with
    | num q => simp only [hp, Option.some.injEq] at h; subst h; rfl
    | hist c sq bs cs => simp only [hp, Option.some.injEq] at h; subst h; rfl
    | expo sq dp =>
      simp only [hp, Option.map_eq_some_iff] at h
      obtain ⟨n, _, hn⟩ := h
      subst hn; rfl

theorem scopeInfo_fields {esc : Bytes → Bytes} {legacy : Bool} {s : Scope} {e : Emitted}
    (h : scopeInfoMetric esc legacy s = some e) :
    e.name = b "otel_scope_info" ∧ e.help = b "Instrumentation Scope metadata" ∧ e.typ = MType.gauge ∧
    e.payload = OutPayload.num 4 ∧
    e.labels = getAttrs esc legacy (scopeInfoAttrs s.key) := by
  unfold scopeInfoMetric scopeInfoOfKey at h
  simp only at h
  split at h
  · simp only [Option.some.injEq] at h; subst h; exact ⟨rfl, rfl, rfl, rfl, rfl⟩
  · cases h

theorem collectScopes_scopeinfo_mem (esc : Bytes → Bytes) (sc : Scenario) (resKV : List KV) (hns : sc.noScope = false) :
    ∀ (scopes : List Scope) (fams : List Fam), ∀ s ∈ scopes, ∀ si, scopeInfoMetric esc sc.cfg.legacy s = some si →
      si ∈ collectScopes esc sc resKV fams scopes := by
  intro scopes
  induction scopes with
  | nil => intro fams s hs; simp at hs
  | cons s0 rest ih =>
    intro fams s hs si hsi
    unfold collectScopes
    rcases List.mem_cons.mp hs with rfl | hs'
    · have hsk : scopeSkipped esc sc s = false := by unfold scopeSkipped; simp [hsi]
      simp only [hsk, Bool.false_eq_true, if_false, hns, hsi, Option.toList_some]
      simp
    · split
      · exact ih fams s hs' si hsi
      · exact List.mem_append_right _ (ih _ s hs' si hsi)

/-! ### placement of accepted exemplars on histogram buckets -/

theorem getLast?_mem {α : Type} : ∀ (l : List α) (a : α), l.getLast? = some a → a ∈ l
  | [], _, h => by simp at h
  | [x], a, h => by simp at h; simp [h]
  | x :: y :: r, a, h => by
    rw [List.getLast?_cons_cons] at h
    exact List.mem_cons_of_mem _ (getLast?_mem (y :: r) a h)

theorem bucketSlot_cases (bounds : List Int) (q : Int) :
    bucketSlot bounds q = Slot.inf ∨ ∃ bd ∈ bounds, bucketSlot bounds q = Slot.bucket bd := by
  unfold bucketSlot
  cases h : bounds.find? (fun bd => decide (bd ≥ q)) with
  | none => exact Or.inl rfl
  | some bd => exact Or.inr ⟨bd, List.mem_of_find?_eq_some h, rfl⟩

abbrev exOf (bounds : List Int) (e : Int × List KV) : ExOut := ⟨bucketSlot bounds e.1, e.1, sortKV e.2⟩

theorem placeHist_sound (bounds : List Int) (ls : List (Int × List KV)) :
    ∀ o ∈ placeHist bounds ls, ∃ e ∈ ls, o = exOf bounds e := by
  intro o ho
  unfold placeHist at ho
  rcases List.mem_append.mp ho with h | h
  · obtain ⟨bd, _, hbd⟩ := List.mem_filterMap.mp h
    simp only [Option.map_eq_some_iff] at hbd
    obtain ⟨e, hlast, he⟩ := hbd
    have hm := getLast?_mem _ e hlast
    obtain ⟨h1, h2⟩ := List.mem_filter.mp hm
    refine ⟨e, h1, ?_⟩
    rw [← he]
    simp only [exOf, eq_of_beq h2]
  · obtain ⟨e, hm, he⟩ := List.mem_map.mp h
    obtain ⟨h1, h2⟩ := List.mem_filter.mp hm
    refine ⟨e, h1, ?_⟩
    rw [← he]
    simp only [exOf, eq_of_beq h2]

theorem placeHist_complete (bounds : List Int) (ls : List (Int × List KV)) :
    ∀ e ∈ ls, ∃ o ∈ placeHist bounds ls, o.slot = bucketSlot bounds e.1 := by
  intro e he
  unfold placeHist
  rcases bucketSlot_cases bounds e.1 with hinf | ⟨bd, hbd, hb⟩
  · refine ⟨⟨Slot.inf, e.1, sortKV e.2⟩, List.mem_append_right _ ?_, hinf.symm⟩
    exact List.mem_map.mpr ⟨e, List.mem_filter.mpr ⟨he, by simp [hinf]⟩, rfl⟩
  · have hmem : e ∈ ls.filter (fun e => bucketSlot bounds e.1 == Slot.bucket bd) :=
      List.mem_filter.mpr ⟨he, by simp [hb]⟩
    cases hl : (ls.filter (fun e => bucketSlot bounds e.1 == Slot.bucket bd)).getLast? with
    | none => rw [List.getLast?_eq_none_iff] at hl; rw [hl] at hmem; simp at hmem
    | some e' =>
      refine ⟨⟨Slot.bucket bd, e'.1, sortKV e'.2⟩, List.mem_append_left _ ?_, hb.symm⟩
      exact List.mem_filterMap.mpr ⟨bd, hbd, by simp [hl]⟩

theorem placeHist_inf_count (bounds : List Int) (ls : List (Int × List KV)) :
    ((placeHist bounds ls).filter (fun o => o.slot == Slot.inf)).length =
      (ls.filter (fun e => bucketSlot bounds e.1 == Slot.inf)).length := by
  unfold placeHist
  rw [List.filter_append]
  have h1 : (List.filterMap (fun bd =>
      ((ls.filter fun e => bucketSlot bounds e.1 == Slot.bucket bd).getLast?).map
        fun e => (⟨Slot.bucket bd, e.1, sortKV e.2⟩ : ExOut)) bounds).filter (fun o => o.slot == Slot.inf) = [] := by
    rw [List.filter_eq_nil_iff]
    intro o ho
    obtain ⟨bd, _, hbd⟩ := List.mem_filterMap.mp ho
    simp only [Option.map_eq_some_iff] at hbd
    obtain ⟨e, _, he⟩ := hbd
    rw [← he]; simp
  have h2 : ((ls.filter fun e => bucketSlot bounds e.1 == Slot.inf).map
      fun e => (⟨Slot.inf, e.1, sortKV e.2⟩ : ExOut)).filter (fun o => o.slot == Slot.inf) =
      (ls.filter fun e => bucketSlot bounds e.1 == Slot.inf).map fun e => (⟨Slot.inf, e.1, sortKV e.2⟩ : ExOut) := by
    rw [List.filter_eq_self]
    intro o ho
    obtain ⟨e, _, he⟩ := List.mem_map.mp ho
    rw [← he]; simp
  rw [h1, h2, List.nil_append, List.length_map]

theorem nodupSlots_iff : ∀ l : List Slot, Spec.nodupSlots l = true ↔ l.Nodup
  | [] => by simp [Spec.nodupSlots]
  | k :: ks => by
    simp only [Spec.nodupSlots, Bool.and_eq_true, Bool.not_eq_true', List.nodup_cons, nodupSlots_iff ks]
    constructor
    · rintro ⟨h1, h2⟩
      refine ⟨?_, h2⟩
      intro hm
      have := List.contains_iff_mem.mpr hm
      rw [h1] at this; exact Bool.noConfusion this
    · rintro ⟨h1, h2⟩
      refine ⟨?_, h2⟩
      rw [Bool.eq_false_iff]
      intro hc
      exact h1 (List.contains_iff_mem.mp hc)

theorem filterMap_bucket_nodup (G : Int → Option Slot) (hG : ∀ bd x, G bd = some x → x = Slot.bucket bd) :
    ∀ bounds : List Int, bounds.Nodup → (bounds.filterMap G).Nodup
  | [], _ => by simp
  | bd :: r, h => by
    have ⟨hbd, hr⟩ := List.nodup_cons.mp h
    rw [List.filterMap_cons]
    cases hg : G bd with
    | none => exact filterMap_bucket_nodup G hG r hr
    | some x =>
      simp only
      refine List.nodup_cons.mpr ⟨?_, filterMap_bucket_nodup G hG r hr⟩
      intro hx
      obtain ⟨bd', hbd', hg'⟩ := List.mem_filterMap.mp hx
      have e1 := hG bd x hg
      have e2 := hG bd' x hg'
      rw [e1] at e2
      simp only [Slot.bucket.injEq] at e2
      exact hbd (e2 ▸ hbd')

theorem placeHist_slots_nodup (bounds : List Int) (ls : List (Int × List KV)) (hb : bounds.Nodup) :
    Spec.nodupSlots (((placeHist bounds ls).filter (fun o => o.slot != Slot.inf)).map (·.slot)) = true := by
  rw [nodupSlots_iff]
  unfold placeHist
  rw [List.filter_append]
  have h2 : ((ls.filter fun e => bucketSlot bounds e.1 == Slot.inf).map
      fun e => (⟨Slot.inf, e.1, sortKV e.2⟩ : ExOut)).filter (fun o => o.slot != Slot.inf) = [] := by
    rw [List.filter_eq_nil_iff]
    intro o ho
    obtain ⟨e, _, he⟩ := List.mem_map.mp ho
    rw [← he]; simp
  have h1 : (List.filterMap (fun bd =>
      ((ls.filter fun e => bucketSlot bounds e.1 == Slot.bucket bd).getLast?).map
        fun e => (⟨Slot.bucket bd, e.1, sortKV e.2⟩ : ExOut)) bounds).filter (fun o => o.slot != Slot.inf) =
      List.filterMap (fun bd =>
      ((ls.filter fun e => bucketSlot bounds e.1 == Slot.bucket bd).getLast?).map
        fun e => (⟨Slot.bucket bd, e.1, sortKV e.2⟩ : ExOut)) bounds := by
    rw [List.filter_eq_self]
    intro o ho
    obtain ⟨bd, _, hbd⟩ := List.mem_filterMap.mp ho
    simp only [Option.map_eq_some_iff] at hbd
    obtain ⟨e, _, he⟩ := hbd
    rw [← he]; simp
  rw [h1, h2, List.append_nil, List.map_filterMap]
  apply filterMap_bucket_nodup _ _ bounds hb
  intro bd x hx
  simp only [Option.map_map, Option.map_eq_some_iff] at hx
  obtain ⟨e, _, he⟩ := hx
  exact he.symm

end Otel.C18
