/-
C18 — generated tie.  `Otel.Gen.C18` is regenerated from /repo's current source by tools/go2lean on every run of
bin/check (checks/gentie.json); the theorems below are re-checked against the regenerated text.
Sites (exporters/prometheus/exporter.go): the metric/label name constants, the character-class predicate
`convertsToUnderscore` (translated as a Boolean function over the rune value), and `collector.validateMetrics` as a
decision skeleton over `exist`, `emf.GetType() != *metricType`, `emf.GetHelp() != description` whose leaves carry
the returned (drop, help) pair and the path's effects.  Tied to `Otel.C18.convertsToUnderscore`, `counterSuffix`,
`validate` (Model.lean).
-/
import Otel.Gen.C18
import Otel.C18.Model

namespace Otel.C18.GenTie
open Otel Otel.C18

/-- `convertsToUnderscore` as written today is the model's predicate, on every byte -/
theorem gen_converts_to_underscore_eq_model (c : UInt8) :
    Otel.Gen.C18.convertsToUnderscore (c.toNat : Int) = convertsToUnderscore c := by
  unfold Otel.Gen.C18.convertsToUnderscore convertsToUnderscore
  generalize c.toNat = n
  rw [Bool.eq_iff_iff]
  simp
  omega

/-- … i.e. true exactly outside [a-zA-Z0-9:] -/
theorem gen_converts_to_underscore_iff (r : Int) :
    Otel.Gen.C18.convertsToUnderscore r = true ↔
      ¬ ((97 ≤ r ∧ r ≤ 122) ∨ (65 ≤ r ∧ r ≤ 90) ∨ r = 58 ∨ (48 ≤ r ∧ r ≤ 57)) := by
  unfold Otel.Gen.C18.convertsToUnderscore
  simp
  omega

/-- the names the model and the specification use for the info metrics, scope labels and the counter suffix -/
theorem gen_names_eq_model :
    b Otel.Gen.C18.counterSuffix = counterSuffix ∧
    Otel.Gen.C18.targetInfoMetricName = "target_info" ∧ Otel.Gen.C18.targetInfoDescription = "Target metadata" ∧
    Otel.Gen.C18.scopeInfoMetricName = "otel_scope_info" ∧
    Otel.Gen.C18.scopeInfoDescription = "Instrumentation Scope metadata" ∧
    Otel.Gen.C18.scopeNameLabel = "otel_scope_name" ∧ Otel.Gen.C18.scopeVersionLabel = "otel_scope_version" ∧
    Otel.Gen.C18.traceIDExemplarKey = "trace_id" ∧ Otel.Gen.C18.spanIDExemplarKey = "span_id" := by decide

/-- the decision table of `validateMetrics` -/
theorem gen_validate_table (known typeConflict helpConflict : Bool) :
    Otel.Gen.C18.validateMetrics known typeConflict helpConflict =
      (if !known then ("keep,description", ["lock", "deferUnlock", "register(name,description,type)"])
       else if typeConflict then ("drop,\"\"", ["lock", "deferUnlock", "logTypeConflict"])
       else if helpConflict then ("keep,existingHelp", ["lock", "deferUnlock", "logHelpConflict"])
       else ("keep,description", ["lock", "deferUnlock"])) := by
  cases known <;> cases typeConflict <;> cases helpConflict <;> rfl

/-- what a leaf does in the model: (family cache, drop, help) -/
def interpValidate (leaf : String × List String) (fams : List Fam) (name desc : Bytes) (typ : MType) (emfHelp : Bytes) :
    List Fam × Bool × Bytes :=
  if leaf.1 = "drop,\"\"" then (fams, true, [])
  else if leaf.1 = "keep,existingHelp" then (fams, false, emfHelp)
  else if "register(name,description,type)" ∈ leaf.2 then (fams ++ [⟨name, desc, typ⟩], false, desc)
  else (fams, false, desc)

/-- `validateMetrics` as written today is the model's `validate`: a new family is registered with the offered
description and type; a type conflict drops the metric; a description conflict keeps the first description -/
theorem gen_validate_eq_model (fams : List Fam) (name desc : Bytes) (typ : MType) :
    validate fams name desc typ =
      (match fams.find? (fun f => f.name == name) with
       | none => interpValidate (Otel.Gen.C18.validateMetrics false false false) fams name desc typ []
       | some emf => interpValidate (Otel.Gen.C18.validateMetrics true (emf.typ != typ) (emf.help != desc)) fams name desc typ emf.help) := by
  unfold validate
  cases h : fams.find? (fun f => f.name == name) with
  | none => simp [gen_validate_table, interpValidate]
  | some emf =>
    simp only [gen_validate_table]
    cases h1 : (emf.typ != typ) <;> cases h2 : (emf.help != desc) <;> simp [interpValidate]

/-- every entry of the map literal `unitSuffixes` is an entry of the model's `unitTable` (same suffix), and the two have
the same number of entries — the literal and `unitSuffix` are the same finite map -/
theorem gen_unit_suffixes_eq_model :
    (∀ e ∈ Otel.Gen.C18.unitSuffixes, unitSuffix (b e.1) = some (b e.2)) ∧
    Otel.Gen.C18.unitSuffixes.length = unitTable.length ∧
    (∀ e ∈ unitTable, (Otel.Gen.C18.unitSuffixes.map (fun x => b x.1)).contains e.1 = true) := by decide

/-! ### collector.scopeInfo: the two scope-info caches -/

/-- `scopeInfo`: a cached metric is returned as it is; a scope remembered as invalid fails without a new attempt;
otherwise the metric is created once — a failure is remembered in the invalid cache, a success in the valid one — all
under the collector lock -/
theorem gen_scope_info_table (hitValid hitInvalid createFails : Bool) :
    Otel.Gen.C18.scopeInfo hitValid hitInvalid createFails =
      (if hitValid then ("scopeInfo", ["lock", "deferUnlock", "lookupValid"])
       else if hitInvalid then ("errScopeInvalid", ["lock", "deferUnlock", "lookupValid"])
       else if createFails then ("errCreate", ["lock", "deferUnlock", "lookupValid", "create", "rememberInvalid"])
       else ("scopeInfo", ["lock", "deferUnlock", "lookupValid", "create", "cache"])) := by
  cases hitValid <;> cases hitInvalid <;> cases createFails <;> rfl

/-- what a leaf does to the model's collector state -/
def interpScopeInfo (leaf : String × List String) (st : CState) (k : ScopeKey) (made : Option Emitted) (cached : Option Emitted) :
    CState × Option Emitted :=
  if leaf.2.contains "rememberInvalid" then ({ st with scopeInvalid := k :: st.scopeInvalid }, none)
  else if leaf.2.contains "cache" then
    (match made with | some m => ({ st with scopeInfos := (k, m) :: st.scopeInfos }, some m) | none => (st, none))
  else if leaf.1 = "scopeInfo" then (st, cached) else (st, none)

/-- `scopeInfo` as written today is the model's `scopeInfoCached` -/
theorem gen_scope_info_eq_model (esc : Bytes → Bytes) (legacy : Bool) (st : CState) (s : Scope) :
    scopeInfoCached esc legacy st s =
      interpScopeInfo
        (Otel.Gen.C18.scopeInfo (st.scopeInfos.lookup s.key).isSome (st.scopeInvalid.contains s.key)
          (scopeInfoOfKey esc legacy s.key).isNone)
        st s.key (scopeInfoOfKey esc legacy s.key) (st.scopeInfos.lookup s.key) := by
  rw [gen_scope_info_table]
  unfold scopeInfoCached interpScopeInfo
  cases h1 : st.scopeInfos.lookup s.key <;> cases h2 : st.scopeInvalid.contains s.key <;>
    cases h3 : scopeInfoOfKey esc legacy s.key <;> simp

end Otel.C18.GenTie
