/-
C18 — helper lemmas for Props.lean.
-/
import Otel.C18.Spec
namespace Otel.C18
open Otel Otel.C18

/-! ### suffixes -/

theorem hasSuffix_iff (s suf : Bytes) : hasSuffix s suf = true ↔ suf <:+ s := by
  unfold hasSuffix
  rw [List.suffix_iff_eq_drop]
  constructor
  · intro h; exact (eq_of_beq h).symm
  · intro h; rw [← h]; exact beq_self_eq_true _

theorem endsWith_iff (s suf : Bytes) : Spec.endsWith s suf = true ↔ suf <:+ s := by
  unfold Spec.endsWith
  rw [List.isPrefixOf_iff_prefix, List.reverse_prefix]

theorem hasSuffix_eq_endsWith (s suf : Bytes) : hasSuffix s suf = Spec.endsWith s suf := by
  rw [Bool.eq_iff_iff, hasSuffix_iff, endsWith_iff]

theorem convertsToUnderscore_eq (c : UInt8) : convertsToUnderscore c = Spec.isDelim c := by
  unfold convertsToUnderscore Spec.isDelim Spec.isLetterDigitColon
  generalize c.toNat = n
  rw [Bool.eq_iff_iff]
  simp only [Bool.and_eq_true, Bool.or_eq_true, decide_eq_true_eq, bne_iff_ne, ne_eq, Bool.not_eq_true',
    Bool.or_eq_false_iff, Bool.and_eq_false_iff, decide_eq_false_iff_not, beq_eq_false_iff_ne]
  omega

theorem total_length : counterSuffix.length = 5 := by decide

theorem trimTotal_eq (n : Bytes) : trimTotal n = Spec.stripTotal n := by
  unfold trimTotal trimSuffix Spec.stripTotal
  rw [hasSuffix_eq_endsWith]
  have hb : b "total" = counterSuffix := rfl
  rw [hb, total_length]
  by_cases h : Spec.endsWith n counterSuffix = true
  · have hlen : 5 ≤ n.length := by
      have := (endsWith_iff _ _).mp h
      have := this.length_le
      rw [total_length] at this; exact this
    simp only [h, if_true, Bool.true_and]
    by_cases h5 : n.length > 5
    · have : List.take (n.length - 5) n ≠ [] := by
        intro hnil
        have := congrArg List.length hnil
        simp at this
        omega
      simp [h5, this]
    · have : List.take (n.length - 5) n = [] := by
        have : n.length - 5 = 0 := by omega
        rw [this]; rfl
      simp [h5, this]
  · simp only [h, Bool.false_and]
    simp

theorem trimDelim_eq (n : Bytes) : trimDelim n = some (Spec.stripDelim n) := by
  unfold trimDelim Spec.stripDelim
  have hn : n = n.reverse.reverse := by simp
  generalize n.reverse = r at hn
  subst hn
  match r with
  | [] => simp
  | [c] => simp
  | c :: d :: r' =>
    have e1 : (c :: d :: r').reverse = (d :: r').reverse ++ [c] := by simp
    rw [e1]
    simp only [List.getLast?_concat, List.dropLast_concat, convertsToUnderscore_eq]
    have : ((d :: r').reverse ++ [c]).length > 1 := by simp
    simp only [this, if_true]
    split <;> rfl

theorem finishName_eq (cfg : Cfg) (unit : Bytes) (add : Bool) (n : Bytes) :
    finishName cfg unit add n =
      (cfg.ns ++ n) ++
      (match unitSuffix unit with
        | some s => if !cfg.withoutUnits && !Spec.endsWith (cfg.ns ++ n) s then b "_" ++ s else []
        | none => []) ++
      (if add then b "_total" else []) := by
  unfold finishName
  have hns : (if (cfg.ns != []) = true then cfg.ns ++ n else n) = cfg.ns ++ n := by
    by_cases h : cfg.ns = []
    · simp [h]
    · simp [h]
  simp only [hns]
  have hu : underscore = b "_" := rfl
  have ht : underscore ++ counterSuffix = b "_total" := by decide
  have ht' : b "_" ++ counterSuffix = b "_total" := by decide
  cases hs : unitSuffix unit with
  | none =>
    simp only [List.append_nil]
    cases add <;> simp [List.append_assoc, ht]
  | some s =>
    simp only [hasSuffix_eq_endsWith]
    by_cases hc : (!cfg.withoutUnits && !Spec.endsWith (cfg.ns ++ n) s) = true
    · simp only [hc, if_true, hu]
      cases add <;> simp [List.append_assoc, ht']
    · simp only [hc]
      cases add <;> simp [List.append_assoc, ht]

/-! ### sorting (slices.Sort contract) -/

theorem bytesLe_total : ∀ (x y : Bytes), bytesLe x y = true ∨ bytesLe y x = true
  | [], _ => by simp [bytesLe]
  | _ :: _, [] => by simp [bytesLe]
  | x :: xs, y :: ys => by
    simp only [bytesLe, Bool.or_eq_true, Bool.and_eq_true, decide_eq_true_eq, beq_iff_eq]
    rcases bytesLe_total xs ys with h | h
    · by_cases h1 : x.toNat < y.toNat
      · exact Or.inl (Or.inl h1)
      · by_cases h2 : y.toNat < x.toNat
        · exact Or.inr (Or.inl h2)
        · exact Or.inl (Or.inr ⟨by omega, h⟩)
    · by_cases h1 : x.toNat < y.toNat
      · exact Or.inl (Or.inl h1)
      · by_cases h2 : y.toNat < x.toNat
        · exact Or.inr (Or.inl h2)
        · exact Or.inr (Or.inr ⟨by omega, h⟩)

theorem bytesLe_antisymm : ∀ (x y : Bytes), bytesLe x y = true → bytesLe y x = true → x = y
  | [], [] => by simp
  | [], _ :: _ => by simp [bytesLe]
  | _ :: _, [] => by simp [bytesLe]
  | x :: xs, y :: ys => by
    simp only [bytesLe, Bool.or_eq_true, Bool.and_eq_true, decide_eq_true_eq, beq_iff_eq]
    intro h1 h2
    rcases h1 with h1 | ⟨e1, l1⟩
    · rcases h2 with h2 | ⟨e2, _⟩ <;> omega
    · rcases h2 with h2 | ⟨_, l2⟩
      · omega
      · rw [UInt8.toNat_inj.mp e1, bytesLe_antisymm xs ys l1 l2]

theorem bytesLe_trans : ∀ (x y z : Bytes), bytesLe x y = true → bytesLe y z = true → bytesLe x z = true
  | [], _, _ => by simp [bytesLe]
  | _ :: _, [], _ => by simp [bytesLe]
  | _ :: _, _ :: _, [] => by simp [bytesLe]
  | x :: xs, y :: ys, z :: zs => by
    simp only [bytesLe, Bool.or_eq_true, Bool.and_eq_true, decide_eq_true_eq, beq_iff_eq]
    intro h1 h2
    rcases h1 with h1 | ⟨e1, l1⟩
    · rcases h2 with h2 | ⟨e2, _⟩
      · exact Or.inl (by omega)
      · exact Or.inl (by omega)
    · rcases h2 with h2 | ⟨e2, l2⟩
      · exact Or.inl (by omega)
      · exact Or.inr ⟨by omega, bytesLe_trans xs ys zs l1 l2⟩

theorem insertSorted_perm (x : Bytes) : ∀ l : List Bytes, (insertSorted x l).Perm (x :: l)
  | [] => List.Perm.refl _
  | y :: ys => by
    unfold insertSorted
    split
    · exact List.Perm.refl _
    · exact ((insertSorted_perm x ys).cons y).trans (List.Perm.swap x y ys)

theorem sortBytes_perm : ∀ l : List Bytes, (sortBytes l).Perm l
  | [] => List.Perm.refl _
  | x :: xs => by
    unfold sortBytes
    exact (insertSorted_perm x _).trans ((sortBytes_perm xs).cons x)

abbrev LeP (x y : Bytes) : Prop := bytesLe x y = true

theorem insertSorted_pairwise (x : Bytes) : ∀ l : List Bytes, l.Pairwise LeP → (insertSorted x l).Pairwise LeP
  | [], _ => by simp [insertSorted]
  | y :: ys, h => by
    unfold insertSorted
    have ⟨hy, hys⟩ := List.pairwise_cons.mp h
    split
    · rename_i hxy
      refine List.pairwise_cons.mpr ⟨?_, h⟩
      intro a ha
      rcases List.mem_cons.mp ha with rfl | ha
      · exact hxy
      · exact bytesLe_trans _ _ _ hxy (hy a ha)
    · rename_i hxy
      refine List.pairwise_cons.mpr ⟨?_, insertSorted_pairwise x ys hys⟩
      intro a ha
      have ha' := (insertSorted_perm x ys).mem_iff.mp ha
      rcases List.mem_cons.mp ha' with rfl | ha'
      · rcases bytesLe_total a y with h | h
        · exact absurd h hxy
        · exact h
      · exact hy a ha'

theorem sortBytes_pairwise : ∀ l : List Bytes, (sortBytes l).Pairwise LeP
  | [] => List.Pairwise.nil
  | x :: xs => by
    unfold sortBytes
    exact insertSorted_pairwise x _ (sortBytes_pairwise xs)

theorem sortBytes_eq_of_perm {l₁ l₂ : List Bytes} (h : l₁.Perm l₂) : sortBytes l₁ = sortBytes l₂ := by
  apply List.Perm.eq_of_pairwise (le := LeP)
  · intro a c _ _ h1 h2; exact bytesLe_antisymm a c h1 h2
  · exact sortBytes_pairwise l₁
  · exact sortBytes_pairwise l₂
  · exact (sortBytes_perm l₁).trans (h.trans (sortBytes_perm l₂).symm)

/-! ### the legacy merge -/

theorem lookup_insertVal (k v k' : Bytes) : ∀ m : List (Bytes × List Bytes),
    (insertVal m k v).lookup k' = if k' = k then some ((m.lookup k).getD [] ++ [v]) else m.lookup k'
  | [] => by
    simp only [insertVal, List.lookup_cons, List.lookup_nil]
    by_cases h : k' = k
    · subst h; simp
    · have hb : (k' == k) = false := by simp [h]
      simp [hb, h]
  | (k0, vs) :: rest => by
    unfold insertVal
    by_cases h0 : k0 = k
    · subst h0
      simp only [beq_self_eq_true, if_true, List.lookup_cons]
      by_cases h : k' = k0
      · subst h; simp
      · have hb : (k' == k0) = false := by simp [h]
        simp [h, hb]
    · have hb : (k0 == k) = false := by simp [h0]
      simp only [hb, Bool.false_eq_true, if_false, List.lookup_cons]
      have ih := lookup_insertVal k v k' rest
      by_cases h : k' = k0
      · subst h
        simp [h0]
      · have hk : (k' == k0) = false := by simp [h]
        have hk2 : (k == k0) = false := by simp [Ne.symm h0]
        simp only [hk, hk2, ih]

def extOpt (o : Option (List Bytes)) (vs : List Bytes) : Option (List Bytes) :=
  if vs = [] then o else some (o.getD [] ++ vs)

theorem groupVals_cons (esc : Bytes → Bytes) (a : KV) (rest : List KV) (k : Bytes) :
    Spec.groupVals esc (a :: rest) k = if esc a.1 = k then a.2 :: Spec.groupVals esc rest k else Spec.groupVals esc rest k := by
  unfold Spec.groupVals
  by_cases h : esc a.1 = k <;> simp [h]

theorem lookup_foldl (esc : Bytes → Bytes) (k : Bytes) : ∀ (attrs : List KV) (m : List (Bytes × List Bytes)),
    (attrs.foldl (fun m kv => insertVal m (esc kv.1) kv.2) m).lookup k = extOpt (m.lookup k) (Spec.groupVals esc attrs k)
  | [], m => by simp [extOpt, Spec.groupVals]
  | a :: rest, m => by
    simp only [List.foldl_cons]
    rw [lookup_foldl esc k rest, lookup_insertVal, groupVals_cons]
    by_cases h : k = esc a.1
    · subst h
      simp only [if_true]
      unfold extOpt
      by_cases hg : Spec.groupVals esc rest (esc a.1) = []
      · simp [hg]
      · simp [hg]
    · have h' : ¬ esc a.1 = k := fun e => h e.symm
      simp only [h, h', if_false]

theorem lookup_map_snd {β γ : Type} (f : β → γ) (k : Bytes) : ∀ m : List (Bytes × β),
    (m.map fun p => (p.1, f p.2)).lookup k = (m.lookup k).map f
  | [] => by simp
  | (k0, v) :: rest => by
    simp only [List.map_cons, List.lookup_cons]
    cases (k == k0) with
    | true => simp
    | false => simpa using lookup_map_snd f k rest

/-- functional characterisation of the legacy branch of getAttrs -/
theorem attrs_lookup (esc : Bytes → Bytes) (attrs : List KV) (k : Bytes) :
    (getAttrsLegacy esc attrs).lookup k = Spec.mergedValue esc attrs k := by
  unfold getAttrsLegacy keysMap Spec.mergedValue
  rw [lookup_map_snd (fun vs => joinSemi (sortBytes vs)), lookup_foldl]
  unfold extOpt
  by_cases hg : Spec.groupVals esc attrs k = []
  · simp [hg]
  · have : (Spec.groupVals esc attrs k).isEmpty = false := by
      cases h : Spec.groupVals esc attrs k with
      | nil => exact absurd h hg
      | cons _ _ => rfl
    simp [hg, this]

theorem keys_insertVal (k v : Bytes) : ∀ m : List (Bytes × List Bytes),
    (insertVal m k v).map (·.1) = if k ∈ m.map (·.1) then m.map (·.1) else m.map (·.1) ++ [k]
  | [] => by simp [insertVal]
  | (k0, vs) :: rest => by
    unfold insertVal
    by_cases h0 : k0 = k
    · subst h0; simp
    · have hb : (k0 == k) = false := by simp [h0]
      simp only [hb, Bool.false_eq_true, if_false, List.map_cons, keys_insertVal k v rest, List.mem_cons]
      have : ¬ k = k0 := fun e => h0 e.symm
      by_cases hm : k ∈ rest.map (·.1)
      · simp [hm]
      · simp [hm, this]

theorem nodup_insertVal (k v : Bytes) (m : List (Bytes × List Bytes)) (h : (m.map (·.1)).Nodup) :
    ((insertVal m k v).map (·.1)).Nodup := by
  rw [keys_insertVal]
  split
  · exact h
  · rename_i hk
    rw [List.nodup_append]
    refine ⟨h, by simp, ?_⟩
    intro a ha c hc
    simp only [List.mem_singleton] at hc
    subst hc
    intro e; subst e; exact hk ha

theorem nodup_foldl (esc : Bytes → Bytes) : ∀ (attrs : List KV) (m : List (Bytes × List Bytes)),
    (m.map (·.1)).Nodup → ((attrs.foldl (fun m kv => insertVal m (esc kv.1) kv.2) m).map (·.1)).Nodup
  | [], _, h => h
  | a :: rest, m, h => by
    simp only [List.foldl_cons]
    exact nodup_foldl esc rest _ (nodup_insertVal _ _ m h)

theorem attrs_keys_nodup (esc : Bytes → Bytes) (attrs : List KV) : ((getAttrsLegacy esc attrs).map (·.1)).Nodup := by
  unfold getAttrsLegacy keysMap
  simp only [List.map_map]
  exact nodup_foldl esc attrs [] List.nodup_nil

theorem nodupKeys_iff : ∀ l : List Bytes, nodupKeys l = true ↔ l.Nodup
  | [] => by simp [nodupKeys]
  | k :: ks => by
    simp only [nodupKeys, Bool.and_eq_true, Bool.not_eq_true', List.nodup_cons, nodupKeys_iff ks]
    constructor
    · rintro ⟨h1, h2⟩
      refine ⟨?_, h2⟩
      intro hm
      have := List.contains_iff_mem.mpr hm
      rw [h1] at this; exact Bool.noConfusion this
    · rintro ⟨h1, h2⟩
      refine ⟨?_, h2⟩
      rw [Bool.eq_false_iff]
      intro hc
      exact h1 (List.contains_iff_mem.mp hc)

theorem mem_iff_lookup {β : Type} : ∀ (l : List (Bytes × β)) (k : Bytes) (v : β), (l.map (·.1)).Nodup →
    ((k, v) ∈ l ↔ l.lookup k = some v)
  | [], _, _, _ => by simp
  | (k0, v0) :: rest, k, v, h => by
    have h' : (k0 :: rest.map (·.1)).Nodup := h
    have ⟨hk0, hrest⟩ := List.nodup_cons.mp h'
    simp only [List.mem_cons, List.lookup_cons, Prod.mk.injEq]
    by_cases hk : k = k0
    · subst hk
      simp only [beq_self_eq_true, true_and, Option.some.injEq]
      constructor
      · rintro (e | hm)
        · exact e.symm
        · exact absurd (List.mem_map.mpr ⟨(k, v), hm, rfl⟩) hk0
      · intro e; exact Or.inl e.symm
    · have hb : (k == k0) = false := by simp [hk]
      simp only [hb, hk, false_and, false_or]
      exact mem_iff_lookup rest k v hrest

theorem mergedValue_perm (esc : Bytes → Bytes) {a₁ a₂ : List KV} (h : a₁.Perm a₂) (k : Bytes) :
    Spec.mergedValue esc a₁ k = Spec.mergedValue esc a₂ k := by
  unfold Spec.mergedValue
  have hp : (Spec.groupVals esc a₁ k).Perm (Spec.groupVals esc a₂ k) := by
    unfold Spec.groupVals
    exact (h.filter _).map _
  have he : (Spec.groupVals esc a₁ k).isEmpty = (Spec.groupVals esc a₂ k).isEmpty := by
    have := hp.length_eq
    cases h1 : Spec.groupVals esc a₁ k <;> cases h2 : Spec.groupVals esc a₂ k <;> simp_all
  simp only [he, sortBytes_eq_of_perm hp]

/-! ### explicit-bucket histograms -/

theorem decum_cumulate : ∀ (cs : List Nat) (a : Nat), Spec.decum a (cumulate a cs) = cs
  | [], _ => rfl
  | c :: cs, a => by
    simp only [cumulate, Spec.decum, decum_cumulate cs (a + c)]
    congr 1; omega

theorem nondecr_cumulate : ∀ (cs : List Nat) (a : Nat), Spec.nondecr a (cumulate a cs) = true
  | [], _ => rfl
  | c :: cs, a => by
    simp only [cumulate, Spec.nondecr, nondecr_cumulate cs (a + c), Bool.and_true, decide_eq_true_eq]
    omega

theorem cumulate_length : ∀ (cs : List Nat) (a : Nat), (cumulate a cs).length = cs.length
  | [], _ => rfl
  | c :: cs, a => by simp [cumulate, cumulate_length cs]

theorem cumulate_dropLast : ∀ (cs : List Nat) (a : Nat), cs ≠ [] → cumulate a cs.dropLast ++ [a + cs.sum] = cumulate a cs
  | [], _, h => absurd rfl h
  | [c], a, _ => by simp [cumulate]
  | c :: d :: r, a, _ => by
    have ih := cumulate_dropLast (d :: r) (a + c) (by simp)
    simp only [List.dropLast_cons_cons, cumulate, List.cons_append, List.sum_cons] at ih ⊢
    rw [← ih]
    simp only [List.cons.injEq, true_and]
    congr 2
    omega

/-! ### exponential → native -/

theorem lookup_native (off : Int) : ∀ (cs : List Nat) (j i : Nat), (∀ c ∈ cs, c ≤ maxInt64) → i < cs.length →
    (nativeBuckets off j cs).lookup (off + (j : Int) + (i : Int) + 1) = some (cs.getD i 0)
  | [], _, _, _, h => by simp at h
  | c :: cs, j, i, hall, hi => by
    have hc : ¬ c > maxInt64 := by have := hall c (by simp); omega
    simp only [nativeBuckets, hc, if_false, List.lookup_cons]
    cases i with
    | zero => simp
    | succ i' =>
      have hne : (off + (j : Int) + ((i' + 1 : Nat) : Int) + 1 == off + (j : Int) + 1) = false := by
        rw [beq_eq_false_iff_ne]; omega
      simp only [hne]
      have hk : off + (j : Int) + ((i' + 1 : Nat) : Int) + 1 = off + ((j + 1 : Nat) : Int) + (i' : Int) + 1 := by omega
      rw [hk, lookup_native off cs (j + 1) i' (fun c h => hall c (by simp [h])) (by simpa using hi)]
      simp

theorem range_native (off : Int) : ∀ (cs : List Nat) (j : Nat), ∀ kc ∈ nativeBuckets off j cs,
    off + (j : Int) < kc.1 ∧ kc.1 ≤ off + (j : Int) + (cs.length : Int)
  | [], _, kc, h => by simp [nativeBuckets] at h
  | c :: cs, j, kc, h => by
    unfold nativeBuckets at h
    have ih := range_native off cs (j + 1)
    split at h
    · have := ih kc h
      simp only [List.length_cons]; omega
    · rcases List.mem_cons.mp h with rfl | h
      · simp only [List.length_cons]; omega
      · have := ih kc h
        simp only [List.length_cons]; omega

theorem sum_native (off : Int) : ∀ (cs : List Nat) (j : Nat), (∀ c ∈ cs, c ≤ maxInt64) →
    sumCounts (nativeBuckets off j cs) = cs.sum
  | [], _, _ => rfl
  | c :: cs, j, hall => by
    have hc : ¬ c > maxInt64 := by have := hall c (by simp); omega
    have ih := sum_native off cs (j + 1) (fun c h => hall c (by simp [h]))
    unfold sumCounts at ih ⊢
    simp only [nativeBuckets, hc, if_false, List.map_cons, List.sum_cons, ih]

theorem sideFaithful_native (off : Int) (cs : List Nat) (hall : ∀ c ∈ cs, c ≤ maxInt64) :
    Spec.sideFaithful off cs (nativeBuckets off 0 cs) = true := by
  unfold Spec.sideFaithful
  simp only [Bool.and_eq_true, List.all_eq_true, List.mem_range, beq_iff_eq, Bool.or_eq_true, decide_eq_true_eq]
  constructor
  · intro i hi
    unfold Spec.bucketAt
    have := lookup_native off cs 0 i hall hi
    simp only [Int.natCast_zero, Int.add_zero] at this
    rw [this]; rfl
  · intro kc hkc
    right
    have := range_native off cs 0 kc hkc
    simp only [Int.natCast_zero, Int.add_zero] at this
    exact this

theorem expoToNative_some {dp : ExpoDP} {n : Native} (h : expoToNative dp = some n)
    (hmax : ∀ c ∈ dp.pos ++ dp.neg, c ≤ maxInt64) :
    Spec.F28_applies dp = false ∧ dp.pos.sum + dp.neg.sum + dp.zeroCount = dp.count := by
  have hp : ∀ c ∈ dp.pos, c ≤ maxInt64 := fun c hc => hmax c (List.mem_append_left _ hc)
  have hn : ∀ c ∈ dp.neg, c ≤ maxInt64 := fun c hc => hmax c (List.mem_append_right _ hc)
  unfold expoToNative at h
  split at h
  · cases h
  · rename_i hr
    simp only at h
    split at h
    · cases h
    · rename_i hc
      refine ⟨?_, ?_⟩
      · unfold Spec.F28_applies; simpa using hr
      · rw [sum_native _ _ _ hp, sum_native _ _ _ hn] at hc
        simpa using hc

/-! ### validateMetrics -/

theorem find_validate_some (fams : List Fam) (n n' d : Bytes) (t : MType) (f : Fam)
    (h : fams.find? (fun f => f.name == n) = some f) :
    (validate fams n' d t).1.find? (fun f => f.name == n) = some f := by
  unfold validate
  split
  · simp [List.find?_append, h]
  · split
    · exact h
    · split <;> exact h

theorem find_validate_none (fams : List Fam) (n n' d : Bytes) (t : MType)
    (h : fams.find? (fun f => f.name == n) = none) (hne : n' ≠ n) :
    (validate fams n' d t).1.find? (fun f => f.name == n) = none := by
  unfold validate
  split
  · simp only [List.find?_append, h, Option.none_or]
    simp [hne]
  · split
    · exact h
    · split <;> exact h

theorem find_validate_new (fams : List Fam) (n d : Bytes) (t : MType)
    (h : fams.find? (fun f => f.name == n) = none) :
    (validate fams n d t).1.find? (fun f => f.name == n) = some ⟨n, d, t⟩ := by
  unfold validate
  rw [h]
  simp [List.find?_append, h]

theorem find_famsAfter_some (n : Bytes) (f : Fam) : ∀ (ops : List Spec.Op) (fams : List Fam),
    fams.find? (fun f => f.name == n) = some f → (Spec.famsAfter fams ops).find? (fun f => f.name == n) = some f
  | [], _, h => h
  | o :: ops, fams, h => by
    unfold Spec.famsAfter
    simp only [List.foldl_cons]
    exact find_famsAfter_some n f ops _ (find_validate_some fams n o.1 o.2.1 o.2.2 f h)

theorem find_famsAfter_none (n : Bytes) : ∀ (ops : List Spec.Op) (fams : List Fam),
    fams.find? (fun f => f.name == n) = none → (∀ o ∈ ops, o.1 ≠ n) →
    (Spec.famsAfter fams ops).find? (fun f => f.name == n) = none
  | [], _, h, _ => h
  | o :: ops, fams, h, hn => by
    unfold Spec.famsAfter
    simp only [List.foldl_cons]
    exact find_famsAfter_none n ops _ (find_validate_none fams n o.1 o.2.1 o.2.2 h (hn o (by simp)))
      (fun o' ho' => hn o' (by simp [ho']))

/-! ### Collect: one help and type per family -/

theorem emitPoint_fields {esc : Bytes → Bytes} {legacy : Bool} {name help : Bytes} {typ : MType} {extra : List KV}
    {p : Point} {e : Emitted} (h : emitPoint esc legacy name help typ extra p = some e) :
    e.name = name ∧ e.help = help ∧ e.typ = typ := by
  unfold emitPoint at h
  simp only at h
  split at h
  · cases h
  · cases hp : p.payload with
    | num q => simp only [hp, Option.some.injEq] at h; subst h; exact ⟨rfl, rfl, rfl⟩
    | hist c sq bs cs => simp only [hp, Option.some.injEq] at h; subst h; exact ⟨rfl, rfl, rfl⟩
    | expo sq dp =>
      simp only [hp, Option.map_eq_some_iff] at h
      obtain ⟨n, _, hn⟩ := h
      subst hn; exact ⟨rfl, rfl, rfl⟩

/-- when not dropped, the cache holds exactly (name, returned help, type) for the family -/
theorem validate_entry (fams : List Fam) (n d : Bytes) (t : MType) :
    (validate fams n d t).2.1 = false →
    (validate fams n d t).1.find? (fun f => f.name == n) = some ⟨n, (validate fams n d t).2.2, t⟩ := by
  unfold validate
  cases hf : fams.find? (fun f => f.name == n) with
  | none => intro _; simp [List.find?_append, hf]
  | some emf =>
    have hname : emf.name = n := by
      have := List.find?_some hf
      simpa using this
    simp only
    by_cases ht : emf.typ = t
    · by_cases hd : emf.help = d
      · intro _
        simp only [ht, hd, bne_self_eq_false, Bool.false_eq_true, if_false, hf]
        cases emf; simp_all
      · intro _
        have hd' : (emf.help != d) = true := by simp [hd]
        simp only [ht, bne_self_eq_false, Bool.false_eq_true, if_false, hd', if_true, hf]
        cases emf; simp_all
    · have ht' : (emf.typ != t) = true := by simp [ht]
      simp [ht']

theorem collectInsts_find_some (esc : Bytes → Bytes) (cfg : Cfg) (extra : List KV) (n : Bytes) (f : Fam) :
    ∀ (insts : List Inst) (fams : List Fam), fams.find? (fun f => f.name == n) = some f →
      (collectInsts esc cfg extra fams insts).1.find? (fun f => f.name == n) = some f := by
  intro insts
  induction insts with
  | nil => intro fams h; simpa [collectInsts] using h
  | cons i rest ih =>
    intro fams h
    unfold collectInsts
    simp only
    cases hn : getName esc cfg i.name i.unit i.dtype.mtype with
    | none => simpa using h
    | some name =>
      simp only
      have hv := find_validate_some fams n name i.desc i.dtype.mtype f h
      cases hvv : validate fams name i.desc i.dtype.mtype with
      | mk fams' dh =>
        cases dh with
        | mk drop help =>
          rw [hvv] at hv
          simp only
          cases drop with
          | true => simp only [if_true]; exact ih fams' hv
          | false => simp only [Bool.false_eq_true, if_false]; exact ih fams' hv

end Otel.C18
