/-
C18 — lemmas about the legality of exposed names (helper file for Props.lean).
-/
import Otel.C18.Lemmas
namespace Otel.C18
open Otel Otel.C18

/-! ### UTF-8 validity of concatenations and of ASCII strings -/

theorem validString_append {a : Bytes} (ha : Utf8.validString a = true) (c : Bytes) :
    Utf8.validString (a ++ c) = Utf8.validString c := by
  unfold Utf8.validString at *
  have hwf : ∀ x ∈ Utf8.chunks a, x.WF ∧ x.invalid = false := fun x hx =>
    ⟨Utf8.chunks_wf a x hx, by simpa using (List.all_eq_true.mp ha) x hx⟩
  have h := Utf8.chunks_flat_append (Utf8.chunks a) c hwf
  rw [Utf8.flat_chunks] at h
  rw [h, List.all_append, ha, Bool.true_and]

theorem validString_ascii : ∀ s : Bytes, Spec.isAscii s = true → Utf8.validString s = true
  | [], _ => rfl
  | c :: r, h => by
    have hc : c.toNat < 128 := by
      have := (List.all_eq_true.mp h) c (by simp); simpa using this
    have hr : Spec.isAscii r = true := by
      unfold Spec.isAscii at *; simp only [List.all_cons, Bool.and_eq_true] at h; exact h.2
    have hd : Utf8.decode (c :: r) = (c.toNat, 1) := by simp [Utf8.decode, hc]
    have ih := validString_ascii r hr
    unfold Utf8.validString at *
    rw [Utf8.chunks_cons, hd]
    simp only [List.all_cons, List.drop_one, List.tail_cons, ih, Bool.and_true]
    have : (c.toNat == 0xFFFD) = false := by rw [beq_eq_false_iff_ne]; omega
    simp [this]

theorem isAscii_append (a c : Bytes) : Spec.isAscii (a ++ c) = (Spec.isAscii a && Spec.isAscii c) := by
  unfold Spec.isAscii; exact List.all_append

theorem isAscii_prefix {p s : Bytes} (h : p <+: s) (hs : Spec.isAscii s = true) : Spec.isAscii p = true := by
  obtain ⟨t, rfl⟩ := h
  rw [isAscii_append] at hs
  simp only [Bool.and_eq_true] at hs; exact hs.1

/-! ### legacy metric names -/

theorem legacyMetricByte_mono (c : UInt8) (h : legacyMetricByte c true = true) : legacyMetricByte c false = true := by
  unfold legacyMetricByte legacyLabelByte at *
  simp only [Bool.or_eq_true, Bool.and_eq_true, decide_eq_true_eq, beq_iff_eq, Bool.not_eq_true'] at *
  rcases h with ((((h | h) | h) | h) | h)
  · exact Or.inl (Or.inl (Or.inl (Or.inl h)))
  · exact Or.inl (Or.inl (Or.inl (Or.inr h)))
  · exact Or.inl (Or.inl (Or.inr h))
  · exact absurd h.2 (by simp)
  · exact Or.inr h

theorem legacyMetricAux_mono : ∀ s : Bytes, legacyMetricAux true s = true → legacyMetricAux false s = true
  | [], _ => rfl
  | c :: r, h => by
    simp only [legacyMetricAux, Bool.and_eq_true] at *
    exact ⟨legacyMetricByte_mono c h.1, h.2⟩

theorem legacyMetricAux_append : ∀ (f : Bool) (a c : Bytes),
    legacyMetricAux f (a ++ c) = (legacyMetricAux f a && legacyMetricAux (f && a.isEmpty) c)
  | f, [], c => by simp [legacyMetricAux]
  | f, x :: a, c => by
    simp only [List.cons_append, legacyMetricAux, legacyMetricAux_append false a c, List.isEmpty_cons, Bool.and_false,
      Bool.false_and, Bool.and_assoc]

theorem legacyMetricAux_prefix {f : Bool} {p s : Bytes} (h : p <+: s) (hs : legacyMetricAux f s = true) :
    legacyMetricAux f p = true := by
  obtain ⟨t, rfl⟩ := h
  rw [legacyMetricAux_append] at hs
  simp only [Bool.and_eq_true] at hs; exact hs.1

/-- first part legal as a name start (or empty), rest legal as a continuation ⇒ the concatenation is a legal start -/
theorem legacyMetricAux_concat {a c : Bytes} (ha : legacyMetricAux true a = true) (hc : legacyMetricAux false c = true)
    (hne : a ≠ []) : legacyMetricAux true (a ++ c) = true := by
  rw [legacyMetricAux_append, ha]
  cases a with
  | nil => exact absurd rfl hne
  | cons _ _ => simpa using hc

/-! ### the kept part of the instrument name is a non-empty prefix -/

theorem stripTotal_prefix (n : Bytes) : Spec.stripTotal n <+: n := by
  unfold Spec.stripTotal
  split
  · exact List.take_prefix _ _
  · exact List.prefix_refl _

theorem stripTotal_ne_nil (n : Bytes) (h : n ≠ []) : Spec.stripTotal n ≠ [] := by
  unfold Spec.stripTotal
  split
  · rename_i hc
    simp only [Bool.and_eq_true, decide_eq_true_eq] at hc
    intro hnil
    have := congrArg List.length hnil
    simp at this
    omega
  · exact h

theorem stripDelim_prefix (n : Bytes) : Spec.stripDelim n <+: n := by
  unfold Spec.stripDelim
  have hn : n = n.reverse.reverse := by simp
  generalize hr : n.reverse = r at hn
  match r with
  | [] => simp
  | [c] => simp
  | c :: d :: r' =>
    simp only
    split
    · subst hn
      refine ⟨[c], ?_⟩
      simp
    · exact List.prefix_refl _

theorem stripDelim_ne_nil (n : Bytes) (h : n ≠ []) : Spec.stripDelim n ≠ [] := by
  unfold Spec.stripDelim
  generalize hr : n.reverse = r
  match r with
  | [] => simpa using h
  | [c] => simpa using h
  | c :: d :: r' =>
    simp only
    split
    · simp
    · exact h

/-! ### the unit table -/

theorem lookup_mem {β : Type} : ∀ (l : List (Bytes × β)) (k : Bytes) (v : β), l.lookup k = some v → (k, v) ∈ l
  | [], _, _, h => by simp at h
  | (k0, v0) :: rest, k, v, h => by
    simp only [List.lookup_cons] at h
    by_cases hk : k = k0
    · subst hk
      simp only [beq_self_eq_true, Option.some.injEq] at h
      subst h; simp
    · have hb : (k == k0) = false := by simp [hk]
      simp only [hb] at h
      exact List.mem_cons_of_mem _ (lookup_mem rest k v h)

theorem unitTable_facts :
    unitTable.all (fun p => legacyMetricAux false p.2 && Spec.isAscii p.2 && !p.2.isEmpty) = true := by decide

theorem unitSuffix_facts {u s : Bytes} (h : unitSuffix u = some s) :
    legacyMetricAux false s = true ∧ Spec.isAscii s = true ∧ s ≠ [] := by
  have hm := lookup_mem unitTable u s h
  have := (List.all_eq_true.mp unitTable_facts) (u, s) hm
  simp only [Bool.and_eq_true, Bool.not_eq_true', List.isEmpty_eq_false_iff] at this
  exact ⟨this.1.1, this.1.2, this.2⟩

/-! ### API-legal instrument names -/

theorem apiLegal_facts {n : Bytes} (h : Spec.apiLegalName n = true) : n ≠ [] ∧ Spec.isAscii n = true := by
  unfold Spec.apiLegalName at h
  cases n with
  | nil => simp at h
  | cons c r =>
    refine ⟨by simp, ?_⟩
    simp only [Bool.and_eq_true, Bool.or_eq_true, decide_eq_true_eq, List.all_eq_true, beq_iff_eq] at h
    unfold Spec.isAscii
    simp only [List.all_cons, Bool.and_eq_true, decide_eq_true_eq, List.all_eq_true]
    refine ⟨by rcases h.1.1 with ⟨_, h2⟩ | ⟨_, h2⟩ <;> omega, ?_⟩
    intro x hx
    have := h.2 x hx
    omega

/-! ### the concrete escape function satisfies the contract -/

theorem escByte_legal (r i : Nat) :
    legacyMetricByte (if validLegacyRune r i then UInt8.ofNat r else 95) false = true := by
  unfold legacyMetricByte legacyLabelByte
  by_cases h : validLegacyRune r i = true
  · simp only [h, if_true]
    unfold validLegacyRune at h
    simp only [Bool.or_eq_true, Bool.and_eq_true, decide_eq_true_eq, beq_iff_eq] at h
    have hr : r < 256 := by omega
    have hn : (UInt8.ofNat r).toNat = r := by rw [UInt8.toNat_ofNat']; omega
    simp only [hn, Bool.or_eq_true, Bool.and_eq_true, decide_eq_true_eq, beq_iff_eq, Bool.not_false, and_true]
    omega
  · have h' : validLegacyRune r i = false := by simpa using h
    simp only [h', Bool.false_eq_true, if_false]
    decide

theorem escByte_legal_first (r : Nat) :
    legacyMetricByte (if validLegacyRune r 0 then UInt8.ofNat r else 95) true = true := by
  unfold legacyMetricByte legacyLabelByte
  by_cases h : validLegacyRune r 0 = true
  · simp only [h, if_true]
    unfold validLegacyRune at h
    simp only [Bool.or_eq_true, Bool.and_eq_true, decide_eq_true_eq, beq_iff_eq, Nat.lt_irrefl, and_false, or_false] at h
    have hn : (UInt8.ofNat r).toNat = r := by rw [UInt8.toNat_ofNat']; omega
    simp only [hn, Bool.or_eq_true, Bool.and_eq_true, decide_eq_true_eq, beq_iff_eq, Bool.not_true, Bool.false_eq_true,
      and_false, or_false]
    omega
  · have h' : validLegacyRune r 0 = false := by simpa using h
    simp only [h', Bool.false_eq_true, if_false]
    decide

theorem escAux_legal : ∀ (cs : List Utf8.Chunk) (i : Nat), legacyMetricAux false (escAux i cs) = true
  | [], _ => rfl
  | c :: cs, i => by
    simp only [escAux, legacyMetricAux, escByte_legal, escAux_legal cs, Bool.and_self]

theorem escUnderscore_legal : Spec.EscLegal escUnderscore := by
  refine ⟨rfl, ?_⟩
  intro s hs
  cases s with
  | nil => exact absurd rfl hs
  | cons x r =>
    unfold escUnderscore
    rw [Utf8.chunks_cons]
    simp only [escAux, legacyMetricAux, escByte_legal_first, escAux_legal, Bool.and_self, ne_eq, reduceCtorEq,
      not_false_eq_true, and_self]

/-! ### assembling the family name -/

theorem core_facts_legacy {esc : Bytes → Bytes} (hesc : Spec.EscLegal esc) (cfg : Cfg) (name : Bytes) (typ : MType)
    (hl : cfg.legacy = true) (hn : name ≠ []) :
    Spec.core esc cfg name typ ≠ [] ∧ legacyMetricAux true (Spec.core esc cfg name typ) = true := by
  unfold Spec.core
  simp only [hl, if_true]
  obtain ⟨hne, hleg⟩ := hesc.2 name hn
  split
  · exact ⟨stripDelim_ne_nil _ (stripTotal_ne_nil _ hne),
      legacyMetricAux_prefix ((stripDelim_prefix _).trans (stripTotal_prefix _)) hleg⟩
  · exact ⟨hne, hleg⟩

theorem core_facts_utf8 (esc : Bytes → Bytes) (cfg : Cfg) (name : Bytes) (typ : MType)
    (hl : cfg.legacy = false) (hn : name ≠ []) (ha : Spec.isAscii name = true) :
    Spec.core esc cfg name typ ≠ [] ∧ Spec.isAscii (Spec.core esc cfg name typ) = true := by
  unfold Spec.core
  simp only [hl, Bool.false_eq_true, if_false]
  split
  · exact ⟨stripDelim_ne_nil _ (stripTotal_ne_nil _ hn),
      isAscii_prefix ((stripDelim_prefix _).trans (stripTotal_prefix _)) ha⟩
  · exact ⟨hn, ha⟩

theorem unitPart_facts (cfg : Cfg) (unit pre : Bytes) :
    legacyMetricAux false (Spec.unitPart cfg unit pre) = true ∧ Spec.isAscii (Spec.unitPart cfg unit pre) = true := by
  unfold Spec.unitPart
  cases h : unitSuffix unit with
  | none => exact ⟨rfl, rfl⟩
  | some s =>
    obtain ⟨h1, h2, _⟩ := unitSuffix_facts h
    simp only
    split
    · constructor
      · have : legacyMetricAux false (b "_") = true := by decide
        rw [legacyMetricAux_append, this]; simpa using h1
      · rw [isAscii_append, h2]; decide
    · exact ⟨rfl, rfl⟩

theorem totalPart_facts (cfg : Cfg) (typ : MType) :
    legacyMetricAux false (Spec.totalPart cfg typ) = true ∧ Spec.isAscii (Spec.totalPart cfg typ) = true := by
  unfold Spec.totalPart
  split
  · exact ⟨by decide, by decide⟩
  · exact ⟨rfl, rfl⟩

/-! ### label names of a series -/

/-- every label key the legacy merge produces is the sanitised key of some attribute -/
theorem legacy_key_origin (esc : Bytes → Bytes) (attrs : List KV) (k : Bytes)
    (hk : k ∈ (getAttrsLegacy esc attrs).map (·.1)) : ∃ kv ∈ attrs, esc kv.1 = k := by
  obtain ⟨⟨k', v⟩, hmem, hkk⟩ := List.mem_map.mp hk
  simp only at hkk; subst hkk
  have hl := (mem_iff_lookup _ k' v (attrs_keys_nodup esc attrs)).mp hmem
  rw [attrs_lookup] at hl
  unfold Spec.mergedValue at hl
  simp only at hl
  split at hl
  · cases hl
  · rename_i hne
    cases hg : Spec.groupVals esc attrs k' with
    | nil => rw [hg] at hne; simp at hne
    | cons x xs =>
      have hx : x ∈ Spec.groupVals esc attrs k' := by rw [hg]; simp
      unfold Spec.groupVals at hx
      obtain ⟨kv, hkv, _⟩ := List.mem_map.mp hx
      obtain ⟨h1, h2⟩ := List.mem_filter.mp hkv
      exact ⟨kv, h1, by simpa using h2⟩

/-- the keys of what getAttrs returns are sanitised attribute keys and are pairwise distinct -/
theorem getAttrs_keys (esc : Bytes → Bytes) (legacy : Bool) (attrs : List KV)
    (hu : legacy = true ∨ (attrs.map (·.1)).Nodup) :
    ((getAttrs esc legacy attrs).map (·.1)).Nodup ∧
    ∀ k ∈ (getAttrs esc legacy attrs).map (·.1), ∃ kv ∈ attrs, Spec.effEsc esc legacy kv.1 = k := by
  unfold getAttrs Spec.effEsc
  cases legacy with
  | true =>
    simp only [if_true]
    exact ⟨attrs_keys_nodup esc attrs, fun k hk => legacy_key_origin esc attrs k hk⟩
  | false =>
    simp only [Bool.false_eq_true, if_false]
    refine ⟨by rcases hu with h | h; exact absurd h (by simp); exact h, ?_⟩
    intro k hk
    obtain ⟨kv, h1, h2⟩ := List.mem_map.mp hk
    exact ⟨kv, h1, by simpa using h2⟩

theorem labels_of_admissible (esc : Bytes → Bytes) (legacy : Bool) (attrs extra : List KV)
    (h : Spec.labelsAdmissible esc legacy attrs (extra.map (·.1)) = true) :
    (getAttrs esc legacy attrs ++ extra).all (fun kv => labelNameOK legacy kv.1) = true ∧
    nodupKeys ((getAttrs esc legacy attrs ++ extra).map (·.1)) = true := by
  unfold Spec.labelsAdmissible at h
  simp only [Bool.and_eq_true, List.all_eq_true, Bool.not_eq_true', Bool.or_eq_true] at h
  obtain ⟨⟨⟨⟨hattrs, hextra⟩, hnd⟩, hu⟩, _⟩ := h
  have hu' : legacy = true ∨ (attrs.map (·.1)).Nodup := by
    rcases hu with h | h
    · exact Or.inl h
    · exact Or.inr ((nodupKeys_iff _).mp h)
  obtain ⟨hkn, hko⟩ := getAttrs_keys esc legacy attrs hu'
  constructor
  · rw [List.all_eq_true]
    intro kv hkv
    rcases List.mem_append.mp hkv with h1 | h2
    · obtain ⟨kv0, hm, he⟩ := hko kv.1 (List.mem_map.mpr ⟨kv, h1, rfl⟩)
      rw [← he]; exact (hattrs kv0 hm).1
    · exact hextra kv.1 (List.mem_map.mpr ⟨kv, h2, rfl⟩)
  · rw [nodupKeys_iff, List.map_append, List.nodup_append]
    refine ⟨hkn, (nodupKeys_iff _).mp hnd, ?_⟩
    intro a ha c hc hac
    subst hac
    obtain ⟨kv0, hm, he⟩ := hko a ha
    have := (hattrs kv0 hm).2
    rw [he] at this
    have hc' := List.contains_iff_mem.mpr hc
    rw [this] at hc'; exact Bool.noConfusion hc'

end Otel.C18
