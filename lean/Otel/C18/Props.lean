/-
C18 — property theorems.
-/
import Otel.C18.Caches
namespace Otel.C18
open Otel Otel.C18

/-- `getName` never takes the index-out-of-range (panic) branch: for every escape function, configuration, name
(including "total", "_total", ""), unit and type. -/
theorem getName_total (esc : Bytes → Bytes) (cfg : Cfg) (name unit : Bytes) (typ : MType) :
    (getName esc cfg name unit typ).isSome = true := by
  have key : ∀ n : Bytes, (trimDelim n).isSome = true := by
    intro n
    unfold trimDelim
    split
    · split
      · rename_i h1 _ h2
        have : ∀ l : Bytes, l.length > 1 → l.getLast? ≠ none := by
          intro l hl; cases l <;> simp_all
        exact absurd h2 (this _ h1)
      · split <;> rfl
    · rfl
  unfold getName trimCounter
  simp only [Option.isSome_map]
  split
  · exact key _
  · rfl

/-- Shape of every exposed family name: `namespace ++ core ++ unitPart ++ totalPart`, where `core` is the (escaped)
instrument name minus at most one trailing `total` and one trailing delimiter (counters only), `unitPart` is
`_<suffix>` iff the unit is known ∧ units are enabled ∧ the name so far does not already end with the suffix, and
`totalPart` is `_total` iff monotonic counter ∧ counter suffixes enabled. (`Spec.refName` is this concatenation.) -/
theorem getName_shape (esc : Bytes → Bytes) (cfg : Cfg) (name unit : Bytes) (typ : MType) :
    getName esc cfg name unit typ = some (Spec.refName esc cfg name unit typ) := by
  unfold getName Spec.refName Spec.core Spec.unitPart Spec.totalPart trimCounter
  have hadd : Spec.addsTotal cfg typ = (!cfg.withoutCounterSuffixes && typ == MType.counter) := by
    unfold Spec.addsTotal; rw [Bool.and_comm]
  rw [hadd]
  generalize (if cfg.legacy = true then esc name else name) = n
  cases hA : (!cfg.withoutCounterSuffixes && typ == MType.counter)
  · simp only [Bool.false_eq_true, if_false, Option.map_some, finishName_eq, List.append_nil]
    cases unitSuffix unit <;> rfl
  · simp only [if_true, trimDelim_eq, trimTotal_eq, Option.map_some, finishName_eq]
    cases unitSuffix unit <;> rfl

/-- A unit suffix is never doubled by the exporter: when `_<suffix>` is appended, the result does not end with
`<suffix>_<suffix>`. -/
theorem getName_no_dup_unit (cfg : Cfg) (unit pre s : Bytes) (hs : unitSuffix unit = some s)
    (hadd : Spec.unitPart cfg unit pre ≠ []) :
    Spec.endsWith (pre ++ Spec.unitPart cfg unit pre) (s ++ b "_" ++ s) = false := by
  unfold Spec.unitPart at hadd ⊢
  rw [hs] at hadd ⊢
  simp only at hadd ⊢
  by_cases hc : (!cfg.withoutUnits && !Spec.endsWith pre s) = true
  · simp only [hc, if_true]
    have hne : Spec.endsWith pre s = false := by
      simp only [Bool.and_eq_true, Bool.not_eq_true'] at hc; exact hc.2
    rw [Bool.eq_false_iff]
    intro h
    rw [endsWith_iff] at h
    obtain ⟨t, ht⟩ := h
    have : t ++ s = pre := by
      have h2 : (t ++ s) ++ (b "_" ++ s) = pre ++ (b "_" ++ s) := by
        simpa [List.append_assoc] using ht
      exact List.append_cancel_right h2
    have : Spec.endsWith pre s = true := (endsWith_iff _ _).mpr ⟨t, this⟩
    rw [hne] at this; exact Bool.noConfusion this
  · simp [hc] at hadd

/-- If the unit suffix is already carried by the name so far, nothing is appended for the unit. -/
theorem getName_carried_unit (cfg : Cfg) (unit pre s : Bytes) (hs : unitSuffix unit = some s)
    (h : Spec.endsWith pre s = true) : Spec.unitPart cfg unit pre = [] := by
  unfold Spec.unitPart; rw [hs]; simp [h]

/-- `_total` carried by the instrument name is not duplicated: a counter whose (escaped) name is
`base ++ d ++ "total"` (`d` a delimiter, `base` non-empty — e.g. every API-legal `x_total`, `x.total`) is exposed
exactly like `base`: one `_total`, after the unit. -/
theorem getName_carried_total (esc : Bytes → Bytes) (cfg : Cfg) (name unit base : Bytes) (d : UInt8)
    (hcnt : cfg.withoutCounterSuffixes = false)
    (hname : (if cfg.legacy then esc name else name) = base ++ d :: b "total")
    (hbase : base ≠ []) (hd : Spec.isDelim d = true) :
    getName esc cfg name unit MType.counter =
      some (cfg.ns ++ base ++ Spec.unitPart cfg unit (cfg.ns ++ base) ++ b "_total") := by
  have h1 : Spec.stripTotal (base ++ d :: b "total") = base ++ [d] := by
    unfold Spec.stripTotal
    have he : Spec.endsWith (base ++ d :: b "total") (b "total") = true :=
      (endsWith_iff _ _).mpr ⟨base ++ [d], by simp⟩
    have hl : (base ++ d :: b "total").length = base.length + 6 := by
      simp only [List.length_append, List.length_cons]; rfl
    have hl2 : (base ++ d :: b "total").length > 5 := by omega
    simp only [he, hl2, decide_true, Bool.and_self, if_true]
    have : (base ++ d :: b "total") = (base ++ [d]) ++ b "total" := by simp
    rw [this, List.take_left']
    simp only [List.length_append, List.length_cons, List.length_nil]
    have : (b "total").length = 5 := rfl
    omega
  have h2 : Spec.stripDelim (base ++ [d]) = base := by
    unfold Spec.stripDelim
    have hr : (base ++ [d]).reverse = d :: base.reverse := by simp
    rw [hr]
    cases hb : base.reverse with
    | nil => simp at hb; exact absurd hb hbase
    | cons x r =>
      simp only [hd, if_true]
      rw [← hb]; simp
  rw [getName_shape]
  unfold Spec.refName Spec.core Spec.totalPart Spec.addsTotal
  simp only [hcnt, hname, beq_self_eq_true, Bool.not_false, Bool.and_self, if_true, h1, h2]

/-- A doubled `_total_total` can only come from what the user supplied: if the exposed name ends with
`_total_total`, then already `namespace ++ core ++ unitPart` (the name after one `total` has been removed) ends
with `_total`. -/
theorem getName_no_dup_total (esc : Bytes → Bytes) (cfg : Cfg) (name unit : Bytes) (typ : MType)
    (h : Spec.endsWith (Spec.refName esc cfg name unit typ) (b "_total_total") = true) :
    Spec.totalPart cfg typ = [] ∨
    Spec.endsWith (cfg.ns ++ Spec.core esc cfg name typ ++
      Spec.unitPart cfg unit (cfg.ns ++ Spec.core esc cfg name typ)) (b "_total") = true := by
  unfold Spec.refName at h
  unfold Spec.totalPart at h ⊢
  by_cases ha : Spec.addsTotal cfg typ = true
  · right
    simp only [ha, if_true] at h
    rw [endsWith_iff] at h ⊢
    obtain ⟨t, ht⟩ := h
    refine ⟨t, ?_⟩
    have e : b "_total_total" = b "_total" ++ b "_total" := by decide
    rw [e, ← List.append_assoc] at ht
    exact List.append_cancel_right ht
  · left; simp [ha]

/-- Legality of every exposed family name, for ALL inputs inside the statement's domain: for every escape function that
satisfies the contract `EscLegal` (proved for the concrete underscore escaping: `escUnderscore_contract`), every
configuration whose namespace is admissible (`nsOK`; `withNamespace_ok` shows WithNamespace always produces one), every
API-legal instrument name, every unit (known, unknown, empty) and every type, the family name is a legal metric name of
the validation scheme in force (legacy: `[a-zA-Z_:][a-zA-Z0-9_:]*`; UTF-8: non-empty valid UTF-8). -/
theorem familyName_legal (esc : Bytes → Bytes) (hesc : Spec.EscLegal esc) (cfg : Cfg) (name unit : Bytes) (typ : MType)
    (hname : Spec.apiLegalName name = true) (hns : Spec.nsOK cfg = true) :
    metricNameOK cfg.legacy (Spec.refName esc cfg name unit typ) = true := by
  obtain ⟨hne, hasc⟩ := apiLegal_facts hname
  obtain ⟨hu1, hu2⟩ := unitPart_facts cfg unit (cfg.ns ++ Spec.core esc cfg name typ)
  obtain ⟨ht1, ht2⟩ := totalPart_facts cfg typ
  unfold metricNameOK Spec.refName
  unfold Spec.nsOK at hns
  cases hl : cfg.legacy with
  | true =>
    simp only [hl, if_true, Bool.or_eq_true, beq_iff_eq] at hns ⊢
    obtain ⟨hcne, hcl⟩ := core_facts_legacy hesc cfg name typ hl hne
    have hpre : legacyMetricAux true (cfg.ns ++ Spec.core esc cfg name typ) = true := by
      rcases hns with h | h
      · rw [h]; simpa using hcl
      · by_cases hnil : cfg.ns = []
        · rw [hnil]; simpa using hcl
        · exact legacyMetricAux_concat h (legacyMetricAux_mono _ hcl) hnil
    have hprene : cfg.ns ++ Spec.core esc cfg name typ ≠ [] := by simp [hcne]
    have h2 := legacyMetricAux_concat hpre hu1 hprene
    have h2ne : cfg.ns ++ Spec.core esc cfg name typ ++ Spec.unitPart cfg unit (cfg.ns ++ Spec.core esc cfg name typ) ≠ [] := by
      simp [hcne]
    have h3 := legacyMetricAux_concat h2 ht1 h2ne
    simp only [h3, Bool.and_true, bne_iff_ne, ne_eq]
    simp [hcne]
  | false =>
    simp only [hl, Bool.false_eq_true, if_false] at hns ⊢
    obtain ⟨hcne, hca⟩ := core_facts_utf8 esc cfg name typ hl hne hasc
    have hrest : Spec.isAscii (Spec.core esc cfg name typ ++ Spec.unitPart cfg unit (cfg.ns ++ Spec.core esc cfg name typ) ++
        Spec.totalPart cfg typ) = true := by
      rw [isAscii_append, isAscii_append, hca, hu2, ht2]; rfl
    have hv := validString_ascii _ hrest
    have : cfg.ns ++ Spec.core esc cfg name typ ++ Spec.unitPart cfg unit (cfg.ns ++ Spec.core esc cfg name typ) ++
        Spec.totalPart cfg typ = cfg.ns ++ (Spec.core esc cfg name typ ++
        Spec.unitPart cfg unit (cfg.ns ++ Spec.core esc cfg name typ) ++ Spec.totalPart cfg typ) := by
      simp [List.append_assoc]
    rw [this, validString_append hns, hv, Bool.and_true, bne_iff_ne, ne_eq]
    simp [hcne]

/-- the concrete escape function (model of model.EscapeName with underscore escaping) satisfies the contract -/
theorem escUnderscore_contract : Spec.EscLegal escUnderscore := escUnderscore_legal

/-- WithNamespace always yields an admissible namespace (legacy: for every argument; UTF-8: for valid UTF-8) -/
theorem withNamespace_ok (esc : Bytes → Bytes) (hesc : Spec.EscLegal esc) (legacy wu wc : Bool) (ns : Bytes)
    (hv : legacy = false → Utf8.validString ns = true) :
    Spec.nsOK ⟨legacy, wu, wc, withNamespace esc legacy ns⟩ = true := by
  unfold Spec.nsOK withNamespace
  have hus : legacyMetricAux true underscore = true := by decide
  cases legacy with
  | true =>
    simp only [if_true, Bool.or_eq_true, beq_iff_eq]
    right
    by_cases hn : ns = []
    · rw [hn, hesc.1]
      have : hasSuffix [] underscore = false := by decide
      simp only [this, Bool.false_eq_true, if_false, List.nil_append, hus]
    · obtain ⟨h1, h2⟩ := hesc.2 ns hn
      split
      · exact h2
      · exact legacyMetricAux_concat h2 (legacyMetricAux_mono _ hus) h1
  | false =>
    simp only [Bool.false_eq_true, if_false]
    have hvn := hv rfl
    split
    · exact hvn
    · rw [validString_append hvn]; decide

/-- "ends with the unit suffix followed by the counter `_total` suffix", for every unit of the table (and every name,
namespace, scheme): with units enabled, the family name ends with `<suffix>` ++ totalPart (= `<suffix>_total` for
monotonic counters with counter suffixes enabled, `<suffix>` otherwise). Together with `getName_no_dup_unit` /
`getName_carried_unit` / `getName_carried_total` / `getName_no_dup_total`: neither suffix is duplicated. -/
theorem getName_ends_unit_total (esc : Bytes → Bytes) (cfg : Cfg) (name unit s : Bytes) (typ : MType)
    (hs : unitSuffix unit = some s) (hu : cfg.withoutUnits = false) :
    Spec.endsWith (Spec.refName esc cfg name unit typ) (s ++ Spec.totalPart cfg typ) = true := by
  rw [endsWith_iff]
  unfold Spec.refName
  simp only
  generalize cfg.ns ++ Spec.core esc cfg name typ = pre
  have h1 : s <:+ pre ++ Spec.unitPart cfg unit pre := by
    unfold Spec.unitPart
    rw [hs]
    simp only [hu, Bool.not_false, Bool.true_and]
    by_cases he : Spec.endsWith pre s = true
    · simp only [he, Bool.not_true, Bool.false_eq_true, if_false, List.append_nil]
      exact (endsWith_iff _ _).mp he
    · have he' : Spec.endsWith pre s = false := by simpa using he
      simp only [he', Bool.not_false, if_true]
      exact ⟨pre ++ b "_", by simp [List.append_assoc]⟩
  obtain ⟨t, ht⟩ := h1
  exact ⟨t, by rw [← ht]; simp [List.append_assoc]⟩

/-- Everything the model sends is legal: whatever the inputs (also outside the statement's domain), a series that is
sent has a legal family name, legal label names (scheme in force, no reserved `__` prefix) and no label name twice —
the model of NewDesc refuses anything else, which then is *not* sent. -/
theorem emitted_is_legal (esc : Bytes → Bytes) (legacy : Bool) (name help : Bytes) (typ : MType) (extra : List KV)
    (p : Point) (e : Emitted) (h : emitPoint esc legacy name help typ extra p = some e) :
    metricNameOK legacy e.name = true ∧ e.labels.all (fun kv => labelNameOK legacy kv.1) = true ∧
    nodupKeys (e.labels.map (·.1)) = true := by
  unfold emitPoint at h
  simp only at h
  split at h
  · cases h
  · rename_i hd
    have hd'' : metricOK legacy name (getAttrs esc legacy p.attrs ++ extra) = true := by simpa using hd
    unfold metricOK at hd''
    simp only [Bool.and_eq_true] at hd''
    have hd' := hd''.1
    unfold descOK at hd'
    simp only [Bool.and_eq_true] at hd'
    have hfields : e.name = name ∧ e.labels = getAttrs esc legacy p.attrs ++ extra := by
      cases hp : p.payload with
      | num q => simp only [hp, Option.some.injEq] at h; subst h; exact ⟨rfl, rfl⟩
      | hist c sq bs cs => simp only [hp, Option.some.injEq] at h; subst h; exact ⟨rfl, rfl⟩
      | expo sq dp =>
        simp only [hp, Option.map_eq_some_iff] at h
        obtain ⟨n, _, hn⟩ := h
        subst hn; exact ⟨rfl, rfl⟩
    rw [hfields.1, hfields.2]
    exact ⟨hd'.1.1, hd'.1.2, hd'.2⟩

/-- … and inside the domain nothing is refused: a legal family name (`familyName_legal`) and an admissible attribute set
(`Spec.labelsAdmissible`, the validity predicate of the run-time oracle) with valid UTF-8 label values make the series present — for sums, gauges and
explicit histograms always, for exponential histograms iff the native conversion succeeds (F28). Its labels are the
sanitised/merged attributes followed by the scope and resource-constant labels. -/
theorem emitPoint_present (esc : Bytes → Bytes) (legacy : Bool) (name help : Bytes) (typ : MType) (extra : List KV)
    (p : Point) (hname : metricNameOK legacy name = true)
    (hadm : Spec.labelsAdmissible esc legacy p.attrs (extra.map (·.1)) = true)
    (hvals : valuesOK (getAttrs esc legacy p.attrs ++ extra) = true)
    (hexpo : ∀ sumq dp, p.payload = Payload.expo sumq dp → (expoToNative dp).isSome = true) :
    ∃ e, emitPoint esc legacy name help typ extra p = some e ∧ e.labels = getAttrs esc legacy p.attrs ++ extra := by
  obtain ⟨h1, h2⟩ := labels_of_admissible esc legacy p.attrs extra hadm
  have hd : metricOK legacy name (getAttrs esc legacy p.attrs ++ extra) = true := by
    unfold metricOK descOK; rw [hname, h1, h2, hvals]; rfl
  unfold emitPoint
  simp only [hd, Bool.not_true, Bool.false_eq_true, if_false]
  cases hp : p.payload with
  | num q => exact ⟨_, rfl, rfl⟩
  | hist c sq bs cs => exact ⟨_, rfl, rfl⟩
  | expo sq dp =>
    have := hexpo sq dp hp
    cases hn : expoToNative dp with
    | none => rw [hn] at this; cases this
    | some n => simp only [hn, Option.map_some]; exact ⟨_, rfl, rfl⟩

/-- Legacy scheme, merging of attribute keys that collide after sanitisation: the label set is a function of the
attribute *set* — independent of the order in which the attributes are visited (`attrs₁ ~ attrs₂`) and of Go's map
iteration order (`out₁`, `out₂` are arbitrary permutations of what the model emits). Holds for every escape function. -/
theorem attrs_merge_deterministic (esc : Bytes → Bytes) (attrs₁ attrs₂ out₁ out₂ : List KV)
    (hp : attrs₁.Perm attrs₂) (h₁ : out₁.Perm (getAttrsLegacy esc attrs₁)) (h₂ : out₂.Perm (getAttrsLegacy esc attrs₂)) :
    ∀ k, out₁.lookup k = out₂.lookup k := by
  intro k
  have n₁ : (out₁.map (·.1)).Nodup := ((h₁.map (·.1)).nodup_iff).mpr (attrs_keys_nodup esc attrs₁)
  have n₂ : (out₂.map (·.1)).Nodup := ((h₂.map (·.1)).nodup_iff).mpr (attrs_keys_nodup esc attrs₂)
  apply Option.ext
  intro v
  rw [← mem_iff_lookup out₁ k v n₁, ← mem_iff_lookup out₂ k v n₂, h₁.mem_iff, h₂.mem_iff,
    mem_iff_lookup _ k v (attrs_keys_nodup esc attrs₁), mem_iff_lookup _ k v (attrs_keys_nodup esc attrs₂),
    attrs_lookup, attrs_lookup, mergedValue_perm esc hp]

/-- … and that function is the specified one: no label name twice, the value of label `k` is the sorted values of all
attributes whose sanitised key is `k`, joined with `;`, and every attribute is represented (this is the oracle
`Spec.labelsMerged` the driver evaluates on the real exporter's labels). -/
theorem attrs_merge_spec (esc : Bytes → Bytes) (attrs out : List KV) (h : out.Perm (getAttrsLegacy esc attrs)) :
    Spec.labelsMerged esc attrs out = true := by
  have nd : (out.map (·.1)).Nodup := ((h.map (·.1)).nodup_iff).mpr (attrs_keys_nodup esc attrs)
  unfold Spec.labelsMerged
  simp only [Bool.and_eq_true, List.all_eq_true, beq_iff_eq]
  refine ⟨⟨(nodupKeys_iff _).mpr nd, ?_⟩, ?_⟩
  · intro kv hkv
    have h1 : (kv.1, kv.2) ∈ getAttrsLegacy esc attrs := h.mem_iff.mp hkv
    rw [mem_iff_lookup _ _ _ (attrs_keys_nodup esc attrs), attrs_lookup] at h1
    exact h1
  · intro kv hkv
    rw [List.contains_iff_mem]
    -- the group of `esc kv.1` is not empty, so the key has a label
    have hg : kv.2 ∈ Spec.groupVals esc attrs (esc kv.1) := by
      unfold Spec.groupVals
      exact List.mem_map.mpr ⟨kv, List.mem_filter.mpr ⟨hkv, by simp⟩, rfl⟩
    have hne : (Spec.groupVals esc attrs (esc kv.1)).isEmpty = false := by
      cases hgv : Spec.groupVals esc attrs (esc kv.1) with
      | nil => rw [hgv] at hg; simp at hg
      | cons _ _ => rfl
    have hl : (getAttrsLegacy esc attrs).lookup (esc kv.1) =
        some (joinSemi (sortBytes (Spec.groupVals esc attrs (esc kv.1)))) := by
      rw [attrs_lookup]; unfold Spec.mergedValue; simp [hne]
    have hm := (mem_iff_lookup _ _ _ (attrs_keys_nodup esc attrs)).mpr hl
    have hm' := h.mem_iff.mpr hm
    exact List.mem_map.mpr ⟨_, hm', rfl⟩

/-- … and no attribute value is lost: for every attribute, the label named by its sanitised key holds the `;`-join of a
sorted permutation of *all* values whose keys collide on that name (slices.Sort(vals): sorted as strings), and the
attribute's own value is among them. Holds for whatever order the labels are emitted in. -/
theorem attrs_no_value_lost (esc : Bytes → Bytes) (attrs out : List KV) (h : out.Perm (getAttrsLegacy esc attrs)) :
    ∀ kv ∈ attrs, ∃ vs, out.lookup (esc kv.1) = some (joinSemi vs) ∧ vs.Perm (Spec.groupVals esc attrs (esc kv.1)) ∧
      vs.Pairwise (fun x y => bytesLe x y = true) ∧ kv.2 ∈ vs := by
  intro kv hkv
  have nd : (out.map (·.1)).Nodup := ((h.map (·.1)).nodup_iff).mpr (attrs_keys_nodup esc attrs)
  have hg : kv.2 ∈ Spec.groupVals esc attrs (esc kv.1) := by
    unfold Spec.groupVals
    exact List.mem_map.mpr ⟨kv, List.mem_filter.mpr ⟨hkv, by simp⟩, rfl⟩
  have hne : (Spec.groupVals esc attrs (esc kv.1)).isEmpty = false := by
    cases hgv : Spec.groupVals esc attrs (esc kv.1) with
    | nil => rw [hgv] at hg; simp at hg
    | cons _ _ => rfl
  refine ⟨sortBytes (Spec.groupVals esc attrs (esc kv.1)), ?_, sortBytes_perm _, sortBytes_pairwise _,
    (sortBytes_perm _).mem_iff.mpr hg⟩
  have hl : (getAttrsLegacy esc attrs).lookup (esc kv.1) =
      some (joinSemi (sortBytes (Spec.groupVals esc attrs (esc kv.1)))) := by
    rw [attrs_lookup]; unfold Spec.mergedValue; simp [hne]
  have hm := (mem_iff_lookup _ _ _ (attrs_keys_nodup esc attrs)).mpr hl
  exact (mem_iff_lookup _ _ _ nd).mp (h.mem_iff.mpr hm)

/-- Each label name occurs once (whatever the emission order). -/
theorem attrs_label_names_unique (esc : Bytes → Bytes) (attrs out : List KV) (h : out.Perm (getAttrsLegacy esc attrs)) :
    (out.map (·.1)).Nodup :=
  ((h.map (·.1)).nodup_iff).mpr (attrs_keys_nodup esc attrs)

/-- Explicit-bucket histograms: the exposed cumulative buckets (one per bound, the implicit `+Inf` bucket being the
exposed count) de-cumulate to exactly the SDK's bucket counts; bounds and count are unchanged. For every SDK data
point shape (`len(BucketCounts) = len(Bounds)+1`, `Count = Σ BucketCounts` — C07's invariants). -/
theorem hist_cumulative_faithful (bounds : List Int) (counts : List Nat) (count : Nat)
    (hlen : counts.length = bounds.length + 1) (hcount : count = counts.sum) :
    Spec.histFaithful bounds counts count count (histBuckets bounds counts) = true := by
  have hne : counts ≠ [] := by intro h; rw [h] at hlen; simp at hlen
  have hcum := cumulate_dropLast counts 0 hne
  have hl : bounds.length = (cumulate 0 counts.dropLast).length := by
    rw [cumulate_length, List.length_dropLast]; omega
  have hz : histBuckets bounds counts = List.zip bounds (cumulate 0 counts.dropLast) := by
    unfold histBuckets
    rw [← hcum]
    have := List.zip_append (l₁ := bounds) (r₁ := []) (l₂ := cumulate 0 counts.dropLast) (r₂ := [0 + counts.sum]) hl
    simpa using this
  unfold Spec.histFaithful
  rw [hz, List.map_fst_zip (by omega), List.map_snd_zip (by omega)]
  have hc : cumulate 0 counts.dropLast ++ [count] = cumulate 0 counts := by
    rw [hcount]; simpa using hcum
  simp only [hc, nondecr_cumulate, decum_cumulate, beq_self_eq_true, Bool.and_self]

/-- Exponential → native histogram when the scale is inside Prometheus' schema range (i.e. `¬ F28_applies`): the series
is produced, schema/zero count/count are unchanged, every SDK bucket `i` of a side with offset `o` is found at native
index `o+i+1` (same upper bound base^(o+i+1)) and no other bucket is populated. -/
theorem expo_offset_faithful (dp : ExpoDP) (hrange : Spec.F28_applies dp = false)
    (hmax : ∀ c ∈ dp.pos ++ dp.neg, c ≤ maxInt64)
    (hcount : dp.pos.sum + dp.neg.sum + dp.zeroCount = dp.count) :
    ∃ n, expoToNative dp = some n ∧ Spec.expoFaithful dp n = true := by
  have hp : ∀ c ∈ dp.pos, c ≤ maxInt64 := fun c h => hmax c (List.mem_append_left _ h)
  have hn : ∀ c ∈ dp.neg, c ≤ maxInt64 := fun c h => hmax c (List.mem_append_right _ h)
  refine ⟨⟨dp.scale, dp.zeroCount, dp.count, nativeBuckets dp.posOff 0 dp.pos, nativeBuckets dp.negOff 0 dp.neg⟩, ?_, ?_⟩
  · unfold expoToNative
    unfold Spec.F28_applies at hrange
    simp only [hrange, Bool.false_eq_true, if_false, sum_native _ _ _ hp, sum_native _ _ _ hn, hcount, bne_self_eq_false]
  · unfold Spec.expoFaithful
    simp [sideFaithful_native _ _ hp, sideFaithful_native _ _ hn]

/-- Values, one data point: whatever is sent for a data point that satisfies the SDK's invariants carries exactly the
SDK's values — counter/gauge sample = the data point's value; histogram: the exposed cumulative buckets de-cumulate to
the SDK's bucket counts, `_sum` and `_count` equal; native histogram: schema, zero count, count, sum equal and every
bucket at index offset+i+1 (`Spec.payloadFaithful`, the run-time oracle). -/
theorem emitPoint_values_faithful (esc : Bytes → Bytes) (legacy : Bool) (name help : Bytes) (typ : MType)
    (extra : List KV) (p : Point) (e : Emitted) (h : emitPoint esc legacy name help typ extra p = some e)
    (hv : Spec.pointDataValid p.payload = true) : Spec.payloadFaithful p.payload e.payload = true := by
  unfold emitPoint at h
  simp only at h
  split at h
  · cases h
  · cases hp : p.payload with
    | num q =>
      simp only [hp, Option.some.injEq] at h; subst h
      simp [Spec.payloadFaithful]
    | hist c sq bs cs =>
      simp only [hp, Option.some.injEq] at h; subst h
      rw [hp] at hv
      simp only [Spec.pointDataValid, Bool.and_eq_true, beq_iff_eq] at hv
      simp only [Spec.payloadFaithful, beq_self_eq_true, Bool.true_and]
      exact hist_cumulative_faithful bs cs c hv.1 hv.2
    | expo sq dp =>
      simp only [hp, Option.map_eq_some_iff] at h
      obtain ⟨n, hn, he⟩ := h
      subst he
      rw [hp] at hv
      simp only [Spec.pointDataValid, List.all_eq_true, decide_eq_true_eq] at hv
      obtain ⟨hf, hc⟩ := expoToNative_some hn hv
      obtain ⟨n', hn', hfaith⟩ := expo_offset_faithful dp hf hv hc
      rw [hn] at hn'; cases hn'
      simp [Spec.payloadFaithful, hfaith]

/-- F28 (known finding), witness: one measurement aggregated at the SDK's default maximum scale 20 is not exposed. -/
theorem expo_F28_witness :
    expoToNative ⟨20, 0, 1048575, [1], 0, [], 1⟩ = none ∧ Spec.F28_applies ⟨20, 0, 1048575, [1], 0, [], 1⟩ = true := by
  decide

/-- F28, exact extent: a consistent data point is dropped iff its scale is outside −4..8. -/
theorem expo_dropped_iff_F28 (dp : ExpoDP) (hmax : ∀ c ∈ dp.pos ++ dp.neg, c ≤ maxInt64)
    (hcount : dp.pos.sum + dp.neg.sum + dp.zeroCount = dp.count) :
    expoToNative dp = none ↔ Spec.F28_applies dp = true := by
  constructor
  · intro h
    cases hf : Spec.F28_applies dp with
    | true => rfl
    | false =>
      obtain ⟨n, hn, _⟩ := expo_offset_faithful dp hf hmax hcount
      rw [h] at hn; cases hn
  · intro h
    unfold expoToNative
    unfold Spec.F28_applies at h
    simp [h]

/-- The full statement F28 refutes (kept type-checked, not proved): every consistent exponential data point is exposed. -/
def expo_always_exposed_full_statement : Prop :=
  ∀ dp : ExpoDP, (∀ c ∈ dp.pos ++ dp.neg, c ≤ maxInt64) → dp.pos.sum + dp.neg.sum + dp.zeroCount = dp.count →
    (expoToNative dp).isSome = true

/-- Type/help conflicts: after any history in which the *first* instrument mapped to family `n` had type `t1` and
description `d1`, a further instrument mapped to `n` is dropped iff its type differs; the cache is unchanged (the first
definition stays), and with the same type the description returned for the series is the first one. -/
theorem type_conflict_drops_second (pre mid : List Spec.Op) (n d1 d2 : Bytes) (t1 t2 : MType)
    (hpre : ∀ o ∈ pre, o.1 ≠ n) :
    validate (Spec.famsAfter [] (pre ++ (n, d1, t1) :: mid)) n d2 t2 =
      (Spec.famsAfter [] (pre ++ (n, d1, t1) :: mid), t1 != t2, if t1 = t2 then d1 else []) := by
  have hfind : (Spec.famsAfter [] (pre ++ (n, d1, t1) :: mid)).find? (fun f => f.name == n) = some ⟨n, d1, t1⟩ := by
    have : Spec.famsAfter [] (pre ++ (n, d1, t1) :: mid) =
        Spec.famsAfter (validate (Spec.famsAfter [] pre) n d1 t1).1 mid := by
      unfold Spec.famsAfter
      simp only [List.foldl_append, List.foldl_cons]
    rw [this]
    apply find_famsAfter_some
    apply find_validate_new
    exact find_famsAfter_none n pre [] rfl hpre
  unfold validate
  rw [hfind]
  by_cases ht : t1 = t2
  · subst ht
    by_cases hd : d1 = d2
    · subst hd; simp
    · simp [hd]
  · simp [ht]

/-- Help conflicts (full statement, after the F34 repair de0451a): after any history in which the first instrument mapped
to family `n` had description `d1` — empty or not — every later instrument of the same type mapped to `n` is kept and
its series carry exactly `d1`. -/
theorem help_conflict_first_wins (pre mid : List Spec.Op) (n d1 d2 : Bytes) (t : MType)
    (hpre : ∀ o ∈ pre, o.1 ≠ n) :
    (validate (Spec.famsAfter [] (pre ++ (n, d1, t) :: mid)) n d2 t).2 = (false, d1) := by
  rw [type_conflict_drops_second pre mid n d1 d2 t t hpre]
  simp

/-- … and therefore the registry sees one help and one type per family: every metric the `for _, m := range Metrics`
loop sends carries the help and type of the cache entry of its family name, which is the first one registered and never
changes. (Registry.Gather's "has help … but should have …" / type mismatch errors cannot be triggered by Collect.) -/
theorem collect_family_consistent (esc : Bytes → Bytes) (cfg : Cfg) (extra : List KV) :
    ∀ (insts : List Inst) (fams : List Fam), ∀ e ∈ (collectInsts esc cfg extra fams insts).2,
      (collectInsts esc cfg extra fams insts).1.find? (fun f => f.name == e.name) = some ⟨e.name, e.help, e.typ⟩ :=
  collectInsts_consistent esc cfg extra

/-- Provenance of a whole model scrape: everything Collect sends is the target info metric (only when enabled), a scope
info metric of one of the scopes (only when enabled), or what add*Metric sent for one data point of one instrument of one
scope, with that scope's extra labels. Nothing else is ever sent. -/
theorem collect_provenance (esc : Bytes → Bytes) (sc : Scenario) : ∀ e ∈ collect esc sc,
    (sc.noTarget = false ∧ e = targetInfoMetric esc sc) ∨
    (sc.noScope = false ∧ ∃ s ∈ sc.scopes, scopeInfoMetric esc sc.cfg.legacy s = some e) ∨
    (∃ s ∈ sc.scopes, ∃ i ∈ s.insts, ∃ p ∈ i.points, FromPoint esc sc.cfg (Spec.extraKVs esc sc s) i p e) := by
  intro e he
  unfold collect at he
  simp only at he
  rcases List.mem_append.mp he with h | h
  · left
    split at h
    · rename_i hc
      simp only [Bool.and_eq_true, Bool.not_eq_true'] at hc
      simp only [List.mem_singleton] at h
      exact ⟨hc.1, h⟩
    · simp at h
  · right
    rcases collectScopes_provenance esc sc _ sc.scopes [] e h with h1 | ⟨h2, _⟩
    · exact Or.inl h1
    · exact Or.inr h2

/-- Values and labels for every model scrape and all data: every series sent for a data point carries the family name
`Spec.refName`, the labels "sanitised/merged attributes ++ scope labels ++ resource constant labels", and — when the
data point satisfies the SDK's invariants — exactly the SDK's values (`Spec.payloadFaithful`: counter/gauge value equal;
histogram buckets are the cumulative sums of the SDK's bucket counts, `_sum`/`_count` equal; native buckets at
offset+i+1). -/
theorem collect_values_faithful (esc : Bytes → Bytes) (sc : Scenario) (s : Scope) (i : Inst) (p : Point) (e : Emitted)
    (h : FromPoint esc sc.cfg (Spec.extraKVs esc sc s) i p e) :
    e.name = Spec.refName esc sc.cfg i.name i.unit i.dtype.mtype ∧ e.typ = i.dtype.mtype ∧
    e.labels = getAttrs esc sc.cfg.legacy p.attrs ++ Spec.extraKVs esc sc s ∧
    (Spec.pointDataValid p.payload = true → Spec.payloadFaithful p.payload e.payload = true) := by
  obtain ⟨name, help, hn, hp⟩ := h
  rw [getName_shape] at hn
  simp only [Option.some.injEq] at hn
  obtain ⟨h1, _, h3⟩ := emitPoint_fields hp
  exact ⟨h1.trans hn.symm, h3, emitPoint_labels hp, emitPoint_values_faithful esc _ name help _ _ p e hp⟩

/-- Presence: the first instrument of a family in a scope's metric list (no earlier instrument maps to the same family
name, and the cache does not know the name yet) is never dropped: every one of its data points that add*Metric accepts
(`emitPoint_present`: legal name, admissible attribute set, native conversion possible) is in what is sent, with the
instrument's own description as help. -/
theorem first_of_family_present (esc : Bytes → Bytes) (cfg : Cfg) (extra : List KV) :
    ∀ (pre : List Inst) (i : Inst) (rest : List Inst) (fams : List Fam) (name : Bytes),
      getName esc cfg i.name i.unit i.dtype.mtype = some name →
      fams.find? (fun f => f.name == name) = none →
      (∀ j ∈ pre, getName esc cfg j.name j.unit j.dtype.mtype ≠ some name) →
      ∀ p ∈ i.points, ∀ e, emitPoint esc cfg.legacy name i.desc i.dtype.mtype extra p = some e →
        e ∈ (collectInsts esc cfg extra fams (pre ++ i :: rest)).2 := by
  intro pre
  induction pre with
  | nil =>
    intro i rest fams name hn hf _ p hp e he
    simp only [List.nil_append]
    unfold collectInsts
    simp only [hn]
    have hv : validate fams name i.desc i.dtype.mtype = (fams ++ [⟨name, i.desc, i.dtype.mtype⟩], false, i.desc) := by
      unfold validate; rw [hf]
    rw [hv]
    simp only [Bool.false_eq_true, if_false]
    exact List.mem_append_left _ (List.mem_filterMap.mpr ⟨p, hp, he⟩)
  | cons j pre ih =>
    intro i rest fams name hn hf hpre p hp e he
    simp only [List.cons_append]
    unfold collectInsts
    have hj := getName_total esc cfg j.name j.unit j.dtype.mtype
    cases hnj : getName esc cfg j.name j.unit j.dtype.mtype with
    | none => rw [hnj] at hj; cases hj
    | some nj =>
      have hne : nj ≠ name := by
        intro heq; exact hpre j (by simp) (by rw [hnj, heq])
      have hf' := find_validate_none fams name nj j.desc j.dtype.mtype hf hne
      have hpre' : ∀ j' ∈ pre, getName esc cfg j'.name j'.unit j'.dtype.mtype ≠ some name :=
        fun j' hj' => hpre j' (by simp [hj'])
      cases hv : validate fams nj j.desc j.dtype.mtype with
      | mk fams' dh =>
        cases dh with
        | mk drop help =>
          rw [hv] at hf'
          have := ih i rest fams' name hn hf' hpre' p hp e he
          simp only [hnj, hv]
          cases drop with
          | true => simpa using this
          | false =>
            simp only [Bool.false_eq_true, if_false]
            exact List.mem_append_right _ this

/-- target_info exactly as configured: the scrape is `[target_info]` (iff not WithoutTargetInfo and the resource's labels
are admissible, values valid UTF-8) followed by the rest; target_info carries the sanitised/merged resource attributes and the value 1; and
nothing in the rest is called target_info (given no instrument's family name is target_info). -/
theorem target_info_as_configured (esc : Bytes → Bytes) (sc : Scenario)
    (hnames : ∀ s ∈ sc.scopes, ∀ i ∈ s.insts, Spec.refName esc sc.cfg i.name i.unit i.dtype.mtype ≠ b "target_info") :
    ∃ rest, collect esc sc =
      (if !sc.noTarget && metricOK sc.cfg.legacy (b "target_info") (getAttrs esc sc.cfg.legacy sc.res)
        then [targetInfoMetric esc sc] else []) ++ rest ∧
      (targetInfoMetric esc sc).labels = getAttrs esc sc.cfg.legacy sc.res ∧
      (targetInfoMetric esc sc).payload = OutPayload.num 4 ∧
      ∀ e ∈ rest, e.name ≠ b "target_info" := by
  refine ⟨collectScopes esc sc (if sc.resConst then getAttrs esc sc.cfg.legacy (constRes sc) else []) [] sc.scopes, rfl, rfl, rfl, ?_⟩
  intro e he
  rcases collectScopes_provenance esc sc _ sc.scopes [] e he with ⟨_, s, _, hs⟩ | ⟨⟨s, hs, i, hi, p, _, hf⟩, _⟩
  · rw [(scopeInfo_fields hs).1]; decide
  · have := (collect_values_faithful esc sc s i p e hf).1
    rw [this]; exact hnames s hs i hi

/-- otel_scope_info exactly as configured: with WithoutScopeInfo nothing is called otel_scope_info; otherwise every
scope whose scope info metric can be created has it in the scrape (labels otel_scope_name / otel_scope_version, value 1),
and every series of a data point of that scope carries the scope labels first among its extra labels
(`collect_values_faithful`, `Spec.extraKVs`). -/
theorem scope_info_as_configured (esc : Bytes → Bytes) (sc : Scenario)
    (hnames : ∀ s ∈ sc.scopes, ∀ i ∈ s.insts, Spec.refName esc sc.cfg i.name i.unit i.dtype.mtype ≠ b "otel_scope_info") :
    (sc.noScope = true → ∀ e ∈ collect esc sc, e.name ≠ b "otel_scope_info") ∧
    (sc.noScope = false → ∀ s ∈ sc.scopes, ∀ si, scopeInfoMetric esc sc.cfg.legacy s = some si →
      si ∈ collect esc sc ∧ si.payload = OutPayload.num 4 ∧
      si.labels = getAttrs esc sc.cfg.legacy (scopeInfoAttrs s.key)) := by
  constructor
  · intro hns e he
    rcases collect_provenance esc sc e he with ⟨_, h⟩ | ⟨h, _⟩ | ⟨s, hs, i, hi, p, _, hf⟩
    · rw [h]
      have : (targetInfoMetric esc sc).name = b "target_info" := rfl
      rw [this]; decide
    · rw [hns] at h; cases h
    · rw [(collect_values_faithful esc sc s i p e hf).1]; exact hnames s hs i hi
  · intro hns s hs si hsi
    refine ⟨?_, (scopeInfo_fields hsi).2.2.2.1, (scopeInfo_fields hsi).2.2.2.2⟩
    unfold collect
    exact List.mem_append_right _ (collectScopes_scopeinfo_mem esc sc _ hns sc.scopes [] s hs si hsi)

/-- Legality over the whole scrape, for ALL inputs (no validity hypothesis): every metric Collect sends — target info,
scope info, data point series — has a legal family name, legal label names and no label name twice (the oracle's
`namesLegal`). What is not legal is refused by the model of NewDesc and not sent; `familyName_legal` +
`emitPoint_present` show that inside the statement's domain nothing is refused. -/
theorem collect_all_legal (esc : Bytes → Bytes) (sc : Scenario) : ∀ e ∈ collect esc sc,
    metricNameOK sc.cfg.legacy e.name = true ∧ e.labels.all (fun kv => labelNameOK sc.cfg.legacy kv.1) = true ∧
    nodupKeys (e.labels.map (·.1)) = true := by
  intro e he
  have hdesc : ∀ n l, metricOK sc.cfg.legacy n l = true →
      metricNameOK sc.cfg.legacy n = true ∧ l.all (fun kv => labelNameOK sc.cfg.legacy kv.1) = true ∧
      nodupKeys (l.map (·.1)) = true := by
    intro n l h
    unfold metricOK descOK at h
    simp only [Bool.and_eq_true] at h
    exact ⟨h.1.1.1, h.1.1.2, h.1.2⟩
  unfold collect at he
  simp only at he
  rcases List.mem_append.mp he with h | h
  · split at h
    · rename_i hc
      simp only [Bool.and_eq_true] at hc
      simp only [List.mem_singleton] at h
      subst h
      exact hdesc _ _ hc.2
    · simp at h
  · rcases collectScopes_provenance esc sc _ sc.scopes [] e h with ⟨_, s, _, hs⟩ | ⟨⟨s, _, i, _, p, _, name, help, _, hp⟩, _⟩
    · unfold scopeInfoMetric scopeInfoOfKey at hs
      simp only at hs
      split at hs
      · rename_i hc
        simp only [Option.some.injEq] at hs; subst hs
        exact hdesc _ _ hc
      · cases hs
    · exact emitted_is_legal esc _ name help _ _ p e hp

/-- One help and one type per family over the whole scrape (info metrics included), given no instrument's family name is
one of the two info names. -/
theorem collect_help_type_consistent (esc : Bytes → Bytes) (sc : Scenario)
    (hnames : ∀ s ∈ sc.scopes, ∀ i ∈ s.insts,
      Spec.refName esc sc.cfg i.name i.unit i.dtype.mtype ≠ b "target_info" ∧
      Spec.refName esc sc.cfg i.name i.unit i.dtype.mtype ≠ b "otel_scope_info") :
    ∀ a ∈ collect esc sc, ∀ c ∈ collect esc sc, a.name = c.name → a.help = c.help ∧ a.typ = c.typ := by
  -- classify every sent metric
  have cls : ∀ e ∈ collect esc sc,
      (e.name = b "target_info" ∧ e.help = b "Target metadata" ∧ e.typ = MType.gauge) ∨
      (e.name = b "otel_scope_info" ∧ e.help = b "Instrumentation Scope metadata" ∧ e.typ = MType.gauge) ∨
      (e.name ≠ b "target_info" ∧ e.name ≠ b "otel_scope_info" ∧
        (scopesFams esc sc (if sc.resConst then getAttrs esc sc.cfg.legacy (constRes sc) else []) [] sc.scopes).find?
          (fun f => f.name == e.name) = some ⟨e.name, e.help, e.typ⟩) := by
    intro e he
    unfold collect at he
    simp only at he
    rcases List.mem_append.mp he with h | h
    · left
      split at h
      · simp only [List.mem_singleton] at h; subst h; exact ⟨rfl, rfl, rfl⟩
      · simp at h
    · rcases collectScopes_provenance esc sc _ sc.scopes [] e h with ⟨_, s, _, hs⟩ | ⟨⟨s, hs, i, hi, p, _, hf⟩, hfind⟩
      · right; left
        have := scopeInfo_fields hs
        exact ⟨this.1, this.2.1, this.2.2.1⟩
      · right; right
        have hn := (collect_values_faithful esc sc s i p e hf).1
        exact ⟨hn ▸ (hnames s hs i hi).1, hn ▸ (hnames s hs i hi).2, hfind⟩
  intro a ha c hc hac
  have ne12 : b "target_info" ≠ b "otel_scope_info" := by decide
  rcases cls a ha with ⟨a1, a2, a3⟩ | ⟨a1, a2, a3⟩ | ⟨a1, a2, a3⟩ <;>
    rcases cls c hc with ⟨c1, c2, c3⟩ | ⟨c1, c2, c3⟩ | ⟨c1, c2, c3⟩
  · exact ⟨a2.trans c2.symm, a3.trans c3.symm⟩
  · exact absurd (a1.symm.trans (hac.trans c1)) ne12
  · exact absurd (hac.symm.trans a1) c1
  · exact absurd (c1.symm.trans (hac.symm.trans a1)) ne12
  · exact ⟨a2.trans c2.symm, a3.trans c3.symm⟩
  · exact absurd (hac.symm.trans a1) c2
  · exact absurd (hac.trans c1) a1
  · exact absurd (hac.trans c1) a2
  · rw [hac] at a3
    rw [a3] at c3
    simp only [Option.some.injEq, Fam.mk.injEq] at c3
    exact ⟨c3.2.1, c3.2.2⟩

/-- Gather-acceptance on the model side: for every scenario inside the oracle's domain (`Spec.scenarioValid`: API-legal
names not colliding with the info names, admissible attribute sets, no two data points mapping to the same series),
the modelled registry contract accepts the model's output — no help mismatch, no type mismatch, no duplicate series —
and everything in it is legal (`emitted_is_legal`). -/
theorem collect_accepted (esc : Bytes → Bytes) (sc : Scenario) (hv : Spec.scenarioValid esc sc = true) :
    (gather (collect esc sc)).1 = false := by
  unfold Spec.scenarioValid at hv
  simp only [Bool.and_eq_true, List.all_eq_true, Bool.not_eq_true'] at hv
  obtain ⟨⟨⟨hinst, _⟩, hdup⟩, _⟩ := hv
  have hd : Spec.distinctSeries (collect esc sc) = true := by
    unfold Spec.dupSeries at hdup; simpa using hdup
  have hnames : ∀ s ∈ sc.scopes, ∀ i ∈ s.insts,
      Spec.refName esc sc.cfg i.name i.unit i.dtype.mtype ≠ b "target_info" ∧
      Spec.refName esc sc.cfg i.name i.unit i.dtype.mtype ≠ b "otel_scope_info" := by
    intro s hs i hi
    have hm : (s, i) ∈ Spec.allInsts sc := by
      unfold Spec.allInsts
      exact List.mem_flatMap.mpr ⟨s, hs, List.mem_map.mpr ⟨i, hi, rfl⟩⟩
    have := hinst (s, i) hm
    unfold Spec.instValid at this
    simp only [Bool.and_eq_true, bne_iff_ne, ne_eq] at this
    exact this.1.2
  exact gather_accepts _ (collect_help_type_consistent esc sc hnames) hd

/-- A first scrape (empty cache) in the multi-scrape model is the single-scrape model. -/
theorem collectFrom_nil (esc : Bytes → Bytes) (sc : Scenario) : (collectFrom esc sc []).1 = collect esc sc := rfl

/-- Scrapes are independent functions of their own exporter's state: in any sequence of scrapes of any number of
exporters (any interleaving order), what the scrapes of exporter `a` send is what they would send if the scrapes of all
other exporters had never happened — whatever the other exporters' data and caches are (`w`, `w'` only have to agree on
`a`). This is the obligation the real code meets only if the pooled ResourceMetrics buffer is private to one Collect call
(seeded change C18-7 broke it by putting the buffer back twice); the forced-overlap harness ties it to the code. -/
theorem scrape_independent_of_other_scrapes (esc : Bytes → Bytes) (a : Nat) :
    ∀ (ops : List ScrapeOp) (w w' : World), w a = w' a →
      (runScrapes esc w ops).filter (fun r => r.1 == a) = runScrapes esc w' (ops.filter (fun o => o.1 == a)) := by
  intro ops
  induction ops with
  | nil => intro w w' _; rfl
  | cons o rest ih =>
    intro w w' hw
    obtain ⟨id, sc⟩ := o
    by_cases hid : id = a
    · subst hid
      have hf : ((id, sc) :: rest).filter (fun o => o.1 == id) = (id, sc) :: rest.filter (fun o => o.1 == id) := by
        simp
      rw [hf]
      simp only [runScrapes, List.filter_cons, beq_self_eq_true, if_true, hw]
      congr 1
      exact ih _ _ (by simp)
    · have hb : (id == a) = false := by simp [hid]
      have hf : ((id, sc) :: rest).filter (fun o => o.1 == a) = rest.filter (fun o => o.1 == a) := by
        simp [hb]
      rw [hf]
      simp only [runScrapes, List.filter_cons, hb, Bool.false_eq_true, if_false]
      apply ih
      have : (a == id) = false := by simp [Ne.symm hid]
      simp only [this, Bool.false_eq_true, if_false]
      exact hw

/-! ### the collector's caches across scrapes (scope info, invalid scopes, target info, resource labels) -/

/-- Caches are transparent: in every cache state that satisfies the invariant `CInv` (every state reachable from New(),
`caches_invariant_reachable`), Collect with all of the collector's caches — targetInfo / disableTargetInfo /
resourceKeyVals / scopeInfos / scopeInfosInvalid — sends exactly what the cache-free reading `collectFrom` sends (which
only threads the family table), leaves the same family table, and re-establishes the invariant. -/
theorem collect_caches_transparent (esc : Bytes → Bytes) (sc : Scenario) (st : CState) (h : CInv esc sc st) :
    (collectS esc sc st).1 = (collectFrom esc sc st.fams).1 ∧
    (collectS esc sc st).2.fams = (collectFrom esc sc st.fams).2 ∧
    CInv esc sc (collectS esc sc st).2 := collectS_spec esc sc st h

/-- The invariant holds after New() and is preserved by every scrape of the sequence — registered or not, whatever
scopes, instruments and data the SDK holds at that moment (options, scheme and resource are the exporter's constants). -/
theorem caches_invariant_reachable (esc : Bytes → Bytes) (base : Scenario) :
    CInv esc base (CState.init base) ∧
    ∀ st x, CInv esc base st → CInv esc base (stepS esc base st x).2 := by
  refine ⟨CInv.init esc base, ?_⟩
  intro st x h
  cases x with
  | notRegistered => exact h
  | data scopes => exact CInv.ofScopes scopes (collectS_spec esc _ st (h.withScopes scopes)).2.2

/-- Refinement over whole sequences: successive scrapes of one exporter with all caches (`runSeq`, from the state New()
creates) send, scrape by scrape, what the cache-free reading sends (`runSeqRef`). In particular a scope created after
earlier scrapes gets its own otel_scope_info series, and a cached one is the one createScopeInfoMetric would build. The
seeded change C18-12 (cache keyed by name and version only) breaks exactly this on the real code. -/
theorem runSeq_refines (esc : Bytes → Bytes) (base : Scenario) (steps : List Step) :
    runSeq esc base (CState.init base) steps = runSeqRef esc base [] steps :=
  runSeq_spec esc base steps _ (CInv.init esc base)

/-- Scrape k is independent of which scopes (and which resource-derived metrics) earlier scrapes saw: two reachable
cache states with the same family table send the same for the same data. -/
theorem scrape_independent_of_scope_history (esc : Bytes → Bytes) (sc : Scenario) (st₁ st₂ : CState)
    (h₁ : CInv esc sc st₁) (h₂ : CInv esc sc st₂) (hf : st₁.fams = st₂.fams) :
    (collectS esc sc st₁).1 = (collectS esc sc st₂).1 ∧ (collectS esc sc st₁).2.fams = (collectS esc sc st₂).2.fams := by
  obtain ⟨a1, a2, _⟩ := collectS_spec esc sc st₁ h₁
  obtain ⟨c1, c2, _⟩ := collectS_spec esc sc st₂ h₂
  rw [a1, a2, c1, c2, hf]; exact ⟨rfl, rfl⟩

/-- The first registered scrape of a fresh exporter is the single-scrape model `collect` all other theorems are about. -/
theorem first_scrape_is_collect (esc : Bytes → Bytes) (sc : Scenario) :
    (collectS esc sc (CState.init sc)).1 = collect esc sc :=
  (collectS_spec esc sc _ (CInv.init esc sc)).1

/-- otel_scope_info in EVERY scrape of a sequence: with scope info enabled, whatever the caches hold (any reachable
state), every scope of the moment whose info metric can be created has it in what is sent — value 1, labels = the
sanitised/merged attribute set NewSet(scope attributes ++ otel_scope_name ++ otel_scope_version). -/
theorem scope_info_every_scrape (esc : Bytes → Bytes) (sc : Scenario) (st : CState) (h : CInv esc sc st)
    (hns : sc.noScope = false) :
    ∀ s ∈ sc.scopes, ∀ si, scopeInfoMetric esc sc.cfg.legacy s = some si →
      si ∈ (collectS esc sc st).1 ∧ si.payload = OutPayload.num 4 ∧
      si.labels = getAttrs esc sc.cfg.legacy (scopeInfoAttrs s.key) := by
  intro s hs si hsi
  refine ⟨?_, (scopeInfo_fields hsi).2.2.2.1, (scopeInfo_fields hsi).2.2.2.2⟩
  rw [(collectS_spec esc sc st h).1]
  unfold collectFrom
  exact List.mem_append_right _ (collectScopes_scopeinfo_mem esc sc _ hns sc.scopes st.fams s hs si hsi)

/-- What the otel_scope_info series of a scope says (attribute.NewSet = last value wins): otel_scope_name is the scope's
name and otel_scope_version its version — also when the scope carries attributes with these keys — and every other key
carries the scope attribute of that key. In the UTF-8 scheme these are the labels themselves (`getAttrs` is the
identity); the schema URL is not exposed. -/
theorem scope_info_labels (k : ScopeKey) :
    (scopeInfoAttrs k).lookup scopeNameLabel = some k.name ∧
    (scopeInfoAttrs k).lookup scopeVersionLabel = some k.version ∧
    ∀ x, x ≠ scopeNameLabel → x ≠ scopeVersionLabel → (scopeInfoAttrs k).lookup x = k.attrs.reverse.lookup x :=
  scopeInfoAttrs_lookup k

/-- One series per distinct scope identity: two scopes whose otel_scope_info attribute sets coincide have the same name,
the same version and the same attributes on every other key — so scopes that differ in name, version or a scope attribute
never share a series (they may differ in the schema URL only: that collision is real, see the remark in RESULTS.md). -/
theorem scope_info_distinct (k₁ k₂ : ScopeKey) (h : scopeInfoAttrs k₁ = scopeInfoAttrs k₂) :
    k₁.name = k₂.name ∧ k₁.version = k₂.version ∧
    ∀ x, x ≠ scopeNameLabel → x ≠ scopeVersionLabel → k₁.attrs.reverse.lookup x = k₂.attrs.reverse.lookup x := by
  obtain ⟨a1, a2, a3⟩ := scopeInfoAttrs_lookup k₁
  obtain ⟨c1, c2, c3⟩ := scopeInfoAttrs_lookup k₂
  rw [h] at a1 a2 a3
  refine ⟨?_, ?_, ?_⟩
  · rw [a1] at c1; exact (Option.some.inj c1)
  · rw [a2] at c2; exact (Option.some.inj c2)
  · intro x h1 h2; rw [← a3 x h1 h2, c3 x h1 h2]

/-- The scope-info cache never hands out another scope's metric: in a reachable state the lookup for a scope returns
createScopeInfoMetric of exactly that scope identity, and a scope remembered as invalid is one whose info metric cannot
be created. -/
theorem scope_cache_sound (esc : Bytes → Bytes) (sc : Scenario) (st : CState) (h : CInv esc sc st) (s : Scope) :
    (scopeInfoCached esc sc.cfg.legacy st s).2 = scopeInfoMetric esc sc.cfg.legacy s :=
  (scopeInfoCached_spec esc sc.cfg.legacy st s h.scopes).1

/-- An instrumentation scope whose info metric cannot be created (scope info enabled, inadmissible scope attributes) is
skipped as a whole and is invisible to everything else: what the scope loop sends, and the family table it leaves, are
those of the scope list without it — wherever it stands in the (map-ordered) list, whatever the family table is. With
`collect_caches_transparent` this holds in every reachable cache state: a scope remembered as invalid never poisons
another scope with the same name and version. -/
theorem skipped_scope_invisible (esc : Bytes → Bytes) (sc : Scenario) (resKV : List KV) (s : Scope)
    (hs : scopeSkipped esc sc s = true) :
    ∀ (pre post : List Scope) (fams : List Fam),
      collectScopes esc sc resKV fams (pre ++ s :: post) = collectScopes esc sc resKV fams (pre ++ post) ∧
      scopesFams esc sc resKV fams (pre ++ s :: post) = scopesFams esc sc resKV fams (pre ++ post) := by
  intro pre
  induction pre with
  | nil =>
    intro post fams
    simp only [List.nil_append]
    constructor
    · rw [collectScopes]; simp [hs]
    · rw [scopesFams]; simp [hs]
  | cons x pre ih =>
    intro post fams
    simp only [List.cons_append]
    constructor
    · rw [collectScopes, collectScopes]
      split
      · exact (ih post fams).1
      · simp only [(ih post _).1]
    · rw [scopesFams, scopesFams]
      split
      · exact (ih post fams).2
      · exact (ih post _).2

/-! ### options -/

private theorem newConfig_fold_flags (esc : Bytes → Bytes) (legacy : Bool) : ∀ (opts : List Opt) (c : Config),
    (opts.foldl (Opt.apply esc legacy) c).disableTargetInfo = (c.disableTargetInfo || opts.contains .withoutTargetInfo) ∧
    (opts.foldl (Opt.apply esc legacy) c).withoutUnits = (c.withoutUnits || opts.contains .withoutUnits) ∧
    (opts.foldl (Opt.apply esc legacy) c).withoutCounterSuffixes = (c.withoutCounterSuffixes || opts.contains .withoutCounterSuffixes) ∧
    (opts.foldl (Opt.apply esc legacy) c).disableScopeInfo = (c.disableScopeInfo || opts.contains .withoutScopeInfo) := by
  intro opts
  induction opts with
  | nil => intro c; simp
  | cons o rest ih =>
    intro c
    obtain ⟨h1, h2, h3, h4⟩ := ih (Opt.apply esc legacy c o)
    simp only [List.foldl_cons, h1, h2, h3, h4, List.contains_cons]
    have hb : ∀ a c : Opt, (a == c) = decide (a = c) := fun _ _ => rfl
    cases o <;> simp [Opt.apply, hb]

/-- Option handling (newConfig + New): whatever options are given, in whatever order and however often, the collector's
four switches are set exactly when the corresponding option occurs (order-independent, idempotent); options that
configure the registerer or the reader touch none of them. -/
theorem newConfig_flags (esc : Bytes → Bytes) (legacy : Bool) (opts : List Opt) :
    (newConfig esc legacy opts).disableTargetInfo = opts.contains .withoutTargetInfo ∧
    (newConfig esc legacy opts).withoutUnits = opts.contains .withoutUnits ∧
    (newConfig esc legacy opts).withoutCounterSuffixes = opts.contains .withoutCounterSuffixes ∧
    (newConfig esc legacy opts).disableScopeInfo = opts.contains .withoutScopeInfo := by
  have := newConfig_fold_flags esc legacy opts {}
  simpa [newConfig] using this

/-- … and the namespace / resource filter are those of the LAST WithNamespace / WithResourceAsConstantLabels given (the
namespace processed by WithNamespace: escaped in the legacy scheme, one trailing `_` ensured — `withNamespace_ok`). -/
theorem newConfig_last_wins (esc : Bytes → Bytes) (legacy : Bool) (pre post : List Opt) :
    (∀ ns, (∀ o ∈ post, ∀ n, o ≠ .withNamespace n) →
      (newConfig esc legacy (pre ++ .withNamespace ns :: post)).ns = withNamespace esc legacy ns) ∧
    (∀ d, (∀ o ∈ post, ∀ e, o ≠ .withResourceAsConstantLabels e) →
      (newConfig esc legacy (pre ++ .withResourceAsConstantLabels d :: post)).resFilter = some d) := by
  have keep : ∀ (post : List Opt) (c : Config),
      ((∀ o ∈ post, ∀ n, o ≠ .withNamespace n) → (post.foldl (Opt.apply esc legacy) c).ns = c.ns) ∧
      ((∀ o ∈ post, ∀ e, o ≠ .withResourceAsConstantLabels e) → (post.foldl (Opt.apply esc legacy) c).resFilter = c.resFilter) := by
    intro post
    induction post with
    | nil => intro c; simp
    | cons o rest ih =>
      intro c
      constructor
      · intro h
        rw [List.foldl_cons, (ih _).1 (fun o' ho' => h o' (List.mem_cons_of_mem _ ho'))]
        cases o with
        | withNamespace n => exact absurd rfl (h _ List.mem_cons_self n)
        | _ => rfl
      · intro h
        rw [List.foldl_cons, (ih _).2 (fun o' ho' => h o' (List.mem_cons_of_mem _ ho'))]
        cases o with
        | withResourceAsConstantLabels d => exact absurd rfl (h _ List.mem_cons_self d)
        | _ => rfl
  constructor
  · intro ns h
    simp only [newConfig, List.foldl_append, List.foldl_cons]
    rw [(keep post _).1 h]; rfl
  · intro d h
    simp only [newConfig, List.foldl_append, List.foldl_cons]
    rw [(keep post _).2 h]; rfl

/-- WithResourceAsConstantLabels(filter): the constant labels every series carries after the scope labels are the
sanitised/merged resource attributes the filter accepts — all of those, nothing it rejects — and target_info is not
affected (`target_info_as_configured`: it keeps every resource attribute). -/
theorem resource_filter_applied (esc : Bytes → Bytes) (sc : Scenario) (s : Scope) :
    Spec.extraKVs esc sc s =
      (if sc.noScope then [] else [(scopeNameLabel, s.name), (scopeVersionLabel, s.version)]) ++
      (if sc.resConst then getAttrs esc sc.cfg.legacy (constRes sc) else []) ∧
    (∀ kv, kv ∈ constRes sc ↔ kv ∈ sc.res ∧ sc.resDeny.contains kv.1 = false) ∧
    (sc.resDeny = [] → constRes sc = sc.res) := by
  refine ⟨rfl, ?_, ?_⟩
  · intro kv; simp [constRes, List.mem_filter]
  · intro h; simp [constRes, h]

/-- The final family name for EVERY option list, in one statement: for any options given to New (any order,
repetitions, reader/registerer options in between), any name, unit and type, the exposed family name is
`namespace ++ core ++ unit part ++ total part`, where, with `n` the (legacy: escaped) instrument name,
* counter suffixes are in force iff the instrument is a monotonic sum and WithoutCounterSuffixes does not occur; only
  then one trailing `total` and one trailing delimiter are taken off `n` (`core`) and `_total` is appended at the very end;
* the unit part is `_<suffix>` iff the unit is in the table, WithoutUnits does not occur, and `namespace ++ core` does not
  already end with the suffix;
* the namespace is the processed argument of the last WithNamespace (`newConfig_last_wins`), empty if there is none.
No other option influences the name. -/
theorem familyName_of_options (esc : Bytes → Bytes) (legacy : Bool) (opts : List Opt) (name unit : Bytes) (typ : MType)
    (res : List KV) (scopes : List Scope) :
    let cfg := (Scenario.ofConfig legacy (newConfig esc legacy opts) res scopes).cfg
    let n := if legacy then esc name else name
    let addT := typ == MType.counter && !opts.contains Opt.withoutCounterSuffixes
    let core := if addT then Spec.stripDelim (Spec.stripTotal n) else n
    let pre := (newConfig esc legacy opts).ns ++ core
    let unitPart := match unitSuffix unit with
      | some s => if !opts.contains Opt.withoutUnits && !Spec.endsWith pre s then b "_" ++ s else []
      | none => []
    getName esc cfg name unit typ = some (pre ++ unitPart ++ (if addT then b "_total" else [])) := by
  obtain ⟨_, hu, hc, _⟩ := newConfig_flags esc legacy opts
  simp only
  rw [getName_shape]
  simp only [Spec.refName, Spec.core, Spec.unitPart, Spec.totalPart, Spec.addsTotal, Scenario.ofConfig, hu, hc]
  cases unitSuffix unit <;> rfl

/-- Exemplar labels (addExemplars + attributesToLabels): whatever the filtered attributes are — also attributes named
`trace_id` / `span_id`, or escaping to them — the exemplar's `trace_id` and `span_id` labels are the hex ids of the
measurement's span context; every other label name is the ESCAPED key of a filtered attribute (always escaped, in both
validation schemes) and carries the value of the LAST attribute with that escaped key. -/
theorem exemplar_labels_spec (esc : Bytes → Bytes) (e : Exemplar) :
    (exemplarLabels esc e).lookup (b "trace_id") = some e.traceId ∧
    (exemplarLabels esc e).lookup (b "span_id") = some e.spanId ∧
    ∀ k, k ≠ b "trace_id" → k ≠ b "span_id" →
      (exemplarLabels esc e).lookup k = (e.attrs.map fun kv => (esc kv.1, kv.2)).reverse.lookup k := by
  unfold exemplarLabels
  have h1 : (b "trace_id" == b "span_id") = false := by decide
  refine ⟨?_, ?_, ?_⟩
  · simp [setLabel_lookup, h1]
  · simp [setLabel_lookup]
  · intro k hk1 hk2
    have e1 : (k == b "trace_id") = false := by simpa using hk1
    have e2 : (k == b "span_id") = false := by simpa using hk2
    simp only [setLabel_lookup, e1, e2, Bool.false_eq_true, if_false, setLabel_fold_lookup, List.lookup_nil, Option.or_none]

/-- The 128-rune limit as a budget: an exemplar is attached only if its label names and values together hold at most 128
runes; the two ids of a sampled span context (32 + 16 hex digits) and their names cost 63 of them, which leaves 65 runes
for the names and values of all filtered attributes together — one rune more and every exemplar of the series is
refused (the series itself is never affected: `emitPoint_value_indep_exemplars`). -/
theorem exemplar_rune_budget (legacy : Bool) (labels : List KV) (h : exemplarOK legacy labels = true) :
    labelRunes labels ≤ 128 ∧ labelRunes [(b "trace_id", List.replicate 32 48), (b "span_id", List.replicate 16 48)] = 63 := by
  unfold exemplarOK at h
  simp only [Bool.and_eq_true, decide_eq_true_eq] at h
  exact ⟨h.2, by decide⟩

/-! ### the oracle's scope admissibility predicate coincides with the model's refusal of the scope info metric -/

/-- UTF-8 scheme, exact coincidence: with scope info enabled, a scope (valid UTF-8 name and version, scope attribute keys
distinct — attribute.Set) is skipped by Collect iff it is not `Spec.scopeExposable`, i.e. iff one of its attributes that the
scope's name/version do not overwrite has a key the registry refuses as label name or a value that is not valid UTF-8. An
attribute named like a scope label never matters: it is overwritten before the metric is built. -/
theorem scope_exposable_iff_not_skipped_utf8 (esc : Bytes → Bytes) (sc : Scenario) (s : Scope)
    (hl : sc.cfg.legacy = false) (hns : sc.noScope = false)
    (hn : Utf8.validString s.name = true) (hv : Utf8.validString s.version = true)
    (hnd : (s.attrs.map (·.1)).Nodup) :
    scopeSkipped esc sc s = !Spec.scopeExposable esc sc s := by
  obtain ⟨c1, c2, c3⟩ := scopeInfoAttrs_complete s hnd
  have hNl : labelNameOK false scopeNameLabel = true := by decide
  have hVl : labelNameOK false scopeVersionLabel = true := by decide
  have hname : metricNameOK false (b "otel_scope_info") = true := by decide
  have key : metricOK false (b "otel_scope_info") (scopeInfoAttrs s.key) =
      (Spec.scopeOwnAttrs s).all (fun kv => labelNameOK false kv.1 && Utf8.validString kv.2) := by
    rw [Bool.eq_iff_iff]
    unfold metricOK descOK valuesOK
    simp only [Bool.and_eq_true, List.all_eq_true, hname, true_and]
    constructor
    · rintro ⟨⟨h1, _⟩, h2⟩ kv hkv
      exact ⟨h1 kv (c3 kv hkv), h2 kv (c3 kv hkv)⟩
    · intro h
      refine ⟨⟨?_, (nodupKeys_iff _).mpr (scopeInfoAttrs_nodup s.key)⟩, ?_⟩
      · intro kv hkv
        rcases scopeInfoAttrs_mem s kv hkv with rfl | rfl | hm
        · exact hNl
        · exact hVl
        · exact (h kv hm).1
      · intro kv hkv
        rcases scopeInfoAttrs_mem s kv hkv with rfl | rfl | hm
        · exact hn
        · exact hv
        · exact (h kv hm).2
  unfold scopeSkipped scopeInfoMetric scopeInfoOfKey Spec.scopeExposable
  simp only [hns, hl, Bool.not_false, Bool.true_and, Bool.false_or, getAttrs, Bool.false_eq_true, if_false, key,
    Spec.effEsc, id]
  cases (Spec.scopeOwnAttrs s).all (fun kv => labelNameOK false kv.1 && Utf8.validString kv.2) <;> simp

/-- Legacy scheme, coincidence for well-formed values: when the scope's name, version and all scope attribute values are
valid UTF-8 and the escape function leaves the two scope label names legal (true for underscore escaping:
`escUnderscore_keeps_scope_labels`), a scope is skipped iff it is not `Spec.scopeExposable`, i.e. iff one of its own
attribute keys escapes to something the registry refuses as a legacy label name (a `:`; a leading `__`). Colliding keys
are merged, never refused. (Not covered here, oracle-only: legacy scheme with an invalid UTF-8 scope attribute value.) -/
theorem scope_exposable_iff_not_skipped_legacy (esc : Bytes → Bytes) (sc : Scenario) (s : Scope)
    (hl : sc.cfg.legacy = true) (hns : sc.noScope = false)
    (hn : Utf8.validString s.name = true) (hv : Utf8.validString s.version = true)
    (hvals : ∀ kv ∈ s.attrs, Utf8.validString kv.2 = true)
    (hnd : (s.attrs.map (·.1)).Nodup)
    (hN : labelNameOK true (esc scopeNameLabel) = true) (hV : labelNameOK true (esc scopeVersionLabel) = true) :
    scopeSkipped esc sc s = !Spec.scopeExposable esc sc s := by
  obtain ⟨c1, c2, c3⟩ := scopeInfoAttrs_complete s hnd
  have hname : metricNameOK true (b "otel_scope_info") = true := by decide
  have hspec := attrs_merge_spec esc (scopeInfoAttrs s.key) _ (List.Perm.refl _)
  unfold Spec.labelsMerged at hspec
  simp only [Bool.and_eq_true, List.all_eq_true] at hspec
  obtain ⟨⟨_, hval⟩, hcov⟩ := hspec
  have hLvalid : ∀ kv ∈ scopeInfoAttrs s.key, Utf8.validString kv.2 = true := by
    intro kv hkv
    rcases scopeInfoAttrs_mem s kv hkv with rfl | rfl | hm
    · exact hn
    · exact hv
    · exact hvals kv (List.mem_filter.mp hm).1
  have key : metricOK true (b "otel_scope_info") (getAttrsLegacy esc (scopeInfoAttrs s.key)) =
      (Spec.scopeOwnAttrs s).all (fun kv => labelNameOK true (esc kv.1) && Utf8.validString kv.2) := by
    rw [Bool.eq_iff_iff]
    unfold metricOK descOK valuesOK
    simp only [Bool.and_eq_true, List.all_eq_true, hname, true_and]
    constructor
    · rintro ⟨⟨h1, _⟩, _⟩ kv hkv
      refine ⟨?_, hvals kv (List.mem_filter.mp hkv).1⟩
      have hc := hcov kv (c3 kv hkv)
      obtain ⟨lab, hlab, he⟩ := List.mem_map.mp (List.contains_iff_mem.mp hc)
      have := h1 lab hlab
      rw [he] at this; exact this
    · intro h
      refine ⟨⟨?_, (nodupKeys_iff _).mpr (attrs_keys_nodup esc _)⟩, ?_⟩
      · intro lab hlab
        obtain ⟨kv, hkv, he⟩ := (getAttrs_keys esc true (scopeInfoAttrs s.key) (Or.inl rfl)).2 lab.1
          (List.mem_map.mpr ⟨lab, by simpa [getAttrs] using hlab, rfl⟩)
        simp only [Spec.effEsc, if_true] at he
        rw [← he]
        rcases scopeInfoAttrs_mem s kv hkv with rfl | rfl | hm
        · exact hN
        · exact hV
        · exact (h kv hm).1
      · intro lab hlab
        have hm := hval lab hlab
        unfold Spec.mergedValue at hm
        simp only at hm
        split at hm
        · simp at hm
        · have e : joinSemi (sortBytes (Spec.groupVals esc (scopeInfoAttrs s.key) lab.1)) = lab.2 := by
            simpa using hm
          rw [← e]
          apply joinSemi_valid
          intro v hvm
          have hv2 := (sortBytes_perm _).mem_iff.mp hvm
          unfold Spec.groupVals at hv2
          obtain ⟨kv, hkv, rfl⟩ := List.mem_map.mp hv2
          exact hLvalid kv (List.mem_filter.mp hkv).1
  unfold scopeSkipped scopeInfoMetric scopeInfoOfKey Spec.scopeExposable
  simp only [hns, hl, Bool.not_false, Bool.true_and, Bool.false_or, getAttrs, if_true, key, Spec.effEsc]
  cases (Spec.scopeOwnAttrs s).all (fun kv => labelNameOK true (esc kv.1) && Utf8.validString kv.2) <;> simp

/-- the concrete escape function keeps the two scope label names legal (hypotheses of the legacy coincidence theorem) -/
theorem escUnderscore_keeps_scope_labels :
    labelNameOK true (escUnderscore scopeNameLabel) = true ∧ labelNameOK true (escUnderscore scopeVersionLabel) = true := by
  decide

/-! ### concurrent scrapes: interleavings of the locked regions -/

/-- the validateMetrics calls of a schedule, in lock order -/
def valOps : List Act → List Spec.Op
  | [] => []
  | .validate n d t :: rest => (n, d, t) :: valOps rest
  | _ :: rest => valOps rest

/-- Linearisation of concurrent scrapes. Collect touches the collector's caches only inside three critical sections of
`c.mu` (harness/extract/C18/collector.txt, compared with the source on every run): the init block, scopeInfo and
validateMetrics. For EVERY schedule — the locked regions of any number of concurrent Collect calls, over any data, in
the order in which they won the lock — starting from New(): every region returns what the schedule-independent reading
`refRets` returns, the cache invariant holds afterwards, and the family table is the one `refRets` computes. Hence the
init block and scopeInfo behave as pure functions (memoisation cannot be observed under any interleaving), and
validateMetrics is the only region whose answer depends on the schedule — through the earlier validateMetrics calls. -/
theorem locked_regions_linearise (esc : Bytes → Bytes) (sc : Scenario) (acts : List Act) :
    (runActs esc sc (CState.init sc) acts).1 = (refRets esc sc [] acts).1 ∧
    (runActs esc sc (CState.init sc) acts).2.fams = (refRets esc sc [] acts).2 ∧
    CInv esc sc (runActs esc sc (CState.init sc) acts).2 :=
  runActs_spec esc sc acts _ (CInv.init esc sc)

/-- … what the schedule-independent answers are: at whatever position of whatever schedule, scopeInfo(s) answers
createScopeInfoMetric(s) (never another scope's metric, never a stale refusal), and the init block answers with the target
info metric exactly as configured and the filtered resource labels. -/
theorem cache_answers_schedule_independent (esc : Bytes → Bytes) (sc : Scenario) :
    ∀ (acts : List Act) (fams : List Fam), ∀ ar ∈ acts.zip (refRets esc sc fams acts).1,
      (∀ s, ar.1 = Act.scopeInfo s → ar.2 = Ret.info (scopeInfoMetric esc sc.cfg.legacy s)) ∧
      (ar.1 = Act.init → ar.2 = Ret.top
        (if !sc.noTarget && metricOK sc.cfg.legacy (b "target_info") (getAttrs esc sc.cfg.legacy sc.res)
          then [targetInfoMetric esc sc] else [])
        (if sc.resConst then getAttrs esc sc.cfg.legacy (constRes sc) else [])) := by
  intro acts
  induction acts with
  | nil => intro fams ar h; simp [refRets] at h
  | cons a rest ih =>
    intro fams ar h
    cases a with
    | init =>
      simp only [refRets, List.zip_cons_cons, List.mem_cons] at h
      rcases h with rfl | h
      · exact ⟨fun s hs => (by simp at hs), fun _ => rfl⟩
      · exact ih fams ar h
    | scopeInfo s0 =>
      simp only [refRets, List.zip_cons_cons, List.mem_cons] at h
      rcases h with rfl | h
      · exact ⟨fun s hs => (by simp only [Act.scopeInfo.injEq] at hs; subst hs; rfl), fun hs => (by simp at hs)⟩
      · exact ih fams ar h
    | validate n d t =>
      simp only [refRets, List.zip_cons_cons, List.mem_cons] at h
      rcases h with rfl | h
      · exact ⟨fun s hs => (by simp at hs), fun hs => (by simp at hs)⟩
      · exact ih _ ar h

/-- … and the family table after any schedule is the table of the SEQUENTIAL history of its validateMetrics calls in
lock order (`Spec.famsAfter`): the conflict theorems (`type_conflict_drops_second`, `help_conflict_first_wins`) apply to
concurrent scrapes with "first" meaning first to take the lock. -/
theorem family_table_is_lock_order_history (esc : Bytes → Bytes) (sc : Scenario) :
    ∀ (acts : List Act) (fams : List Fam), (refRets esc sc fams acts).2 = Spec.famsAfter fams (valOps acts) := by
  intro acts
  induction acts with
  | nil => intro fams; rfl
  | cons a rest ih =>
    intro fams
    cases a with
    | init => simp only [refRets, valOps]; exact ih fams
    | scopeInfo s => simp only [refRets, valOps]; exact ih fams
    | validate n d t =>
      simp only [refRets, valOps]
      rw [ih]
      simp [Spec.famsAfter]

/-- F34 (repaired in de0451a), documented on the OLD code: `validateMetricsOld` answered a description conflict whose
first description is empty with help "", which the old call site read as "no conflict" — the second series kept its own
help "second" although the family was registered with "". -/
theorem help_conflict_F34_old_witness :
    effectiveHelpOld (b "second")
      (validateMetricsOld [⟨b "foo_total", [], MType.counter⟩] (b "foo_total") (b "second") MType.counter).2.2 = b "second" ∧
    (validate [⟨b "foo_total", [], MType.counter⟩] (b "foo_total") (b "second") MType.counter).2.2 = [] := by
  decide

/-- Exemplars never touch the series: whatever exemplars a data point carries (accepted, refused, none), the metric that
is sent — presence, name, help, type, labels, value/buckets — is the same. (A refused exemplar costs the exemplars, not
the series; the seeded change C18-2 broke exactly this on the real code.) -/
theorem emitPoint_value_indep_exemplars (esc : Bytes → Bytes) (legacy : Bool) (name help : Bytes) (typ : MType)
    (extra : List KV) (p : Point) (exs : List Exemplar) :
    (emitPoint esc legacy name help typ extra { p with exemplars := exs }).map
        (fun e => (e.name, e.help, e.typ, e.labels, e.payload)) =
      (emitPoint esc legacy name help typ extra p).map (fun e => (e.name, e.help, e.typ, e.labels, e.payload)) := by
  unfold emitPoint
  simp only
  split
  · rfl
  · cases p.payload <;> simp [Option.map_map, Function.comp_def]

/-- The accept/reject rule: exemplars are attached iff there is at least one and *every* one is acceptable to
client_golang (label names legal, values valid UTF-8, names+values ≤ 128 runes); then all of them are passed on in
order with labels = escaped filtered attributes overwritten by trace_id/span_id; otherwise none is. -/
theorem exemplars_accept_rule (esc : Bytes → Bytes) (legacy : Bool) (exs : List Exemplar) :
    promExemplars esc legacy exs =
      if exs ≠ [] ∧ ∀ e ∈ exs, exemplarOK legacy (exemplarLabels esc e) = true
      then some (exs.map fun e => (e.q, exemplarLabels esc e)) else none := by
  unfold promExemplars
  cases exs with
  | nil => simp
  | cons e rest =>
    have hiff : (((e :: rest).map fun e => (e.q, exemplarLabels esc e)).all fun l => exemplarOK legacy l.2) = true ↔
        ∀ x ∈ e :: rest, exemplarOK legacy (exemplarLabels esc x) = true := by
      simp [List.all_eq_true]
    simp only [List.isEmpty_cons, Bool.false_eq_true, if_false]
    by_cases h : ∀ x ∈ e :: rest, exemplarOK legacy (exemplarLabels esc x) = true
    · rw [if_pos (hiff.mpr h), if_pos ⟨by simp, h⟩]
    · rw [if_neg (fun hh => h (hiff.mp hh)), if_neg (fun hh => h hh.2)]

/-- Exposed exemplars of sums and gauges are the specified ones (this is the oracle `Spec.exemplarsFaithful` evaluated
on the real scrape): a monotonic counter shows exactly the SDK's last exemplar (value and labels) when all are
accepted, nothing when one is refused; non-monotonic sums and gauges show none. -/
theorem exemplars_faithful_num (esc : Bytes → Bytes) (legacy : Bool) (typ : MType) (q : Int) (exs : List Exemplar) :
    Spec.exemplarsFaithful esc legacy typ (.num q) exs (exemplarsOut esc legacy typ (.num q) exs) = true := by
  unfold Spec.exemplarsFaithful exemplarsOut
  simp only
  by_cases ht : (typ == MType.counter) = true
  · simp only [ht, if_true, Bool.true_and]
    rw [exemplars_accept_rule]
    by_cases hacc : exs ≠ [] ∧ ∀ e ∈ exs, exemplarOK legacy (exemplarLabels esc e) = true
    · have h1 : (!exs.isEmpty && exs.all fun e => exemplarOK legacy (exemplarLabels esc e)) = true := by
        obtain ⟨hne, hall⟩ := hacc
        cases exs with
        | nil => exact absurd rfl hne
        | cons _ _ => simpa [List.all_eq_true] using hall
      rw [if_pos hacc]
      simp only [h1, if_true, List.getLast?_map]
      cases hl : exs.getLast? with
      | none => simp [List.getLast?_eq_none_iff] at hl; exact absurd hl hacc.1
      | some e => simp
    · have h1 : (!exs.isEmpty && exs.all fun e => exemplarOK legacy (exemplarLabels esc e)) = false := by
        rw [Bool.eq_false_iff]
        intro hh
        apply hacc
        simp only [Bool.and_eq_true, Bool.not_eq_true', List.all_eq_true] at hh
        refine ⟨?_, hh.2⟩
        intro hnil; rw [hnil] at hh; simp at hh
      rw [if_neg hacc]
      simp [h1]
  · simp [ht]

/-- Native (exponential) histograms carry no exemplars. -/
theorem exemplars_faithful_expo (esc : Bytes → Bytes) (legacy : Bool) (typ : MType) (sumq : Int) (dp : ExpoDP)
    (exs : List Exemplar) :
    Spec.exemplarsFaithful esc legacy typ (.expo sumq dp) exs (exemplarsOut esc legacy typ (.expo sumq dp) exs) = true := by
  simp [Spec.exemplarsFaithful, exemplarsOut]

/-- Explicit-bucket histograms, refusal: one unacceptable exemplar and the series shows no exemplar at all. -/
theorem exemplars_hist_rejected_none (esc : Bytes → Bytes) (legacy : Bool) (typ : MType) (count : Nat) (sumq : Int)
    (bounds : List Int) (counts : List Nat) (exs : List Exemplar) (h : promExemplars esc legacy exs = none) :
    exemplarsOut esc legacy typ (.hist count sumq bounds counts) exs = [] := by
  simp [exemplarsOut, h]

/-- Explicit-bucket histograms, placement of accepted exemplars (bounds pairwise distinct — the SDK's are strictly
increasing): every exposed exemplar is one of the SDK's with its value and labels and sits in the bucket its value
belongs to (first upper bound ≥ value, else an appended +Inf bucket), every SDK exemplar's bucket shows one, each +Inf
exemplar is shown, and no classic bucket shows two; when one exemplar is refused none is shown. This is the oracle
`Spec.exemplarsFaithful` for histograms. -/
theorem exemplars_faithful_hist (esc : Bytes → Bytes) (legacy : Bool) (typ : MType) (count : Nat) (sumq : Int)
    (bounds : List Int) (counts : List Nat) (exs : List Exemplar) (hb : bounds.Nodup) :
    Spec.exemplarsFaithful esc legacy typ (.hist count sumq bounds counts) exs
      (exemplarsOut esc legacy typ (.hist count sumq bounds counts) exs) = true := by
  unfold Spec.exemplarsFaithful exemplarsOut
  simp only
  rw [exemplars_accept_rule]
  by_cases hacc : exs ≠ [] ∧ ∀ e ∈ exs, exemplarOK legacy (exemplarLabels esc e) = true
  · have h1 : (!exs.isEmpty && exs.all fun e => exemplarOK legacy (exemplarLabels esc e)) = true := by
      obtain ⟨hne, hall⟩ := hacc
      cases exs with
      | nil => exact absurd rfl hne
      | cons _ _ => simpa [List.all_eq_true] using hall
    rw [if_pos hacc]
    simp only [h1, if_true, Bool.and_eq_true, List.all_eq_true, List.any_eq_true, beq_iff_eq]
    refine ⟨⟨⟨?_, ?_⟩, ?_⟩, ?_⟩
    · intro o ho
      obtain ⟨l, hl, hol⟩ := placeHist_sound bounds _ o ho
      obtain ⟨e, he, hel⟩ := List.mem_map.mp hl
      refine ⟨e, he, ?_⟩
      rw [hol, ← hel]
      exact ⟨⟨rfl, rfl⟩, rfl⟩
    · intro e he
      obtain ⟨o, ho, hs⟩ := placeHist_complete bounds (exs.map fun e => (e.q, exemplarLabels esc e))
        (e.q, exemplarLabels esc e) (List.mem_map.mpr ⟨e, he, rfl⟩)
      exact ⟨o, ho, hs⟩
    · rw [placeHist_inf_count, List.filter_map, List.length_map]
      rfl
    · exact placeHist_slots_nodup bounds _ hb
  · have h1 : (!exs.isEmpty && exs.all fun e => exemplarOK legacy (exemplarLabels esc e)) = false := by
      rw [Bool.eq_false_iff]
      intro hh
      apply hacc
      simp only [Bool.and_eq_true, Bool.not_eq_true', List.all_eq_true] at hh
      refine ⟨?_, hh.2⟩
      intro hnil; rw [hnil] at hh; simp at hh
    rw [if_neg hacc]
    simp [h1]

/-- Collect never panics in getName, whatever the instruments are. -/
theorem collect_never_panics (esc : Bytes → Bytes) (sc : Scenario) : collectPanics esc sc = false := by
  unfold collectPanics
  simp [getName_shape]

example : getName escUnderscore ⟨false, false, false, []⟩ (b "total") [] MType.counter = some (b "total_total") := by decide
example : getName escUnderscore ⟨true, false, false, b "ns_"⟩ (b "http.duration.total") (b "s") MType.counter
    = some (b "ns_http_duration_seconds_total") := by decide
example : getName escUnderscore ⟨false, false, false, []⟩ (b "a_seconds_total") (b "s") MType.counter
    = some (b "a_seconds_total") := by decide

example : sortKV (getAttrsLegacy escUnderscore [(b "a.b", b "2"), (b "c", b "x"), (b "a_b", b "1")]) =
    [(b "a_b", b "1;2"), (b "c", b "x")] := by decide
example : Spec.histFaithful [0, 20] [1, 2, 3] 6 6 (histBuckets [0, 20] [1, 2, 3]) = true ∧
    histBuckets [0, 20] [1, 2, 3] = [(0, 1), (20, 3)] := by decide
example : (expoToNative ⟨3, 1, -2, [4, 0, 5], 7, [6], 16⟩).map (·.pos) = some [(-1, 4), (0, 0), (1, 5)] := by decide
example : (validate (Spec.famsAfter [] [(b "a", b "d1", .counter), (b "x", [], .gauge)]) (b "a") (b "d2") .gauge).2.1 = true := by
  decide

-- exemplars: 63 runes of ids + url_full (8) + 57 = 128 accepted, + 58 = 129 refused; value and labels unchanged
example : (promExemplars escUnderscore false [⟨28, [(b "url.full", List.replicate 57 97)], List.replicate 32 48, List.replicate 16 48⟩]).isSome = true ∧
    promExemplars escUnderscore false [⟨28, [(b "url.full", List.replicate 58 97)], List.replicate 32 48, List.replicate 16 48⟩] = none := by
  decide

-- legality: hypotheses are satisfiable and the conclusion is about a non-trivial name
example : Spec.apiLegalName (b "http.server/request-duration.total") = true ∧
    Spec.nsOK ⟨true, false, false, withNamespace escUnderscore true (b "my.ns")⟩ = true ∧
    Spec.refName escUnderscore ⟨true, false, false, withNamespace escUnderscore true (b "my.ns")⟩
      (b "http.server/request-duration.total") (b "ms") MType.counter = b "my_ns_http_server_request_duration_milliseconds_total" ∧
    metricNameOK true (b "my_ns_http_server_request_duration_milliseconds_total") = true := by decide
example : Spec.labelsAdmissible escUnderscore true [(b "a.b", b "1"), (b "a_b", b "2")] [b "otel_scope_name", b "otel_scope_version"] = true ∧
    Spec.labelsAdmissible escUnderscore true [(b "a:b", b "1")] [] = false := by decide
example : Spec.endsWith (Spec.refName escUnderscore ⟨false, false, false, []⟩ (b "request_seconds_total") (b "s") MType.counter)
    (b "seconds_total") = true ∧
    Spec.refName escUnderscore ⟨false, false, false, []⟩ (b "request_seconds_total") (b "s") MType.counter = b "request_seconds_total" := by
  decide

-- a whole model scrape: two scopes' worth of structure in one, a type conflict, merged legacy labels, resource labels
def exScenario : Scenario :=
  ⟨⟨true, false, false, b "ns_"⟩, false, false, true, [(b "service.name", b "svc")],
   [⟨b "m", b "v1", [⟨.sumMono, b "req.total", b "s", b "d", [⟨[(b "a.b", b "2"), (b "a_b", b "1")], .num 20, []⟩]⟩,
                      ⟨.gauge, b "req", b "s", b "other", [⟨[], .num 8, []⟩]⟩,
                      ⟨.hist, b "lat", b "ms", [], [⟨[], .hist 3 40 [0, 20] [1, 1, 1], []⟩]⟩],
     b "https://schema", [(b "tenant.id", b "a")]⟩], []⟩
example : Spec.scenarioValid escUnderscore exScenario = true ∧ (gather (collect escUnderscore exScenario)).1 = false ∧
    (collect escUnderscore exScenario).map (·.name) =
      [b "target_info", b "otel_scope_info", b "ns_req_seconds_total", b "ns_req_seconds", b "ns_lat_milliseconds"] ∧
    ((collect escUnderscore exScenario).map (·.labels.length)) = [1, 3, 4, 3, 3] := by decide
example : Spec.pointDataValid (.hist 3 40 [0, 20] [1, 1, 1]) = true ∧ Spec.pointDataValid (.hist 3 40 [0, 20] [1, 1]) = false := by
  decide

-- histogram exemplars: bucket of 12 is (0,20], 40 goes to (20,40], 1200 to an appended +Inf bucket; the later 16 replaces 12
example : exemplarsOut escUnderscore false .histogram (.hist 4 1268 [0, 20, 40] [0, 2, 1, 1])
      [⟨12, [], b "aa", b "bb"⟩, ⟨40, [], b "aa", b "bb"⟩, ⟨1200, [], b "aa", b "bb"⟩, ⟨16, [], b "aa", b "bb"⟩] =
    [⟨.bucket 20, 16, [(b "span_id", b "bb"), (b "trace_id", b "aa")]⟩, ⟨.bucket 40, 40, [(b "span_id", b "bb"), (b "trace_id", b "aa")]⟩,
     ⟨.inf, 1200, [(b "span_id", b "bb"), (b "trace_id", b "aa")]⟩] := by decide

-- presence: in exScenario the gauge "req" comes after the counter "req.total" but maps to another family: it is sent
example : (collect escUnderscore exScenario).any (fun e => e.name == b "ns_req_seconds" && e.payload == OutPayload.num 8) = true := by
  decide

-- two exporters, interleaved scrapes A B A: A's two scrapes send what they send without B (second A scrape: cache kept)
example : ((runScrapes escUnderscore (fun _ => []) [(0, exScenario), (1, { exScenario with res := [(b "k", b "other")] }), (0, exScenario)]).filter
      (fun r => r.1 == 0)).map (fun r => r.2.map (·.name)) =
    [[b "target_info", b "otel_scope_info", b "ns_req_seconds_total", b "ns_req_seconds", b "ns_lat_milliseconds"],
     [b "target_info", b "otel_scope_info", b "ns_req_seconds_total", b "ns_req_seconds", b "ns_lat_milliseconds"]] := by decide

-- caches across scrapes: scope A (tenant=a) is scraped alone, then scope B (same name and version, tenant=b) appears: the
-- second scrape has two otel_scope_info series (3 labels each) — with caches (runSeq) and without (runSeqRef)
def exSeqBase : Scenario := ⟨⟨false, false, false, []⟩, false, true, false, [], [], []⟩
def exScopeA : Scope := ⟨b "lib", b "v1", [⟨.sumMono, b "a", [], [], [⟨[], .num 12, []⟩]⟩], [], [(b "tenant", b "a")]⟩
def exScopeB : Scope := ⟨b "lib", b "v1", [⟨.sumMono, b "c", [], [], [⟨[], .num 20, []⟩]⟩], [], [(b "tenant", b "b")]⟩
example : (runSeq escUnderscore exSeqBase (CState.init exSeqBase) [.notRegistered, .data [exScopeA], .data [exScopeA, exScopeB]]).map
      (fun o => o.map (fun e => (e.name, e.labels.length))) =
    [[], [(b "otel_scope_info", 3), (b "a_total", 2)],
     [(b "otel_scope_info", 3), (b "a_total", 2), (b "otel_scope_info", 3), (b "c_total", 2)]] ∧
    (gather (collectS escUnderscore { exSeqBase with scopes := [exScopeA, exScopeB] } (CState.init exSeqBase)).1).1 = false := by
  decide
-- NewSet: a scope attribute named otel_scope_name is overwritten by the scope's name
example : scopeInfoAttrs ⟨b "lib", b "v1", [], [(b "otel_scope_name", b "x"), (b "tenant", b "a")]⟩ =
    [(b "otel_scope_name", b "lib"), (b "otel_scope_version", b "v1"), (b "tenant", b "a")] := by decide
-- a scope whose attribute key the registry refuses is remembered as invalid and skipped together with its instruments
example : (runSeq escUnderscore exSeqBase (CState.init exSeqBase)
      [.data [{ exScopeA with attrs := [(b "__reserved", b "x")] }], .data [{ exScopeA with attrs := [(b "__reserved", b "x")] }, exScopeB]]).map
      (fun o => o.map (fun e => e.name)) = [[], [b "otel_scope_info", b "c_total"]] := by decide

-- options: repeated and reordered options; the last namespace wins; a scenario built from them
example : newConfig escUnderscore true [.withNamespace (b "a"), .withoutUnits, .other, .withNamespace (b "my.ns"), .withoutUnits,
      .withResourceAsConstantLabels [b "r.a"]] =
    { withoutUnits := true, ns := b "my_ns_", resFilter := some [b "r.a"] } := by decide
example : constRes (Scenario.ofConfig false (newConfig escUnderscore false [.withResourceAsConstantLabels [b "r.a"]])
      [(b "r.a", b "1"), (b "service.name", b "svc")] []) = [(b "service.name", b "svc")] := by decide

-- two concurrent scrapes whose locked regions interleave (A.init B.init A.scopeInfo B.scopeInfo(other scope) A.validate B.validate):
-- answers are those of the sequential reading
example : (runActs escUnderscore exSeqBase (CState.init exSeqBase)
      [.init, .init, .scopeInfo exScopeA, .scopeInfo exScopeB, .scopeInfo exScopeA, .validate (b "a_total") (b "d1") .counter,
       .validate (b "a_total") (b "d2") .counter]).1.length = 7 ∧
    valOps [Act.init, .validate (b "a") [] .gauge, .scopeInfo exScopeA] = [(b "a", [], MType.gauge)] := by decide

-- family name over option lists: WithoutUnits twice, two namespaces, a reader option in between
example : getName escUnderscore (Scenario.ofConfig true (newConfig escUnderscore true
      [.withNamespace (b "x"), .withoutUnits, .other, .withNamespace (b "my.ns"), .withoutUnits]) [] []).cfg
      (b "http.duration.total") (b "s") MType.counter = some (b "my_ns_http_duration_total") := by decide
-- an attribute named trace_id cannot spoof the exemplar's trace id; a later attribute with the same escaped key wins
example : sortKV (exemplarLabels escUnderscore ⟨4, [(b "trace_id", b "spoof"), (b "a.b", b "1"), (b "a_b", b "2")], b "aa", b "bb"⟩) =
    [(b "a_b", b "2"), (b "span_id", b "bb"), (b "trace_id", b "aa")] := by decide

-- coincidence, both sides non-trivial: `__reserved` is refused, an attribute named otel_scope_name with an invalid value is harmless
example : scopeSkipped escUnderscore exSeqBase { exScopeA with attrs := [(b "__reserved", b "x")] } = true ∧
    Spec.scopeExposable escUnderscore exSeqBase { exScopeA with attrs := [(b "__reserved", b "x")] } = false ∧
    scopeSkipped escUnderscore exSeqBase { exScopeA with attrs := [(b "otel_scope_name", [255])] } = false ∧
    Spec.scopeExposable escUnderscore exSeqBase { exScopeA with attrs := [(b "otel_scope_name", [255])] } = true := by decide

end Otel.C18
