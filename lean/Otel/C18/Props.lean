/-
C18 — property theorems.
-/
import Otel.C18.Lemmas
namespace Otel.C18
open Otel Otel.C18

/-- `getName` never takes the index-out-of-range (panic) branch: for every escape function, configuration, name
(including "total", "_total", ""), unit and type. -/
theorem getName_total (esc : Bytes → Bytes) (cfg : Cfg) (name unit : Bytes) (typ : MType) :
    (getName esc cfg name unit typ).isSome = true := by
  have key : ∀ n : Bytes, (trimDelim n).isSome = true := by
    intro n
    unfold trimDelim
    split
    · split
      · rename_i h1 _ h2
        have : ∀ l : Bytes, l.length > 1 → l.getLast? ≠ none := by
          intro l hl; cases l <;> simp_all
        exact absurd h2 (this _ h1)
      · split <;> rfl
    · rfl
  unfold getName trimCounter
  simp only [Option.isSome_map]
  split
  · exact key _
  · rfl

/-- Shape of every exposed family name: `namespace ++ core ++ unitPart ++ totalPart`, where `core` is the (escaped)
instrument name minus at most one trailing `total` and one trailing delimiter (counters only), `unitPart` is
`_<suffix>` iff the unit is known ∧ units are enabled ∧ the name so far does not already end with the suffix, and
`totalPart` is `_total` iff monotonic counter ∧ counter suffixes enabled. (`Spec.refName` is this concatenation.) -/
theorem getName_shape (esc : Bytes → Bytes) (cfg : Cfg) (name unit : Bytes) (typ : MType) :
    getName esc cfg name unit typ = some (Spec.refName esc cfg name unit typ) := by
  unfold getName Spec.refName Spec.core Spec.unitPart Spec.totalPart trimCounter
  have hadd : Spec.addsTotal cfg typ = (!cfg.withoutCounterSuffixes && typ == MType.counter) := by
    unfold Spec.addsTotal; rw [Bool.and_comm]
  rw [hadd]
  generalize (if cfg.legacy = true then esc name else name) = n
  cases hA : (!cfg.withoutCounterSuffixes && typ == MType.counter)
  · simp only [Bool.false_eq_true, if_false, Option.map_some, finishName_eq, List.append_nil]
    cases unitSuffix unit <;> rfl
  · simp only [if_true, trimDelim_eq, trimTotal_eq, Option.map_some, finishName_eq]
    cases unitSuffix unit <;> rfl

/-- A unit suffix is never doubled by the exporter: when `_<suffix>` is appended, the result does not end with
`<suffix>_<suffix>`. -/
theorem getName_no_dup_unit (cfg : Cfg) (unit pre s : Bytes) (hs : unitSuffix unit = some s)
    (hadd : Spec.unitPart cfg unit pre ≠ []) :
    Spec.endsWith (pre ++ Spec.unitPart cfg unit pre) (s ++ b "_" ++ s) = false := by
  unfold Spec.unitPart at hadd ⊢
  rw [hs] at hadd ⊢
  simp only at hadd ⊢
  by_cases hc : (!cfg.withoutUnits && !Spec.endsWith pre s) = true
  · simp only [hc, if_true]
    have hne : Spec.endsWith pre s = false := by
      simp only [Bool.and_eq_true, Bool.not_eq_true'] at hc; exact hc.2
    rw [Bool.eq_false_iff]
    intro h
    rw [endsWith_iff] at h
    obtain ⟨t, ht⟩ := h
    have : t ++ s = pre := by
      have h2 : (t ++ s) ++ (b "_" ++ s) = pre ++ (b "_" ++ s) := by
        simpa [List.append_assoc] using ht
      exact List.append_cancel_right h2
    have : Spec.endsWith pre s = true := (endsWith_iff _ _).mpr ⟨t, this⟩
    rw [hne] at this; exact Bool.noConfusion this
  · simp [hc] at hadd

/-- If the unit suffix is already carried by the name so far, nothing is appended for the unit. -/
theorem getName_carried_unit (cfg : Cfg) (unit pre s : Bytes) (hs : unitSuffix unit = some s)
    (h : Spec.endsWith pre s = true) : Spec.unitPart cfg unit pre = [] := by
  unfold Spec.unitPart; rw [hs]; simp [h]

/-- `_total` carried by the instrument name is not duplicated: a counter whose (escaped) name is
`base ++ d ++ "total"` (`d` a delimiter, `base` non-empty — e.g. every API-legal `x_total`, `x.total`) is exposed
exactly like `base`: one `_total`, after the unit. -/
theorem getName_carried_total (esc : Bytes → Bytes) (cfg : Cfg) (name unit base : Bytes) (d : UInt8)
    (hcnt : cfg.withoutCounterSuffixes = false)
    (hname : (if cfg.legacy then esc name else name) = base ++ d :: b "total")
    (hbase : base ≠ []) (hd : Spec.isDelim d = true) :
    getName esc cfg name unit MType.counter =
      some (cfg.ns ++ base ++ Spec.unitPart cfg unit (cfg.ns ++ base) ++ b "_total") := by
  have h1 : Spec.stripTotal (base ++ d :: b "total") = base ++ [d] := by
    unfold Spec.stripTotal
    have he : Spec.endsWith (base ++ d :: b "total") (b "total") = true :=
      (endsWith_iff _ _).mpr ⟨base ++ [d], by simp⟩
    have hl : (base ++ d :: b "total").length = base.length + 6 := by
      simp only [List.length_append, List.length_cons]; rfl
    have hl2 : (base ++ d :: b "total").length > 5 := by omega
    simp only [he, hl2, decide_true, Bool.and_self, if_true]
    have : (base ++ d :: b "total") = (base ++ [d]) ++ b "total" := by simp
    rw [this, List.take_left']
    simp only [List.length_append, List.length_cons, List.length_nil]
    have : (b "total").length = 5 := rfl
    omega
  have h2 : Spec.stripDelim (base ++ [d]) = base := by
    unfold Spec.stripDelim
    have hr : (base ++ [d]).reverse = d :: base.reverse := by simp
    rw [hr]
    cases hb : base.reverse with
    | nil => simp at hb; exact absurd hb hbase
    | cons x r =>
      simp only [hd, if_true]
      rw [← hb]; simp
  rw [getName_shape]
  unfold Spec.refName Spec.core Spec.totalPart Spec.addsTotal
  simp only [hcnt, hname, beq_self_eq_true, Bool.not_false, Bool.and_self, if_true, h1, h2]

/-- A doubled `_total_total` can only come from what the user supplied: if the exposed name ends with
`_total_total`, then already `namespace ++ core ++ unitPart` (the name after one `total` has been removed) ends
with `_total`. -/
theorem getName_no_dup_total (esc : Bytes → Bytes) (cfg : Cfg) (name unit : Bytes) (typ : MType)
    (h : Spec.endsWith (Spec.refName esc cfg name unit typ) (b "_total_total") = true) :
    Spec.totalPart cfg typ = [] ∨
    Spec.endsWith (cfg.ns ++ Spec.core esc cfg name typ ++
      Spec.unitPart cfg unit (cfg.ns ++ Spec.core esc cfg name typ)) (b "_total") = true := by
  unfold Spec.refName at h
  unfold Spec.totalPart at h ⊢
  by_cases ha : Spec.addsTotal cfg typ = true
  · right
    simp only [ha, if_true] at h
    rw [endsWith_iff] at h ⊢
    obtain ⟨t, ht⟩ := h
    refine ⟨t, ?_⟩
    have e : b "_total_total" = b "_total" ++ b "_total" := by decide
    rw [e, ← List.append_assoc] at ht
    exact List.append_cancel_right ht
  · left; simp [ha]

/-- Legacy scheme, merging of attribute keys that collide after sanitisation: the label set is a function of the
attribute *set* — independent of the order in which the attributes are visited (`attrs₁ ~ attrs₂`) and of Go's map
iteration order (`out₁`, `out₂` are arbitrary permutations of what the model emits). Holds for every escape function. -/
theorem attrs_merge_deterministic (esc : Bytes → Bytes) (attrs₁ attrs₂ out₁ out₂ : List KV)
    (hp : attrs₁.Perm attrs₂) (h₁ : out₁.Perm (getAttrsLegacy esc attrs₁)) (h₂ : out₂.Perm (getAttrsLegacy esc attrs₂)) :
    ∀ k, out₁.lookup k = out₂.lookup k := by
  intro k
  have n₁ : (out₁.map (·.1)).Nodup := ((h₁.map (·.1)).nodup_iff).mpr (attrs_keys_nodup esc attrs₁)
  have n₂ : (out₂.map (·.1)).Nodup := ((h₂.map (·.1)).nodup_iff).mpr (attrs_keys_nodup esc attrs₂)
  apply Option.ext
  intro v
  rw [← mem_iff_lookup out₁ k v n₁, ← mem_iff_lookup out₂ k v n₂, h₁.mem_iff, h₂.mem_iff,
    mem_iff_lookup _ k v (attrs_keys_nodup esc attrs₁), mem_iff_lookup _ k v (attrs_keys_nodup esc attrs₂),
    attrs_lookup, attrs_lookup, mergedValue_perm esc hp]

/-- … and that function is the specified one: no label name twice, the value of label `k` is the sorted values of all
attributes whose sanitised key is `k`, joined with `;`, and every attribute is represented (this is the oracle
`Spec.labelsMerged` the driver evaluates on the real exporter's labels). -/
theorem attrs_merge_spec (esc : Bytes → Bytes) (attrs out : List KV) (h : out.Perm (getAttrsLegacy esc attrs)) :
    Spec.labelsMerged esc attrs out = true := by
  have nd : (out.map (·.1)).Nodup := ((h.map (·.1)).nodup_iff).mpr (attrs_keys_nodup esc attrs)
  unfold Spec.labelsMerged
  simp only [Bool.and_eq_true, List.all_eq_true, beq_iff_eq]
  refine ⟨⟨(nodupKeys_iff _).mpr nd, ?_⟩, ?_⟩
  · intro kv hkv
    have h1 : (kv.1, kv.2) ∈ getAttrsLegacy esc attrs := h.mem_iff.mp hkv
    rw [mem_iff_lookup _ _ _ (attrs_keys_nodup esc attrs), attrs_lookup] at h1
    exact h1
  · intro kv hkv
    rw [List.contains_iff_mem]
    -- the group of `esc kv.1` is not empty, so the key has a label
    have hg : kv.2 ∈ Spec.groupVals esc attrs (esc kv.1) := by
      unfold Spec.groupVals
      exact List.mem_map.mpr ⟨kv, List.mem_filter.mpr ⟨hkv, by simp⟩, rfl⟩
    have hne : (Spec.groupVals esc attrs (esc kv.1)).isEmpty = false := by
      cases hgv : Spec.groupVals esc attrs (esc kv.1) with
      | nil => rw [hgv] at hg; simp at hg
      | cons _ _ => rfl
    have hl : (getAttrsLegacy esc attrs).lookup (esc kv.1) =
        some (joinSemi (sortBytes (Spec.groupVals esc attrs (esc kv.1)))) := by
      rw [attrs_lookup]; unfold Spec.mergedValue; simp [hne]
    have hm := (mem_iff_lookup _ _ _ (attrs_keys_nodup esc attrs)).mpr hl
    have hm' := h.mem_iff.mpr hm
    exact List.mem_map.mpr ⟨_, hm', rfl⟩

/-- Explicit-bucket histograms: the exposed cumulative buckets (one per bound, the implicit `+Inf` bucket being the
exposed count) de-cumulate to exactly the SDK's bucket counts; bounds and count are unchanged. For every SDK data
point shape (`len(BucketCounts) = len(Bounds)+1`, `Count = Σ BucketCounts` — C07's invariants). -/
theorem hist_cumulative_faithful (bounds : List Int) (counts : List Nat) (count : Nat)
    (hlen : counts.length = bounds.length + 1) (hcount : count = counts.sum) :
    Spec.histFaithful bounds counts count count (histBuckets bounds counts) = true := by
  have hne : counts ≠ [] := by intro h; rw [h] at hlen; simp at hlen
  have hcum := cumulate_dropLast counts 0 hne
  have hl : bounds.length = (cumulate 0 counts.dropLast).length := by
    rw [cumulate_length, List.length_dropLast]; omega
  have hz : histBuckets bounds counts = List.zip bounds (cumulate 0 counts.dropLast) := by
    unfold histBuckets
    rw [← hcum]
    have := List.zip_append (l₁ := bounds) (r₁ := []) (l₂ := cumulate 0 counts.dropLast) (r₂ := [0 + counts.sum]) hl
    simpa using this
  unfold Spec.histFaithful
  rw [hz, List.map_fst_zip (by omega), List.map_snd_zip (by omega)]
  have hc : cumulate 0 counts.dropLast ++ [count] = cumulate 0 counts := by
    rw [hcount]; simpa using hcum
  simp only [hc, nondecr_cumulate, decum_cumulate, beq_self_eq_true, Bool.and_self]

/-- Exponential → native histogram when the scale is inside Prometheus' schema range (i.e. `¬ F28_applies`): the series
is produced, schema/zero count/count are unchanged, every SDK bucket `i` of a side with offset `o` is found at native
index `o+i+1` (same upper bound base^(o+i+1)) and no other bucket is populated. -/
theorem expo_offset_faithful (dp : ExpoDP) (hrange : Spec.F28_applies dp = false)
    (hmax : ∀ c ∈ dp.pos ++ dp.neg, c ≤ maxInt64)
    (hcount : dp.pos.sum + dp.neg.sum + dp.zeroCount = dp.count) :
    ∃ n, expoToNative dp = some n ∧ Spec.expoFaithful dp n = true := by
  have hp : ∀ c ∈ dp.pos, c ≤ maxInt64 := fun c h => hmax c (List.mem_append_left _ h)
  have hn : ∀ c ∈ dp.neg, c ≤ maxInt64 := fun c h => hmax c (List.mem_append_right _ h)
  refine ⟨⟨dp.scale, dp.zeroCount, dp.count, nativeBuckets dp.posOff 0 dp.pos, nativeBuckets dp.negOff 0 dp.neg⟩, ?_, ?_⟩
  · unfold expoToNative
    unfold Spec.F28_applies at hrange
    simp only [hrange, Bool.false_eq_true, if_false, sum_native _ _ _ hp, sum_native _ _ _ hn, hcount, bne_self_eq_false]
  · unfold Spec.expoFaithful
    simp [sideFaithful_native _ _ hp, sideFaithful_native _ _ hn]

/-- F28 (known finding), witness: one measurement aggregated at the SDK's default maximum scale 20 is not exposed. -/
theorem expo_F28_witness :
    expoToNative ⟨20, 0, 1048575, [1], 0, [], 1⟩ = none ∧ Spec.F28_applies ⟨20, 0, 1048575, [1], 0, [], 1⟩ = true := by
  decide

/-- F28, exact extent: a consistent data point is dropped iff its scale is outside −4..8. -/
theorem expo_dropped_iff_F28 (dp : ExpoDP) (hmax : ∀ c ∈ dp.pos ++ dp.neg, c ≤ maxInt64)
    (hcount : dp.pos.sum + dp.neg.sum + dp.zeroCount = dp.count) :
    expoToNative dp = none ↔ Spec.F28_applies dp = true := by
  constructor
  · intro h
    cases hf : Spec.F28_applies dp with
    | true => rfl
    | false =>
      obtain ⟨n, hn, _⟩ := expo_offset_faithful dp hf hmax hcount
      rw [h] at hn; cases hn
  · intro h
    unfold expoToNative
    unfold Spec.F28_applies at h
    simp [h]

/-- The full statement F28 refutes (kept type-checked, not proved): every consistent exponential data point is exposed. -/
def expo_always_exposed_full_statement : Prop :=
  ∀ dp : ExpoDP, (∀ c ∈ dp.pos ++ dp.neg, c ≤ maxInt64) → dp.pos.sum + dp.neg.sum + dp.zeroCount = dp.count →
    (expoToNative dp).isSome = true

/-- Type/help conflicts: after any history in which the *first* instrument mapped to family `n` had type `t1` and
description `d1`, a further instrument mapped to `n` is dropped iff its type differs; the cache is unchanged (the first
definition stays), and with the same type the description returned for the series is the first one. -/
theorem type_conflict_drops_second (pre mid : List Spec.Op) (n d1 d2 : Bytes) (t1 t2 : MType)
    (hpre : ∀ o ∈ pre, o.1 ≠ n) :
    validate (Spec.famsAfter [] (pre ++ (n, d1, t1) :: mid)) n d2 t2 =
      (Spec.famsAfter [] (pre ++ (n, d1, t1) :: mid), t1 != t2, if t1 = t2 then d1 else []) := by
  have hfind : (Spec.famsAfter [] (pre ++ (n, d1, t1) :: mid)).find? (fun f => f.name == n) = some ⟨n, d1, t1⟩ := by
    have : Spec.famsAfter [] (pre ++ (n, d1, t1) :: mid) =
        Spec.famsAfter (validate (Spec.famsAfter [] pre) n d1 t1).1 mid := by
      unfold Spec.famsAfter
      simp only [List.foldl_append, List.foldl_cons]
    rw [this]
    apply find_famsAfter_some
    apply find_validate_new
    exact find_famsAfter_none n pre [] rfl hpre
  unfold validate
  rw [hfind]
  by_cases ht : t1 = t2
  · subst ht
    by_cases hd : d1 = d2
    · subst hd; simp
    · simp [hd]
  · simp [ht]

/-- Help conflicts (full statement, after the F34 repair de0451a): after any history in which the first instrument mapped
to family `n` had description `d1` — empty or not — every later instrument of the same type mapped to `n` is kept and
its series carry exactly `d1`. -/
theorem help_conflict_first_wins (pre mid : List Spec.Op) (n d1 d2 : Bytes) (t : MType)
    (hpre : ∀ o ∈ pre, o.1 ≠ n) :
    (validate (Spec.famsAfter [] (pre ++ (n, d1, t) :: mid)) n d2 t).2 = (false, d1) := by
  rw [type_conflict_drops_second pre mid n d1 d2 t t hpre]
  simp

/-- … and therefore the registry sees one help and one type per family: every metric the `for _, m := range Metrics`
loop sends carries the help and type of the cache entry of its family name, which is the first one registered and never
changes. (Registry.Gather's "has help … but should have …" / type mismatch errors cannot be triggered by Collect.) -/
theorem collect_family_consistent (esc : Bytes → Bytes) (cfg : Cfg) (extra : List KV) :
    ∀ (insts : List Inst) (fams : List Fam), ∀ e ∈ (collectInsts esc cfg extra fams insts).2,
      (collectInsts esc cfg extra fams insts).1.find? (fun f => f.name == e.name) = some ⟨e.name, e.help, e.typ⟩ := by
  intro insts
  induction insts with
  | nil => intro fams e he; simp [collectInsts] at he
  | cons i rest ih =>
    intro fams e he
    unfold collectInsts at he ⊢
    simp only at he ⊢
    cases hn : getName esc cfg i.name i.unit i.dtype.mtype with
    | none => simp [hn] at he
    | some name =>
      simp only [hn] at he ⊢
      cases hv : validate fams name i.desc i.dtype.mtype with
      | mk fams' dh =>
        cases dh with
        | mk drop help =>
          simp only [hv] at he ⊢
          cases drop with
          | true => simp only [if_true] at he ⊢; exact ih fams' e he
          | false =>
            simp only [Bool.false_eq_true, if_false] at he ⊢
            rcases List.mem_append.mp he with h1 | h2
            · -- sent for this instrument: name/help/type are the cache entry just validated, which persists
              obtain ⟨p, _, hp⟩ := List.mem_filterMap.mp h1
              have hfields : e.name = name ∧ e.help = help ∧ e.typ = i.dtype.mtype := emitPoint_fields hp
              obtain ⟨e1, e2, e3⟩ := hfields
              rw [e1, e2, e3]
              have hentry : fams'.find? (fun f => f.name == name) = some ⟨name, help, i.dtype.mtype⟩ := by
                have := validate_entry fams name i.desc i.dtype.mtype
                rw [hv] at this; exact this rfl
              exact collectInsts_find_some esc cfg extra name _ rest fams' hentry
            · exact ih fams' e h2

/-- F34 (repaired in de0451a), documented on the OLD code: `validateMetricsOld` answered a description conflict whose
first description is empty with help "", which the old call site read as "no conflict" — the second series kept its own
help "second" although the family was registered with "". -/
theorem help_conflict_F34_old_witness :
    effectiveHelpOld (b "second")
      (validateMetricsOld [⟨b "foo_total", [], MType.counter⟩] (b "foo_total") (b "second") MType.counter).2.2 = b "second" ∧
    (validate [⟨b "foo_total", [], MType.counter⟩] (b "foo_total") (b "second") MType.counter).2.2 = [] := by
  decide

/-- Exemplars never touch the series: whatever exemplars a data point carries (accepted, refused, none), the metric that
is sent — presence, name, help, type, labels, value/buckets — is the same. (A refused exemplar costs the exemplars, not
the series; the seeded change C18-2 broke exactly this on the real code.) -/
theorem emitPoint_value_indep_exemplars (esc : Bytes → Bytes) (legacy : Bool) (name help : Bytes) (typ : MType)
    (extra : List KV) (p : Point) (exs : List Exemplar) :
    (emitPoint esc legacy name help typ extra { p with exemplars := exs }).map
        (fun e => (e.name, e.help, e.typ, e.labels, e.payload)) =
      (emitPoint esc legacy name help typ extra p).map (fun e => (e.name, e.help, e.typ, e.labels, e.payload)) := by
  unfold emitPoint
  simp only
  split
  · rfl
  · cases p.payload <;> simp [Option.map_map, Function.comp_def]

/-- The accept/reject rule: exemplars are attached iff there is at least one and *every* one is acceptable to
client_golang (label names legal, values valid UTF-8, names+values ≤ 128 runes); then all of them are passed on in
order with labels = escaped filtered attributes overwritten by trace_id/span_id; otherwise none is. -/
theorem exemplars_accept_rule (esc : Bytes → Bytes) (legacy : Bool) (exs : List Exemplar) :
    promExemplars esc legacy exs =
      if exs ≠ [] ∧ ∀ e ∈ exs, exemplarOK legacy (exemplarLabels esc e) = true
      then some (exs.map fun e => (e.q, exemplarLabels esc e)) else none := by
  unfold promExemplars
  cases exs with
  | nil => simp
  | cons e rest =>
    have hiff : (((e :: rest).map fun e => (e.q, exemplarLabels esc e)).all fun l => exemplarOK legacy l.2) = true ↔
        ∀ x ∈ e :: rest, exemplarOK legacy (exemplarLabels esc x) = true := by
      simp [List.all_eq_true]
    simp only [List.isEmpty_cons, Bool.false_eq_true, if_false]
    by_cases h : ∀ x ∈ e :: rest, exemplarOK legacy (exemplarLabels esc x) = true
    · rw [if_pos (hiff.mpr h), if_pos ⟨by simp, h⟩]
    · rw [if_neg (fun hh => h (hiff.mp hh)), if_neg (fun hh => h hh.2)]

/-- Exposed exemplars of sums and gauges are the specified ones (this is the oracle `Spec.exemplarsFaithful` evaluated
on the real scrape): a monotonic counter shows exactly the SDK's last exemplar (value and labels) when all are
accepted, nothing when one is refused; non-monotonic sums and gauges show none. -/
theorem exemplars_faithful_num (esc : Bytes → Bytes) (legacy : Bool) (typ : MType) (q : Int) (exs : List Exemplar) :
    Spec.exemplarsFaithful esc legacy typ (.num q) exs (exemplarsOut esc legacy typ (.num q) exs) = true := by
  unfold Spec.exemplarsFaithful exemplarsOut
  simp only
  by_cases ht : (typ == MType.counter) = true
  · simp only [ht, if_true, Bool.true_and]
    rw [exemplars_accept_rule]
    by_cases hacc : exs ≠ [] ∧ ∀ e ∈ exs, exemplarOK legacy (exemplarLabels esc e) = true
    · have h1 : (!exs.isEmpty && exs.all fun e => exemplarOK legacy (exemplarLabels esc e)) = true := by
        obtain ⟨hne, hall⟩ := hacc
        cases exs with
        | nil => exact absurd rfl hne
        | cons _ _ => simpa [List.all_eq_true] using hall
      rw [if_pos hacc]
      simp only [h1, if_true, List.getLast?_map]
      cases hl : exs.getLast? with
      | none => simp [List.getLast?_eq_none_iff] at hl; exact absurd hl hacc.1
      | some e => simp
    · have h1 : (!exs.isEmpty && exs.all fun e => exemplarOK legacy (exemplarLabels esc e)) = false := by
        rw [Bool.eq_false_iff]
        intro hh
        apply hacc
        simp only [Bool.and_eq_true, Bool.not_eq_true', List.all_eq_true] at hh
        refine ⟨?_, hh.2⟩
        intro hnil; rw [hnil] at hh; simp at hh
      rw [if_neg hacc]
      simp [h1]
  · simp [ht]

/-- Native (exponential) histograms carry no exemplars. -/
theorem exemplars_faithful_expo (esc : Bytes → Bytes) (legacy : Bool) (typ : MType) (sumq : Int) (dp : ExpoDP)
    (exs : List Exemplar) :
    Spec.exemplarsFaithful esc legacy typ (.expo sumq dp) exs (exemplarsOut esc legacy typ (.expo sumq dp) exs) = true := by
  simp [Spec.exemplarsFaithful, exemplarsOut]

/-- Explicit-bucket histograms, refusal: one unacceptable exemplar and the series shows no exemplar at all. -/
theorem exemplars_hist_rejected_none (esc : Bytes → Bytes) (legacy : Bool) (typ : MType) (count : Nat) (sumq : Int)
    (bounds : List Int) (counts : List Nat) (exs : List Exemplar) (h : promExemplars esc legacy exs = none) :
    exemplarsOut esc legacy typ (.hist count sumq bounds counts) exs = [] := by
  simp [exemplarsOut, h]

/-- The statement not proved (type-checked): placement of accepted exemplars on histogram buckets satisfies the oracle.
Covered by the oracle on every scrape and by the differential check only. -/
def exemplars_faithful_hist_statement : Prop :=
  ∀ (esc : Bytes → Bytes) (legacy : Bool) (typ : MType) (count : Nat) (sumq : Int) (bounds : List Int) (counts : List Nat)
    (exs : List Exemplar),
    Spec.exemplarsFaithful esc legacy typ (.hist count sumq bounds counts) exs
      (exemplarsOut esc legacy typ (.hist count sumq bounds counts) exs) = true

/-- Collect never panics in getName, whatever the instruments are. -/
theorem collect_never_panics (esc : Bytes → Bytes) (sc : Scenario) : collectPanics esc sc = false := by
  unfold collectPanics
  simp [getName_shape]

example : getName escUnderscore ⟨false, false, false, []⟩ (b "total") [] MType.counter = some (b "total_total") := by decide
example : getName escUnderscore ⟨true, false, false, b "ns_"⟩ (b "http.duration.total") (b "s") MType.counter
    = some (b "ns_http_duration_seconds_total") := by decide
example : getName escUnderscore ⟨false, false, false, []⟩ (b "a_seconds_total") (b "s") MType.counter
    = some (b "a_seconds_total") := by decide

example : sortKV (getAttrsLegacy escUnderscore [(b "a.b", b "2"), (b "c", b "x"), (b "a_b", b "1")]) =
    [(b "a_b", b "1;2"), (b "c", b "x")] := by decide
example : Spec.histFaithful [0, 20] [1, 2, 3] 6 6 (histBuckets [0, 20] [1, 2, 3]) = true ∧
    histBuckets [0, 20] [1, 2, 3] = [(0, 1), (20, 3)] := by decide
example : (expoToNative ⟨3, 1, -2, [4, 0, 5], 7, [6], 16⟩).map (·.pos) = some [(-1, 4), (0, 0), (1, 5)] := by decide
example : (validate (Spec.famsAfter [] [(b "a", b "d1", .counter), (b "x", [], .gauge)]) (b "a") (b "d2") .gauge).2.1 = true := by
  decide

-- exemplars: 63 runes of ids + url_full (8) + 57 = 128 accepted, + 58 = 129 refused; value and labels unchanged
example : (promExemplars escUnderscore false [⟨28, [(b "url.full", List.replicate 57 97)], List.replicate 32 48, List.replicate 16 48⟩]).isSome = true ∧
    promExemplars escUnderscore false [⟨28, [(b "url.full", List.replicate 58 97)], List.replicate 32 48, List.replicate 16 48⟩] = none := by
  decide

end Otel.C18
