/-
C18 — executable model of exporters/prometheus/exporter.go + config.go (core Lean only).
Mirrors the code *as it is now* (after the F21 repair, with F28 still present):
  getName (exporter.go:491-522), convertsToUnderscore (527-529), unitSuffixes (454-488),
  WithNamespace (config.go:141-157), getAttrs (402-435), validateMetrics (586-622),
  addHistogramMetric (316-344), addExponentialHistogramMetric (262-314), Collect (155-260; since d3bd916 target info and the resource
  constant labels are initialised and read in one critical section — same sequential behaviour).
External code taken as parameters / modelled contracts: model.EscapeName (parameter `esc`; the concrete
instance `escUnderscore` is what the driver uses and is differentially tested), client_golang's NewDesc /
NewConstNativeHistogram validation and Registry.Gather bookkeeping (`descOK`, `expoToNative`, `gather`).
-/
import Otel.Base.Wire
import Otel.Base.Utf8
namespace Otel.C18
open Otel

/-- ASCII string literal as Go string bytes (kernel-reducible). -/
def b (s : String) : Bytes := s.toList.map (fun c => UInt8.ofNat c.toNat)

abbrev KV := Bytes × Bytes

/-- dto.MetricType values the exporter produces (metricType, exporter.go:531-551) -/
inductive MType | counter | gauge | histogram
deriving DecidableEq, Repr

structure Cfg where
  legacy : Bool                  -- model.NameValidationScheme != model.UTF8Validation
  withoutUnits : Bool
  withoutCounterSuffixes : Bool
  ns : Bytes                     -- collector.namespace (already processed by WithNamespace)
deriving Repr

/-! ### strings helpers -/

/-- strings.HasSuffix -/
def hasSuffix (s suf : Bytes) : Bool := (s.drop (s.length - suf.length)) == suf

/-- strings.TrimSuffix -/
def trimSuffix (s suf : Bytes) : Bytes := if hasSuffix s suf then s.take (s.length - suf.length) else s

/-- unitSuffixes (exporter.go:454-488) -/
def unitTable : List (Bytes × Bytes) := [
  (b "d", b "days"), (b "h", b "hours"), (b "min", b "minutes"), (b "s", b "seconds"),
  (b "ms", b "milliseconds"), (b "us", b "microseconds"), (b "ns", b "nanoseconds"),
  (b "By", b "bytes"), (b "KiBy", b "kibibytes"), (b "MiBy", b "mebibytes"), (b "GiBy", b "gibibytes"),
  (b "TiBy", b "tibibytes"), (b "KBy", b "kilobytes"), (b "MBy", b "megabytes"), (b "GBy", b "gigabytes"),
  (b "TBy", b "terabytes"),
  (b "m", b "meters"), (b "V", b "volts"), (b "A", b "amperes"), (b "J", b "joules"), (b "W", b "watts"),
  (b "g", b "grams"),
  (b "Cel", b "celsius"), (b "Hz", b "hertz"), (b "1", b "ratio"), (b "%", b "percent")]

def unitSuffix (u : Bytes) : Option Bytes := unitTable.lookup u

/-- convertsToUnderscore(rune(name[len(name)-1])): the argument is one *byte* widened to a rune -/
def convertsToUnderscore (c : UInt8) : Bool :=
  (c.toNat < 97 || c.toNat > 122) && (c.toNat < 65 || c.toNat > 90) && c.toNat != 58 && (c.toNat < 48 || c.toNat > 57)

def counterSuffix : Bytes := b "total"
def underscore : Bytes := b "_"

/-- `if trimmed := strings.TrimSuffix(name, counterSuffix); trimmed != "" { name = trimmed }` (F21 repair: only
trim the suffix if something other than the suffix remains) -/
def trimTotal (name : Bytes) : Bytes :=
  let trimmed := trimSuffix name counterSuffix
  if trimmed != [] then trimmed else name

/-- `if len(name) > 1 && convertsToUnderscore(rune(name[len(name)-1])) { name = name[:len(name)-1] }`.
`none` = the index-out-of-range panic of `name[len(name)-1]`. -/
def trimDelim (name : Bytes) : Option Bytes :=
  if name.length > 1 then
    match name.getLast? with          -- name[len(name)-1]
    | none => none                    -- would be the panic
    | some c => if convertsToUnderscore c then some name.dropLast else some name
  else some name

/-- the `if addCounterSuffix { … }` block of getName (exporter.go:499-511) -/
def trimCounter (name : Bytes) : Option Bytes := trimDelim (trimTotal name)

/-- namespace, unit suffix, counter suffix (exporter.go:512-521) -/
def finishName (cfg : Cfg) (unit : Bytes) (addCounterSuffix : Bool) (name : Bytes) : Bytes :=
  let name := if cfg.ns != [] then cfg.ns ++ name else name
  let name := match unitSuffix unit with
    | some suffix => if !cfg.withoutUnits && !hasSuffix name suffix then name ++ underscore ++ suffix else name
    | none => name
  if addCounterSuffix then name ++ underscore ++ counterSuffix else name

/-- getName (exporter.go:491-522) -/
def getName (esc : Bytes → Bytes) (cfg : Cfg) (name unit : Bytes) (typ : MType) : Option Bytes :=
  let name := if cfg.legacy then esc name else name
  let addCounterSuffix := !cfg.withoutCounterSuffixes && typ == MType.counter
  (if addCounterSuffix then trimCounter name else some name).map (finishName cfg unit addCounterSuffix)

/-- WithNamespace (config.go:141-157) -/
def withNamespace (esc : Bytes → Bytes) (legacy : Bool) (ns : Bytes) : Bytes :=
  let ns := if legacy then esc ns else ns
  if hasSuffix ns underscore then ns else ns ++ underscore

/-! ### options (config.go): newConfig folds the options over the zero config, New copies the fields into the collector -/

/-- the exporter options that reach the collector; `other` = WithRegisterer / WithAggregationSelector / WithProducer
(registerer and reader options: no influence on what Collect does with the data) -/
inductive Opt
  | withoutTargetInfo | withoutUnits | withoutCounterSuffixes | withoutScopeInfo
  | withNamespace (ns : Bytes)
  | withResourceAsConstantLabels (deny : List Bytes)   -- the filter, given by the keys it rejects
  | other
deriving Repr, DecidableEq

/-- config (config.go:19-28) / the collector fields New copies from it (exporter.go:119-130) -/
structure Config where
  disableTargetInfo : Bool := false
  withoutUnits : Bool := false
  withoutCounterSuffixes : Bool := false
  disableScopeInfo : Bool := false
  ns : Bytes := []
  resFilter : Option (List Bytes) := none     -- resourceAttributesFilter (nil = option not given)
deriving Repr, DecidableEq

/-- Option.apply (config.go:90-168) -/
def Opt.apply (esc : Bytes → Bytes) (legacy : Bool) (c : Config) : Opt → Config
  | .withoutTargetInfo => { c with disableTargetInfo := true }
  | .withoutUnits => { c with withoutUnits := true }
  | .withoutCounterSuffixes => { c with withoutCounterSuffixes := true }
  | .withoutScopeInfo => { c with disableScopeInfo := true }
  | .withNamespace ns => { c with ns := _root_.Otel.C18.withNamespace esc legacy ns }
  | .withResourceAsConstantLabels deny => { c with resFilter := some deny }
  | .other => c

/-- newConfig (config.go:37-48): the options applied in the order given -/
def newConfig (esc : Bytes → Bytes) (legacy : Bool) (opts : List Opt) : Config :=
  opts.foldl (Opt.apply esc legacy) {}

/-! ### model.EscapeName(·, UnderscoreEscaping) — concrete instance used by the driver -/

def validLegacyRune (r i : Nat) : Bool :=
  (97 ≤ r && r ≤ 122) || (65 ≤ r && r ≤ 90) || r == 95 || r == 58 || (48 ≤ r && r ≤ 57 && i > 0)

def escAux : Nat → List Utf8.Chunk → Bytes
  | _, [] => []
  | i, c :: cs => (if validLegacyRune c.rune i then UInt8.ofNat c.rune else 95) :: escAux (i + c.bytes.length) cs

/-- one output byte per rune of the input (`for i, b := range name`): the rune itself if legacy-valid, else `_` -/
def escUnderscore (s : Bytes) : Bytes := escAux 0 (Utf8.chunks s)

/-! ### getAttrs -/

/-- Go string `<=` (bytewise lexicographic) -/
def bytesLe : Bytes → Bytes → Bool
  | [], _ => true
  | _ :: _, [] => false
  | x :: xs, y :: ys => x.toNat < y.toNat || (x.toNat == y.toNat && bytesLe xs ys)

def insertSorted (x : Bytes) : List Bytes → List Bytes
  | [] => [x]
  | y :: ys => if bytesLe x y then x :: y :: ys else y :: insertSorted x ys

/-- slices.Sort(vals) (contract: the sorted permutation) -/
def sortBytes : List Bytes → List Bytes
  | [] => []
  | x :: xs => insertSorted x (sortBytes xs)

/-- strings.Join(vals, ";") -/
def joinSemi : List Bytes → Bytes
  | [] => []
  | [x] => x
  | x :: y :: r => x ++ (59 :: joinSemi (y :: r))

/-- `keysMap[key] = append(keysMap[key], v)` on an insertion-ordered association list -/
def insertVal (m : List (Bytes × List Bytes)) (k v : Bytes) : List (Bytes × List Bytes) :=
  match m with
  | [] => [(k, [v])]
  | (k', vs) :: rest => if k' == k then (k', vs ++ [v]) :: rest else (k', vs) :: insertVal rest k v

def keysMap (esc : Bytes → Bytes) (attrs : List KV) : List (Bytes × List Bytes) :=
  attrs.foldl (fun m kv => insertVal m (esc kv.1) kv.2) []

/-- legacy branch of getAttrs; the order of the result is one of the orders Go's map iteration may produce -/
def getAttrsLegacy (esc : Bytes → Bytes) (attrs : List KV) : List KV :=
  (keysMap esc attrs).map fun p => (p.1, joinSemi (sortBytes p.2))

def getAttrs (esc : Bytes → Bytes) (legacy : Bool) (attrs : List KV) : List KV :=
  if legacy then getAttrsLegacy esc attrs else attrs

/-! ### validateMetrics -/

structure Fam where
  name : Bytes
  help : Bytes
  typ : MType
deriving Repr, DecidableEq

/-- validateMetrics (exporter.go:586-622, after de0451a): returns (new cache, drop, help) where help is the description
the series must carry: the new one when the family is new or the description is equal, the first registered one on a
description conflict (it may be empty); "" when dropped. Collect assigns it unconditionally (`m.Description = help`). -/
def validate (fams : List Fam) (name desc : Bytes) (typ : MType) : List Fam × Bool × Bytes :=
  match fams.find? (fun f => f.name == name) with
  | none => (fams ++ [⟨name, desc, typ⟩], false, desc)
  | some emf =>
    if emf.typ != typ then (fams, true, [])
    else if emf.help != desc then (fams, false, emf.help)
    else (fams, false, desc)

/-! #### the repaired defect F34, kept for documentation: validateMetrics and its call site before de0451a -/

/-- validateMetrics before de0451a: help "" meant "no conflict" -/
def validateMetricsOld (fams : List Fam) (name desc : Bytes) (typ : MType) : List Fam × Bool × Bytes :=
  match fams.find? (fun f => f.name == name) with
  | none => (fams ++ [⟨name, desc, typ⟩], false, [])
  | some emf =>
    if emf.typ != typ then (fams, true, [])
    else if emf.help != desc then (fams, false, emf.help)
    else (fams, false, [])

/-- the old call site: `if help != "" { m.Description = help }` -/
def effectiveHelpOld (desc help : Bytes) : Bytes := if help != [] then help else desc

/-! ### explicit-bucket histogram -/

def cumulate : Nat → List Nat → List Nat
  | _, [] => []
  | acc, c :: cs => (acc + c) :: cumulate (acc + c) cs

/-- `buckets[bound] = cumulativeCount` for the i-th bound (bounds strictly increasing: SDK invariant) -/
def histBuckets (bounds : List Int) (counts : List Nat) : List (Int × Nat) :=
  List.zip bounds (cumulate 0 counts)

/-! ### exponential histogram → native histogram -/

structure ExpoDP where
  scale : Int
  zeroCount : Nat
  posOff : Int
  pos : List Nat
  negOff : Int
  neg : List Nat
  count : Nat
deriving Repr

structure Native where
  schema : Int
  zeroCount : Nat
  count : Nat
  pos : List (Int × Nat)
  neg : List (Int × Nat)
deriving Repr, DecidableEq

def maxInt64 : Nat := 9223372036854775807

/-- `positiveBuckets[int(Offset)+i+1] = int64(c)`, skipping counts above MaxInt64 -/
def nativeBuckets (off : Int) : Nat → List Nat → List (Int × Nat)
  | _, [] => []
  | i, c :: cs =>
    if c > maxInt64 then nativeBuckets off (i + 1) cs
    else (off + i + 1, c) :: nativeBuckets off (i + 1) cs

def sumCounts (l : List (Int × Nat)) : Nat := (l.map (·.2)).sum

/-- NewConstNativeHistogram: schema range check (F28 lives here), then validateCount. `none` = error handled,
series not sent. -/
def expoToNative (dp : ExpoDP) : Option Native :=
  if dp.scale > 8 || dp.scale < -4 then none
  else
    let p := nativeBuckets dp.posOff 0 dp.pos
    let n := nativeBuckets dp.negOff 0 dp.neg
    if sumCounts p + sumCounts n + dp.zeroCount != dp.count then none
    else some ⟨dp.scale, dp.zeroCount, dp.count, p, n⟩

/-! ### Collect + Registry.Gather (end to end) -/

inductive DType | sumMono | sumNon | gauge | hist | expo
deriving DecidableEq, Repr

/-- metricType -/
def DType.mtype : DType → MType
  | .sumMono => .counter
  | .sumNon => .gauge
  | .gauge => .gauge
  | .hist => .histogram
  | .expo => .histogram

/-- numeric values travel as exact integers in quarter units (value × 4) -/
inductive Payload
  | num (q : Int)
  | hist (count : Nat) (sumq : Int) (bounds : List Int) (counts : List Nat)
  | expo (sumq : Int) (dp : ExpoDP)
deriving Repr

/-- metricdata.Exemplar as handed to the exporter: value (quarter units), the attributes a View's filter dropped (in
slice order, values already emitted), trace and span id as lower-case hex text -/
structure Exemplar where
  q : Int
  attrs : List KV
  traceId : Bytes
  spanId : Bytes
deriving Repr

structure Point where
  attrs : List KV      -- in attribute.Set iteration order
  payload : Payload
  exemplars : List Exemplar := []
deriving Repr

structure Inst where
  dtype : DType
  name : Bytes
  unit : Bytes
  desc : Bytes
  points : List Point
deriving Repr

structure Scope where
  name : Bytes
  version : Bytes
  insts : List Inst
  schemaURL : Bytes := []   -- instrumentation.Scope.SchemaURL: part of the scope's identity (cache key), never exposed
  attrs : List KV := []     -- instrumentation.Scope.Attributes in attribute.Set order (sorted by key, distinct keys), values emitted
deriving Repr

/-- instrumentation.Scope as a comparable Go value: the key of collector.scopeInfos / scopeInfosInvalid -/
structure ScopeKey where
  name : Bytes
  version : Bytes
  schemaURL : Bytes
  attrs : List KV
deriving Repr, DecidableEq

def Scope.key (s : Scope) : ScopeKey := ⟨s.name, s.version, s.schemaURL, s.attrs⟩

structure Scenario where
  cfg : Cfg
  noScope : Bool
  noTarget : Bool
  resConst : Bool        -- WithResourceAsConstantLabels(filter accepting every key)
  res : List KV          -- resource attributes in Set order
  scopes : List Scope
  resDeny : List Bytes := []   -- the resource attribute filter of WithResourceAsConstantLabels rejects exactly these keys
deriving Repr

/-- the scenario a collector built from these options runs (New, exporter.go:119-130) -/
def Scenario.ofConfig (legacy : Bool) (c : Config) (res : List KV) (scopes : List Scope) : Scenario :=
  ⟨⟨legacy, c.withoutUnits, c.withoutCounterSuffixes, c.ns⟩, c.disableScopeInfo, c.disableTargetInfo,
   c.resFilter.isSome, res, scopes, c.resFilter.getD []⟩

/-- `res.Set().Filter(c.resourceAttributesFilter)` (createResourceAttributes, exporter.go:556-560): the resource
attributes the filter accepts, in Set order -/
def constRes (sc : Scenario) : List KV := sc.res.filter (fun kv => !sc.resDeny.contains kv.1)

inductive OutPayload
  | num (q : Int)
  | hist (count : Nat) (sumq : Int) (buckets : List (Int × Nat))
  | native (sumq : Int) (n : Native)
deriving Repr, DecidableEq

/-- where an exposed exemplar sits: on the counter, on the classic bucket with this upper bound, or on an appended
`+Inf` bucket -/
inductive Slot | counter | bucket (bound : Int) | inf
deriving Repr, DecidableEq

structure ExOut where
  slot : Slot
  q : Int
  labels : List KV     -- sorted by name
deriving Repr, DecidableEq

/-- one prometheus.Metric sent on the channel -/
structure Emitted where
  name : Bytes
  help : Bytes
  typ : MType
  labels : List KV        -- in Desc order (variable labels); Gather sorts them by name
  payload : OutPayload
  ex : List ExOut := []
deriving Repr

/-- model.LabelName.IsValid + reserved prefix (checkLabelName) -/
def legacyLabelByte (c : UInt8) (first : Bool) : Bool :=
  (97 ≤ c.toNat && c.toNat ≤ 122) || (65 ≤ c.toNat && c.toNat ≤ 90) || c.toNat == 95 || (48 ≤ c.toNat && c.toNat ≤ 57 && !first)

def legacyLabelAux : Bool → Bytes → Bool
  | _, [] => true
  | first, c :: cs => legacyLabelByte c first && legacyLabelAux false cs

def labelNameOK (legacy : Bool) (l : Bytes) : Bool :=
  l != [] && (if legacy then legacyLabelAux true l else Utf8.validString l) && !(l.take 2 == b "__")

def legacyMetricByte (c : UInt8) (first : Bool) : Bool := legacyLabelByte c first || c.toNat == 58

def legacyMetricAux : Bool → Bytes → Bool
  | _, [] => true
  | first, c :: cs => legacyMetricByte c first && legacyMetricAux false cs

/-- model.IsValidMetricName -/
def metricNameOK (legacy : Bool) (n : Bytes) : Bool :=
  n != [] && (if legacy then legacyMetricAux true n else Utf8.validString n)

def nodupKeys : List Bytes → Bool
  | [] => true
  | k :: ks => !ks.contains k && nodupKeys ks

/-- NewDesc succeeds (desc.err == nil) -/
def descOK (legacy : Bool) (name : Bytes) (labels : List KV) : Bool :=
  metricNameOK legacy name && labels.all (fun kv => labelNameOK legacy kv.1) && nodupKeys (labels.map (·.1))

/-- validateLabelValues (NewConstMetric / NewConstHistogram / NewConstNativeHistogram): every label value is valid UTF-8 -/
def valuesOK (labels : List KV) : Bool := labels.all (fun kv => Utf8.validString kv.2)

/-- the constructor chain NewDesc + NewConst* succeeds -/
def metricOK (legacy : Bool) (name : Bytes) (labels : List KV) : Bool := descOK legacy name labels && valuesOK labels

def scopeNameLabel : Bytes := b "otel_scope_name"
def scopeVersionLabel : Bytes := b "otel_scope_version"

def insertKV (x : KV) : List KV → List KV
  | [] => [x]
  | y :: ys => if bytesLe x.1 y.1 then x :: y :: ys else y :: insertKV x ys

/-- label pairs sorted by name (MakeLabelPairs + LabelPairSorter) -/
def sortKV : List KV → List KV
  | [] => []
  | x :: xs => insertKV x (sortKV xs)

/-! ### exemplars (addExemplars, attributesToLabels; client_golang NewMetricWithExemplars / newExemplar by contract) -/

/-- `labels[k] = v` on a Go map kept as an association list -/
def setLabel (m : List KV) (k v : Bytes) : List KV :=
  match m with
  | [] => [(k, v)]
  | (k', v') :: rest => if k' == k then (k', v) :: rest else (k', v') :: setLabel rest k v

/-- attributesToLabels (keys always go through model.EscapeName, later attributes overwrite earlier ones), then
trace_id / span_id overwrite -/
def exemplarLabels (esc : Bytes → Bytes) (e : Exemplar) : List KV :=
  setLabel (setLabel (e.attrs.foldl (fun m kv => setLabel m (esc kv.1) kv.2) []) (b "trace_id") e.traceId) (b "span_id") e.spanId

def labelRunes (labels : List KV) : Nat := (labels.map fun kv => Utf8.runeCount kv.1 + Utf8.runeCount kv.2).sum

/-- newExemplar accepts: every label name passes checkLabelName, every value is valid UTF-8, and names+values hold at
most ExemplarMaxRunes = 128 runes -/
def exemplarOK (legacy : Bool) (labels : List KV) : Bool :=
  labels.all (fun kv => labelNameOK legacy kv.1 && Utf8.validString kv.2) && decide (labelRunes labels ≤ 128)

/-- addExemplars: `none` = the metric is sent without exemplars (no exemplars, or NewMetricWithExemplars refused one of
them: all or nothing); `some` = the validated exemplars in order -/
def promExemplars (esc : Bytes → Bytes) (legacy : Bool) (exs : List Exemplar) : Option (List (Int × List KV)) :=
  if exs.isEmpty then none
  else
    let ls := exs.map fun e => (e.q, exemplarLabels esc e)
    if ls.all (fun l => exemplarOK legacy l.2) then some ls else none

/-- withExemplarsMetric.Write for histograms: first bucket whose upper bound is ≥ the value, else a new +Inf bucket -/
def bucketSlot (bounds : List Int) (q : Int) : Slot :=
  match bounds.find? (fun bd => decide (bd ≥ q)) with
  | some bd => .bucket bd
  | none => .inf

def placeHist (bounds : List Int) (exs : List (Int × List KV)) : List ExOut :=
  (bounds.filterMap fun bd =>
    ((exs.filter fun e => bucketSlot bounds e.1 == Slot.bucket bd).getLast?).map fun e => ⟨.bucket bd, e.1, sortKV e.2⟩) ++
  ((exs.filter fun e => bucketSlot bounds e.1 == Slot.inf).map fun e => ⟨.inf, e.1, sortKV e.2⟩)

/-- the exemplars exposed on one series: monotonic counters carry the last one, explicit-bucket histograms one per
bucket; gauges, non-monotonic sums and native histograms none -/
def exemplarsOut (esc : Bytes → Bytes) (legacy : Bool) (typ : MType) (payload : Payload) (exs : List Exemplar) : List ExOut :=
  match payload with
  | .num _ =>
    if typ == MType.counter then
      match promExemplars esc legacy exs with
      | some ls => match ls.getLast? with
        | some e => [⟨.counter, e.1, sortKV e.2⟩]
        | none => []
      | none => []
    else []
  | .hist _ _ bounds _ =>
    match promExemplars esc legacy exs with
    | some ls => placeHist bounds ls
    | none => []
  | .expo _ _ => []

/-- add*Metric for one data point: `none` = error handled, nothing sent -/
def emitPoint (esc : Bytes → Bytes) (legacy : Bool) (name help : Bytes) (typ : MType) (extra : List KV) (p : Point) :
    Option Emitted :=
  let labels := getAttrs esc legacy p.attrs ++ extra
  if !metricOK legacy name labels then none
  else match p.payload with
    | .num q => some ⟨name, help, typ, labels, .num q, exemplarsOut esc legacy typ p.payload p.exemplars⟩
    | .hist count sumq bounds counts =>
      some ⟨name, help, typ, labels, .hist count sumq (histBuckets bounds counts), exemplarsOut esc legacy typ p.payload p.exemplars⟩
    | .expo sumq dp => (expoToNative dp).map fun n => ⟨name, help, typ, labels, .native sumq n, []⟩

/-- the `for _, m := range scopeMetrics.Metrics` loop -/
def collectInsts (esc : Bytes → Bytes) (cfg : Cfg) (extra : List KV) :
    List Fam → List Inst → List Fam × List Emitted
  | fams, [] => (fams, [])
  | fams, i :: rest =>
    let typ := i.dtype.mtype
    match getName esc cfg i.name i.unit typ with
    | none => (fams, [])   -- panic; callers check `collectPanics` first
    | some name =>
      let (fams', drop, help) := validate fams name i.desc typ
      if drop then collectInsts esc cfg extra fams' rest
      else
        let h := help
        let out := i.points.filterMap (emitPoint esc cfg.legacy name h typ extra)
        let (f2, o2) := collectInsts esc cfg extra fams' rest
        (f2, out ++ o2)

/-- one step of attribute.NewSet on a key-sorted list without duplicate keys: a later pair with an existing key
replaces it ("last value wins"), otherwise the pair is inserted at its place in key order -/
def setInsert (x : KV) : List KV → List KV
  | [] => [x]
  | y :: ys => if x.1 == y.1 then x :: ys else if bytesLe x.1 y.1 then x :: y :: ys else y :: setInsert x ys

/-- attribute.NewSet(kvs...) for valid key/value pairs: sorted by key, one pair per key, the last one given wins -/
def newSet (kvs : List KV) : List KV := kvs.foldl (fun s x => setInsert x s) []

/-- the attribute set createScopeInfoMetric builds (exporter.go:445-451): the scope attributes followed by
otel_scope_name and otel_scope_version, through attribute.NewSet — a scope attribute with one of these two keys is
overwritten -/
def scopeInfoAttrs (k : ScopeKey) : List KV :=
  newSet (k.attrs ++ [(scopeNameLabel, k.name), (scopeVersionLabel, k.version)])

/-- createScopeInfoMetric (exporter.go:445-454) as a function of the scope identity (the schema URL plays no role) -/
def scopeInfoOfKey (esc : Bytes → Bytes) (legacy : Bool) (k : ScopeKey) : Option Emitted :=
  let labels := getAttrs esc legacy (scopeInfoAttrs k)
  if metricOK legacy (b "otel_scope_info") labels then
    some ⟨b "otel_scope_info", b "Instrumentation Scope metadata", .gauge, labels, .num 4, []⟩
  else none

def scopeInfoMetric (esc : Bytes → Bytes) (legacy : Bool) (s : Scope) : Option Emitted := scopeInfoOfKey esc legacy s.key

/-- the labels appended to every series of a scope: scope name/version unless WithoutScopeInfo, then the resource
constant labels -/
def scopeExtra (sc : Scenario) (resKV : List KV) (s : Scope) : List KV :=
  (if sc.noScope then [] else [(scopeNameLabel, s.name), (scopeVersionLabel, s.version)]) ++ resKV

/-- scope info enabled but the scope info metric cannot be created: the whole scope is skipped (`continue`) -/
def scopeSkipped (esc : Bytes → Bytes) (sc : Scenario) (s : Scope) : Bool :=
  !sc.noScope && (scopeInfoMetric esc sc.cfg.legacy s).isNone

/-- the `for _, scopeMetrics := range metrics.ScopeMetrics` loop; the family cache is threaded through -/
def collectScopes (esc : Bytes → Bytes) (sc : Scenario) (resKV : List KV) : List Fam → List Scope → List Emitted
  | _, [] => []
  | fams, s :: rest =>
    if scopeSkipped esc sc s then collectScopes esc sc resKV fams rest
    else
      let r := collectInsts esc sc.cfg (scopeExtra sc resKV s) fams s.insts
      (if sc.noScope then [] else (scopeInfoMetric esc sc.cfg.legacy s).toList) ++ r.2 ++
        collectScopes esc sc resKV r.1 rest

/-- the family cache after the loop -/
def scopesFams (esc : Bytes → Bytes) (sc : Scenario) (resKV : List KV) : List Fam → List Scope → List Fam
  | fams, [] => fams
  | fams, s :: rest =>
    if scopeSkipped esc sc s then scopesFams esc sc resKV fams rest
    else scopesFams esc sc resKV (collectInsts esc sc.cfg (scopeExtra sc resKV s) fams s.insts).1 rest

/-- does some getName call of this scrape panic? -/
def collectPanics (esc : Bytes → Bytes) (sc : Scenario) : Bool :=
  sc.scopes.any fun s => s.insts.any fun i => (getName esc sc.cfg i.name i.unit i.dtype.mtype).isNone

/-- Collect on an exporter that is not (yet) registered with a MeterProvider: reader.Collect returns
ErrReaderNotRegistered, the error is handled and Collect returns before anything is initialised or sent (exporter.go:158-167);
in particular no target_info is created (and cached) from a resource that is not there yet. -/
def collectNotRegistered : List Emitted := []

/-- createInfoMetric(target_info, …, resource) -/
def targetInfoMetric (esc : Bytes → Bytes) (sc : Scenario) : Emitted :=
  ⟨b "target_info", b "Target metadata", .gauge, getAttrs esc sc.cfg.legacy sc.res, .num 4, []⟩

/-- `e` is what add*Metric sent for data point `p` of instrument `i` (with these scope/resource labels) -/
def FromPoint (esc : Bytes → Bytes) (cfg : Cfg) (extra : List KV) (i : Inst) (p : Point) (e : Emitted) : Prop :=
  ∃ name help, getName esc cfg i.name i.unit i.dtype.mtype = some name ∧
    emitPoint esc cfg.legacy name help i.dtype.mtype extra p = some e

/-- Collect: everything sent on the channel, in order -/
def collect (esc : Bytes → Bytes) (sc : Scenario) : List Emitted :=
  let tlabels := getAttrs esc sc.cfg.legacy sc.res
  let target : List Emitted :=
    if !sc.noTarget && metricOK sc.cfg.legacy (b "target_info") tlabels then [targetInfoMetric esc sc] else []
  let resKV := if sc.resConst then getAttrs esc sc.cfg.legacy (constRes sc) else []
  target ++ collectScopes esc sc resKV [] sc.scopes

/-! ### several exporters, several scrapes

The only state a collector keeps between scrapes that influences what it sends is its family cache
(`collector.metricFamilies`); target info / scope info / resource labels are cached functions of constant inputs. The
ResourceMetrics buffer comes from a package-level pool, but it is (must be) private to one Collect call: the model has no
shared buffer. -/

/-- one scrape of an exporter whose cache is `fams`: what is sent, and the cache afterwards -/
def collectFrom (esc : Bytes → Bytes) (sc : Scenario) (fams : List Fam) : List Emitted × List Fam :=
  let tlabels := getAttrs esc sc.cfg.legacy sc.res
  let target : List Emitted :=
    if !sc.noTarget && metricOK sc.cfg.legacy (b "target_info") tlabels then [targetInfoMetric esc sc] else []
  let resKV := if sc.resConst then getAttrs esc sc.cfg.legacy (constRes sc) else []
  (target ++ collectScopes esc sc resKV fams sc.scopes, scopesFams esc sc resKV fams sc.scopes)

/-- the process: exporter id ↦ family cache of its collector -/
abbrev World := Nat → List Fam

/-- a scrape of exporter `id`, whose SDK currently holds the data `sc` -/
abbrev ScrapeOp := Nat × Scenario

/-- scrapes executed one after the other in any interleaving order; result: (exporter id, what that scrape sent) -/
def runScrapes (esc : Bytes → Bytes) : World → List ScrapeOp → List (Nat × List Emitted)
  | _, [] => []
  | w, (id, sc) :: rest =>
    let r := collectFrom esc sc (w id)
    (id, r.1) :: runScrapes esc (fun j => if j == id then r.2 else w j) rest

/-! ### the collector's caches across scrapes of ONE exporter (collector.targetInfo / disableTargetInfo /
resourceKeyVals / scopeInfos / scopeInfosInvalid / metricFamilies, exporter.go:97-103)

`collectS` is Collect with every cache the real collector keeps; `collectFrom` above is the cache-free reading (only the
family cache is threaded). Props: `collectS_refines` — on every state reachable from `CState.init` both send the same. -/

structure CState where
  fams : List Fam := []                              -- metricFamilies
  scopeInfos : List (ScopeKey × Emitted) := []       -- scopeInfos (a Go map: newest first, looked up by key)
  scopeInvalid : List ScopeKey := []                 -- scopeInfosInvalid
  target : Option Emitted := none                    -- targetInfo (nil until created)
  disableTarget : Bool := false                      -- disableTargetInfo (option, or set when target_info is invalid)
  resKV : List KV := []                              -- resourceKeyVals

/-- New(): empty caches, disableTargetInfo from the option -/
def CState.init (sc : Scenario) : CState := { disableTarget := sc.noTarget }

/-- collector.scopeInfo (exporter.go:562-584): cached metric, cached refusal, or create and remember either outcome.
`none` = errScopeInvalid / "cannot create scope info metric" (Collect skips the scope in both cases). -/
def scopeInfoCached (esc : Bytes → Bytes) (legacy : Bool) (st : CState) (s : Scope) : CState × Option Emitted :=
  match st.scopeInfos.lookup s.key with
  | some m => (st, some m)
  | none =>
    if st.scopeInvalid.contains s.key then (st, none)
    else match scopeInfoOfKey esc legacy s.key with
      | none => ({ st with scopeInvalid := s.key :: st.scopeInvalid }, none)
      | some m => ({ st with scopeInfos := (s.key, m) :: st.scopeInfos }, some m)

/-- the `for _, scopeMetrics := range metrics.ScopeMetrics` loop with the scope-info caches and the family cache -/
def collectScopesS (esc : Bytes → Bytes) (sc : Scenario) (resKV : List KV) : CState → List Scope → List Emitted × CState
  | st, [] => ([], st)
  | st, s :: rest =>
    let c := if sc.noScope then (st, none) else scopeInfoCached esc sc.cfg.legacy st s
    if !sc.noScope && c.2.isNone then collectScopesS esc sc resKV c.1 rest
    else
      let r := collectInsts esc sc.cfg (scopeExtra sc resKV s) c.1.fams s.insts
      let t := collectScopesS esc sc resKV { c.1 with fams := r.1 } rest
      (c.2.toList ++ r.2 ++ t.1, t.2)

/-- `if c.targetInfo == nil && !c.disableTargetInfo { create, or disable on error }` (exporter.go:177-186) -/
def initTarget (esc : Bytes → Bytes) (sc : Scenario) (st : CState) : CState :=
  if st.target.isNone && !st.disableTarget then
    if metricOK sc.cfg.legacy (b "target_info") (getAttrs esc sc.cfg.legacy sc.res) then
      { st with target := some (targetInfoMetric esc sc) }
    else { st with disableTarget := true }
  else st

/-- `if c.resourceAttributesFilter != nil && len(c.resourceKeyVals.keys) == 0 { createResourceAttributes }`
(exporter.go:188-190): recomputed on every scrape as long as it is empty -/
def initRes (esc : Bytes → Bytes) (sc : Scenario) (st : CState) : CState :=
  if sc.resConst && st.resKV.isEmpty then { st with resKV := getAttrs esc sc.cfg.legacy (constRes sc) } else st

/-- Collect on a registered exporter whose caches are `st`: what is sent, and the caches afterwards -/
def collectS (esc : Bytes → Bytes) (sc : Scenario) (st : CState) : List Emitted × CState :=
  let st2 := initRes esc sc (initTarget esc sc st)
  let target : List Emitted := if !st2.disableTarget then st2.target.toList else []
  let t := collectScopesS esc sc st2.resKV st2 sc.scopes
  (target ++ t.1, t.2)

/-- one scrape of a sequence: before the exporter is registered with a MeterProvider (ErrReaderNotRegistered: nothing is
sent, nothing is cached), or with the scopes the SDK holds at that moment -/
inductive Step
  | notRegistered
  | data (scopes : List Scope)

def stepS (esc : Bytes → Bytes) (base : Scenario) (st : CState) : Step → List Emitted × CState
  | .notRegistered => (collectNotRegistered, st)
  | .data scopes => collectS esc { base with scopes := scopes } st

/-- successive scrapes of one exporter (options, namespace and resource fixed: `base`), scopes and data growing -/
def runSeq (esc : Bytes → Bytes) (base : Scenario) : CState → List Step → List (List Emitted)
  | _, [] => []
  | st, x :: rest => let r := stepS esc base st x; r.1 :: runSeq esc base r.2 rest

/-- the cache-free reading of the same sequence: only the family cache is carried from scrape to scrape -/
def runSeqRef (esc : Bytes → Bytes) (base : Scenario) : List Fam → List Step → List (List Emitted)
  | _, [] => []
  | fams, .notRegistered :: rest => collectNotRegistered :: runSeqRef esc base fams rest
  | fams, .data scopes :: rest =>
    let r := collectFrom esc { base with scopes := scopes } fams
    r.1 :: runSeqRef esc base r.2 rest

/-! ### concurrent scrapes: one label per locked region of Collect

Collect touches the collector's mutable members only inside three critical sections of `c.mu` (harness/extract/C18/
collector.txt: the func-literal at the top of Collect, collector.scopeInfo, collector.validateMetrics); everything else
works on data private to the call (the pooled buffer, locals) and on fields that never change after New. Concurrent
scrapes (and instrument creation, which only changes what reader.Collect delivers) are therefore interleavings of these
atomic actions on the shared cache state. -/

inductive Act
  | init                                             -- the func-literal: targetInfo / disableTargetInfo / resourceKeyVals
  | scopeInfo (s : Scope)                            -- collector.scopeInfo(scope)
  | validate (n d : Bytes) (t : MType)               -- collector.validateMetrics(name, description, type)

/-- what a locked region hands back to its Collect call -/
inductive Ret
  | top (sent : List Emitted) (resKV : List KV)      -- `if !disableTargetInfo { ch <- targetInfo }`, resourceKeyVals
  | info (m : Option Emitted)
  | val (drop : Bool) (help : Bytes)

def actS (esc : Bytes → Bytes) (sc : Scenario) (st : CState) : Act → CState × Ret
  | .init =>
    let st2 := initRes esc sc (initTarget esc sc st)
    (st2, .top (if !st2.disableTarget then st2.target.toList else []) st2.resKV)
  | .scopeInfo s => let r := scopeInfoCached esc sc.cfg.legacy st s; (r.1, .info r.2)
  | .validate n d t => let r := validate st.fams n d t; ({ st with fams := r.1 }, .val r.2.1 r.2.2)

/-- any schedule: the locked regions of any number of Collect calls in the order in which they took the lock -/
def runActs (esc : Bytes → Bytes) (sc : Scenario) : CState → List Act → List Ret × CState
  | st, [] => ([], st)
  | st, a :: rest => let r := actS esc sc st a; let t := runActs esc sc r.1 rest; (r.2 :: t.1, t.2)

/-- the schedule-independent reading: `init` and `scopeInfo` answer with functions of the exporter's constants / of the
scope; only validateMetrics depends on history — on the earlier validateMetrics calls, in lock order -/
def refRets (esc : Bytes → Bytes) (sc : Scenario) : List Fam → List Act → List Ret × List Fam
  | fams, [] => ([], fams)
  | fams, .init :: rest =>
    let t := refRets esc sc fams rest
    (.top (if !sc.noTarget && metricOK sc.cfg.legacy (b "target_info") (getAttrs esc sc.cfg.legacy sc.res)
        then [targetInfoMetric esc sc] else [])
      (if sc.resConst then getAttrs esc sc.cfg.legacy (constRes sc) else []) :: t.1, t.2)
  | fams, .scopeInfo s :: rest => let t := refRets esc sc fams rest; (.info (scopeInfoMetric esc sc.cfg.legacy s) :: t.1, t.2)
  | fams, .validate n d ty :: rest =>
    let r := validate fams n d ty
    let t := refRets esc sc r.1 rest
    (.val r.2.1 r.2.2 :: t.1, t.2)

structure Series where
  labels : List KV
  payload : OutPayload
  ex : List ExOut := []
deriving Repr, DecidableEq

structure Family where
  name : Bytes
  typ : MType
  help : Bytes
  series : List Series
deriving Repr

/-- Registry.Gather bookkeeping for an unchecked collector (processMetric): first metric of a name fixes help and
type; a later one with another help/type, or with label values already seen, is an error and is skipped. -/
def gatherStep (acc : Bool × List Family) (m : Emitted) : Bool × List Family :=
  let (err, fams) := acc
  let s : Series := ⟨sortKV m.labels, m.payload, m.ex⟩
  match fams.find? (fun f => f.name == m.name) with
  | none => (err, fams ++ [⟨m.name, m.typ, m.help, [s]⟩])
  | some f =>
    if f.help != m.help || f.typ != m.typ || f.series.any (fun t => t.labels == s.labels) then (true, fams)
    else (err, fams.map fun g => if g.name == m.name then { g with series := g.series ++ [s] } else g)

def gather (ms : List Emitted) : Bool × List Family := ms.foldl gatherStep (false, [])

end Otel.C18
