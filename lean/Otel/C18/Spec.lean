/-
C18 — specification: the property restated as executable predicates/functions that do not look at the
model's control flow. They are (a) the conclusions of the theorems in Props.lean and (b) the oracle the
driver evaluates on what the real exporter/registry produced.
-/
import Otel.C18.Model
namespace Otel.C18.Spec
open Otel Otel.C18

/-! ### metric name shape -/

/-- suffix test written on the reversed strings (independent of `Model.hasSuffix`) -/
def endsWith (s suf : Bytes) : Bool := suf.reverse.isPrefixOf s.reverse

def isLetterDigitColon (c : UInt8) : Bool :=
  (97 ≤ c.toNat && c.toNat ≤ 122) || (65 ≤ c.toNat && c.toNat ≤ 90) || (48 ≤ c.toNat && c.toNat ≤ 57) || c.toNat == 58

/-- a "delimiter": anything underscore escaping would turn into `_` (and `_` itself) -/
def isDelim (c : UInt8) : Bool := !isLetterDigitColon c

/-- the counter `_total` suffix is appended iff monotonic counter ∧ counter suffixes enabled -/
def addsTotal (cfg : Cfg) (typ : MType) : Bool := typ == MType.counter && !cfg.withoutCounterSuffixes

/-- remove one trailing `total` if something else remains -/
def stripTotal (n : Bytes) : Bytes :=
  if endsWith n (b "total") && n.length > 5 then n.take (n.length - 5) else n

/-- remove one trailing delimiter if something else remains -/
def stripDelim (n : Bytes) : Bytes :=
  match n.reverse with
  | c :: d :: r => if isDelim c then (d :: r).reverse else n
  | _ => n

/-- the part of the (escaped) instrument name that is kept -/
def core (esc : Bytes → Bytes) (cfg : Cfg) (name : Bytes) (typ : MType) : Bytes :=
  let n := if cfg.legacy then esc name else name
  if addsTotal cfg typ then stripDelim (stripTotal n) else n

/-- `_<suffix>` iff the unit is known ∧ units are enabled ∧ the name so far does not already end with the suffix -/
def unitPart (cfg : Cfg) (unit pre : Bytes) : Bytes :=
  match unitSuffix unit with
  | some s => if !cfg.withoutUnits && !endsWith pre s then b "_" ++ s else []
  | none => []

def totalPart (cfg : Cfg) (typ : MType) : Bytes := if addsTotal cfg typ then b "_total" else []

/-- the exposed family name: namespace ++ core ++ unitPart ++ totalPart -/
def refName (esc : Bytes → Bytes) (cfg : Cfg) (name unit : Bytes) (typ : MType) : Bytes :=
  let pre := cfg.ns ++ core esc cfg name typ
  pre ++ unitPart cfg unit pre ++ totalPart cfg typ

/-- names the metrics API admits: a letter followed by at most 254 letters, digits, `_`, `.`, `-` or `/` -/
def apiLegalName (n : Bytes) : Bool :=
  match n with
  | [] => false
  | c :: r =>
    ((97 ≤ c.toNat && c.toNat ≤ 122) || (65 ≤ c.toNat && c.toNat ≤ 90)) && n.length ≤ 255 &&
    r.all (fun c => (97 ≤ c.toNat && c.toNat ≤ 122) || (65 ≤ c.toNat && c.toNat ≤ 90) || (48 ≤ c.toNat && c.toNat ≤ 57) ||
      c.toNat == 95 || c.toNat == 46 || c.toNat == 45 || c.toNat == 47)

/-! ### legality of exposed names: validity hypotheses as decidable predicates -/

def isAscii (s : Bytes) : Bool := s.all (fun c => c.toNat < 128)

/-- the contract the theorems need of the escape function (model.EscapeName with underscore escaping): the empty string
stays empty, anything else becomes a non-empty legal legacy metric name. Proved for `escUnderscore`. -/
def EscLegal (esc : Bytes → Bytes) : Prop :=
  esc [] = [] ∧ ∀ s, s ≠ [] → esc s ≠ [] ∧ legacyMetricAux true (esc s) = true

/-- the collector's namespace is admissible: empty, or (legacy) a legal legacy name / (UTF-8) valid UTF-8.
`WithNamespace` always produces such a namespace from valid UTF-8 (theorem `withNamespace_ok`). -/
def nsOK (cfg : Cfg) : Bool :=
  if cfg.legacy then cfg.ns == [] || legacyMetricAux true cfg.ns else Utf8.validString cfg.ns

/-! ### labels -/

/-- the values of all attributes whose sanitised key is `k`, in attribute order -/
def groupVals (esc : Bytes → Bytes) (attrs : List KV) (k : Bytes) : List Bytes :=
  (attrs.filter (fun kv => esc kv.1 == k)).map (·.2)

/-- the label value for `k`: sorted values joined with `;` — a function of the attribute *set* -/
def mergedValue (esc : Bytes → Bytes) (attrs : List KV) (k : Bytes) : Option Bytes :=
  let vs := groupVals esc attrs k
  if vs.isEmpty then none else some (joinSemi (sortBytes vs))

/-- `obs` (in any order) is exactly the deterministic merge of `attrs` -/
def labelsMerged (esc : Bytes → Bytes) (attrs : List KV) (obs : List KV) : Bool :=
  nodupKeys (obs.map (·.1)) &&
  obs.all (fun kv => mergedValue esc attrs kv.1 == some kv.2) &&
  attrs.all (fun kv => (obs.map (·.1)).contains (esc kv.1))

/-! ### explicit-bucket histograms -/

def decum : Nat → List Nat → List Nat
  | _, [] => []
  | prev, x :: xs => (x - prev) :: decum x xs

def nondecr : Nat → List Nat → Bool
  | _, [] => true
  | prev, x :: xs => prev ≤ x && nondecr x xs

/-- de-cumulating the exposed buckets (the implicit `+Inf` bucket = exposed count) gives the SDK's bucket counts -/
def histFaithful (bounds : List Int) (counts : List Nat) (count : Nat) (obsCount : Nat) (obsBuckets : List (Int × Nat)) : Bool :=
  let cum := obsBuckets.map (·.2) ++ [obsCount]
  obsBuckets.map (·.1) == bounds && nondecr 0 cum && decum 0 cum == counts && obsCount == count

/-! ### exponential → native histograms -/

def bucketAt (l : List (Int × Nat)) (k : Int) : Nat := (l.lookup k).getD 0

/-- OTel bucket `i` of a side with offset `off` has upper bound base^(off+i+1); the native bucket with index
`k` has upper bound base^k: every SDK count must be found at index `off+i+1` and nothing else may be populated -/
def sideFaithful (off : Int) (counts : List Nat) (obs : List (Int × Nat)) : Bool :=
  (List.range counts.length).all (fun i => bucketAt obs (off + (i : Int) + 1) == counts.getD i 0) &&
  obs.all (fun kc => kc.2 == 0 || (off < kc.1 && kc.1 ≤ off + (counts.length : Int)))

def expoFaithful (dp : ExpoDP) (n : Native) : Bool :=
  n.schema == dp.scale && n.zeroCount == dp.zeroCount && n.count == dp.count &&
  sideFaithful dp.posOff dp.pos n.pos && sideFaithful dp.negOff dp.neg n.neg

/-- F28: the SDK scale is outside Prometheus' native-histogram schema range −4..8 -/
def F28_applies (dp : ExpoDP) : Bool := decide (dp.scale > 8) || decide (dp.scale < -4)

/-- SDK invariants of a data point the value theorems need (C07 for histograms; bucket counts fit int64) -/
def pointDataValid : Payload → Bool
  | .num _ => true
  | .hist count _ bounds counts => counts.length == bounds.length + 1 && count == counts.sum
  | .expo _ dp => (dp.pos ++ dp.neg).all (fun c => decide (c ≤ maxInt64))

/-! ### validateMetrics -/

abbrev Op := Bytes × Bytes × MType   -- name, description, type

def famsAfter (fams : List Fam) (ops : List Op) : List Fam :=
  ops.foldl (fun f o => (validate f o.1 o.2.1 o.2.2).1) fams

/-! ### end to end -/

structure Obs where
  panic : Bool
  gerr : Bool
  fams : List Family

def payloadFaithful : Payload → OutPayload → Bool
  | .num q, .num q' => q == q'
  | .hist count sumq bounds counts, .hist count' sumq' buckets => sumq == sumq' && histFaithful bounds counts count count' buckets
  | .expo sumq dp, .native sumq' n => sumq == sumq' && expoFaithful dp n
  | _, _ => false

def nodupSlots : List Slot → Bool
  | [] => true
  | k :: ks => !ks.contains k && nodupSlots ks

/-- Exemplars: client_golang accepts an exemplar iff its label names are legal, its values valid UTF-8 and names+values
hold ≤ 128 runes; one refused exemplar removes all exemplars of the series (never the series). Accepted: a counter
shows the last exemplar; on a histogram every exposed exemplar is one of the SDK's, sits in the bucket its value belongs
to (first upper bound ≥ value, else an appended +Inf bucket), every SDK exemplar's bucket shows one, and a bucket shows
at most one. Gauges, non-monotonic sums and native histograms show none. -/
def exemplarsFaithful (esc : Bytes → Bytes) (legacy : Bool) (typ : MType) (payload : Payload) (exs : List Exemplar)
    (obs : List ExOut) : Bool :=
  let labelsOf (e : Exemplar) := sortKV (exemplarLabels esc e)
  let accepted := !exs.isEmpty && exs.all (fun e => exemplarOK legacy (exemplarLabels esc e))
  match payload with
  | .num _ =>
    if typ == MType.counter && accepted then
      match exs.getLast? with
      | some e => obs == [⟨Slot.counter, e.q, labelsOf e⟩]
      | none => false
    else obs.isEmpty
  | .hist _ _ bounds _ =>
    if accepted then
      obs.all (fun o => exs.any (fun e => o.q == e.q && o.labels == labelsOf e && o.slot == bucketSlot bounds e.q)) &&
      exs.all (fun e => obs.any (fun o => o.slot == bucketSlot bounds e.q)) &&
      (obs.filter (fun o => o.slot == Slot.inf)).length == (exs.filter (fun e => bucketSlot bounds e.q == Slot.inf)).length &&
      nodupSlots ((obs.filter (fun o => o.slot != Slot.inf)).map (·.slot))
    else obs.isEmpty
  | .expo _ _ => obs.isEmpty

def effEsc (esc : Bytes → Bytes) (legacy : Bool) : Bytes → Bytes := if legacy then esc else id

/-- labels every series of a scope carries besides its own attributes -/
def extraLabels (esc : Bytes → Bytes) (sc : Scenario) (s : Scope) (obs : List KV) : Option (List KV) :=
  -- returns the observed labels minus the extras, or none if an extra label is missing/wrong
  let scopeL : List KV := if sc.noScope then [] else [(scopeNameLabel, s.name), (scopeVersionLabel, s.version)]
  let resKeys : List Bytes := if sc.resConst then ((constRes sc).map (fun kv => effEsc esc sc.cfg.legacy kv.1)).eraseDups else []
  let resOK := resKeys.all (fun k => (obs.lookup k) == mergedValue (effEsc esc sc.cfg.legacy) (constRes sc) k)
  let scopeOK := scopeL.all (fun kv => obs.lookup kv.1 == some kv.2)
  if resOK && scopeOK then
    some (obs.filter (fun kv => !(scopeL.map (·.1)).contains kv.1 && !resKeys.contains kv.1))
  else none

def seriesMatches (esc : Bytes → Bytes) (sc : Scenario) (s : Scope) (attrs : List KV) (t : Series) : Bool :=
  match extraLabels esc sc s t.labels with
  | some own => labelsMerged (effEsc esc sc.cfg.legacy) attrs own
  | none => false

/-- the labels Collect appends to every series of a scope: scope name/version unless WithoutScopeInfo, then the resource
attributes when WithResourceAsConstantLabels is set -/
def extraKVs (esc : Bytes → Bytes) (sc : Scenario) (s : Scope) : List KV :=
  scopeExtra sc (if sc.resConst then getAttrs esc sc.cfg.legacy (constRes sc) else []) s

def extraKeys (esc : Bytes → Bytes) (sc : Scenario) : List Bytes :=
  (extraKVs esc sc { name := [], version := [], insts := [] }).map (·.1)

/-- "valid attribute set" for a series: every (sanitised) key is a label name the registry admits and none collides with
the labels the exporter adds itself; in the UTF-8 scheme keys are unique (attribute.Set invariant); every value is valid
UTF-8 (the registry refuses a series with another label value) -/
def labelsAdmissible (esc : Bytes → Bytes) (legacy : Bool) (attrs : List KV) (extra : List Bytes) : Bool :=
  let e := effEsc esc legacy
  attrs.all (fun kv => labelNameOK legacy (e kv.1) && !extra.contains (e kv.1)) &&
  extra.all (labelNameOK legacy) && nodupKeys extra && (legacy || nodupKeys (attrs.map (·.1))) &&
  attrs.all (fun kv => Utf8.validString kv.2)

structure Seen where
  name : Bytes
  typ : MType
  desc : Bytes

/-- is the scenario inside the domain of the statement ("valid name, unit, kind, description and attribute
sets"; one family per instrument)? Outside it only panic-freedom is judged. -/
def instValid (esc : Bytes → Bytes) (sc : Scenario) (i : Inst) : Bool :=
  apiLegalName i.name &&
  (let n := refName esc sc.cfg i.name i.unit i.dtype.mtype
   n != b "target_info" && n != b "otel_scope_info") &&
  i.points.all (fun p => labelsAdmissible esc sc.cfg.legacy p.attrs (extraKeys esc sc))

/-- the attributes the otel_scope_info series of a scope stands for, written without attribute.NewSet: the scope's own
attributes except those named like the two scope labels (which the scope's name and version replace), then name and
version -/
def scopeInfoRef (s : Scope) : List KV :=
  s.attrs.filter (fun kv => kv.1 != scopeNameLabel && kv.1 != scopeVersionLabel) ++
    [(scopeNameLabel, s.name), (scopeVersionLabel, s.version)]

/-- can the scope be exposed? With scope info enabled a scope needs an otel_scope_info series, i.e. scope attributes
(those that the scope's name and version do not overwrite) whose (sanitised) keys are label names the registry admits
and whose values are valid UTF-8; a scope without that is not exposed at all — neither its info series nor its
instruments — and must not disturb any other scope. Without scope info the scope attributes play no role.
`scope_exposable_iff_not_skipped_*` (Props): this is exactly when the model creates the scope info metric. -/
def scopeOwnAttrs (s : Scope) : List KV :=
  s.attrs.filter (fun kv => kv.1 != scopeNameLabel && kv.1 != scopeVersionLabel)

def scopeExposable (esc : Bytes → Bytes) (sc : Scenario) (s : Scope) : Bool :=
  sc.noScope || (scopeOwnAttrs s).all (fun kv =>
    labelNameOK sc.cfg.legacy (effEsc esc sc.cfg.legacy kv.1) && Utf8.validString kv.2)

def resValid (esc : Bytes → Bytes) (sc : Scenario) : Bool :=
  sc.res.all (fun kv => labelNameOK sc.cfg.legacy (effEsc esc sc.cfg.legacy kv.1) && Utf8.validString kv.2) &&
  sc.scopes.all (fun s => Utf8.validString s.name && Utf8.validString s.version && nodupKeys (s.attrs.map (·.1)))

/-- the scenario restricted to the scopes that can be exposed -/
def exposable (esc : Bytes → Bytes) (sc : Scenario) : Scenario :=
  { sc with scopes := sc.scopes.filter (scopeExposable esc sc) }

/-- scope identities are pairwise distinct (the SDK keys its meters by the whole instrumentation.Scope) -/
def scopesDistinct : List Scope → Bool
  | [] => true
  | s :: r => r.all (fun t => decide (t.key ≠ s.key)) && scopesDistinct r

def allInsts (sc : Scenario) : List (Scope × Inst) := sc.scopes.flatMap (fun s => s.insts.map (fun i => (s, i)))

/-- no two series of what is sent have the same family name and the same label set (this is what the registry rejects as
"collected before with the same name and label values") -/
def distinctSeries : List Emitted → Bool
  | [] => true
  | m :: r => r.all (fun x => !(x.name == m.name && sortKV x.labels == sortKV m.labels)) && distinctSeries r

/-- two series of the same family with identical label sets (the registry rejects the second) -/
def dupSeries (esc : Bytes → Bytes) (sc : Scenario) : Bool := !distinctSeries (collect esc sc)

def scenarioValid (esc : Bytes → Bytes) (sc : Scenario) : Bool :=
  (allInsts sc).all (fun si => instValid esc sc si.2) && resValid esc sc && !dupSeries esc sc &&
  scopesDistinct sc.scopes

def isInfo (n : Bytes) : Bool := n == b "target_info" || n == b "otel_scope_info"

/-- one data point against the series of its family: (ok, series expected present, F28 misses).
A point F28 applies to (exponential histogram, scale outside −4..8) is expected to be ABSENT and is counted as an F28
miss without looking for a series with its labels: another data point of the family (a second instrument of the same
family, or the same attribute set recorded through an int and a float instrument) may legitimately own a series with
exactly those labels. That nothing is exposed for the F28 point is enforced by the series count in `promOK`. Every other
point must own the series with its labels, with faithful values and exemplars. -/
def checkPoint (esc : Bytes → Bytes) (sc : Scenario) (s : Scope) (typ : MType) (g : Family) (p : Point) : Bool × Nat × Nat :=
  let isF28 := match p.payload with
    | .expo _ dp => F28_applies dp
    | _ => false
  if isF28 then (true, 0, 1)
  else match g.series.find? (seriesMatches esc sc s p.attrs) with
    | some t => (payloadFaithful p.payload t.payload &&
        exemplarsFaithful esc sc.cfg.legacy typ p.payload p.exemplars t.ex, 1, 0)
    | none => (false, 0, 0)

/-- checks of one instrument; returns (ok, number of series expected present, number of F28 misses) -/
def checkInst (esc : Bytes → Bytes) (sc : Scenario) (fams : List Family) (seen : List Seen) (s : Scope) (i : Inst) :
    Bool × Nat × Nat :=
  let typ := i.dtype.mtype
  let n := refName esc sc.cfg i.name i.unit typ
  -- the help of the family is the description of the first instrument registered for it (also when all of that
  -- instrument's series are dropped by F28: the family is registered before the data points are converted)
  let (dropped, help) := match seen.find? (fun x => x.name == n) with
    | some f => (f.typ != typ, f.desc)
    | none => (false, i.desc)
  if dropped then (true, 0, 0)
  else match fams.find? (fun g => g.name == n) with
    | none => (i.points.all (fun p => match p.payload with | .expo _ dp => F28_applies dp | _ => false), 0,
               i.points.length)
    | some g =>
      let r := i.points.map (checkPoint esc sc s typ g)
      (g.typ == typ && g.help == help && r.all (·.1), (r.map (·.2.1)).sum, (r.map (·.2.2)).sum)

def checkInsts (esc : Bytes → Bytes) (sc : Scenario) (fams : List Family) :
    List Seen → List (Scope × Inst) → Bool × Nat × Nat
  | _, [] => (true, 0, 0)
  | seen, (s, i) :: rest =>
    let (ok, present, missed) := checkInst esc sc fams seen s i
    let n := refName esc sc.cfg i.name i.unit i.dtype.mtype
    let seen' := if (seen.find? (fun x => x.name == n)).isSome then seen else seen ++ [⟨n, i.dtype.mtype, i.desc⟩]
    let (ok2, p2, m2) := checkInsts esc sc fams seen' rest
    (ok && ok2, present + p2, missed + m2)

def infoOK (esc : Bytes → Bytes) (sc : Scenario) (fams : List Family) : Bool :=
  let target := fams.find? (fun g => g.name == b "target_info")
  let scope := fams.find? (fun g => g.name == b "otel_scope_info")
  (match target with
   | none => sc.noTarget
   | some g => !sc.noTarget && g.typ == MType.gauge && g.help == b "Target metadata" &&
      (match g.series with
       | [t] => t.payload == OutPayload.num 4 && labelsMerged (effEsc esc sc.cfg.legacy) sc.res t.labels
       | _ => false)) &&
  (match scope with
   | none => sc.noScope || sc.scopes.isEmpty
   | some g => !sc.noScope && g.typ == MType.gauge && g.help == b "Instrumentation Scope metadata" &&
      g.series.length == sc.scopes.length &&
      sc.scopes.all (fun s => g.series.any (fun t =>
        t.payload == OutPayload.num 4 &&
        labelsMerged (effEsc esc sc.cfg.legacy) (scopeInfoRef s) t.labels)))

def namesLegal (legacy : Bool) (fams : List Family) : Bool :=
  fams.all (fun g => metricNameOK legacy g.name &&
    g.series.all (fun t => t.labels.all (fun kv => labelNameOK legacy kv.1) && nodupKeys (t.labels.map (·.1))))

/-- the oracle for one scrape whose scopes can all be exposed: "ok" | "FAIL" | "KNOWN:F28" | "na" -/
def promOKx (esc : Bytes → Bytes) (sc : Scenario) (o : Obs) : String :=
  if o.panic then "FAIL"
  else if !scenarioValid esc sc then "na"
  else if o.gerr then "FAIL"
  else if !namesLegal sc.cfg.legacy o.fams then "FAIL"
  else if !infoOK esc sc o.fams then "FAIL"
  else
    let (ok, present, missed) := checkInsts esc sc o.fams [] (allInsts sc)
    let total := ((o.fams.filter (fun g => !isInfo g.name)).map (fun g => g.series.length)).sum
    if !ok || total != present then "FAIL"
    else if missed > 0 then "KNOWN:F28"
    else "ok"

/-- the oracle for one scrape: exactly the exposable scopes are exposed (completely, `promOKx`), the others not at all -/
def promOK (esc : Bytes → Bytes) (sc : Scenario) (o : Obs) : String := promOKx esc (exposable esc sc) o

end Otel.C18.Spec
