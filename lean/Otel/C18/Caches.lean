/-
C18 — the collector's caches across scrapes (collector.scopeInfos / scopeInfosInvalid / targetInfo / disableTargetInfo /
resourceKeyVals): invariant of the reachable cache states and the refinement lemmas "Collect with caches sends what the
cache-free reading sends". Helper file for Props.lean.
-/
import Otel.C18.Collect
namespace Otel.C18
open Otel Otel.C18

/-- the scope-info caches only hold what createScopeInfoMetric returns for the key -/
structure ScopeCacheOK (esc : Bytes → Bytes) (legacy : Bool) (st : CState) : Prop where
  infos : ∀ k m, st.scopeInfos.lookup k = some m → scopeInfoOfKey esc legacy k = some m
  invalid : ∀ k, st.scopeInvalid.contains k = true → scopeInfoOfKey esc legacy k = none

/-- the caches that the scope loop does not touch -/
def CState.sameTop (a c : CState) : Prop :=
  a.target = c.target ∧ a.disableTarget = c.disableTarget ∧ a.resKV = c.resKV

theorem scopeInfoCached_spec (esc : Bytes → Bytes) (legacy : Bool) (st : CState) (s : Scope)
    (h : ScopeCacheOK esc legacy st) :
    (scopeInfoCached esc legacy st s).2 = scopeInfoMetric esc legacy s ∧
    (scopeInfoCached esc legacy st s).1.fams = st.fams ∧
    (scopeInfoCached esc legacy st s).1.sameTop st ∧
    ScopeCacheOK esc legacy (scopeInfoCached esc legacy st s).1 := by
  unfold scopeInfoCached scopeInfoMetric
  cases hl : st.scopeInfos.lookup s.key with
  | some m =>
    simp only
    exact ⟨(h.infos _ _ hl).symm, trivial, ⟨rfl, rfl, rfl⟩, h⟩
  | none =>
    simp only
    by_cases hc : st.scopeInvalid.contains s.key = true
    · simp only [hc, if_true]
      exact ⟨(h.invalid _ hc).symm, trivial, ⟨rfl, rfl, rfl⟩, h⟩
    · simp only [hc, Bool.false_eq_true, if_false]
      cases hk : scopeInfoOfKey esc legacy s.key with
      | none =>
        refine ⟨rfl, rfl, ⟨rfl, rfl, rfl⟩, ⟨h.infos, ?_⟩⟩
        intro k hk'
        simp only [List.contains_cons, Bool.or_eq_true, beq_iff_eq] at hk'
        rcases hk' with rfl | hk'
        · exact hk
        · exact h.invalid k hk'
      | some m =>
        refine ⟨rfl, rfl, ⟨rfl, rfl, rfl⟩, ⟨?_, h.invalid⟩⟩
        intro k m' hk'
        simp only [List.lookup_cons] at hk'
        by_cases hkk : k = s.key
        · subst hkk
          simp only [beq_self_eq_true] at hk'
          cases hk'; exact hk
        · have : (k == s.key) = false := by simpa using hkk
          simp only [this] at hk'
          exact h.infos k m' hk'

theorem ScopeCacheOK.withFams {esc : Bytes → Bytes} {legacy : Bool} {st : CState} (h : ScopeCacheOK esc legacy st)
    (f : List Fam) : ScopeCacheOK esc legacy { st with fams := f } := ⟨h.infos, h.invalid⟩

/-- the scope loop with caches sends what the cache-free loop sends, leaves the same family cache, keeps the cache
invariant and does not touch the target-info / resource caches -/
theorem collectScopesS_spec (esc : Bytes → Bytes) (sc : Scenario) (resKV : List KV) :
    ∀ (scopes : List Scope) (st : CState), ScopeCacheOK esc sc.cfg.legacy st →
      (collectScopesS esc sc resKV st scopes).1 = collectScopes esc sc resKV st.fams scopes ∧
      (collectScopesS esc sc resKV st scopes).2.fams = scopesFams esc sc resKV st.fams scopes ∧
      ScopeCacheOK esc sc.cfg.legacy (collectScopesS esc sc resKV st scopes).2 ∧
      (collectScopesS esc sc resKV st scopes).2.sameTop st := by
  intro scopes
  induction scopes with
  | nil => intro st h; exact ⟨rfl, rfl, h, ⟨rfl, rfl, rfl⟩⟩
  | cons s rest ih =>
    intro st h
    unfold collectScopesS collectScopes scopesFams scopeSkipped
    cases hns : sc.noScope with
    | true =>
      simp only [if_true, Bool.not_true, Bool.false_and, Bool.false_eq_true, if_false, Option.toList_none, List.nil_append]
      have h' := h.withFams (collectInsts esc sc.cfg (scopeExtra sc resKV s) st.fams s.insts).1
      obtain ⟨i1, i2, i3, i4⟩ := ih _ h'
      exact ⟨by rw [i1], i2, i3, i4⟩
    | false =>
      obtain ⟨c1, c2, c3, c4⟩ := scopeInfoCached_spec esc sc.cfg.legacy st s h
      simp only [Bool.false_eq_true, if_false, Bool.not_false, Bool.true_and, c1]
      cases hm : scopeInfoMetric esc sc.cfg.legacy s with
      | none =>
        simp only [Option.isNone_none, if_true]
        obtain ⟨i1, i2, i3, i4⟩ := ih _ c4
        rw [c2] at i1 i2
        exact ⟨i1, i2, i3, ⟨i4.1.trans c3.1, i4.2.1.trans c3.2.1, i4.2.2.trans c3.2.2⟩⟩
      | some si =>
        simp only [Option.isNone_some, Bool.false_eq_true, if_false, Option.toList_some]
        have h' := c4.withFams (collectInsts esc sc.cfg (scopeExtra sc resKV s) (scopeInfoCached esc sc.cfg.legacy st s).1.fams s.insts).1
        obtain ⟨i1, i2, i3, i4⟩ := ih _ h'
        simp only [c2] at i1 i2 ⊢
        refine ⟨by rw [i1], i2, ?_, ?_⟩
        · simpa only [c2] using i3
        · have := i4
          simp only [c2] at this
          exact ⟨this.1.trans c3.1, this.2.1.trans c3.2.1, this.2.2.trans c3.2.2⟩

/-- the target-info / resource-label caches hold what the first registered scrape computed from the (constant)
resource, or nothing yet -/
structure TopOK (esc : Bytes → Bytes) (sc : Scenario) (st : CState) : Prop where
  dis : st.disableTarget = true →
    (sc.noTarget = true ∨ metricOK sc.cfg.legacy (b "target_info") (getAttrs esc sc.cfg.legacy sc.res) = false)
  nod : sc.noTarget = true → st.disableTarget = true
  tgt : ∀ t, st.target = some t →
    t = targetInfoMetric esc sc ∧ metricOK sc.cfg.legacy (b "target_info") (getAttrs esc sc.cfg.legacy sc.res) = true
  res : st.resKV = [] ∨ (sc.resConst = true ∧ st.resKV = getAttrs esc sc.cfg.legacy (constRes sc))

/-- invariant of every cache state reachable from `CState.init` by scrapes of one exporter -/
structure CInv (esc : Bytes → Bytes) (sc : Scenario) (st : CState) : Prop where
  scopes : ScopeCacheOK esc sc.cfg.legacy st
  top : TopOK esc sc st

theorem CInv.init (esc : Bytes → Bytes) (sc : Scenario) : CInv esc sc (CState.init sc) :=
  ⟨⟨by intro k m h; simp [CState.init] at h, by intro k h; simp [CState.init] at h⟩,
   ⟨fun h => Or.inl h, fun h => h, by intro t h; simp [CState.init] at h, Or.inl rfl⟩⟩

/-- the invariant only mentions the exporter's constants (scheme, options, resource), not the scopes of the moment -/
theorem CInv.withScopes {esc : Bytes → Bytes} {sc : Scenario} {st : CState} (h : CInv esc sc st) (x : List Scope) :
    CInv esc { sc with scopes := x } st :=
  ⟨⟨h.scopes.infos, h.scopes.invalid⟩, ⟨h.top.dis, h.top.nod, h.top.tgt, h.top.res⟩⟩

theorem CInv.ofScopes {esc : Bytes → Bytes} {sc : Scenario} {st : CState} (x : List Scope)
    (h : CInv esc { sc with scopes := x } st) : CInv esc sc st :=
  ⟨⟨h.scopes.infos, h.scopes.invalid⟩, ⟨h.top.dis, h.top.nod, h.top.tgt, h.top.res⟩⟩

theorem initTarget_spec (esc : Bytes → Bytes) (sc : Scenario) (st : CState) (h : CInv esc sc st) :
    CInv esc sc (initTarget esc sc st) ∧ (initTarget esc sc st).fams = st.fams ∧
    (if !(initTarget esc sc st).disableTarget then (initTarget esc sc st).target.toList else []) =
      (if !sc.noTarget && metricOK sc.cfg.legacy (b "target_info") (getAttrs esc sc.cfg.legacy sc.res)
        then [targetInfoMetric esc sc] else []) := by
  obtain ⟨hs, hd, hn, ht, hr⟩ := h
  unfold initTarget
  cases htg : st.target with
  | some t =>
    obtain ⟨e1, e2⟩ := ht t htg
    simp only [Option.isNone_some, Bool.false_and, Bool.false_eq_true, if_false, htg, Option.toList_some, e2, Bool.and_true]
    refine ⟨⟨hs, ⟨hd, hn, ht, hr⟩⟩, (by first | rfl | trivial), ?_⟩
    cases hdis : st.disableTarget with
    | true =>
      rcases hd hdis with h1 | h1
      · simp [h1]
      · rw [e2] at h1; cases h1
    | false =>
      have : sc.noTarget = false := by
        cases hnt : sc.noTarget with
        | true => rw [hn hnt] at hdis; cases hdis
        | false => rfl
      simp [this, e1]
  | none =>
    cases hdis : st.disableTarget with
    | true =>
      simp only [Option.isNone_none, Bool.not_true, Bool.and_false, Bool.false_eq_true, if_false, hdis, Bool.not_true]
      refine ⟨⟨hs, ⟨hd, hn, ht, hr⟩⟩, (by first | rfl | trivial), ?_⟩
      rcases hd hdis with h1 | h1
      · simp [h1]
      · simp [h1]
    | false =>
      have hnt : sc.noTarget = false := by
        cases hnt : sc.noTarget with
        | true => rw [hn hnt] at hdis; cases hdis
        | false => rfl
      simp only [Option.isNone_none, Bool.not_false, Bool.and_self, if_true]
      cases hM : metricOK sc.cfg.legacy (b "target_info") (getAttrs esc sc.cfg.legacy sc.res) with
      | true =>
        simp only [if_true, Bool.not_false, Option.toList_some, hnt, Bool.and_self]
        refine ⟨⟨⟨hs.infos, hs.invalid⟩, ⟨?_, ?_, ?_, hr⟩⟩, (by first | rfl | trivial), (by first | rfl | trivial)⟩
        · intro h1; cases h1
        · intro h1; rw [hnt] at h1; cases h1
        · intro t h1; simp only [Option.some.injEq] at h1; exact ⟨h1.symm, hM⟩
      | false =>
        simp only [Bool.false_eq_true, if_false, Bool.not_true, Bool.and_false]
        refine ⟨⟨⟨hs.infos, hs.invalid⟩, ⟨?_, ?_, ?_, hr⟩⟩, (by first | rfl | trivial), (by first | rfl | trivial)⟩
        · intro _; exact Or.inr hM
        · intro _; rfl
        · intro t h1; cases h1

theorem initRes_spec (esc : Bytes → Bytes) (sc : Scenario) (st : CState) (h : CInv esc sc st) :
    CInv esc sc (initRes esc sc st) ∧ (initRes esc sc st).fams = st.fams ∧
    (initRes esc sc st).target = st.target ∧ (initRes esc sc st).disableTarget = st.disableTarget ∧
    (initRes esc sc st).resKV = (if sc.resConst then getAttrs esc sc.cfg.legacy (constRes sc) else []) := by
  obtain ⟨hs, hd, hn, ht, hr⟩ := h
  unfold initRes
  cases hrc : sc.resConst with
  | false =>
    simp only [Bool.false_and, Bool.false_eq_true, if_false]
    refine ⟨⟨hs, ⟨hd, hn, ht, hr⟩⟩, (by first | rfl | trivial), (by first | rfl | trivial), (by first | rfl | trivial), ?_⟩
    rcases hr with h1 | ⟨h1, _⟩
    · exact h1
    · rw [hrc] at h1; cases h1
  | true =>
    simp only [Bool.true_and, if_true]
    cases he : st.resKV.isEmpty with
    | true =>
      simp only [if_true]
      exact ⟨⟨⟨hs.infos, hs.invalid⟩, ⟨hd, hn, ht, Or.inr ⟨hrc, rfl⟩⟩⟩, (by first | rfl | trivial), (by first | rfl | trivial), (by first | rfl | trivial), (by first | rfl | trivial)⟩
    | false =>
      simp only [Bool.false_eq_true, if_false]
      refine ⟨⟨hs, ⟨hd, hn, ht, hr⟩⟩, (by first | rfl | trivial), (by first | rfl | trivial), (by first | rfl | trivial), ?_⟩
      rcases hr with h1 | ⟨_, h1⟩
      · rw [h1] at he; cases he
      · exact h1

/-- Collect with all caches sends exactly what the cache-free reading sends, leaves the same family cache, and keeps the
invariant -/
theorem collectS_spec (esc : Bytes → Bytes) (sc : Scenario) (st : CState) (h : CInv esc sc st) :
    (collectS esc sc st).1 = (collectFrom esc sc st.fams).1 ∧
    (collectS esc sc st).2.fams = (collectFrom esc sc st.fams).2 ∧
    CInv esc sc (collectS esc sc st).2 := by
  obtain ⟨t1, t2, t3⟩ := initTarget_spec esc sc st h
  obtain ⟨r1, r2, r3, r4, r5⟩ := initRes_spec esc sc _ t1
  unfold collectS collectFrom
  simp only
  rw [r5]
  obtain ⟨s1, s2, s3, s4⟩ := collectScopesS_spec esc sc (if sc.resConst then getAttrs esc sc.cfg.legacy (constRes sc) else [])
    sc.scopes _ r1.scopes
  rw [r2, t2] at s1 s2
  refine ⟨?_, s2, ⟨s3, ?_⟩⟩
  · rw [s1, r4, r3, t3]
  · obtain ⟨a1, a2, a3⟩ := s4
    exact ⟨fun hh => r1.top.dis (a2 ▸ hh), fun hh => a2 ▸ r1.top.nod hh, fun t hh => r1.top.tgt t (a1 ▸ hh), a3 ▸ r1.top.res⟩

theorem runSeq_spec (esc : Bytes → Bytes) (base : Scenario) :
    ∀ (steps : List Step) (st : CState), CInv esc base st →
      runSeq esc base st steps = runSeqRef esc base st.fams steps := by
  intro steps
  induction steps with
  | nil => intro st _; rfl
  | cons x rest ih =>
    intro st h
    cases x with
    | notRegistered =>
      simp only [runSeq, runSeqRef, stepS]
      rw [ih st h]
    | data scopes =>
      obtain ⟨c1, c2, c3⟩ := collectS_spec esc { base with scopes := scopes } st (h.withScopes scopes)
      simp only [runSeq, runSeqRef, stepS]
      rw [c1, ih _ (CInv.ofScopes scopes c3), c2]

theorem runActs_spec (esc : Bytes → Bytes) (sc : Scenario) :
    ∀ (acts : List Act) (st : CState), CInv esc sc st →
      (runActs esc sc st acts).1 = (refRets esc sc st.fams acts).1 ∧
      (runActs esc sc st acts).2.fams = (refRets esc sc st.fams acts).2 ∧
      CInv esc sc (runActs esc sc st acts).2 := by
  intro acts
  induction acts with
  | nil => intro st h; exact ⟨rfl, rfl, h⟩
  | cons a rest ih =>
    intro st h
    cases a with
    | init =>
      obtain ⟨t1, t2, t3⟩ := initTarget_spec esc sc st h
      obtain ⟨r1, r2, r3, r4, r5⟩ := initRes_spec esc sc _ t1
      obtain ⟨i1, i2, i3⟩ := ih _ r1
      simp only [runActs, actS, refRets]
      rw [r2, t2] at i1 i2
      refine ⟨?_, i2, i3⟩
      rw [i1, r4, r3, t3, r5]
    | scopeInfo s =>
      obtain ⟨c1, c2, _, c4⟩ := scopeInfoCached_spec esc sc.cfg.legacy st s h.scopes
      have h' : CInv esc sc (scopeInfoCached esc sc.cfg.legacy st s).1 := by
        obtain ⟨_, _, c3, _⟩ := scopeInfoCached_spec esc sc.cfg.legacy st s h.scopes
        obtain ⟨a1, a2, a3⟩ := c3
        exact ⟨c4, ⟨fun hh => h.top.dis (a2 ▸ hh), fun hh => a2 ▸ h.top.nod hh, fun t hh => h.top.tgt t (a1 ▸ hh), a3 ▸ h.top.res⟩⟩
      obtain ⟨i1, i2, i3⟩ := ih _ h'
      simp only [runActs, actS, refRets]
      rw [c2] at i1 i2
      exact ⟨by rw [i1, c1], i2, i3⟩
    | validate n d t =>
      have h' : CInv esc sc { st with fams := (validate st.fams n d t).1 } :=
        ⟨h.scopes.withFams _, ⟨h.top.dis, h.top.nod, h.top.tgt, h.top.res⟩⟩
      obtain ⟨i1, i2, i3⟩ := ih _ h'
      simp only [runActs, actS, refRets]
      exact ⟨by rw [i1], i2, i3⟩

/-! ### attribute.NewSet as "last value wins" -/

theorem setInsert_lookup (x : KV) (k : Bytes) : ∀ s : List KV,
    (setInsert x s).lookup k = if k == x.1 then some x.2 else s.lookup k := by
  obtain ⟨xk, xv⟩ := x
  intro s
  induction s with
  | nil => simp [setInsert, List.lookup_cons]; split <;> simp_all
  | cons y ys ih =>
    obtain ⟨yk, yv⟩ := y
    unfold setInsert
    simp only
    by_cases h1 : (xk == yk) = true
    · have e : xk = yk := eq_of_beq h1
      subst e
      simp only [beq_self_eq_true, if_true, List.lookup_cons]
      cases hk : k == xk <;> simp
    · have h1' : (xk == yk) = false := by simpa using h1
      simp only [h1', Bool.false_eq_true, if_false]
      by_cases h2 : bytesLe xk yk = true
      · simp only [h2, if_true, List.lookup_cons]
        cases hk : k == xk <;> simp
      · have h2' : bytesLe xk yk = false := by simpa using h2
        simp only [h2', Bool.false_eq_true, if_false, List.lookup_cons, ih]
        cases hk : k == yk with
        | false => simp
        | true =>
          have e : k = yk := eq_of_beq hk
          subst e
          have : (k == xk) = false := by
            rw [beq_eq_false_iff_ne]; intro hh; subst hh; simp at h1'
          simp [this]

theorem newSet_fold_lookup (k : Bytes) : ∀ (l acc : List KV),
    (l.foldl (fun s x => setInsert x s) acc).lookup k = (l.reverse.lookup k).or (acc.lookup k) := by
  intro l
  induction l with
  | nil => intro acc; simp
  | cons x r ih =>
    intro acc
    simp only [List.foldl_cons, ih, setInsert_lookup, List.reverse_cons, List.lookup_append]
    obtain ⟨xk, xv⟩ := x
    simp only [List.lookup_cons, List.lookup_nil]
    cases r.reverse.lookup k <;> cases hk : k == xk <;> simp

/-- attribute.NewSet: the value of key `k` is the value of the LAST pair given with that key -/
theorem newSet_lookup (l : List KV) (k : Bytes) : (newSet l).lookup k = l.reverse.lookup k := by
  unfold newSet
  rw [newSet_fold_lookup]
  cases l.reverse.lookup k <;> simp

theorem scopeInfoAttrs_lookup (k : ScopeKey) :
    (scopeInfoAttrs k).lookup scopeNameLabel = some k.name ∧
    (scopeInfoAttrs k).lookup scopeVersionLabel = some k.version ∧
    ∀ x, x ≠ scopeNameLabel → x ≠ scopeVersionLabel → (scopeInfoAttrs k).lookup x = k.attrs.reverse.lookup x := by
  unfold scopeInfoAttrs
  simp only [newSet_lookup, List.reverse_append, List.reverse_cons, List.reverse_nil, List.nil_append, List.cons_append,
    List.lookup_cons]
  have h1 : (scopeNameLabel == scopeVersionLabel) = false := by decide
  refine ⟨by simp [h1], by simp, ?_⟩
  intro x hx1 hx2
  have e1 : (x == scopeNameLabel) = false := by simpa using hx1
  have e2 : (x == scopeVersionLabel) = false := by simpa using hx2
  simp [e1, e2]

/-! ### attribute.NewSet: strictly sorted by key, members come from the input -/

def KeyLt (a c : KV) : Prop := bytesLe a.1 c.1 = true ∧ a.1 ≠ c.1

theorem setInsert_mem (x : KV) : ∀ (s : List KV) (c : KV), c ∈ setInsert x s → c = x ∨ c ∈ s := by
  intro s
  induction s with
  | nil => intro c h; simp [setInsert] at h; exact Or.inl h
  | cons y ys ih =>
    intro c h
    unfold setInsert at h
    split at h
    · rcases List.mem_cons.mp h with h | h
      · exact Or.inl h
      · exact Or.inr (List.mem_cons_of_mem _ h)
    · split at h
      · rcases List.mem_cons.mp h with h | h
        · exact Or.inl h
        · exact Or.inr h
      · rcases List.mem_cons.mp h with h | h
        · exact Or.inr (by simp [h])
        · rcases ih c h with h | h
          · exact Or.inl h
          · exact Or.inr (List.mem_cons_of_mem _ h)

theorem setInsert_sorted (x : KV) : ∀ s : List KV, s.Pairwise KeyLt → (setInsert x s).Pairwise KeyLt := by
  intro s
  induction s with
  | nil => intro _; simp [setInsert]
  | cons y ys ih =>
    intro h
    obtain ⟨hy, hys⟩ := List.pairwise_cons.mp h
    unfold setInsert
    by_cases h1 : (x.1 == y.1) = true
    · have e : x.1 = y.1 := eq_of_beq h1
      simp only [h1, if_true]
      refine List.pairwise_cons.mpr ⟨?_, hys⟩
      intro c hc
      have := hy c hc
      unfold KeyLt at this ⊢
      rw [e]; exact this
    · have h1' : (x.1 == y.1) = false := by simpa using h1
      have hne : x.1 ≠ y.1 := by simpa using h1'
      simp only [h1', Bool.false_eq_true, if_false]
      by_cases h2 : bytesLe x.1 y.1 = true
      · simp only [h2, if_true]
        refine List.pairwise_cons.mpr ⟨?_, h⟩
        intro c hc
        rcases List.mem_cons.mp hc with rfl | hc
        · exact ⟨h2, hne⟩
        · obtain ⟨l1, l2⟩ := hy c hc
          refine ⟨bytesLe_trans _ _ _ h2 l1, ?_⟩
          intro e
          rw [e] at h2
          exact l2 (bytesLe_antisymm _ _ l1 h2)
      · have h2' : bytesLe x.1 y.1 = false := by simpa using h2
        simp only [h2', Bool.false_eq_true, if_false]
        refine List.pairwise_cons.mpr ⟨?_, ih hys⟩
        intro c hc
        rcases setInsert_mem x ys c hc with rfl | hc
        · refine ⟨?_, fun e => hne e.symm⟩
          rcases bytesLe_total c.1 y.1 with t | t
          · rw [t] at h2'; cases h2'
          · exact t
        · exact hy c hc

theorem newSet_fold_props : ∀ (l acc : List KV), acc.Pairwise KeyLt →
    (l.foldl (fun s x => setInsert x s) acc).Pairwise KeyLt ∧
    ∀ c ∈ l.foldl (fun s x => setInsert x s) acc, c ∈ l ∨ c ∈ acc := by
  intro l
  induction l with
  | nil => intro acc h; exact ⟨h, fun c hc => Or.inr hc⟩
  | cons x r ih =>
    intro acc h
    obtain ⟨i1, i2⟩ := ih (setInsert x acc) (setInsert_sorted x acc h)
    refine ⟨i1, ?_⟩
    intro c hc
    rcases i2 c hc with h | h
    · exact Or.inl (List.mem_cons_of_mem _ h)
    · rcases setInsert_mem x acc c h with h | h
      · exact Or.inl (by simp [h])
      · exact Or.inr h

theorem newSet_keys_nodup (l : List KV) : ((newSet l).map (·.1)).Nodup := by
  have h := (newSet_fold_props l [] List.Pairwise.nil).1
  unfold List.Nodup
  rw [List.pairwise_map]
  exact h.imp (fun hk => hk.2)

theorem newSet_mem (l : List KV) : ∀ c ∈ newSet l, c ∈ l := by
  intro c hc
  rcases (newSet_fold_props l [] List.Pairwise.nil).2 c hc with h | h
  · exact h
  · simp at h

theorem joinSemi_valid : ∀ vs : List Bytes, (∀ v ∈ vs, Utf8.validString v = true) → Utf8.validString (joinSemi vs) = true
  | [], _ => by decide
  | [x], h => by simpa [joinSemi] using h x (by simp)
  | x :: y :: r, h => by
    have hx := h x (by simp)
    have hsemi : Utf8.validString [59] = true := by decide
    have : joinSemi (x :: y :: r) = x ++ ([59] ++ joinSemi (y :: r)) := by simp [joinSemi]
    rw [this, validString_append hx, validString_append hsemi]
    exact joinSemi_valid (y :: r) (fun v hv => h v (List.mem_cons_of_mem _ hv))

/-! ### which attributes the scope info metric carries -/

theorem scopeInfoAttrs_nodup (k : ScopeKey) : ((scopeInfoAttrs k).map (·.1)).Nodup := newSet_keys_nodup _

/-- every pair of the set is the name pair, the version pair, or a scope attribute that is not overwritten -/
theorem scopeInfoAttrs_mem (s : Scope) : ∀ c ∈ scopeInfoAttrs s.key,
    c = (scopeNameLabel, s.name) ∨ c = (scopeVersionLabel, s.version) ∨ c ∈ Spec.scopeOwnAttrs s := by
  intro c hc
  obtain ⟨l1, l2, _⟩ := scopeInfoAttrs_lookup s.key
  have hl : (scopeInfoAttrs s.key).lookup c.1 = some c.2 :=
    (mem_iff_lookup _ c.1 c.2 (scopeInfoAttrs_nodup s.key)).mp hc
  by_cases h1 : c.1 = scopeNameLabel
  · left
    rw [h1, l1] at hl
    have : c.2 = s.name := (Option.some.inj hl).symm
    exact Prod.ext h1 this
  · by_cases h2 : c.1 = scopeVersionLabel
    · right; left
      rw [h2, l2] at hl
      have : c.2 = s.version := (Option.some.inj hl).symm
      exact Prod.ext h2 this
    · right; right
      have hm := newSet_mem _ c hc
      rcases List.mem_append.mp hm with hm | hm
      · unfold Spec.scopeOwnAttrs
        exact List.mem_filter.mpr ⟨hm, by simp [h1, h2]⟩
      · simp only [List.mem_cons, List.not_mem_nil, or_false] at hm
        rcases hm with rfl | rfl
        · exact absurd rfl h1
        · exact absurd rfl h2

/-- … and all of those are in the set (scope attribute keys distinct: attribute.Set) -/
theorem scopeInfoAttrs_complete (s : Scope) (hnd : (s.attrs.map (·.1)).Nodup) :
    (scopeNameLabel, s.name) ∈ scopeInfoAttrs s.key ∧ (scopeVersionLabel, s.version) ∈ scopeInfoAttrs s.key ∧
    ∀ c ∈ Spec.scopeOwnAttrs s, c ∈ scopeInfoAttrs s.key := by
  obtain ⟨l1, l2, l3⟩ := scopeInfoAttrs_lookup s.key
  refine ⟨lookup_mem _ _ _ l1, lookup_mem _ _ _ l2, ?_⟩
  intro c hc
  unfold Spec.scopeOwnAttrs at hc
  obtain ⟨hm, hk⟩ := List.mem_filter.mp hc
  simp only [Bool.and_eq_true, bne_iff_ne, ne_eq] at hk
  have hrev : (s.attrs.reverse.map (·.1)).Nodup := by
    rw [List.map_reverse]; unfold List.Nodup; rw [List.pairwise_reverse]; exact hnd.imp (fun h => Ne.symm h)
  have hlr : s.attrs.reverse.lookup c.1 = some c.2 :=
    (mem_iff_lookup _ c.1 c.2 hrev).mp (List.mem_reverse.mpr hm)
  have := l3 c.1 hk.1 hk.2
  show (c.1, c.2) ∈ scopeInfoAttrs s.key
  exact lookup_mem _ _ _ (this.trans hlr)

/-! ### exemplar labels: a Go map filled in slice order, then trace_id / span_id -/

theorem setLabel_lookup (k' v : Bytes) (k : Bytes) : ∀ m : List KV,
    (setLabel m k' v).lookup k = if k == k' then some v else m.lookup k := by
  intro m
  induction m with
  | nil => simp [setLabel, List.lookup_cons]; split <;> simp_all
  | cons y ys ih =>
    obtain ⟨yk, yv⟩ := y
    unfold setLabel
    by_cases h1 : (yk == k') = true
    · have e : yk = k' := eq_of_beq h1
      subst e
      simp only [beq_self_eq_true, if_true, List.lookup_cons]
      cases hk : k == yk <;> simp
    · have h1' : (yk == k') = false := by simpa using h1
      simp only [h1', Bool.false_eq_true, if_false, List.lookup_cons, ih]
      cases hk : k == yk with
      | false => simp
      | true =>
        have e : k = yk := eq_of_beq hk
        subst e
        simp [h1']

theorem setLabel_fold_lookup (esc : Bytes → Bytes) (k : Bytes) : ∀ (l : List KV) (acc : List KV),
    (l.foldl (fun m kv => setLabel m (esc kv.1) kv.2) acc).lookup k =
      ((l.map fun kv => (esc kv.1, kv.2)).reverse.lookup k).or (acc.lookup k) := by
  intro l
  induction l with
  | nil => intro acc; simp
  | cons x r ih =>
    intro acc
    simp only [List.foldl_cons, ih, setLabel_lookup, List.map_cons, List.reverse_cons, List.lookup_append,
      List.lookup_cons, List.lookup_nil]
    cases (List.map (fun kv => (esc kv.1, kv.2)) r).reverse.lookup k <;> cases hk : k == esc x.1 <;> simp

end Otel.C18
