/-
C20 — the headers variables (`OTEL_EXPORTER_OTLP_HEADERS`, `…_<SIGNAL>_HEADERS`): the parser of the six exporters
(`stringToHeader` of the trace/metric envconfig packages, `convHeaders` of the log exporters) is the inverse of the
serialiser `Spec.renderHdrs` exactly on the well-formed pair lists (`Spec.hdrWF`), invalid pairs are skipped (trace /
metric) or invalidate the variable (logs). The split/cut lemmas have the shape of lean/Otel/C19/Lemmas.lean
(`splitOn_join`, `cut_append`), re-proved here for this model's definitions.
-/
import Otel.C20.Spec
namespace Otel.C20
open Otel Otel.C20 Otel.C20.Spec

/-! ### strings.Split / strings.Cut -/

private theorem splitOn_no_sep (sep : UInt8) (x : Bytes) (h : ∀ b ∈ x, b ≠ sep) : splitOn sep x = [x] := by
  induction x with
  | nil => rfl
  | cons b r ih =>
    have hb : (b == sep) = false := by simpa using h b (by simp)
    simp [splitOn, hb, ih (fun c hc => h c (by simp [hc]))]

private theorem splitOn_append_sep (sep : UInt8) (x r : Bytes) (h : ∀ b ∈ x, b ≠ sep) :
    splitOn sep (x ++ sep :: r) = x :: splitOn sep r := by
  induction x with
  | nil => simp [splitOn]
  | cons b x ih =>
    have hb : (b == sep) = false := by simpa using h b (by simp)
    simp [splitOn, hb, ih (fun c hc => h c (by simp [hc]))]

private theorem splitOn_join (sep : UInt8) (xs : List Bytes) (hne : xs ≠ []) (h : ∀ x ∈ xs, ∀ b ∈ x, b ≠ sep) :
    splitOn sep ((xs.intersperse [sep]).flatten) = xs := by
  induction xs with
  | nil => exact absurd rfl hne
  | cons x rest ih =>
    cases rest with
    | nil => simp [splitOn_no_sep sep x (h x (by simp))]
    | cons y ys =>
      have hx := h x (by simp)
      have ih' := ih (by simp) (fun z hz => h z (List.mem_cons_of_mem _ hz))
      simp only [List.intersperse_cons_cons, List.flatten_cons, List.singleton_append] at ih' ⊢
      rw [splitOn_append_sep sep x _ hx, ih']

private theorem cut_append (sep : UInt8) (k v : Bytes) (h : ∀ b ∈ k, b ≠ sep) :
    cut sep (k ++ sep :: v) = some (k, v) := by
  induction k with
  | nil => simp [cut]
  | cons b k ih =>
    have hb : (b == sep) = false := by simpa using h b (by simp)
    simp [cut, hb, ih (fun c hc => h c (by simp [hc]))]

/-! ### TrimSpace -/

private theorem dropWhile_id_of_head {α : Type} (p : α → Bool) (l : List α)
    (h : ∀ a, l.head? = some a → p a = false) : l.dropWhile p = l := by
  cases l with
  | nil => rfl
  | cons a r => simp [List.dropWhile, h a rfl]

private theorem trimSpace_of_no_space (s : Bytes) (h : ∀ b ∈ s, isSpace b = false) : trimSpace s = s := by
  unfold trimSpace
  rw [dropWhile_id_of_head isSpace s (fun a ha => h a (List.mem_of_mem_head? ha))]
  rw [dropWhile_id_of_head isSpace s.reverse
    (fun a ha => h a (List.mem_reverse.mp (List.mem_of_mem_head? ha)))]
  simp

private theorem token_facts : ∀ b : UInt8, isTokenChar b = true →
    isSpace b = false ∧ b ≠ 0x2c ∧ b ≠ 0x3d := by
  intro b hb
  have h80 : b < 0x80 := by
    simp only [isTokenChar, Bool.and_eq_true, decide_eq_true_eq] at hb; exact hb.1
  have : ∀ n : Fin 128, isTokenChar (UInt8.ofNat n.val) = true →
      isSpace (UInt8.ofNat n.val) = false ∧ UInt8.ofNat n.val ≠ 0x2c ∧ UInt8.ofNat n.val ≠ 0x3d := by decide
  have hlt : b.toNat < 128 := by simpa using UInt8.lt_iff_toNat_lt.mp h80
  have e : UInt8.ofNat b.toNat = b := UInt8.ofNat_toNat
  have := this ⟨b.toNat, hlt⟩
  simp only [e] at this
  exact this hb

private theorem validKey_facts {k : Bytes} (h : validKey k = true) :
    trimSpace k = k ∧ (∀ b ∈ k, b ≠ 0x2c) ∧ (∀ b ∈ k, b ≠ 0x3d) := by
  simp only [validKey, Bool.and_eq_true, List.all_eq_true] at h
  exact ⟨trimSpace_of_no_space k (fun b hb => (token_facts b (h.2 b hb)).1),
    fun b hb => (token_facts b (h.2 b hb)).2.1, fun b hb => (token_facts b (h.2 b hb)).2.2⟩

/-! ### url.PathUnescape ∘ escValue = id -/

private theorem esc_decodes : escSet.all (fun b =>
    hexv (hexDigit (b.toNat / 16)) == some (b.toNat / 16) && hexv (hexDigit (b.toNat % 16)) == some (b.toNat % 16) &&
    UInt8.ofNat (b.toNat / 16 * 16 + b.toNat % 16) == b) = true := by decide

private theorem unesc_escByte (b : UInt8) (out : Bytes) (hi : Nat) :
    ∃ hi', (escByte b).foldl unescStep { out := out, mode := 0, hi := hi, bad := false } =
      { out := b :: out, mode := 0, hi := hi', bad := false } := by
  unfold escByte
  by_cases hb : escSet.contains b = true
  · have hm : b ∈ escSet := by simpa using hb
    have := (List.all_eq_true.mp esc_decodes) b hm
    simp only [Bool.and_eq_true, beq_iff_eq] at this
    obtain ⟨⟨h1, h2⟩, h3⟩ := this
    refine ⟨b.toNat / 16, ?_⟩
    simp [hm, List.foldl, unescStep, h1, h2, h3]
  · have hne : (b == 0x25) = false := by
      cases h : b == 0x25
      · rfl
      · have : b = 0x25 := by simpa using h
        subst this
        exact absurd (by decide) hb
    have hnm : b ∉ escSet := by simpa using hb
    refine ⟨hi, ?_⟩
    simp [hnm, List.foldl, unescStep, hne]

private theorem unesc_escValue (v : Bytes) : ∀ (out : Bytes) (hi : Nat),
    ∃ hi', (escValue v).foldl unescStep { out := out, mode := 0, hi := hi, bad := false } =
      { out := v.reverse ++ out, mode := 0, hi := hi', bad := false } := by
  induction v with
  | nil => intro out hi; exact ⟨hi, rfl⟩
  | cons b r ih =>
    intro out hi
    obtain ⟨h1, e1⟩ := unesc_escByte b out hi
    obtain ⟨h2, e2⟩ := ih (b :: out) h1
    refine ⟨h2, ?_⟩
    simp only [escValue, List.flatMap_cons, List.foldl_append] at e2 ⊢
    rw [e1]
    simpa [escValue] using e2

/-- `url.PathUnescape` undoes the value escaping, for EVERY byte string. -/
theorem pathUnescape_escValue (v : Bytes) : pathUnescape (escValue v) = some v := by
  obtain ⟨h, e⟩ := unesc_escValue v [] 0
  simp [pathUnescape, e]

private theorem escValue_no_comma (v : Bytes) : ∀ b ∈ escValue v, b ≠ 0x2c := by
  have hset : escSet.all (fun b => (escByte b).all (· != 0x2c)) = true := by decide
  intro b hb
  simp only [escValue, List.mem_flatMap] at hb
  obtain ⟨a, _, hba⟩ := hb
  by_cases ha : escSet.contains a = true
  · have := (List.all_eq_true.mp ((List.all_eq_true.mp hset) a (by simpa using ha))) b hba
    simpa using this
  · simp only [escByte, ha, Bool.false_eq_true, if_false, List.mem_singleton] at hba
    subst hba
    intro h; subst h; exact ha (by decide)

/-! ### the theorems -/

/-- one pair: the parser returns exactly the pair that was written, if it is well formed … -/
theorem header_pair_roundtrip (p : Bytes × Bytes) (h : hdrWF p = true) :
    parseHeaderPair (renderHdrPair p) = some p := by
  simp only [hdrWF, Bool.and_eq_true, beq_iff_eq] at h
  obtain ⟨hk, hv⟩ := h
  obtain ⟨k1, _, k3⟩ := validKey_facts hk
  simp [parseHeaderPair, renderHdrPair, cut_append 0x3d p.1 _ k3, k1, hk, pathUnescape_escValue, hv]

/-- … and ONLY then: whatever the parser returns is well formed (the name passed the token check, the value is
trimmed), so a pair that is not `hdrWF` cannot come back unchanged. Hence: `parse (render p) = p ⇔ hdrWF p`. -/
theorem header_pair_roundtrip_iff (p : Bytes × Bytes) :
    parseHeaderPair (renderHdrPair p) = some p ↔ hdrWF p = true := by
  refine ⟨fun h => ?_, header_pair_roundtrip p⟩
  -- the parser's own checks
  unfold parseHeaderPair at h
  split at h
  · cases h
  · rename_i n v _
    by_cases hk : validKey (trimSpace n) = true
    · simp only [hk, Bool.not_true, Bool.false_eq_true, if_false] at h
      split at h
      · cases h
      · rename_i val _
        cases h
        simp only [hdrWF, hk, Bool.true_and, beq_iff_eq]
        -- trimSpace is idempotent
        have hid : ∀ s : Bytes, trimSpace (trimSpace s) = trimSpace s := by
          intro s
          unfold trimSpace
          have h1 : ∀ l : Bytes, (l.dropWhile isSpace).dropWhile isSpace = l.dropWhile isSpace := by
            intro l
            induction l with
            | nil => rfl
            | cons a r ih =>
              by_cases ha : isSpace a = true
              · simp [List.dropWhile, ha, ih]
              · simp [List.dropWhile, ha]
          -- after the right trim the left end is still free of leading spaces
          have h2 : ∀ l : Bytes, (∀ a, l.head? = some a → isSpace a = false) →
              ∀ a, ((l.reverse.dropWhile isSpace).reverse).head? = some a → isSpace a = false := by
            intro l hl a ha
            cases hd : l.reverse.dropWhile isSpace with
            | nil => simp [hd] at ha
            | cons x xs =>
              -- l.reverse = spaces ++ x :: xs, so l = (x :: xs).reverse ++ spaces.reverse, head of l = head of result
              have hsplit := List.takeWhile_append_dropWhile (p := isSpace) (l := l.reverse)
              rw [hd] at hsplit
              have hl' : l = (x :: xs).reverse ++ (l.reverse.takeWhile isSpace).reverse := by
                have := congrArg List.reverse hsplit
                simpa using this.symm
              rw [hd] at ha
              have hne : (x :: xs).reverse ≠ [] := by simp
              have : l.head? = some a := by
                rw [hl', List.head?_append, ha]; rfl
              exact hl a this
          have h3 : ∀ a, (s.dropWhile isSpace).head? = some a → isSpace a = false := by
            intro a ha
            have := List.head?_dropWhile_not isSpace s
            rw [ha] at this
            simpa using this
          rw [dropWhile_id_of_head isSpace _ (h2 _ h3)]
          simp [h1]
        exact hid val
    · simp [hk] at h

/-- invalid pairs are SKIPPED by the trace/metric parser: the result is the map of the pairs that parse. -/
theorem stringToHeader_skips_invalid (s : Bytes) :
    stringToHeader s = mapOf ((splitOn 0x2c s).filterMap parseHeaderPair) := by
  unfold stringToHeader mapOf
  generalize splitOn 0x2c s = xs
  generalize ([] : Hdrs) = acc
  induction xs generalizing acc with
  | nil => rfl
  | cons x r ih =>
    simp only [List.foldl_cons, List.filterMap_cons]
    cases hx : parseHeaderPair x with
    | none => simpa using ih acc
    | some kv => obtain ⟨k, v⟩ := kv; simpa using ih (hInsert k v acc)

/-- THE PARSER IS THE INVERSE OF THE SERIALISER on well-formed lists, all six exporters: a non-empty list of `hdrWF`
pairs written by `renderHdrs` is read back as the map it denotes — by `stringToHeader` (trace/metric) and by
`convHeaders` (logs, which accept the variable as a whole). -/
theorem headers_roundtrip (ps : List (Bytes × Bytes)) (hne : ps ≠ []) (h : ∀ p ∈ ps, hdrWF p = true) :
    stringToHeader (renderHdrs ps) = mapOf ps ∧ convHeaders (renderHdrs ps) = some (mapOf ps) := by
  have hsplit : splitOn 0x2c (renderHdrs ps) = ps.map renderHdrPair := by
    unfold renderHdrs
    apply splitOn_join 0x2c _ (by simpa using hne)
    intro x hx b hb
    obtain ⟨p, hp, rfl⟩ := List.mem_map.mp hx
    have hw := h p hp
    simp only [hdrWF, Bool.and_eq_true] at hw
    obtain ⟨_, k2, _⟩ := validKey_facts hw.1
    simp only [renderHdrPair, List.mem_append, List.mem_cons] at hb
    rcases hb with hb | hb | hb
    · exact k2 b hb
    · subst hb; decide
    · exact escValue_no_comma p.2 b hb
  have hfm : (ps.map renderHdrPair).filterMap parseHeaderPair = ps := by
    clear hsplit hne
    induction ps with
    | nil => rfl
    | cons p r ih =>
      simp only [List.map_cons, List.filterMap_cons, header_pair_roundtrip p (h p (by simp))]
      rw [ih (fun q hq => h q (List.mem_cons_of_mem _ hq))]
  have h1 : stringToHeader (renderHdrs ps) = mapOf ps := by
    rw [stringToHeader_skips_invalid, hsplit, hfm]
  refine ⟨h1, ?_⟩
  unfold convHeaders
  rw [hsplit, h1]
  have : ((ps.map renderHdrPair).map parseHeaderPair).all Option.isSome = true := by
    simp only [List.all_eq_true, List.mem_map]
    rintro _ ⟨_, ⟨p, hp, rfl⟩, rfl⟩
    simp [header_pair_roundtrip p (h p hp)]
  rw [if_pos this]

/-- non-vacuity: a value with a comma, a percent sign and an inner space survives; a second `k` replaces the first -/
example :
    let ps : List (Bytes × Bytes) := [([0x6b], [0x61, 0x2c, 0x25, 0x20, 0x62]), ([0x7a], []), ([0x6b], [0x31])]
    ps.all hdrWF = true ∧ stringToHeader (renderHdrs ps) = [([0x6b], [0x31]), ([0x7a], [])] ∧
    hdrWF ([0x6b], [0x20, 0x61]) = false ∧ hdrWF ([0x6b, 0x3d], [0x61]) = false := by decide

end Otel.C20
