/-
C20 — property theorems: configuration precedence is uniform and bad values never crash the host.
Every theorem quantifies over all option lists, all environment values (arbitrary byte strings) and, for
the exporters, over every `url.Parse` function (`Parse` is a parameter of the model).
-/
import Otel.C20.Lemmas
import Otel.C20.PathLemmas
set_option linter.unusedSimpArgs false
namespace Otel.C20
open Otel Otel.C20 Otel.C20.Spec

/-! ## SDK batching and limits: option over environment over default, bad values ignored -/

/-- the resolved BSP sizes are never negative, for every combination of options and OTEL_BSP_* values
(the F8 repair: negative sizes fall back to the defaults). -/
theorem bsp_sizes_nonneg (i : BspIn) : bspNonneg (newBSP i) = true := by
  unfold bspNonneg
  simp only [newBSP, bspEnvSizes, dfltQueue, dfltBatch, Bool.and_eq_true]
  exact ⟨decide_eq_true (nn_fix _ _ (by omega)), decide_eq_true (nn_fix _ _ (by omega))⟩

/-- `bsp_config_safe_partial` ("never causing a panic"): unless F31 applies (a huge size survives the resolution),
`NewBatchSpanProcessor` returns, with exactly the resolved options, and the resolved sizes are valid arguments of
`make(chan T, q)` / `make([]T, 0, b)`. -/
theorem bsp_config_safe_partial (i : BspIn) (h : F31_applies i = false) :
    bspConstruct i = some (newBSP i) ∧ noCrash (bspConstruct i) = true ∧ bspSafe (newBSP i) = true := by
  have h' : bspMakePanics (newBSP i) = false := h
  have hc : bspConstruct i = some (newBSP i) := by simp [bspConstruct, h']
  refine ⟨hc, by simp [hc, noCrash], ?_⟩
  simp [bspSafe, bsp_sizes_nonneg, h']

/-- `bsp_huge_size_panics_witness` (F31): OTEL_BSP_MAX_QUEUE_SIZE=9223372036854775807 is a valid integer, is not
negative, survives the resolution and reaches `make(chan, n)`: the constructor panics. Same for the batch size option. -/
theorem bsp_huge_size_panics_witness :
    bspConstruct { oq := none, ob := none, od := none, ot := none,
                   eq := some [0x39, 0x32, 0x32, 0x33, 0x33, 0x37, 0x32, 0x30, 0x33, 0x36, 0x38, 0x35, 0x34, 0x37, 0x37,
                               0x35, 0x38, 0x30, 0x37],
                   eb := none, ed := none, et := none } = none
    ∧ F31_applies { oq := none, ob := none, od := none, ot := none,
                    eq := some [0x39, 0x32, 0x32, 0x33, 0x33, 0x37, 0x32, 0x30, 0x33, 0x36, 0x38, 0x35, 0x34, 0x37, 0x37,
                                0x35, 0x38, 0x30, 0x37],
                    eb := none, ed := none, et := none } = true
    ∧ bspConstruct { oq := none, ob := some 9223372036854775807, od := none, ot := none, eq := none, eb := none,
                     ed := none, et := none } = none := by decide

/-- the full statement (false on the current code: see the witness) -/
def bsp_config_safe_full_statement : Prop := ∀ i : BspIn, noCrash (bspConstruct i) = true

/-- … and the batch size never exceeds the queue size when no size option is passed (the environment values are
reconciled; options are taken as given). -/
theorem bsp_batch_le_queue (i : BspIn) (hq : i.oq = none) (hb : i.ob = none) :
    (newBSP i).b ≤ (newBSP i).q := L.bsp_batch_le_queue i hq hb

/-- `sdk_precedence` for OTEL_BSP_*: a valid option wins, else a valid environment value, else the default;
negative sizes and unparsable text are ignored in favour of the default. -/
theorem sdk_precedence_bsp (i : BspIn) : bspOK i (newBSP i) = true := L.sdk_precedence_bsp i

/-- `sdk_precedence` for the span limits (OTEL_SPAN_*_LIMIT, OTEL_ATTRIBUTE_*_LIMIT, OTEL_EVENT_/LINK_ATTRIBUTE_COUNT_LIMIT):
`WithRawSpanLimits` verbatim, `WithSpanLimits` with `≤ 0` replaced by the default, otherwise environment
(signal-specific key first) over default. -/
theorem sdk_precedence_span_limits (m : SlMode) (o : List Int) (e : SlEnv) (ho : o.length = 6) :
    slimOK m o e (providerSpanLimits m o e) = true := L.sdk_precedence_span_limits m o e ho

/-- `sdk_precedence` for OTEL_BLRP_*: a valid (≥ 1) option wins, else a valid environment value, else the default;
a given batch size is clamped to the queue size. -/
theorem sdk_precedence_blrp (x : BlrpIn) : blrpOK x (newBatchConfig x) = true := L.sdk_precedence_blrp x

/-- `wrap64` is Go's int64 wrap-around: always in range, the identity on int64 values. -/
theorem wrap64_range (x : Int) : -9223372036854775808 ≤ wrap64 x ∧ wrap64 x < 9223372036854775808 := by
  unfold wrap64; omega

theorem wrap64_id (x : Int) (h1 : -9223372036854775808 ≤ x) (h2 : x < 9223372036854775808) : wrap64 x = x := by
  unfold wrap64; omega

/-- milliseconds up to 9223372036854 (≈ 292 years) convert without overflow -/
theorem mulMs_exact (n : Int) (h1 : -9223372036854 ≤ n) (h2 : n ≤ 9223372036854) : mulMs n = n * 1000000 := by
  unfold mulMs msNs; exact wrap64_id _ (by omega) (by omega)

/-- `blrp_config_safe`: every resolved value of the log batch processor — sizes AND durations after the int64
wrap-around of `time.Duration(n) * time.Millisecond` — is at least one, for every option and every environment
integer (in particular `time.NewTicker(interval)` never sees a non-positive interval: the second
`clearLessThanOne` runs after the unit conversion). -/
theorem blrp_config_safe (x : BlrpIn) : blrpSafe (newBatchConfig x) = true := L.blrp_config_safe x

/-- the interval handed to `time.NewTicker` is positive, stated on its own (the clause the seeded change C20-2 breaks). -/
theorem blrp_interval_positive (x : BlrpIn) : 1 ≤ (newBatchConfig x).i ∧ 1 ≤ (newBatchConfig x).t := by
  have h := blrp_config_safe x
  simp only [blrpSafe, Bool.and_eq_true, decide_eq_true_eq] at h
  exact ⟨h.1.1.1.2, h.1.1.2⟩

/-- … and a batch size that was given (valid option or valid variable) never exceeds the queue size. -/
theorem blrp_batch_le_queue (x : BlrpIn) (v : Int) (h : batchGiven x.ob x.eb = some v) :
    (newBatchConfig x).b ≤ (newBatchConfig x).q := L.blrp_batch_le_queue x v h

/-- `sdk_precedence` for OTEL_LOGRECORD_ATTRIBUTE_{COUNT,VALUE_LENGTH}_LIMIT. -/
theorem sdk_precedence_log_limits (ocnt olen : Option Int) (ecnt elen : Env) :
    llimOK ocnt olen ecnt elen (logLimits ocnt olen ecnt elen) = true :=
  L.sdk_precedence_log_limits ocnt olen ecnt elen

/-- `invalid_ignored` (`IntEnvOr`): an unparsable value behaves exactly like an unset variable. -/
theorem invalid_ignored_int (s : Bytes) (d : Int) (h : atoi s = none) :
    intEnvOr (some s) d = intEnvOr none d := by
  unfold intEnvOr
  by_cases hs : s.isEmpty <;> simp [hs, h]

/-- `invalid_ignored`, exact statement for `firstInt`: a signal-specific key that is set but unparsable yields
the DEFAULT — the generic key is not consulted (it is not "as if absent"). -/
theorem first_int_specific_invalid (s : Bytes) (g : Env) (d : Int) (hs : s.isEmpty = false)
    (h : atoi s = none) : firstInt d [some s, g] = d := by
  simp [firstInt, hs, h]

/-- … while an absent (unset or empty) specific key defers to the generic key. -/
theorem first_int_specific_absent (a g : Env) (d : Int) (h : envInt a = .absent) :
    firstInt d [a, g] = intEnvOr g d := by
  rw [firstInt2_eq, intEnvOr_eq]
  simp only [firstPresent, h]
  cases envInt g <;> rfl

/-- `invalid_ignored` (sdk/log `getenv`): an unparsable value behaves exactly like an unset variable. -/
theorem invalid_ignored_blrp (s : Bytes) (k : Int → Int) (o : Option Int) (h : atoi s = none) :
    getenvInt (some s) k o = getenvInt none k o := by
  unfold getenvInt
  cases o with
  | some x => rfl
  | none => by_cases hs : s.isEmpty <;> simp [hs, h]

/-! ## OTLP exporters: option over signal-specific variable over generic variable over default -/

/-- `otlp_precedence`, timeout, all six exporters: the code's order of application (defaults, generic variable,
specific variable, user options — or the `Resolve(getenv[specific, generic], fallback)` chain) equals
`resolve option specific generic default`. -/
theorem otlp_precedence_timeout (exp : Exp) (parse : Parse) (e : OtlpEnv) (opts : List UOpt) :
    (newConfig exp parse e opts).timeout = expectedTimeout exp e opts := by
  unfold newConfig
  cases h : exp.isLog
  · simpa [h] using tm_timeout exp h parse e opts
  · simpa [h] using log_timeout exp h parse e opts

/-- `otlp_precedence`, compression, all six exporters. -/
theorem otlp_precedence_compression (exp : Exp) (parse : Parse) (e : OtlpEnv) (opts : List UOpt) :
    (newConfig exp parse e opts).comp = expectedComp exp e opts := by
  unfold newConfig
  cases h : exp.isLog
  · simpa [h] using tm_comp exp h parse e opts
  · simpa [h] using log_comp exp h parse e opts

/-- `otlp_precedence`, headers, all six exporters (the whole header map comes from one source: no merging). -/
theorem otlp_precedence_headers (exp : Exp) (parse : Parse) (e : OtlpEnv) (opts : List UOpt) :
    (newConfig exp parse e opts).headers = expectedHeaders exp e opts := by
  unfold newConfig
  cases h : exp.isLog
  · simpa [h] using tm_headers exp h parse e opts
  · simpa [h] using log_headers exp h parse e opts

/-- `otlp_precedence`, endpoint (host[:port] / gRPC target), all six exporters, for every `url.Parse`. -/
theorem otlp_precedence_endpoint (exp : Exp) (parse : Parse) (e : OtlpEnv) (opts : List UOpt) :
    (newConfig exp parse e opts).endpoint = expectedEndpoint exp parse e opts := by
  unfold newConfig
  cases h : exp.isLog
  · simpa [h] using tm_endpoint exp h parse e opts
  · simpa [h] using log_endpoint exp h parse e opts

/-- `invalid_ignored` for the exporters: a signal-specific variable that provides no value (unparsable, empty)
behaves exactly like an unset one — the generic variable is consulted (contrast `first_int_specific_invalid`). -/
theorem otlp_invalid_timeout_ignored (exp : Exp) (parse : Parse) (e : OtlpEnv) (opts : List UOpt)
    (h : provTimeout exp e.toS = none) :
    (newConfig exp parse e opts).timeout = (newConfig exp parse { e with toS := none } opts).timeout := by
  rw [otlp_precedence_timeout, otlp_precedence_timeout]
  unfold expectedTimeout
  rw [h]
  rfl

/-- … and an unparsable signal-specific endpoint URL behaves like an unset one. -/
theorem otlp_invalid_endpoint_ignored (exp : Exp) (parse : Parse) (e : OtlpEnv) (opts : List UOpt)
    (h : provUrl exp parse e.epS = none) :
    (newConfig exp parse e opts).endpoint = (newConfig exp parse { e with epS := none } opts).endpoint := by
  rw [otlp_precedence_endpoint, otlp_precedence_endpoint]
  unfold expectedEndpoint
  rw [h]
  rfl

/-- URL path of the HTTP exporters, exact form per deciding source: trace/metric = `cleanPath` of (option path |
specific path or "/" | `path.Join(generic path, signal path)` | default); logs = (option path | specific path or
"/" | generic path ++ "/v1/logs" | default). -/
theorem otlp_path_exact (exp : Exp) (hh : exp.isHttp = true) (parse : Parse) (e : OtlpEnv) (opts : List UOpt) :
    (newConfig exp parse e opts).path =
      if exp.isLog then logPath (pathSource exp parse e opts)
      else cleanPath (tmRawPath exp (pathSource exp parse e opts)) exp.sigPath := by
  unfold newConfig
  cases h : exp.isLog
  · simpa [h] using tm_path exp h hh parse e opts
  · simpa [h] using log_path exp h hh parse e opts

/-- `specific_endpoint_verbatim_partial`: when the signal-specific endpoint decides the path of an HTTP exporter it
is used verbatim ("/" for an empty path) — unless F20 applies (trace/metric exporter and the path is not already
in `cleanPath` normal form). -/
theorem specific_endpoint_verbatim_partial (exp : Exp) (hh : exp.isHttp = true) (parse : Parse) (e : OtlpEnv)
    (opts : List UOpt) (p : Bytes) (hs : pathSource exp parse e opts = .specific p)
    (hF : F20_applies exp parse e opts = false) :
    (newConfig exp parse e opts).path = verbatim p := by
  rw [otlp_path_exact exp hh, hs]
  cases h : exp.isLog
  · simp only [F20_applies, hh, h, hs, Bool.not_false, Bool.and_self, Bool.true_and] at hF
    simpa [tmRawPath] using hF
  · simp [logPath]

/-- the log exporters use the signal-specific path verbatim unconditionally. -/
theorem specific_endpoint_verbatim_logs (exp : Exp) (hh : exp.isHttp = true) (hl : exp.isLog = true)
    (parse : Parse) (e : OtlpEnv) (opts : List UOpt) (p : Bytes)
    (hs : pathSource exp parse e opts = .specific p) :
    (newConfig exp parse e opts).path = verbatim p := by
  rw [otlp_path_exact exp hh, hs]; simp [hl, logPath]

/-- a URL parser for the examples: the one string `u` parses to http://c/custom/ -/
def exParse : Parse := fun s =>
  if s == [0x75] then some { scheme := sHttp, host := [0x63], path := [0x2f, 0x63, 0x75, 0x73, 0x74, 0x6f, 0x6d, 0x2f] }
  else none

def exEnv : OtlpEnv :=
  { epS := some [0x75], epG := none, insS := none, insG := none, hdS := none, hdG := none, coS := none,
    coG := none, toS := none, toG := none }

/-- `specific_endpoint_verbatim_witness` (F20): OTEL_EXPORTER_OTLP_TRACES_ENDPOINT=http://c/custom/ gives the
trace HTTP exporter the path `/custom`, not `/custom/` — the full statement is false for the current code. -/
theorem specific_endpoint_verbatim_witness :
    pathSource .th exParse exEnv [] = .specific [0x2f, 0x63, 0x75, 0x73, 0x74, 0x6f, 0x6d, 0x2f]
    ∧ (newConfig .th exParse exEnv []).path = [0x2f, 0x63, 0x75, 0x73, 0x74, 0x6f, 0x6d]
    ∧ (newConfig .th exParse exEnv []).path ≠ verbatim [0x2f, 0x63, 0x75, 0x73, 0x74, 0x6f, 0x6d, 0x2f]
    ∧ F20_applies .th exParse exEnv [] = true := by decide

/-- the full statement (false for the trace/metric HTTP exporters: see the witness) -/
def specific_endpoint_verbatim_full_statement : Prop :=
  ∀ (exp : Exp) (parse : Parse) (e : OtlpEnv) (opts : List UOpt) (p : Bytes), exp.isHttp = true →
    pathSource exp parse e opts = .specific p → (newConfig exp parse e opts).path = verbatim p

/-- `generic_endpoint_appends_signal_path`, log exporter: the result is the generic path followed by `/v1/logs`,
and the Spec relation (`pathOK`) holds. -/
theorem generic_endpoint_appends_signal_path_logs (exp : Exp) (hh : exp.isHttp = true) (hl : exp.isLog = true)
    (parse : Parse) (e : OtlpEnv) (opts : List UOpt) (base : Bytes)
    (hs : pathSource exp parse e opts = .generic base) :
    (newConfig exp parse e opts).path = base ++ exp.sigPath
    ∧ pathOK exp (.generic base) (newConfig exp parse e opts).path = true := by
  have hsig : exp.sigPath = sLogs := by cases exp <;> simp_all [Exp.isLog, Exp.sigPath]
  have hp : (newConfig exp parse e opts).path = base ++ exp.sigPath := by
    rw [otlp_path_exact exp hh, hs, hsig]; simp [hl, logPath]
  refine ⟨hp, ?_⟩
  rw [hp]
  simp [pathOK, endsWith_append]

/-- `generic_endpoint_appends_signal_path`, trace/metric exporters, exact form: the result is
`cleanPath(path.Join(generic path, signal path))`. (That this is the generic path followed by the signal path up
to path normalisation is the theorem `generic_path_normalised` below.) -/
theorem generic_endpoint_appends_signal_path_tm (exp : Exp) (hh : exp.isHttp = true) (hl : exp.isLog = false)
    (parse : Parse) (e : OtlpEnv) (opts : List UOpt) (base : Bytes)
    (hs : pathSource exp parse e opts = .generic base) :
    (newConfig exp parse e opts).path = cleanPath (pathJoin base exp.sigPath) exp.sigPath := by
  rw [otlp_path_exact exp hh, hs]; simp [hl, tmRawPath]

/-- `generic_endpoint_appends_signal_path`, trace/metric exporters, the Spec relation itself (proved through the
`path.Clean` theory of PathLemmas.lean: split/join inverse, reduced stacks are fixed points, rooting commutes with
cleaning): for EVERY generic endpoint path `base`, `cleanPath(path.Join(base, signal path))` ends with the signal path and
equals `base ++ signal path` up to path normalisation — provided the joined path does not begin with white space
(`cleanPath` trims it; the condition is necessary, see the counterexample below). -/
theorem generic_path_normalised (exp : Exp) (base : Bytes) (hh : exp.isHttp = true) (hl : exp.isLog = false)
    (htrim : trimSpace (pathJoin base exp.sigPath) = pathJoin base exp.sigPath) :
    pathOK exp (.generic base) (cleanPath (pathJoin base exp.sigPath) exp.sigPath) = true := by
  have n1 : NoSlash [0x76, 0x31] := by intro c hc; revert c; decide
  have n2 : NoSlash [0x74, 0x72, 0x61, 0x63, 0x65, 0x73] := by intro c hc; revert c; decide
  have n3 : NoSlash [0x6d, 0x65, 0x74, 0x72, 0x69, 0x63, 0x73] := by intro c hc; revert c; decide
  have m1 : Normal [0x76, 0x31] := by unfold Normal; decide
  have m2 : Normal [0x74, 0x72, 0x61, 0x63, 0x65, 0x73] := by unfold Normal; decide
  have m3 : Normal [0x6d, 0x65, 0x74, 0x72, 0x69, 0x63, 0x73] := by unfold Normal; decide
  cases exp <;> simp [Exp.isHttp, Exp.isLog] at hh hl
  · simp only [pathOK, Exp.sigPath, sTraces_form] at htrim ⊢
    obtain ⟨h1, h2⟩ := generic_ab base _ _ n1 n2 m1 m2 htrim
    simp only [h1, h2, beq_self_eq_true, Bool.and_self]
  · simp only [pathOK, Exp.sigPath, sMetrics_form] at htrim ⊢
    obtain ⟨h1, h2⟩ := generic_ab base _ _ n1 n3 m1 m3 htrim
    simp only [h1, h2, beq_self_eq_true, Bool.and_self]

/-- the side condition is necessary: a generic endpoint path whose first remaining segment begins with a space
(e.g. the URL `%20a`, or `a/../%20b`) loses that space in `cleanPath` (`strings.TrimSpace`), which is more than path
normalisation: ` a` + `/v1/traces` becomes `/a/v1/traces`. (Same root cause as F20; not generated by the harness.) -/
theorem generic_path_leading_space_counterexample :
    cleanPath (pathJoin [0x20, 0x61] Exp.th.sigPath) Exp.th.sigPath = 0x2f :: 0x61 :: sTraces
    ∧ pathOK .th (.generic [0x20, 0x61]) (cleanPath (pathJoin [0x20, 0x61] Exp.th.sigPath) Exp.th.sigPath) = false
    ∧ pathOK .th (.generic [0x61, 0x2f, 0x2e, 0x2e, 0x2f, 0x20, 0x62])
        (cleanPath (pathJoin [0x61, 0x2f, 0x2e, 0x2e, 0x2f, 0x20, 0x62] Exp.th.sigPath) Exp.th.sigPath) = false := by
  decide

/-- instances of the statement, including dot segments above the root and a trailing slash -/
example : pathOK .th (.generic [0x2e, 0x2e]) (cleanPath (pathJoin [0x2e, 0x2e] Exp.th.sigPath) Exp.th.sigPath) = true
    ∧ pathOK .mh (.generic [0x2f, 0x62, 0x2f]) (cleanPath (pathJoin [0x2f, 0x62, 0x2f] Exp.mh.sigPath) Exp.mh.sigPath) = true
    ∧ pathOK .th (.generic []) (cleanPath (pathJoin [] Exp.th.sigPath) Exp.th.sigPath) = true := by decide

/-- `otlp_precedence`, all settings at once: outside F20 (and, for a generic endpoint of a trace/metric HTTP exporter,
when the joined path does not begin with white space) the whole
Spec oracle holds of the model, for each of the six exporters, all options, all environment values and every
`url.Parse`. -/
theorem otlp_precedence (exp : Exp) (parse : Parse) (e : OtlpEnv) (opts : List UOpt)
    (hF : F20_applies exp parse e opts = false)
    (hg : exp.isLog = true ∨ ∀ b, pathSource exp parse e opts = .generic b →
            trimSpace (pathJoin b exp.sigPath) = pathJoin b exp.sigPath) :
    otlpOK exp parse e opts (newConfig exp parse e opts) = true := by
  simp only [otlpOK, otlp_precedence_timeout, otlp_precedence_compression, otlp_precedence_headers,
    otlp_precedence_endpoint, beq_self_eq_true, Bool.true_and, Bool.or_eq_true, Bool.not_eq_eq_eq_not,
    Bool.not_true]
  cases hh : exp.isHttp
  · left; rfl
  · right
    cases hsrc : pathSource exp parse e opts with
    | opt p =>
      rw [otlp_path_exact exp hh, hsrc]
      cases hl : exp.isLog <;> simp [pathOK, hl, logPath, tmRawPath]
    | specific p =>
      rw [specific_endpoint_verbatim_partial exp hh parse e opts p hsrc hF]
      simp [pathOK]
    | generic b =>
      cases hl : exp.isLog with
      | true => exact (generic_endpoint_appends_signal_path_logs exp hh hl parse e opts b hsrc).2
      | false =>
        have ht : trimSpace (pathJoin b exp.sigPath) = pathJoin b exp.sigPath := by
          cases hg with
          | inl h => rw [hl] at h; cases h
          | inr hn => exact hn b hsrc
        rw [generic_endpoint_appends_signal_path_tm exp hh hl parse e opts b hsrc]
        exact generic_path_normalised exp b hh hl ht
    | dflt =>
      rw [otlp_path_exact exp hh, hsrc]
      cases exp <;> simp_all [Exp.isLog, Exp.isHttp, pathOK, logPath, tmRawPath, Exp.sigPath, clean_traces,
        clean_metrics]

/-- `config_independent_of_other_exporters`: the i-th exporter of a process gets exactly the resolution of its own
sources, whatever was constructed before or after it, and whatever the environment was at those other construction
times. NOTE: in the functional model this is immediate (a map over the constructions) — the model has no state shared
between exporters. The statement is recorded because the property says "each exporter takes each setting from the
highest-precedence source that provides it" for THAT exporter; it is tied to the code by the two-exporter scenarios of
the end-to-end leg (roles C/D), where package-level shared state (seeded change C20-9) would show. -/
theorem config_independent_of_other_exporters (parse : Parse) (before after : List Construction) (c : Construction) :
    (constructAll parse (before ++ c :: after))[before.length]? = some (newConfig c.exp parse c.env c.opts) := by
  simp [constructAll]

/-! ## non-vacuity -/

/-- all three sources present for the BSP sizes: the option wins for the queue, the environment batch size is reconciled -/
example : newBSP { oq := some 5, ob := none, od := none, ot := some 7, eq := some [0x39], eb := some [0x36, 0x30, 0x30],
                   ed := some [0x61], et := none } = { q := 5, b := 9, d := 5000000000, t := 7000000 } := by decide

/-- negative option sizes fall back to the defaults (F8 witness) -/
example : newBSP { oq := some (-1), ob := some (-1), od := none, ot := none, eq := none, eb := none, ed := none, et := none }
    = { q := 2048, b := 512, d := 5000000000, t := 30000000000 } := by decide

/-- specific key invalid, generic key valid: default -/
example : firstInt 128 [some [0x61], some [0x35]] = 128 := by decide

/-- log batch config: invalid option, env batch larger than env queue → clamped -/
example : newBatchConfig { oq := some 0, oi := none, ot := none, ob := none, obuf := some (-3), eq := some [0x35],
                           ei := none, et := none, eb := some [0x39] }
    = { q := 5, i := 1000000000, t := 30000000000, b := 5, buf := 1 } := by decide

/-- OTEL_BLRP_SCHEDULE_DELAY=9223372036854775807 (wraps to −1 ms) and 9223372036855 (first overflowing value) are
cleared after the conversion: the default interval is used -/
example : (newBatchConfig { oq := none, oi := none, ot := none, ob := none, obuf := none, eq := none,
                            ei := some [0x39, 0x32, 0x32, 0x33, 0x33, 0x37, 0x32, 0x30, 0x33, 0x36, 0x38, 0x35, 0x34, 0x37, 0x37, 0x35, 0x38, 0x30, 0x37],
                            et := some [0x39, 0x32, 0x32, 0x33, 0x33, 0x37, 0x32, 0x30, 0x33, 0x36, 0x38, 0x35, 0x35], eb := none })
    = { q := 2048, i := 1000000000, t := 30000000000, b := 512, buf := 1 } := by decide

/-- 18446744073710 ms wraps back to a small positive duration (448384 ns), which is used as it is -/
example : (newBatchConfig { oq := none, oi := none, ot := none, ob := none, obuf := none, eq := none,
                            ei := some [0x31, 0x38, 0x34, 0x34, 0x36, 0x37, 0x34, 0x34, 0x30, 0x37, 0x33, 0x37, 0x31, 0x30],
                            et := none, eb := none }).i = 448384 := by decide

/-- the BSP takes a wrapped OTEL_BSP_SCHEDULE_DELAY verbatim: 9223372036855 ms becomes a negative BatchTimeout
(a non-positive timer fires immediately: no panic) -/
example : (newBSP { oq := none, ob := none, od := none, ot := none, eq := none, eb := none,
                    ed := some [0x39, 0x32, 0x32, 0x33, 0x33, 0x37, 0x32, 0x30, 0x33, 0x36, 0x38, 0x35, 0x35], et := none }).d
    = -9223372036854551616 := by decide

/-- the three sources of the timeout for a log exporter: specific invalid, generic valid → generic wins -/
example : (newConfig .lh exParse { exEnv with toS := some [0x61], toG := some [0x37] } []).timeout = 7000000 := by decide

/-- an option beats both variables (trace gRPC exporter) -/
example : (newConfig .tg exParse { exEnv with toS := some [0x35], toG := some [0x37] } [.timeout 9]).timeout = 9 := by decide

/-- the hypotheses of `otlp_precedence` are satisfiable with a specific endpoint that decides the path -/
example : F20_applies .lh exParse exEnv [] = false ∧ pathSource .lh exParse exEnv [] = .specific [0x2f, 0x63, 0x75, 0x73, 0x74, 0x6f, 0x6d, 0x2f] := by decide

/-! ## the resolved timeout reaches the client on every construction path -/

/-- the timeout an exporter really runs with (`http.Client.Timeout` / the gRPC export deadline) is the one the
highest-precedence source provides — for each of the six exporters, every combination of sources AND every
construction path (shared or cloned transport, TLS configuration, proxy, supplied gRPC connection). -/
theorem effective_timeout_follows_precedence (exp : Exp) (parse : Parse) (e : OtlpEnv) (opts : List UOpt)
    (b : Build) : effectiveTimeout exp parse e opts b = expectedTimeout exp e opts := by
  rw [← otlp_precedence_timeout exp parse e opts]
  unfold effectiveTimeout newClientM
  cases exp.isHttp <;> cases b.tls <;> cases b.proxy <;> cases exp.isLog <;> simp

/-- … in particular the construction path never matters for it. -/
theorem effective_timeout_independent_of_path (exp : Exp) (parse : Parse) (e : OtlpEnv) (opts : List UOpt)
    (b b' : Build) : effectiveTimeout exp parse e opts b = effectiveTimeout exp parse e opts b' := by
  rw [effective_timeout_follows_precedence, effective_timeout_follows_precedence]

/-- non-vacuity: option 120 ms over a specific variable of 900 ms, on a cloned transport with TLS and proxy -/
example :
    effectiveTimeout .th (fun _ => none)
      { epS := none, epG := none, insS := none, insG := none, hdS := none, hdG := none, coS := none, coG := none,
        toS := some [0x39, 0x30, 0x30], toG := none }
      [.timeout 120000000] { tls := true, proxy := true, suppliedConn := false } = 120000000 := by decide

/-! ## transport security of the trace/metric exporters -/

private def pInsecure (parse : Parse) : Opt → Option Bool
  | .user o => optInsecure parse o
  | .envScheme u => some (toLower u.scheme == sHttp || toLower u.scheme == sUnix)
  | .envInsecure b => some b
  | .envEndpoint _ _ => none

private theorem apply_insecure (exp : Exp) (parse : Parse) (c : Cfg) (o : Opt) :
    (applyOpt exp parse c o).insecure = (pInsecure parse o).getD c.insecure := by
  cases o with
  | user u =>
    cases u <;> simp [applyOpt, applyUser, pInsecure, optInsecure]
    split <;> simp [*]
  | envScheme u => rfl
  | envEndpoint g u => simp only [applyOpt, pInsecure]; split <;> rfl
  | envInsecure b => rfl

private theorem ls_url_insecure (parse : Parse) (g : Bool) (v : Env) :
    lastSome (pInsecure parse) (envUrlOpts parse g v) = provInsecureScheme parse v := by
  unfold envUrlOpts provInsecureScheme
  cases getEnvValue v with
  | none => rfl
  | some s => cases h : parse s <;> simp [lastSome, pInsecure, h]

private theorem ls_bool_insecure (parse : Parse) (v : Env) :
    lastSome (pInsecure parse) (envBoolOpts v) = provInsecureWord v := by
  unfold envBoolOpts provInsecureWord
  cases getEnvValue v <;> simp [lastSome, pInsecure]

/-- INSECURE / SCHEME DECISION TABLE, otlptracehttp, otlptracegrpc, otlpmetrichttp, otlpmetricgrpc: whether the
exporter talks clear text is decided by the last of the options `WithInsecure`, a "secure" option, `WithEndpointURL`
(by its scheme: only `https` is secure); else by the signal-specific `…_INSECURE` variable, else the generic one (any
non-empty value decides, only the word `true` is insecure); else by the scheme of the signal-specific endpoint
variable, else of the generic one (`http`/`unix` clear text, anything else TLS); else secure — for all option lists,
all environment values and every `url.Parse`. -/
theorem tm_insecure_decision_table (exp : Exp) (hl : exp.isLog = false) (parse : Parse) (e : OtlpEnv)
    (opts : List UOpt) : (newConfig exp parse e opts).insecure = expectedInsecureTM parse e opts := by
  have h1 : (newConfig exp parse e opts).insecure =
      ((envOpts parse e ++ opts.map Opt.user).foldl (applyOpt exp parse) (defaults exp)).insecure := by
    unfold newConfig; simp only [hl, Bool.false_eq_true, if_false]
    unfold newTMConfig; simp only; split <;> rfl
  rw [h1, foldl_field (applyOpt exp parse) (·.insecure) (pInsecure parse) (apply_insecure exp parse)]
  rw [lastSome_append, lastSome_map]
  have h2 : (fun o => pInsecure parse (Opt.user o)) = optInsecure parse := by funext o; rfl
  rw [h2]
  unfold expectedInsecureTM
  cases lastSome (optInsecure parse) opts with
  | some v => rfl
  | none =>
    simp only [envOpts, lastSome_append, defaults, Option.getD]
    rw [ls_to_none _ _ (fun _ => rfl), ls_to_none _ _ (fun _ => rfl),
      ls_comp_none _ _ (fun _ => rfl), ls_comp_none _ _ (fun _ => rfl), ls_hdr_none _ _ (fun _ => rfl),
      ls_hdr_none _ _ (fun _ => rfl), ls_bool_insecure, ls_bool_insecure, ls_url_insecure, ls_url_insecure]
    cases provInsecureWord e.insS with
    | some b => rfl
    | none =>
      cases provInsecureWord e.insG with
      | some b => rfl
      | none =>
        cases provInsecureScheme parse e.epS with
        | some b => rfl
        | none => cases provInsecureScheme parse e.epG <;> rfl

/-- non-vacuity: `OTEL_EXPORTER_OTLP_TRACES_INSECURE=false` beats an `http://` generic endpoint; `WithInsecure` beats both -/
example :
    let parse : Parse := fun _ => some { scheme := sHttp, host := [], path := [] }
    let e : OtlpEnv := { epS := none, epG := some [0x68], insS := some [0x66, 0x61, 0x6c, 0x73, 0x65], insG := none,
                          hdS := none, hdG := none, coS := none, coG := none, toS := none, toG := none }
    (newConfig .th parse e []).insecure = false ∧ (newConfig .th parse e [.insecure]).insecure = true ∧
    (newConfig .th parse { e with insS := none } []).insecure = true := by decide

/-! ## F20 is exactly the observed difference -/

/-- TIGHTNESS of the F20 exclusion: for an HTTP exporter `F20_applies` holds if and only if the signal-specific endpoint
variable decides the path AND the path the exporter really uses differs from that variable's path taken verbatim —
the predicate excludes nothing but the cases in which the clause `specific endpoint used verbatim` actually fails. -/
theorem F20_tight (exp : Exp) (hh : exp.isHttp = true) (parse : Parse) (e : OtlpEnv) (opts : List UOpt) :
    F20_applies exp parse e opts = true ↔
      ∃ p, pathSource exp parse e opts = .specific p ∧ (newConfig exp parse e opts).path ≠ verbatim p := by
  constructor
  · intro hF
    cases hs : pathSource exp parse e opts with
    | specific p =>
      refine ⟨p, rfl, ?_⟩
      cases hl : exp.isLog
      · rw [otlp_path_exact exp hh, hs]
        simp only [F20_applies, hh, hl, hs, Bool.not_false, Bool.and_self, Bool.true_and] at hF
        simpa [hl, tmRawPath] using hF
      · simp [F20_applies, hl] at hF
    | opt p => simp [F20_applies, hs] at hF
    | generic b => simp [F20_applies, hs] at hF
    | dflt => simp [F20_applies, hs] at hF
  · rintro ⟨p, hs, hne⟩
    cases hF : F20_applies exp parse e opts
    · exact absurd (specific_endpoint_verbatim_partial exp hh parse e opts p hs hF) hne
    · rfl

/-- … and it never applies to a log exporter or a gRPC exporter (no URL path there), so for those the path clauses
hold without exclusion. -/
theorem F20_only_trace_metric_http (exp : Exp) (parse : Parse) (e : OtlpEnv) (opts : List UOpt)
    (h : exp.isHttp = false ∨ exp.isLog = true) : F20_applies exp parse e opts = false := by
  rcases h with h | h <;> simp [F20_applies, h]

end Otel.C20
