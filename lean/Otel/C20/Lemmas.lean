/-
C20 — helper lemmas (not counted as obligations; the property theorems are in Props.lean).
-/
import Otel.C20.Spec
set_option linter.unusedSimpArgs false
set_option linter.unusedVariables false
namespace Otel.C20
open Otel Otel.C20 Otel.C20.Spec

theorem nn_fix (x d : Int) (hd : 0 ≤ d) : 0 ≤ (if x < 0 then d else x) := by split <;> omega

/-! ## SDK side -/

def srcOr (s : Src) (d : Int) : Int := match s with | .val n => n | _ => d

theorem intEnvOr_eq (v : Env) (d : Int) : intEnvOr v d = srcOr (envInt v) d := by
  unfold intEnvOr envInt srcOr
  cases v with
  | none => rfl
  | some s =>
    simp only
    by_cases h : s.isEmpty
    · simp [h]
    · simp only [h]
      cases atoi s <;> simp

theorem bsp_q (oq : Option Int) (s : Src) :
    precOK nonneg nonneg oq s 2048
      (if oq.getD (if srcOr s 2048 < 0 then 2048 else srcOr s 2048) < 0 then 2048
       else oq.getD (if srcOr s 2048 < 0 then 2048 else srcOr s 2048)) = true := by
  cases oq with
  | some v =>
    simp only [precOK, Option.getD_some, nonneg]
    by_cases h : v < 0
    · simp [h] <;> omega
    · simp [h] <;> omega
  | none =>
    cases s with
    | absent => simp [precOK, srcOr, Src.good]
    | invalid => simp [precOK, srcOr, Src.good]
    | val n =>
      simp only [precOK, srcOr, Src.good, nonneg, Option.getD_none]
      by_cases h : n < 0
      · have : ¬ (0 ≤ n) := by omega
        simp [h, this]
      · have : 0 ≤ n := by omega
        simp [h, this]

/-- the environment-level value of a size: valid (non-negative) value or the default -/
theorem envsize_eq (s : Src) (d : Int) :
    (if srcOr s d < 0 then d else srcOr s d) = (s.good nonneg).getD d := by
  cases s with
  | absent => (simp only [srcOr, Src.good, Option.getD_none]; by_cases h : d < 0 <;> simp [h])
  | invalid => (simp only [srcOr, Src.good, Option.getD_none]; by_cases h : d < 0 <;> simp [h])
  | val n =>
    simp only [srcOr, Src.good, nonneg]
    by_cases h : n < 0
    · have : ¬ (0 ≤ n) := by omega
      simp [h, this]
    · have : 0 ≤ n := by omega
      simp [h, this]

theorem good_nonneg (s : Src) (d : Int) (hd : 0 ≤ d) : 0 ≤ (s.good nonneg).getD d := by
  cases s with
  | absent => simpa [Src.good]
  | invalid => simpa [Src.good]
  | val n =>
    simp only [Src.good, nonneg]
    by_cases h : 0 ≤ n <;> simp [h] <;> omega

theorem bsp_dur (o : Option Int) (s : Src) (d : Int) :
    precOK anyInt anyInt (o.map mulMs) (s.map mulMs) (mulMs d)
      (match o with | some v => mulMs v | none => mulMs (srcOr s d)) = true := by
  cases o with
  | some v => simp [precOK, anyInt]
  | none => cases s <;> simp [precOK, anyInt, Src.good, Src.map, srcOr]


theorem L.sdk_precedence_bsp (i : BspIn) : bspOK i (newBSP i) = true := by
  rcases i with ⟨oq, ob, od, ot, eq, eb, ed, et⟩
  simp only [bspOK, newBSP, bspEnvSizes, dfltQueue, dfltBatch, dfltDelayMs, dfltTimeoutMs, intEnvOr_eq,
    Bool.and_eq_true]
  refine ⟨⟨⟨bsp_q _ _, ?_⟩, bsp_dur od _ 5000⟩, bsp_dur ot _ 30000⟩
  cases ob with
  | some v =>
    simp only [precOK, Option.getD_some, nonneg]
    by_cases h : v < 0
    · simp [h] <;> omega
    · simp [h] <;> omega
  | none =>
    simp only [Option.getD_none, envsize_eq]
    have hq := good_nonneg (envInt eq) 2048 (by omega)
    have hb := good_nonneg (envInt eb) 512 (by omega)
    generalize ((envInt eq).good nonneg).getD 2048 = q at *
    generalize ((envInt eb).good nonneg).getD 512 = b at *
    simp only [beq_iff_eq]
    by_cases h1 : b > q
    · by_cases h2 : (512 : Int) > q
      · simp [h1, h2]; omega
      · simp [h1, h2]; omega
    · simp [h1]; omega

theorem L.bsp_batch_le_queue (i : BspIn) (hq : i.oq = none) (hb : i.ob = none) :
    (newBSP i).b ≤ (newBSP i).q := by
  rcases i with ⟨oq, ob, od, ot, eq, eb, ed, et⟩
  simp only at hq hb
  subst hq hb
  simp only [newBSP, bspEnvSizes, dfltQueue, dfltBatch, intEnvOr_eq, Option.getD_none, envsize_eq]
  have hq := good_nonneg (envInt eq) 2048 (by omega)
  have hb := good_nonneg (envInt eb) 512 (by omega)
  generalize ((envInt eq).good nonneg).getD 2048 = q at *
  generalize ((envInt eb).good nonneg).getD 512 = b at *
  by_cases h1 : b > q
  · by_cases h2 : (512 : Int) > q
    · simp [h1, h2]; split <;> omega
    · simp [h1, h2]; split <;> omega
  · simp [h1]; split <;> split <;> omega

/-! span limits -/
theorem firstInt2_eq (d : Int) (a b : Env) :
    firstInt d [a, b] = srcOr (firstPresent [envInt a, envInt b]) d := by
  unfold firstInt firstInt firstInt envInt
  cases a with
  | none =>
    cases b with
    | none => simp [firstPresent, srcOr]
    | some t =>
      by_cases ht : t.isEmpty
      · simp [ht, firstPresent, srcOr]
      · cases h : atoi t <;> simp [ht, h, firstPresent, srcOr]
  | some s =>
    by_cases hs : s.isEmpty
    · cases b with
      | none => simp [hs, firstPresent, srcOr]
      | some t =>
        by_cases ht : t.isEmpty
        · simp [hs, ht, firstPresent, srcOr]
        · cases h : atoi t <;> simp [hs, ht, h, firstPresent, srcOr]
    · cases h : atoi s <;> simp [hs, h, firstPresent, srcOr]

theorem prec_none (s : Src) (d : Int) : precOK anyInt anyInt none s d (srcOr s d) = true := by
  cases s <;> simp [precOK, anyInt, Src.good, srcOr]

theorem L.sdk_precedence_span_limits (m : SlMode) (o : List Int) (e : SlEnv) (ho : o.length = 6) :
    slimOK m o e (providerSpanLimits m o e) = true := by
  match o, ho with
  | [a, b, c, d, f, g], _ =>
    cases m with
    | none =>
      simp [slimOK, providerSpanLimits, newSpanLimits, slEnvSrc, slDefaults, all3, slFieldOK, firstInt2_eq,
        intEnvOr_eq, prec_none]
    | lim =>
      simp [slimOK, providerSpanLimits, withSpanLimits, slEnvSrc, slDefaults, all3, slFieldOK]
    | raw =>
      simp [slimOK, providerSpanLimits, slEnvSrc, slDefaults, all3, slFieldOK]

/-! sdk/log -/
theorem getenvInt_none (v : Env) (k : Int → Int) :
    getenvInt v k none = match envInt v with | .val n => some (k n) | _ => none := by
  unfold getenvInt envInt
  cases v with
  | none => rfl
  | some s =>
    by_cases hs : s.isEmpty
    · simp [hs]
    · cases h : atoi s <;> simp [hs, h]

/-- one `clearLessThanOne, getenv, clearLessThanOne, fallback` chain -/
theorem blrp_chain (o : Option Int) (v : Env) (k : Int → Int) (d : Int) (hd : 1 ≤ d) :
    precOK positive positive o ((envInt v).map k) d
      (fallback d (clearLT1 (getenvInt v k (clearLT1 o)))) = true
    ∧ 1 ≤ fallback d (clearLT1 (getenvInt v k (clearLT1 o))) := by
  cases o with
  | some x =>
    by_cases hx : x < 1
    · have hx' : ¬ (1 ≤ x) := by omega
      simp only [clearLT1, hx, if_true, getenvInt_none]
      cases h : envInt v with
      | absent => simp [precOK, positive, hx', Src.map, Src.good, fallback, clearLT1]; omega
      | invalid => simp [precOK, positive, hx', Src.map, Src.good, fallback, clearLT1]; omega
      | val n =>
        by_cases hn : k n < 1
        · have : ¬ (1 ≤ k n) := by omega
          simp [precOK, positive, hx', Src.map, Src.good, fallback, clearLT1, hn, this]; omega
        · have : 1 ≤ k n := by omega
          simp [precOK, positive, hx', Src.map, Src.good, fallback, clearLT1, hn, this]
    · have hx' : 1 ≤ x := by omega
      simp [clearLT1, hx, getenvInt, precOK, positive, hx', fallback]
  | none =>
    simp only [clearLT1, getenvInt_none]
    cases h : envInt v with
    | absent => simp [precOK, Src.map, Src.good, fallback, clearLT1]; omega
    | invalid => simp [precOK, Src.map, Src.good, fallback, clearLT1]; omega
    | val n =>
      by_cases hn : k n < 1
      · have : ¬ (1 ≤ k n) := by omega
        simp [precOK, positive, Src.map, Src.good, fallback, clearLT1, hn, this]; omega
      · have : 1 ≤ k n := by omega
        simp [precOK, positive, Src.map, Src.good, fallback, clearLT1, hn, this]

theorem clearLT1_idem (o : Option Int) : clearLT1 (clearLT1 o) = clearLT1 o := by
  cases o with
  | none => rfl
  | some v => by_cases h : v < 1 <;> simp [clearLT1, h]

theorem getenvInt_unset (k : Int → Int) (s : Option Int) : getenvInt none k s = s := by
  cases s <;> rfl

theorem blrp_given (o : Option Int) (v : Env) :
    clearLT1 (getenvInt v id (clearLT1 o)) = batchGiven o v := by
  unfold batchGiven
  cases h : clearLT1 o with
  | some x =>
    have hx : ¬ (x < 1) := by
      cases o with
      | none => simp [clearLT1] at h
      | some y =>
        simp only [clearLT1] at h
        split at h
        · cases h
        · cases h; assumption
    simp [getenvInt, clearLT1, hx]
  | none =>
    simp only [getenvInt_none]
    cases envInt v with
    | absent => simp [clearLT1, Src.good]
    | invalid => simp [clearLT1, Src.good]
    | val n =>
      by_cases hn : n < 1
      · have : ¬ (1 ≤ n) := by omega
        simp [clearLT1, Src.good, positive, hn, this]
      · have : 1 ≤ n := by omega
        simp [clearLT1, Src.good, positive, hn, this]

theorem good_pos (s : Src) (x : Int) (h : s.good positive = some x) : 1 ≤ x := by
  cases s with
  | absent => simp [Src.good] at h
  | invalid => simp [Src.good] at h
  | val n =>
    by_cases hn : 1 ≤ n
    · simp [Src.good, positive, hn] at h; omega
    · simp [Src.good, positive, hn] at h

theorem given_pos (o : Option Int) (v : Env) (x : Int) (h : batchGiven o v = some x) : 1 ≤ x := by
  unfold batchGiven at h
  cases o with
  | some y =>
    by_cases hy : y < 1
    · simp only [clearLT1, hy, if_true] at h
      exact good_pos _ _ h
    · simp only [clearLT1, hy, if_false] at h
      cases h; omega
  | none =>
    simp only [clearLT1] at h
    exact good_pos _ _ h

theorem L.sdk_precedence_blrp (x : BlrpIn) : blrpOK x (newBatchConfig x) = true := by
  rcases x with ⟨oq, oi, ot, ob, obuf, eq, ei, et, eb⟩
  have h1 := blrp_chain oq eq id 2048 (by omega)
  have h2 := blrp_chain oi ei mulMs 1000000000 (by omega)
  have h3 := blrp_chain ot et mulMs 30000000000 (by omega)
  have h4 := blrp_chain obuf none id 1 (by omega)
  simp only [blrpOK, newBatchConfig, Bool.and_eq_true]
  refine ⟨⟨⟨⟨?_, h2.1⟩, h3.1⟩, ?_⟩, ?_⟩
  · have := h1.1
    cases h : envInt eq <;> simp [h, Src.map] at this ⊢ <;> exact this
  · have := h4.1
    simpa [envInt, Src.map, getenvInt_unset, clearLT1_idem] using this
  · rw [blrp_given ob eb]
    generalize fallback 2048 (clearLT1 (getenvInt eq id (clearLT1 oq))) = q at *
    cases hg : batchGiven ob eb with
    | none => simp [clampMax, fallback]
    | some v =>
      simp only [clampMax, Option.map_some, fallback, beq_iff_eq]
      split <;> omega

theorem L.blrp_config_safe (x : BlrpIn) : blrpSafe (newBatchConfig x) = true := by
  rcases x with ⟨oq, oi, ot, ob, obuf, eq, ei, et, eb⟩
  have h1 := (blrp_chain oq eq id 2048 (by omega)).2
  have h2 := (blrp_chain oi ei mulMs 1000000000 (by omega)).2
  have h3 := (blrp_chain ot et mulMs 30000000000 (by omega)).2
  have h4 := (blrp_chain obuf none id 1 (by omega)).2
  have hb : 1 ≤ (newBatchConfig ⟨oq, oi, ot, ob, obuf, eq, ei, et, eb⟩).b := by
    simp only [newBatchConfig]
    rw [blrp_given ob eb]
    generalize fallback 2048 (clearLT1 (getenvInt eq id (clearLT1 oq))) = q at *
    cases hg : batchGiven ob eb with
    | none => simp [clampMax, fallback]
    | some v =>
      have hv := given_pos ob eb v hg
      simp only [clampMax, Option.map_some, fallback]
      split <;> omega
  have hbuf : 1 ≤ (newBatchConfig ⟨oq, oi, ot, ob, obuf, eq, ei, et, eb⟩).buf := by
    simpa [newBatchConfig, getenvInt_unset, clearLT1_idem] using h4
  simp only [blrpSafe, Bool.and_eq_true, decide_eq_true_eq]
  exact ⟨⟨⟨⟨h1, h2⟩, h3⟩, hb⟩, hbuf⟩

/-- a batch size that was given never exceeds the resolved queue size -/
theorem L.blrp_batch_le_queue (x : BlrpIn) (v : Int) (h : batchGiven x.ob x.eb = some v) :
    (newBatchConfig x).b ≤ (newBatchConfig x).q := by
  rcases x with ⟨oq, oi, ot, ob, obuf, eq, ei, et, eb⟩
  simp only at h
  simp only [newBatchConfig]
  rw [blrp_given ob eb, h]
  generalize fallback 2048 (clearLT1 (getenvInt eq id (clearLT1 oq))) = q
  simp only [clampMax, Option.map_some, fallback]
  split <;> omega

theorem L.sdk_precedence_log_limits (ocnt olen : Option Int) (ecnt elen : Env) :
    llimOK ocnt olen ecnt elen (logLimits ocnt olen ecnt elen) = true := by
  simp only [llimOK, logLimits, Bool.and_eq_true]
  constructor
  · cases ocnt with
    | some v => simp [precOK, anyInt, getenvInt, fallback]
    | none => rw [getenvInt_none]; cases envInt ecnt <;> simp [precOK, anyInt, Src.good, fallback]
  · cases olen with
    | some v => simp [precOK, anyInt, getenvInt, fallback]
    | none => rw [getenvInt_none]; cases envInt elen <;> simp [precOK, anyInt, Src.good, fallback]

/-! ## OTLP exporters -/

theorem foldl_field {σ ο α : Type} (apply : σ → ο → σ) (get : σ → α) (prov : ο → Option α)
    (h : ∀ c o, get (apply c o) = (prov o).getD (get c)) :
    ∀ (os : List ο) (c : σ), get (os.foldl apply c) = (lastSome prov os).getD (get c) := by
  intro os
  induction os with
  | nil => intro c; simp [lastSome]
  | cons o os ih =>
    intro c
    rw [List.foldl_cons, ih, h]
    cases h' : lastSome prov os <;> simp [lastSome, h']

theorem lastSome_append {ο α : Type} (f : ο → Option α) (a b : List ο) :
    lastSome f (a ++ b) = match lastSome f b with | some v => some v | none => lastSome f a := by
  induction a with
  | nil => simp [lastSome]; cases lastSome f b <;> rfl
  | cons x a ih =>
    simp only [List.cons_append, lastSome, ih]
    cases lastSome f b <;> simp

theorem lastSome_map {ο ρ α : Type} (f : ρ → Option α) (g : ο → ρ) (l : List ο) :
    lastSome f (l.map g) = lastSome (fun o => f (g o)) l := by
  induction l with
  | nil => rfl
  | cons x l ih => simp only [List.map_cons, lastSome, ih]

theorem lastSome_all_none {ο α : Type} (f : ο → Option α) (l : List ο) (h : ∀ o ∈ l, f o = none) :
    lastSome f l = none := by
  induction l with
  | nil => rfl
  | cons x l ih =>
    simp only [lastSome]
    rw [ih (fun o ho => h o (List.mem_cons_of_mem _ ho)), h x (List.mem_cons_self ..)]

/-- trace/metric exporters read the environment through `GetEnvValue` -/
theorem envVal_tm (exp : Exp) (h : exp.isLog = false) (v : Env) : envVal exp v = getEnvValue v := by
  unfold envVal getEnvValue
  cases v <;> simp [h]

/-! timeout -/
def pTimeout : Opt → Option Int
  | .user (.timeout n) => some n
  | _ => none

theorem apply_timeout (exp : Exp) (parse : Parse) (c : Cfg) (o : Opt) :
    (applyOpt exp parse c o).timeout = (pTimeout o).getD c.timeout := by
  cases o with
  | user u =>
    cases u <;> simp [applyOpt, applyUser, pTimeout]
    split <;> rfl
  | envScheme u => rfl
  | envEndpoint g u => simp only [applyOpt, pTimeout]; split <;> rfl
  | envInsecure b => rfl


/-! pieces of `envOpts` -/
theorem ls_url_none {α : Type} (f : Opt → Option α) (parse : Parse) (g : Bool) (v : Env)
    (h1 : ∀ u, f (.envScheme u) = none) (h2 : ∀ g u, f (.envEndpoint g u) = none) :
    lastSome f (envUrlOpts parse g v) = none := by
  unfold envUrlOpts
  split
  · rfl
  · split
    · rfl
    · simp [lastSome, h1, h2]

theorem ls_bool_none {α : Type} (f : Opt → Option α) (v : Env) (h : ∀ b, f (.envInsecure b) = none) :
    lastSome f (envBoolOpts v) = none := by
  unfold envBoolOpts
  split <;> simp [lastSome, h]

theorem ls_hdr_none {α : Type} (f : Opt → Option α) (v : Env) (h : ∀ m, f (.user (.headers m)) = none) :
    lastSome f (envHdrOpts v) = none := by
  unfold envHdrOpts
  split <;> simp [lastSome, h]

theorem ls_comp_none {α : Type} (f : Opt → Option α) (v : Env) (h : ∀ b, f (.user (.compression b)) = none) :
    lastSome f (envCompOpts v) = none := by
  unfold envCompOpts
  split <;> simp [lastSome, h]

theorem ls_to_none {α : Type} (f : Opt → Option α) (v : Env) (h : ∀ n, f (.user (.timeout n)) = none) :
    lastSome f (envToOpts v) = none := by
  unfold envToOpts
  split
  · rfl
  · split <;> simp [lastSome, h]

theorem ls_to (v : Env) :
    lastSome pTimeout (envToOpts v) = (getEnvValue v).bind (fun s => (atoi s).map mulMs) := by
  unfold envToOpts
  cases getEnvValue v with
  | none => rfl
  | some s => cases h : atoi s <;> simp [lastSome, pTimeout, h]

theorem tm_timeout (exp : Exp) (hl : exp.isLog = false) (parse : Parse) (e : OtlpEnv) (opts : List UOpt) :
    (newTMConfig exp parse e opts).timeout = expectedTimeout exp e opts := by
  have h1 : (newTMConfig exp parse e opts).timeout =
      ((envOpts parse e ++ opts.map Opt.user).foldl (applyOpt exp parse) (defaults exp)).timeout := by
    unfold newTMConfig; simp only; split <;> rfl
  rw [h1, foldl_field (applyOpt exp parse) (·.timeout) pTimeout (apply_timeout exp parse)]
  rw [lastSome_append, lastSome_map]
  have h2 : (fun o => pTimeout (Opt.user o)) = optTimeout := by
    funext o; cases o <;> rfl
  rw [h2]
  unfold expectedTimeout resolve
  cases lastSome optTimeout opts with
  | some v => rfl
  | none =>
    simp only [envOpts, lastSome_append, provTimeout, envVal_tm exp hl, defaults, Option.getD, ls_to]
    rw [ls_comp_none _ _ (fun _ => rfl), ls_comp_none _ _ (fun _ => rfl), ls_hdr_none _ _ (fun _ => rfl),
      ls_hdr_none _ _ (fun _ => rfl), ls_bool_none _ _ (fun _ => rfl), ls_bool_none _ _ (fun _ => rfl),
      ls_url_none _ _ _ _ (fun _ => rfl) (fun _ _ => rfl), ls_url_none _ _ _ _ (fun _ => rfl) (fun _ _ => rfl)]
    cases ((getEnvValue e.toS).bind fun s => (atoi s).map mulMs) with
    | some x => rfl
    | none => cases ((getEnvValue e.toG).bind fun s => (atoi s).map mulMs) <;> rfl

theorem tm_fold {α : Type} (exp : Exp) (parse : Parse) (e : OtlpEnv) (opts : List UOpt) (get : Cfg → α)
    (prov : Opt → Option α) (happly : ∀ c o, get (applyOpt exp parse c o) = (prov o).getD (get c)) :
    get ((envOpts parse e ++ opts.map Opt.user).foldl (applyOpt exp parse) (defaults exp)) =
      (match lastSome (fun o => prov (Opt.user o)) opts with
       | some v => some v
       | none => lastSome prov (envOpts parse e)).getD (get (defaults exp)) := by
  rw [foldl_field (applyOpt exp parse) get prov happly, lastSome_append, lastSome_map]

/-! compression -/
def pComp : Opt → Option Bool
  | .user (.compression b) => some b
  | _ => none

theorem apply_comp (exp : Exp) (parse : Parse) (c : Cfg) (o : Opt) :
    (applyOpt exp parse c o).comp = (pComp o).getD c.comp := by
  cases o with
  | user u =>
    cases u <;> simp [applyOpt, applyUser, pComp]
    split <;> rfl
  | envScheme u => rfl
  | envEndpoint g u => simp only [applyOpt, pComp]; split <;> rfl
  | envInsecure b => rfl

theorem ls_comp (v : Env) :
    lastSome pComp (envCompOpts v) = (getEnvValue v).bind (fun s => some (s == sGzip)) := by
  unfold envCompOpts
  cases getEnvValue v <;> simp [lastSome, pComp]

theorem tm_comp (exp : Exp) (hl : exp.isLog = false) (parse : Parse) (e : OtlpEnv) (opts : List UOpt) :
    (newTMConfig exp parse e opts).comp = expectedComp exp e opts := by
  have h1 : (newTMConfig exp parse e opts).comp =
      ((envOpts parse e ++ opts.map Opt.user).foldl (applyOpt exp parse) (defaults exp)).comp := by
    unfold newTMConfig; simp only; split <;> rfl
  rw [h1, tm_fold exp parse e opts (·.comp) pComp (apply_comp exp parse)]
  have h2 : (fun o => pComp (Opt.user o)) = optComp exp := by
    funext o; cases o <;> simp [pComp, optComp, hl]
  rw [h2]
  unfold expectedComp resolve
  cases lastSome (optComp exp) opts with
  | some v => rfl
  | none =>
    simp only [envOpts, lastSome_append, provComp, envVal_tm exp hl, defaults, Option.getD, ls_comp, hl]
    rw [ls_to_none _ _ (fun _ => rfl), ls_to_none _ _ (fun _ => rfl), ls_hdr_none _ _ (fun _ => rfl),
      ls_hdr_none _ _ (fun _ => rfl), ls_bool_none _ _ (fun _ => rfl), ls_bool_none _ _ (fun _ => rfl),
      ls_url_none _ _ _ _ (fun _ => rfl) (fun _ _ => rfl), ls_url_none _ _ _ _ (fun _ => rfl) (fun _ _ => rfl)]
    cases getEnvValue e.coS with
    | some x => simp
    | none => cases getEnvValue e.coG <;> simp

/-! headers -/
def pHdr : Opt → Option Hdrs
  | .user (.headers m) => some m
  | _ => none

theorem apply_hdr (exp : Exp) (parse : Parse) (c : Cfg) (o : Opt) :
    (applyOpt exp parse c o).headers = (pHdr o).getD c.headers := by
  cases o with
  | user u =>
    cases u <;> simp [applyOpt, applyUser, pHdr]
    split <;> rfl
  | envScheme u => rfl
  | envEndpoint g u => simp only [applyOpt, pHdr]; split <;> rfl
  | envInsecure b => rfl

theorem ls_hdr (v : Env) :
    lastSome pHdr (envHdrOpts v) = (getEnvValue v).bind (fun s => some (stringToHeader s)) := by
  unfold envHdrOpts
  cases getEnvValue v <;> simp [lastSome, pHdr]

theorem tm_headers (exp : Exp) (hl : exp.isLog = false) (parse : Parse) (e : OtlpEnv) (opts : List UOpt) :
    (newTMConfig exp parse e opts).headers = expectedHeaders exp e opts := by
  have h1 : (newTMConfig exp parse e opts).headers =
      ((envOpts parse e ++ opts.map Opt.user).foldl (applyOpt exp parse) (defaults exp)).headers := by
    unfold newTMConfig; simp only; split <;> rfl
  rw [h1, tm_fold exp parse e opts (·.headers) pHdr (apply_hdr exp parse)]
  have h2 : (fun o => pHdr (Opt.user o)) = optHeaders := by
    funext o; cases o <;> rfl
  rw [h2]
  unfold expectedHeaders resolve
  cases lastSome optHeaders opts with
  | some v => rfl
  | none =>
    simp only [envOpts, lastSome_append, provHeaders, envVal_tm exp hl, defaults, Option.getD, ls_hdr, hl]
    rw [ls_to_none _ _ (fun _ => rfl), ls_to_none _ _ (fun _ => rfl), ls_comp_none _ _ (fun _ => rfl),
      ls_comp_none _ _ (fun _ => rfl), ls_bool_none _ _ (fun _ => rfl), ls_bool_none _ _ (fun _ => rfl),
      ls_url_none _ _ _ _ (fun _ => rfl) (fun _ _ => rfl), ls_url_none _ _ _ _ (fun _ => rfl) (fun _ _ => rfl)]
    cases getEnvValue e.hdS with
    | some x => simp
    | none => cases getEnvValue e.hdG <;> simp

/-! endpoint -/
def pHost (exp : Exp) (parse : Parse) : Opt → Option Bytes
  | .user (.endpoint h) => some h
  | .user (.endpointURL raw) => (parse raw).map (·.host)
  | .envEndpoint _ u => some (if exp.isHttp then u.host else pathJoin u.host u.path)
  | _ => none

theorem apply_host (exp : Exp) (parse : Parse) (c : Cfg) (o : Opt) :
    (applyOpt exp parse c o).endpoint = (pHost exp parse o).getD c.endpoint := by
  cases o with
  | user u =>
    cases u <;> simp [applyOpt, applyUser, pHost]
    split <;> simp [*]
  | envScheme u => rfl
  | envEndpoint g u => simp only [applyOpt, pHost]; split <;> simp
  | envInsecure b => rfl

theorem ls_host (exp : Exp) (hl : exp.isLog = false) (parse : Parse) (g : Bool) (v : Env) :
    lastSome (pHost exp parse) (envUrlOpts parse g v) = ((getEnvValue v).bind parse).map (hostOf exp) := by
  unfold envUrlOpts
  cases getEnvValue v with
  | none => rfl
  | some s =>
    cases h : parse s with
    | none => simp [h, lastSome]
    | some u => simp [lastSome, pHost, h, hostOf, hl]

theorem tm_endpoint (exp : Exp) (hl : exp.isLog = false) (parse : Parse) (e : OtlpEnv) (opts : List UOpt) :
    (newTMConfig exp parse e opts).endpoint = expectedEndpoint exp parse e opts := by
  have h1 : (newTMConfig exp parse e opts).endpoint =
      ((envOpts parse e ++ opts.map Opt.user).foldl (applyOpt exp parse) (defaults exp)).endpoint := by
    unfold newTMConfig; simp only; split <;> rfl
  rw [h1, tm_fold exp parse e opts (·.endpoint) (pHost exp parse) (apply_host exp parse)]
  have h2 : (fun o => pHost exp parse (Opt.user o)) = optHost parse := by
    funext o; cases o <;> rfl
  rw [h2]
  unfold expectedEndpoint resolve
  cases lastSome (optHost parse) opts with
  | some v => rfl
  | none =>
    simp only [envOpts, lastSome_append, provUrl, envVal_tm exp hl, defaults, Option.getD, ls_host exp hl]
    rw [ls_to_none _ _ (fun _ => rfl), ls_to_none _ _ (fun _ => rfl), ls_comp_none _ _ (fun _ => rfl),
      ls_comp_none _ _ (fun _ => rfl), ls_hdr_none _ _ (fun _ => rfl), ls_hdr_none _ _ (fun _ => rfl),
      ls_bool_none _ _ (fun _ => rfl), ls_bool_none _ _ (fun _ => rfl)]
    cases ((getEnvValue e.epS).bind parse) with
    | some x => rfl
    | none => cases ((getEnvValue e.epG).bind parse) <;> rfl

/-! URL path (HTTP) -/
def pPath (exp : Exp) (parse : Parse) : Opt → Option Bytes
  | .user (.urlPath p) => some p
  | .user (.endpointURL raw) => (parse raw).map (·.path)
  | .envEndpoint g u =>
    if exp.isHttp then some (if g then pathJoin u.path exp.sigPath else verbatim u.path) else none
  | _ => none

theorem apply_path (exp : Exp) (parse : Parse) (c : Cfg) (o : Opt) :
    (applyOpt exp parse c o).path = (pPath exp parse o).getD c.path := by
  cases o with
  | user u =>
    cases u <;> simp [applyOpt, applyUser, pPath]
    split <;> simp [*]
  | envScheme u => rfl
  | envEndpoint g u => simp only [applyOpt, pPath, verbatim]; split <;> simp
  | envInsecure b => rfl

theorem ls_path (exp : Exp) (hh : exp.isHttp = true) (parse : Parse) (g : Bool) (v : Env) :
    lastSome (pPath exp parse) (envUrlOpts parse g v) =
      ((getEnvValue v).bind parse).map
        (fun u => if g then pathJoin u.path exp.sigPath else verbatim u.path) := by
  unfold envUrlOpts
  cases getEnvValue v with
  | none => rfl
  | some s =>
    cases h : parse s with
    | none => simp [h, lastSome]
    | some u => simp [lastSome, pPath, h, hh]

/-- the path the trace/metric HTTP config code hands to `cleanPath`, per deciding source -/
def tmRawPath (exp : Exp) : PathSrc → Bytes
  | .opt p => p
  | .specific p => verbatim p
  | .generic base => pathJoin base exp.sigPath
  | .dflt => exp.sigPath

theorem tm_path (exp : Exp) (hl : exp.isLog = false) (hh : exp.isHttp = true) (parse : Parse) (e : OtlpEnv)
    (opts : List UOpt) :
    (newTMConfig exp parse e opts).path =
      cleanPath (tmRawPath exp (pathSource exp parse e opts)) exp.sigPath := by
  have h1 : (newTMConfig exp parse e opts).path =
      cleanPath ((envOpts parse e ++ opts.map Opt.user).foldl (applyOpt exp parse) (defaults exp)).path
        exp.sigPath := by
    unfold newTMConfig; simp [hh]
  rw [h1, tm_fold exp parse e opts (·.path) (pPath exp parse) (apply_path exp parse)]
  have h2 : (fun o => pPath exp parse (Opt.user o)) = optPath parse := by
    funext o; cases o <;> rfl
  rw [h2]
  unfold pathSource
  cases lastSome (optPath parse) opts with
  | some v => rfl
  | none =>
    simp only [envOpts, lastSome_append, provUrl, envVal_tm exp hl, defaults, Option.getD, ls_path exp hh]
    rw [ls_to_none _ _ (fun _ => rfl), ls_to_none _ _ (fun _ => rfl), ls_comp_none _ _ (fun _ => rfl),
      ls_comp_none _ _ (fun _ => rfl), ls_hdr_none _ _ (fun _ => rfl), ls_hdr_none _ _ (fun _ => rfl),
      ls_bool_none _ _ (fun _ => rfl), ls_bool_none _ _ (fun _ => rfl)]
    cases ((getEnvValue e.epS).bind parse) with
    | some x => rfl
    | none => cases ((getEnvValue e.epG).bind parse) <;> rfl

/-! log exporters -/
theorem foldl_opt_field {σ ο α : Type} (apply : σ → ο → σ) (get : σ → Option α) (prov : ο → Option α)
    (h : ∀ c o, get (apply c o) = (prov o).or (get c)) :
    ∀ (os : List ο) (c : σ), get (os.foldl apply c) = (lastSome prov os).or (get c) := by
  intro os
  induction os with
  | nil => intro c; simp [lastSome]
  | cons o os ih =>
    intro c
    rw [List.foldl_cons, ih, h]
    cases h' : lastSome prov os <;> simp [lastSome, h']

def initL : LCfg :=
  { endpoint := none, path := none, insecure := none, headers := none, comp := none, timeout := none }

theorem firstConv2 {α : Type} (exp : Exp) (hl : exp.isLog = true) (conv : Bytes → Option α) (a b : Env) :
    firstConv conv [a, b] =
      match (envVal exp a).bind conv with
      | some x => some x
      | none => (envVal exp b).bind conv := by
  unfold firstConv firstConv firstConv envVal
  cases a with
  | none =>
    cases b with
    | none => simp
    | some t =>
      by_cases ht : t.isEmpty
      · simp [ht, hl]
      · cases h : conv t <;> simp [ht, hl, h]
  | some s =>
    by_cases hs : s.isEmpty
    · cases b with
      | none => simp [hs, hl]
      | some t =>
        by_cases ht : t.isEmpty
        · simp [hs, ht, hl]
        · cases h : conv t <;> simp [hs, ht, hl, h]
    · cases h : conv s with
      | some x => simp [hs, hl, h]
      | none =>
        cases b with
        | none => simp [hs, hl, h]
        | some t =>
          by_cases ht : t.isEmpty
          · simp [hs, ht, hl, h]
          · cases h' : conv t <;> simp [hs, ht, hl, h, h']

theorem firstConv1 {α : Type} (exp : Exp) (hl : exp.isLog = true) (conv : Bytes → Option α) (a : Env) :
    firstConv conv [a] = (envVal exp a).bind conv := by
  unfold firstConv firstConv envVal
  cases a with
  | none => simp
  | some s =>
    by_cases hs : s.isEmpty
    · simp [hs, hl]
    · cases h : conv s <;> simp [hs, hl, h]

theorem applyLog_timeout (exp : Exp) (parse : Parse) (c : LCfg) (o : UOpt) :
    (applyLogOpt exp parse c o).timeout = (optTimeout o).or c.timeout := by
  cases o <;> simp [applyLogOpt, optTimeout]
  split
  · rfl
  · split <;> rfl

theorem log_timeout (exp : Exp) (hl : exp.isLog = true) (parse : Parse) (e : OtlpEnv) (opts : List UOpt) :
    (newLogConfig exp parse e opts).timeout = expectedTimeout exp e opts := by
  simp only [newLogConfig]
  rw [foldl_opt_field (applyLogOpt exp parse) (·.timeout) optTimeout (applyLog_timeout exp parse)]
  unfold expectedTimeout resolve
  cases lastSome optTimeout opts with
  | some v => rfl
  | none =>
    have hc : convDuration = (fun s => (atoi s).map mulMs) := rfl
    simp only [getenvL, firstConv2 exp hl, provTimeout, hc, fallback, Option.or_none, initL]
    cases ((envVal exp e.toS).bind fun s => (atoi s).map mulMs) with
    | some x => rfl
    | none => cases ((envVal exp e.toG).bind fun s => (atoi s).map mulMs) <;> rfl

theorem applyLog_comp (exp : Exp) (hl : exp.isLog = true) (parse : Parse) (c : LCfg) (o : UOpt) :
    (applyLogOpt exp parse c o).comp = (optComp exp o).or c.comp := by
  cases o <;> simp [applyLogOpt, optComp, hl]
  split
  · rfl
  · split <;> rfl

theorem log_comp (exp : Exp) (hl : exp.isLog = true) (parse : Parse) (e : OtlpEnv) (opts : List UOpt) :
    (newLogConfig exp parse e opts).comp = expectedComp exp e opts := by
  simp only [newLogConfig]
  rw [foldl_opt_field (applyLogOpt exp parse) (·.comp) (optComp exp) (applyLog_comp exp hl parse)]
  unfold expectedComp resolve
  cases lastSome (optComp exp) opts with
  | some v => rfl
  | none =>
    simp only [getenvL, firstConv2 exp hl, provComp, hl, if_true, Option.or_none, Option.getD]
    cases ((envVal exp e.coS).bind convCompression) with
    | some x => rfl
    | none => cases ((envVal exp e.coG).bind convCompression) <;> rfl

theorem applyLog_hdr (exp : Exp) (parse : Parse) (c : LCfg) (o : UOpt) :
    (applyLogOpt exp parse c o).headers = (optHeaders o).or c.headers := by
  cases o <;> simp [applyLogOpt, optHeaders]
  split
  · rfl
  · split <;> rfl

theorem log_headers (exp : Exp) (hl : exp.isLog = true) (parse : Parse) (e : OtlpEnv) (opts : List UOpt) :
    (newLogConfig exp parse e opts).headers = expectedHeaders exp e opts := by
  simp only [newLogConfig]
  rw [foldl_opt_field (applyLogOpt exp parse) (·.headers) optHeaders (applyLog_hdr exp parse)]
  unfold expectedHeaders resolve
  cases lastSome optHeaders opts with
  | some v => rfl
  | none =>
    simp only [getenvL, firstConv2 exp hl, provHeaders, hl, if_true, Option.or_none, Option.getD]
    cases ((envVal exp e.hdS).bind convHeaders) with
    | some x => rfl
    | none => cases ((envVal exp e.hdG).bind convHeaders) <;> rfl

theorem applyLog_host (exp : Exp) (parse : Parse) (c : LCfg) (o : UOpt) :
    (applyLogOpt exp parse c o).endpoint =
      (optHost parse o).or c.endpoint := by
  cases o <;> simp [applyLogOpt, optHost]
  split
  · simp [*]
  · split <;> simp [*]

theorem log_endpoint (exp : Exp) (hl : exp.isLog = true) (parse : Parse) (e : OtlpEnv) (opts : List UOpt) :
    (newLogConfig exp parse e opts).endpoint = expectedEndpoint exp parse e opts := by
  simp only [newLogConfig]
  rw [foldl_opt_field (applyLogOpt exp parse) (·.endpoint) (optHost parse) (applyLog_host exp parse)]
  unfold expectedEndpoint resolve
  cases lastSome (optHost parse) opts with
  | some v => rfl
  | none =>
    have key : ∀ v : Env, ((envVal exp v).bind fun s => (parse s).map (·.host)) =
        ((envVal exp v).bind parse).map (·.host) := by
      intro v; cases envVal exp v <;> simp
    simp only [getenvL, firstConv2 exp hl, provUrl, fallback, Option.or_none]
    rw [key e.epS, key e.epG]
    cases h1 : (envVal exp e.epS).bind parse with
    | some x => simp [hostOf, hl]
    | none =>
      cases h2 : (envVal exp e.epG).bind parse with
      | some y => simp [hostOf, hl]
      | none => simp

theorem applyLog_path (exp : Exp) (hh : exp.isHttp = true) (parse : Parse) (c : LCfg) (o : UOpt) :
    (applyLogOpt exp parse c o).path = (optPath parse o).or c.path := by
  cases o <;> simp [applyLogOpt, optPath, hh]
  split <;> simp [*]

/-- the path of the HTTP log exporter per deciding source -/
def logPath : PathSrc → Bytes
  | .opt p => p
  | .specific p => verbatim p
  | .generic base => base ++ sLogs
  | .dflt => sLogs

theorem log_path (exp : Exp) (hl : exp.isLog = true) (hh : exp.isHttp = true) (parse : Parse) (e : OtlpEnv)
    (opts : List UOpt) :
    (newLogConfig exp parse e opts).path = logPath (pathSource exp parse e opts) := by
  simp only [newLogConfig]
  rw [foldl_opt_field (applyLogOpt exp parse) (·.path) (optPath parse) (applyLog_path exp hh parse)]
  unfold pathSource
  cases lastSome (optPath parse) opts with
  | some v => rfl
  | none =>
    have k1 : ∀ v : Env, ((envVal exp v).bind fun s => (parse s).map (fun u => if u.path.isEmpty then sSlash else u.path)) =
        ((envVal exp v).bind parse).map (fun u => verbatim u.path) := by
      intro v; cases envVal exp v <;> simp [verbatim]
    have k2 : ∀ v : Env, ((envVal exp v).bind fun s => (parse s).map (fun u => u.path ++ sLogs)) =
        ((envVal exp v).bind parse).map (fun u => u.path ++ sLogs) := by
      intro v; cases envVal exp v <;> simp
    simp only [getenvL, firstConv1 exp hl, provUrl, fallback, Option.or_none]
    rw [k1 e.epS, k2 e.epG]
    cases h1 : (envVal exp e.epS).bind parse with
    | some x => simp [logPath]
    | none =>
      cases h2 : (envVal exp e.epG).bind parse with
      | some y => simp [logPath]
      | none => simp [logPath]

theorem endsWith_append (a s : Bytes) : endsWith (a ++ s) s = true := by
  simp [endsWith]

theorem clean_traces : cleanPath sTraces sTraces = sTraces := by decide
theorem clean_metrics : cleanPath sMetrics sMetrics = sMetrics := by decide

end Otel.C20
