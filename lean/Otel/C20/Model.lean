/-
C20 — executable model of the configuration resolution code, as written (core Lean only).

Mirrors, branch by branch:
* sdk/internal/env/env.go            `IntEnvOr`, `firstInt`
* sdk/trace/batch_span_processor.go  `NewBatchSpanProcessor` (size reconciliation, after the F8 repair)
* sdk/trace/span_limits.go, provider.go `NewSpanLimits`, `WithSpanLimits`, `WithRawSpanLimits`
* sdk/log/setting.go, batch.go, provider.go  resolver chains (`clearLessThanOne`, `getenv`, `clampMax`, `fallback`)
* exporters/otlp/otlptrace/*/internal/{envconfig,otlpconfig}, otlpmetric/*/internal/{envconfig,oconf}:
  defaults struct, environment options generic-then-specific, user options, `cleanPath` (HTTP)
* exporters/otlp/otlplog/{otlploghttp,otlploggrpc}/config.go: `setting.Resolve(getenv[specific, generic], fallback)`

Go strings are byte strings (`Otel.Bytes`). `url.Parse` is a *parameter* (`Parse`): the model only uses the
(scheme, host, path) triple it returns. `strings.TrimSpace` is modelled for ASCII white space only.
-/
import Otel.Base.Wire
namespace Otel.C20
open Otel

/-- value of an environment variable: `none` = unset -/
abbrev Env := Option Bytes

/-! ## byte-string helpers -/

def isSpace (b : UInt8) : Bool := b == 0x20 || (0x09 ≤ b && b ≤ 0x0d)
def trimSpace (s : Bytes) : Bytes := ((s.dropWhile isSpace).reverse.dropWhile isSpace).reverse
def isDigit (b : UInt8) : Bool := 0x30 ≤ b && b ≤ 0x39
def isAlpha (b : UInt8) : Bool := (0x41 ≤ b && b ≤ 0x5a) || (0x61 ≤ b && b ≤ 0x7a)
def lowerByte (b : UInt8) : UInt8 := if 0x41 ≤ b && b ≤ 0x5a then b + 0x20 else b
def toLower (s : Bytes) : Bytes := s.map lowerByte

def sGzip : Bytes := [0x67, 0x7a, 0x69, 0x70]
def sNone : Bytes := [0x6e, 0x6f, 0x6e, 0x65]
def sTrue : Bytes := [0x74, 0x72, 0x75, 0x65]
def sFalse : Bytes := [0x66, 0x61, 0x6c, 0x73, 0x65]
def sHttp : Bytes := [0x68, 0x74, 0x74, 0x70]
def sHttps : Bytes := [0x68, 0x74, 0x74, 0x70, 0x73]
def sUnix : Bytes := [0x75, 0x6e, 0x69, 0x78]
def sSlash : Bytes := [0x2f]
def sDot : Bytes := [0x2e]
def sDotDot : Bytes := [0x2e, 0x2e]
/-- "/v1/traces" -/
def sTraces : Bytes := [0x2f, 0x76, 0x31, 0x2f, 0x74, 0x72, 0x61, 0x63, 0x65, 0x73]
/-- "/v1/metrics" -/
def sMetrics : Bytes := [0x2f, 0x76, 0x31, 0x2f, 0x6d, 0x65, 0x74, 0x72, 0x69, 0x63, 0x73]
/-- "/v1/logs" -/
def sLogs : Bytes := [0x2f, 0x76, 0x31, 0x2f, 0x6c, 0x6f, 0x67, 0x73]
/-- "localhost:4318" -/
def sHost4318 : Bytes := [0x6c, 0x6f, 0x63, 0x61, 0x6c, 0x68, 0x6f, 0x73, 0x74, 0x3a, 0x34, 0x33, 0x31, 0x38]
/-- "localhost:4317" -/
def sHost4317 : Bytes := [0x6c, 0x6f, 0x63, 0x61, 0x6c, 0x68, 0x6f, 0x73, 0x74, 0x3a, 0x34, 0x33, 0x31, 0x37]

/-- `strconv.Atoi` (64-bit int): optional sign, at least one digit, digits only, range checked. -/
def atoi (s : Bytes) : Option Int :=
  let neg := s.head? == some 0x2d
  let ds := if s.head? == some 0x2d || s.head? == some 0x2b then s.drop 1 else s
  if ds.isEmpty || !ds.all isDigit then none
  else
    let n : Nat := ds.foldl (fun (a : Nat) (d : UInt8) => a * 10 + (d.toNat - 48)) 0
    if neg then (if n ≤ 9223372036854775808 then some (-(n : Int)) else none)
    else (if n < 9223372036854775808 then some (n : Int) else none)

/-! ## sdk/internal/env -/

/-- `IntEnvOr(key, default)` -/
def intEnvOr (v : Env) (d : Int) : Int :=
  match v with
  | none => d
  | some s => if s.isEmpty then d else match atoi s with | some n => n | none => d

/-- `firstInt(default, keys…)`: the first non-empty variable decides; if it is not an integer the
default is returned and the remaining keys are NOT consulted. -/
def firstInt (d : Int) : List Env → Int
  | [] => d
  | v :: vs =>
    match v with
    | none => firstInt d vs
    | some s => if s.isEmpty then firstInt d vs else match atoi s with | some n => n | none => d

/-! ## sdk/trace NewBatchSpanProcessor -/

def dfltQueue : Int := 2048
def dfltBatch : Int := 512
def dfltDelayMs : Int := 5000
def dfltTimeoutMs : Int := 30000
def msNs : Int := 1000000

/-- two's-complement wrap-around of Go's int64 arithmetic: the signed value of `x mod 2^64` -/
def wrap64 (x : Int) : Int := (x + 9223372036854775808) % 18446744073709551616 - 9223372036854775808

/-- `time.Duration(n) * time.Millisecond` (nanoseconds, int64, silently wrapping on overflow) -/
def mulMs (n : Int) : Int := wrap64 (n * msNs)

/-- options (`none` = not passed; durations in ms as handed to `time.Duration(n)*time.Millisecond`) and
the four OTEL_BSP_* variables -/
structure BspIn where
  oq : Option Int
  ob : Option Int
  od : Option Int
  ot : Option Int
  eq : Env
  eb : Env
  ed : Env
  et : Env

/-- resolved `BatchSpanProcessorOptions` (sizes; durations in ns) -/
structure BspOut where
  q : Int
  b : Int
  d : Int
  t : Int
deriving DecidableEq, Repr

/-- sizes read from the environment and reconciled (before options) -/
def bspEnvSizes (eq eb : Env) : Int × Int :=
  let q0 := intEnvOr eq dfltQueue
  let q1 := if q0 < 0 then dfltQueue else q0
  let b0 := intEnvOr eb dfltBatch
  let b1 := if b0 < 0 then dfltBatch else b0
  let b2 := if b1 > q1 then (if dfltBatch > q1 then q1 else dfltBatch) else b1
  (q1, b2)

def newBSP (i : BspIn) : BspOut :=
  let (q1, b2) := bspEnvSizes i.eq i.eb
  let d := mulMs (intEnvOr i.ed dfltDelayMs)
  let t := mulMs (intEnvOr i.et dfltTimeoutMs)
  -- options overwrite blindly
  let q := i.oq.getD q1
  let b := i.ob.getD b2
  let d := match i.od with | some v => mulMs v | none => d
  let t := match i.ot with | some v => mulMs v | none => t
  -- F8 repair: negative sizes fall back to the defaults
  let q := if q < 0 then dfltQueue else q
  let b := if b < 0 then dfltBatch else b
  { q := q, b := b, d := d, t := t }

/-- modelled threshold above which `make(chan ReadOnlySpan, n)` / `make([]ReadOnlySpan, 0, n)` panic with
"size out of range" (element size 16 bytes; the real bound is platform dependent and lies between 2^20 and 2^62:
the harness never generates sizes in that gap, where `make` would really allocate). 2^59. -/
def makeLimit : Int := 576460752303423488

/-- one of the two `make` calls of the constructor panics -/
def bspMakePanics (o : BspOut) : Bool := decide (makeLimit ≤ o.q) || decide (makeLimit ≤ o.b)

/-- `NewBatchSpanProcessor` as a whole: `none` = panic in `make` (F31), else the resolved options
(`cap(queue) = q`, `cap(batch) = b`). -/
def bspConstruct (i : BspIn) : Option BspOut :=
  if bspMakePanics (newBSP i) then none else some (newBSP i)

/-! ## sdk/trace span limits -/

structure SlEnv where
  gvl : Env      -- OTEL_ATTRIBUTE_VALUE_LENGTH_LIMIT
  gcnt : Env     -- OTEL_ATTRIBUTE_COUNT_LIMIT
  svl : Env      -- OTEL_SPAN_ATTRIBUTE_VALUE_LENGTH_LIMIT
  scnt : Env     -- OTEL_SPAN_ATTRIBUTE_COUNT_LIMIT
  ev : Env       -- OTEL_SPAN_EVENT_COUNT_LIMIT
  evattr : Env   -- OTEL_EVENT_ATTRIBUTE_COUNT_LIMIT
  ln : Env       -- OTEL_SPAN_LINK_COUNT_LIMIT
  lnattr : Env   -- OTEL_LINK_ATTRIBUTE_COUNT_LIMIT

/-- defaults in field order: value length, attribute count, events, links, per-event, per-link -/
def slDefaults : List Int := [-1, 128, 128, 128, 128, 128]

/-- `NewSpanLimits()` in field order -/
def newSpanLimits (e : SlEnv) : List Int :=
  [ firstInt (-1) [e.svl, e.gvl], firstInt 128 [e.scnt, e.gcnt], intEnvOr e.ev 128, intEnvOr e.ln 128,
    intEnvOr e.evattr 128, intEnvOr e.lnattr 128 ]

inductive SlMode | none | lim | raw
deriving DecidableEq, Repr

/-- `WithSpanLimits`: every field `≤ 0` is replaced by the package default (not the environment) -/
def withSpanLimits (o : List Int) : List Int :=
  List.zipWith (fun v d => if v ≤ 0 then d else v) o slDefaults

/-- limits of `NewTracerProvider(opt?)` -/
def providerSpanLimits (m : SlMode) (o : List Int) (e : SlEnv) : List Int :=
  match m with
  | .none => newSpanLimits e
  | .lim => withSpanLimits o
  | .raw => o

/-! ## sdk/log setting resolvers (a `setting[T]` is `Option`: an unset setting always holds the zero value) -/

def clearLT1 (s : Option Int) : Option Int :=
  match s with
  | some v => if v < 1 then none else some v
  | none => none

/-- `getenv[T](key)`; `conv` = identity for ints, `mulMs` for `time.Duration` (milliseconds, wrapping) -/
def getenvInt (v : Env) (conv : Int → Int) (s : Option Int) : Option Int :=
  match s with
  | some x => some x
  | none =>
    match v with
    | none => none
    | some str => if str.isEmpty then none else match atoi str with | some n => some (conv n) | none => none

def clampMax (n : Int) (s : Option Int) : Option Int := s.map (fun v => if v > n then n else v)
def fallback {α : Type} (d : α) (s : Option α) : α := match s with | some v => v | none => d

structure BlrpIn where
  oq : Option Int
  oi : Option Int   -- ns
  ot : Option Int   -- ns
  ob : Option Int
  obuf : Option Int
  eq : Env
  ei : Env
  et : Env
  eb : Env

structure BlrpOut where
  q : Int
  i : Int
  t : Int
  b : Int
  buf : Int
deriving DecidableEq, Repr

def newBatchConfig (x : BlrpIn) : BlrpOut :=
  let q := fallback 2048 (clearLT1 (getenvInt x.eq id (clearLT1 x.oq)))
  let i := fallback 1000000000 (clearLT1 (getenvInt x.ei mulMs (clearLT1 x.oi)))
  let t := fallback 30000000000 (clearLT1 (getenvInt x.et mulMs (clearLT1 x.ot)))
  let b := fallback 512 (clampMax q (clearLT1 (getenvInt x.eb id (clearLT1 x.ob))))
  let buf := fallback 1 (clearLT1 x.obuf)
  { q := q, i := i, t := t, b := b, buf := buf }

/-- sdk/log `newProviderConfig`: (attribute count limit, attribute value length limit) -/
def logLimits (ocnt olen : Option Int) (ecnt elen : Env) : Int × Int :=
  (fallback 128 (getenvInt ecnt id ocnt), fallback (-1) (getenvInt elen id olen))

/-! ## path.Clean / path.Join / cleanPath -/

def splitOn (sep : UInt8) : Bytes → List Bytes
  | [] => [[]]
  | b :: r =>
    if b == sep then [] :: splitOn sep r
    else match splitOn sep r with
      | [] => [[b]]
      | h :: t => (b :: h) :: t

def joinSlash : List Bytes → Bytes
  | [] => []
  | [a] => a
  | a :: r => a ++ (0x2f :: joinSlash r)

/-- one segment of `path.Clean`; `st` is the output stack, last segment first -/
def cleanStep (rooted : Bool) (st : List Bytes) (seg : Bytes) : List Bytes :=
  if seg == [] || seg == sDot then st
  else if seg == sDotDot then
    match st with
    | top :: rest => if top == sDotDot then seg :: st else rest
    | [] => if rooted then [] else [sDotDot]
  else seg :: st

/-- `path.Clean` -/
def pathClean (p : Bytes) : Bytes :=
  if p.isEmpty then sDot
  else
    let rooted := p.head? == some 0x2f
    let st := (splitOn 0x2f p).foldl (cleanStep rooted) []
    let body := joinSlash st.reverse
    let r := if rooted then 0x2f :: body else body
    if r.isEmpty then sDot else r

/-- `path.Join(a, b)` -/
def pathJoin (a b : Bytes) : Bytes :=
  if a.isEmpty then (if b.isEmpty then [] else pathClean b)
  else pathClean (a ++ (0x2f :: b))

/-- `cleanPath(urlPath, defaultPath)` of otlpconfig/oconf -/
def cleanPath (p dflt : Bytes) : Bytes :=
  let t := pathClean (trimSpace p)
  if t == sDot then dflt
  else if t.head? != some 0x2f then 0x2f :: t
  else t

/-! ## header lists -/

/-- a header map in canonical form: sorted by key, unique keys -/
abbrev Hdrs := List (Bytes × Bytes)

def bytesLt : Bytes → Bytes → Bool
  | [], [] => false
  | [], _ :: _ => true
  | _ :: _, [] => false
  | a :: as, b :: bs => if a < b then true else if b < a then false else bytesLt as bs

/-- `m[k] = v` -/
def hInsert (k v : Bytes) : Hdrs → Hdrs
  | [] => [(k, v)]
  | (k', v') :: r =>
    if k == k' then (k, v) :: r
    else if bytesLt k k' then (k, v) :: (k', v') :: r
    else (k', v') :: hInsert k v r

/-- `strings.Cut(s, sep)` -/
def cut (sep : UInt8) : Bytes → Option (Bytes × Bytes)
  | [] => none
  | b :: r => if b == sep then some ([], r) else (cut sep r).map (fun p => (b :: p.1, p.2))

def isTokenChar (b : UInt8) : Bool :=
  b < 0x80 && (isAlpha b || isDigit b ||
    [0x21, 0x23, 0x24, 0x25, 0x26, 0x27, 0x2a, 0x2b, 0x2d, 0x2e, 0x5e, 0x5f, 0x60, 0x7c, 0x7e].contains b)

def validKey (k : Bytes) : Bool := !k.isEmpty && k.all isTokenChar

def hexv (b : UInt8) : Option Nat :=
  if 0x30 ≤ b && b ≤ 0x39 then some (b.toNat - 48)
  else if 0x61 ≤ b && b ≤ 0x66 then some (b.toNat - 87)
  else if 0x41 ≤ b && b ≤ 0x46 then some (b.toNat - 55)
  else none

structure UnescSt where
  out : Bytes
  mode : Nat
  hi : Nat
  bad : Bool

def unescStep (s : UnescSt) (b : UInt8) : UnescSt :=
  if s.bad then s
  else if s.mode == 0 then
    (if b == 0x25 then { s with mode := 1 } else { s with out := b :: s.out })
  else if s.mode == 1 then
    (match hexv b with
     | some v => { s with mode := 2, hi := v }
     | none => { s with bad := true })
  else
    (match hexv b with
     | some v => { s with mode := 0, out := UInt8.ofNat (s.hi * 16 + v) :: s.out }
     | none => { s with bad := true })

/-- `url.PathUnescape`: `%XX` decoding; a `%` not followed by two hex digits is an error -/
def pathUnescape (s : Bytes) : Option Bytes :=
  let r := s.foldl unescStep { out := [], mode := 0, hi := 0, bad := false }
  if r.bad || r.mode != 0 then none else some r.out.reverse

/-- one `k=v` element of a headers variable: `none` = invalid pair -/
def parseHeaderPair (h : Bytes) : Option (Bytes × Bytes) :=
  match cut 0x3d h with
  | none => none
  | some (n, v) =>
    let name := trimSpace n
    if !validKey name then none
    else match pathUnescape v with
      | none => none
      | some val => some (name, trimSpace val)

/-- `envconfig.stringToHeader` (trace/metric exporters): invalid pairs are skipped individually -/
def stringToHeader (s : Bytes) : Hdrs :=
  (splitOn 0x2c s).foldl (fun m h => match parseHeaderPair h with
    | some (k, v) => hInsert k v m
    | none => m) []

/-- `convHeaders` (log exporters): any invalid pair makes the whole variable invalid -/
def convHeaders (s : Bytes) : Option Hdrs :=
  if ((splitOn 0x2c s).map parseHeaderPair).all Option.isSome then some (stringToHeader s) else none

/-- `convCompression` (log exporters): `some true` = gzip -/
def convCompression (s : Bytes) : Option Bool :=
  if s == sGzip then some true
  else if s == sNone || s.isEmpty then some false
  else none

/-! ## the six OTLP exporters -/

inductive Exp | th | tg | mh | mg | lh | lg
deriving DecidableEq, Repr

def Exp.isLog : Exp → Bool
  | .lh | .lg => true
  | _ => false

def Exp.isHttp : Exp → Bool
  | .th | .mh | .lh => true
  | _ => false

def Exp.sigPath : Exp → Bytes
  | .th | .tg => sTraces
  | .mh | .mg => sMetrics
  | .lh | .lg => sLogs

def Exp.dfltEndpoint (e : Exp) : Bytes := if e.isHttp then sHost4318 else sHost4317

/-- what the code uses of a parsed `*url.URL` -/
structure Url where
  scheme : Bytes
  host : Bytes
  path : Bytes
deriving DecidableEq, Repr

/-- `url.Parse` as a parameter: `none` = error -/
abbrev Parse := Bytes → Option Url

/-- the OTEL_EXPORTER_OTLP_[<SIGNAL>_]{ENDPOINT,INSECURE,HEADERS,COMPRESSION,TIMEOUT} variables:
`S` = signal specific, `G` = generic -/
structure OtlpEnv where
  epS : Env
  epG : Env
  insS : Env
  insG : Env
  hdS : Env
  hdG : Env
  coS : Env
  coG : Env
  toS : Env
  toG : Env

/-- user options -/
inductive UOpt
  | endpoint (h : Bytes)
  | endpointURL (raw : Bytes)
  | urlPath (p : Bytes)
  | insecure
  | secure
  | headers (m : Hdrs)
  | compression (gz : Bool)
  | compressor (w : Bytes)   -- otlploggrpc only
  | timeout (ns : Int)
deriving Repr

/-- options as applied by the trace/metric config code: user options plus the ones the environment reader builds -/
inductive Opt
  | user (o : UOpt)
  | envScheme (u : Url)
  | envEndpoint (generic : Bool) (u : Url)
  | envInsecure (b : Bool)

/-- resolved configuration (the fields the property speaks about, plus `insecure`) -/
structure Cfg where
  endpoint : Bytes
  path : Bytes
  insecure : Bool
  headers : Hdrs
  comp : Bool
  timeout : Int
deriving DecidableEq, Repr

/-- `EnvOptionsReader.GetEnvValue`: trimmed, empty = absent -/
def getEnvValue (v : Env) : Option Bytes :=
  match v with
  | none => none
  | some s => let t := trimSpace s; if t.isEmpty then none else some t

def applyUser (parse : Parse) (c : Cfg) : UOpt → Cfg
  | .endpoint h => { c with endpoint := h }
  | .endpointURL raw =>
    match parse raw with
    | none => c
    | some u => { c with endpoint := u.host, path := u.path, insecure := u.scheme != sHttps }
  | .urlPath p => { c with path := p }
  | .insecure => { c with insecure := true }
  | .secure => { c with insecure := false }
  | .headers m => { c with headers := m }
  | .compression gz => { c with comp := gz }
  | .compressor _ => c
  | .timeout ns => { c with timeout := ns }

def applyOpt (exp : Exp) (parse : Parse) (c : Cfg) : Opt → Cfg
  | .user o => applyUser parse c o
  | .envScheme u => { c with insecure := (toLower u.scheme == sHttp || toLower u.scheme == sUnix) }
  | .envEndpoint generic u =>
    if exp.isHttp then
      { c with endpoint := u.host,
               path := if generic then pathJoin u.path exp.sigPath
                       else (if u.path.isEmpty then sSlash else u.path) }
    else { c with endpoint := pathJoin u.host u.path }
  | .envInsecure b => { c with insecure := b }

def envUrlOpts (parse : Parse) (generic : Bool) (v : Env) : List Opt :=
  match getEnvValue v with
  | none => []
  | some s => match parse s with
    | none => []
    | some u => [.envScheme u, .envEndpoint generic u]

def envBoolOpts (v : Env) : List Opt :=
  match getEnvValue v with
  | none => []
  | some s => [.envInsecure (toLower s == sTrue)]

def envHdrOpts (v : Env) : List Opt :=
  match getEnvValue v with
  | none => []
  | some s => [.user (.headers (stringToHeader s))]

def envCompOpts (v : Env) : List Opt :=
  match getEnvValue v with
  | none => []
  | some s => [.user (.compression (s == sGzip))]

def envToOpts (v : Env) : List Opt :=
  match getEnvValue v with
  | none => []
  | some s => match atoi s with
    | none => []
    | some n => [.user (.timeout (mulMs n))]

/-- `getOptionsFromEnv()`: generic before specific for every setting -/
def envOpts (parse : Parse) (e : OtlpEnv) : List Opt :=
  envUrlOpts parse true e.epG ++ envUrlOpts parse false e.epS ++
  envBoolOpts e.insG ++ envBoolOpts e.insS ++
  envHdrOpts e.hdG ++ envHdrOpts e.hdS ++
  envCompOpts e.coG ++ envCompOpts e.coS ++
  envToOpts e.toG ++ envToOpts e.toS

def dfltTimeoutNs : Int := 10000000000

def defaults (exp : Exp) : Cfg :=
  { endpoint := exp.dfltEndpoint, path := exp.sigPath, insecure := false, headers := [], comp := false,
    timeout := dfltTimeoutNs }

/-- `NewHTTPConfig` / `NewGRPCConfig` of otlpconfig and oconf -/
def newTMConfig (exp : Exp) (parse : Parse) (e : OtlpEnv) (opts : List UOpt) : Cfg :=
  let c := (envOpts parse e ++ opts.map Opt.user).foldl (applyOpt exp parse) (defaults exp)
  if exp.isHttp then { c with path := cleanPath c.path exp.sigPath } else c

/-! ### log exporters -/

structure LCfg where
  endpoint : Option Bytes
  path : Option Bytes
  insecure : Option Bool
  headers : Option Hdrs
  comp : Option Bool
  timeout : Option Int

/-- `insecureFromScheme` (otlploggrpc) -/
def insecureFromScheme (prev : Option Bool) (scheme : Bytes) : Option Bool :=
  if scheme == sHttps then some false
  else if !scheme.isEmpty then some true
  else prev

def applyLogOpt (exp : Exp) (parse : Parse) (c : LCfg) : UOpt → LCfg
  | .endpoint h => { c with endpoint := some h }
  | .endpointURL raw =>
    match parse raw with
    | none => c
    | some u =>
      if exp.isHttp then
        { c with endpoint := some u.host, path := some u.path, insecure := some (u.scheme != sHttps) }
      else { c with endpoint := some u.host, insecure := insecureFromScheme c.insecure u.scheme }
  | .urlPath p => { c with path := some p }
  | .insecure => { c with insecure := some true }
  | .secure => c
  | .headers m => { c with headers := some m }
  | .compression gz => { c with comp := some gz }
  | .compressor w => { c with comp := some ((convCompression w).getD false) }
  | .timeout ns => { c with timeout := some ns }

/-- the key loop of `getenv(keys, conv)`: first key that is non-empty AND converts -/
def firstConv {α : Type} (conv : Bytes → Option α) : List Env → Option α
  | [] => none
  | v :: vs =>
    match v with
    | none => firstConv conv vs
    | some s =>
      if s.isEmpty then firstConv conv vs
      else match conv s with
        | some x => some x
        | none => firstConv conv vs

/-- `getenv(keys, conv)` resolver -/
def getenvL {α : Type} (keys : List Env) (conv : Bytes → Option α) (s : Option α) : Option α :=
  match s with
  | some v => some v
  | none => firstConv conv keys

/-- `loadInsecureFromEnvEndpoint` (otlploggrpc): first parseable endpoint variable decides and returns -/
def loadInsecureFromEnvEndpoint (parse : Parse) : List Env → Option Bool
  | [] => none
  | v :: vs =>
    match v with
    | none => loadInsecureFromEnvEndpoint parse vs
    | some s =>
      if s.isEmpty then loadInsecureFromEnvEndpoint parse vs
      else match parse s with
        | none => loadInsecureFromEnvEndpoint parse vs
        | some u => insecureFromScheme none u.scheme

def convInsecureWord (s : Bytes) : Option Bool :=
  let l := toLower s
  if l == sTrue then some true else if l == sFalse then some false else none

def convDuration (s : Bytes) : Option Int := (atoi s).map mulMs

/-- `newConfig` of otlploghttp / otlploggrpc -/
def newLogConfig (exp : Exp) (parse : Parse) (e : OtlpEnv) (opts : List UOpt) : Cfg :=
  let c := opts.foldl (applyLogOpt exp parse)
    { endpoint := none, path := none, insecure := none, headers := none, comp := none, timeout := none }
  let endpoint := fallback exp.dfltEndpoint (getenvL [e.epS, e.epG] (fun s => (parse s).map (·.host)) c.endpoint)
  let path := fallback sLogs
    (getenvL [e.epG] (fun s => (parse s).map (fun u => u.path ++ sLogs))
      (getenvL [e.epS] (fun s => (parse s).map (fun u => if u.path.isEmpty then sSlash else u.path)) c.path))
  let insecure :=
    if exp.isHttp then getenvL [e.epS, e.epG] (fun s => (parse s).map (fun u => u.scheme != sHttps)) c.insecure
    else getenvL [e.insS, e.insG] convInsecureWord
      (match c.insecure with
       | some b => some b
       | none => loadInsecureFromEnvEndpoint parse [e.epS, e.epG])
  let headers := getenvL [e.hdS, e.hdG] convHeaders c.headers
  let comp := getenvL [e.coS, e.coG] convCompression c.comp
  let timeout := fallback dfltTimeoutNs (getenvL [e.toS, e.toG] convDuration c.timeout)
  { endpoint := endpoint, path := path, insecure := insecure.getD false, headers := headers.getD [],
    comp := comp.getD false, timeout := timeout }

/-- the resolved configuration of exporter `exp` -/
def newConfig (exp : Exp) (parse : Parse) (e : OtlpEnv) (opts : List UOpt) : Cfg :=
  if exp.isLog then newLogConfig exp parse e opts else newTMConfig exp parse e opts

/-- one exporter construction: its kind, the environment at ITS construction time, its options -/
structure Construction where
  exp : Exp
  env : OtlpEnv
  opts : List UOpt

/-- a process that constructs several exporters one after the other: in the model every construction is a pure function
of its own sources (the code has no modelled shared state; package-level state — e.g. a shared dial-option slice — is
outside the model and is what the two-exporter end-to-end scenarios observe) -/
def constructAll (parse : Parse) (cs : List Construction) : List Cfg :=
  cs.map (fun c => newConfig c.exp parse c.env c.opts)

/-! ### from the resolved configuration to the client that runs with it

`NewClient` (otlptracehttp), `newClient` (otlpmetrichttp), `newHTTPClient` (otlploghttp) build
`http.Client{Transport: ourTransport, Timeout: cfg.Timeout}` and replace the transport by a customised clone of
`ourTransport` when a TLS configuration (option or certificate variables) or a proxy function is set (otlploghttp:
always — its default proxy setting is non-nil); the three gRPC `newClient`s copy `cfg.Timeout` into `exportTimeout`
whatever the dial options / supplied connection. -/

/-- the construction path: what else is configured besides the five settings of the statement -/
structure Build where
  /-- a TLS configuration is set (WithTLSClientConfig / WithTLSCredentials / certificate variables) -/
  tls : Bool
  /-- WithProxy (HTTP) -/
  proxy : Bool
  /-- WithGRPCConn (gRPC) -/
  suppliedConn : Bool
deriving DecidableEq, Repr

structure ClientM where
  /-- HTTP: the package-level transport itself (not a clone); gRPC: the exporter dials its own connection -/
  own : Bool
  /-- the timeout the client really runs with: `http.Client.Timeout` (per request) / `exportTimeout` (per export) -/
  timeout : Int
deriving DecidableEq, Repr

/-- the constructors of the six client packages, branch by branch -/
def newClientM (exp : Exp) (b : Build) (c : Cfg) : ClientM :=
  if exp.isHttp then
    let hc : ClientM := { own := true, timeout := c.timeout }
    if b.tls || b.proxy || exp.isLog then { hc with own := false }   -- httpClient.Transport = ourTransport.Clone()
    else hc
  else { own := !b.suppliedConn, timeout := c.timeout }

/-- the timeout exporter `exp` really applies, given all its sources and its construction path -/
def effectiveTimeout (exp : Exp) (parse : Parse) (e : OtlpEnv) (opts : List UOpt) (b : Build) : Int :=
  (newClientM exp b (newConfig exp parse e opts)).timeout

end Otel.C20
