/-
C20 — specification: "option over signal-specific variable over generic variable over default", "option over
environment over default, bad values ignored", restated independently of the order in which the code applies
its sources. Every predicate is executable: the driver evaluates it on the implementation's observed result.

What a *source provides* is defined with the documented value syntaxes (integers as accepted by `strconv.Atoi`,
the compression words, `k=v,k=v` header lists, URLs through the `Parse` parameter); *which source wins* is
defined here by `resolve`/`precOK` and never by folding options over a struct.
-/
import Otel.C20.Model
namespace Otel.C20.Spec
open Otel Otel.C20

/-! ## generic precedence -/

/-- first available of option, signal-specific variable, generic variable, default -/
def resolve {α : Type} (opt spec gen : Option α) (d : α) : α :=
  match opt with
  | some v => v
  | none => match spec with
    | some v => v
    | none => match gen with
      | some v => v
      | none => d

/-- what a textual integer variable provides -/
inductive Src
  | absent
  | invalid
  | val (v : Int)
deriving DecidableEq, Repr

/-- unset or empty = absent; otherwise an integer or invalid -/
def envInt (v : Env) : Src :=
  match v with
  | none => .absent
  | some s => if s.isEmpty then .absent else match atoi s with | some n => .val n | none => .invalid

/-- several keys for one setting: the first key that is present decides -/
def firstPresent : List Src → Src
  | [] => .absent
  | .absent :: r => firstPresent r
  | s :: _ => s

def Src.good (valid : Int → Bool) : Src → Option Int
  | .val v => if valid v then some v else none
  | _ => none

/-- unit conversion of what the variable provides (`mulMs` for durations: Go's `time.Duration(n)*time.Millisecond`,
which wraps around for |n| > 9223372036854 — the wrapped value is then judged like any other value) -/
def Src.map (f : Int → Int) : Src → Src
  | .val v => .val (f v)
  | s => s

/-- SDK rule. A valid option wins; without an option a valid environment value wins; when neither provides
a valid value the default is used; an invalid (out-of-range) option is ignored in favour of the default or of
the valid environment value. -/
def precOK (optValid envValid : Int → Bool) (opt : Option Int) (env : Src) (d r : Int) : Bool :=
  match opt with
  | some v => if optValid v then r == v else (r == d || some r == env.good envValid)
  | none => match env.good envValid with
    | some v => r == v
    | none => r == d

def nonneg (v : Int) : Bool := 0 ≤ v
def positive (v : Int) : Bool := 1 ≤ v
def anyInt (_ : Int) : Bool := true

/-! ## sdk/trace batch span processor -/

def bspOK (i : BspIn) (o : BspOut) : Bool :=
  precOK nonneg nonneg i.oq (envInt i.eq) 2048 o.q
  && (match i.ob with
      | some _ => precOK nonneg nonneg i.ob (envInt i.eb) 512 o.b
      | none =>
        -- OTEL_BSP_MAX_EXPORT_BATCH_SIZE "must be less than or equal to" the queue size of the environment
        let qe := ((envInt i.eq).good nonneg).getD 2048
        let be := ((envInt i.eb).good nonneg).getD 512
        o.b == (if be ≤ qe then be else min 512 qe))
  && precOK anyInt anyInt (i.od.map mulMs) ((envInt i.ed).map mulMs) (5000 * msNs) o.d
  && precOK anyInt anyInt (i.ot.map mulMs) ((envInt i.et).map mulMs) (30000 * msNs) o.t

/-- the resolved sizes are not negative (the F8 clause) -/
def bspNonneg (o : BspOut) : Bool := 0 ≤ o.q && 0 ≤ o.b

/-- the resolved sizes are valid arguments of `make(chan T, q)` / `make([]T, 0, b)`: not negative and not out of range -/
def bspSafe (o : BspOut) : Bool := bspNonneg o && !bspMakePanics o

/-- "never causing a panic": the constructor returns -/
def noCrash (r : Option BspOut) : Bool := r.isSome

/-- F31: a parsable but huge queue or batch size (option or OTEL_BSP_*) survives the resolution and reaches `make` -/
def F31_applies (i : BspIn) : Bool := bspMakePanics (newBSP i)

/-! ## sdk/trace span limits -/

/-- the environment sources per field (specific first) -/
def slEnvSrc (e : SlEnv) : List Src :=
  [ firstPresent [envInt e.svl, envInt e.gvl], firstPresent [envInt e.scnt, envInt e.gcnt], envInt e.ev,
    envInt e.ln, envInt e.evattr, envInt e.lnattr ]

def slFieldOK (m : SlMode) (o : Int) (env : Src) (d r : Int) : Bool :=
  match m with
  | .none => precOK anyInt anyInt none env d r
  | .lim => r == (if o ≤ 0 then d else o)     -- documented: zero or negative is replaced by the default
  | .raw => r == o                            -- documented: used as-is

def all3 (f : Int → Src → Int → Int → Bool) : List Int → List Src → List Int → List Int → Bool
  | o :: os, s :: ss, d :: ds, r :: rs => f o s d r && all3 f os ss ds rs
  | [], [], [], [] => true
  | _, _, _, _ => false

def slimOK (m : SlMode) (o : List Int) (e : SlEnv) (r : List Int) : Bool :=
  all3 (slFieldOK m) o (slEnvSrc e) slDefaults r

/-! ## sdk/log batch processor and limits -/

/-- the batch size that was given: a valid option, else a valid OTEL_BLRP_MAX_EXPORT_BATCH_SIZE -/
def batchGiven (ob : Option Int) (eb : Env) : Option Int :=
  match clearLT1 ob with
  | some v => some v
  | none => (envInt eb).good positive

def blrpOK (x : BlrpIn) (o : BlrpOut) : Bool :=
  precOK positive positive x.oq (envInt x.eq) 2048 o.q
  && precOK positive positive x.oi ((envInt x.ei).map mulMs) 1000000000 o.i
  && precOK positive positive x.ot ((envInt x.et).map mulMs) 30000000000 o.t
  && precOK positive positive x.obuf .absent 1 o.buf
  -- a batch size that was given is clamped to the queue size; one that was not given is the default
  && (match batchGiven x.ob x.eb with
      | some v => o.b == min v o.q
      | none => o.b == 512)

/-- every resolved value is at least one -/
def blrpSafe (o : BlrpOut) : Bool := 1 ≤ o.q && 1 ≤ o.i && 1 ≤ o.t && 1 ≤ o.b && 1 ≤ o.buf

def llimOK (ocnt olen : Option Int) (ecnt elen : Env) (r : Int × Int) : Bool :=
  precOK anyInt anyInt ocnt (envInt ecnt) 128 r.1 && precOK anyInt anyInt olen (envInt elen) (-1) r.2

/-! ## OTLP exporters -/

/-- the text an environment variable provides: the trace/metric exporters trim white space, the log
exporters take the value as it is; empty = absent -/
def envVal (exp : Exp) (v : Env) : Option Bytes :=
  match v with
  | none => none
  | some s =>
    let t := if exp.isLog then s else trimSpace s
    if t.isEmpty then none else some t

def provTimeout (exp : Exp) (v : Env) : Option Int :=
  (envVal exp v).bind (fun s => (atoi s).map mulMs)

/-- log exporters: `gzip` | `none`, anything else is invalid; trace/metric exporters: `gzip`, any other word = no compression -/
def provComp (exp : Exp) (v : Env) : Option Bool :=
  (envVal exp v).bind (fun s => if exp.isLog then convCompression s else some (s == sGzip))

/-- log exporters: one invalid pair invalidates the variable; trace/metric exporters: invalid pairs are dropped -/
def provHeaders (exp : Exp) (v : Env) : Option Hdrs :=
  (envVal exp v).bind (fun s => if exp.isLog then convHeaders s else some (stringToHeader s))

def provUrl (exp : Exp) (parse : Parse) (v : Env) : Option Url := (envVal exp v).bind parse

/-- the last option that provides the setting ("the last used option will take precedence") -/
def lastSome {ο α : Type} (f : ο → Option α) : List ο → Option α
  | [] => none
  | o :: os => match lastSome f os with
    | some v => some v
    | none => f o

def optTimeout : UOpt → Option Int
  | .timeout n => some n
  | _ => none

def optComp (exp : Exp) : UOpt → Option Bool
  | .compression gz => some gz
  | .compressor w => if exp.isLog then some ((convCompression w).getD false) else none
  | _ => none

def optHeaders : UOpt → Option Hdrs
  | .headers m => some m
  | _ => none

def optHost (parse : Parse) : UOpt → Option Bytes
  | .endpoint h => some h
  | .endpointURL raw => (parse raw).map (·.host)
  | _ => none

def optPath (parse : Parse) : UOpt → Option Bytes
  | .urlPath p => some p
  | .endpointURL raw => (parse raw).map (·.path)
  | _ => none

def expectedTimeout (exp : Exp) (e : OtlpEnv) (opts : List UOpt) : Int :=
  resolve (lastSome optTimeout opts) (provTimeout exp e.toS) (provTimeout exp e.toG) dfltTimeoutNs

def expectedComp (exp : Exp) (e : OtlpEnv) (opts : List UOpt) : Bool :=
  resolve (lastSome (optComp exp) opts) (provComp exp e.coS) (provComp exp e.coG) false

def expectedHeaders (exp : Exp) (e : OtlpEnv) (opts : List UOpt) : Hdrs :=
  resolve (lastSome optHeaders opts) (provHeaders exp e.hdS) (provHeaders exp e.hdG) []

/-- the endpoint an environment URL provides: host[:port]; the gRPC trace/metric exporters use host/path as the dial target -/
def hostOf (exp : Exp) (u : Url) : Bytes :=
  if exp.isHttp || exp.isLog then u.host else pathJoin u.host u.path

def expectedEndpoint (exp : Exp) (parse : Parse) (e : OtlpEnv) (opts : List UOpt) : Bytes :=
  resolve (lastSome (optHost parse) opts) ((provUrl exp parse e.epS).map (hostOf exp))
    ((provUrl exp parse e.epG).map (hostOf exp)) exp.dfltEndpoint

/-- which source decides the URL path of an HTTP exporter, and the path it carries -/
inductive PathSrc
  | opt (p : Bytes)
  | specific (p : Bytes)
  | generic (base : Bytes)
  | dflt
deriving DecidableEq, Repr

def pathSource (exp : Exp) (parse : Parse) (e : OtlpEnv) (opts : List UOpt) : PathSrc :=
  match lastSome (optPath parse) opts with
  | some p => .opt p
  | none => match provUrl exp parse e.epS with
    | some u => .specific u.path
    | none => match provUrl exp parse e.epG with
      | some u => .generic u.path
      | none => .dflt

def endsWith (s suf : Bytes) : Bool := s.drop (s.length - suf.length) == suf

/-- the path as a rooted, normalised path (dot segments and repeated slashes removed) -/
def rootedClean (p : Bytes) : Bytes := pathClean (0x2f :: p)

/-- a signal-specific endpoint path is used verbatim ("/" when the URL has no path) -/
def verbatim (p : Bytes) : Bytes := if p.isEmpty then sSlash else p

def pathOK (exp : Exp) (src : PathSrc) (actual : Bytes) : Bool :=
  match src with
  | .opt p => actual == (if exp.isLog then p else cleanPath p exp.sigPath)
  | .specific p => actual == verbatim p
  | .generic base => endsWith actual exp.sigPath && rootedClean actual == rootedClean (base ++ exp.sigPath)
  | .dflt => actual == exp.sigPath

/-- F20: the signal-specific endpoint decides the path of a trace/metric HTTP exporter and its path is not
already in `cleanPath` normal form (trailing slash, `//`, dot segments, surrounding spaces). -/
def F20_applies (exp : Exp) (parse : Parse) (e : OtlpEnv) (opts : List UOpt) : Bool :=
  exp.isHttp && !exp.isLog &&
  match pathSource exp parse e opts with
  | .specific p => cleanPath (verbatim p) exp.sigPath != verbatim p
  | _ => false

/-- the whole precedence oracle for one resolved exporter configuration (`insecure` is not part of the statement) -/
def otlpOK (exp : Exp) (parse : Parse) (e : OtlpEnv) (opts : List UOpt) (c : Cfg) : Bool :=
  c.timeout == expectedTimeout exp e opts
  && c.comp == expectedComp exp e opts
  && c.headers == expectedHeaders exp e opts
  && c.endpoint == expectedEndpoint exp parse e opts
  && (!exp.isHttp || pathOK exp (pathSource exp parse e opts) c.path)

/-- everything but the path clause (used to classify F20 cases) -/
def otlpOKNoPath (exp : Exp) (parse : Parse) (e : OtlpEnv) (opts : List UOpt) (c : Cfg) : Bool :=
  c.timeout == expectedTimeout exp e opts
  && c.comp == expectedComp exp e opts
  && c.headers == expectedHeaders exp e opts
  && c.endpoint == expectedEndpoint exp parse e opts

/-! ### transport security of the trace/metric exporters: a decision table

`WithInsecure` / `WithTLSClientConfig`-style "secure" options / the scheme of `WithEndpointURL` (last one given wins)
over `OTEL_EXPORTER_OTLP_<SIGNAL>_INSECURE` over `OTEL_EXPORTER_OTLP_INSECURE` over the scheme of the signal-specific
endpoint variable over the scheme of the generic endpoint variable over "secure". -/

def optInsecure (parse : Parse) : UOpt → Option Bool
  | .insecure => some true
  | .secure => some false
  | .endpointURL raw => (parse raw).map (fun u => u.scheme != sHttps)
  | _ => none

/-- an `…_INSECURE` variable: any non-empty value decides; only the word `true` (any case) means insecure -/
def provInsecureWord (v : Env) : Option Bool := (getEnvValue v).map (fun s => toLower s == sTrue)

/-- an endpoint variable that parses decides by its scheme: `http` and `unix` are clear text, everything else is TLS -/
def provInsecureScheme (parse : Parse) (v : Env) : Option Bool :=
  ((getEnvValue v).bind parse).map (fun u => toLower u.scheme == sHttp || toLower u.scheme == sUnix)

def expectedInsecureTM (parse : Parse) (e : OtlpEnv) (opts : List UOpt) : Bool :=
  match lastSome (optInsecure parse) opts with
  | some b => b
  | none => match provInsecureWord e.insS with
    | some b => b
    | none => match provInsecureWord e.insG with
      | some b => b
      | none => match provInsecureScheme parse e.epS with
        | some b => b
        | none => match provInsecureScheme parse e.epG with
          | some b => b
          | none => false

/-! ### the headers variables as the inverse of a serialiser

`OTEL_EXPORTER_OTLP_[<SIGNAL>_]HEADERS` = `k1=v1,k2=v2,…`: split on `,`, cut at the first `=`, `TrimSpace` the name,
check it is an HTTP token, `PathUnescape` the value, `TrimSpace` it. The serialiser below writes a pair list in that
format, escaping in the value exactly the bytes the parser would otherwise interpret: `%`, `,` and ASCII white space. -/

/-- the bytes a value must carry escaped -/
def escSet : List UInt8 := [0x25, 0x2c, 0x20, 0x09, 0x0a, 0x0b, 0x0c, 0x0d]

def hexDigit (n : Nat) : UInt8 := if n < 10 then UInt8.ofNat (48 + n) else UInt8.ofNat (55 + n)

def escByte (b : UInt8) : Bytes :=
  if escSet.contains b then [0x25, hexDigit (b.toNat / 16), hexDigit (b.toNat % 16)] else [b]

def escValue (v : Bytes) : Bytes := v.flatMap escByte

def renderHdrPair (p : Bytes × Bytes) : Bytes := p.1 ++ 0x3d :: escValue p.2

def renderHdrs (ps : List (Bytes × Bytes)) : Bytes := ((ps.map renderHdrPair).intersperse [0x2c]).flatten

/-- EXACT well-formedness of a pair: the name is an HTTP token (non-empty, token characters only) and the value has no
leading or trailing ASCII white space. Nothing else is required — any byte may occur inside a value. -/
def hdrWF (p : Bytes × Bytes) : Bool := validKey p.1 && trimSpace p.2 == p.2

/-- the map a pair list denotes: later pairs replace earlier ones with the same name -/
def mapOf (ps : List (Bytes × Bytes)) : Hdrs := ps.foldl (fun m p => hInsert p.1 p.2 m) []

end Otel.C20.Spec
