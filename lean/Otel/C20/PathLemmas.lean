/-
C20 — lemmas about the `path.Clean` model (`pathClean`): split/join inverse, reduced forms, idempotence.
-/
import Otel.C20.Spec
set_option linter.unusedSimpArgs false
set_option linter.unusedVariables false
namespace Otel.C20
open Otel Otel.C20 Otel.C20.Spec

abbrev sl : UInt8 := 0x2f

theorem splitOn_ne_nil (sep : UInt8) (p : Bytes) : splitOn sep p ≠ [] := by
  induction p with
  | nil => simp [splitOn]
  | cons b r ih =>
    unfold splitOn
    by_cases h : b == sep
    · simp [h]
    · simp only [h]
      cases hs : splitOn sep r with
      | nil => simp
      | cons x t => simp

/-- `split (a ++ sep :: b) = split a ++ split b` -/
theorem splitOn_append_sep (sep : UInt8) (a b : Bytes) :
    splitOn sep (a ++ sep :: b) = splitOn sep a ++ splitOn sep b := by
  induction a with
  | nil => simp [splitOn]
  | cons x a ih =>
    simp only [List.cons_append]
    rw [splitOn, splitOn]
    by_cases h : x == sep
    · simp [h, ih]
    · simp only [h, ih]
      cases hs : splitOn sep a with
      | nil => exact absurd hs (splitOn_ne_nil sep a)
      | cons y t => simp

/-- a string without the separator is one segment -/
theorem splitOn_noSep (sep : UInt8) (a : Bytes) (h : ∀ c ∈ a, (c == sep) = false) : splitOn sep a = [a] := by
  induction a with
  | nil => simp [splitOn]
  | cons x a ih =>
    rw [splitOn]
    have hx : (x == sep) = false := h x (List.mem_cons_self ..)
    have ha := ih (fun c hc => h c (List.mem_cons_of_mem _ hc))
    simp [hx, ha]

/-- the segments of a split do not contain the separator -/
theorem splitOn_segs_noSep (sep : UInt8) (p : Bytes) : ∀ s ∈ splitOn sep p, ∀ c ∈ s, (c == sep) = false := by
  induction p with
  | nil => simp [splitOn]
  | cons b r ih =>
    rw [splitOn]
    by_cases h : b == sep
    · simp only [h, if_true]
      intro s hs
      cases hs with
      | head => simp
      | tail _ hs => exact ih s hs
    · simp only [h]
      cases hsp : splitOn sep r with
      | nil => exact absurd hsp (splitOn_ne_nil sep r)
      | cons y t =>
        rw [hsp] at ih
        intro s hs
        cases hs with
        | head =>
          intro c hc
          cases hc with
          | head => simpa using h
          | tail _ hc => exact ih y (List.mem_cons_self ..) c hc
        | tail _ hs => exact ih s (List.mem_cons_of_mem _ hs)

def NoSlash (s : Bytes) : Prop := ∀ c ∈ s, (c == sl) = false

/-- `split (join segs) = segs` for a non-empty list of slash-free segments -/
theorem splitOn_joinSlash (segs : List Bytes) (hne : segs ≠ []) (h : ∀ s ∈ segs, NoSlash s) :
    splitOn sl (joinSlash segs) = segs := by
  induction segs with
  | nil => exact absurd rfl hne
  | cons a r ih =>
    cases r with
    | nil => simpa [joinSlash] using splitOn_noSep sl a (h a (List.mem_cons_self ..))
    | cons b r' =>
      show splitOn sl (a ++ (sl :: joinSlash (b :: r'))) = _
      rw [splitOn_append_sep, splitOn_noSep sl a (h a (List.mem_cons_self ..)),
        ih (by simp) (fun s hs => h s (List.mem_cons_of_mem _ hs))]
      rfl


/-! ## reduced stacks (the stack of `cleanStep` is kept last segment first) -/

def Normal (s : Bytes) : Prop := s ≠ [] ∧ s ≠ sDot ∧ s ≠ sDotDot

/-- a stack in reduced form: normal segments on top of (only when not rooted) a run of `..` -/
inductive RedSt (r : Bool) : List Bytes → Prop
  | nil : RedSt r []
  | dd (st : List Bytes) : r = false → (∀ x ∈ st, x = sDotDot) → RedSt r (sDotDot :: st)
  | norm (s : Bytes) (st : List Bytes) : Normal s → RedSt r st → RedSt r (s :: st)

theorem normal_ne_dd {s : Bytes} (h : Normal s) : (s == sDotDot) = false := by
  have := h.2.2
  simpa using this

theorem cleanStep_red (r : Bool) (st : List Bytes) (seg : Bytes) (h : RedSt r st) :
    RedSt r (cleanStep r st seg) := by
  unfold cleanStep
  by_cases h1 : (seg == [] || seg == sDot) = true
  · simp only [h1, if_true]; exact h
  · simp only [h1]
    by_cases h2 : (seg == sDotDot) = true
    · simp only [h2, if_true]
      cases h with
      | nil =>
        cases r
        · simp; exact RedSt.dd [] rfl (by simp)
        · simp; exact RedSt.nil
      | dd st' hr hall =>
        have : seg = sDotDot := by simpa using h2
        simp only [beq_self_eq_true, if_true, this]
        exact RedSt.dd (sDotDot :: st') hr (by intro x hx; cases hx with | head => rfl | tail _ hx => exact hall x hx)
      | norm s st' hn hst =>
        simp only [normal_ne_dd hn]
        exact hst
    · simp only [h2]
      refine RedSt.norm seg st ⟨?_, ?_, ?_⟩ h
      · intro e; simp [e] at h1
      · intro e; simp [e] at h1
      · intro e; simp [e] at h2

theorem foldl_cleanStep_red (r : Bool) (segs : List Bytes) (st : List Bytes) (h : RedSt r st) :
    RedSt r (segs.foldl (cleanStep r) st) := by
  induction segs generalizing st with
  | nil => exact h
  | cons x segs ih => exact ih _ (cleanStep_red r st x h)

theorem redSt_suffix (r : Bool) (a b : List Bytes) (h : RedSt r (a ++ b)) : RedSt r b := by
  induction a with
  | nil => exact h
  | cons y a ih =>
    apply ih
    cases h with
    | dd st hr hall =>
      have hall : ∀ x ∈ a ++ b, x = sDotDot := hall
      cases hab : a ++ b with
      | nil => exact RedSt.nil
      | cons z t =>
        rw [hab] at hall
        have hz : z = sDotDot := hall z (List.mem_cons_self ..)
        rw [hz]
        exact RedSt.dd t hr (fun x hx => hall x (List.mem_cons_of_mem _ hx))
    | norm s st hn hst => exact hst

/-- pushing a segment that keeps the stack reduced is what `cleanStep` does -/
theorem cleanStep_push (r : Bool) (st : List Bytes) (x : Bytes) (h : RedSt r (x :: st)) :
    cleanStep r st x = x :: st := by
  cases h with
  | dd st' hr hall =>
    unfold cleanStep
    have e1 : (sDotDot == ([] : Bytes) || sDotDot == sDot) = false := by decide
    simp only [e1, beq_self_eq_true, if_true]
    cases st with
    | nil => simp [hr]
    | cons t rest =>
      have : t = sDotDot := hall t (List.mem_cons_self ..)
      simp [this]
  | norm s st' hn hst =>
    unfold cleanStep
    have e1 : (x == ([] : Bytes) || x == sDot) = false := by
      have a := hn.1; have b := hn.2.1
      simp [a, b]
    simp only [e1, normal_ne_dd hn]
    simp

/-- a reduced list is a fixed point of the reduction -/
theorem foldl_cleanStep_fix (r : Bool) (L st : List Bytes) (h : RedSt r (L.reverse ++ st)) :
    L.foldl (cleanStep r) st = L.reverse ++ st := by
  induction L generalizing st with
  | nil => simp
  | cons x L ih =>
    simp only [List.reverse_cons, List.append_assoc, List.singleton_append] at h
    rw [List.foldl_cons, cleanStep_push r st x (redSt_suffix r _ _ h), ih _ h]
    simp


/-! ## slash-freeness of the stack -/

theorem noSlash_dd : NoSlash sDotDot := by
  intro c hc; revert c; decide

theorem cleanStep_noSlash (r : Bool) (st : List Bytes) (seg : Bytes) (hst : ∀ s ∈ st, NoSlash s) (hseg : NoSlash seg) :
    ∀ s ∈ cleanStep r st seg, NoSlash s := by
  unfold cleanStep
  split
  · exact hst
  · split
    · cases st with
      | nil =>
        cases r <;> simp
        exact noSlash_dd
      | cons t rest =>
        simp only
        split
        · intro s hs
          cases hs with
          | head => exact hseg
          | tail _ hs => exact hst s hs
        · intro s hs; exact hst s (List.mem_cons_of_mem _ hs)
    · intro s hs
      cases hs with
      | head => exact hseg
      | tail _ hs => exact hst s hs

theorem foldl_cleanStep_noSlash (r : Bool) (segs st : List Bytes) (hst : ∀ s ∈ st, NoSlash s)
    (hsegs : ∀ s ∈ segs, NoSlash s) : ∀ s ∈ segs.foldl (cleanStep r) st, NoSlash s := by
  induction segs generalizing st with
  | nil => exact hst
  | cons x segs ih =>
    exact ih _ (cleanStep_noSlash r st x hst (hsegs x (List.mem_cons_self ..)))
      (fun s hs => hsegs s (List.mem_cons_of_mem _ hs))

/-- elements of a reduced stack are non-empty -/
theorem redSt_nonempty (r : Bool) (st : List Bytes) (h : RedSt r st) : ∀ s ∈ st, s ≠ [] := by
  induction h with
  | nil => simp
  | dd st hr hall =>
    intro s hs
    cases hs with
    | head => decide
    | tail _ hs => rw [hall s hs]; decide
  | norm s st hn hst ih =>
    intro x hx
    cases hx with
    | head => exact hn.1
    | tail _ hx => exact ih x hx

/-! ## rooting after reducing = reducing as rooted -/

def dropDD (st : List Bytes) : List Bytes := st.filter (fun s => !(s == sDotDot))

theorem dropDD_all (st : List Bytes) (h : ∀ x ∈ st, x = sDotDot) : dropDD st = [] := by
  induction st with
  | nil => rfl
  | cons x st ih =>
    have hx : x = sDotDot := h x (List.mem_cons_self ..)
    simp [dropDD, hx]
    intro a ha
    exact h a (List.mem_cons_of_mem _ ha)

theorem cleanStep_dropDD (stF : List Bytes) (seg : Bytes) (h : RedSt false stF) :
    cleanStep true (dropDD stF) seg = dropDD (cleanStep false stF seg) := by
  unfold cleanStep
  by_cases h1 : (seg == [] || seg == sDot) = true
  · simp only [h1, if_true]
  · simp only [h1]
    by_cases h2 : (seg == sDotDot) = true
    · simp only [h2, if_true]
      cases h with
      | nil => simp [dropDD]
      | dd st hr hall =>
        have e : dropDD (sDotDot :: st) = [] := dropDD_all _ (by
          intro x hx; cases hx with | head => rfl | tail _ hx => exact hall x hx)
        have hs : seg = sDotDot := by simpa using h2
        simp only [e, beq_self_eq_true, if_true, hs]
        exact (dropDD_all _ (by
          intro x hx
          cases hx with
          | head => rfl
          | tail _ hx => cases hx with | head => rfl | tail _ hx => exact hall x hx)).symm
      | norm s st hn hst =>
        have e : dropDD (s :: st) = s :: dropDD st := by simp [dropDD, normal_ne_dd hn]
        simp only [e, normal_ne_dd hn]
        simp
    · simp only [h2]
      have : (seg == sDotDot) = false := by simpa using h2
      simp [dropDD, this]

theorem foldl_cleanStep_dropDD (segs stF : List Bytes) (h : RedSt false stF) :
    segs.foldl (cleanStep true) (dropDD stF) = dropDD (segs.foldl (cleanStep false) stF) := by
  induction segs generalizing stF with
  | nil => rfl
  | cons x segs ih =>
    rw [List.foldl_cons, List.foldl_cons, cleanStep_dropDD stF x h, ih _ (cleanStep_red false stF x h)]

theorem foldl_true_all_dd (L st : List Bytes) (h : ∀ x ∈ L, x = sDotDot) (hst : st = []) :
    L.foldl (cleanStep true) st = [] := by
  induction L with
  | nil => simpa using hst
  | cons x L ih =>
    have hx : x = sDotDot := h x (List.mem_cons_self ..)
    rw [List.foldl_cons, hst, hx]
    have : cleanStep true [] sDotDot = [] := by decide
    rw [this]
    have := ih (fun y hy => h y (List.mem_cons_of_mem _ hy))
    rw [hst] at this
    exact this

/-- reducing, as a rooted path, the in-order content of a non-rooted reduced stack drops its leading `..` run -/
theorem foldl_true_of_redF (stF : List Bytes) (h : RedSt false stF) :
    stF.reverse.foldl (cleanStep true) [] = dropDD stF := by
  induction h with
  | nil => rfl
  | dd st hr hall =>
    rw [foldl_true_all_dd _ [] (by
      intro x hx
      have : x = sDotDot ∨ x ∈ st := by
        have := List.mem_reverse.mp hx
        simpa using this
      cases this with | inl h => exact h | inr hx => exact hall x hx) rfl]
    exact (dropDD_all _ (by
      intro x hx; cases hx with | head => rfl | tail _ hx => exact hall x hx)).symm
  | norm s st hn hst ih =>
    rw [List.reverse_cons, List.foldl_append, ih]
    simp only [List.foldl_cons, List.foldl_nil]
    have e : dropDD (s :: st) = s :: dropDD st := by simp [dropDD, normal_ne_dd hn]
    rw [e]
    unfold cleanStep
    have e1 : (s == ([] : Bytes) || s == sDot) = false := by
      have a := hn.1; have b := hn.2.1
      simp [a, b]
    simp [e1, normal_ne_dd hn, hn.1, hn.2.1]


/-! ## `pathClean` through stacks -/

/-- the stack (last segment first) after reducing the segments of `p` -/
def stk (r : Bool) (p : Bytes) : List Bytes := (splitOn sl p).foldl (cleanStep r) []

def isRooted (p : Bytes) : Bool := p.head? == some sl

def render (r : Bool) (L : List Bytes) : Bytes :=
  let res := if r then sl :: joinSlash L else joinSlash L
  if res.isEmpty then sDot else res

theorem pathClean_eq (p : Bytes) (h : p ≠ []) :
    pathClean p = render (isRooted p) (stk (isRooted p) p).reverse := by
  unfold pathClean render stk isRooted
  have : p.isEmpty = false := by cases p <;> simp_all
  simp [this]

theorem stk_red (r : Bool) (p : Bytes) : RedSt r (stk r p) := foldl_cleanStep_red r _ [] RedSt.nil

theorem stk_noSlash (r : Bool) (p : Bytes) : ∀ s ∈ stk r p, NoSlash s :=
  foldl_cleanStep_noSlash r _ [] (by simp) (fun s hs => splitOn_segs_noSep sl p s hs)

theorem cleanStep_empty (r : Bool) (st : List Bytes) : cleanStep r st [] = st := by
  simp [cleanStep]

theorem stk_cons_sl (r : Bool) (y : Bytes) : stk r (sl :: y) = stk r y := by
  unfold stk
  rw [splitOn]
  simp [cleanStep_empty]

theorem cleanStep_normal (r : Bool) (st : List Bytes) (a : Bytes) (ha : Normal a) : cleanStep r st a = a :: st := by
  unfold cleanStep
  have e1 : (a == ([] : Bytes) || a == sDot) = false := by
    have x := ha.1; have y := ha.2.1
    simp [x, y]
  simp [e1, normal_ne_dd ha, ha.1, ha.2.1]

/-- segments of `x ++ "/" ++ a ++ "/" ++ b` -/
theorem splitOn_sig (x a b : Bytes) (ha : NoSlash a) (hb : NoSlash b) :
    splitOn sl (x ++ sl :: (a ++ sl :: b)) = splitOn sl x ++ [a, b] := by
  rw [splitOn_append_sep, splitOn_append_sep, splitOn_noSep sl a ha, splitOn_noSep sl b hb]
  rfl

theorem stk_sig (r : Bool) (x a b : Bytes) (ha : NoSlash a) (hb : NoSlash b) (na : Normal a) (nb : Normal b) :
    stk r (x ++ sl :: (a ++ sl :: b)) = b :: a :: stk r x := by
  unfold stk
  rw [splitOn_sig x a b ha hb, List.foldl_append]
  simp [cleanStep_normal, na, nb]

theorem stk_nil (r : Bool) : stk r [] = [] := by
  simp [stk, splitOn, cleanStep_empty]

/-- `join (M ++ [a, b])` ends with `/a/b` (or is `a/b`) -/
theorem joinSlash_append2 (M : List Bytes) (a b : Bytes) :
    sl :: joinSlash (M ++ [a, b]) = (if M = [] then [] else sl :: joinSlash M) ++ sl :: (a ++ sl :: b) := by
  induction M with
  | nil => simp [joinSlash]
  | cons m M ih =>
    cases M with
    | nil => simp [joinSlash]
    | cons m2 M2 =>
      have e1 : joinSlash (m :: m2 :: (M2 ++ [a, b])) = m ++ (sl :: joinSlash (m2 :: (M2 ++ [a, b]))) := by
        simp [joinSlash]
      have e2 : joinSlash (m :: m2 :: M2) = m ++ (sl :: joinSlash (m2 :: M2)) := by simp [joinSlash]
      simp only [List.cons_append] at ih ⊢
      rw [e1, ih]
      simp [e2]


theorem joinSlash_head (m : Bytes) (M : List Bytes) (hm : m ≠ []) : (joinSlash (m :: M)).head? = m.head? := by
  cases M with
  | nil => simp [joinSlash]
  | cons m2 M2 =>
    have : joinSlash (m :: m2 :: M2) = m ++ (sl :: joinSlash (m2 :: M2)) := by simp [joinSlash]
    rw [this]
    cases m with
    | nil => exact absurd rfl hm
    | cons c t => simp

/-- the rendered form of a non-empty reduced stack: its shape, rootedness, and its stacks -/
theorem render_props (r : Bool) (St : List Bytes) (hred : RedSt r St) (hne : St ≠ [])
    (hns : ∀ s ∈ St, NoSlash s) :
    render r St.reverse = (if r then sl :: joinSlash St.reverse else joinSlash St.reverse)
    ∧ isRooted (render r St.reverse) = r
    ∧ stk r (render r St.reverse) = St
    ∧ stk true (sl :: joinSlash St.reverse) = (if r then St else dropDD St) := by
  have hLne : St.reverse ≠ [] := by simpa using hne
  have hLns : ∀ s ∈ St.reverse, NoSlash s := fun s hs => hns s (List.mem_reverse.mp hs)
  have hLnonempty : ∀ s ∈ St.reverse, s ≠ [] := fun s hs => redSt_nonempty r St hred s (List.mem_reverse.mp hs)
  have hsplit : splitOn sl (joinSlash St.reverse) = St.reverse := splitOn_joinSlash _ hLne hLns
  cases hL : St.reverse with
  | nil => exact absurd hL hLne
  | cons m M =>
    have hm : m ≠ [] := hLnonempty m (by rw [hL]; exact List.mem_cons_self ..)
    have hmns : NoSlash m := hLns m (by rw [hL]; exact List.mem_cons_self ..)
    have hjne : joinSlash (m :: M) ≠ [] := by
      intro e
      have := joinSlash_head m M hm
      rw [e] at this
      cases m with
      | nil => exact hm rfl
      | cons c t => simp at this
    have hjhead : (joinSlash (m :: M)).head? ≠ some sl := by
      rw [joinSlash_head m M hm]
      cases m with
      | nil => exact absurd rfl hm
      | cons c t =>
        have := hmns c (List.mem_cons_self ..)
        simp only [List.head?_cons]
        intro e
        have : c = sl := by simpa using e
        simp [this] at *
    have hrender : render r (m :: M) = (if r then sl :: joinSlash (m :: M) else joinSlash (m :: M)) := by
      unfold render
      cases r
      · have : (joinSlash (m :: M)).isEmpty = false := by
          cases hj : joinSlash (m :: M) with
          | nil => exact absurd hj hjne
          | cons _ _ => rfl
        simp [this]
      · simp
    have hfix : (m :: M).foldl (cleanStep r) [] = St := by
      have := foldl_cleanStep_fix r (m :: M) [] (by rw [← hL]; simpa using hred)
      rw [this, ← hL]; simp
    rw [hL] at hsplit
    refine ⟨hrender, ?_, ?_, ?_⟩
    · rw [hrender]
      cases r
      · simp only [isRooted]
        simp [hjhead]
      · simp [isRooted]
    · rw [hrender]
      cases r
      · simp only [stk, Bool.false_eq_true, if_false, hsplit]
        exact hfix
      · simp only [if_true]
        rw [stk_cons_sl]
        simp only [stk, hsplit]
        exact hfix
    · rw [stk_cons_sl]
      simp only [stk, hsplit]
      cases r
      · have := foldl_true_of_redF St hred
        rw [hL] at this
        simpa using this
      · simpa using hfix


theorem rootedClean_eq (x : Bytes) : rootedClean x = render true (stk true x).reverse := by
  unfold rootedClean
  rw [pathClean_eq (0x2f :: x) (by simp)]
  have : isRooted (0x2f :: x) = true := by simp [isRooted]
  rw [this]
  have : stk true (0x2f :: x) = stk true x := stk_cons_sl true x
  rw [this]

theorem dropDD_normal2 (a b : Bytes) (S : List Bytes) (na : Normal a) (nb : Normal b) :
    dropDD (b :: a :: S) = b :: a :: dropDD S := by
  simp [dropDD, normal_ne_dd na, normal_ne_dd nb]

theorem dropDD_stk (p : Bytes) : dropDD (stk false p) = stk true p := by
  unfold stk
  have := foldl_cleanStep_dropDD (splitOn sl p) [] RedSt.nil
  simpa [dropDD] using this.symm

/-- the core: `J` is the rendered form of a reduced stack topped by the two signal path segments -/
theorem generic_core (r : Bool) (S0 : List Bytes) (a b : Bytes) (hred : RedSt r S0) (hns : ∀ s ∈ S0, NoSlash s)
    (ha : NoSlash a) (hb : NoSlash b) (na : Normal a) (nb : Normal b)
    (htrim : trimSpace (render r (b :: a :: S0).reverse) = render r (b :: a :: S0).reverse) :
    cleanPath (render r (b :: a :: S0).reverse) (sl :: (a ++ sl :: b)) = sl :: joinSlash (S0.reverse ++ [a, b])
    ∧ endsWith (sl :: joinSlash (S0.reverse ++ [a, b])) (sl :: (a ++ sl :: b)) = true
    ∧ rootedClean (sl :: joinSlash (S0.reverse ++ [a, b])) =
        render true (b :: a :: (if r then S0 else dropDD S0)).reverse := by
  have hredSt : RedSt r (b :: a :: S0) := RedSt.norm b _ nb (RedSt.norm a _ na hred)
  have hnsSt : ∀ s ∈ b :: a :: S0, NoSlash s := by
    intro s hs
    cases hs with
    | head => exact hb
    | tail _ hs => cases hs with
      | head => exact ha
      | tail _ hs => exact hns s hs
  have hrev : (b :: a :: S0).reverse = S0.reverse ++ [a, b] := by simp
  obtain ⟨p1, p2, p3, p4⟩ := render_props r (b :: a :: S0) hredSt (by simp) hnsSt
  rw [hrev] at p1 p2 p3 p4 htrim ⊢
  have hA := joinSlash_append2 S0.reverse a b
  have hJne : render r (S0.reverse ++ [a, b]) ≠ [] := by
    rw [p1]
    cases r
    · intro e
      simp only [Bool.false_eq_true, if_false] at e
      rw [e] at hA
      have := congrArg List.length hA
      simp at this
      omega
    · simp
  have hJdot : (render r (S0.reverse ++ [a, b]) == sDot) = false := by
    rw [p1]
    cases r
    · simp only [Bool.false_eq_true, if_false]
      cases hj : (joinSlash (S0.reverse ++ [a, b]) == sDot) with
      | false => rfl
      | true =>
        have e : joinSlash (S0.reverse ++ [a, b]) = sDot := by simpa using hj
        rw [e] at hA
        have h1 := congrArg List.length hA
        have la : 1 ≤ a.length := by
          cases a with
          | nil => exact absurd rfl na.1
          | cons _ _ => simp
        have lb : 1 ≤ b.length := by
          cases b with
          | nil => exact absurd rfl nb.1
          | cons _ _ => simp
        simp [sDot] at h1
        omega
    · simp only [if_true]
      cases hj : (sl :: joinSlash (S0.reverse ++ [a, b]) == sDot) with
      | false => rfl
      | true =>
        have e : sl :: joinSlash (S0.reverse ++ [a, b]) = sDot := by simpa using hj
        have := (List.cons.inj e).1
        exact absurd this (by decide)
  have hpc : pathClean (render r (S0.reverse ++ [a, b])) = render r (S0.reverse ++ [a, b]) := by
    rw [pathClean_eq _ hJne, p2, p3, hrev]
  refine ⟨?_, ?_, ?_⟩
  · unfold cleanPath
    rw [htrim, hpc]
    simp only [hJdot]
    have hhead : ((render r (S0.reverse ++ [a, b])).head? != some 0x2f) = !r := by
      have := p2
      unfold isRooted at this
      cases r <;> simp_all
    simp only [hhead]
    rw [p1]
    cases r <;> simp
  · rw [hA]
    simp [endsWith]
  · rw [rootedClean_eq, p4]
    cases r
    · simp only [Bool.false_eq_true, if_false, dropDD_normal2 a b S0 na nb]
    · simp


theorem stk_append_sl (r : Bool) (x : Bytes) : stk r (x ++ [sl]) = stk r x := by
  unfold stk
  rw [splitOn_append_sep, List.foldl_append]
  simp [splitOn, cleanStep_empty]

theorem isRooted_append (x y : Bytes) (hx : x ≠ []) : isRooted (x ++ y) = isRooted x := by
  cases x with
  | nil => exact absurd rfl hx
  | cons c t => simp [isRooted]

/-- `cleanPath(path.Join(base, "/a/b"))` is `base` followed by `/a/b` up to path normalisation, for every base whose
joined path does not begin with white space -/
theorem generic_ab (base a b : Bytes) (ha : NoSlash a) (hb : NoSlash b) (na : Normal a) (nb : Normal b)
    (htrim : trimSpace (pathJoin base (sl :: (a ++ sl :: b))) = pathJoin base (sl :: (a ++ sl :: b))) :
    endsWith (cleanPath (pathJoin base (sl :: (a ++ sl :: b))) (sl :: (a ++ sl :: b))) (sl :: (a ++ sl :: b)) = true
    ∧ rootedClean (cleanPath (pathJoin base (sl :: (a ++ sl :: b))) (sl :: (a ++ sl :: b))) =
        rootedClean (base ++ sl :: (a ++ sl :: b)) := by
  have hsig : stk true (sl :: (a ++ sl :: b)) = [b, a] := by
    have := stk_sig true [] a b ha hb na nb
    simpa [stk_nil] using this
  by_cases hbase : base = []
  · subst hbase
    have hJ : pathJoin [] (sl :: (a ++ sl :: b)) = render true ([b, a] : List Bytes).reverse := by
      unfold pathJoin
      simp only [List.isEmpty_nil, if_true, List.isEmpty_cons, Bool.false_eq_true, if_false]
      rw [pathClean_eq _ (by simp)]
      have : isRooted (sl :: (a ++ sl :: b)) = true := by simp [isRooted]
      rw [this, hsig]
    rw [hJ] at htrim ⊢
    obtain ⟨c1, c2, c3⟩ := generic_core true [] a b RedSt.nil (by simp) ha hb na nb htrim
    simp only [List.reverse_nil, List.nil_append] at c1 c2 c3
    rw [c1]
    refine ⟨c2, ?_⟩
    rw [c3, List.nil_append, rootedClean_eq, hsig]
    simp
  · have hbe : base.isEmpty = false := by cases base <;> simp_all
    have hX : base ++ (0x2f :: (sl :: (a ++ sl :: b))) = (base ++ [sl]) ++ sl :: (a ++ sl :: b) := by simp
    have hJ : pathJoin base (sl :: (a ++ sl :: b)) =
        render (isRooted base) (b :: a :: stk (isRooted base) base).reverse := by
      unfold pathJoin
      simp only [hbe, Bool.false_eq_true, if_false]
      rw [pathClean_eq _ (by simp [hbase]), hX, isRooted_append _ _ (by simp), isRooted_append _ _ hbase,
        stk_sig _ _ a b ha hb na nb, stk_append_sl]
    rw [hJ] at htrim ⊢
    obtain ⟨c1, c2, c3⟩ := generic_core (isRooted base) (stk (isRooted base) base) a b (stk_red _ _)
      (stk_noSlash _ _) ha hb na nb htrim
    rw [c1]
    refine ⟨c2, ?_⟩
    rw [c3, rootedClean_eq, stk_sig true base a b ha hb na nb]
    cases hr : isRooted base
    · simp only [Bool.false_eq_true, if_false, dropDD_stk]
    · simp

/-- the two signal paths in the `/a/b` form -/
theorem sTraces_form : sTraces = sl :: ([0x76, 0x31] ++ sl :: [0x74, 0x72, 0x61, 0x63, 0x65, 0x73]) := by decide
theorem sMetrics_form : sMetrics = sl :: ([0x76, 0x31] ++ sl :: [0x6d, 0x65, 0x74, 0x72, 0x69, 0x63, 0x73]) := by decide

end Otel.C20
